package main

import (
	"fmt"
	"go/ast"
	"go/token"
	"strconv"
	"strings"
)

// C20: the ANSI strings of pkg/multiterm/cursor.go, the literals printed by TermWriter.goTo / Close
// (multiterm.go) and the two rune literals of the trimming scanner (linetrim.go), as byte lists.
// Theorems in Rare/Props/C20.lean are stated over these definitions.

func c20Bytes(s string) string {
	parts := make([]string, len(s))
	for i := 0; i < len(s); i++ {
		parts[i] = fmt.Sprintf("0x%02x", s[i])
	}
	return "[" + strings.Join(parts, ", ") + "]"
}

// c20CallArgs returns, in source order, the argument lists of every call to `name`
// (plain identifier or pkg.selector form "fmt.Print") inside fd.
func c20CallArgs(fd *ast.FuncDecl, name string) [][]ast.Expr {
	var out [][]ast.Expr
	if fd == nil {
		return nil
	}
	ast.Inspect(fd, func(n ast.Node) bool {
		call, ok := n.(*ast.CallExpr)
		if !ok {
			return true
		}
		switch f := call.Fun.(type) {
		case *ast.Ident:
			if f.Name == name {
				out = append(out, call.Args)
			}
		case *ast.SelectorExpr:
			if id, ok := f.X.(*ast.Ident); ok && id.Name+"."+f.Sel.Name == name {
				out = append(out, call.Args)
			}
		}
		return true
	})
	return out
}

func init() {
	RegisterGen("C20", func(c *Ctx) string {
		var sb strings.Builder
		sb.WriteString("namespace Rare.Gen.C20\n\n")
		const cur = "pkg/multiterm/cursor.go"
		const mt = "pkg/multiterm/multiterm.go"
		const lt = "pkg/multiterm/linetrim.go"
		for _, fn := range []string{"escape", "moveUpf", "moveUp", "hideCursor", "showCursor", "eraseRemainingLine"} {
			c.Fingerprint(cur, fn)
		}
		for _, fn := range []string{"New", "TermWriter.WriteForLine", "TermWriter.Close", "TermWriter.goTo", "TermWriter.writeAtCursor"} {
			c.Fingerprint(mt, fn)
		}
		c.Fingerprint(lt, "WriteLineNoWrap")
		c.Fingerprint("pkg/multiterm/virtualterm.go", "VirtualTerm.WriteForLine")
		c.Fingerprint("pkg/multiterm/virtualterm.go", "VirtualTerm.WriteToOutput")
		c.Fingerprint("pkg/multiterm/bufferedterm.go", "BufferedTerm.Close")

		def := func(name, doc, val string, ok bool) {
			if ok {
				fmt.Fprintf(&sb, "/-- %s -/\ndef %s : List UInt8 := %s\n\n", doc, name, c20Bytes(val))
			} else {
				sb.WriteString(untranslatable(name))
			}
		}

		// const ESCAPE inside escape()
		esc, ok := StringLit(c.LocalConst(c.Func(cur, "escape"), "ESCAPE"))
		def("escape", "cursor.go: const ESCAPE", esc, ok)

		// first argument of the single escape(...) call of a function
		escArg := func(fn string) (string, bool) {
			calls := c20CallArgs(c.Func(cur, fn), "escape")
			if len(calls) != 1 || len(calls[0]) < 1 {
				return "", false
			}
			return StringLit(calls[0][0])
		}
		up, ok := escArg("moveUpf")
		pre, post := "", ""
		if ok {
			parts := strings.Split(up, "%d")
			if len(parts) == 2 && !strings.Contains(parts[0]+parts[1], "%") {
				pre, post = parts[0], parts[1]
			} else {
				ok = false
			}
		}
		def("upPre", "cursor.go moveUpf: format before %d", pre, ok)
		def("upPost", "cursor.go moveUpf: format after %d", post, ok)
		s, ok := escArg("hideCursor")
		def("hide", "cursor.go hideCursor", s, ok && !strings.Contains(s, "%"))
		s, ok = escArg("showCursor")
		def("unhide", "cursor.go showCursor", s, ok && !strings.Contains(s, "%"))
		s, ok = escArg("eraseRemainingLine")
		def("erase", "cursor.go eraseRemainingLine", s, ok && !strings.Contains(s, "%"))

		// goTo: fmt.Print("\n") in the first loop, fmt.Print("\r") at the end; moveUp(1) in the second loop
		prints := c20CallArgs(c.Func(mt, "TermWriter.goTo"), "fmt.Print")
		if len(prints) == 2 && len(prints[0]) == 1 && len(prints[1]) == 1 {
			a, ok1 := StringLit(prints[0][0])
			b, ok2 := StringLit(prints[1][0])
			def("gotoDown", "multiterm.go goTo: printed per line moved down", a, ok1)
			def("gotoReturn", "multiterm.go goTo: printed last", b, ok2)
		} else {
			sb.WriteString(untranslatable("gotoDown"))
			sb.WriteString(untranslatable("gotoReturn"))
		}
		ups := c20CallArgs(c.Func(mt, "TermWriter.goTo"), "moveUp")
		if len(ups) == 1 && len(ups[0]) == 1 {
			if n, ok := IntLit(ups[0][0]); ok {
				fmt.Fprintf(&sb, "/-- multiterm.go goTo: argument of moveUp -/\ndef gotoUpArg : Int := %d\n\n", n)
			} else {
				sb.WriteString(untranslatable("gotoUpArg"))
			}
		} else {
			sb.WriteString(untranslatable("gotoUpArg"))
		}
		// Close: fmt.Println() with no arguments prints "\n"
		pl := c20CallArgs(c.Func(mt, "TermWriter.Close"), "fmt.Println")
		def("closeNl", "multiterm.go Close: fmt.Println()", "\n", len(pl) == 1 && len(pl[0]) == 0)

		// linetrim.go: the rune literals compared against runes[i]
		var chars []int64
		if fd := c.Func(lt, "WriteLineNoWrap"); fd != nil {
			ast.Inspect(fd, func(n ast.Node) bool {
				if bl, ok := n.(*ast.BasicLit); ok && bl.Kind == token.CHAR {
					if s, err := strconv.Unquote(bl.Value); err == nil && len([]rune(s)) == 1 {
						chars = append(chars, int64([]rune(s)[0]))
					}
				}
				return true
			})
		}
		if len(chars) == 2 {
			fmt.Fprintf(&sb, "/-- linetrim.go: rune that starts a colour sequence -/\ndef trimEsc : Nat := %d\n\n", chars[0])
			fmt.Fprintf(&sb, "/-- linetrim.go: rune that ends a colour sequence -/\ndef trimEnd : Nat := %d\n\n", chars[1])
		} else {
			sb.WriteString(untranslatable("trimEsc"))
			sb.WriteString(untranslatable("trimEnd"))
		}
		sb.WriteString("end Rare.Gen.C20\n")
		return sb.String()
	})
}
