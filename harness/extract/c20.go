package main

import (
	"fmt"
	"go/ast"
	"go/token"
	"strconv"
	"strings"
)

// C20: the ANSI strings of pkg/multiterm/cursor.go, the literals printed by TermWriter.goTo / Close
// (multiterm.go) and the two rune literals of the trimming scanner (linetrim.go), as byte lists.
// Theorems in Rare/Props/C20.lean are stated over these definitions.

func c20Bytes(s string) string {
	parts := make([]string, len(s))
	for i := 0; i < len(s); i++ {
		parts[i] = fmt.Sprintf("0x%02x", s[i])
	}
	return "[" + strings.Join(parts, ", ") + "]"
}

// c20CallArgs returns, in source order, the argument lists of every call to `name`
// (plain identifier or pkg.selector form "fmt.Print") inside fd.
func c20CallArgs(fd *ast.FuncDecl, name string) [][]ast.Expr {
	var out [][]ast.Expr
	if fd == nil {
		return nil
	}
	ast.Inspect(fd, func(n ast.Node) bool {
		call, ok := n.(*ast.CallExpr)
		if !ok {
			return true
		}
		switch f := call.Fun.(type) {
		case *ast.Ident:
			if f.Name == name {
				out = append(out, call.Args)
			}
		case *ast.SelectorExpr:
			if id, ok := f.X.(*ast.Ident); ok && id.Name+"."+f.Sel.Name == name {
				out = append(out, call.Args)
			}
		}
		return true
	})
	return out
}

// ---- statement translator for the cursor bookkeeping of TermWriter (multiterm.go) ----
//
// New / goTo / writeAtCursor / WriteForLine / Close are translated statement by statement into Lean
// functions over `W × List Ev` (the writer's fields, and the output-producing calls in program
// order).  The Go subset: `if c { … }` without else, `for i := e; i <op> e; i++|i-- { … }`,
// `s.f++ / s.f-- / s.f = e`, calls of fmt.Print(lit) / fmt.Println() / moveUp(e) / hideCursor() /
// showCursor() / eraseRemainingLine() / WriteLineNoWrap(os.Stdout, x) / s.goTo(e) /
// s.writeAtCursor(x); integer and boolean expressions over the int parameters, the loop variable
// and the receiver's fields.  Anything else makes the function untranslatable (its definition is
// then missing and the theorems of Props/C20 that mention it stop compiling).

var c20Fields = map[string][2]string{ // Go field -> Lean field, type
	"cursor":       {"cursor", "int"},
	"cursorHidden": {"cursorHidden", "bool"},
	"maxLine":      {"maxLine", "int"},
	"ClearLine":    {"clearLine", "bool"},
	"HideCursor":   {"hideCursor", "bool"},
}

type c20tr struct {
	recv string
	ints map[string]bool // int-typed locals in scope (parameters, loop variables)
	bad  string
	// scanner mode (linetrim.go): `len(<slice>)` is the variable len, `<slice>[<idx>]` is the current rune r
	slice, idx string
}

func (t *c20tr) fail(why string) string {
	if t.bad == "" {
		t.bad = why
	}
	return "sorryAx _"
}

func (t *c20tr) expr(e ast.Expr) (string, string) {
	switch v := e.(type) {
	case *ast.ParenExpr:
		return t.expr(v.X)
	case *ast.BasicLit:
		if n, ok := IntLit(v); ok && (v.Kind == token.INT || (v.Kind == token.CHAR && t.slice != "")) {
			return fmt.Sprintf("(%d : Int)", n), "int"
		}
	case *ast.CallExpr:
		if id, ok := v.Fun.(*ast.Ident); ok && id.Name == "len" && len(v.Args) == 1 && t.slice != "" {
			if a, ok := v.Args[0].(*ast.Ident); ok && a.Name == t.slice {
				return "len", "int"
			}
		}
	case *ast.IndexExpr:
		if a, ok := v.X.(*ast.Ident); ok && t.slice != "" && a.Name == t.slice {
			if ix, ok := v.Index.(*ast.Ident); ok && ix.Name == t.idx {
				return "r", "int"
			}
		}
	case *ast.Ident:
		if v.Name == "true" || v.Name == "false" {
			return v.Name, "bool"
		}
		if t.ints[v.Name] {
			return v.Name, "int"
		}
	case *ast.SelectorExpr:
		if id, ok := v.X.(*ast.Ident); ok && id.Name == t.recv {
			if f, ok := c20Fields[v.Sel.Name]; ok {
				return "s.1." + f[0], f[1]
			}
		}
	case *ast.UnaryExpr:
		if v.Op == token.NOT {
			a, ta := t.expr(v.X)
			if ta == "bool" {
				return "(!" + a + ")", "bool"
			}
		}
	case *ast.BinaryExpr:
		a, ta := t.expr(v.X)
		b, tb := t.expr(v.Y)
		switch v.Op {
		case token.LSS, token.GTR, token.LEQ, token.GEQ, token.EQL, token.NEQ:
			if ta == "int" && tb == "int" {
				op := map[token.Token]string{token.LSS: "<", token.GTR: ">", token.LEQ: "≤", token.GEQ: "≥", token.EQL: "=", token.NEQ: "≠"}[v.Op]
				return fmt.Sprintf("decide (%s %s %s)", a, op, b), "bool"
			}
		case token.LAND, token.LOR:
			if ta == "bool" && tb == "bool" {
				op := map[token.Token]string{token.LAND: "&&", token.LOR: "||"}[v.Op]
				return fmt.Sprintf("(%s %s %s)", a, op, b), "bool"
			}
		case token.ADD, token.SUB:
			if ta == "int" && tb == "int" {
				return fmt.Sprintf("(%s %s %s)", a, v.Op.String(), b), "int"
			}
		}
	}
	return t.fail(fmt.Sprintf("expression %T", e)), "?"
}

func (t *c20tr) recvField(e ast.Expr) (string, string, bool) {
	if se, ok := e.(*ast.SelectorExpr); ok {
		if id, ok := se.X.(*ast.Ident); ok && id.Name == t.recv {
			if f, ok := c20Fields[se.Sel.Name]; ok {
				return f[0], f[1], true
			}
		}
	}
	return "", "", false
}

func c20CallName(call *ast.CallExpr) string {
	switch f := call.Fun.(type) {
	case *ast.Ident:
		return f.Name
	case *ast.SelectorExpr:
		if id, ok := f.X.(*ast.Ident); ok {
			return id.Name + "." + f.Sel.Name
		}
	}
	return ""
}

func (t *c20tr) emitEv(ev string) string { return fmt.Sprintf("(s.1, s.2 ++ [%s])", ev) }

// stmt returns the Lean term for the state after the statement (in terms of the state `s` before it)
func (t *c20tr) stmt(st ast.Stmt) string {
	switch v := st.(type) {
	case *ast.IfStmt:
		if v.Init != nil || v.Else != nil {
			return t.fail("if with init/else")
		}
		c, tc := t.expr(v.Cond)
		if tc != "bool" {
			return t.fail("if condition")
		}
		return fmt.Sprintf("if %s then (%s) else s", c, t.block(v.Body.List))
	case *ast.ForStmt:
		init, ok := v.Init.(*ast.AssignStmt)
		if !ok || init.Tok != token.DEFINE || len(init.Lhs) != 1 || len(init.Rhs) != 1 {
			return t.fail("for init")
		}
		iv, ok := init.Lhs[0].(*ast.Ident)
		if !ok || t.ints[iv.Name] {
			return t.fail("for variable")
		}
		start, ts := t.expr(init.Rhs[0])
		if ts != "int" {
			return t.fail("for start")
		}
		post, ok := v.Post.(*ast.IncDecStmt)
		if !ok {
			return t.fail("for post")
		}
		if pid, ok := post.X.(*ast.Ident); !ok || pid.Name != iv.Name {
			return t.fail("for post variable")
		}
		step := "+"
		if post.Tok == token.DEC {
			step = "-"
		}
		t.ints[iv.Name] = true
		cond, tc := t.expr(v.Cond)
		body := t.block(v.Body.List)
		delete(t.ints, iv.Name)
		if tc != "bool" {
			return t.fail("for condition")
		}
		return fmt.Sprintf("forLoop fuel (fun %s => %s) (fun %s => %s %s 1) (fun %s s => (%s)) %s s",
			iv.Name, cond, iv.Name, iv.Name, step, iv.Name, body, start)
	case *ast.IncDecStmt:
		f, tf, ok := t.recvField(v.X)
		if !ok || tf != "int" {
			return t.fail("inc/dec target")
		}
		op := "+"
		if v.Tok == token.DEC {
			op = "-"
		}
		return fmt.Sprintf("({ s.1 with %s := s.1.%s %s 1 }, s.2)", f, f, op)
	case *ast.AssignStmt:
		if v.Tok != token.ASSIGN || len(v.Lhs) != 1 || len(v.Rhs) != 1 {
			return t.fail("assignment form")
		}
		f, tf, ok := t.recvField(v.Lhs[0])
		if !ok {
			return t.fail("assignment target")
		}
		e, te := t.expr(v.Rhs[0])
		if te != tf {
			return t.fail("assignment type")
		}
		return fmt.Sprintf("({ s.1 with %s := %s }, s.2)", f, e)
	case *ast.ExprStmt:
		call, ok := v.X.(*ast.CallExpr)
		if !ok {
			return t.fail("expression statement")
		}
		switch name := c20CallName(call); name {
		case "fmt.Print":
			if len(call.Args) == 1 {
				if lit, ok := StringLit(call.Args[0]); ok {
					return t.emitEv("Ev.print " + c20Bytes(lit))
				}
			}
		case "fmt.Println":
			if len(call.Args) == 0 {
				return t.emitEv("Ev.print " + c20Bytes("\n"))
			}
		case "moveUp":
			if len(call.Args) == 1 {
				if e, te := t.expr(call.Args[0]); te == "int" {
					return t.emitEv("Ev.moveUp " + e)
				}
			}
		case "hideCursor", "showCursor", "eraseRemainingLine":
			if len(call.Args) == 0 {
				return t.emitEv("Ev." + name)
			}
		case "WriteLineNoWrap":
			if len(call.Args) == 2 {
				if se, ok := call.Args[0].(*ast.SelectorExpr); ok {
					if id, ok := se.X.(*ast.Ident); ok && id.Name == "os" && se.Sel.Name == "Stdout" {
						if _, ok := call.Args[1].(*ast.Ident); ok {
							return t.emitEv("Ev.writeLineNoWrap")
						}
					}
				}
			}
		case t.recv + ".goTo":
			if len(call.Args) == 1 {
				if e, te := t.expr(call.Args[0]); te == "int" {
					return fmt.Sprintf("goTo fuel %s s", e)
				}
			}
		case t.recv + ".writeAtCursor":
			if len(call.Args) == 1 {
				if _, ok := call.Args[0].(*ast.Ident); ok {
					return "writeAtCursor fuel s"
				}
			}
		}
		return t.fail("call " + c20CallName(call))
	}
	return t.fail(fmt.Sprintf("statement %T", st))
}

func (t *c20tr) block(list []ast.Stmt) string {
	var sb strings.Builder
	for _, st := range list {
		sb.WriteString("let s := " + t.stmt(st) + "; ")
	}
	sb.WriteString("s")
	return sb.String()
}

// c20Func emits `def <leanName> (fuel : Nat) (<int params>) (s : W × List Ev) : W × List Ev`.
func c20Func(c *Ctx, sb *strings.Builder, file, goName, leanName, doc string) {
	fd := c.Func(file, goName)
	if fd == nil || fd.Body == nil || fd.Recv == nil || len(fd.Recv.List) != 1 || len(fd.Recv.List[0].Names) != 1 ||
		(fd.Type.Results != nil && len(fd.Type.Results.List) > 0) {
		sb.WriteString(untranslatable(leanName))
		return
	}
	t := &c20tr{recv: fd.Recv.List[0].Names[0].Name, ints: map[string]bool{}}
	params := ""
	for _, f := range fd.Type.Params.List {
		id, ok := f.Type.(*ast.Ident)
		if !ok || (id.Name != "int" && id.Name != "string") {
			sb.WriteString(untranslatable(leanName))
			return
		}
		for _, n := range f.Names {
			if id.Name == "int" {
				t.ints[n.Name] = true
				params += fmt.Sprintf(" (%s : Int)", n.Name)
			}
		}
	}
	var lines []string
	for _, st := range fd.Body.List {
		lines = append(lines, "  let s := "+t.stmt(st))
	}
	if t.bad != "" {
		fmt.Fprintf(sb, "-- %s: %s\n", goName, t.bad)
		sb.WriteString(untranslatable(leanName))
		return
	}
	fmt.Fprintf(sb, "/-- %s -/\ndef %s (fuel : Nat)%s (s : W × List Ev) : W × List Ev :=\n%s\n  s\n\n", doc, leanName, params, strings.Join(lines, "\n"))
}

// c20New emits the composite literal returned by New() as a W.
func c20New(c *Ctx, sb *strings.Builder, file string) {
	fd := c.Func(file, "New")
	vals := map[string]string{"cursor": "0", "cursorHidden": "false", "maxLine": "0", "clearLine": "false", "hideCursor": "false"}
	ok := fd != nil && fd.Body != nil && len(fd.Body.List) == 1
	if ok {
		ret, isRet := fd.Body.List[0].(*ast.ReturnStmt)
		ok = isRet && len(ret.Results) == 1
		if ok {
			var lit *ast.CompositeLit
			if u, isU := ret.Results[0].(*ast.UnaryExpr); isU && u.Op == token.AND {
				lit, _ = u.X.(*ast.CompositeLit)
			}
			ok = lit != nil
			if ok {
				t := &c20tr{recv: "", ints: map[string]bool{}}
				for _, el := range lit.Elts {
					kv, isKV := el.(*ast.KeyValueExpr)
					if !isKV {
						ok = false
						break
					}
					k, isId := kv.Key.(*ast.Ident)
					if !isId {
						ok = false
						break
					}
					f, known := c20Fields[k.Name]
					e, te := t.expr(kv.Value)
					if !known || te != f[1] || t.bad != "" {
						ok = false
						break
					}
					vals[f[0]] = e
				}
			}
		}
	}
	if !ok {
		sb.WriteString(untranslatable("new"))
		return
	}
	fmt.Fprintf(sb, "/-- multiterm.go New() -/\ndef new : W :=\n  { cursor := %s, cursorHidden := %s, maxLine := %s, clearLine := %s, hideCursor := %s }\n\n",
		vals["cursor"], vals["cursorHidden"], vals["maxLine"], vals["clearLine"], vals["hideCursor"])
}

const c20Prelude = `/-- the fields of TermWriter -/
structure W where
  cursor : Int
  cursorHidden : Bool
  maxLine : Int
  clearLine : Bool
  hideCursor : Bool
  deriving DecidableEq, Repr

/-- the calls that write to the terminal, in program order -/
inductive Ev where
  | print (b : List UInt8)
  | moveUp (n : Int)
  | hideCursor
  | showCursor
  | eraseRemainingLine
  | writeLineNoWrap
  deriving DecidableEq, Repr

/-- Go ` + "`for i := start; cond i; i = next i { body }`" + ` (at most ` + "`fuel`" + ` iterations) -/
def forLoop (fuel : Nat) (cond : Int → Bool) (next : Int → Int) (body : Int → W × List Ev → W × List Ev) :
    Int → W × List Ev → W × List Ev :=
  match fuel with
  | 0 => fun _ s => s
  | f + 1 => fun i s => if cond i then forLoop f cond next body (next i) (body i s) else s

`

func init() {
	RegisterGen("C20", func(c *Ctx) string {
		var sb strings.Builder
		sb.WriteString("namespace Rare.Gen.C20\n\n")
		const cur = "pkg/multiterm/cursor.go"
		const mt = "pkg/multiterm/multiterm.go"
		const lt = "pkg/multiterm/linetrim.go"
		for _, fn := range []string{"escape", "moveUpf", "moveUp", "hideCursor", "showCursor", "eraseRemainingLine"} {
			c.Fingerprint(cur, fn)
		}
		for _, fn := range []string{"New", "TermWriter.WriteForLine", "TermWriter.Close", "TermWriter.goTo", "TermWriter.writeAtCursor"} {
			c.Fingerprint(mt, fn)
		}
		c.Fingerprint(lt, "WriteLineNoWrap")
		c.Fingerprint("pkg/multiterm/virtualterm.go", "VirtualTerm.WriteForLine")
		c.Fingerprint("pkg/multiterm/virtualterm.go", "VirtualTerm.WriteToOutput")
		c.Fingerprint("pkg/multiterm/bufferedterm.go", "BufferedTerm.Close")

		def := func(name, doc, val string, ok bool) {
			if ok {
				fmt.Fprintf(&sb, "/-- %s -/\ndef %s : List UInt8 := %s\n\n", doc, name, c20Bytes(val))
			} else {
				sb.WriteString(untranslatable(name))
			}
		}

		// const ESCAPE inside escape()
		esc, ok := StringLit(c.LocalConst(c.Func(cur, "escape"), "ESCAPE"))
		def("escape", "cursor.go: const ESCAPE", esc, ok)

		// first argument of the single escape(...) call of a function
		escArg := func(fn string) (string, bool) {
			calls := c20CallArgs(c.Func(cur, fn), "escape")
			if len(calls) != 1 || len(calls[0]) < 1 {
				return "", false
			}
			return StringLit(calls[0][0])
		}
		up, ok := escArg("moveUpf")
		pre, post := "", ""
		if ok {
			parts := strings.Split(up, "%d")
			if len(parts) == 2 && !strings.Contains(parts[0]+parts[1], "%") {
				pre, post = parts[0], parts[1]
			} else {
				ok = false
			}
		}
		def("upPre", "cursor.go moveUpf: format before %d", pre, ok)
		def("upPost", "cursor.go moveUpf: format after %d", post, ok)
		s, ok := escArg("hideCursor")
		def("hide", "cursor.go hideCursor", s, ok && !strings.Contains(s, "%"))
		s, ok = escArg("showCursor")
		def("unhide", "cursor.go showCursor", s, ok && !strings.Contains(s, "%"))
		s, ok = escArg("eraseRemainingLine")
		def("erase", "cursor.go eraseRemainingLine", s, ok && !strings.Contains(s, "%"))

		// goTo: fmt.Print("\n") in the first loop, fmt.Print("\r") at the end; moveUp(1) in the second loop
		prints := c20CallArgs(c.Func(mt, "TermWriter.goTo"), "fmt.Print")
		if len(prints) == 2 && len(prints[0]) == 1 && len(prints[1]) == 1 {
			a, ok1 := StringLit(prints[0][0])
			b, ok2 := StringLit(prints[1][0])
			def("gotoDown", "multiterm.go goTo: printed per line moved down", a, ok1)
			def("gotoReturn", "multiterm.go goTo: printed last", b, ok2)
		} else {
			sb.WriteString(untranslatable("gotoDown"))
			sb.WriteString(untranslatable("gotoReturn"))
		}
		ups := c20CallArgs(c.Func(mt, "TermWriter.goTo"), "moveUp")
		if len(ups) == 1 && len(ups[0]) == 1 {
			if n, ok := IntLit(ups[0][0]); ok {
				fmt.Fprintf(&sb, "/-- multiterm.go goTo: argument of moveUp -/\ndef gotoUpArg : Int := %d\n\n", n)
			} else {
				sb.WriteString(untranslatable("gotoUpArg"))
			}
		} else {
			sb.WriteString(untranslatable("gotoUpArg"))
		}
		// Close: fmt.Println() with no arguments prints "\n"
		pl := c20CallArgs(c.Func(mt, "TermWriter.Close"), "fmt.Println")
		def("closeNl", "multiterm.go Close: fmt.Println()", "\n", len(pl) == 1 && len(pl[0]) == 0)

		// linetrim.go: the rune literals compared against runes[i]
		var chars []int64
		if fd := c.Func(lt, "WriteLineNoWrap"); fd != nil {
			ast.Inspect(fd, func(n ast.Node) bool {
				if bl, ok := n.(*ast.BasicLit); ok && bl.Kind == token.CHAR {
					if s, err := strconv.Unquote(bl.Value); err == nil && len([]rune(s)) == 1 {
						chars = append(chars, int64([]rune(s)[0]))
					}
				}
				return true
			})
		}
		if len(chars) == 2 {
			fmt.Fprintf(&sb, "/-- linetrim.go: rune that starts a colour sequence -/\ndef trimEsc : Nat := %d\n\n", chars[0])
			fmt.Fprintf(&sb, "/-- linetrim.go: rune that ends a colour sequence -/\ndef trimEnd : Nat := %d\n\n", chars[1])
		} else {
			sb.WriteString(untranslatable("trimEsc"))
			sb.WriteString(untranslatable("trimEnd"))
		}
		// the three guards of the trimming scanner (outer loop, "is this the start of a colour sequence", inner loop)
		func() {
			names := []string{"trimOuterCond", "trimIsEsc", "trimInnerCond"}
			fail := func() {
				for _, n := range names {
					sb.WriteString(untranslatable(n))
				}
			}
			fd := c.Func(lt, "WriteLineNoWrap")
			if fd == nil || fd.Body == nil {
				fail()
				return
			}
			var outer *ast.ForStmt
			for _, st := range fd.Body.List {
				if f, ok := st.(*ast.ForStmt); ok {
					if outer != nil {
						fail()
						return
					}
					outer = f
				}
			}
			if outer == nil || outer.Init != nil || outer.Post != nil || outer.Cond == nil || len(outer.Body.List) != 2 {
				fail()
				return
			}
			ifs, ok := outer.Body.List[0].(*ast.IfStmt)
			if !ok || ifs.Init != nil || len(ifs.Body.List) != 1 {
				fail()
				return
			}
			inner, ok := ifs.Body.List[0].(*ast.ForStmt)
			if !ok || inner.Init != nil || inner.Post != nil || inner.Cond == nil {
				fail()
				return
			}
			t := &c20tr{ints: map[string]bool{"i": true, "visibleRunes": true, "computedCols": true}, slice: "runes", idx: "i"}
			conds := []ast.Expr{outer.Cond, ifs.Cond, inner.Cond}
			docs := []string{"condition of the outer scan loop", "does a colour sequence start here", "condition of the inner loop that skips a colour sequence"}
			var outs []string
			for _, e := range conds {
				l, ty := t.expr(e)
				if ty != "bool" || t.bad != "" {
					fail()
					return
				}
				outs = append(outs, l)
			}
			for k, n := range names {
				fmt.Fprintf(&sb, "/-- linetrim.go WriteLineNoWrap: %s (`r` = runes[i], `len` = len(runes)) -/\ndef %s (r i len visibleRunes computedCols : Int) : Bool :=\n  %s\n\n", docs[k], n, outs[k])
			}
		}()

		// the cursor bookkeeping, statement by statement
		sb.WriteString(c20Prelude)
		c20New(c, &sb, mt)
		c20Func(c, &sb, mt, "TermWriter.goTo", "goTo", "multiterm.go goTo(line)")
		c20Func(c, &sb, mt, "TermWriter.writeAtCursor", "writeAtCursor", "multiterm.go writeAtCursor(text)")
		c20Func(c, &sb, mt, "TermWriter.WriteForLine", "writeForLine", "multiterm.go WriteForLine(line, text)")
		c20Func(c, &sb, mt, "TermWriter.Close", "close", "multiterm.go Close()")
		// round 4b: the whole scan of WriteLineNoWrap (c20trim.go)
		c20TrimScan(c, &sb)
		c20Init(c, &sb)
		c.Fingerprint(lt, "init")
		// round 4c: which writer a command gets (cmd/helpers/output.go, termstate/term.go; c20out.go)
		c20Out(c, &sb)
		// round 4c: the line store behind --snapshot / piped output (virtualterm.go, bufferedterm.go; c20virt.go)
		c20Virt(c, &sb)
		sb.WriteString("end Rare.Gen.C20\n")
		return sb.String()
	})
}
