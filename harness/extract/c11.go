package main

import (
	"fmt"
	"go/ast"
	"go/token"
	"math"
	"runtime"
	"sort"
	"strings"
	"unicode"
)

// C11: integer fragments of funcsCommon.go (the bucket / bucketrange computation inside the
// run-time closures), the humanize unit tables and the run-time error markers.
//
// The fragment translator handles a tiny statement language: `x := e`, `x = e`, `x op= e`,
// `var x, y T`, and `if cond { assignments }` over integer expressions with + - * / % and
// comparisons.  Every + - * is wrapped (`wrap64`), `/` is `goDiv`, `%` is `goMod`; variables are
// SSA-renamed.  Anything else makes the fragment `…_untranslatable`.

type frag struct {
	ver  map[string]int // current SSA version of each assigned variable
	lets []string
	ok   bool
}

func (f *frag) name(v string) string {
	if n, has := f.ver[v]; has {
		return fmt.Sprintf("%s_%d", v, n)
	}
	return v // a parameter
}

func (f *frag) expr(e ast.Expr) string {
	switch v := e.(type) {
	case *ast.Ident:
		return f.name(v.Name)
	case *ast.ParenExpr:
		return "(" + f.expr(v.X) + ")"
	case *ast.BasicLit:
		if v.Kind == token.INT {
			return v.Value
		}
	case *ast.BinaryExpr:
		a, b := f.expr(v.X), f.expr(v.Y)
		switch v.Op {
		case token.ADD:
			return fmt.Sprintf("(wrap64 (%s + %s))", a, b)
		case token.SUB:
			return fmt.Sprintf("(wrap64 (%s - %s))", a, b)
		case token.MUL:
			return fmt.Sprintf("(wrap64 (%s * %s))", a, b)
		case token.QUO:
			return fmt.Sprintf("(goDiv %s %s)", a, b)
		case token.REM:
			return fmt.Sprintf("(goMod %s %s)", a, b)
		case token.LSS, token.GTR, token.LEQ, token.GEQ:
			op := map[token.Token]string{token.LSS: "<", token.GTR: ">", token.LEQ: "≤", token.GEQ: "≥"}[v.Op]
			return fmt.Sprintf("(decide (%s %s %s))", a, op, b)
		}
	}
	f.ok = false
	return "0"
}

func (f *frag) assign(lhs string, tok token.Token, rhs ast.Expr, cond string) {
	old := f.name(lhs)
	var val string
	switch tok {
	case token.DEFINE, token.ASSIGN:
		val = f.expr(rhs)
	case token.ADD_ASSIGN:
		val = fmt.Sprintf("(wrap64 (%s + %s))", old, f.expr(rhs))
	case token.SUB_ASSIGN:
		val = fmt.Sprintf("(wrap64 (%s - %s))", old, f.expr(rhs))
	default:
		f.ok = false
		return
	}
	if cond != "" {
		val = fmt.Sprintf("if %s then %s else %s", cond, val, old)
	}
	f.ver[lhs]++
	f.lets = append(f.lets, fmt.Sprintf("  let %s := %s", f.name(lhs), val))
}

// stmts translates the statements of body that define the target variables.
func (f *frag) stmts(body []ast.Stmt, targets map[string]bool) {
	isTargetAssign := func(s ast.Stmt) (*ast.AssignStmt, bool) {
		as, ok := s.(*ast.AssignStmt)
		if !ok || len(as.Lhs) != 1 || len(as.Rhs) != 1 {
			return nil, false
		}
		id, ok := as.Lhs[0].(*ast.Ident)
		return as, ok && targets[id.Name]
	}
	for _, s := range body {
		switch v := s.(type) {
		case *ast.DeclStmt: // var start, end int64
			gd, ok := v.Decl.(*ast.GenDecl)
			if !ok {
				continue
			}
			for _, sp := range gd.Specs {
				vs, ok := sp.(*ast.ValueSpec)
				if !ok {
					continue
				}
				for _, n := range vs.Names {
					if targets[n.Name] {
						if len(vs.Values) != 0 {
							f.ok = false
						}
						f.ver[n.Name]++
						f.lets = append(f.lets, fmt.Sprintf("  let %s : Int := 0", f.name(n.Name)))
					}
				}
			}
		case *ast.AssignStmt:
			if as, ok := isTargetAssign(v); ok {
				f.assign(as.Lhs[0].(*ast.Ident).Name, as.Tok, as.Rhs[0], "")
			}
		case *ast.IfStmt:
			// only `if cond { target assignments }` without init / else
			all := len(v.Body.List) > 0
			for _, b := range v.Body.List {
				if _, ok := isTargetAssign(b); !ok {
					all = false
				}
			}
			if !all {
				continue
			}
			if v.Init != nil || v.Else != nil {
				f.ok = false
				continue
			}
			cond := f.expr(v.Cond)
			for _, b := range v.Body.List {
				as, _ := isTargetAssign(b)
				f.assign(as.Lhs[0].(*ast.Ident).Name, as.Tok, as.Rhs[0], cond)
			}
		}
	}
}

// innermostClosure returns the body of the last function literal nested deepest in fd.
func innermostClosure(fd *ast.FuncDecl) []ast.Stmt {
	var best *ast.FuncLit
	bestDepth := -1
	var walk func(n ast.Node, depth int)
	walk = func(n ast.Node, depth int) {
		ast.Inspect(n, func(m ast.Node) bool {
			if fl, ok := m.(*ast.FuncLit); ok && m != n {
				if depth+1 > bestDepth {
					best, bestDepth = fl, depth+1
				}
				walk(fl.Body, depth+1)
				return false
			}
			return true
		})
	}
	walk(fd.Body, 0)
	if best == nil {
		return nil
	}
	return best.Body.List
}

func (c *Ctx) c11Fragment(sb *strings.Builder, leanName, goFunc string, targets []string, result string, resultType string) {
	rel := "pkg/expressions/stdlib/funcsCommon.go"
	c.Fingerprint(rel, goFunc)
	fd := c.Func(rel, goFunc)
	if fd == nil {
		sb.WriteString(untranslatable(leanName))
		return
	}
	body := innermostClosure(fd)
	f := &frag{ver: map[string]int{}, ok: body != nil}
	tm := map[string]bool{}
	for _, t := range targets {
		tm[t] = true
	}
	f.stmts(body, tm)
	for _, t := range targets {
		if f.ver[t] == 0 {
			f.ok = false
		}
	}
	if !f.ok {
		sb.WriteString(untranslatable(leanName))
		return
	}
	res := result
	for _, t := range targets {
		res = strings.ReplaceAll(res, "$"+t, f.name(t))
	}
	fmt.Fprintf(sb, "/-- `%s`: the statements of the run-time closure that define %s -/\ndef %s (val bucketSize : Int) : %s :=\n%s\n  %s\n\n",
		goFunc, strings.Join(targets, ", "), leanName, resultType, strings.Join(f.lets, "\n"), res)
}

func init() {
	RegisterGen("C11", func(c *Ctx) string {
		var sb strings.Builder
		sb.WriteString("import Rare.Base.GoInt\nnamespace Rare.Gen.C11\nopen Rare\n\n")
		c.c11Fragment(&sb, "bucket", "kfBucket", []string{"bucket"}, "$bucket", "Int")
		c.c11Fragment(&sb, "bucketRange", "kfBucketRange", []string{"start", "end"}, "($start, $end)", "Int × Int")

		// unit tables of pkg/humanize/units.go
		for _, name := range []string{"iecSizes", "siSizes", "unitSize"} {
			if l, ok := StringList(c.Var("pkg/humanize/units.go", name)); ok {
				fmt.Fprintf(&sb, "def %s : List String := %s\n", name, leanStrList(l))
			} else {
				sb.WriteString(untranslatable(name))
			}
		}
		// run-time error markers of stdlib/errors.go
		env := c.constEnv("pkg/expressions/stdlib/errors.go")
		for _, name := range []string{"ErrorNum", "ErrorValue", "ErrorArgCount", "ErrorConst"} {
			if v, ok := env[name]; ok {
				fmt.Fprintf(&sb, "def marker%s : String := %s\n", name, leanStr(v))
			} else {
				sb.WriteString(untranslatable("marker" + name))
			}
		}
		for _, fn := range []string{"kfClamp", "kfExpBucket"} {
			c.Fingerprint("pkg/expressions/stdlib/funcsCommon.go", fn)
		}
		for _, fn := range []string{"kfSubstr", "selectField", "kfJoin", "kfHumanizeInt"} {
			c.Fingerprint("pkg/expressions/stdlib/funcsStrings.go", fn)
		}
		c.Fingerprint("pkg/expressions/stdlib/funcsArithmatic.go", "arithmaticHelperiChecked")
		c.Fingerprint("pkg/expressions/stdlib/funcsCsv.go", "csvItemEncode")
		c.Fingerprint("pkg/expressions/stdlib/funcsLookups.go", "buildLookupTable")
		c.Fingerprint("pkg/humanize/numeric.go", "humanizeInt")
		c.Fingerprint("pkg/humanize/units.go", "unitize")
		c.c11Round4(&sb)
		c.c11Arity(&sb)
		sb.WriteString("\nend Rare.Gen.C11\n")
		return sb.String()
	})
}

// ---- round 4 ----

// charLitsOfCond collects the rune / byte literals (and named constants resolved through consts) that a
// function compares a variable with using `==`, in source order without duplicates.
func charLitsOfCond(n ast.Node, consts map[string]int64) []int64 {
	var out []int64
	seen := map[int64]bool{}
	ast.Inspect(n, func(m ast.Node) bool {
		be, ok := m.(*ast.BinaryExpr)
		if !ok || be.Op != token.EQL {
			return true
		}
		for _, side := range []ast.Expr{be.X, be.Y} {
			var v int64
			var has bool
			if lit, ok := side.(*ast.BasicLit); ok && lit.Kind == token.CHAR {
				v, has = IntLit(lit)
			} else if id, ok := side.(*ast.Ident); ok {
				v, has = consts[id.Name]
			}
			if has && !seen[v] {
				seen[v] = true
				out = append(out, v)
			}
		}
		return true
	})
	return out
}

func leanNatList(l []int64) string {
	parts := make([]string, len(l))
	for i, v := range l {
		parts[i] = fmt.Sprint(v)
	}
	return "[" + strings.Join(parts, ", ") + "]"
}

// dispatchEntry describes the value of one StandardFunctions entry: the builder identifier (through
// KeyBuilderFunction(..) conversions), and for the operator lambdas the returned expression.
func (c *Ctx) dispatchEntry(e ast.Expr) string {
	for {
		if call, ok := e.(*ast.CallExpr); ok {
			if id, ok := call.Fun.(*ast.Ident); ok && id.Name == "KeyBuilderFunction" && len(call.Args) == 1 {
				e = call.Args[0]
				continue
			}
		}
		break
	}
	switch v := e.(type) {
	case *ast.Ident:
		return v.Name
	case *ast.CallExpr:
		fn := c.Print(v.Fun)
		args := []string{}
		for _, a := range v.Args {
			if fl, ok := a.(*ast.FuncLit); ok {
				// the operator: every return expression of the lambda, joined
				rets := []string{}
				ast.Inspect(fl.Body, func(m ast.Node) bool {
					if r, ok := m.(*ast.ReturnStmt); ok {
						parts := []string{}
						for _, x := range r.Results {
							parts = append(parts, c.Print(x))
						}
						rets = append(rets, strings.Join(parts, ","))
					}
					if ifs, ok := m.(*ast.IfStmt); ok {
						rets = append(rets, "if "+c.Print(ifs.Cond))
					}
					return true
				})
				args = append(args, strings.Join(rets, ";"))
			} else {
				args = append(args, c.Print(a))
			}
		}
		return fn + "(" + strings.Join(args, "|") + ")"
	}
	return c.Print(e)
}

func (c *Ctx) c11Round4(sb *strings.Builder) {
	// 1. the simple case mapping table of the toolchain rare is built with (package unicode, not /repo):
	//    strings.ToUpper / ToLower = strings.Map(unicode.ToUpper / ToLower) over these ranges
	fmt.Fprintf(sb, "\n/-- `unicode.CaseRanges` (Unicode %s): `(Lo, Hi, Delta[UpperCase], Delta[LowerCase])`; a delta of\n    `MaxRune+1` is `unicode.UpperLower` (alternating pairs). -/\n", unicode.Version)
	sb.WriteString("def caseRanges : List (Nat × Nat × Int × Int) := [\n")
	for i, cr := range unicode.CaseRanges {
		sep := ","
		if i == len(unicode.CaseRanges)-1 {
			sep = "]"
		}
		fmt.Fprintf(sb, "  (%d, %d, %d, %d)%s\n", cr.Lo, cr.Hi, cr.Delta[unicode.UpperCase], cr.Delta[unicode.LowerCase], sep)
	}
	fmt.Fprintf(sb, "def maxRune : Nat := %d\ndef upperLower : Int := %d\n", unicode.MaxRune, unicode.UpperLower)

	// 1b. (round 4b) the platform math.Log runs on, as seen by the toolchain this extractor (and the harness) is built with:
	//     GOARCH, the constants math.Log10 / math.Log2 multiply with, and probe values of math.Log / Log10 / Log2 / Pow
	//     (the first probe is a subnormal: -709.08… exactly when the amd64 assembly routine is in use)
	fmt.Fprintf(sb, "\n/-- the platform of `math.Log` (amd64: `log_amd64.s`) and probe values computed by the toolchain. -/\n")
	fmt.Fprintf(sb, "def goarch : String := %q\n", runtime.GOARCH)
	fmt.Fprintf(sb, "def invLn10Bits : Nat := %d\ndef invLn2Bits : Nat := %d\ndef hSqrt2Bits : Nat := %d\n",
		math.Float64bits(1/math.Ln10), math.Float64bits(1/math.Ln2), math.Float64bits(math.Sqrt2/2))
	probe := func(name string, f func(float64) float64, args ...uint64) {
		fmt.Fprintf(sb, "def %s : List (Nat × Nat) := [", name)
		for i, a := range args {
			if i > 0 {
				sb.WriteString(", ")
			}
			fmt.Fprintf(sb, "(%d, %d)", a, math.Float64bits(f(math.Float64frombits(a))))
		}
		sb.WriteString("]\n")
	}
	logArgs := []uint64{1, 1 << 51, 1<<52 - 1, 1 << 52, math.Float64bits(0.5), math.Float64bits(math.Sqrt2 / 2), math.Float64bits(math.Sqrt2/2) + 1,
		math.Float64bits(1), math.Float64bits(2), math.Float64bits(10), math.Float64bits(1e15), math.Float64bits(0.1), math.Float64bits(1e-300),
		math.Float64bits(math.MaxFloat64), math.Float64bits(3)}
	probe("logProbes", math.Log, logArgs...)
	probe("log10Probes", math.Log10, logArgs...)
	probe("log2Probes", math.Log2, logArgs...)
	probe("pow3Probes", func(x float64) float64 { return math.Pow(3, x) }, math.Float64bits(2), math.Float64bits(33), math.Float64bits(34),
		math.Float64bits(-40), math.Float64bits(646), math.Float64bits(647), math.Float64bits(-678), math.Float64bits(-679), math.Float64bits(-700))

	// 2. integer constants
	intConst := func(lean, rel, name string) {
		if v, ok := IntLit(c.Var(rel, name)); ok {
			fmt.Fprintf(sb, "def %s : Int := %d\n", lean, v)
		} else {
			sb.WriteString(untranslatable(lean))
		}
	}
	intConst("maxPrecision", "pkg/expressions/stdlib/util.go", "maxPrecision")
	intConst("maxRepeatBytes", "pkg/expressions/stdlib/drawing.go", "maxRepeatBytes")
	intConst("hfDecimals", "pkg/humanize/humanize.go", "Decimals")
	intConst("baseSeparator", "pkg/humanize/numeric.go", "baseSeparator")
	intConst("decimalSeparator", "pkg/humanize/numeric.go", "decimalSeparator")
	intConst("arraySeparator", "pkg/expressions/stage.go", "ArraySeparator")

	// 3. the characters selectField compares with (delimiters and the quote), csvItemEncode's special bytes
	consts := map[string]int64{}
	if v, ok := IntLit(c.Var("pkg/expressions/stage.go", "ArraySeparator")); ok {
		consts["ArraySeparator"] = v
	}
	if fd := c.Func("pkg/expressions/stdlib/funcsStrings.go", "selectField"); fd != nil {
		fmt.Fprintf(sb, "def selectFieldChars : List Nat := %s\n", leanNatList(charLitsOfCond(fd, consts)))
	} else {
		sb.WriteString(untranslatable("selectFieldChars"))
	}

	// 4. the dispatch table: helper name -> builder (and operator) as written in funcs.go
	if cl, ok := c.Var("pkg/expressions/stdlib/funcs.go", "StandardFunctions").(*ast.CompositeLit); ok {
		type kv struct{ k, v string }
		var l []kv
		for _, el := range cl.Elts {
			if e, ok := el.(*ast.KeyValueExpr); ok {
				if k, ok := StringLit(e.Key); ok {
					l = append(l, kv{k, c.dispatchEntry(e.Value)})
				}
			}
		}
		sort.Slice(l, func(i, j int) bool { return l[i].k < l[j].k })
		sb.WriteString("def dispatch : List (String × String) := [\n")
		for i, e := range l {
			sep := ","
			if i == len(l)-1 {
				sep = "]"
			}
			fmt.Fprintf(sb, "  (%s, %s)%s\n", leanStr(e.k), leanStr(e.v), sep)
		}
	} else {
		sb.WriteString(untranslatable("dispatch"))
	}
	for _, fn := range []string{"kfUpper", "kfLower", "kfLen", "kfPrefix", "kfSuffix", "kfPercent", "kfBytesize", "kfBytesizeSi", "kfDownscale"} {
		c.Fingerprint("pkg/expressions/stdlib/funcsStrings.go", fn)
	}
	for _, fn := range []string{"kfLike", "kfSwitch", "kfIf", "kfUnless", "kfNot", "kfAnd", "kfOr", "stringComparator", "arithmaticEqualityHelper"} {
		c.Fingerprint("pkg/expressions/stdlib/funcsComparators.go", fn)
	}
	c.Fingerprint("pkg/expressions/stdlib/funcsPath.go", "kfPathManip")
	c.Fingerprint("pkg/expressions/stdlib/funcsType.go", "kfIsInt")
	c.Fingerprint("pkg/expressions/stdlib/funcsType.go", "kfIsNum")
	c.Fingerprint("pkg/humanize/numeric.go", "humanizeFloat")
}
