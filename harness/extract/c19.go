package main

import (
	"fmt"
	"go/ast"
	"strings"
)

// C19: operator tables of pkg/expressions/stdmath/ops.go, regenerated on every run into
// lean/Rare/Gen/C19.lean: `orderOfOps` (precedence sets, tightest first), the keys of `ops`
// and `uniOps`, and `maxLen` of prefixInOps.  Operators are emitted as byte lists (the model
// works on bytes) with the Go spelling in a comment.  Props/C19.lean proves the hand copy used
// by the model equal to these and `opCodeOrder_total` about them.

func c19Bytes(s string) string {
	bs := make([]string, len(s))
	for j := 0; j < len(s); j++ {
		bs[j] = fmt.Sprint(s[j])
	}
	return "[" + strings.Join(bs, ", ") + "]"
}

func c19ByteList(l []string) string {
	parts := make([]string, len(l))
	for i, s := range l {
		parts[i] = c19Bytes(s)
	}
	return "[" + strings.Join(parts, ", ") + "]"
}

func init() {
	RegisterGen("C19", func(c *Ctx) string {
		const file = "pkg/expressions/stdmath/ops.go"
		var sb strings.Builder
		sb.WriteString("namespace Rare.Gen.C19\n\n")
		for _, fn := range []string{"opCodeOrder", "prefixInOps", "hasUnaryOp", "truthy", "conditionalOp"} {
			c.Fingerprint(file, fn)
		}
		c.Fingerprint("pkg/expressions/stdmath/tokenizer.go", "tokenizeExpr")
		for _, fn := range []string{"Compile", "tokenScanner.compileTokens", "tokenScanner.getNextExpr", "tokenScanner.getNextOp", "compileToken", "isBoxed", "validVariableName"} {
			c.Fingerprint("pkg/expressions/stdmath/parser.go", fn)
		}
		c.Fingerprint("pkg/expressions/stdmath/simplify.go", "simplify")
		c.Fingerprint("pkg/expressions/stdlib/funcsMath.go", "kfMath")

		// orderOfOps = [][]OpCode{{"^"}, {">>", "<<"}, …}
		okOrder := false
		if cl, ok := c.Var(file, "orderOfOps").(*ast.CompositeLit); ok {
			var sets []string
			var doc []string
			okOrder = len(cl.Elts) > 0
			for _, el := range cl.Elts {
				l, ok := StringList(el)
				if !ok || len(l) == 0 {
					okOrder = false
					break
				}
				sets = append(sets, c19ByteList(l))
				doc = append(doc, strings.Join(l, " "))
			}
			if okOrder {
				fmt.Fprintf(&sb, "/-- `orderOfOps`, tightest set first: %s -/\ndef orderOfOps : List (List (List UInt8)) := [%s]\n\n",
					strings.Join(doc, " | "), strings.Join(sets, ", "))
			}
		}
		if !okOrder {
			sb.WriteString(untranslatable("orderOfOps") + "\n")
		}
		for _, v := range []struct{ goName, leanName string }{{"ops", "opKeys"}, {"uniOps", "uniKeys"}} {
			if keys, ok := MapKeys(c.Var(file, v.goName)); ok && len(keys) > 0 {
				fmt.Fprintf(&sb, "/-- keys of `%s` (sorted): %s -/\ndef %s : List (List UInt8) := %s\n\n",
					v.goName, strings.Join(keys, " "), v.leanName, c19ByteList(keys))
			} else {
				sb.WriteString(untranslatable(v.leanName) + "\n")
			}
		}
		if n, ok := IntLit(c.LocalConst(c.Func(file, "prefixInOps"), "maxLen")); ok {
			fmt.Fprintf(&sb, "/-- `maxLen` of prefixInOps -/\ndef maxOpLen : Nat := %d\n\n", n)
		} else {
			sb.WriteString(untranslatable("maxOpLen") + "\n")
		}
		sb.WriteString("end Rare.Gen.C19\n")
		return sb.String()
	})
}
