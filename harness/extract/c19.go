package main

import (
	"fmt"
	"go/ast"
	"go/token"
	"math"
	"os"
	"path/filepath"
	"regexp"
	"runtime"
	"strings"
)

// C19: operator tables of pkg/expressions/stdmath/ops.go, regenerated on every run into
// lean/Rare/Gen/C19.lean: `orderOfOps` (precedence sets, tightest first), the keys of `ops`
// and `uniOps`, and `maxLen` of prefixInOps.  Operators are emitted as byte lists (the model
// works on bytes) with the Go spelling in a comment.  Props/C19.lean proves the hand copy used
// by the model equal to these and `opCodeOrder_total` about them.

func c19Bytes(s string) string {
	bs := make([]string, len(s))
	for j := 0; j < len(s); j++ {
		bs[j] = fmt.Sprint(s[j])
	}
	return "[" + strings.Join(bs, ", ") + "]"
}

func c19ByteList(l []string) string {
	parts := make([]string, len(l))
	for i, s := range l {
		parts[i] = c19Bytes(s)
	}
	return "[" + strings.Join(parts, ", ") + "]"
}

func init() {
	RegisterGen("C19", func(c *Ctx) string {
		const file = "pkg/expressions/stdmath/ops.go"
		var sb strings.Builder
		sb.WriteString("namespace Rare.Gen.C19\n\n")
		for _, fn := range []string{"opCodeOrder", "prefixInOps", "hasUnaryOp", "truthy", "conditionalOp"} {
			c.Fingerprint(file, fn)
		}
		c.Fingerprint("pkg/expressions/stdmath/tokenizer.go", "tokenizeExpr")
		for _, fn := range []string{"Compile", "tokenScanner.compileTokens", "tokenScanner.getNextExpr", "tokenScanner.getNextOp", "compileToken", "isBoxed", "validVariableName"} {
			c.Fingerprint("pkg/expressions/stdmath/parser.go", fn)
		}
		c.Fingerprint("pkg/expressions/stdmath/simplify.go", "simplify")
		c.Fingerprint("pkg/expressions/stdlib/funcsMath.go", "kfMath")

		// orderOfOps = [][]OpCode{{"^"}, {">>", "<<"}, …}
		okOrder := false
		if cl, ok := c.Var(file, "orderOfOps").(*ast.CompositeLit); ok {
			var sets []string
			var doc []string
			okOrder = len(cl.Elts) > 0
			for _, el := range cl.Elts {
				l, ok := StringList(el)
				if !ok || len(l) == 0 {
					okOrder = false
					break
				}
				sets = append(sets, c19ByteList(l))
				doc = append(doc, strings.Join(l, " "))
			}
			if okOrder {
				fmt.Fprintf(&sb, "/-- `orderOfOps`, tightest set first: %s -/\ndef orderOfOps : List (List (List UInt8)) := [%s]\n\n",
					strings.Join(doc, " | "), strings.Join(sets, ", "))
			}
		}
		if !okOrder {
			sb.WriteString(untranslatable("orderOfOps") + "\n")
		}
		for _, v := range []struct{ goName, leanName string }{{"ops", "opKeys"}, {"uniOps", "uniKeys"}} {
			if keys, ok := MapKeys(c.Var(file, v.goName)); ok && len(keys) > 0 {
				fmt.Fprintf(&sb, "/-- keys of `%s` (sorted): %s -/\ndef %s : List (List UInt8) := %s\n\n",
					v.goName, strings.Join(keys, " "), v.leanName, c19ByteList(keys))
			} else {
				sb.WriteString(untranslatable(v.leanName) + "\n")
			}
		}
		if n, ok := IntLit(c.LocalConst(c.Func(file, "prefixInOps"), "maxLen")); ok {
			fmt.Fprintf(&sb, "/-- `maxLen` of prefixInOps -/\ndef maxOpLen : Nat := %d\n\n", n)
		} else {
			sb.WriteString(untranslatable("maxOpLen") + "\n")
		}
		c19EmitOpsDesc(c, &sb, file)
		c19EmitGlue(c, &sb)
		c19EmitDocs(c, &sb)
		c19EmitPlatform(&sb)
		sb.WriteString("end Rare.Gen.C19\n")
		return sb.String()
	})
}

// ---------------------------------------------------------------------------------------------
// Round 4: WHAT every entry of `ops` / `uniOps` computes (not only its key), the source of the
// `{! …}` glue (funcsMath.go) statement by statement, and the operator lists / examples / number
// formats of docs/usage/math.md.

func c19Norm(c *Ctx, n ast.Node) string {
	var keep []string
	for _, l := range strings.Split(c.Print(n), "\n") {
		if !strings.HasPrefix(strings.TrimSpace(l), "//") { // a doc comment printed with a declaration
			keep = append(keep, l)
		}
	}
	return strings.Join(strings.Fields(strings.Join(keep, "\n")), "")
}

func c19IsIdent(e ast.Expr, name string) bool {
	id, ok := e.(*ast.Ident)
	return ok && id.Name == name
}

// call1(e, "int64") = the single argument of the call `int64(arg)`
func c19Call1(e ast.Expr, fn string) (ast.Expr, bool) {
	ce, ok := e.(*ast.CallExpr)
	if !ok || len(ce.Args) != 1 || !c19IsIdent(ce.Fun, fn) {
		return nil, false
	}
	return ce.Args[0], true
}

func c19MathSel(e ast.Expr) (string, bool) {
	se, ok := e.(*ast.SelectorExpr)
	if !ok || !c19IsIdent(se.X, "math") {
		return "", false
	}
	return se.Sel.Name, true
}

func c19ParamNames(fl *ast.FuncLit) []string {
	var out []string
	for _, f := range fl.Type.Params.List {
		for _, n := range f.Names {
			out = append(out, n.Name)
		}
	}
	return out
}

func c19SingleReturn(st ast.Stmt) (ast.Expr, bool) {
	rs, ok := st.(*ast.ReturnStmt)
	if !ok || len(rs.Results) != 1 {
		return nil, false
	}
	return rs.Results[0], true
}

// (kind, op, guard) of one entry of `ops`:
//
//	math.Pow                                               fn    Pow
//	return left + right                                    arith +
//	return conditionalOp(left < right)                     cmp   <
//	return conditionalOp(truthy(left) && truthy(right))    logic &&
//	return float64(int64(left) & int64(right))             int   &
//	r := int64(right); if r == 0 { return math.NaN() }; return float64(int64(left) % r)
//	                                                       int   %   ==0
//
// Operands must appear in the order (left, right); anything else is kind "?" with the source text.
func c19DescribeBin(c *Ctx, e ast.Expr) (kind, op, guard string) {
	unknown := func() (string, string, string) { return "?", c19Norm(c, e), "" }
	if name, ok := c19MathSel(e); ok {
		return "fn", name, ""
	}
	fl, ok := e.(*ast.FuncLit)
	if !ok {
		return unknown()
	}
	ps := c19ParamNames(fl)
	if len(ps) != 2 {
		return unknown()
	}
	l, r := ps[0], ps[1]
	body := fl.Body.List
	intOp := func(e ast.Expr, rname string) (string, bool) { // float64(int64(l) OP <int64(r) | rname>)
		inner, ok := c19Call1(e, "float64")
		if !ok {
			return "", false
		}
		be, ok := inner.(*ast.BinaryExpr)
		if !ok {
			return "", false
		}
		x, ok := c19Call1(be.X, "int64")
		if !ok || !c19IsIdent(x, l) {
			return "", false
		}
		if rname != "" {
			if !c19IsIdent(be.Y, rname) {
				return "", false
			}
		} else if y, ok := c19Call1(be.Y, "int64"); !ok || !c19IsIdent(y, r) {
			return "", false
		}
		return be.Op.String(), true
	}
	switch len(body) {
	case 1:
		res, ok := c19SingleReturn(body[0])
		if !ok {
			return unknown()
		}
		if be, ok := res.(*ast.BinaryExpr); ok && c19IsIdent(be.X, l) && c19IsIdent(be.Y, r) {
			switch be.Op {
			case token.ADD, token.SUB, token.MUL, token.QUO:
				return "arith", be.Op.String(), ""
			}
			return unknown()
		}
		if arg, ok := c19Call1(res, "conditionalOp"); ok {
			be, ok := arg.(*ast.BinaryExpr)
			if !ok {
				return unknown()
			}
			if c19IsIdent(be.X, l) && c19IsIdent(be.Y, r) {
				switch be.Op {
				case token.LSS, token.LEQ, token.GTR, token.GEQ, token.EQL, token.NEQ:
					return "cmp", be.Op.String(), ""
				}
				return unknown()
			}
			tx, ok1 := c19Call1(be.X, "truthy")
			ty, ok2 := c19Call1(be.Y, "truthy")
			if ok1 && ok2 && c19IsIdent(tx, l) && c19IsIdent(ty, r) && (be.Op == token.LAND || be.Op == token.LOR) {
				return "logic", be.Op.String(), ""
			}
			return unknown()
		}
		if o, ok := intOp(res, ""); ok {
			return "int", o, ""
		}
	case 3:
		as, ok := body[0].(*ast.AssignStmt)
		if !ok || as.Tok != token.DEFINE || len(as.Lhs) != 1 || len(as.Rhs) != 1 {
			return unknown()
		}
		v, ok := as.Lhs[0].(*ast.Ident)
		if !ok {
			return unknown()
		}
		if a, ok := c19Call1(as.Rhs[0], "int64"); !ok || !c19IsIdent(a, r) {
			return unknown()
		}
		is, ok := body[1].(*ast.IfStmt)
		if !ok || is.Init != nil || is.Else != nil || len(is.Body.List) != 1 {
			return unknown()
		}
		cond, ok := is.Cond.(*ast.BinaryExpr)
		if !ok || !c19IsIdent(cond.X, v.Name) {
			return unknown()
		}
		lit, ok := cond.Y.(*ast.BasicLit)
		if !ok {
			return unknown()
		}
		ret, ok := c19SingleReturn(is.Body.List[0])
		if !ok || c19Norm(c, ret) != "math.NaN()" {
			return unknown()
		}
		res, ok := c19SingleReturn(body[2])
		if !ok {
			return unknown()
		}
		if o, ok := intOp(res, v.Name); ok {
			return "int", o, cond.Op.String() + lit.Value
		}
	}
	return unknown()
}

// (kind, name) of one entry of `uniOps`: `fn X` for math.X, `neg` for `return -f`,
// `not` for `return conditionalOp(!truthy(f))`.
func c19DescribeUn(c *Ctx, e ast.Expr) (kind, name string) {
	if n, ok := c19MathSel(e); ok {
		return "fn", n
	}
	fl, ok := e.(*ast.FuncLit)
	if ok {
		ps := c19ParamNames(fl)
		if len(ps) == 1 && len(fl.Body.List) == 1 {
			if res, ok := c19SingleReturn(fl.Body.List[0]); ok {
				if ue, ok := res.(*ast.UnaryExpr); ok && ue.Op == token.SUB && c19IsIdent(ue.X, ps[0]) {
					return "neg", ""
				}
				if arg, ok := c19Call1(res, "conditionalOp"); ok {
					if ue, ok := arg.(*ast.UnaryExpr); ok && ue.Op == token.NOT {
						if t, ok := c19Call1(ue.X, "truthy"); ok && c19IsIdent(t, ps[0]) {
							return "not", ""
						}
					}
				}
			}
		}
	}
	return "?", c19Norm(c, e)
}

func c19EmitOpsDesc(c *Ctx, sb *strings.Builder, file string) {
	type ent struct{ key, kind, op, guard string }
	collect := func(name string, bin bool) ([]ent, bool) {
		cl, ok := c.Var(file, name).(*ast.CompositeLit)
		if !ok {
			return nil, false
		}
		var out []ent
		for _, el := range cl.Elts {
			kv, ok := el.(*ast.KeyValueExpr)
			if !ok {
				return nil, false
			}
			k, ok := StringLit(kv.Key)
			if !ok {
				return nil, false
			}
			if bin {
				kind, op, guard := c19DescribeBin(c, kv.Value)
				out = append(out, ent{k, kind, op, guard})
			} else {
				kind, op := c19DescribeUn(c, kv.Value)
				out = append(out, ent{k, kind, op, ""})
			}
		}
		// sorted by key, like opKeys / uniKeys
		for i := 1; i < len(out); i++ {
			for j := i; j > 0 && out[j-1].key > out[j].key; j-- {
				out[j-1], out[j] = out[j], out[j-1]
			}
		}
		return out, len(out) > 0
	}
	if es, ok := collect("ops", true); ok {
		var parts, doc []string
		for _, e := range es {
			parts = append(parts, fmt.Sprintf("(%s, %s, %s, %s)", c19Bytes(e.key), leanStr(e.kind), leanStr(e.op), leanStr(e.guard)))
			doc = append(doc, e.key)
		}
		fmt.Fprintf(sb, "/-- what every entry of `ops` computes: (key, kind, Go operator / math function, guard that answers NaN); keys %s -/\ndef opsDesc : List (List UInt8 × String × String × String) :=\n  [%s]\n\n",
			strings.Join(doc, " "), strings.Join(parts, ",\n   "))
	} else {
		sb.WriteString(untranslatable("opsDesc") + "\n")
	}
	if es, ok := collect("uniOps", false); ok {
		var parts []string
		for _, e := range es {
			parts = append(parts, fmt.Sprintf("(%s, %s, %s)", c19Bytes(e.key), leanStr(e.kind), leanStr(e.op)))
		}
		fmt.Fprintf(sb, "/-- what every entry of `uniOps` computes: (key, kind, math function) -/\ndef uniDesc : List (List UInt8 × String × String) :=\n  [%s]\n\n", strings.Join(parts, ",\n   "))
	} else {
		sb.WriteString(untranslatable("uniDesc") + "\n")
	}
	// truthy: `return val != 0.0`; conditionalOp: `if truth { return 1.0 }; return 0.0`
	okT := false
	if fd := c.Func(file, "truthy"); fd != nil && len(fd.Body.List) == 1 && len(fd.Type.Params.List) == 1 && len(fd.Type.Params.List[0].Names) == 1 {
		if res, ok := c19SingleReturn(fd.Body.List[0]); ok {
			if be, ok := res.(*ast.BinaryExpr); ok && c19IsIdent(be.X, fd.Type.Params.List[0].Names[0].Name) {
				if lit, ok := be.Y.(*ast.BasicLit); ok {
					fmt.Fprintf(sb, "/-- `truthy(val)`: `val <op> <literal>` -/\ndef truthyDesc : String × String := (%s, %s)\n\n", leanStr(be.Op.String()), leanStr(lit.Value))
					okT = true
				}
			}
		}
	}
	if !okT {
		sb.WriteString(untranslatable("truthyDesc") + "\n")
	}
	okC := false
	if fd := c.Func(file, "conditionalOp"); fd != nil && len(fd.Body.List) == 2 && len(fd.Type.Params.List) == 1 && len(fd.Type.Params.List[0].Names) == 1 {
		if is, ok := fd.Body.List[0].(*ast.IfStmt); ok && is.Init == nil && is.Else == nil && len(is.Body.List) == 1 &&
			c19IsIdent(is.Cond, fd.Type.Params.List[0].Names[0].Name) {
			t, ok1 := c19SingleReturn(is.Body.List[0])
			f, ok2 := c19SingleReturn(fd.Body.List[1])
			if ok1 && ok2 {
				tl, ok3 := t.(*ast.BasicLit)
				fl, ok4 := f.(*ast.BasicLit)
				if ok3 && ok4 {
					fmt.Fprintf(sb, "/-- `conditionalOp(truth)`: the value for true and the value for false -/\ndef condDesc : String × String := (%s, %s)\n\n", leanStr(tl.Value), leanStr(fl.Value))
					okC = true
				}
			}
		}
	}
	if !okC {
		sb.WriteString(untranslatable("condDesc") + "\n")
	}
}

// statements of a block, whitespace-free source text each
func c19Stmts(c *Ctx, b *ast.BlockStmt) []string {
	var out []string
	for _, st := range b.List {
		out = append(out, c19Norm(c, st))
	}
	return out
}

func c19EmitGlue(c *Ctx, sb *strings.Builder) {
	const file = "pkg/expressions/stdlib/funcsMath.go"
	emit := func(lean, doc string, l []string, ok bool) {
		if ok && len(l) > 0 {
			fmt.Fprintf(sb, "/-- %s -/\ndef %s : List String :=\n  %s\n\n", doc, lean, leanStrList(l))
		} else {
			sb.WriteString(untranslatable(lean) + "\n")
		}
	}
	for _, m := range []struct{ goName, lean string }{{"keyBuilderContextWrapper.GetMatch", "wrapperGetMatch"}, {"keyBuilderContextWrapper.GetKey", "wrapperGetKey"}} {
		fd := c.Func(file, m.goName)
		if fd != nil {
			emit(m.lean, "`"+m.goName+"`, statement by statement", c19Stmts(c, fd.Body), true)
		} else {
			emit(m.lean, "", nil, false)
		}
	}
	// the closure kfMath returns (the last statement of kfMath: `return func(ctx …) string { … }, nil`)
	var closure, head []string
	okCl := false
	if fd := c.Func(file, "kfMath"); fd != nil && len(fd.Body.List) > 0 {
		n := len(fd.Body.List)
		if rs, ok := fd.Body.List[n-1].(*ast.ReturnStmt); ok && len(rs.Results) == 2 {
			if fl, ok := rs.Results[0].(*ast.FuncLit); ok {
				closure = c19Stmts(c, fl.Body)
				okCl = true
			}
		}
		for _, st := range fd.Body.List[:n-1] {
			head = append(head, c19Norm(c, st))
		}
	}
	emit("kfMathHead", "`kfMath` before the closure (argument collapse, Compile, pool), statement by statement", head, okCl)
	emit("kfMathClosure", "the stage `kfMath` returns, statement by statement", closure, okCl)
	// the strconv calls of compileToken (literal reading), in source order
	var calls []string
	if fd := c.Func("pkg/expressions/stdmath/parser.go", "compileToken"); fd != nil {
		ast.Inspect(fd, func(n ast.Node) bool {
			if ce, ok := n.(*ast.CallExpr); ok {
				if se, ok := ce.Fun.(*ast.SelectorExpr); ok && c19IsIdent(se.X, "strconv") {
					calls = append(calls, c19Norm(c, ce))
				}
			}
			return true
		})
	}
	emit("compileTokenStrconv", "the `strconv` calls of `compileToken`, in source order", calls, len(calls) > 0)
	if e := c.Var("pkg/expressions/stdmath/parser.go", "validVariableRegex"); e != nil {
		if ce, ok := e.(*ast.CallExpr); ok && len(ce.Args) == 1 {
			if s, ok := StringLit(ce.Args[0]); ok {
				fmt.Fprintf(sb, "/-- `validVariableRegex` -/\ndef validVariableRegex : String := %s\n\n", leanStr(s))
				return
			}
		}
	}
	sb.WriteString(untranslatable("validVariableRegex") + "\n")
}

var c19Span = regexp.MustCompile("`([^`]*)`")

// Round 4b: the platform the logarithms of `uniOps` (`math.Log`, `math.Log10`, `math.Log2`) run on, as seen by the
// toolchain this extractor and the harness are built with: GOARCH, and the values of the three functions at
// probe arguments (subnormals – where the amd64 assembly routine differs from the portable code –, the
// rescaling boundary sqrt(2)/2, powers of two and of ten, the extremes of the range, the special values).
// Props/C19.lean `log_platform` evaluates the model at the same arguments in the kernel.
func c19EmitPlatform(sb *strings.Builder) {
	fmt.Fprintf(sb, "/-- GOARCH of the toolchain (`math.Log` is `log_amd64.s` on amd64) -/\ndef goarch : String := %q\n\n", runtime.GOARCH)
	// (kept short: every probe costs the kernel about 1.5 s in Props/C19.lean)
	args := []uint64{1, 1 << 51, 1<<52 - 1, 1 << 52, math.Float64bits(math.Sqrt2 / 2),
		math.Float64bits(math.Sqrt2/2) + 1, math.Float64bits(math.Sqrt2/2) - 1, math.Float64bits(1) + 1, math.Float64bits(1) - 1,
		math.Float64bits(3), math.Float64bits(10), math.Float64bits(1e15), math.Float64bits(0.1), math.Float64bits(math.MaxFloat64),
		0, 1 << 63, math.Float64bits(1), math.Float64bits(-1), math.Float64bits(math.Inf(1)), math.Float64bits(math.Inf(-1)), 0x7ff8000000000001}
	canon := func(v float64) uint64 {
		if v != v {
			return 0x7ff8000000000001 // any NaN: the model's canonical one
		}
		return math.Float64bits(v)
	}
	sb.WriteString("/-- (argument bits, math.Log, math.Log10, math.Log2) computed by the toolchain; NaN results canonical -/\n")
	sb.WriteString("def logProbes : List (Nat × Nat × Nat × Nat) := [")
	for i, a := range args {
		if i > 0 {
			sb.WriteString(", ")
		}
		x := math.Float64frombits(a)
		fmt.Fprintf(sb, "(%d, %d, %d, %d)", a, canon(math.Log(x)), canon(math.Log10(x)), canon(math.Log2(x)))
	}
	sb.WriteString("]\n\n")
	c19EmitTrigProbes(sb, canon)
}

// Round 4c: `math.Sin/Cos/Tan/Asin/Acos/Atan/Exp2` (pure Go on amd64) at probe arguments, computed by the
// toolchain: every branch of the reductions (each octant, the Cody-Waite path below 2^29 and Payne-Hanek at and
// above it up to MaxFloat64, tan's `zz <= 1e-14`, satan's three ranges, asin's `x > 0.7`, exp2's rounding of k in
// both directions, its subnormal results and its overflow bound) and the special values.
// Props/C19.lean `trig_platform` evaluates the model (`goMathExact` by Go name) at the same arguments in the kernel.
func c19EmitTrigProbes(sb *strings.Builder, canon func(float64) uint64) {
	type fn struct {
		name string
		f    func(float64) float64
		args []float64
	}
	negZero := math.Copysign(0, -1)
	fns := []fn{
		{"Sin", math.Sin, []float64{0.5, 1, 2.5, 4, 5.5, -2, 1 << 29, 1e22, math.MaxFloat64, negZero, math.Inf(1)}},
		{"Cos", math.Cos, []float64{0.5, 1, 2.5, 4, 5.5, -1e22}},
		{"Tan", math.Tan, []float64{0.5, 1, 2.5, 1e-9, 1e22, -2}},
		{"Asin", math.Asin, []float64{0.5, 0.75, -0.3, 1, 1.5}},
		{"Acos", math.Acos, []float64{0.5, 0.75, -1}},
		{"Atan", math.Atan, []float64{0.5, 1, 3, -1e300, math.Inf(1)}},
		{"Exp2", math.Exp2, []float64{0.5, -0.5, 10, -1074, -1073.5, 1023.5, 1024, 3.7, -1022.3}},
	}
	sb.WriteString("/-- (function of package math, argument bits, result bits) computed by the toolchain; NaN results canonical -/\n")
	sb.WriteString("def trigProbes : List (String × Nat × Nat) := [")
	first := true
	for _, f := range fns {
		for _, a := range f.args {
			if !first {
				sb.WriteString(", ")
			}
			first = false
			fmt.Fprintf(sb, "(%q, %d, %d)", f.name, math.Float64bits(a), canon(f.f(a)))
		}
	}
	sb.WriteString("]\n\n")
}

// docs/usage/math.md: the operator tables (every back-quoted span of the rows under `### Binary` /
// `### Unary`, split at blanks), the examples `{! f} => v` with the binding of the sentence above
// them (`If `x=4``), and the example column of the number-format table.
func c19EmitDocs(c *Ctx, sb *strings.Builder) {
	raw, err := os.ReadFile(filepath.Join(c.Repo, "docs/usage/math.md"))
	if err != nil {
		sb.WriteString(untranslatable("docBinaryOps") + "\n")
		return
	}
	section := ""
	var bin, un, formats [][2]string // formats: (prefix, example)
	var binOps, unOps []string
	var examples [][2]string
	bindName, bindVal := "", ""
	exRe := regexp.MustCompile(`^\{!\s*(.*?)\s*\}\s*=>\s*(\S+)\s*$`)
	bindRe := regexp.MustCompile("If `([A-Za-z][A-Za-z0-9]*)=([^`]*)`")
	for _, line := range strings.Split(string(raw), "\n") {
		t := strings.TrimSpace(line)
		if strings.HasPrefix(t, "#") {
			section = strings.TrimSpace(strings.TrimLeft(t, "#"))
			continue
		}
		if m := bindRe.FindStringSubmatch(t); m != nil {
			bindName, bindVal = m[1], m[2]
		}
		if m := exRe.FindStringSubmatch(t); m != nil {
			examples = append(examples, [2]string{m[1], m[2]})
		}
		if !strings.HasPrefix(t, "|") || strings.HasPrefix(t, "|--") || strings.HasPrefix(t, "| Type") || strings.HasPrefix(t, "| Format") {
			continue
		}
		spans := c19Span.FindAllStringSubmatch(t, -1)
		switch section {
		case "Binary":
			for _, sp := range spans {
				binOps = append(binOps, strings.Fields(sp[1])...)
			}
		case "Unary":
			for _, sp := range spans {
				unOps = append(unOps, strings.Fields(sp[1])...)
			}
		case "Formats":
			cells := strings.Split(strings.Trim(t, "|"), "|")
			if len(cells) == 3 {
				pre := strings.Trim(strings.TrimSpace(cells[1]), "`")
				if pre == "-" {
					pre = ""
				}
				formats = append(formats, [2]string{pre, strings.Trim(strings.TrimSpace(cells[2]), "`")})
			}
		}
	}
	_, _ = bin, un
	if len(binOps) == 0 || len(unOps) == 0 || len(examples) == 0 || len(formats) == 0 || bindName == "" {
		sb.WriteString(untranslatable("docBinaryOps") + "\n")
		return
	}
	fmt.Fprintf(sb, "/-- docs/usage/math.md, table `Binary`: %s -/\ndef docBinaryOps : List (List UInt8) := %s\n\n", strings.Join(binOps, " "), c19ByteList(binOps))
	fmt.Fprintf(sb, "/-- docs/usage/math.md, table `Unary`: %s -/\ndef docUnaryOps : List (List UInt8) := %s\n\n", strings.Join(unOps, " "), c19ByteList(unOps))
	var ex []string
	for _, e := range examples {
		ex = append(ex, fmt.Sprintf("(%s, %s)", c19Bytes(e[0]), c19Bytes(e[1])))
	}
	fmt.Fprintf(sb, "/-- docs/usage/math.md, `## Examples`: (formula, printed value) with `%s=%s` -/\ndef docExamples : List (List UInt8 × List UInt8) :=\n  [%s]\n\n", bindName, bindVal, strings.Join(ex, ",\n   "))
	fmt.Fprintf(sb, "/-- the binding of the examples -/\ndef docBinding : List UInt8 × List UInt8 := (%s, %s)\n\n", c19Bytes(bindName), c19Bytes(bindVal))
	var fm []string
	for _, f := range formats {
		fm = append(fm, fmt.Sprintf("(%s, %s)", c19Bytes(f[0]), c19Bytes(f[1])))
	}
	fmt.Fprintf(sb, "/-- docs/usage/math.md, `### Formats`: (prefix, example) -/\ndef docFormats : List (List UInt8 × List UInt8) := [%s]\n\n", strings.Join(fm, ", "))
}
