package main

import (
	"fmt"
	"go/ast"
	"go/token"
	"os"
	"path/filepath"
	"regexp"
	"sort"
	"strings"
)

// C17: what the hand model of the array helpers relies on, read from the sources.
//
//   - constants: ArraySeparator, both MAX_ITERATIONS, the initial size of subContextPool, the default
//     delimiters / defaults of @split, @join, @reduce, @range
//   - arity: per helper the argument counts its builder accepts (stageErrArgCount / stageErrArgRange)
//   - poolEvents: per helper, in source order, what its returned closure does with a pooled sub-context
//     (get / defer-return / reset with the fields it names / field assignments / Eval calls), and what happens
//     OUTSIDE the closure (prefix "build:") – a helper that takes its object once per compiled stage, or that
//     sets single fields instead of overwriting the object, shows up here
//   - evalCode / getMatchCode / getKeyCode: the statements of subContext's methods
//   - objPoolNew / objPoolGet / objPoolReturn: the statements of pkg/slicepool/objpool.go
//   - documentedHelpers: the `#### @name` headings of the "Ranges (Arrays)" section of docs/usage/expressions.md
func c17Squeeze(s string) string { return strings.Join(strings.Fields(s), " ") }

func c17Stmts(c *Ctx, fd *ast.FuncDecl) ([]string, bool) {
	if fd == nil || fd.Body == nil {
		return nil, false
	}
	var out []string
	for _, st := range fd.Body.List {
		out = append(out, c17Squeeze(c.Print(st)))
	}
	return out, true
}

// the closure a builder returns: `return func(context KeyBuilderContext) string {…}, nil`
func c17Closure(fd *ast.FuncDecl) *ast.FuncLit {
	if fd == nil || fd.Body == nil {
		return nil
	}
	for i := len(fd.Body.List) - 1; i >= 0; i-- {
		if rs, ok := fd.Body.List[i].(*ast.ReturnStmt); ok && len(rs.Results) >= 1 {
			e := rs.Results[0]
			if call, ok := e.(*ast.CallExpr); ok && len(call.Args) == 1 { // KeyBuilderStage(func…)
				e = call.Args[0]
			}
			if fl, ok := e.(*ast.FuncLit); ok {
				return fl
			}
		}
	}
	return nil
}

func c17PoolEvents(c *Ctx, n ast.Node, prefix string, skip ast.Node, out *[]string) {
	c17PoolEventsEx(c, n, prefix, skip, out, false)
}

// steps = true: also `args[i](context)` (an argument stage evaluated against the ENCLOSING context) as
// ("arg", i, ""), and the arguments of every Eval call as its detail
func c17PoolEventsEx(c *Ctx, n ast.Node, prefix string, skip ast.Node, out *[]string, steps bool) {
	ast.Inspect(n, func(m ast.Node) bool {
		if m == nil {
			return true
		}
		if m == skip {
			return false
		}
		switch v := m.(type) {
		case *ast.AssignStmt:
			if len(v.Lhs) == 1 && len(v.Rhs) == 1 {
				lhs := exprStr(c, v.Lhs[0])
				rhs := exprStr(c, v.Rhs[0])
				switch {
				case rhs == "subContextPool.Get()":
					*out = append(*out, c17Ev(prefix+"get", lhs, ""))
					return false
				case strings.HasPrefix(lhs, "*") && strings.HasPrefix(rhs, "subContext{"):
					fields := []string{}
					if cl, ok := v.Rhs[0].(*ast.CompositeLit); ok {
						for _, el := range cl.Elts {
							if kv, ok := el.(*ast.KeyValueExpr); ok {
								fields = append(fields, exprStr(c, kv.Key)+"="+exprStr(c, kv.Value))
							} else {
								fields = append(fields, "?"+exprStr(c, el))
							}
						}
					}
					*out = append(*out, c17Ev(prefix+"reset", lhs[1:], strings.Join(fields, ",")))
					return false
				default:
					if sel, ok := v.Lhs[0].(*ast.SelectorExpr); ok {
						if sel.Sel.Name == "parent" || sel.Sel.Name == "vals" {
							*out = append(*out, c17Ev(prefix+"set", exprStr(c, sel.X), sel.Sel.Name+"="+rhs))
						}
					}
					if ix, ok := v.Lhs[0].(*ast.IndexExpr); ok {
						if sel, ok := ix.X.(*ast.SelectorExpr); ok && sel.Sel.Name == "vals" {
							*out = append(*out, c17Ev(prefix+"set", exprStr(c, sel.X), "vals[]="+rhs))
						}
					}
				}
			}
		case *ast.DeferStmt:
			name := exprStr(c, v.Call.Fun)
			if name == "subContextPool.Return" && len(v.Call.Args) == 1 {
				*out = append(*out, c17Ev(prefix+"defer-return", exprStr(c, v.Call.Args[0]), ""))
				return false
			}
		case *ast.CallExpr:
			name := exprStr(c, v.Fun)
			if name == "subContextPool.Return" && len(v.Args) == 1 {
				*out = append(*out, c17Ev(prefix+"return", exprStr(c, v.Args[0]), ""))
			}
			if name == "subContextPool.Get" {
				*out = append(*out, c17Ev(prefix+"get", "?", ""))
			}
			if strings.HasSuffix(name, ".Eval") {
				detail := ""
				if steps {
					var as []string
					for _, a := range v.Args {
						as = append(as, exprStr(c, a))
					}
					detail = strings.Join(as, ", ")
				}
				*out = append(*out, c17Ev(prefix+"eval", strings.TrimSuffix(name, ".Eval"), detail))
			}
			if ix, ok := v.Fun.(*ast.IndexExpr); ok && steps && len(v.Args) == 1 && exprStr(c, v.Args[0]) == "context" && exprStr(c, ix.X) == "args" {
				*out = append(*out, c17Ev(prefix+"arg", exprStr(c, ix.Index), ""))
			}
		}
		return true
	})
}

func c17Ev(kind, v, detail string) string {
	return fmt.Sprintf("(%s, %s, %s)", leanStr(kind), leanStr(v), leanStr(detail))
}

func c17Arity(c *Ctx, fd *ast.FuncDecl) string {
	res := "?"
	if fd == nil {
		return res
	}
	ast.Inspect(fd, func(m ast.Node) bool {
		call, ok := m.(*ast.CallExpr)
		if !ok {
			return true
		}
		switch exprStr(c, call.Fun) {
		case "stageErrArgCount":
			if len(call.Args) == 2 {
				if n, ok := IntLit(call.Args[1]); ok && res == "?" {
					res = fmt.Sprintf("%d-%d", n, n)
				}
			}
		case "stageErrArgRange":
			if len(call.Args) == 2 {
				if s, ok := StringLit(call.Args[1]); ok && res == "?" {
					res = s
				}
			}
		}
		return true
	})
	return res
}

// the string default of EvalStageIndexOrDefault(args, idx, "<dflt>") inside fd
func c17Default(c *Ctx, fd *ast.FuncDecl) (string, bool) {
	var out string
	found := false
	if fd == nil {
		return "", false
	}
	ast.Inspect(fd, func(m ast.Node) bool {
		if call, ok := m.(*ast.CallExpr); ok && exprStr(c, call.Fun) == "EvalStageIndexOrDefault" && len(call.Args) == 3 {
			if s, ok := StringLit(call.Args[2]); ok && !found {
				out, found = s, true
			}
		}
		return true
	})
	return out, found
}

func c17ByteList(s string) string {
	parts := make([]string, len(s))
	for i := 0; i < len(s); i++ {
		parts[i] = fmt.Sprintf("%d", s[i])
	}
	return "[" + strings.Join(parts, ", ") + "]"
}

func init() {
	RegisterGen("C17", func(c *Ctx) string {
		const rng = "pkg/expressions/stdlib/funcsRange.go"
		const pool = "pkg/slicepool/objpool.go"
		var sb strings.Builder
		sb.WriteString("namespace Rare.Gen.C17\n\n")

		// ---- constants
		if n, ok := IntLit(c.Var("pkg/expressions/stage.go", "ArraySeparator")); ok {
			fmt.Fprintf(&sb, "/-- `ArraySeparator` (pkg/expressions/stage.go) -/\ndef arraySeparator : Nat := %d\n", n)
		} else {
			sb.WriteString(untranslatable("arraySeparator"))
		}
		for _, v := range []struct{ fn, lean string }{{"kfArrayRange", "maxIterationsRange"}, {"kfArrayFor", "maxIterationsFor"}} {
			if n, ok := IntLit(c.LocalConst(c.Func(rng, v.fn), "MAX_ITERATIONS")); ok {
				fmt.Fprintf(&sb, "/-- `MAX_ITERATIONS` of %s -/\ndef %s : Nat := %d\n", v.fn, v.lean, n)
			} else {
				sb.WriteString(untranslatable(v.lean))
			}
		}
		okSize := false
		if call, ok := c.Var(rng, "subContextPool").(*ast.CallExpr); ok && len(call.Args) == 1 {
			if strings.HasPrefix(exprStr(c, call.Fun), "slicepool.NewObjectPool[subContext]") {
				if n, ok := IntLit(call.Args[0]); ok {
					fmt.Fprintf(&sb, "/-- `subContextPool = slicepool.NewObjectPool[subContext](n)` -/\ndef subContextPoolSize : Nat := %d\n", n)
					okSize = true
				}
			}
		}
		if !okSize {
			sb.WriteString(untranslatable("subContextPoolSize"))
		}
		for _, v := range []struct{ fn, lean string }{{"kfArraySplit", "splitDefault"}, {"kfArrayJoin", "joinDefault"}, {"kfArrayReduce", "reduceDefault"}} {
			if s, ok := c17Default(c, c.Func(rng, v.fn)); ok {
				fmt.Fprintf(&sb, "/-- default of the optional argument of %s -/\ndef %s : List UInt8 := %s\n", v.fn, v.lean, c17ByteList(s))
			} else {
				sb.WriteString(untranslatable(v.lean))
			}
		}
		// sStart = literal("0"); sIncr = literal("1")
		{
			got := map[string]string{}
			if fd := c.Func(rng, "kfArrayRange"); fd != nil {
				ast.Inspect(fd, func(m ast.Node) bool {
					as, ok := m.(*ast.AssignStmt)
					if !ok || len(as.Lhs) != 1 || len(as.Rhs) != 1 || as.Tok != token.ASSIGN {
						return true
					}
					if call, ok := as.Rhs[0].(*ast.CallExpr); ok && exprStr(c, call.Fun) == "literal" && len(call.Args) == 1 {
						if s, ok := StringLit(call.Args[0]); ok {
							got[exprStr(c, as.Lhs[0])] = s
						}
					}
					return true
				})
			}
			for _, v := range []struct{ goName, lean string }{{"sStart", "rangeDefaultStart"}, {"sIncr", "rangeDefaultIncr"}} {
				if s, ok := got[v.goName]; ok {
					fmt.Fprintf(&sb, "def %s : List UInt8 := %s\n", v.lean, c17ByteList(s))
				} else {
					sb.WriteString(untranslatable(v.lean))
				}
			}
		}
		sb.WriteString("\n")

		// ---- arity and pool discipline per helper
		helpers := []struct{ name, fn string }{
			{"@len", "kfArrayLen"}, {"@split", "kfArraySplit"}, {"@join", "kfArrayJoin"}, {"@select", "kfArraySelect"},
			{"@map", "kfArrayMap"}, {"@reduce", "kfArrayReduce"}, {"@slice", "kfArraySlice"}, {"@range", "kfArrayRange"},
			{"@for", "kfArrayFor"}, {"@filter", "kfArrayFilter"}, {"@in", "kfArrayIn"},
		}
		var ar, pe, hs []string
		for _, h := range helpers {
			fd := c.Func(rng, h.fn)
			c.Fingerprint(rng, h.fn)
			lo, hi := 99, 99
			fmt.Sscanf(c17Arity(c, fd), "%d-%d", &lo, &hi)
			ar = append(ar, fmt.Sprintf("(%s, %d, %d)", leanStr(h.name), lo, hi))
			var ev []string
			if fd == nil {
				ev = []string{c17Ev("missing", "", "")}
			} else {
				cl := c17Closure(fd)
				if cl == nil {
					ev = []string{c17Ev("no-closure", "", "")}
				} else {
					c17PoolEvents(c, fd.Body, "build:", cl, &ev)
					c17PoolEvents(c, cl.Body, "", nil, &ev)
					if len(ev) > 0 { // a pool user: its closure step by step, argument evaluations included
						var st []string
						c17PoolEventsEx(c, cl.Body, "", nil, &st, true)
						hs = append(hs, fmt.Sprintf("(%s, [%s])", leanStr(h.name), strings.Join(st, ", ")))
					}
				}
			}
			pe = append(pe, fmt.Sprintf("(%s, [%s])", leanStr(h.name), strings.Join(ev, ", ")))
		}
		fmt.Fprintf(&sb, "/-- accepted argument counts `lo-hi` per helper (stageErrArgCount / stageErrArgRange) -/\ndef arity : List (String × Nat × Nat) := [\n  %s]\n\n", strings.Join(ar, ",\n  "))
		fmt.Fprintf(&sb, "/-- what each helper does with the pooled sub-context, in source order (`build:` = outside the returned closure) -/\ndef poolEvents : List (String × List (String × String × String)) := [\n  %s]\n\n", strings.Join(pe, ",\n  "))

		fmt.Fprintf(&sb, "/-- the closure of every pool-using helper step by step: `arg i` = `args[i](context)` (evaluated against the ENCLOSING context), Eval calls with their arguments -/\ndef helperSteps : List (String × List (String × String × String)) := [\n  %s]\n\n", strings.Join(hs, ",\n  "))

		// every other use of the pool in the package (must be none)
		{
			var others []string
			files, _ := filepath.Glob(filepath.Join(c.Repo, "pkg/expressions/stdlib", "*.go"))
			sort.Strings(files)
			known := map[string]bool{}
			for _, h := range helpers {
				known[h.fn] = true
			}
			for _, f := range files {
				if strings.HasSuffix(f, "_test.go") {
					continue
				}
				rel, _ := filepath.Rel(c.Repo, f)
				af := c.File(rel)
				if af == nil {
					continue
				}
				for _, d := range af.Decls {
					fd, ok := d.(*ast.FuncDecl)
					if !ok || known[fd.Name.Name] {
						continue
					}
					if strings.Contains(c.Print(fd), "subContextPool") {
						others = append(others, fd.Name.Name)
					}
				}
			}
			fmt.Fprintf(&sb, "/-- functions outside the helpers above that touch `subContextPool` -/\ndef otherPoolUsers : List String := %s\n\n", leanStrList(others))
		}

		for _, v := range []struct{ file, fn, lean string }{
			{rng, "subContext.Eval", "evalCode"}, {rng, "subContext.GetMatch", "getMatchCode"}, {rng, "subContext.GetKey", "getKeyCode"},
			{pool, "NewObjectPoolEx", "objPoolNew"}, {pool, "ObjectPool.Get", "objPoolGet"}, {pool, "ObjectPool.Return", "objPoolReturn"},
		} {
			c.Fingerprint(v.file, v.fn)
			if l, ok := c17Stmts(c, c.Func(v.file, v.fn)); ok {
				fmt.Fprintf(&sb, "/-- statements of `%s` (%s) -/\ndef %s : List String := %s\n\n", v.fn, v.file, v.lean, leanStrList(l))
			} else {
				sb.WriteString(untranslatable(v.lean) + "\n")
			}
		}

		// ---- index normalisation and loops of @select / @slice (every if / for statement of the closure, in order)
		for _, v := range []struct{ fn, lean string }{{"kfArraySelect", "selectIndexCode"}, {"kfArraySlice", "sliceIndexCode"}} {
			cl := c17Closure(c.Func(rng, v.fn))
			var lines []string
			if cl != nil {
				for _, st := range cl.Body.List {
					switch st.(type) {
					case *ast.IfStmt, *ast.ForStmt:
						lines = append(lines, c17Squeeze(c.Print(st)))
					}
				}
			}
			if len(lines) > 0 {
				fmt.Fprintf(&sb, "/-- the `if` / `for` statements of the closure of %s, in order -/\ndef %s : List String := %s\n\n", v.fn, v.lean, leanStrList(lines))
			} else {
				sb.WriteString(untranslatable(v.lean) + "\n")
			}
		}
		// ---- the splitter and MakeArray, statement by statement
		for _, v := range []struct{ file, fn, lean string }{
			{"pkg/stringSplitter/splitter.go", "Splitter.Next", "splitterNext"}, {"pkg/stringSplitter/splitter.go", "Splitter.NextOk", "splitterNextOk"},
			{"pkg/stringSplitter/splitter.go", "Splitter.Done", "splitterDone"}, {"pkg/expressions/stage.go", "MakeArray", "makeArrayCode"},
		} {
			c.Fingerprint(v.file, v.fn)
			if l, ok := c17Stmts(c, c.Func(v.file, v.fn)); ok {
				fmt.Fprintf(&sb, "/-- statements of `%s` (%s) -/\ndef %s : List String := %s\n\n", v.fn, v.file, v.lean, leanStrList(l))
			} else {
				sb.WriteString(untranslatable(v.lean) + "\n")
			}
		}

		// ---- documented helpers
		if b, err := os.ReadFile(filepath.Join(c.Repo, "docs/usage/expressions.md")); err == nil {
			var names []string
			in := false
			re := regexp.MustCompile("^#### (@[a-z]+)\\s*$")
			syn := regexp.MustCompile("`\\{([@$])[ }]")
			for _, line := range strings.Split(string(b), "\n") {
				if strings.HasPrefix(line, "### ") {
					in = strings.HasPrefix(line, "### Ranges (Arrays)")
					continue
				}
				if !in {
					continue
				}
				if m := re.FindStringSubmatch(line); m != nil {
					names = append(names, m[1])
				}
				if strings.HasPrefix(line, "Syntax:") && len(names) == 0 { // the "Array Definition" entry: {@ …} / {$ …}
					for _, m := range syn.FindAllStringSubmatch(line, -1) {
						names = append(names, m[1])
					}
				}
			}
			if len(names) > 0 {
				fmt.Fprintf(&sb, "/-- helpers documented in the \"Ranges (Arrays)\" section of docs/usage/expressions.md -/\ndef documentedHelpers : List String := %s\n\n", leanStrList(names))
			} else {
				sb.WriteString(untranslatable("documentedHelpers") + "\n")
			}
		} else {
			sb.WriteString(untranslatable("documentedHelpers") + "\n")
		}

		sb.WriteString("end Rare.Gen.C17\n")
		return sb.String()
	})
}
