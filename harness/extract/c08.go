package main

import (
	"fmt"
	"go/ast"
	"go/token"
	"sort"
	"strings"
)

// C08: every size / index guard that protects a panicking (or unbounded) Go operation of the
// expression helpers is located by function name + shape and re-emitted as a Lean definition over
// `Int` with Go's wrap-around semantics (lean/Rare/Gen/C08.lean).  The theorems of
// lean/Rare/Props/C08.lean are stated ABOUT these definitions (the guard admits only arguments for
// which the guarded operation cannot panic, for all int64 inputs) and tie them to the hand model.
//
// The translator is the one of c11.go (wrap64 after every + - *, goDiv / goMod, SSA renaming)
// extended with what guards need: `&&` `||` `!` `==` `!=`, nested `if / else if / else`, `x++`,
// named opaque sub-expressions (`len(char)`, `strings.Count(…)`, `math.MaxInt`) that become
// parameters, reads of an int slice (`s.indices[i]`, a function parameter of the Lean definition),
// and guard *chains* (`if c { return A }; …; return B`) whose results are classified as
// pass-through / index / slice / empty together with the list of indices read on the executed path.
// Whatever does not match exactly emits `def <name>_untranslatable : Unit := ()`.

type c08tr struct {
	c      *Ctx
	ver    map[string]int    // SSA version of assigned variables
	lets   []string          // emitted `let` lines
	params map[string]bool   // identifiers that are parameters of the Lean definition
	consts map[string]string // Go identifier -> Lean constant
	opaque map[string]string // printed Go expression -> Lean parameter / constant
	arrays map[string]string // printed Go slice expression -> Lean function parameter (Int → Int)
	ok     bool
	why    string
	ncond  int
	reads  []string // index expressions read so far (chain translation)
}

func newC08tr(c *Ctx, params []string, opaque map[string]string) *c08tr {
	t := &c08tr{c: c, ver: map[string]int{}, params: map[string]bool{}, consts: map[string]string{},
		opaque: map[string]string{"math.MaxInt": "maxInt64", "math.MaxInt64": "maxInt64", "math.MinInt": "minInt64", "math.MinInt64": "minInt64"},
		arrays: map[string]string{}, ok: true}
	for _, p := range params {
		t.params[p] = true
	}
	for k, v := range opaque {
		t.opaque[k] = v
	}
	return t
}

func (t *c08tr) fail(why string) string {
	if t.ok {
		t.ok = false
		t.why = why
	}
	return "0"
}

func (t *c08tr) name(v string) string {
	if n, has := t.ver[v]; has && n > 0 {
		return fmt.Sprintf("%s_%d", v, n)
	}
	if lean, has := t.consts[v]; has {
		return lean
	}
	if t.params[v] {
		return v
	}
	return t.fail("unknown identifier " + v)
}

// expr translates an integer expression.
func (t *c08tr) expr(e ast.Expr) string {
	if e == nil {
		return t.fail("nil expression")
	}
	if p, has := t.opaque[t.c.Print(e)]; has {
		return p
	}
	switch v := e.(type) {
	case *ast.Ident:
		return t.name(v.Name)
	case *ast.ParenExpr:
		return "(" + t.expr(v.X) + ")"
	case *ast.BasicLit:
		if n, ok := IntLit(v); ok && v.Kind == token.INT {
			return fmt.Sprint(n)
		}
	case *ast.UnaryExpr:
		if v.Op == token.SUB {
			if n, ok := IntLit(v); ok {
				return fmt.Sprintf("(%d)", n)
			}
			return fmt.Sprintf("(wrap64 (0 - %s))", t.expr(v.X))
		}
	case *ast.CallExpr:
		// int(x) / int64(x): the same 64-bit value
		if id, ok := v.Fun.(*ast.Ident); ok && len(v.Args) == 1 && (id.Name == "int" || id.Name == "int64") {
			return t.expr(v.Args[0])
		}
	case *ast.IndexExpr:
		if arr, has := t.arrays[t.c.Print(v.X)]; has {
			idx := t.expr(v.Index)
			t.reads = append(t.reads, idx)
			return fmt.Sprintf("(%s %s)", arr, idx)
		}
	case *ast.BinaryExpr:
		switch v.Op {
		case token.ADD, token.SUB, token.MUL:
			a, b := t.expr(v.X), t.expr(v.Y)
			op := map[token.Token]string{token.ADD: "+", token.SUB: "-", token.MUL: "*"}[v.Op]
			return fmt.Sprintf("(wrap64 (%s %s %s))", a, op, b)
		case token.QUO:
			return fmt.Sprintf("(goDiv %s %s)", t.expr(v.X), t.expr(v.Y))
		case token.REM:
			return fmt.Sprintf("(goMod %s %s)", t.expr(v.X), t.expr(v.Y))
		case token.SHL:
			if n, ok := IntLit(v); ok {
				return fmt.Sprint(n)
			}
		}
	}
	return t.fail("expression " + t.c.Print(e))
}

// cond translates a boolean expression.
func (t *c08tr) cond(e ast.Expr) string {
	switch v := e.(type) {
	case *ast.ParenExpr:
		return "(" + t.cond(v.X) + ")"
	case *ast.UnaryExpr:
		if v.Op == token.NOT {
			return "(!" + t.cond(v.X) + ")"
		}
	case *ast.BinaryExpr:
		switch v.Op {
		case token.LAND:
			return fmt.Sprintf("(%s && %s)", t.cond(v.X), t.cond(v.Y))
		case token.LOR:
			return fmt.Sprintf("(%s || %s)", t.cond(v.X), t.cond(v.Y))
		case token.LSS, token.GTR, token.LEQ, token.GEQ, token.EQL, token.NEQ:
			op := map[token.Token]string{token.LSS: "<", token.GTR: ">", token.LEQ: "≤", token.GEQ: "≥", token.EQL: "=", token.NEQ: "≠"}[v.Op]
			return fmt.Sprintf("(decide (%s %s %s))", t.expr(v.X), op, t.expr(v.Y))
		}
	}
	t.fail("condition " + t.c.Print(e))
	return "false"
}

func (t *c08tr) let(lhs, val string) {
	t.ver[lhs]++
	t.lets = append(t.lets, fmt.Sprintf("  let %s := %s", t.name(lhs), val))
}

func (t *c08tr) newCond(val string) string {
	t.ncond++
	n := fmt.Sprintf("c_%d", t.ncond)
	t.lets = append(t.lets, fmt.Sprintf("  let %s := %s", n, val))
	return n
}

// assign emits `lhs_n := if guard then val else lhs_{n-1}`.
func (t *c08tr) assign(lhs string, tok token.Token, rhs ast.Expr, guard string) {
	var val string
	switch tok {
	case token.DEFINE:
		if t.ver[lhs] == 0 && guard == "" {
			t.let(lhs, t.expr(rhs))
			return
		}
		if t.ver[lhs] == 0 {
			t.fail("guarded definition of " + lhs)
			return
		}
		val = t.expr(rhs)
	case token.ASSIGN:
		val = t.expr(rhs)
	case token.ADD_ASSIGN:
		val = fmt.Sprintf("(wrap64 (%s + %s))", t.name(lhs), t.expr(rhs))
	case token.SUB_ASSIGN:
		val = fmt.Sprintf("(wrap64 (%s - %s))", t.name(lhs), t.expr(rhs))
	case token.MUL_ASSIGN:
		val = fmt.Sprintf("(wrap64 (%s * %s))", t.name(lhs), t.expr(rhs))
	case token.QUO_ASSIGN:
		val = fmt.Sprintf("(goDiv %s %s)", t.name(lhs), t.expr(rhs))
	case token.REM_ASSIGN:
		val = fmt.Sprintf("(goMod %s %s)", t.name(lhs), t.expr(rhs))
	default:
		t.fail("assignment operator " + tok.String())
		return
	}
	if guard != "" {
		val = fmt.Sprintf("if %s then %s else %s", guard, val, t.name(lhs))
	}
	t.let(lhs, val)
}

// assignsTarget reports whether the statement (recursively) assigns a target variable.
func c08AssignsTarget(s ast.Stmt, targets map[string]bool) bool {
	found := false
	ast.Inspect(s, func(n ast.Node) bool {
		switch v := n.(type) {
		case *ast.FuncLit:
			return false
		case *ast.AssignStmt:
			for _, l := range v.Lhs {
				if id, ok := l.(*ast.Ident); ok && targets[id.Name] {
					found = true
				}
			}
		case *ast.IncDecStmt:
			if id, ok := v.X.(*ast.Ident); ok && targets[id.Name] {
				found = true
			}
		case *ast.ValueSpec:
			for _, nm := range v.Names {
				if targets[nm.Name] {
					found = true
				}
			}
		}
		return true
	})
	return found
}

// stmts translates the statements that define the target variables, under the path condition
// `guard` ("" = unconditional).  `if` statements that assign no target are skipped; when they are
// early exits their conditions are collected in `exits` (printed Go source).
func (t *c08tr) stmts(body []ast.Stmt, targets map[string]bool, guard string, exits *[]string) {
	for _, s := range body {
		if !t.ok {
			return
		}
		switch v := s.(type) {
		case *ast.DeclStmt:
			gd, ok := v.Decl.(*ast.GenDecl)
			if !ok {
				continue
			}
			for _, sp := range gd.Specs {
				vs, ok := sp.(*ast.ValueSpec)
				if !ok {
					continue
				}
				for i, n := range vs.Names {
					if !targets[n.Name] {
						continue
					}
					if guard != "" {
						t.fail("declaration under a condition")
					}
					if len(vs.Values) == 0 {
						t.ver[n.Name]++
						t.lets = append(t.lets, fmt.Sprintf("  let %s : Int := 0", t.name(n.Name)))
					} else if i < len(vs.Values) {
						t.let(n.Name, t.expr(vs.Values[i]))
					}
				}
			}
		case *ast.AssignStmt:
			if !c08AssignsTarget(v, targets) {
				continue
			}
			if len(v.Lhs) != 1 || len(v.Rhs) != 1 {
				// `left, err1 := strconv.Atoi(…)`: the variable is an input of the fragment
				for _, l := range v.Lhs {
					if id, ok := l.(*ast.Ident); ok && targets[id.Name] && (t.ver[id.Name] > 0 || !t.params[id.Name] || v.Tok != token.DEFINE) {
						t.fail("multi-value assignment to " + id.Name)
					}
				}
				continue
			}
			id := v.Lhs[0].(*ast.Ident)
			if v.Tok == token.DEFINE && t.params[id.Name] && t.ver[id.Name] == 0 {
				// `lenS := len(s)`, `realStart := sliceStart`: an input named by the spec unless translatable
				if _, isCall := v.Rhs[0].(*ast.CallExpr); isCall {
					if _, has := t.opaque[t.c.Print(v.Rhs[0])]; !has {
						continue
					}
				}
			}
			t.assign(id.Name, v.Tok, v.Rhs[0], guard)
		case *ast.IncDecStmt:
			id, ok := v.X.(*ast.Ident)
			if !ok || !targets[id.Name] {
				continue
			}
			op := "+"
			if v.Tok == token.DEC {
				op = "-"
			}
			val := fmt.Sprintf("(wrap64 (%s %s 1))", t.name(id.Name), op)
			if guard != "" {
				val = fmt.Sprintf("if %s then %s else %s", guard, val, t.name(id.Name))
			}
			t.let(id.Name, val)
		case *ast.IfStmt:
			if !c08AssignsTarget(v, targets) {
				if exits != nil && c08EndsInReturn(v.Body) && v.Else == nil && v.Init == nil {
					*exits = append(*exits, t.c.Print(v.Cond))
				}
				continue
			}
			t.ifStmt(v, targets, guard, exits)
		case *ast.ReturnStmt, *ast.ExprStmt:
			// not part of the fragment
		case *ast.ForStmt, *ast.RangeStmt, *ast.SwitchStmt:
			if c08AssignsTarget(v, targets) {
				t.fail("target assigned inside a loop / switch")
			}
		}
	}
}

func c08EndsInReturn(b *ast.BlockStmt) bool {
	if b == nil || len(b.List) == 0 {
		return false
	}
	_, ok := b.List[len(b.List)-1].(*ast.ReturnStmt)
	return ok
}

func (t *c08tr) ifStmt(v *ast.IfStmt, targets map[string]bool, guard string, exits *[]string) {
	if v.Init != nil {
		t.fail("if with init statement")
		return
	}
	cv := t.cond(v.Cond)
	yes := cv
	if guard != "" {
		yes = fmt.Sprintf("(%s && %s)", guard, cv)
	}
	cy := t.newCond(yes)
	var cn string
	if v.Else != nil {
		no := "(!" + cv + ")"
		if guard != "" {
			no = fmt.Sprintf("(%s && !%s)", guard, cv)
		}
		cn = t.newCond(no)
	}
	t.stmts(v.Body.List, targets, cy, exits)
	switch e := v.Else.(type) {
	case nil:
	case *ast.BlockStmt:
		t.stmts(e.List, targets, cn, exits)
	case *ast.IfStmt:
		if c08AssignsTarget(e, targets) {
			t.ifStmt(e, targets, cn, exits)
		}
	default:
		t.fail("else form")
	}
}

func (t *c08tr) body() string { return strings.Join(t.lets, "\n") }

// ---- locating things

// c08Closure returns the body of the innermost function literal of fd (the run-time closure).
func c08Closure(fd *ast.FuncDecl) []ast.Stmt {
	if fd == nil {
		return nil
	}
	return innermostClosure(fd)
}

// c08FindIf finds (depth first, in source order) the first `if` inside the statements whose body
// satisfies pred; function literals are not entered.
func c08FindIf(body []ast.Stmt, pred func(*ast.IfStmt) bool) *ast.IfStmt {
	var out *ast.IfStmt
	for _, s := range body {
		ast.Inspect(s, func(n ast.Node) bool {
			if out != nil {
				return false
			}
			if _, ok := n.(*ast.FuncLit); ok {
				return false
			}
			if is, ok := n.(*ast.IfStmt); ok && pred(is) {
				out = is
				return false
			}
			return true
		})
		if out != nil {
			break
		}
	}
	return out
}

// c08Returns: the if body is exactly `return <something printing as one of want…>` (prefix match on
// the printed first result).
func (c *Ctx) c08Returns(is *ast.IfStmt, wantPrefix string) bool {
	if len(is.Body.List) != 1 {
		return false
	}
	rs, ok := is.Body.List[0].(*ast.ReturnStmt)
	if !ok || len(rs.Results) == 0 {
		return false
	}
	var parts []string
	for _, r := range rs.Results {
		parts = append(parts, c.Print(r))
	}
	return strings.HasPrefix(strings.Join(parts, ", "), wantPrefix)
}

// c08Calls lists the printed calls of `name` (pkg.Func or Func) inside the statements.
func (c *Ctx) c08Calls(body []ast.Stmt, name string) []string {
	var out []string
	for _, s := range body {
		ast.Inspect(s, func(n ast.Node) bool {
			call, ok := n.(*ast.CallExpr)
			if !ok {
				return true
			}
			if c.Print(call.Fun) == name {
				out = append(out, c.Print(call))
			}
			return true
		})
	}
	return out
}

// c08Slices lists every slice / index expression on `base` (printed) inside the statements.
func (c *Ctx) c08Slices(body []ast.Stmt, base string) []string {
	var out []string
	for _, s := range body {
		ast.Inspect(s, func(n ast.Node) bool {
			switch v := n.(type) {
			case *ast.SliceExpr:
				if c.Print(v.X) == base {
					out = append(out, c.Print(v))
				}
			case *ast.IndexExpr:
				if c.Print(v.X) == base {
					out = append(out, c.Print(v))
				}
			}
			return true
		})
	}
	return out
}

// c08Assignments lists the printed assignments (incl. `var` / `:=`) to a variable.
func (c *Ctx) c08Assignments(body []ast.Stmt, name string) []string {
	var out []string
	for _, s := range body {
		ast.Inspect(s, func(n ast.Node) bool {
			switch v := n.(type) {
			case *ast.AssignStmt:
				for _, l := range v.Lhs {
					if id, ok := l.(*ast.Ident); ok && id.Name == name {
						out = append(out, c.Print(v))
					}
				}
			case *ast.IncDecStmt:
				if id, ok := v.X.(*ast.Ident); ok && id.Name == name {
					out = append(out, c.Print(v))
				}
			}
			return true
		})
	}
	return out
}

// c08MapEntry finds the value expression of a string key in a package-level map literal.
func (c *Ctx) c08MapEntry(rel, mapName, key string) ast.Expr {
	cl, ok := c.Var(rel, mapName).(*ast.CompositeLit)
	if !ok {
		return nil
	}
	for _, el := range cl.Elts {
		kv, ok := el.(*ast.KeyValueExpr)
		if !ok {
			continue
		}
		if k, ok := StringLit(kv.Key); ok && k == key {
			return kv.Value
		}
	}
	return nil
}

func c08ParamList(params []string) string {
	return "(" + strings.Join(params, " ") + " : Int)"
}

// ---- guard chains (`GetMatch` implementations)

// chain translates `x := e; if c { return A }; …; return B` into a Lean `Act` expression and, in
// parallel, the list of indices read from the guarded array on the executed path.
func (t *c08tr) chain(body []ast.Stmt, lenOf map[string]string) (act string, reads string) {
	if len(body) == 0 {
		t.fail("function falls off its end")
		return ".empty", "[]"
	}
	readsNow := func() string { return "[" + strings.Join(t.reads, ", ") + "]" }
	switch v := body[0].(type) {
	case *ast.AssignStmt:
		if len(v.Lhs) != 1 || len(v.Rhs) != 1 || v.Tok != token.DEFINE {
			t.fail("chain assignment " + t.c.Print(v))
			return ".empty", "[]"
		}
		id, ok := v.Lhs[0].(*ast.Ident)
		if !ok {
			t.fail("chain assignment " + t.c.Print(v))
			return ".empty", "[]"
		}
		val := t.expr(v.Rhs[0])
		t.ver[id.Name]++
		line := fmt.Sprintf("  let %s := %s", t.name(id.Name), val)
		a, r := t.chain(body[1:], lenOf)
		return line + "\n" + a, line + "\n" + r
	case *ast.IfStmt:
		if v.Init != nil || v.Else != nil || len(v.Body.List) != 1 {
			t.fail("chain if " + t.c.Print(v.Cond))
			return ".empty", "[]"
		}
		rs, ok := v.Body.List[0].(*ast.ReturnStmt)
		if !ok || len(rs.Results) != 1 {
			t.fail("chain if body")
			return ".empty", "[]"
		}
		cv := t.cond(v.Cond)
		saved := append([]string(nil), t.reads...)
		ya := t.act(rs.Results[0], lenOf)
		yr := readsNow()
		t.reads = saved
		na, nr := t.chain(body[1:], lenOf)
		return fmt.Sprintf("  if %s then %s else\n%s", cv, ya, na), fmt.Sprintf("  if %s then %s else\n%s", cv, yr, nr)
	case *ast.ReturnStmt:
		if len(v.Results) != 1 {
			t.fail("chain return")
			return ".empty", "[]"
		}
		a := t.act(v.Results[0], lenOf)
		return "  " + a, "  " + readsNow()
	}
	t.fail("chain statement " + t.c.Print(body[0]))
	return ".empty", "[]"
}

// act classifies a returned expression.
func (t *c08tr) act(e ast.Expr, lenOf map[string]string) string {
	switch v := e.(type) {
	case *ast.BasicLit:
		if s, ok := StringLit(v); ok && s == "" {
			return "Act.empty"
		}
	case *ast.CallExpr:
		if sel, ok := v.Fun.(*ast.SelectorExpr); ok && sel.Sel.Name == "GetMatch" && len(v.Args) == 1 {
			return "Act.passThrough " + t.expr(v.Args[0])
		}
		if ix, ok := v.Fun.(*ast.IndexExpr); ok { // s.args[idx](s.sub)
			return t.indexAct(ix, lenOf)
		}
	case *ast.IndexExpr:
		return t.indexAct(v, lenOf)
	case *ast.SliceExpr:
		if v.Low != nil && v.High != nil && !v.Slice3 {
			return fmt.Sprintf("Act.slice %s %s", t.expr(v.Low), t.expr(v.High))
		}
	}
	t.fail("returned expression " + t.c.Print(e))
	return "Act.empty"
}

func (t *c08tr) indexAct(ix *ast.IndexExpr, lenOf map[string]string) string {
	n, has := lenOf[t.c.Print(ix.X)]
	if !has {
		t.fail("index into " + t.c.Print(ix.X))
		return "Act.empty"
	}
	idx := t.expr(ix.Index)
	t.reads = append(t.reads, idx)
	return fmt.Sprintf("Act.index %s %s", n, idx)
}

// ---- the emitter

func init() {
	RegisterGen("C08", func(c *Ctx) string {
		var sb strings.Builder
		sb.WriteString("import Rare.Base.GoInt\nset_option linter.unusedVariables false\nnamespace Rare.Gen.C08\nopen Rare\n\n")
		sb.WriteString("/-- What a `GetMatch(idx)` implementation does with an index: hand it to the enclosing context,\n    read element `i` of a table of `n` entries, slice the line, or answer \"\". -/\n")
		sb.WriteString("inductive Act where\n  | passThrough (idx : Int)\n  | index (n i : Int)\n  | slice (lo hi : Int)\n  | empty\n  deriving Repr, DecidableEq\n\n")

		const drawing = "pkg/expressions/stdlib/drawing.go"
		const strs = "pkg/expressions/stdlib/funcsStrings.go"
		const rng = "pkg/expressions/stdlib/funcsRange.go"
		const arith = "pkg/expressions/stdlib/funcsArithmatic.go"
		const funcs = "pkg/expressions/stdlib/funcs.go"
		const util = "pkg/expressions/stdlib/util.go"
		const kb = "pkg/expressions/keyBuilder.go"
		const ctxArr = "pkg/expressions/contextArray.go"
		const ff = "pkg/expressions/funcfile/stage.go"
		const ssc = "pkg/extractor/sliceSpaceExpressionContext.go"

		for _, p := range [][2]string{{drawing, "kfRepeat"}, {drawing, "kfBar"}, {drawing, "kfColor"}, {strs, "kfSubstr"}, {strs, "selectField"}, {strs, "kfSelect"},
			{strs, "kfPercent"}, {strs, "kfBytesize"}, {strs, "kfBytesizeSi"}, {strs, "kfDownscale"}, {arith, "kfRound"}, {arith, "arithmaticHelperiChecked"},
			{rng, "kfArraySlice"}, {rng, "kfArraySelect"}, {rng, "subContext.GetMatch"}, {rng, "subContext.Eval"}, {ff, "lazySubContext.GetMatch"},
			{ctxArr, "KeyBuilderContextArray.GetMatch"}, {ssc, "SliceSpaceExpressionContext.GetMatch"}, {kb, "KeyBuilder.Compile"},
			{"pkg/expressions/stdlib/funcsJson.go", "kfJsonQuery"}, {"pkg/expressions/stdlib/funcsLookups.go", "kfLoadFile"}} {
			c.Fingerprint(p[0], p[1])
		}

		emitConst := func(lean, rel, name string) bool {
			if n, ok := IntLit(c.Var(rel, name)); ok {
				fmt.Fprintf(&sb, "/-- `%s` of %s -/\ndef %s : Int := %d\n\n", name, rel, lean, n)
				return true
			}
			sb.WriteString(untranslatable(lean))
			return false
		}
		emitStrs := func(lean, doc string, l []string, ok bool) {
			if !ok {
				sb.WriteString(untranslatable(lean))
				return
			}
			fmt.Fprintf(&sb, "/-- %s -/\ndef %s : List String := %s\n\n", doc, lean, leanStrList(l))
		}
		emitDef := func(lean, doc string, params []string, extra string, typ string, t *c08tr, result string) {
			if !t.ok {
				fmt.Fprintf(&sb, "-- %s: %s\n", lean, strings.ReplaceAll(t.why, "\n", " "))
				sb.WriteString(untranslatable(lean))
				return
			}
			body := t.body()
			if body != "" {
				body += "\n"
			}
			fmt.Fprintf(&sb, "/-- %s -/\ndef %s %s%s : %s :=\n%s  %s\n\n", doc, lean, c08ParamList(params), extra, typ, body, result)
		}

		// ---- {repeat}: the size guard in front of strings.Repeat
		hasRepeatCap := emitConst("maxRepeatBytes", drawing, "maxRepeatBytes")
		{
			body := c08Closure(c.Func(drawing, "kfRepeat"))
			t := newC08tr(c, []string{"count", "len_char"}, map[string]string{"len(char)": "len_char"})
			if hasRepeatCap {
				t.consts["maxRepeatBytes"] = "maxRepeatBytes"
			}
			is := c08FindIf(body, func(is *ast.IfStmt) bool { return c.c08Returns(is, "ErrorValue") })
			res := "false"
			if is == nil || is.Init != nil || is.Else != nil {
				t.fail("no `if … { return ErrorValue }` in the closure of kfRepeat")
			} else {
				res = t.cond(is.Cond)
			}
			emitDef("repeatGuard", "`kfRepeat`: the condition under which the closure answers `ErrorValue` instead of calling `strings.Repeat`", []string{"count", "len_char"}, "", "Bool", t, res)
			calls := c.c08Calls(body, "strings.Repeat")
			emitStrs("repeatCalls", "`kfRepeat`: every call of `strings.Repeat` in the closure (the guarded quantities are the ones used)", calls, len(calls) > 0)
		}

		// ---- {bar}: the length cap in front of the block-writing loop of termunicode.BarWrite
		hasBarCap := emitConst("maxBarLen", drawing, "maxBarLen")
		{
			fd := c.Func(drawing, "kfBar")
			t := newC08tr(c, []string{"maxLen"}, nil)
			if hasBarCap {
				t.consts["maxBarLen"] = "maxBarLen"
			}
			res := "false"
			var uses []string
			if fd == nil || fd.Body == nil {
				t.fail("function kfBar not found")
			} else {
				is := c08FindIf(fd.Body.List, func(is *ast.IfStmt) bool { return c.c08Returns(is, "stageArgError(ErrValue") })
				if is == nil || is.Init != nil || is.Else != nil {
					t.fail("no `if … { return stageArgError(ErrValue, …) }` in kfBar")
				} else {
					res = t.cond(is.Cond)
				}
				uses = c.c08Calls(c08Closure(fd), "termunicode.BarWrite")
			}
			emitDef("barLenGuard", "`kfBar`: the condition under which the builder rejects its constant length argument", []string{"maxLen"}, "", "Bool", t, res)
			emitStrs("barCalls", "`kfBar`: every call of `termunicode.BarWrite` in the run-time closure", uses, len(uses) > 0)
		}

		// ---- {color}: the name table of color.LookupColorByName
		{
			const col = "pkg/color/coloring.go"
			c.Fingerprint(col, "LookupColorByName")
			c.Fingerprint(col, "Wrap")
			cl, _ := c.Var(col, "colorMap").(*ast.CompositeLit)
			var parts []string
			ok := cl != nil
			if ok {
				for _, el := range cl.Elts {
					kv, isKV := el.(*ast.KeyValueExpr)
					if !isKV {
						ok = false
						break
					}
					k, ok1 := StringLit(kv.Key)
					v, ok2 := c14Str(c, []string{col}, kv.Value, 0)
					if !ok1 || !ok2 {
						ok = false
						break
					}
					parts = append(parts, fmt.Sprintf("(%s, %s)", leanStr(k), c20Bytes(v)))
				}
			}
			if !ok || len(parts) == 0 {
				sb.WriteString(untranslatable("colorMap"))
			} else {
				fmt.Fprintf(&sb, "/-- `colorMap` of %s (name, escape sequence) -/\ndef colorMap : List (String × List UInt8) := [%s]\n\n", col, strings.Join(parts, ",\n  "))
			}
			// LookupColorByName must look the lower-cased name up
			fd := c.Func(col, "LookupColorByName")
			var l []string
			if fd != nil && fd.Body != nil {
				ast.Inspect(fd.Body, func(n ast.Node) bool {
					if ix, isIx := n.(*ast.IndexExpr); isIx {
						l = append(l, c.Print(ix))
					}
					return true
				})
			}
			emitStrs("colorLookup", "`LookupColorByName`: the table look-ups", l, fd != nil)
		}

		// ---- {substr}: index clamping in front of s[left:right]
		{
			body := c08Closure(c.Func(strs, "kfSubstr"))
			t := newC08tr(c, []string{"lenS", "left", "length"}, nil)
			tg := map[string]bool{"length": true, "left": true, "right": true}
			var exits []string
			t.stmts(body, tg, "", &exits)
			res := "(0, 0)"
			sl := c.c08Slices(body, "s")
			if len(sl) != 1 {
				t.fail("expected exactly one slice of s in kfSubstr")
			} else {
				for _, s := range body {
					ast.Inspect(s, func(n ast.Node) bool {
						if se, ok := n.(*ast.SliceExpr); ok && c.Print(se.X) == "s" {
							if se.Low == nil || se.High == nil || se.Slice3 {
								t.fail("slice form " + c.Print(se))
							} else {
								res = fmt.Sprintf("(%s, %s)", t.expr(se.Low), t.expr(se.High))
							}
						}
						return true
					})
				}
			}
			emitDef("substrBounds", "`kfSubstr`: the statements of the closure that compute the bounds of `s[lo:hi]` (inputs: `lenS = len(s)` and the two parsed integers)", []string{"lenS", "left", "length"}, "", "Int × Int", t, res)
			emitStrs("substrExits", "`kfSubstr`: conditions of the early returns in front of the slice", exits, body != nil)
		}

		// ---- selectField: the slice bounds are loop variables; pin every assignment and slice
		{
			fd := c.Func(strs, "selectField")
			var l []string
			if fd != nil && fd.Body != nil {
				l = append(l, c.c08Assignments(fd.Body.List, "wordStart")...)
				l = append(l, c.c08Slices(fd.Body.List, "s")...)
				ast.Inspect(fd.Body, func(n ast.Node) bool {
					if rs, ok := n.(*ast.RangeStmt); ok {
						l = append(l, "range "+c.Print(rs.Key)+", "+c.Print(rs.Value)+" over "+c.Print(rs.X))
					}
					return true
				})
			}
			emitStrs("selectFieldShape", "`selectField`: every assignment to `wordStart`, every slice of `s`, and the loop header", l, fd != nil)
		}

		// ---- {@slice}: start normalisation and the loop guard
		{
			body := c08Closure(c.Func(rng, "kfArraySlice"))
			cnt := "strings.Count(splitter.S, ArraySeparatorString)"
			t := newC08tr(c, []string{"sliceStart", "cnt"}, map[string]string{cnt: "cnt"})
			t.stmts(body, map[string]bool{"realStart": true}, "", nil)
			res := "0"
			if t.ver["realStart"] == 0 {
				t.fail("realStart is not computed in kfArraySlice")
			} else {
				res = t.name("realStart")
			}
			emitDef("arraySliceStart", "`kfArraySlice`: the statements that compute `realStart` (`cnt = strings.Count(arr, sep)`)", []string{"sliceStart", "cnt"}, "", "Int", t, res)

			t2 := newC08tr(c, []string{"sliceLen", "i", "realStart"}, nil)
			res2 := "false"
			var loop *ast.ForStmt
			for _, s := range body {
				if f, ok := s.(*ast.ForStmt); ok {
					loop = f
				}
			}
			if loop == nil || loop.Cond == nil {
				t2.fail("no for loop in kfArraySlice")
			} else if be, ok := loop.Cond.(*ast.BinaryExpr); ok && be.Op == token.LAND && c.Print(be.Y) == "!splitter.Done()" {
				res2 = t2.cond(be.X)
			} else {
				t2.fail("loop condition " + c.Print(loop.Cond))
			}
			emitDef("arraySliceGuard", "`kfArraySlice`: the loop condition next to `!splitter.Done()`", []string{"sliceLen", "i", "realStart"}, "", "Bool", t2, res2)
		}

		// ---- {@select}: index normalisation
		{
			body := c08Closure(c.Func(rng, "kfArraySelect"))
			cnt := "strings.Count(splitter.S, splitter.Delim)"
			t := newC08tr(c, []string{"index", "cnt"}, map[string]string{cnt: "cnt"})
			t.stmts(body, map[string]bool{"searchIndex": true}, "", nil)
			res := "0"
			if t.ver["searchIndex"] == 0 {
				t.fail("searchIndex is not computed in kfArraySelect")
			} else {
				res = t.name("searchIndex")
			}
			emitDef("arraySelectIndex", "`kfArraySelect`: the statements that compute `searchIndex` (`cnt = strings.Count(arr, sep)`)", []string{"index", "cnt"}, "", "Int", t, res)
		}

		// ---- precision caps (strconv.FormatFloat / AppendFloat allocate `precision` digits)
		hasPrec := emitConst("maxPrecision", util, "maxPrecision")
		{
			var uses []string
			okAll := true
			for _, p := range [][3]string{{arith, "kfRound", "round"}, {strs, "kfPercent", "percent"}, {strs, "kfBytesize", "bytesize"}, {strs, "kfBytesizeSi", "bytesizesi"}, {strs, "kfDownscale", "downscale"}} {
				fd := c.Func(p[0], p[1])
				lean := p[2] + "PrecisionGuard"
				t := newC08tr(c, nil, nil)
				if hasPrec {
					t.consts["maxPrecision"] = "maxPrecision"
				}
				res := "false"
				v := "precision"
				if fd == nil || fd.Body == nil {
					t.fail("function " + p[1] + " not found")
				} else {
					is := c08FindIf(fd.Body.List, func(is *ast.IfStmt) bool { return c.c08Returns(is, "stageArgError(ErrValue") })
					if is == nil || is.Init != nil || is.Else != nil {
						t.fail("no `if … { return stageArgError(ErrValue, …) }` in " + p[1])
					} else {
						// the guarded variable is the single identifier of the condition that is not the cap
						ast.Inspect(is.Cond, func(n ast.Node) bool {
							if id, ok := n.(*ast.Ident); ok && id.Name != "maxPrecision" {
								v = id.Name
							}
							return true
						})
						t.params[v] = true
						res = t.cond(is.Cond)
						// where the guarded variable is consumed afterwards (inside the run-time closure)
						var cons []string
						for _, s := range c08Closure(fd) {
							ast.Inspect(s, func(n ast.Node) bool {
								call, ok := n.(*ast.CallExpr)
								if !ok {
									return true
								}
								for _, a := range call.Args {
									if id, ok := a.(*ast.Ident); ok && id.Name == v {
										cons = append(cons, c.Print(call.Fun))
									}
								}
								return true
							})
						}
						if len(cons) == 0 {
							okAll = false
						}
						uses = append(uses, p[2]+": "+v+" -> "+strings.Join(cons, ","))
					}
				}
				emitDef(lean, "`"+p[1]+"`: the condition under which the builder rejects its constant precision argument", []string{v}, "", "Bool", t, res)
			}
			emitStrs("precisionUses", "for every helper with a precision cap: the guarded variable and the calls that consume it in the run-time closure", uses, okAll && len(uses) == 5)
		}

		// ---- divi / modi: the zero-divisor guards handed to arithmaticHelperiChecked
		for _, p := range [][2]string{{"divi", "diviGuard"}, {"modi", "modiGuard"}} {
			val := strings.TrimSuffix(p[1], "Guard") + "Val"
			tG := newC08tr(c, []string{"a", "b"}, nil)
			tV := newC08tr(c, []string{"a", "b"}, nil)
			g, vv := "false", "0"
			call, _ := c.c08MapEntry(funcs, "StandardFunctions", p[0]).(*ast.CallExpr)
			var fl *ast.FuncLit
			if call != nil && c.Print(call.Fun) == "arithmaticHelperiChecked" && len(call.Args) == 1 {
				fl, _ = call.Args[0].(*ast.FuncLit)
			}
			if fl == nil || len(fl.Body.List) != 2 {
				tG.fail("StandardFunctions[\"" + p[0] + "\"] is not arithmaticHelperiChecked(func(a, b int) (int, bool) { if …; return … })")
				tV.fail(tG.why)
			} else {
				is, ok1 := fl.Body.List[0].(*ast.IfStmt)
				rs, ok2 := fl.Body.List[1].(*ast.ReturnStmt)
				if !ok1 || !ok2 || is.Init != nil || is.Else != nil || !c.c08Returns(is, "0, false") || len(rs.Results) != 2 || c.Print(rs.Results[1]) != "true" {
					tG.fail("shape of the " + p[0] + " operation")
					tV.fail(tG.why)
				} else {
					names := []string{}
					for _, f := range fl.Type.Params.List {
						for _, n := range f.Names {
							names = append(names, n.Name)
						}
					}
					if len(names) != 2 || names[0] != "a" || names[1] != "b" {
						tG.fail("parameter names of the " + p[0] + " operation")
						tV.fail(tG.why)
					} else {
						g = tG.cond(is.Cond)
						vv = tV.expr(rs.Results[0])
					}
				}
			}
			emitDef(p[1], "`"+p[0]+"`: the condition under which the operation rejects its operands (`<VALUE>`)", []string{"a", "b"}, "", "Bool", tG, g)
			emitDef(val, "`"+p[0]+"`: the value computed when the guard passes", []string{"a", "b"}, "", "Int", tV, vv)
		}
		{
			// arithmaticHelperiChecked must hand the operation's refusal on as ErrorValue before using the value
			fd := c.Func(arith, "arithmaticHelperiChecked")
			var l []string
			if fd != nil {
				body := c08Closure(fd)
				l = append(l, c.c08Assignments(body, "final")...)
				if is := c08FindIf(body, func(is *ast.IfStmt) bool { return c.c08Returns(is, "ErrorValue") }); is != nil {
					l = append(l, "if "+c.Print(is.Cond)+" return ErrorValue")
				}
			}
			emitStrs("checkedHelperShape", "`arithmaticHelperiChecked`: the assignments to `final` and the refusal branch of the run-time loop", l, fd != nil)
		}

		// ---- stdmath (`{! …}` formulas): the integer operators `%`, `<<`, `>>` of the `ops` table - the only
		// operations of the formula evaluator that can panic (integer remainder by zero, negative shift count) -
		// as `v := int64(right); if GUARD { return math.NaN() }; return float64(int64(left) OP v)`
		{
			const mops = "pkg/expressions/stdmath/ops.go"
			var shape []string
			okAll := true
			for _, p := range [][4]string{{"%", "mathModGuard", "r", "%"}, {"<<", "mathShlGuard", "n", "<<"}, {">>", "mathShrGuard", "n", ">>"}} {
				t := newC08tr(c, []string{p[2]}, nil)
				res := "false"
				fl, _ := c.c08MapEntry(mops, "ops", p[0]).(*ast.FuncLit)
				if fl == nil || len(fl.Body.List) != 3 {
					t.fail("ops[\"" + p[0] + "\"] is not func(left, right float64) float64 { v := int64(right); if …; return … }")
					okAll = false
				} else {
					as, ok0 := fl.Body.List[0].(*ast.AssignStmt)
					is, ok1 := fl.Body.List[1].(*ast.IfStmt)
					rs, ok2 := fl.Body.List[2].(*ast.ReturnStmt)
					if !ok0 || !ok1 || !ok2 || c.Print(as) != p[2]+" := int64(right)" || is.Init != nil || is.Else != nil || !c.c08Returns(is, "math.NaN()") ||
						len(rs.Results) != 1 || c.Print(rs.Results[0]) != "float64(int64(left) "+p[3]+" "+p[2]+")" {
						t.fail("shape of ops[\"" + p[0] + "\"]")
						okAll = false
					} else {
						res = t.cond(is.Cond)
					}
					for _, st := range fl.Body.List {
						shape = append(shape, p[0]+": "+strings.Join(strings.Fields(c.Print(st)), " "))
					}
				}
				emitDef(p[1], "stdmath `"+p[0]+"`: the condition on `"+p[2]+" := int64(right)` under which the operator answers NaN instead of computing `int64(left) "+p[3]+" "+p[2]+"`", []string{p[2]}, "", "Bool", t, res)
			}
			// every other entry of `ops` must be free of integer division / remainder / shifts
			var others []string
			if cl, ok := c.Var(mops, "ops").(*ast.CompositeLit); ok {
				for _, el := range cl.Elts {
					kv, ok := el.(*ast.KeyValueExpr)
					if !ok {
						continue
					}
					k, _ := StringLit(kv.Key)
					if k == "%" || k == "<<" || k == ">>" {
						continue
					}
					ast.Inspect(kv.Value, func(n ast.Node) bool {
						if be, ok := n.(*ast.BinaryExpr); ok && (be.Op == token.REM || be.Op == token.SHL || be.Op == token.SHR || (be.Op == token.QUO && strings.Contains(c.Print(be), "int"))) {
							others = append(others, k+": "+c.Print(be))
						}
						return true
					})
				}
			} else {
				okAll = false
			}
			emitStrs("mathIntOpShape", "stdmath `%` `<<` `>>`: every statement of the three function literals", shape, okAll)
			emitStrs("mathOtherIntOps", "integer remainders, integer quotients and shifts in every OTHER entry of stdmath's `ops` table (none)", others, okAll)
		}

		// ---- bucket / bucketrange: the constant size is the divisor of `val / bucketSize`
		{
			const common = "pkg/expressions/stdlib/funcsCommon.go"
			var divs []string
			okAll := true
			for _, p := range [][2]string{{"kfBucket", "bucket"}, {"kfBucketRange", "bucketRange"}} {
				fd := c.Func(common, p[0])
				c.Fingerprint(common, p[0])
				t := newC08tr(c, []string{"bucketSize"}, nil)
				res := "false"
				if fd == nil || fd.Body == nil {
					t.fail("function " + p[0] + " not found")
					okAll = false
				} else {
					is := c08FindIf(fd.Body.List, func(is *ast.IfStmt) bool { return c.c08Returns(is, "stageArgError(ErrValue") })
					if is == nil || is.Init != nil || is.Else != nil {
						t.fail("no `if … { return stageArgError(ErrValue, …) }` in " + p[0])
					} else {
						res = t.cond(is.Cond)
					}
					for _, st := range c08Closure(fd) {
						ast.Inspect(st, func(n ast.Node) bool {
							if be, ok := n.(*ast.BinaryExpr); ok && (be.Op == token.QUO || be.Op == token.REM) {
								divs = append(divs, p[0]+": "+c.Print(be))
							}
							return true
						})
					}
				}
				emitDef(p[1]+"SizeGuard", "`"+p[0]+"`: the condition under which the builder rejects its constant bucket size", []string{"bucketSize"}, "", "Bool", t, res)
			}
			emitStrs("bucketDivisions", "`kfBucket` / `kfBucketRange`: every `/` and `%` of the run-time closures", divs, okAll && len(divs) > 0)
		}

		// ---- GetMatch implementations: guard chains
		type chainSpec struct {
			lean, rel, fn string
			params        []string
			opaque        map[string]string
			lenOf         map[string]string
			arrays        map[string]string
			extra         string
		}
		for _, sp := range []chainSpec{
			{"subContextGetMatch", rng, "subContext.GetMatch", []string{"idx", "len_vals"}, map[string]string{"len(s.vals)": "len_vals"}, map[string]string{"s.vals": "len_vals"}, nil, ""},
			{"lazySubContextGetMatch", ff, "lazySubContext.GetMatch", []string{"idx", "len_args"}, map[string]string{"len(s.args)": "len_args"}, map[string]string{"s.args": "len_args"}, nil, ""},
			{"contextArrayGetMatch", ctxArr, "KeyBuilderContextArray.GetMatch", []string{"idx", "len_elements"}, map[string]string{"len(s.Elements)": "len_elements"}, map[string]string{"s.Elements": "len_elements"}, nil, ""},
			{"sliceSpaceGetMatch", ssc, "SliceSpaceExpressionContext.GetMatch", []string{"idx", "len_indices"}, map[string]string{"len(s.indices)": "len_indices"}, nil, map[string]string{"s.indices": "indices"}, " (indices : Int → Int)"},
		} {
			fd := c.Func(sp.rel, sp.fn)
			t := newC08tr(c, sp.params, sp.opaque)
			for k, v := range sp.arrays {
				t.arrays[k] = v
			}
			act, reads := "  Act.empty", "  []"
			if fd == nil || fd.Body == nil {
				t.fail("function " + sp.fn + " not found")
			} else {
				// the index parameter must be called idx
				pn := ""
				if fd.Type.Params != nil && len(fd.Type.Params.List) == 1 && len(fd.Type.Params.List[0].Names) == 1 {
					pn = fd.Type.Params.List[0].Names[0].Name
				}
				if pn != "idx" {
					t.fail("parameter of " + sp.fn)
				} else {
					act, reads = t.chain(fd.Body.List, sp.lenOf)
				}
			}
			if !t.ok {
				fmt.Fprintf(&sb, "-- %s: %s\n", sp.lean, strings.ReplaceAll(t.why, "\n", " "))
				sb.WriteString(untranslatable(sp.lean))
				continue
			}
			fmt.Fprintf(&sb, "/-- `%s` of %s as a guard chain -/\ndef %s %s%s : Act :=\n%s\n\n", sp.fn, sp.rel, sp.lean, c08ParamList(sp.params), sp.extra, act)
			fmt.Fprintf(&sb, "/-- `%s`: the indices at which the guarded table is read on the executed path -/\ndef %sReads %s%s : List Int :=\n%s\n\n", sp.fn, sp.lean, c08ParamList(sp.params), sp.extra, reads)
		}
		// the length of subContext.vals (an array type `[N]string`)
		{
			found := false
			if f := c.File(rng); f != nil {
				ast.Inspect(f, func(n ast.Node) bool {
					ts, ok := n.(*ast.TypeSpec)
					if !ok || ts.Name.Name != "subContext" {
						return true
					}
					st, ok := ts.Type.(*ast.StructType)
					if !ok {
						return true
					}
					for _, fl := range st.Fields.List {
						for _, nm := range fl.Names {
							if nm.Name == "vals" {
								if at, ok := fl.Type.(*ast.ArrayType); ok {
									if v, ok := IntLit(at.Len); ok {
										fmt.Fprintf(&sb, "/-- `len(subContext.vals)`: the field is a `[%d]string` -/\ndef subContextValsLen : Int := %d\n\n", v, v)
										found = true
									}
								}
							}
						}
					}
					return false
				})
			}
			if !found {
				sb.WriteString(untranslatable("subContextValsLen"))
			}
		}

		// ---- Compile: the escape look-ahead `r == '\\' && i+1 < len(runes)` in front of `i++; runes[i]`
		{
			fd := c.Func(kb, "KeyBuilder.Compile")
			t := newC08tr(c, []string{"i", "len_runes"}, map[string]string{"len(runes)": "len_runes"})
			res := "false"
			var steps []string
			var is *ast.IfStmt
			if fd != nil && fd.Body != nil {
				is = c08FindIf(fd.Body.List, func(is *ast.IfStmt) bool {
					be, ok := is.Cond.(*ast.BinaryExpr)
					return ok && be.Op == token.LAND && c.Print(be.X) == `r == '\\'`
				})
			}
			if is == nil {
				t.fail("no `if r == '\\\\' && …` in Compile")
			} else {
				res = t.cond(is.Cond.(*ast.BinaryExpr).Y)
				for _, s := range is.Body.List {
					steps = append(steps, c.Print(s))
				}
			}
			emitDef("compileEscapeGuard", "`Compile`: the look-ahead condition next to `r == '\\\\'`", []string{"i", "len_runes"}, "", "Bool", t, res)
			emitStrs("compileEscapeSteps", "`Compile`: the statements executed when the look-ahead holds", steps, is != nil)
			var idx []string
			if fd != nil && fd.Body != nil {
				idx = c.c08Slices(fd.Body.List, "runes")
				sort.Strings(idx)
			}
			emitStrs("compileRuneAccesses", "`Compile`: every index / slice expression on `runes` (sorted)", idx, fd != nil)
		}

		// ---- loops: the guard and the body of a `for` become step functions, so that "the loop returns" is a
		// theorem about the code's own condition and assignments (Props/C08 `expbucket_terminates`,
		// `range_counter_safe`, `for_counter_safe`) and not only a watchdog observation.
		const common = "pkg/expressions/stdlib/funcsCommon.go"
		// c08Loops: every `for` statement inside the statements (function literals are entered: the loops of
		// interest live in the run-time closure)
		c08Loops := func(body []ast.Stmt) []*ast.ForStmt {
			var out []*ast.ForStmt
			for _, s := range body {
				ast.Inspect(s, func(n ast.Node) bool {
					if f, ok := n.(*ast.ForStmt); ok {
						out = append(out, f)
					}
					return true
				})
			}
			return out
		}
		// c08PlainBody: the loop body consists of simple assignments only (no break / continue / return /
		// nested control flow), so that "one round" is exactly the translated step
		c08PlainBody := func(b *ast.BlockStmt) bool {
			for _, s := range b.List {
				switch v := s.(type) {
				case *ast.AssignStmt:
					if len(v.Lhs) != 1 || len(v.Rhs) != 1 {
						return false
					}
					if _, ok := v.Lhs[0].(*ast.Ident); !ok {
						return false
					}
				case *ast.IncDecStmt:
				default:
					return false
				}
			}
			return true
		}
		{
			c.Fingerprint(common, "kfExpBucket")
			fd := c.Func(common, "kfExpBucket")
			body := c08Closure(fd)
			loops := c08Loops(body)
			tC := newC08tr(c, []string{"val", "bucket"}, nil)
			tS := newC08tr(c, []string{"val", "bucket"}, nil)
			cond, step := "false", "(val, bucket)"
			var shape []string
			if len(loops) != 1 {
				tC.fail(fmt.Sprintf("expected exactly one for loop in the closure of kfExpBucket, found %d", len(loops)))
				tS.fail(tC.why)
			} else {
				loop := loops[0]
				if loop.Init != nil || loop.Post != nil || loop.Cond == nil {
					tC.fail("loop header of kfExpBucket is not `for <cond>`")
					tS.fail(tC.why)
				} else if !c08PlainBody(loop.Body) {
					tC.fail("loop body of kfExpBucket is not a list of simple assignments")
					tS.fail(tC.why)
				} else {
					cond = tC.cond(loop.Cond)
					tS.stmts(loop.Body.List, map[string]bool{"val": true, "bucket": true}, "", nil)
					if tS.ok {
						step = fmt.Sprintf("(%s, %s)", tS.name("val"), tS.name("bucket"))
					}
				}
				// what surrounds the loop: every assignment to the two variables, the condition of the
				// enclosing `if`, the returned expressions
				shape = append(shape, c.c08Assignments(body, "bucket")...)
				shape = append(shape, c.c08Assignments(body, "val")...)
				for _, s := range body {
					ast.Inspect(s, func(n ast.Node) bool {
						switch v := n.(type) {
						case *ast.IfStmt:
							for _, inner := range c08Loops(v.Body.List) {
								if inner == loop {
									shape = append(shape, "if "+c.Print(v.Cond)+" { … for "+c.Print(loop.Cond)+" }")
								}
							}
						case *ast.ReturnStmt:
							for _, r := range v.Results {
								shape = append(shape, "return "+c.Print(r))
							}
						}
						return true
					})
				}
			}
			emitDef("expBucketLoopCond", "`kfExpBucket`: the condition of the scaling loop", []string{"val", "bucket"}, "", "Bool", tC, cond)
			emitDef("expBucketStep", "`kfExpBucket`: one round of the scaling loop (the new `val`, the new `bucket`)", []string{"val", "bucket"}, "", "Int × Int", tS, step)
			emitStrs("expBucketShape", "`kfExpBucket`: every assignment to `bucket` and `val` in the closure, the `if` around the loop, the returns", shape, len(loops) == 1)
		}
		// ---- {@range}: loop condition, post statement, the overflow `break`, the iteration cap
		{
			fd := c.Func(rng, "kfArrayRange")
			c.Fingerprint(rng, "kfArrayRange")
			body := c08Closure(fd)
			loops := c08Loops(body)
			tC := newC08tr(c, []string{"i", "stop", "incr"}, nil)
			tP := newC08tr(c, []string{"i", "incr"}, nil)
			tO := newC08tr(c, []string{"i", "incr"}, nil)
			tN := newC08tr(c, []string{"count"}, nil)
			cond, post, ovf, cnt := "false", "i", "false", "false"
			var shape []string
			if len(loops) != 1 {
				for _, t := range []*c08tr{tC, tP, tO, tN} {
					t.fail(fmt.Sprintf("expected exactly one for loop in the closure of kfArrayRange, found %d", len(loops)))
				}
			} else {
				loop := loops[0]
				if loop.Cond == nil {
					tC.fail("no loop condition")
				} else {
					cond = tC.cond(loop.Cond)
				}
				if as, ok := loop.Post.(*ast.AssignStmt); ok && len(as.Lhs) == 1 && len(as.Rhs) == 1 && c.Print(as.Lhs[0]) == "i" {
					tP.assign("i", as.Tok, as.Rhs[0], "")
					if tP.ok {
						post = tP.name("i")
					}
				} else {
					tP.fail("post statement of the @range loop")
				}
				if loop.Init != nil {
					shape = append(shape, "init "+c.Print(loop.Init))
				}
				if mx, ok := IntLit(c.LocalConst(fd, "MAX_ITERATIONS")); ok {
					tN.consts["MAX_ITERATIONS"] = fmt.Sprint(mx)
				}
				nBreak, nInf := 0, 0
				for _, s := range loop.Body.List {
					switch v := s.(type) {
					case *ast.IfStmt:
						if v.Init != nil || v.Else != nil || len(v.Body.List) != 1 {
							shape = append(shape, "if "+c.Print(v.Cond))
							continue
						}
						if br, ok := v.Body.List[0].(*ast.BranchStmt); ok && br.Tok == token.BREAK {
							ovf = tO.cond(v.Cond)
							nBreak++
							shape = append(shape, "break-if")
						} else if c.c08Returns(v, `"<INF>"`) {
							cnt = tN.cond(v.Cond)
							nInf++
							shape = append(shape, "inf-if")
						} else {
							shape = append(shape, "if "+c.Print(v.Cond))
						}
					case *ast.IncDecStmt:
						shape = append(shape, c.Print(v))
					case *ast.AssignStmt:
						shape = append(shape, c.Print(v))
					case *ast.ExprStmt:
						shape = append(shape, "call")
					default:
						shape = append(shape, fmt.Sprintf("%T", s))
					}
				}
				if nBreak != 1 {
					tO.fail("expected exactly one `if … { break }` in the @range loop")
				}
				if nInf != 1 {
					tN.fail("expected exactly one `if … { return \"<INF>\" }` in the @range loop")
				}
			}
			emitDef("rangeLoopCond", "`kfArrayRange`: the loop condition", []string{"i", "stop", "incr"}, "", "Bool", tC, cond)
			emitDef("rangeStep", "`kfArrayRange`: the post statement of the loop (the next `i`)", []string{"i", "incr"}, "", "Int", tP, post)
			emitDef("rangeOverflowBreak", "`kfArrayRange`: the condition of the `break` in front of the post statement", []string{"i", "incr"}, "", "Bool", tO, ovf)
			emitDef("rangeCountGuard", "`kfArrayRange`: the condition under which the loop gives up (`<INF>`)", []string{"count"}, "", "Bool", tN, cnt)
			emitStrs("rangeLoopShape", "`kfArrayRange`: the statements of the loop body in order (calls abbreviated)", shape, len(loops) == 1)
		}
		// ---- {@for}: the iteration cap on the counter
		{
			fd := c.Func(rng, "kfArrayFor")
			c.Fingerprint(rng, "kfArrayFor")
			body := c08Closure(fd)
			loops := c08Loops(body)
			tN := newC08tr(c, []string{"idx"}, nil)
			cnt := "false"
			var shape []string
			if len(loops) != 1 {
				tN.fail(fmt.Sprintf("expected exactly one for loop in the closure of kfArrayFor, found %d", len(loops)))
			} else {
				loop := loops[0]
				if mx, ok := IntLit(c.LocalConst(fd, "MAX_ITERATIONS")); ok {
					tN.consts["MAX_ITERATIONS"] = fmt.Sprint(mx)
				}
				if loop.Init != nil || loop.Cond != nil || loop.Post != nil {
					tN.fail("the @for loop is not `for { … }`")
				}
				nInf := 0
				for _, s := range loop.Body.List {
					if v, ok := s.(*ast.IfStmt); ok && v.Init == nil && v.Else == nil && c.c08Returns(v, `"<INF>"`) {
						cnt = tN.cond(v.Cond)
						nInf++
					}
				}
				if nInf != 1 {
					tN.fail("expected exactly one `if … { return \"<INF>\" }` in the @for loop")
				}
				shape = append(shape, c.c08Assignments(body, "idx")...)
			}
			emitDef("forCountGuard", "`kfArrayFor`: the condition under which the loop gives up (`<INF>`)", []string{"idx"}, "", "Bool", tN, cnt)
			emitStrs("forCounterShape", "`kfArrayFor`: every assignment to the round counter `idx`", shape, len(loops) == 1)
		}

		// ---- {@range}: EVERY statement of the run-time closure and every arithmetic expression in it.  The loop
		// fragments above pin the loop; a statement added next to it (a pre-sizing `sb.Grow((stop-start)/incr)`
		// whose difference wraps for a span beyond MaxInt64) is a new line here.
		{
			fd := c.Func(rng, "kfArrayRange")
			body := c08Closure(fd)
			var shape, ar []string
			for _, s := range body {
				shape = append(shape, c.c08StmtLine(s))
			}
			for _, s := range c08SitesOf(c, body, true) {
				ar = append(ar, s[0]+": "+s[1])
			}
			emitStrs("rangeClosureShape", "`kfArrayRange`: the statements of the run-time closure in order (blocks abbreviated)", shape, len(body) > 0)
			emitStrs("rangeArith", "`kfArrayRange`: every arithmetic expression, division, index, slice and sizing call of the run-time closure", ar, len(body) > 0)
		}

		// ---- the census of operations that can panic (or whose wrap-around feeds one), per anchor file of the
		// property: divisions and remainders by a non-constant, shifts by a non-constant, index and slice
		// expressions, sizing calls (`Grow`, `make`, `strings.Repeat`), explicit `panic`, unchecked type
		// assertions, and sums / differences / products of two non-constant operands.  Props/C08 names, for
		// every line, the guard that makes it safe; a line that appears, disappears or changes breaks that
		// theorem.
		{
			var lines []string
			okAll := true
			for _, rel := range c08CensusFiles {
				f := c.File(rel)
				if f == nil {
					okAll = false
					continue
				}
				base := rel[strings.LastIndex(rel, "/")+1:]
				for _, d := range f.Decls {
					fd, ok := d.(*ast.FuncDecl)
					if !ok || fd.Body == nil {
						continue
					}
					name := fd.Name.Name
					if fd.Recv != nil && len(fd.Recv.List) > 0 {
						t := fd.Recv.List[0].Type
						if st, ok := t.(*ast.StarExpr); ok {
							t = st.X
						}
						if ix, ok := t.(*ast.IndexExpr); ok {
							t = ix.X
						}
						if id, ok := t.(*ast.Ident); ok {
							name = id.Name + "." + name
						}
					}
					for _, s := range c08SitesOf(c, fd.Body.List, false) {
						lines = append(lines, base+" "+name+" "+s[0]+": "+s[1])
					}
				}
				// package-level function literals (the operation tables of funcs.go / stdmath)
				for _, d := range f.Decls {
					gd, ok := d.(*ast.GenDecl)
					if !ok || gd.Tok != token.VAR {
						continue
					}
					for _, sp := range gd.Specs {
						vs, ok := sp.(*ast.ValueSpec)
						if !ok {
							continue
						}
						for i, v := range vs.Values {
							nm := "var"
							if i < len(vs.Names) {
								nm = vs.Names[i].Name
							}
							for _, s := range c08SitesOf(c, []ast.Stmt{&ast.ExprStmt{X: v}}, false) {
								lines = append(lines, base+" "+nm+" "+s[0]+": "+s[1])
							}
						}
					}
				}
			}
			if !okAll {
				sb.WriteString(untranslatable("panicSites"))
			} else {
				fmt.Fprintf(&sb, "/-- every operation of the anchor files that can panic or wrap (file function kind: expression), in source order -/\ndef panicSites : List String := [%s]\n\n", strings.Join(c08LeanStrs(lines), ",\n  "))
			}
		}

		// ---- Splitter.Next: the bounds of `s.S[s.next:idx]` and the new `s.next` from the position `idx` that
		// strings.Index found in the remainder
		{
			const sp = "pkg/stringSplitter/splitter.go"
			c.Fingerprint(sp, "Splitter.Next")
			fd := c.Func(sp, "Splitter.Next")
			t := newC08tr(c, []string{"next", "idx", "lenDelim"}, map[string]string{"s.next": "next", "len(s.Delim)": "lenDelim"})
			res := "(0, 0, 0)"
			var shape []string
			if fd == nil || fd.Body == nil {
				t.fail("function Splitter.Next not found")
			} else {
				t.stmts(fd.Body.List, map[string]bool{"idx": true}, "", nil)
				lo, hi, nx := "", "", ""
				for _, s := range fd.Body.List {
					shape = append(shape, c.c08StmtLine(s))
					as, ok := s.(*ast.AssignStmt)
					if !ok || len(as.Lhs) != 1 || len(as.Rhs) != 1 {
						continue
					}
					if se, ok := as.Rhs[0].(*ast.SliceExpr); ok && c.Print(se.X) == "s.S" && se.Low != nil && se.High != nil && !se.Slice3 {
						lo, hi = t.expr(se.Low), t.expr(se.High)
					}
					if c.Print(as.Lhs[0]) == "s.next" && as.Tok == token.ASSIGN {
						nx = t.expr(as.Rhs[0])
					}
				}
				if lo == "" || nx == "" {
					t.fail("no `ret = s.S[lo:hi]` / `s.next = …` at the top level of Splitter.Next")
				}
				res = fmt.Sprintf("(%s, %s, %s)", lo, hi, nx)
			}
			emitDef("splitterNext", "`Splitter.Next`, the delimiter found at `idx` of the remainder: the bounds of the returned slice of `s.S` and the new `s.next`", []string{"next", "idx", "lenDelim"}, "", "Int × Int × Int", t, res)
			emitStrs("splitterNextShape", "`Splitter.Next`: the statements in order (blocks abbreviated)", shape, fd != nil)
		}

		// ---- `args[k]` with a literal index: the lower bound of `len(args)` that the enclosing arity checks
		// establish at that point (function, k, bound) - over every file of the helper library
		{
			var parts []string
			okAll := true
			for _, rel := range c08StdlibFiles {
				f := c.File(rel)
				if f == nil {
					okAll = false
					continue
				}
				base := rel[strings.LastIndex(rel, "/")+1:]
				for _, d := range f.Decls {
					fd, ok := d.(*ast.FuncDecl)
					if !ok || fd.Body == nil {
						continue
					}
					for _, sl := range []string{"args", "s.stages"} {
						w := &c08ArgWalk{c: c, base: sl}
						w.stmts(fd.Body.List, 0)
						nm := base + " " + fd.Name.Name
						if sl != "args" {
							nm += " " + sl
						}
						for _, a := range w.out {
							parts = append(parts, fmt.Sprintf("(%s, %d, %d)", leanStr(nm), a[0], a[1]))
						}
					}
				}
			}
			if !okAll || len(parts) == 0 {
				sb.WriteString(untranslatable("argIndexes"))
			} else {
				fmt.Fprintf(&sb, "/-- every `args[k]` with a literal `k` in the helper library: (function, k, the lower bound of `len(args)` established by the enclosing arity checks) -/\ndef argIndexes : List (String × Nat × Nat) := [%s]\n\n", strings.Join(parts, ",\n  "))
			}
		}

		sb.WriteString("end Rare.Gen.C08\n")
		return sb.String()
	})
}

// c08CensusFiles: the anchor files of the property whose operations are listed in `panicSites`.
var c08CensusFiles = []string{
	"pkg/expressions/keyBuilder.go", "pkg/expressions/argSplitter.go",
	"pkg/expressions/stdlib/funcs.go", "pkg/expressions/stdlib/funcsArithmatic.go", "pkg/expressions/stdlib/funcsStrings.go",
	"pkg/expressions/stdlib/funcsRange.go", "pkg/expressions/stdlib/drawing.go", "pkg/expressions/stdlib/funcsCommon.go",
	"pkg/expressions/stdlib/funcsMath.go", "pkg/expressions/stdlib/errors.go", "pkg/expressions/stdlib/util.go",
	"pkg/expressions/stdmath/ops.go", "pkg/stringSplitter/splitter.go",
	// the rest of the helper library (not anchors of the property text, but every helper is in its quantifier)
	"pkg/expressions/stdlib/builder.go", "pkg/expressions/stdlib/funcsComparators.go", "pkg/expressions/stdlib/funcsCsv.go",
	"pkg/expressions/stdlib/funcsJson.go", "pkg/expressions/stdlib/funcsLookups.go", "pkg/expressions/stdlib/funcsPath.go",
	"pkg/expressions/stdlib/funcsTime.go", "pkg/expressions/stdlib/funcsType.go", "pkg/expressions/stdlib/stages.go",
	"pkg/expressions/stdlib/stagesStaticEval.go", "pkg/expressions/stdlib/stagesTypedEval.go",
	"pkg/expressions/contextArray.go", "pkg/expressions/stageAnalysis.go", "pkg/expressions/funcfile/stage.go",
	"pkg/expressions/stdmath/parser.go", "pkg/expressions/stdmath/tokenizer.go", "pkg/expressions/stdmath/simplify.go",
	"pkg/expressions/stdmath/expression.go",
}

func c08LeanStrs(l []string) []string {
	out := make([]string, len(l))
	for i, s := range l {
		out[i] = leanStr(s)
	}
	return out
}

// c08StmtLine: one statement as a line; the bodies of compound statements are abbreviated.
func (c *Ctx) c08StmtLine(s ast.Stmt) string {
	switch v := s.(type) {
	case *ast.IfStmt:
		line := "if " + c.Print(v.Cond)
		if v.Init != nil {
			line = "if " + c.Print(v.Init) + "; " + c.Print(v.Cond)
		}
		if len(v.Body.List) == 1 {
			if _, ok := v.Body.List[0].(*ast.ReturnStmt); ok {
				line += " { " + c.Print(v.Body.List[0]) + " }"
			}
		}
		if v.Else != nil {
			line += " else …"
		}
		return line
	case *ast.ForStmt:
		return "for " + c08PrintOpt(c, v.Init) + "; " + c08PrintOptE(c, v.Cond) + "; " + c08PrintOpt(c, v.Post)
	case *ast.RangeStmt:
		return "for range " + c.Print(v.X)
	case *ast.SwitchStmt, *ast.TypeSwitchStmt, *ast.SelectStmt, *ast.BlockStmt:
		return fmt.Sprintf("%T", s)
	}
	return strings.Join(strings.Fields(c.Print(s)), " ")
}

func c08PrintOpt(c *Ctx, s ast.Stmt) string {
	if s == nil {
		return ""
	}
	return c.Print(s)
}

func c08PrintOptE(c *Ctx, e ast.Expr) string {
	if e == nil {
		return ""
	}
	return c.Print(e)
}

// c08IsLit: a literal constant (possibly signed / parenthesised).
func c08IsLit(e ast.Expr) bool {
	switch v := e.(type) {
	case *ast.BasicLit:
		return true
	case *ast.ParenExpr:
		return c08IsLit(v.X)
	case *ast.UnaryExpr:
		return (v.Op == token.SUB || v.Op == token.ADD) && c08IsLit(v.X)
	}
	return false
}

// c08NonZeroLit: an integer or float literal other than zero.
func c08NonZeroLit(e ast.Expr) bool {
	// the duration units of package time are non-zero constants
	if sel, ok := e.(*ast.SelectorExpr); ok {
		if id, ok := sel.X.(*ast.Ident); ok && id.Name == "time" {
			switch sel.Sel.Name {
			case "Nanosecond", "Microsecond", "Millisecond", "Second", "Minute", "Hour":
				return true
			}
		}
	}
	if !c08IsLit(e) {
		return false
	}
	if n, ok := IntLit(e); ok {
		return n != 0
	}
	if bl, ok := e.(*ast.BasicLit); ok && bl.Kind == token.FLOAT {
		return strings.Trim(bl.Value, "0.") != ""
	}
	return false
}

// c08SitesOf lists (kind, printed expression) of the operations of interest inside the statements, in
// source order.  `all` also lists sums / differences / products with a literal operand and `x++`.
func c08SitesOf(c *Ctx, body []ast.Stmt, all bool) [][2]string {
	var out [][2]string
	one := func(e ast.Node) string { return strings.Join(strings.Fields(c.Print(e)), " ") }
	checked := map[ast.Node]bool{} // type assertions in comma-ok form / type switches
	for _, s := range body {
		ast.Inspect(s, func(n ast.Node) bool {
			switch v := n.(type) {
			case *ast.AssignStmt:
				if len(v.Lhs) == 2 && len(v.Rhs) == 1 {
					if ta, ok := v.Rhs[0].(*ast.TypeAssertExpr); ok {
						checked[ta] = true
					}
				}
			case *ast.ValueSpec:
				if len(v.Names) == 2 && len(v.Values) == 1 {
					if ta, ok := v.Values[0].(*ast.TypeAssertExpr); ok {
						checked[ta] = true
					}
				}
			}
			return true
		})
	}
	for _, s := range body {
		ast.Inspect(s, func(n ast.Node) bool {
			switch v := n.(type) {
			case *ast.BinaryExpr:
				switch v.Op {
				case token.QUO, token.REM:
					if !c08NonZeroLit(v.Y) {
						out = append(out, [2]string{"div", one(v)})
					}
				case token.SHL, token.SHR:
					if !c08IsLit(v.Y) {
						out = append(out, [2]string{"shift", one(v)})
					}
				case token.ADD, token.SUB, token.MUL:
					if _, isStr := StringLit(v.X); isStr {
						break
					}
					if _, isStr := StringLit(v.Y); isStr {
						break
					}
					if all || (!c08IsLit(v.X) && !c08IsLit(v.Y)) {
						out = append(out, [2]string{"arith", one(v)})
					}
				}
			case *ast.AssignStmt:
				switch v.Tok {
				case token.QUO_ASSIGN, token.REM_ASSIGN:
					if len(v.Rhs) == 1 && !c08NonZeroLit(v.Rhs[0]) {
						out = append(out, [2]string{"div", one(v)})
					}
				case token.SHL_ASSIGN, token.SHR_ASSIGN:
					if len(v.Rhs) == 1 && !c08IsLit(v.Rhs[0]) {
						out = append(out, [2]string{"shift", one(v)})
					}
				case token.ADD_ASSIGN, token.SUB_ASSIGN, token.MUL_ASSIGN:
					if len(v.Rhs) == 1 {
						if _, isStr := StringLit(v.Rhs[0]); isStr {
							break
						}
						if all || !c08IsLit(v.Rhs[0]) {
							out = append(out, [2]string{"arith", one(v)})
						}
					}
				}
			case *ast.IncDecStmt:
				if all {
					out = append(out, [2]string{"arith", one(v)})
				}
			case *ast.IndexExpr:
				// `args[2]` with a literal index is behind the arity check of its builder (listed apart: `argIndexes`)
				if id, isId := v.X.(*ast.Ident); isId && id.Name == "args" && c08IsLit(v.Index) {
					break
				}
				if _, isStr := StringLit(v.Index); !isStr {
					out = append(out, [2]string{"index", one(v)})
				}
			case *ast.SliceExpr:
				out = append(out, [2]string{"slice", one(v)})
			case *ast.TypeAssertExpr:
				if v.Type != nil && !checked[v] {
					out = append(out, [2]string{"assert", one(v)})
				}
			case *ast.CallExpr:
				fn := c.Print(v.Fun)
				switch {
				case strings.HasSuffix(fn, ".Grow"), fn == "strings.Repeat", fn == "bytes.Repeat", fn == "panic":
					out = append(out, [2]string{"size", one(v)})
				case fn == "make" && len(v.Args) >= 2:
					out = append(out, [2]string{"size", one(v)})
				}
			}
			return true
		})
	}
	return out
}

// c08StdlibFiles: every non-test file of pkg/expressions/stdlib (the helper library), and the compiler.
var c08StdlibFiles = []string{"builder.go", "drawing.go", "errors.go", "funcs.go", "funcsArithmatic.go", "funcsCommon.go", "funcsComparators.go",
	"funcsCsv.go", "funcsJson.go", "funcsLookups.go", "funcsMath.go", "funcsPath.go", "funcsRange.go", "funcsStrings.go", "funcsTime.go",
	"funcsType.go", "stages.go", "stagesStaticEval.go", "stagesTypedEval.go", "util.go"}

func init() {
	for i, f := range c08StdlibFiles {
		c08StdlibFiles[i] = "pkg/expressions/stdlib/" + f
	}
	c08StdlibFiles = append(c08StdlibFiles, "pkg/expressions/keyBuilder.go")
}

// c08ArgWalk walks a function body keeping the lower bound of `len(args)` implied by the arity checks passed
// so far: `if len(args) != 2 { return … }`, `if !isArgCountBetween(args, 1, 3) { return … }`,
// `if len(args) >= 3 { … }`, `switch len(args) { case 2: … }`.
type c08ArgWalk struct {
	c    *Ctx
	base string   // the indexed slice as printed (`args`, `s.stages`)
	out  [][2]int // (literal index, bound)
}

// lenArgsCmp: e is `len(args) <op> <int literal>`.
func (w *c08ArgWalk) lenArgsCmp(e ast.Expr) (token.Token, int, bool) {
	be, ok := e.(*ast.BinaryExpr)
	if !ok || w.c.Print(be.X) != "len("+w.base+")" {
		return 0, 0, false
	}
	n, ok := IntLit(be.Y)
	return be.Op, int(n), ok
}

// whenTrue / whenFalse: the lower bound of len(args) implied by the condition being true / false.
func (w *c08ArgWalk) whenTrue(e ast.Expr) int {
	switch v := e.(type) {
	case *ast.ParenExpr:
		return w.whenTrue(v.X)
	case *ast.UnaryExpr:
		if v.Op == token.NOT {
			return w.whenFalse(v.X)
		}
	case *ast.CallExpr:
		if w.c.Print(v.Fun) == "isArgCountBetween" && len(v.Args) == 3 && w.c.Print(v.Args[0]) == "args" {
			if n, ok := IntLit(v.Args[1]); ok {
				return int(n)
			}
		}
	case *ast.BinaryExpr:
		if v.Op == token.LAND {
			return max(w.whenTrue(v.X), w.whenTrue(v.Y))
		}
		if v.Op == token.LOR {
			return min(w.whenTrue(v.X), w.whenTrue(v.Y))
		}
		if op, n, ok := w.lenArgsCmp(v); ok {
			switch op {
			case token.GEQ, token.EQL:
				return n
			case token.GTR:
				return n + 1
			case token.NEQ:
				if n == 0 {
					return 1
				}
			}
		}
	}
	return 0
}

func (w *c08ArgWalk) whenFalse(e ast.Expr) int {
	switch v := e.(type) {
	case *ast.ParenExpr:
		return w.whenFalse(v.X)
	case *ast.UnaryExpr:
		if v.Op == token.NOT {
			return w.whenTrue(v.X)
		}
	case *ast.BinaryExpr:
		if v.Op == token.LOR {
			return max(w.whenFalse(v.X), w.whenFalse(v.Y))
		}
		if v.Op == token.LAND {
			return min(w.whenFalse(v.X), w.whenFalse(v.Y))
		}
		if op, n, ok := w.lenArgsCmp(v); ok {
			switch op {
			case token.LSS, token.NEQ:
				return n
			case token.LEQ:
				return n + 1
			case token.EQL:
				if n == 0 {
					return 1
				}
			}
		}
	}
	return 0
}

func c08Terminates(b *ast.BlockStmt) bool {
	if b == nil || len(b.List) == 0 {
		return false
	}
	switch v := b.List[len(b.List)-1].(type) {
	case *ast.ReturnStmt:
		return true
	case *ast.ExprStmt:
		if call, ok := v.X.(*ast.CallExpr); ok {
			if id, ok := call.Fun.(*ast.Ident); ok && id.Name == "panic" {
				return true
			}
		}
	}
	return false
}

// node records the literal accesses inside an expression / simple statement; function literals are walked
// as statement lists under the same bound (the closure sees the same `args`).
func (w *c08ArgWalk) node(n ast.Node, lb int) {
	if n == nil {
		return
	}
	ast.Inspect(n, func(x ast.Node) bool {
		switch v := x.(type) {
		case *ast.FuncLit:
			w.stmts(v.Body.List, lb)
			return false
		case *ast.IndexExpr:
			if w.c.Print(v.X) == w.base {
				if k, ok := IntLit(v.Index); ok {
					w.out = append(w.out, [2]int{int(k), lb})
				}
			}
		}
		return true
	})
}

func (w *c08ArgWalk) stmts(list []ast.Stmt, lb int) int {
	for _, s := range list {
		lb = w.stmt(s, lb)
	}
	return lb
}

// stmt returns the bound that holds after the statement.
func (w *c08ArgWalk) stmt(s ast.Stmt, lb int) int {
	switch v := s.(type) {
	case *ast.BlockStmt:
		return w.stmts(v.List, lb)
	case *ast.IfStmt:
		if v.Init != nil {
			lb = w.stmt(v.Init, lb)
		}
		w.node(v.Cond, lb)
		w.stmts(v.Body.List, max(lb, w.whenTrue(v.Cond)))
		elb := max(lb, w.whenFalse(v.Cond))
		if v.Else != nil {
			w.stmt(v.Else, elb)
			return lb
		}
		if c08Terminates(v.Body) {
			return elb
		}
		return lb
	case *ast.SwitchStmt:
		if v.Init != nil {
			lb = w.stmt(v.Init, lb)
		}
		isLen := v.Tag != nil && w.c.Print(v.Tag) == "len("+w.base+")"
		if v.Tag != nil {
			w.node(v.Tag, lb)
		}
		for _, cs := range v.Body.List {
			cc, ok := cs.(*ast.CaseClause)
			if !ok {
				continue
			}
			clb := lb
			if isLen && len(cc.List) > 0 {
				m := -1
				for _, e := range cc.List {
					if n, ok := IntLit(e); ok && (m < 0 || int(n) < m) {
						m = int(n)
					} else if !ok {
						m = 0
					}
				}
				clb = max(lb, m)
			} else {
				for _, e := range cc.List {
					w.node(e, lb)
				}
			}
			w.stmts(cc.Body, clb)
		}
		return lb
	case *ast.ForStmt:
		if v.Init != nil {
			w.stmt(v.Init, lb)
		}
		w.node(v.Cond, lb)
		if v.Post != nil {
			w.stmt(v.Post, lb)
		}
		w.stmts(v.Body.List, lb)
		return lb
	case *ast.RangeStmt:
		w.node(v.X, lb)
		w.stmts(v.Body.List, lb)
		return lb
	case *ast.TypeSwitchStmt, *ast.SelectStmt:
		w.node(s, lb)
		return lb
	}
	w.node(s, lb)
	return lb
}
