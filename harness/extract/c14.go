package main

import (
	"fmt"
	"go/ast"
	"go/token"
	"strings"
)

// C14: glyph palettes of pkg/multiterm/termunicode, the colour constants of pkg/color/coloring.go,
// the palette size each writer hands to termscaler.Bucket next to the table it then indexes,
// the guard chains of Scale / barWriteRunes (as printed conditions) and the layout constants of the
// renderers.  Theorems in Rare/Props/C14.lean are stated over these definitions.

// c14Str evaluates a string constant expression, resolving identifiers through the
// package-level declarations of the given files (first match wins).
func c14Str(c *Ctx, files []string, e ast.Expr, depth int) (string, bool) {
	if depth > 8 || e == nil {
		return "", false
	}
	switch v := e.(type) {
	case *ast.Ident:
		for _, f := range files {
			if x := c.Var(f, v.Name); x != nil {
				return c14Str(c, files, x, depth+1)
			}
		}
		return "", false
	case *ast.SelectorExpr: // color.Underline
		return c14Str(c, files, v.Sel, depth+1)
	case *ast.ParenExpr:
		return c14Str(c, files, v.X, depth+1)
	case *ast.BinaryExpr:
		if v.Op != token.ADD {
			return "", false
		}
		a, ok1 := c14Str(c, files, v.X, depth+1)
		b, ok2 := c14Str(c, files, v.Y, depth+1)
		return a + b, ok1 && ok2
	case *ast.BasicLit:
		return StringLit(v)
	}
	return "", false
}

func c14Elts(e ast.Expr) ([]ast.Expr, bool) {
	cl, ok := e.(*ast.CompositeLit)
	if !ok {
		return nil, false
	}
	return cl.Elts, true
}

// c14Len resolves len(TABLE) / int(NAME) / int64(len(TABLE)) / NAME to the table it measures.
func c14LenOf(c *Ctx, file string, e ast.Expr, depth int) (string, bool) {
	if depth > 6 || e == nil {
		return "", false
	}
	switch v := e.(type) {
	case *ast.CallExpr:
		if id, ok := v.Fun.(*ast.Ident); ok && len(v.Args) == 1 {
			switch id.Name {
			case "len":
				if t, ok := v.Args[0].(*ast.Ident); ok {
					return t.Name, true
				}
			case "int", "int64":
				return c14LenOf(c, file, v.Args[0], depth+1)
			}
		}
	case *ast.Ident:
		return c14LenOf(c, file, c.Var(file, v.Name), depth+1)
	case *ast.ParenExpr:
		return c14LenOf(c, file, v.X, depth+1)
	}
	return "", false
}

// c14BucketSites lists, in source order, (table measured by Bucket's first argument, table indexed
// with the result) for every `x := termscaler.Bucket(N, …)` followed by `T[x]` in fd.
func c14BucketSites(c *Ctx, file string, fd *ast.FuncDecl) ([][2]string, bool) {
	if fd == nil {
		return nil, false
	}
	var out [][2]string
	okAll := true
	// the Bucket call bound to a name by `x := …` / `var x = …`
	bound := func(st ast.Stmt) (string, *ast.CallExpr) {
		var lhs, rhs []ast.Expr
		switch v := st.(type) {
		case *ast.AssignStmt:
			lhs, rhs = v.Lhs, v.Rhs
		case *ast.DeclStmt:
			if gd, ok := v.Decl.(*ast.GenDecl); ok && len(gd.Specs) == 1 {
				if vs, ok := gd.Specs[0].(*ast.ValueSpec); ok {
					for _, nm := range vs.Names {
						lhs = append(lhs, nm)
					}
					rhs = vs.Values
				}
			}
		}
		if len(lhs) != 1 || len(rhs) != 1 {
			return "", nil
		}
		call, ok := rhs[0].(*ast.CallExpr)
		if !ok {
			return "", nil
		}
		sel, ok := call.Fun.(*ast.SelectorExpr)
		if !ok || sel.Sel.Name != "Bucket" || len(call.Args) != 2 {
			return "", nil
		}
		id, ok := lhs[0].(*ast.Ident)
		if !ok {
			return "", nil
		}
		return id.Name, call
	}
	ast.Inspect(fd, func(n ast.Node) bool {
		blk, ok := n.(*ast.BlockStmt)
		if !ok {
			return true
		}
		for i, st := range blk.List {
			name, call := bound(st)
			if call == nil {
				continue
			}
			t, ok := c14LenOf(c, file, call.Args[0], 0)
			if !ok {
				okAll = false
				continue
			}
			indexed := ""
			for _, later := range blk.List[i+1:] {
				ast.Inspect(later, func(m ast.Node) bool {
					ix, ok := m.(*ast.IndexExpr)
					if !ok {
						return true
					}
					if id, ok := ix.Index.(*ast.Ident); ok && id.Name == name {
						if tb, ok := ix.X.(*ast.Ident); ok {
							if indexed != "" && indexed != tb.Name {
								okAll = false
							}
							indexed = tb.Name
						}
					}
					return true
				})
			}
			if indexed == "" {
				okAll = false
			}
			out = append(out, [2]string{t, indexed})
		}
		return true
	})
	return out, okAll && len(out) > 0
}

// c14Conds prints the conditions of the top-level `if` statements of fd, in order.
func c14Conds(c *Ctx, fd *ast.FuncDecl) ([]string, bool) {
	if fd == nil || fd.Body == nil {
		return nil, false
	}
	var out []string
	for _, st := range fd.Body.List {
		if is, ok := st.(*ast.IfStmt); ok {
			out = append(out, c.Print(is.Cond))
		}
	}
	return out, true
}

// c14Field finds `name: <int>` in a composite literal inside fd.
func c14Field(fd *ast.FuncDecl, name string) (int64, bool) {
	var v int64
	found := false
	if fd == nil {
		return 0, false
	}
	ast.Inspect(fd, func(n ast.Node) bool {
		kv, ok := n.(*ast.KeyValueExpr)
		if !ok {
			return true
		}
		if id, ok := kv.Key.(*ast.Ident); ok && id.Name == name {
			if x, ok := IntLit(kv.Value); ok {
				v, found = x, true
			}
		}
		return true
	})
	return v, found
}

func init() {
	RegisterGen("C14", func(c *Ctx) string {
		var sb strings.Builder
		sb.WriteString("namespace Rare.Gen.C14\n\n")
		const bars = "pkg/multiterm/termunicode/bars.go"
		const heat = "pkg/multiterm/termunicode/heat.go"
		const spark = "pkg/multiterm/termunicode/spark.go"
		const scale = "pkg/multiterm/termscaler/scale.go"
		const col = "pkg/color/coloring.go"
		const rend = "pkg/multiterm/termrenderers/"
		for _, p := range [][2]string{
			{scale, "Scaler.Scale"}, {scale, "Scaler.remapMinMax"}, {scale, "Bucket"}, {scale, "LengthVal"}, {scale, "Scaler.ScaleKeys"},
			{bars, "barWriteRunes"}, {bars, "BarWrite"}, {bars, "BarWriteStacked"}, {bars, "BarKey"}, {heat, "HeatWrite"}, {spark, "SparkWrite"},
			{col, "StrLen"}, {col, "Wrap"}, {col, "Write"}, {col, "HighlightSingleRune"},
			{rend + "table.go", "TableWriter.WriteRow"}, {rend + "table.go", "TableWriter.writeRow"},
			{rend + "histoWriter.go", "HistoWriter.WriteForLine"}, {rend + "histoWriter.go", "HistoWriter.writeLine"}, {rend + "histoWriter.go", "HistoWriter.fullRender"},
			{rend + "bargraph.go", "BarGraph.WriteBar"}, {rend + "bargraph.go", "BarGraph.writeBarGrouped"}, {rend + "bargraph.go", "BarGraph.writeBarStacked"}, {rend + "bargraph.go", "BarGraph.SetKeys"},
			{rend + "datatable.go", "DataTable.WriteTable"}, {rend + "heatmap.go", "Heatmap.WriteTable"}, {rend + "heatmap.go", "Heatmap.WriteHeader"},
			{rend + "heatmap.go", "Heatmap.WriteRow"}, {rend + "heatmap.go", "Heatmap.UpdateMinMax"}, {rend + "spark.go", "Spark.WriteTable"},
		} {
			c.Fingerprint(p[0], p[1])
		}

		runeTable := func(file, name string) {
			elts, ok := c14Elts(c.Var(file, name))
			var vals []string
			for _, el := range elts {
				n, ok2 := IntLit(el)
				if !ok2 {
					ok = false
					break
				}
				vals = append(vals, fmt.Sprint(n))
			}
			if !ok || len(vals) == 0 {
				sb.WriteString(untranslatable(name))
				return
			}
			fmt.Fprintf(&sb, "/-- `%s` of %s (code points) -/\ndef %s : List Nat := [%s]\n\n", name, file, name, strings.Join(vals, ", "))
		}
		strTable := func(file, name string, files []string) {
			elts, ok := c14Elts(c.Var(file, name))
			var vals []string
			for _, el := range elts {
				s, ok2 := c14Str(c, files, el, 0)
				if !ok2 {
					ok = false
					break
				}
				vals = append(vals, c20Bytes(s))
			}
			if !ok || len(vals) == 0 {
				sb.WriteString(untranslatable(name))
				return
			}
			fmt.Fprintf(&sb, "/-- `%s` of %s (byte strings) -/\ndef %s : List (List UInt8) := [%s]\n\n", name, file, name, strings.Join(vals, ",\n  "))
		}
		runeConst := func(file, name string) {
			if n, ok := IntLit(c.Var(file, name)); ok {
				fmt.Fprintf(&sb, "/-- `%s` of %s -/\ndef %s : Nat := %d\n\n", name, file, name, n)
			} else {
				sb.WriteString(untranslatable(name))
			}
		}

		runeTable(bars, "barUnicode")
		runeTable(bars, "barAscii")
		runeTable(spark, "sparkBlocks")
		runeTable(spark, "sparkAscii")
		strTable(heat, "heatmapColors", []string{heat, col})
		strTable(heat, "heatmapAscii", []string{heat, col})
		strTable(col, "GroupColors", []string{col})
		runeConst(bars, "fullBlock")
		runeConst(bars, "nonUnicodeBlock")
		runeConst(heat, "heatmapNonUnicode")

		// barUnicodePartCount = len(barUnicode)
		if t, ok := c14LenOf(c, bars, c.Var(bars, "barUnicodePartCount"), 0); ok {
			fmt.Fprintf(&sb, "/-- `barUnicodePartCount` of bars.go -/\ndef barUnicodePartCount : Nat := %s.length\n\n", t)
		} else {
			sb.WriteString(untranslatable("barUnicodePartCount"))
		}

		// colour constants used by the renderers
		for _, name := range []string{"Reset", "Yellow", "Blue", "Cyan", "BrightBlack", "BrightBlue", "BrightCyan", "BrightWhite", "Underline"} {
			if s, ok := c14Str(c, []string{col}, c.Var(col, name), 0); ok {
				fmt.Fprintf(&sb, "/-- `color.%s` -/\ndef c%s : List UInt8 := %s\n\n", name, name, c20Bytes(s))
			} else {
				sb.WriteString(untranslatable("c" + name))
			}
		}
		// StrLen: the two rune literals of the scanner
		if n, ok := IntLit(c.Var(col, "escapeRune")); ok {
			fmt.Fprintf(&sb, "/-- `escapeRune` of coloring.go -/\ndef escapeRune : Nat := %d\n\n", n)
		} else {
			sb.WriteString(untranslatable("escapeRune"))
		}

		// (table measured by Bucket's size argument, table indexed by the result) per call site
		emitSites := func(lean string, file, fn string) {
			sites, ok := c14BucketSites(c, file, c.Func(file, fn))
			if !ok {
				sb.WriteString(untranslatable(lean))
				return
			}
			var parts []string
			for _, s := range sites {
				parts = append(parts, fmt.Sprintf("(%s.length, %s.length)", s[0], s[1]))
			}
			fmt.Fprintf(&sb, "/-- %s: for every `termscaler.Bucket(N, …)` whose result indexes a table: (N, length of that table) -/\ndef %s : List (Nat × Nat) := [%s]\n\n", fn, lean, strings.Join(parts, ", "))
		}
		emitSites("heatBucketSites", heat, "HeatWrite")
		emitSites("sparkBucketSites", spark, "SparkWrite")

		// guard chains, as printed conditions
		conds := func(lean, file, fn string) {
			cs, ok := c14Conds(c, c.Func(file, fn))
			if !ok || len(cs) == 0 {
				sb.WriteString(untranslatable(lean))
				return
			}
			fmt.Fprintf(&sb, "/-- conditions of the top-level `if`s of %s, in order -/\ndef %s : List String := %s\n\n", fn, lean, leanStrList(cs))
		}
		conds("scaleGuards", scale, "Scaler.Scale")
		conds("remapGuards", scale, "Scaler.remapMinMax")
		conds("barRunesGuards", bars, "barWriteRunes")

		// layout constants
		intDef := func(lean, doc string, v int64, ok bool) {
			if ok {
				fmt.Fprintf(&sb, "/-- %s -/\ndef %s : Int := %d\n\n", doc, lean, v)
			} else {
				sb.WriteString(untranslatable(lean))
			}
		}
		v, ok := c14Field(c.Func(rend+"histoWriter.go", "NewHistogram"), "textSpacing")
		intDef("histoTextSpacing", "NewHistogram: textSpacing", v, ok)
		v, ok = c14Field(c.Func(rend+"bargraph.go", "NewBarGraph"), "maxKeyLength")
		intDef("barsMaxKeyLength", "NewBarGraph: maxKeyLength", v, ok)
		v, ok = c14Field(c.Func(rend+"bargraph.go", "NewBarGraph"), "BarSize")
		intDef("barsBarSize", "NewBarGraph: BarSize", v, ok)
		v, ok = IntLit(c.LocalConst(c.Func(rend+"heatmap.go", "Heatmap.WriteHeader"), "delimCount"))
		intDef("heatDelimCount", "Heatmap.WriteHeader: delimCount", v, ok)
		// histogram bar width: the last argument of termunicode.BarWrite in writeLine
		hb := c20CallArgs(c.Func(rend+"histoWriter.go", "HistoWriter.writeLine"), "termunicode.BarWrite")
		if len(hb) == 1 && len(hb[0]) == 3 {
			v, ok = IntLit(hb[0][2])
		} else {
			ok = false
		}
		intDef("histoBarWidth", "HistoWriter.writeLine: width passed to BarWrite", v, ok)

		// ---- the formatter: every call of the renderers' Formatter field with its printed arguments, the
		// statements of the closure FromExpression returns, the guard of the reduce table loop, the width
		// measure of the sparkline header
		strList := func(lean, doc string, l []string, ok bool) {
			if ok && len(l) > 0 {
				fmt.Fprintf(&sb, "/-- %s -/\ndef %s : List String := %s\n\n", doc, lean, leanStrList(l))
			} else {
				sb.WriteString(untranslatable(lean))
			}
		}
		fmtCalls := func(file string, fns ...string) ([]string, bool) {
			var out []string
			for _, fn := range fns {
				fd := c.Func(file, fn)
				if fd == nil {
					return nil, false
				}
				for _, name := range []string{"s.Formatter", "s.formatter"} {
					for _, args := range c20CallArgs(fd, name) {
						var ps []string
						for _, a := range args {
							ps = append(ps, c.Print(a))
						}
						out = append(out, strings.Join(ps, ", "))
					}
				}
			}
			return out, true
		}
		l, ok2 := fmtCalls(rend+"histoWriter.go", "HistoWriter.writeLine")
		strList("histoFormatCalls", "HistoWriter.writeLine: arguments of every Formatter call", l, ok2)
		l, ok2 = fmtCalls(rend+"bargraph.go", "BarGraph.writeBarGrouped", "BarGraph.writeBarStacked")
		strList("barsFormatCalls", "BarGraph.writeBarGrouped / writeBarStacked: arguments of every Formatter call", l, ok2)
		l, ok2 = fmtCalls(rend+"datatable.go", "DataTable.WriteTable")
		strList("tableFormatCalls", "DataTable.WriteTable: arguments of every formatter call", l, ok2)
		l, ok2 = fmtCalls(rend+"heatmap.go", "Heatmap.UpdateMinMax")
		strList("heatFormatCalls", "Heatmap.UpdateMinMax: arguments of every Formatter call", l, ok2)
		l, ok2 = fmtCalls(rend+"spark.go", "Spark.WriteTable")
		strList("sparkFormatCalls", "Spark.WriteTable: arguments of every Formatter call", l, ok2)

		// the closure returned by termformat.FromExpression: its statements, printed
		{
			const tf = "pkg/multiterm/termformat/expression.go"
			c.Fingerprint(tf, "FromExpression")
			c.Fingerprint(tf, "expandCompileExpression")
			c.Fingerprint(tf, "formatExpressionContext.GetMatch")
			c.Fingerprint(tf, "formatExpressionContext.GetKey")
			var stmts, outer []string
			okc := false
			if fd := c.Func(tf, "FromExpression"); fd != nil && fd.Body != nil {
				for _, st := range fd.Body.List {
					if rs, ok := st.(*ast.ReturnStmt); ok && len(rs.Results) > 0 {
						if fl, ok := rs.Results[0].(*ast.FuncLit); ok {
							okc = true
							for _, x := range fl.Body.List {
								stmts = append(stmts, c.Print(x))
							}
							continue
						}
					}
					if _, ok := st.(*ast.IfStmt); ok {
						continue
					}
					outer = append(outer, c.Print(st))
				}
			}
			strList("fromExpressionClosure", "termformat.FromExpression: the statements of the returned closure", stmts, okc)
			strList("fromExpressionState", "termformat.FromExpression: the statements before the closure (what it can capture), error checks aside", outer, okc)
		}


		// ---- the float computation of the scalers, statement by statement (what `f64Arith` models operation by
		// operation): the bodies of Scale, remapMinMax, Bucket, LengthVal, the mapVal closures of the three scalers;
		// and the loop body of HistoWriter.fullRender (which lines a refresh redraws)
		flat := func(n ast.Node) string { return strings.Join(strings.Fields(c.Print(n)), " ") }
		bodyOf := func(lean, doc string, body *ast.BlockStmt) {
			if body == nil {
				sb.WriteString(untranslatable(lean))
				return
			}
			var l []string
			for _, st := range body.List {
				l = append(l, flat(st))
			}
			strList(lean, doc, l, true)
		}
		funcBody := func(lean, file, fn string) {
			fd := c.Func(file, fn)
			if fd == nil {
				sb.WriteString(untranslatable(lean))
				return
			}
			bodyOf(lean, fn+": the statements of the body, printed", fd.Body)
		}
		funcBody("scaleBody", scale, "Scaler.Scale")
		funcBody("remapBody", scale, "Scaler.remapMinMax")
		funcBody("bucketBody", scale, "Bucket")
		funcBody("lengthValBody", scale, "LengthVal")
		for _, nm := range [][2]string{{"ScalerLinear", "mapLinearBody"}, {"ScalerLog2", "mapLog2Body"}, {"ScalerLog10", "mapLog10Body"}} {
			var body *ast.BlockStmt
			if elts, ok := c14Elts(c.Var(scale, nm[0])); ok && len(elts) >= 1 {
				if fl, ok := elts[0].(*ast.FuncLit); ok {
					body = fl.Body
				}
			}
			bodyOf(nm[1], nm[0]+".mapVal: the statements of the closure, printed", body)
		}
		funcBody("histoFullRenderBody", rend+"histoWriter.go", "HistoWriter.fullRender")

		// the --scale names, and the legend line of the heatmap: ScaleKeys, the unmapVal closures, UpdateMinMax
		funcBody("scalerByNameBody", scale, "ScalerByName")
		funcBody("scaleKeysBody", scale, "Scaler.ScaleKeys")
		for _, nm := range [][2]string{{"ScalerLinear", "unmapLinearBody"}, {"ScalerLog2", "unmapLog2Body"}, {"ScalerLog10", "unmapLog10Body"}} {
			var body *ast.BlockStmt
			if elts, ok := c14Elts(c.Var(scale, nm[0])); ok && len(elts) >= 2 {
				if fl, ok := elts[1].(*ast.FuncLit); ok {
					body = fl.Body
				}
			}
			bodyOf(nm[1], nm[0]+".unmapVal: the statements of the closure, printed", body)
		}
		funcBody("heatUpdateMinMaxBody", rend+"heatmap.go", "Heatmap.UpdateMinMax")

		// the key column of the histogram and the bar graph (f0d0278, cde79bf): how the key is padded, what widens the
		// column, what triggers a re-draw
		funcBody("padVisibleBody", rend+"histoWriter.go", "padVisible")
		funcBody("histoWriteForLineBody", rend+"histoWriter.go", "HistoWriter.WriteForLine")
		funcBody("barsWriteBarBody", rend+"bargraph.go", "BarGraph.WriteBar")
		{
			var calls []string
			okAll := true
			for _, fn := range [][2]string{{rend + "histoWriter.go", "HistoWriter.writeLine"}, {rend + "bargraph.go", "BarGraph.writeBarGrouped"}, {rend + "bargraph.go", "BarGraph.writeBarStacked"}} {
				fd := c.Func(fn[0], fn[1])
				if fd == nil {
					okAll = false
					continue
				}
				ast.Inspect(fd, func(n ast.Node) bool {
					if ce, ok := n.(*ast.CallExpr); ok {
						if p := c.Print(ce); strings.HasPrefix(p, "color.Wrap") && strings.Contains(p, "color.Yellow") {
							calls = append(calls, flat(ce))
						}
					}
					return true
				})
			}
			strList("keyCellCalls", "writeLine / writeBarGrouped / writeBarStacked: the calls that colour the key cell, in order", calls, okAll)
		}

		// cmd/reduce.go: conditions that mention GroupColCount (the table switch and the guard of the parts loop)
		{
			const red = "cmd/reduce.go"
			c.Fingerprint(red, "reduceFunction")
			var cs []string
			fd := c.Func(red, "reduceFunction")
			if fd != nil {
				ast.Inspect(fd, func(n ast.Node) bool {
					if is, ok := n.(*ast.IfStmt); ok {
						if p := c.Print(is.Cond); strings.Contains(p, "GroupColCount") {
							cs = append(cs, p)
						}
					}
					return true
				})
			}
			strList("reduceGroupGuards", "reduceFunction: the `if` conditions that mention GroupColCount, in order", cs, fd != nil)
		}

		// the reduce table's row buffer (seeded change C14-reduce-rowbuf-hoisted): the render callback of the table path
		// (the first function literal handed to RunAggregationLoop) with its row loop – where `rowBuf` is allocated, what
		// is written into it, what is handed to WriteRow –, the statements between NewTable and that call that declare
		// anything (a buffer hoisted out of the loop shows up here), and TableWriter.WriteRow / writeRow (what the table
		// keeps of a row and when it re-draws)
		{
			const red = "cmd/reduce.go"
			var render *ast.FuncLit
			var hoisted []string
			fd := c.Func(red, "reduceFunction")
			if fd != nil {
				ast.Inspect(fd, func(n ast.Node) bool {
					blk, ok := n.(*ast.BlockStmt)
					if !ok || render != nil {
						return render == nil
					}
					seenTable := false
					var decls []string
					for _, st := range blk.List {
						if as, ok := st.(*ast.AssignStmt); ok && as.Tok == token.DEFINE && len(as.Rhs) == 1 &&
							strings.HasPrefix(c.Print(as.Rhs[0]), "termrenderers.NewTable") {
							seenTable = true
							continue
						}
						if !seenTable {
							continue
						}
						if es, ok := st.(*ast.ExprStmt); ok {
							if ce, ok := es.X.(*ast.CallExpr); ok && strings.HasSuffix(c.Print(ce.Fun), "RunAggregationLoop") && len(ce.Args) == 3 {
								if fl, ok := ce.Args[2].(*ast.FuncLit); ok {
									render = fl
									hoisted = decls
									return false
								}
							}
						}
						switch x := st.(type) {
						case *ast.AssignStmt:
							if x.Tok == token.DEFINE {
								decls = append(decls, flat(x))
							}
						case *ast.DeclStmt:
							decls = append(decls, flat(x))
						}
					}
					return true
				})
			}
			if render == nil {
				sb.WriteString(untranslatable("reduceRenderBody"))
				sb.WriteString(untranslatable("reduceRowLoopBody"))
				sb.WriteString(untranslatable("reduceHoistedDecls"))
			} else {
				bodyOf("reduceRenderBody", "reduceFunction, table path: the statements of the render callback, printed", render.Body)
				var loop *ast.BlockStmt
				for _, st := range render.Body.List {
					if rs, ok := st.(*ast.RangeStmt); ok && loop == nil {
						loop = rs.Body
					}
				}
				bodyOf("reduceRowLoopBody", "reduceFunction, table path: the statements of the row loop `for i, group := range aggr.Groups(sorter)`", loop)
				// (an empty list is the expected answer here, so it is printed as such)
				fmt.Fprintf(&sb, "/-- reduceFunction, table path: declarations between NewTable and RunAggregationLoop (none: the row buffer lives inside the row loop) -/\ndef reduceHoistedDecls : List String := %s\n\n", leanStrList(hoisted))
			}
			funcBody("tableWriteRowBody", rend+"table.go", "TableWriter.WriteRow")
			funcBody("tableWriteRowInnerBody", rend+"table.go", "TableWriter.writeRow")
		}

		// Spark.WriteTable: how the header measures the first and last column name
		{
			var rhs []string
			fd := c.Func(rend+"spark.go", "Spark.WriteTable")
			if fd != nil {
				ast.Inspect(fd, func(n ast.Node) bool {
					if as, ok := n.(*ast.AssignStmt); ok && len(as.Lhs) == 1 && len(as.Rhs) == 1 {
						if id, ok := as.Lhs[0].(*ast.Ident); ok && id.Name == "dots" && as.Tok == token.DEFINE {
							rhs = append(rhs, c.Print(as.Rhs[0]))
						}
					}
					return true
				})
			}
			strList("sparkHeaderDots", "Spark.WriteTable: `dots := …`", rhs, fd != nil)
		}

		sb.WriteString("end Rare.Gen.C14\n")
		return sb.String()
	})
}
