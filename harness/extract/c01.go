package main

import (
	"fmt"
	"go/ast"
	"go/token"
	"strings"
)

// C01: what the models of the classification step, the summary line and the command-line plumbing of the
// batcher/extractor (lean/Rare/Model/C01Classify.lean, C01Summary.lean, C01Flags.lean) assume about the source,
// regenerated on every run:
//
//   - every statement, with its conditions, in source order (token lists in the format of c06Ctl; the add-only
//     verifTrace hooks are left out) of processLineSync, ExpressionIgnoreSet.IgnoreMatch, NewIgnoreExpressions,
//     Truthy, Config.getWorkerCount, BuildBatcherFromArguments, BuildExtractorFromArgumentsEx, newBatcher,
//     FWriteMatchSummary, FWriteExtractorSummary, WriteExtractorSummary, humanize.Hui, humanizeInt, color.Wrap,
//     color.Wrapi, color.Wrapf and filterFunction;
//   - as data: which flag each variable of BuildBatcherFromArguments is read from, the usage guards (variable,
//     comparison, bound, message), the flag defaults, the exit code, the fallback worker count, the parameter
//     lists of the batcher constructors and what they do with batch size / buffer depth / concurrency, the
//     format strings and colours of the summary line, the constants of humanizeInt.
func init() {
	RegisterGen("C01", func(c *Ctx) string {
		var sb strings.Builder
		sb.WriteString("namespace Rare.Gen.C01\n\n")
		txt := func(n ast.Node) string { return strings.Join(strings.Fields(c.Print(n)), "") }

		type anchor struct{ lean, file, fn string }
		const (
			fExtractor = "pkg/extractor/extractor.go"
			fIgnore    = "pkg/extractor/ignoreset.go"
			fTruthy    = "pkg/expressions/truthy.go"
			fBuilder   = "cmd/helpers/extractorBuilder.go"
			fBatcher   = "pkg/extractor/batchers/batcher.go"
			fFiles     = "pkg/extractor/batchers/fileBatcher.go"
			fReader    = "pkg/extractor/batchers/readerBatcher.go"
			fTail      = "pkg/extractor/batchers/tailBatcher.go"
			fSummary   = "cmd/helpers/summary.go"
			fHumanize  = "pkg/humanize/humanize.go"
			fHumanizeI = "pkg/humanize/numeric.go"
			fColor     = "pkg/color/coloring.go"
			fFilter    = "cmd/filter.go"
			fExit      = "cmd/helpers/exitCodes.go"
		)
		// humanizeInt may live in either file of pkg/humanize
		humanizeIntFile := fHumanizeI
		if c.Func(fHumanizeI, "humanizeInt") == nil {
			for _, alt := range []string{"pkg/humanize/humanize.go", "pkg/humanize/localize.go"} {
				if c.Func(alt, "humanizeInt") != nil {
					humanizeIntFile = alt
				}
			}
		}
		for _, a := range []anchor{
			{"processLineSync", fExtractor, "extractorInstance.processLineSync"},
			{"asyncWorker", fExtractor, "Extractor.asyncWorker"},
			{"extractorNew", fExtractor, "New"},
			{"getWorkerCount", fExtractor, "Config.getWorkerCount"},
			{"ignoreMatch", fIgnore, "ExpressionIgnoreSet.IgnoreMatch"},
			{"newIgnoreExpressions", fIgnore, "NewIgnoreExpressions"},
			{"truthy", fTruthy, "Truthy"},
			{"buildBatcherFromArguments", fBuilder, "BuildBatcherFromArguments"},
			{"buildExtractorFromArgumentsEx", fBuilder, "BuildExtractorFromArgumentsEx"},
			{"newBatcher", fBatcher, "newBatcher"},
			{"fWriteMatchSummary", fSummary, "FWriteMatchSummary"},
			{"fWriteExtractorSummary", fSummary, "FWriteExtractorSummary"},
			{"writeExtractorSummary", fSummary, "WriteExtractorSummary"},
			{"hui", fHumanize, "Hui"},
			{"humanizeInt", humanizeIntFile, "humanizeInt"},
			{"colorWrap", fColor, "Wrap"},
			{"colorWrapi", fColor, "Wrapi"},
			{"colorWrapf", fColor, "Wrapf"},
			{"filterFunction", fFilter, "filterFunction"},
			{"determineErrorState", fExit, "DetermineErrorState"},
		} {
			fd := c.Func(a.file, a.fn)
			c.Fingerprint(a.file, a.fn)
			if fd == nil || fd.Body == nil {
				sb.WriteString(untranslatable("stmts_" + a.lean))
				continue
			}
			fmt.Fprintf(&sb, "/-- statements of `%s` (%s), source order -/\ndef stmts_%s : List String := %s\n\n",
				a.fn, a.file, a.lean, leanStrList(c.c06Ctl(fd.Body.List)))
		}

		// ---- BuildBatcherFromArguments: variable <- c.<Kind>("<flag>") [|| c.<Kind>("<flag>")]
		if fd := c.Func(fBuilder, "BuildBatcherFromArguments"); fd != nil && fd.Body != nil {
			var reads []string
			ast.Inspect(fd.Body, func(n ast.Node) bool {
				vs, ok := n.(*ast.ValueSpec)
				if !ok {
					return true
				}
				for i, nm := range vs.Names {
					if i >= len(vs.Values) {
						continue
					}
					var flags []string
					ast.Inspect(vs.Values[i], func(m ast.Node) bool {
						if call, ok := m.(*ast.CallExpr); ok && len(call.Args) == 1 {
							if s, ok := StringLit(call.Args[0]); ok {
								flags = append(flags, txt(call.Fun)+":"+s)
							}
						}
						return true
					})
					reads = append(reads, fmt.Sprintf("(%s, %s)", leanStr(nm.Name), leanStrList(flags)))
				}
				return true
			})
			fmt.Fprintf(&sb, "/-- `var ( name = c.Kind(\"flag\") … )` of BuildBatcherFromArguments -/\ndef flagReads : List (String × List String) := [%s]\n\n", strings.Join(reads, ",\n  "))

			// guards: if <var> <op> <int> { logger.Fatalf(<code>, <msg>, …) }
			var guards []string
			for _, st := range fd.Body.List {
				is, ok := st.(*ast.IfStmt)
				if !ok || is.Else != nil || len(is.Body.List) != 1 {
					continue
				}
				es, ok := is.Body.List[0].(*ast.ExprStmt)
				if !ok {
					continue
				}
				call, ok := es.X.(*ast.CallExpr)
				if !ok || !strings.HasPrefix(txt(call.Fun), "logger.Fatal") || len(call.Args) < 2 {
					continue
				}
				msg, _ := StringLit(call.Args[1])
				be, ok := is.Cond.(*ast.BinaryExpr)
				if !ok {
					continue
				}
				lit, ok := IntLit(be.Y)
				id, ok2 := be.X.(*ast.Ident)
				if !ok || !ok2 {
					continue // the Boolean guards (--poll / --tail without -f) are in stmts_buildBatcherFromArguments
				}
				guards = append(guards, fmt.Sprintf("(%s, %s, %d, %s, %s)", leanStr(id.Name), leanStr(be.Op.String()), lit, leanStr(txt(call.Args[0])), leanStr(msg)))
			}
			fmt.Fprintf(&sb, "/-- numeric usage guards of BuildBatcherFromArguments: (variable, comparison, bound, exit code, message), source order -/\ndef usageGuards : List (String × String × Int × String × String) := [%s]\n\n", strings.Join(guards, ",\n  "))

			// the three constructor calls
			var ctor []string
			ast.Inspect(fd.Body, func(n ast.Node) bool {
				if rs, ok := n.(*ast.ReturnStmt); ok && len(rs.Results) == 1 {
					if call, ok := rs.Results[0].(*ast.CallExpr); ok {
						args := make([]string, len(call.Args))
						for i, a := range call.Args {
							args[i] = txt(a)
						}
						ctor = append(ctor, fmt.Sprintf("(%s, %s)", leanStr(txt(call.Fun)), leanStrList(args)))
					}
				}
				return true
			})
			fmt.Fprintf(&sb, "/-- the batcher constructor calls of BuildBatcherFromArguments (stdin, follow, files) with their arguments -/\ndef constructorCalls : List (String × List String) := [%s]\n\n", strings.Join(ctor, ",\n  "))
		} else {
			sb.WriteString(untranslatable("flagReads"))
			sb.WriteString(untranslatable("usageGuards"))
			sb.WriteString(untranslatable("constructorCalls"))
		}

		// ---- parameter lists of the constructors
		params := func(lean, file, fn string) {
			fd := c.Func(file, fn)
			if fd == nil {
				sb.WriteString(untranslatable(lean))
				return
			}
			var ps []string
			for _, f := range fd.Type.Params.List {
				for _, n := range f.Names {
					ps = append(ps, n.Name+":"+txt(f.Type))
				}
			}
			fmt.Fprintf(&sb, "/-- parameters of `%s` -/\ndef %s : List String := %s\n\n", fn, lean, leanStrList(ps))
		}
		params("params_openFilesToChan", fFiles, "OpenFilesToChan")
		params("params_openReaderToChan", fReader, "OpenReaderToChan")
		params("params_tailFilesToChan", fTail, "TailFilesToChan")
		params("params_newBatcher", fBatcher, "newBatcher")
		params("params_syncReaderToBatcher", fBatcher, "Batcher.syncReaderToBatcher")
		params("params_syncReaderToBatcherWithTimeFlush", fBatcher, "Batcher.syncReaderToBatcherWithTimeFlush")

		// ---- what the constructors do with their parameters: every make(...) and every call of newBatcher /
		// syncReaderToBatcher* inside them, with arguments
		uses := func(lean, file, fn string) {
			fd := c.Func(file, fn)
			if fd == nil || fd.Body == nil {
				sb.WriteString(untranslatable(lean))
				return
			}
			var out []string
			ast.Inspect(fd.Body, func(n ast.Node) bool {
				call, ok := n.(*ast.CallExpr)
				if !ok {
					return true
				}
				name := txt(call.Fun)
				if name == "make" || name == "newBatcher" || strings.HasSuffix(name, ".syncReaderToBatcher") ||
					strings.HasSuffix(name, ".syncReaderToBatcherWithTimeFlush") {
					out = append(out, txt(call))
				}
				return true
			})
			fmt.Fprintf(&sb, "/-- `make`, `newBatcher` and batching-loop calls inside `%s` -/\ndef %s : List String := %s\n\n", fn, lean, leanStrList(out))
		}
		uses("uses_openFilesToChan", fFiles, "OpenFilesToChan")
		uses("uses_openReaderToChan", fReader, "OpenReaderToChan")
		uses("uses_newBatcher", fBatcher, "newBatcher")
		uses("uses_syncReaderToBatcher", fBatcher, "Batcher.syncReaderToBatcher")
		uses("uses_syncReaderToBatcherWithTimeFlush", fBatcher, "Batcher.syncReaderToBatcherWithTimeFlush")
		uses("uses_extractorNew", fExtractor, "New")

		// ---- the scanner a batching loop reads through, and what happens on a read / open error
		scanner := func(lean, file, fn string) {
			fd := c.Func(file, fn)
			if fd == nil || fd.Body == nil {
				sb.WriteString(untranslatable(lean))
				return
			}
			var out []string
			ast.Inspect(fd.Body, func(n ast.Node) bool {
				call, ok := n.(*ast.CallExpr)
				if !ok {
					return true
				}
				name := txt(call.Fun)
				switch {
				case name == "readahead.NewImmediate" || name == "readahead.NewBuffered" || name == "readahead.New" || name == "newReaderMetrics":
					out = append(out, txt(call))
				case strings.HasSuffix(name, ".OnError") && len(call.Args) == 1:
					if fl, ok := call.Args[0].(*ast.FuncLit); ok {
						out = append(out, "OnError{")
						out = append(out, c.c06Ctl(fl.Body.List)...)
						out = append(out, "}")
					} else {
						out = append(out, txt(call))
					}
				case strings.HasSuffix(name, ".Scan") || strings.HasSuffix(name, ".Bytes") || strings.HasSuffix(name, ".ReadLine"):
					out = append(out, txt(call))
				}
				return true
			})
			fmt.Fprintf(&sb, "/-- how `%s` reads its source: reader wrapper, scanner constructor, error callback, scan calls (source order) -/\ndef %s : List String := %s\n\n", fn, lean, leanStrList(out))
		}
		scanner("scanner_syncReaderToBatcher", fBatcher, "Batcher.syncReaderToBatcher")
		scanner("scanner_syncReaderToBatcherWithTimeFlush", fBatcher, "Batcher.syncReaderToBatcherWithTimeFlush")
		// the open-error branch of the reader goroutine of OpenFilesToChan: `if err != nil { … }` right after openFileToReader
		if fd := c.Func(fFiles, "OpenFilesToChan"); fd != nil && fd.Body != nil {
			var out []string
			found := false
			ast.Inspect(fd.Body, func(n ast.Node) bool {
				bs, ok := n.(*ast.BlockStmt)
				if !ok {
					return true
				}
				for i, st := range bs.List {
					as, ok := st.(*ast.AssignStmt)
					if !ok || len(as.Rhs) != 1 || !strings.HasPrefix(txt(as.Rhs[0]), "openFileToReader(") || i+1 >= len(bs.List) {
						continue
					}
					if is, ok := bs.List[i+1].(*ast.IfStmt); ok && !found {
						found = true
						out = append(out, txt(as), "if "+txt(is.Cond)+"{")
						out = append(out, c.c06Ctl(is.Body.List)...)
						out = append(out, "}")
					}
				}
				return true
			})
			fmt.Fprintf(&sb, "/-- `OpenFilesToChan`: opening a file and the branch taken when that fails -/\ndef openError_openFilesToChan : List String := %s\n\n", leanStrList(out))
		} else {
			sb.WriteString(untranslatable("openError_openFilesToChan"))
		}

		// ---- DetermineErrorState: if <cond> { return cli.Exit(<msg>, <code>) } …; return nil
		if fd := c.Func(fExit, "DetermineErrorState"); fd != nil && fd.Body != nil {
			var guards []string
			okAll := len(fd.Body.List) > 0
			for i, st := range fd.Body.List {
				if i == len(fd.Body.List)-1 {
					if rs, ok := st.(*ast.ReturnStmt); !ok || len(rs.Results) != 1 || txt(rs.Results[0]) != "nil" {
						okAll = false
					}
					continue
				}
				is, ok := st.(*ast.IfStmt)
				if !ok || is.Else != nil || is.Init != nil || len(is.Body.List) != 1 {
					okAll = false
					continue
				}
				rs, ok := is.Body.List[0].(*ast.ReturnStmt)
				if !ok || len(rs.Results) != 1 {
					okAll = false
					continue
				}
				call, ok := rs.Results[0].(*ast.CallExpr)
				if !ok || txt(call.Fun) != "cli.Exit" || len(call.Args) != 2 {
					okAll = false
					continue
				}
				msg, ok := StringLit(call.Args[0])
				if !ok {
					okAll = false
					continue
				}
				guards = append(guards, fmt.Sprintf("(%s, %s, %s)", leanStr(txt(is.Cond)), leanStr(msg), leanStr(txt(call.Args[1]))))
			}
			if okAll {
				fmt.Fprintf(&sb, "/-- `DetermineErrorState`: `if cond { return cli.Exit(msg, code) }` … `return nil`: (cond, msg, code), source order -/\ndef exitGuards : List (String × String × String) := [%s]\n\n", strings.Join(guards, ",\n  "))
			} else {
				sb.WriteString(untranslatable("exitGuards"))
			}
		} else {
			sb.WriteString(untranslatable("exitGuards"))
		}

		// ---- flag defaults (getExtractorFlags)
		if fd := c.Func(fBuilder, "getExtractorFlags"); fd != nil && fd.Body != nil {
			var defs []string
			ast.Inspect(fd.Body, func(n ast.Node) bool {
				cl, ok := n.(*ast.CompositeLit)
				if !ok {
					return true
				}
				ty := txt(cl.Type)
				if !strings.HasPrefix(ty, "cli.") || !strings.HasSuffix(ty, "Flag") {
					return true
				}
				name, val, aliases := "", "", ""
				for _, el := range cl.Elts {
					kv, ok := el.(*ast.KeyValueExpr)
					if !ok {
						continue
					}
					switch txt(kv.Key) {
					case "Name":
						name, _ = StringLit(kv.Value)
					case "Value":
						val = txt(kv.Value)
					case "Aliases":
						aliases = txt(kv.Value)
					}
				}
				defs = append(defs, fmt.Sprintf("(%s, %s, %s, %s)", leanStr(name), leanStr(ty), leanStr(aliases), leanStr(val)))
				return true
			})
			fmt.Fprintf(&sb, "/-- flags of getExtractorFlags: (name, type, aliases, default expression) -/\ndef extractorFlags : List (String × String × String × String) := [%s]\n\n", strings.Join(defs, ",\n  "))
			wc := ""
			ast.Inspect(fd.Body, func(n ast.Node) bool {
				if as, ok := n.(*ast.AssignStmt); ok && len(as.Lhs) == 1 && txt(as.Lhs[0]) == "workerCount" {
					wc = txt(as.Rhs[0])
				}
				return true
			})
			fmt.Fprintf(&sb, "/-- `workerCount :=` of getExtractorFlags -/\ndef workerCountExpr : String := %s\n\n", leanStr(wc))
		} else {
			sb.WriteString(untranslatable("extractorFlags"))
			sb.WriteString(untranslatable("workerCountExpr"))
		}

		// ---- integer constants
		intConst := func(lean, doc string, e ast.Expr) {
			if v, ok := IntLit(e); ok && e != nil {
				fmt.Fprintf(&sb, "/-- %s -/\ndef %s : Int := %d\n\n", doc, lean, v)
			} else {
				sb.WriteString(untranslatable(lean))
			}
		}
		intConst("exitCodeInvalidUsage", "`ExitCodeInvalidUsage`", c.Var(fExit, "ExitCodeInvalidUsage"))
		intConst("exitCodeNoData", "`ExitCodeNoData`", c.Var(fExit, "ExitCodeNoData"))
		// getWorkerCount: if s.Workers <= 0 { return N }
		if fd := c.Func(fExtractor, "Config.getWorkerCount"); fd != nil && fd.Body != nil && len(fd.Body.List) == 2 {
			okAll := false
			if is, ok := fd.Body.List[0].(*ast.IfStmt); ok && len(is.Body.List) == 1 {
				if be, ok := is.Cond.(*ast.BinaryExpr); ok && be.Op == token.LEQ && txt(be.X) == "s.Workers" {
					if b, ok := IntLit(be.Y); ok {
						if rs, ok := is.Body.List[0].(*ast.ReturnStmt); ok && len(rs.Results) == 1 {
							if v, ok := IntLit(rs.Results[0]); ok {
								if rs2, ok := fd.Body.List[1].(*ast.ReturnStmt); ok && len(rs2.Results) == 1 && txt(rs2.Results[0]) == "s.Workers" {
									fmt.Fprintf(&sb, "/-- `getWorkerCount`: `if s.Workers <= workersBound { return workersFallback }; return s.Workers` -/\ndef workersBound : Int := %d\ndef workersFallback : Int := %d\n\n", b, v)
									okAll = true
								}
							}
						}
					}
				}
			}
			if !okAll {
				sb.WriteString(untranslatable("workersBound"))
				sb.WriteString(untranslatable("workersFallback"))
			}
		} else {
			sb.WriteString(untranslatable("workersBound"))
			sb.WriteString(untranslatable("workersFallback"))
		}

		// ---- summary.go: every string literal of the two writers, source order; the colours
		lits := func(lean, file, fn string) {
			fd := c.Func(file, fn)
			if fd == nil || fd.Body == nil {
				sb.WriteString(untranslatable(lean))
				return
			}
			var out []string
			ast.Inspect(fd.Body, func(n ast.Node) bool {
				if bl, ok := n.(*ast.BasicLit); ok && (bl.Kind == token.STRING || bl.Kind == token.CHAR) {
					if s, ok := StringLit(bl); ok {
						out = append(out, s)
					}
				}
				if se, ok := n.(*ast.SelectorExpr); ok && txt(se.X) == "color" {
					out = append(out, "color."+se.Sel.Name)
				}
				if se, ok := n.(*ast.SelectorExpr); ok && txt(se.X) == "humanize" {
					out = append(out, "humanize."+se.Sel.Name)
				}
				return true
			})
			fmt.Fprintf(&sb, "/-- string literals, colours and number formatters of `%s`, source order -/\ndef %s : List String := %s\n\n", fn, lean, leanStrList(out))
		}
		lits("lits_fWriteMatchSummary", fSummary, "FWriteMatchSummary")
		lits("lits_fWriteExtractorSummary", fSummary, "FWriteExtractorSummary")
		colour := func(lean, name string) {
			e := c.Var(fColor, name)
			s, ok := c01ColorLit(c, e)
			if !ok {
				sb.WriteString(untranslatable(lean))
				return
			}
			bs := make([]string, len(s))
			for i := 0; i < len(s); i++ {
				bs[i] = fmt.Sprint(s[i])
			}
			fmt.Fprintf(&sb, "/-- `color.%s` -/\ndef %s : List UInt8 := [%s]\n\n", name, lean, strings.Join(bs, ", "))
		}
		colour("colorReset", "Reset")
		colour("colorBrightGreen", "BrightGreen")
		colour("colorBrightWhite", "BrightWhite")
		colour("colorRed", "Red")
		intConst("baseSeparator", "`baseSeparator` of pkg/humanize", c.Var(humanizeIntFile, "baseSeparator"))

		// ---- humanizeInt: the FormatInt shortcut bound and the group size
		if fd := c.Func(humanizeIntFile, "humanizeInt"); fd != nil && fd.Body != nil {
			small, group := int64(-1), int64(-1)
			ast.Inspect(fd.Body, func(n ast.Node) bool {
				be, ok := n.(*ast.BinaryExpr)
				if !ok {
					return true
				}
				if be.Op == token.LSS && txt(be.X) == "v" {
					if v, ok := IntLit(be.Y); ok && v > 0 {
						small = v
					}
				}
				if be.Op == token.EQL && txt(be.X) == "ci" {
					if v, ok := IntLit(be.Y); ok {
						group = v
					}
				}
				return true
			})
			if small >= 0 && group >= 0 {
				fmt.Fprintf(&sb, "/-- `humanizeInt`: values below `huiSmall` take the FormatInt shortcut; a separator after every `huiGroup` digits -/\ndef huiSmall : Nat := %d\ndef huiGroup : Nat := %d\n\n", small, group)
			} else {
				sb.WriteString(untranslatable("huiSmall"))
				sb.WriteString(untranslatable("huiGroup"))
			}
		} else {
			sb.WriteString(untranslatable("huiSmall"))
			sb.WriteString(untranslatable("huiGroup"))
		}

		sb.WriteString("end Rare.Gen.C01\n")
		return sb.String()
	})
}

// c01ColorLit evaluates `escapeCode + "[31m"` style constants of pkg/color.
func c01ColorLit(c *Ctx, e ast.Expr) (string, bool) {
	switch v := e.(type) {
	case nil:
		return "", false
	case *ast.BasicLit:
		return StringLit(v)
	case *ast.Ident:
		return c01ColorLit(c, c.Var("pkg/color/coloring.go", v.Name))
	case *ast.ParenExpr:
		return c01ColorLit(c, v.X)
	case *ast.BinaryExpr:
		if v.Op == token.ADD {
			a, ok1 := c01ColorLit(c, v.X)
			b, ok2 := c01ColorLit(c, v.Y)
			return a + b, ok1 && ok2
		}
	}
	return "", false
}
