package main

import (
	"fmt"
	"go/ast"
	"go/token"
	"strings"
)

// Skeleton: per function, the ordered list of synchronisation operations found in its body
// (source order, nested function literals included and bracketed by "go{"/"func{" … "}").
// The pipeline / aggregation-loop transition systems in lean/Rare/Model were written against this
// skeleton; Props files prove `Gen.skeleton_X = expected` by `decide`, so a reordered close, a dropped
// wg.Done, an added send or a removed Lock in /repo breaks a proof obligation.

func exprStr(c *Ctx, e ast.Expr) string {
	s := c.Print(e)
	s = strings.Join(strings.Fields(s), "")
	return s
}

func (c *Ctx) skeletonOf(body ast.Node) []string {
	var out []string
	var walk func(n ast.Node)
	walkList := func(list []ast.Stmt) {
		for _, s := range list {
			walk(s)
		}
	}
	_ = walkList
	walk = func(n ast.Node) {
		if n == nil {
			return
		}
		switch v := n.(type) {
		case *ast.GoStmt:
			if fl, ok := v.Call.Fun.(*ast.FuncLit); ok {
				out = append(out, "go{")
				walk(fl.Body)
				out = append(out, "}")
			} else {
				out = append(out, "go:"+exprStr(c, v.Call.Fun))
			}
			return
		case *ast.DeferStmt:
			if fl, ok := v.Call.Fun.(*ast.FuncLit); ok {
				out = append(out, "defer{")
				walk(fl.Body)
				out = append(out, "}")
			} else {
				out = append(out, "defer:"+exprStr(c, v.Call.Fun))
			}
			return
		case *ast.FuncLit:
			out = append(out, "func{")
			walk(v.Body)
			out = append(out, "}")
			return
		case *ast.SendStmt:
			out = append(out, "send:"+exprStr(c, v.Chan))
			ast.Inspect(v.Value, func(m ast.Node) bool { return true })
			return
		case *ast.UnaryExpr:
			if v.Op == token.ARROW {
				out = append(out, "recv:"+exprStr(c, v.X))
				return
			}
		case *ast.RangeStmt:
			out = append(out, "range:"+exprStr(c, v.X)+"{")
			walk(v.Body)
			out = append(out, "}")
			return
		case *ast.ForStmt:
			out = append(out, "for{")
			if v.Init != nil {
				walk(v.Init)
			}
			if v.Cond != nil {
				walk(v.Cond)
			}
			walk(v.Body)
			out = append(out, "}")
			return
		case *ast.SelectStmt:
			out = append(out, "select{")
			walk(v.Body)
			out = append(out, "}")
			return
		case *ast.BranchStmt:
			if v.Tok == token.BREAK || v.Tok == token.GOTO {
				lbl := ""
				if v.Label != nil {
					lbl = ":" + v.Label.Name
				}
				out = append(out, strings.ToLower(v.Tok.String())+lbl)
			}
			return
		case *ast.ReturnStmt:
			out = append(out, "return")
			for _, r := range v.Results {
				walk(r)
			}
			return
		case *ast.CallExpr:
			name := exprStr(c, v.Fun)
			if name == "verifTrace" {
				// event-trace hook (build tag verif; an empty function otherwise): instrumentation, not part of
				// the synchronisation skeleton – its arguments (e.g. a counter read for the log) are not descended into
				return
			}
			interesting := false
			switch {
			case name == "close":
				out = append(out, "close:"+exprStr(c, v.Args[0]))
				return
			case strings.HasSuffix(name, ".Lock"), strings.HasSuffix(name, ".Unlock"),
				strings.HasSuffix(name, ".RLock"), strings.HasSuffix(name, ".RUnlock"),
				strings.HasSuffix(name, ".Wait"), strings.HasSuffix(name, ".Done"), strings.HasSuffix(name, ".Add"),
				strings.HasPrefix(name, "atomic."):
				interesting = true
			case name == "writeOutput", strings.HasSuffix(name, ".Sample"), strings.HasSuffix(name, ".processLineSync"),
				strings.HasSuffix(name, ".Scan"), name == "make",
				strings.HasSuffix(name, ".close"), strings.HasSuffix(name, ".syncReaderToBatcher"),
				strings.HasSuffix(name, ".syncReaderToBatcherWithTimeFlush"), strings.HasSuffix(name, ".stopFileReading"),
				strings.HasSuffix(name, ".startFileReading"), strings.HasSuffix(name, ".incErrors"),
				strings.HasSuffix(name, ".setSourceCount"), strings.HasSuffix(name, ".incReadBytes"),
				strings.HasSuffix(name, ".BuildKey"), strings.HasSuffix(name, ".IgnoreMatch"),
				strings.HasSuffix(name, ".FindSubmatchIndex"):
				interesting = true
			}
			if interesting {
				if name == "make" {
					if len(v.Args) >= 1 {
						if _, isChan := v.Args[0].(*ast.ChanType); isChan {
							cap := "0"
							if len(v.Args) == 2 {
								cap = exprStr(c, v.Args[1])
							}
							out = append(out, "makechan:"+cap)
						}
					}
				} else if strings.HasPrefix(name, "atomic.") && len(v.Args) > 0 {
					out = append(out, name+":"+exprStr(c, v.Args[0]))
				} else {
					out = append(out, "call:"+name)
				}
			}
			// still descend into arguments / function expression for nested receives and literals
			for _, a := range v.Args {
				walk(a)
			}
			if fl, ok := v.Fun.(*ast.FuncLit); ok {
				walk(fl)
			}
			return
		}
		// generic descent in source order
		ast.Inspect(n, func(m ast.Node) bool {
			if m == nil || m == n {
				return true
			}
			walk(m)
			return false
		})
	}
	walk(body)
	return out
}

func init() {
	RegisterGen("Skeleton", func(c *Ctx) string {
		var sb strings.Builder
		sb.WriteString("namespace Rare.Gen.Skeleton\n\n")
		type anchor struct{ lean, file, fn string }
		for _, a := range []anchor{
			{"openFilesToChan", "pkg/extractor/batchers/fileBatcher.go", "OpenFilesToChan"},
			{"bufferChan", "pkg/extractor/batchers/fileBatcher.go", "bufferChan"},
			{"openReaderToChan", "pkg/extractor/batchers/readerBatcher.go", "OpenReaderToChan"},
			{"tailFilesToChan", "pkg/extractor/batchers/tailBatcher.go", "TailFilesToChan"},
			{"syncReaderToBatcher", "pkg/extractor/batchers/batcher.go", "Batcher.syncReaderToBatcher"},
			{"syncReaderToBatcherWithTimeFlush", "pkg/extractor/batchers/batcher.go", "Batcher.syncReaderToBatcherWithTimeFlush"},
			{"batcherClose", "pkg/extractor/batchers/batcher.go", "Batcher.close"},
			{"processLineSync", "pkg/extractor/extractor.go", "extractorInstance.processLineSync"},
			{"asyncWorker", "pkg/extractor/extractor.go", "Extractor.asyncWorker"},
			{"extractorNew", "pkg/extractor/extractor.go", "New"},
			{"runAggregationLoop", "cmd/helpers/updatingAggregator.go", "RunAggregationLoop"},
			{"objectPoolGet", "pkg/slicepool/objpool.go", "ObjectPool.Get"},
			{"objectPoolReturn", "pkg/slicepool/objpool.go", "ObjectPool.Return"},
		} {
			fd := c.Func(a.file, a.fn)
			c.Fingerprint(a.file, a.fn)
			if fd == nil || fd.Body == nil {
				sb.WriteString(untranslatable(a.lean))
				continue
			}
			fmt.Fprintf(&sb, "/-- sync skeleton of `%s` (%s) -/\ndef %s : List String := %s\n\n", a.fn, a.file, a.lean, leanStrList(c.skeletonOf(fd.Body)))
		}
		sb.WriteString("end Rare.Gen.Skeleton\n")
		return sb.String()
	})
}
