package main

import (
	"fmt"
	"go/ast"
	"go/token"
	"strconv"
	"strings"
)

// C09: the state machines of the template parser, regenerated from /repo into lean/Rare/Gen/C09.lean.
//
//   - `splitTokenizedArguments` (pkg/expressions/argSplitter.go): the initial state, the WHOLE body of the
//     rune loop (every condition of the if / else-if chain and every statement of every branch) and the
//     post-loop flush are translated statement by statement into `init`, `step`, `finish` over a record
//     with the function's own local variables; `unicode.IsSpace` stays a parameter.
//   - `Compile` (keyBuilder.go): the branch conditions of its rune loop, in order, as Boolean functions of
//     (r, i, len(runes), inStatement) plus the counter updates of each branch, the three conditions on
//     `len(args)`, and the post-loop guards.
//   - `unescape`: the switch table; `stageSimpleVariable`: the integer parser it calls and the look-up
//     of each branch; errors.go: the sentinel messages and the format of DetailedError.Error.
//
// Props/C09.lean proves the hand model (Model/Expr/Core.lean) equal to these definitions for all inputs
// (`splitter_matches_source`, `scanner_matches_source`, …), so a changed branch, condition, constant or
// statement order in /repo breaks a theorem.  Anything that does not match the expected shape exactly is
// emitted as `def <name>_untranslatable : Unit := ()`.

type c09tr struct {
	c   *Ctx
	ok  bool
	why string
	// identifiers of the Go function -> Lean field of the state record `s`
	fields map[string]string
	rune_  string // name of the loop's rune variable
}

func (t *c09tr) fail(why string) string {
	if t.ok {
		t.ok = false
		t.why = why
	}
	return "false"
}

func c09Char(lit *ast.BasicLit) (string, bool) {
	if lit.Kind != token.CHAR {
		return "", false
	}
	s, err := strconv.Unquote(lit.Value)
	if err != nil || len([]rune(s)) != 1 {
		return "", false
	}
	return fmt.Sprintf("(Char.ofNat %d)", []rune(s)[0]), true
}

// a rune-valued expression: the loop variable or a character literal
func (t *c09tr) runeExpr(e ast.Expr) string {
	switch v := e.(type) {
	case *ast.Ident:
		if v.Name == t.rune_ {
			return "r"
		}
	case *ast.BasicLit:
		if s, ok := c09Char(v); ok {
			return s
		}
	case *ast.ParenExpr:
		return t.runeExpr(v.X)
	}
	return t.fail("rune expression " + t.c.Print(e))
}

func c09IsInt(e ast.Expr, want string) bool {
	b, ok := e.(*ast.BasicLit)
	return ok && b.Kind == token.INT && b.Value == want
}

// a Boolean condition over the state and the current rune
func (t *c09tr) cond(e ast.Expr) string {
	switch v := e.(type) {
	case *ast.ParenExpr:
		return "(" + t.cond(v.X) + ")"
	case *ast.Ident:
		if f, ok := t.fields[v.Name]; ok && (f == "quoted" || f == "escaped") {
			return "s." + f
		}
	case *ast.UnaryExpr:
		if v.Op == token.NOT {
			return "(!" + t.cond(v.X) + ")"
		}
	case *ast.CallExpr:
		if t.c.Print(v.Fun) == "unicode.IsSpace" && len(v.Args) == 1 {
			return "(isSpace " + t.runeExpr(v.Args[0]) + ")"
		}
	case *ast.BinaryExpr:
		switch v.Op {
		case token.LAND:
			return "(" + t.cond(v.X) + " && " + t.cond(v.Y) + ")"
		case token.LOR:
			return "(" + t.cond(v.X) + " || " + t.cond(v.Y) + ")"
		case token.EQL, token.NEQ, token.GTR, token.LSS, token.GEQ, token.LEQ:
			// sb.Len() <op> 0
			if call, ok := v.X.(*ast.CallExpr); ok && t.c.Print(call.Fun) == "sb.Len" && len(call.Args) == 0 && c09IsInt(v.Y, "0") {
				switch v.Op {
				case token.GTR, token.NEQ:
					return "(!s.sb.isEmpty)"
				case token.EQL, token.LEQ:
					return "s.sb.isEmpty"
				}
				return t.fail("sb.Len() comparison " + t.c.Print(e))
			}
			// <int field> <op> <int literal>
			if id, ok := v.X.(*ast.Ident); ok {
				if f, ok := t.fields[id.Name]; ok && f == "tokenDepth" {
					if lit, ok := v.Y.(*ast.BasicLit); ok && lit.Kind == token.INT {
						return fmt.Sprintf("(decide (s.tokenDepth %s (%s : Int)))", c09Op(v.Op), lit.Value)
					}
				}
			}
			// rune == 'c'
			if v.Op == token.EQL || v.Op == token.NEQ {
				a, b := t.runeExpr(v.X), t.runeExpr(v.Y)
				if v.Op == token.EQL {
					return "(" + a + " == " + b + ")"
				}
				return "(" + a + " != " + b + ")"
			}
		}
	}
	return t.fail("condition " + t.c.Print(e))
}

func c09Op(op token.Token) string {
	switch op {
	case token.EQL:
		return "="
	case token.NEQ:
		return "≠"
	case token.GTR:
		return ">"
	case token.LSS:
		return "<"
	case token.GEQ:
		return "≥"
	case token.LEQ:
		return "≤"
	}
	return "?"
}

// one statement as a state update `S → S` applied to the variable `s`; returns the Lean term for the new state
func (t *c09tr) stmt(st ast.Stmt) string {
	switch v := st.(type) {
	case *ast.AssignStmt:
		if len(v.Lhs) == 1 && len(v.Rhs) == 1 && v.Tok == token.ASSIGN {
			if id, ok := v.Lhs[0].(*ast.Ident); ok {
				f := t.fields[id.Name]
				if f == "quoted" || f == "escaped" {
					if b, ok := v.Rhs[0].(*ast.Ident); ok && (b.Name == "true" || b.Name == "false") {
						return fmt.Sprintf("{ s with %s := %s }", f, b.Name)
					}
				}
				if f == "args" { // args = append(args, sb.String())
					if call, ok := v.Rhs[0].(*ast.CallExpr); ok && t.c.Print(call.Fun) == "append" && len(call.Args) == 2 &&
						t.c.Print(call.Args[0]) == id.Name && t.c.Print(call.Args[1]) == "sb.String()" {
						return "{ s with args := s.args ++ [s.sb] }"
					}
				}
			}
		}
	case *ast.IncDecStmt:
		if id, ok := v.X.(*ast.Ident); ok && t.fields[id.Name] == "tokenDepth" {
			if v.Tok == token.INC {
				return "{ s with tokenDepth := s.tokenDepth + 1 }"
			}
			return "{ s with tokenDepth := s.tokenDepth - 1 }"
		}
	case *ast.ExprStmt:
		if call, ok := v.X.(*ast.CallExpr); ok {
			switch t.c.Print(call.Fun) {
			case "sb.WriteRune":
				if len(call.Args) == 1 {
					return "{ s with sb := s.sb ++ [" + t.runeExpr(call.Args[0]) + "] }"
				}
			case "sb.Reset":
				if len(call.Args) == 0 {
					return "{ s with sb := [] }"
				}
			}
		}
	case *ast.IfStmt:
		if v.Init == nil {
			return t.ifChain(v)
		}
	}
	t.fail("statement " + t.c.Print(st))
	return "s"
}

// a block: statements applied in order
func (t *c09tr) block(list []ast.Stmt) string {
	if len(list) == 0 {
		return "s"
	}
	if len(list) == 1 {
		return t.stmt(list[0])
	}
	var sb strings.Builder
	sb.WriteString("(")
	for _, st := range list {
		sb.WriteString("let s : S := " + t.stmt(st) + "; ")
	}
	sb.WriteString("s)")
	return sb.String()
}

func (t *c09tr) ifChain(v *ast.IfStmt) string {
	c := t.cond(v.Cond)
	then := t.block(v.Body.List)
	els := "s"
	switch e := v.Else.(type) {
	case nil:
	case *ast.IfStmt:
		if e.Init != nil {
			t.fail("if with init")
		}
		els = t.ifChain(e)
	case *ast.BlockStmt:
		els = t.block(e.List)
	default:
		t.fail("else shape")
	}
	return fmt.Sprintf("(if %s then %s\n    else %s)", c, then, els)
}

func c09Splitter(c *Ctx, sb *strings.Builder) {
	const file = "pkg/expressions/argSplitter.go"
	c.Fingerprint(file, "splitTokenizedArguments")
	fd := c.Func(file, "splitTokenizedArguments")
	t := &c09tr{c: c, ok: true, fields: map[string]string{}}
	var initLine, stepBody, finishBody string
	func() {
		defer func() {
			if r := recover(); r != nil {
				t.fail(fmt.Sprint("panic: ", r))
			}
		}()
		if fd == nil || fd.Body == nil {
			t.fail("function not found")
			return
		}
		// expected: args := make([]string, 0); var sb strings.Builder; <bool/int inits>; for _, r := range s {if-chain}; if sb.Len() > 0 {…}; return args
		inits := map[string]string{}
		var loop *ast.RangeStmt
		var after []ast.Stmt
		for _, st := range fd.Body.List {
			if loop != nil {
				after = append(after, st)
				continue
			}
			switch v := st.(type) {
			case *ast.AssignStmt:
				if v.Tok != token.DEFINE || len(v.Lhs) != 1 || len(v.Rhs) != 1 {
					t.fail("init " + c.Print(st))
					return
				}
				name := v.Lhs[0].(*ast.Ident).Name
				switch r := v.Rhs[0].(type) {
				case *ast.CallExpr: // make([]string, 0)
					if c.Print(r) != "make([]string, 0)" {
						t.fail("init " + c.Print(st))
						return
					}
					t.fields[name] = "args"
					inits["args"] = "[]"
				case *ast.BasicLit:
					if r.Kind != token.INT {
						t.fail("init " + c.Print(st))
						return
					}
					t.fields[name] = "tokenDepth"
					inits["tokenDepth"] = r.Value
				case *ast.Ident:
					if r.Name != "true" && r.Name != "false" {
						t.fail("init " + c.Print(st))
						return
					}
					switch name {
					case "quoted", "escaped":
						t.fields[name] = name
						inits[name] = r.Name
					default:
						t.fail("unknown flag " + name)
						return
					}
				default:
					t.fail("init " + c.Print(st))
					return
				}
			case *ast.DeclStmt:
				if c.Print(st) != "var sb strings.Builder" {
					t.fail("decl " + c.Print(st))
					return
				}
				inits["sb"] = "[]"
			case *ast.RangeStmt:
				loop = v
			default:
				t.fail("statement before the loop: " + c.Print(st))
				return
			}
		}
		for _, f := range []string{"args", "sb", "tokenDepth", "quoted", "escaped"} {
			if _, ok := inits[f]; !ok {
				t.fail("no initial value of " + f)
				return
			}
		}
		if loop == nil || loop.Value == nil || c.Print(loop.Key) != "_" || c.Print(loop.X) != fd.Type.Params.List[0].Names[0].Name {
			t.fail("loop shape")
			return
		}
		t.rune_ = loop.Value.(*ast.Ident).Name
		initLine = fmt.Sprintf("⟨%s, %s, %s, %s, %s⟩", inits["args"], inits["sb"], inits["tokenDepth"], inits["quoted"], inits["escaped"])
		stepBody = t.block(loop.Body.List)
		if len(after) != 2 || c.Print(after[1]) != "return args" {
			t.fail("post-loop shape")
			return
		}
		post, ok := after[0].(*ast.IfStmt)
		if !ok || post.Init != nil {
			t.fail("post-loop shape")
			return
		}
		finishBody = t.ifChain(post)
	}()
	if !t.ok {
		fmt.Fprintf(sb, "-- splitTokenizedArguments: %s\n", strings.ReplaceAll(t.why, "\n", " "))
		sb.WriteString(untranslatable("splitter"))
		return
	}
	sb.WriteString(`/-- the local variables of ` + "`splitTokenizedArguments`" + ` (args, sb, tokenDepth, quoted, escaped) -/
structure S where
  args : List (List Char)
  sb : List Char
  tokenDepth : Int
  quoted : Bool
  escaped : Bool

`)
	fmt.Fprintf(sb, "/-- the declarations before the loop -/\ndef init : S := %s\n\n", initLine)
	fmt.Fprintf(sb, "/-- the body of `for _, r := range s`, statement by statement; `isSpace` = `unicode.IsSpace` -/\ndef step (isSpace : Char → Bool) (s : S) (r : Char) : S :=\n  %s\n\n", stepBody)
	fmt.Fprintf(sb, "/-- the statement between the loop and `return args` -/\ndef finish (s : S) : S :=\n  %s\n\n", finishBody)
	sb.WriteString("def split (isSpace : Char → Bool) (t : List Char) : List (List Char) := (finish (t.foldl (step isSpace) init)).args\n\n")
}

// ---- Compile: the skeleton of the rune loop

// scanner conditions over r, i, n (= len(runes)), inStatement
func (t *c09tr) scanCond(e ast.Expr) string {
	switch v := e.(type) {
	case *ast.ParenExpr:
		return "(" + t.scanCond(v.X) + ")"
	case *ast.BinaryExpr:
		switch v.Op {
		case token.LAND:
			return "(" + t.scanCond(v.X) + " && " + t.scanCond(v.Y) + ")"
		case token.LOR:
			return "(" + t.scanCond(v.X) + " || " + t.scanCond(v.Y) + ")"
		case token.EQL, token.NEQ, token.GTR, token.LSS, token.GEQ, token.LEQ:
			if id, ok := v.X.(*ast.Ident); ok && id.Name == "r" {
				if lit, ok := v.Y.(*ast.BasicLit); ok {
					if ch, ok := c09Char(lit); ok && (v.Op == token.EQL || v.Op == token.NEQ) {
						if v.Op == token.EQL {
							return "(r == " + ch + ")"
						}
						return "(r != " + ch + ")"
					}
				}
			}
			return "(decide (" + t.scanInt(v.X) + " " + c09Op(v.Op) + " " + t.scanInt(v.Y) + "))"
		}
	}
	return t.fail("scanner condition " + t.c.Print(e))
}

func (t *c09tr) scanInt(e ast.Expr) string {
	switch v := e.(type) {
	case *ast.ParenExpr:
		return "(" + t.scanInt(v.X) + ")"
	case *ast.Ident:
		switch v.Name {
		case "i":
			return "i"
		case "inStatement":
			return "inStatement"
		}
	case *ast.BasicLit:
		if v.Kind == token.INT {
			return "(" + v.Value + " : Int)"
		}
	case *ast.CallExpr:
		switch t.c.Print(v) {
		case "len(runes)":
			return "n"
		case "len(args)":
			return "nargs"
		}
	case *ast.BinaryExpr:
		if v.Op == token.ADD {
			return "(" + t.scanInt(v.X) + " + " + t.scanInt(v.Y) + ")"
		}
		if v.Op == token.SUB {
			return "(" + t.scanInt(v.X) + " - " + t.scanInt(v.Y) + ")"
		}
	}
	return t.fail("scanner integer " + t.c.Print(e))
}

func c09Scanner(c *Ctx, sb *strings.Builder) {
	const file = "pkg/expressions/keyBuilder.go"
	for _, fn := range []string{"KeyBuilder.Compile", "CompiledKeyBuilder.optimize", "CompiledKeyBuilder.BuildKey", "CompiledKeyBuilder.joinStages", "unescape"} {
		c.Fingerprint(file, fn)
	}
	fd := c.Func(file, "KeyBuilder.Compile")
	t := &c09tr{c: c, ok: true}
	var conds []string
	var counter []string // the inStatement update of each branch as a Lean term over inStatement
	var argConds []string
	var postConds []string
	var loopHeader string
	func() {
		defer func() {
			if r := recover(); r != nil {
				t.fail(fmt.Sprint("panic: ", r))
			}
		}()
		if fd == nil || fd.Body == nil {
			t.fail("function not found")
			return
		}
		var loop *ast.ForStmt
		var after []ast.Stmt
		for _, st := range fd.Body.List {
			if loop != nil {
				after = append(after, st)
			} else if f, ok := st.(*ast.ForStmt); ok {
				loop = f
			}
		}
		if loop == nil {
			t.fail("no for loop")
			return
		}
		loopHeader = c.Print(loop.Init) + "; " + c.Print(loop.Cond) + "; " + c.Print(loop.Post)
		// body: r := runes[i]; if-chain
		if len(loop.Body.List) != 2 || c.Print(loop.Body.List[0]) != "r := runes[i]" {
			t.fail("loop body shape")
			return
		}
		is, ok := loop.Body.List[1].(*ast.IfStmt)
		if !ok {
			t.fail("loop body shape")
			return
		}
		// counter updates: the IncDec statements on inStatement / i directly in the branch body, in order
		for is != nil {
			conds = append(conds, t.scanCond(is.Cond))
			counter = append(counter, c09Counters(c, is.Body.List))
			// the branch that closes a statement carries the three-way test on len(args)
			ast.Inspect(is.Body, func(n ast.Node) bool {
				if inner, ok := n.(*ast.IfStmt); ok && strings.Contains(c.Print(inner.Cond), "len(args)") && len(argConds) == 0 {
					for cur := inner; cur != nil; {
						argConds = append(argConds, t.scanCond(cur.Cond))
						if nx, ok := cur.Else.(*ast.IfStmt); ok {
							cur = nx
						} else {
							cur = nil
						}
					}
					return false
				}
				return true
			})
			switch e := is.Else.(type) {
			case *ast.IfStmt:
				is = e
			case *ast.BlockStmt:
				counter = append(counter, c09Counters(c, e.List))
				is = nil
			default:
				is = nil
			}
		}
		// after the loop: `if inStatement != 0 {…}`, `if sb.Len() > 0 {…}`, `if s.autoOptimize {…}`, `if !errs.empty() {…}`
		for _, st := range after {
			if v, ok := st.(*ast.IfStmt); ok {
				postConds = append(postConds, c.Print(v.Cond))
			}
		}
	}()
	if !t.ok || len(conds) == 0 {
		fmt.Fprintf(sb, "-- Compile: %s\n", strings.ReplaceAll(t.why, "\n", " "))
		sb.WriteString(untranslatable("scanner"))
		return
	}
	fmt.Fprintf(sb, "/-- `Compile`: the loop header -/\ndef scanLoop : String := %s\n\n", leanStr(loopHeader))
	fmt.Fprintf(sb, "/-- `Compile`: the conditions of the if / else-if chain of the rune loop, in order (`n` = `len(runes)`) -/\ndef scanConds (r : Char) (i n inStatement : Int) : List Bool :=\n  [%s]\n\n", strings.Join(conds, ",\n   "))
	fmt.Fprintf(sb, "/-- `Compile`: the `i++` / `inStatement++` / `inStatement--` statements at the top level of each branch (the final `else` last) -/\ndef scanCounters : List (List String) := [%s]\n\n", strings.Join(counter, ", "))
	fmt.Fprintf(sb, "/-- `Compile`: the tests on `len(args)` when a statement closes, in order -/\ndef argConds (nargs : Int) : List Bool := [%s]\n\n", strings.Join(argConds, ", "))
	fmt.Fprintf(sb, "/-- `Compile`: the conditions of the `if` statements after the loop, in order -/\ndef postConds : List String := %s\n\n", leanStrList(postConds))
}

func c09Counters(c *Ctx, list []ast.Stmt) string {
	var out []string
	for _, st := range list {
		if v, ok := st.(*ast.IncDecStmt); ok {
			out = append(out, c.Print(v))
		}
	}
	return leanStrList(out)
}

// ---- unescape, stageSimpleVariable, errors.go

func c09Small(c *Ctx, sb *strings.Builder) {
	// unescape: switch r { case 'n': return '\n' … }; return r
	okU := false
	func() {
		defer func() { recover() }()
		fd := c.Func("pkg/expressions/keyBuilder.go", "unescape")
		if fd == nil || len(fd.Body.List) != 2 || c.Print(fd.Body.List[1]) != "return r" {
			return
		}
		sw, ok := fd.Body.List[0].(*ast.SwitchStmt)
		if !ok || c.Print(sw.Tag) != "r" {
			return
		}
		var pairs []string
		for _, cc := range sw.Body.List {
			cl := cc.(*ast.CaseClause)
			if len(cl.List) != 1 || len(cl.Body) != 1 {
				return
			}
			from, ok1 := c09Char(cl.List[0].(*ast.BasicLit))
			ret, ok2 := cl.Body[0].(*ast.ReturnStmt)
			if !ok1 || !ok2 || len(ret.Results) != 1 {
				return
			}
			to, ok3 := c09Char(ret.Results[0].(*ast.BasicLit))
			if !ok3 {
				return
			}
			pairs = append(pairs, "("+from+", "+to+")")
		}
		fmt.Fprintf(sb, "/-- `unescape`: the cases of its switch (anything else is returned unchanged) -/\ndef unescapeTable : List (Char × Char) := [%s]\n\n", strings.Join(pairs, ", "))
		sb.WriteString("def unescape (c : Char) : Char := match unescapeTable.find? (·.1 == c) with | some p => p.2 | none => c\n\n")
		okU = true
	}()
	if !okU {
		sb.WriteString(untranslatable("unescape") + "\n")
	}

	// stageSimpleVariable: `index, err := strconv.Atoi(s)`; `if err != nil { GetKey(s) }`; GetMatch(index)
	okV := false
	func() {
		defer func() { recover() }()
		const file = "pkg/expressions/stage.go"
		c.Fingerprint(file, "stageSimpleVariable")
		fd := c.Func(file, "stageSimpleVariable")
		if fd == nil || len(fd.Body.List) != 3 {
			return
		}
		as, ok := fd.Body.List[0].(*ast.AssignStmt)
		if !ok || len(as.Rhs) != 1 {
			return
		}
		parse := c.Print(as.Rhs[0])
		is, ok := fd.Body.List[1].(*ast.IfStmt)
		if !ok {
			return
		}
		var calls []string
		collect := func(n ast.Node) {
			ast.Inspect(n, func(m ast.Node) bool {
				if call, ok := m.(*ast.CallExpr); ok && strings.HasPrefix(c.Print(call.Fun), "context.") {
					calls = append(calls, c.Print(call))
				}
				return true
			})
		}
		collect(is.Body)
		collect(fd.Body.List[2])
		fmt.Fprintf(sb, "/-- `stageSimpleVariable`: the parse, the failure test, the look-up when it fails, the look-up when it succeeds -/\ndef simpleVariable : List String := %s\n\n",
			leanStrList(append([]string{parse, c.Print(is.Cond)}, calls...)))
		okV = true
	}()
	if !okV {
		sb.WriteString(untranslatable("simpleVariable") + "\n")
	}

	// errors.go: sentinel messages, DetailedError format, the header/indent of the multi-error rendering
	const efile = "pkg/expressions/errors.go"
	for _, fn := range []string{"DetailedError.Error", "CompilerErrors.Error", "CompilerErrors.Unwrap", "CompilerErrors.Is", "CompilerErrors.add", "CompilerErrors.inherit"} {
		c.Fingerprint(efile, fn)
	}
	for _, v := range []struct{ goName, leanName string }{{"ErrorUnterminated", "msgUnterminated"}, {"ErrorEmptyStatement", "msgEmptyStatement"}, {"ErrorMissingFunction", "msgMissingFunction"}} {
		okE := false
		if call, ok := c.Var(efile, v.goName).(*ast.CallExpr); ok && c.Print(call.Fun) == "errors.New" && len(call.Args) == 1 {
			if s, ok := StringLit(call.Args[0]); ok {
				fmt.Fprintf(sb, "def %s : String := %s\n", v.leanName, leanStr(s))
				okE = true
			}
		}
		if !okE {
			sb.WriteString(untranslatable(v.leanName))
		}
	}
	okF := false
	func() {
		defer func() { recover() }()
		fd := c.Func(efile, "DetailedError.Error")
		ret := fd.Body.List[0].(*ast.ReturnStmt)
		call := ret.Results[0].(*ast.CallExpr)
		if c.Print(call.Fun) != "fmt.Sprintf" {
			return
		}
		f, ok := StringLit(call.Args[0])
		if !ok {
			return
		}
		var args []string
		for _, a := range call.Args[1:] {
			args = append(args, c.Print(a))
		}
		fmt.Fprintf(sb, "/-- `DetailedError.Error`: format and arguments -/\ndef detailedFormat : String := %s\ndef detailedArgs : List String := %s\n", leanStr(f), leanStrList(args))
		okF = true
	}()
	if !okF {
		sb.WriteString(untranslatable("detailedFormat"))
	}
	okM := false
	func() {
		defer func() { recover() }()
		fd := c.Func(efile, "CompilerErrors.Error")
		var lits []string
		ast.Inspect(fd.Body, func(n ast.Node) bool {
			if call, ok := n.(*ast.CallExpr); ok && c.Print(call.Fun) == "sb.WriteString" && len(call.Args) == 1 {
				if s, ok := StringLit(call.Args[0]); ok {
					if _, isLit := call.Args[0].(*ast.BasicLit); isLit {
						lits = append(lits, s)
					} else {
						lits = append(lits, "<"+c.Print(call.Args[0])+">")
					}
				} else {
					lits = append(lits, "<"+c.Print(call.Args[0])+">")
				}
			}
			return true
		})
		first, _ := fd.Body.List[0].(*ast.IfStmt)
		if first == nil {
			return
		}
		fmt.Fprintf(sb, "/-- `CompilerErrors.Error`: the single-error shortcut's condition and the pieces written otherwise, in order -/\ndef multiShortcut : String := %s\ndef multiPieces : List String := %s\n",
			leanStr(c.Print(first.Cond)), leanStrList(lits))
		okM = true
	}()
	if !okM {
		sb.WriteString(untranslatable("multiPieces"))
	}
	sb.WriteString("\n")
}

func init() {
	RegisterGen("C09", func(c *Ctx) string {
		var sb strings.Builder
		sb.WriteString("namespace Rare.Gen.C09\n\n")
		c09Splitter(c, &sb)
		c09Scanner(c, &sb)
		c09Small(c, &sb)
		sb.WriteString("end Rare.Gen.C09\n")
		return sb.String()
	})
}
