package main

import (
	"fmt"
	"go/ast"
	"go/token"
	"os"
	"path/filepath"
	"sort"
	"strings"
)

// C10 (round 4b): what the optimiser's decision and the stale-independence of pooled contexts rest on.
//
//   * monitorContext.GetMatch/GetKey/InStaticAnalysis and EvalStaticStage's `ok` as Lean functions;
//   * every type of /repo with GetMatch(int) string + GetKey(string) string, whether it wraps another context, and
//     what its InStaticAnalysis() answers (constant / forwarded to the wrapped context / absent);
//   * GetMatch / GetKey of the two wrapping contexts (subContext, lazySubContext) as functions into MatchRes / KeyRes;
//   * every `<x>Pool.Get()` in pkg/expressions: enclosing function, object type and its fields, what `newer` fixes,
//     whether `defer <pool>.Return(obj)` follows and which fields are overwritten directly afterwards;
//   * the closure of smartDateParseWrapper's cache mode, statement by statement, as a CProg (Model/C10Src.lean);
//   * the context touch of {time now|live|delta};
//   * control skeletons (c06Ctl) of EvalStaticStage, InStaticAnalysis, optimize, BuildKey, joinStages,
//     keyBuilderToFunction, subContext.Eval.

func c10txt(c *Ctx, n ast.Node) string { return strings.Join(strings.Fields(c.Print(n)), "") }

// c10Methods: receiver type name -> method name -> decl, for one file.
func c10Methods(f *ast.File) map[string]map[string]*ast.FuncDecl {
	out := map[string]map[string]*ast.FuncDecl{}
	for _, d := range f.Decls {
		fd, ok := d.(*ast.FuncDecl)
		if !ok || fd.Recv == nil || len(fd.Recv.List) == 0 {
			continue
		}
		t := fd.Recv.List[0].Type
		if st, ok := t.(*ast.StarExpr); ok {
			t = st.X
		}
		if ix, ok := t.(*ast.IndexExpr); ok {
			t = ix.X
		}
		id, ok := t.(*ast.Ident)
		if !ok {
			continue
		}
		if out[id.Name] == nil {
			out[id.Name] = map[string]*ast.FuncDecl{}
		}
		out[id.Name][fd.Name.Name] = fd
	}
	return out
}

func c10StructOf(f *ast.File, name string) *ast.StructType {
	for _, d := range f.Decls {
		gd, ok := d.(*ast.GenDecl)
		if !ok {
			continue
		}
		for _, s := range gd.Specs {
			ts, ok := s.(*ast.TypeSpec)
			if ok && ts.Name.Name == name {
				if st, ok := ts.Type.(*ast.StructType); ok {
					return st
				}
			}
		}
	}
	return nil
}

func c10FieldNames(st *ast.StructType) []string {
	var out []string
	if st == nil {
		return out
	}
	for _, f := range st.Fields.List {
		for _, n := range f.Names {
			out = append(out, n.Name)
		}
	}
	return out
}

// field of type KeyBuilderContext / expressions.KeyBuilderContext ("" if none)
func c10WrappedField(c *Ctx, st *ast.StructType) string {
	if st == nil {
		return ""
	}
	for _, f := range st.Fields.List {
		t := c10txt(c, f.Type)
		if (t == "KeyBuilderContext" || t == "expressions.KeyBuilderContext") && len(f.Names) > 0 {
			return f.Names[0].Name
		}
	}
	return ""
}

// signature `(<int>) string` / `(<string>) string`
func c10SigIs(c *Ctx, fd *ast.FuncDecl, param, result string) bool {
	if fd == nil || fd.Type.Params == nil || len(fd.Type.Params.List) != 1 || fd.Type.Results == nil || len(fd.Type.Results.List) != 1 {
		return false
	}
	return c10txt(c, fd.Type.Params.List[0].Type) == param && c10txt(c, fd.Type.Results.List[0].Type) == result
}

func c10Recv(fd *ast.FuncDecl) string {
	if fd.Recv != nil && len(fd.Recv.List) > 0 && len(fd.Recv.List[0].Names) > 0 {
		return fd.Recv.List[0].Names[0].Name
	}
	return "_"
}

func c10Param(fd *ast.FuncDecl) string {
	if fd.Type.Params != nil && len(fd.Type.Params.List) == 1 && len(fd.Type.Params.List[0].Names) == 1 {
		return fd.Type.Params.List[0].Names[0].Name
	}
	return "_"
}

// ---- monitorContext

// body `s.keyLookups++ ; return ""` -> "(keyLookups + 1, [])"
func c10MonitorLookup(c *Ctx, fd *ast.FuncDecl) (string, bool) {
	if fd == nil || fd.Body == nil {
		return "", false
	}
	recv := c10Recv(fd)
	n := "keyLookups"
	for i, s := range fd.Body.List {
		switch v := s.(type) {
		case *ast.IncDecStmt:
			if c10txt(c, v.X) != recv+".keyLookups" {
				return "", false
			}
			if v.Tok == token.INC {
				n = "(" + n + " + 1)"
			} else {
				n = "(" + n + " - 1)"
			}
		case *ast.AssignStmt:
			if len(v.Lhs) != 1 || len(v.Rhs) != 1 || c10txt(c, v.Lhs[0]) != recv+".keyLookups" || v.Tok != token.ADD_ASSIGN {
				return "", false
			}
			k, ok := IntLit(v.Rhs[0])
			if !ok || k < 0 {
				return "", false
			}
			n = fmt.Sprintf("(%s + %d)", n, k)
		case *ast.ReturnStmt:
			if i != len(fd.Body.List)-1 || len(v.Results) != 1 {
				return "", false
			}
			lit, ok := StringLit(v.Results[0])
			if !ok {
				return "", false
			}
			return fmt.Sprintf("(%s, %s)", n, c10Bytes(lit)), true
		default:
			return "", false
		}
	}
	return "", false
}

func c10Bytes(s string) string {
	if s == "" {
		return "[]"
	}
	parts := make([]string, len(s))
	for i := 0; i < len(s); i++ {
		parts[i] = fmt.Sprint(s[i])
	}
	return "[" + strings.Join(parts, ", ") + "]"
}

// ---- InStaticAnalysis() of a type

func c10StaticAnswer(c *Ctx, fd *ast.FuncDecl, wrapped string) string {
	if fd == nil {
		return ".absent"
	}
	if fd.Body == nil || len(fd.Body.List) != 1 {
		return ".other " + leanStr(c10txt(c, fd))
	}
	ret, ok := fd.Body.List[0].(*ast.ReturnStmt)
	if !ok || len(ret.Results) != 1 {
		return ".other " + leanStr(c10txt(c, fd.Body))
	}
	t := c10txt(c, ret.Results[0])
	recv := c10Recv(fd)
	switch {
	case t == "true":
		return ".const true"
	case t == "false":
		return ".const false"
	case wrapped != "" && (t == "InStaticAnalysis("+recv+"."+wrapped+")" || t == "expressions.InStaticAnalysis("+recv+"."+wrapped+")"):
		return ".forward"
	}
	return ".other " + leanStr(t)
}

// ---- GetMatch of a wrapping context: an if-chain of returns -> a Lean function into MatchRes

func c10MatchRes(c *Ctx, e ast.Expr, recv, idx, wrapped string) string {
	t := c10txt(c, e)
	if s, ok := StringLit(e); ok && s == "" {
		if _, isLit := e.(*ast.BasicLit); isLit {
			return ".empty"
		}
	}
	switch t {
	case recv + "." + wrapped + ".GetMatch(" + idx + ")":
		return ".parent " + idx
	case recv + ".vals[" + idx + "]":
		return ".val " + idx + ".toNat"
	case recv + ".args[" + idx + "](" + recv + "." + wrapped + ")":
		return ".arg " + idx + ".toNat"
	}
	return ".other " + leanStr(t)
}

// conditions over idx: `idx < 0`, `idx < len(s.vals)`, `idx >= len(s.args)` …; lenName is the Lean parameter
func c10IdxCond(c *Ctx, e ast.Expr, recv, idx string) (string, bool) {
	be, ok := e.(*ast.BinaryExpr)
	if !ok || c10txt(c, be.X) != idx {
		return "", false
	}
	var rhs string
	if n, ok := IntLit(be.Y); ok {
		rhs = fmt.Sprintf("(%d : Int)", n)
	} else {
		t := c10txt(c, be.Y)
		if t == "len("+recv+".vals)" || t == "len("+recv+".args)" {
			rhs = "(n : Int)"
		} else {
			return "", false
		}
	}
	op := map[token.Token]string{token.LSS: "<", token.LEQ: "≤", token.GTR: ">", token.GEQ: "≥", token.EQL: "=", token.NEQ: "≠"}[be.Op]
	if op == "" {
		return "", false
	}
	return fmt.Sprintf("decide (%s %s %s)", idx, op, rhs), true
}

func c10GetMatchFn(c *Ctx, fd *ast.FuncDecl, wrapped string) (string, bool) {
	if fd == nil || fd.Body == nil {
		return "", false
	}
	recv, idx := c10Recv(fd), c10Param(fd)
	if idx == "_" {
		return "", false
	}
	var sb strings.Builder
	for i, s := range fd.Body.List {
		switch v := s.(type) {
		case *ast.IfStmt:
			if v.Init != nil || v.Else != nil || len(v.Body.List) != 1 {
				return "", false
			}
			ret, ok := v.Body.List[0].(*ast.ReturnStmt)
			if !ok || len(ret.Results) != 1 {
				return "", false
			}
			cond, ok := c10IdxCond(c, v.Cond, recv, idx)
			if !ok {
				return "", false
			}
			fmt.Fprintf(&sb, "  if %s then %s else\n", cond, c10MatchRes(c, ret.Results[0], recv, idx, wrapped))
		case *ast.ReturnStmt:
			if i != len(fd.Body.List)-1 || len(v.Results) != 1 {
				return "", false
			}
			fmt.Fprintf(&sb, "  %s\n", c10MatchRes(c, v.Results[0], recv, idx, wrapped))
			return fmt.Sprintf("(n : Nat) (%s : Int) : MatchRes :=\n%s", idx, sb.String()), true
		default:
			return "", false
		}
	}
	return "", false
}

func c10GetKeyRes(c *Ctx, fd *ast.FuncDecl, wrapped string) string {
	if fd == nil || fd.Body == nil || len(fd.Body.List) != 1 {
		return ".other \"?\""
	}
	ret, ok := fd.Body.List[0].(*ast.ReturnStmt)
	if !ok || len(ret.Results) != 1 {
		return ".other " + leanStr(c10txt(c, fd.Body))
	}
	if c10txt(c, ret.Results[0]) == c10Recv(fd)+"."+wrapped+".GetKey("+c10Param(fd)+")" {
		return ".parent"
	}
	return ".other " + leanStr(c10txt(c, ret.Results[0]))
}

// ---- the cache closure as a CProg

func c10Cond(c *Ctx, e ast.Expr) string {
	switch c10txt(c, e) {
	case `strTime==""`:
		return ".strEmpty"
	case `liveFormat==""`:
		return ".liveEmpty"
	case "err!=nil":
		return ".errNonNil"
	case "strTime!=emptyTime":
		return ".strNeEmptyTime"
	case "InStaticAnalysis(context)":
		return ".inStatic"
	case "!constTime":
		return ".notConstTime"
	}
	return "(.other " + leanStr(c10txt(c, e)) + ")"
}

func c10Op(t string) (string, bool) {
	switch t {
	case "strTime:=dateStage(context)":
		return ".evalDate", true
	case "format:=&atomicFormat", "format=&atomicFormat":
		return ".cellAtomic", true
	case "format=&staticFormat", "format:=&staticFormat":
		return ".cellStatic", true
	case "liveFormat:=format.Load().(string)":
		return ".load", true
	case "varerrerror":
		return ".declErr", true
	case "liveFormat,err=dateparse.ParseFormat(strTime)":
		return ".detect", true
	case "format.Store(liveFormat)":
		return ".store", true
	case "val,err:=time.ParseInLocation(liveFormat,strTime,tz)":
		return ".parse", true
	}
	return "", false
}

func c10Prog(c *Ctx, list []ast.Stmt) string {
	if len(list) == 0 {
		return ".nil"
	}
	s, rest := list[0], list[1:]
	switch v := s.(type) {
	case *ast.IfStmt:
		if v.Init != nil || v.Else != nil {
			return "(.bad " + leanStr(c10txt(c, v)) + ")"
		}
		return fmt.Sprintf("(.ifS %s %s %s)", c10Cond(c, v.Cond), c10Prog(c, v.Body.List), c10Prog(c, rest))
	case *ast.ReturnStmt:
		if len(v.Results) == 1 {
			switch c10txt(c, v.Results[0]) {
			case "ErrorParsing":
				return ".retErr"
			case "f(val)":
				return ".retFmt"
			}
		}
		return "(.bad " + leanStr(c10txt(c, v)) + ")"
	default:
		t := c10txt(c, s)
		if ds, isDecl := s.(*ast.DeclStmt); isDecl { // without the comment in front of it (the declaration's Doc)
			if gd, isGen := ds.Decl.(*ast.GenDecl); isGen {
				cp := *gd
				cp.Doc = nil
				t = c10txt(c, &cp)
			}
		}
		op, ok := c10Op(t)
		if es, isExpr := s.(*ast.ExprStmt); isExpr && !ok { // `context.GetMatch(<int>)` as a statement: a touch
			if call, isCall := es.X.(*ast.CallExpr); isCall && c10txt(c, call.Fun) == "context.GetMatch" && len(call.Args) == 1 {
				if k, isInt := IntLit(call.Args[0]); isInt {
					op, ok = fmt.Sprintf("(.touch (%d))", k), true
				}
			}
		}
		if !ok {
			op = "(.other " + leanStr(t) + ")"
		}
		return fmt.Sprintf("(.op %s %s)", op, c10Prog(c, rest))
	}
}

// the clause of `switch strings.ToLower(format)` whose labels include "cache"
func c10CacheClause(c *Ctx, fd *ast.FuncDecl) *ast.CaseClause {
	var out *ast.CaseClause
	if fd == nil {
		return nil
	}
	ast.Inspect(fd, func(n ast.Node) bool {
		cc, ok := n.(*ast.CaseClause)
		if !ok {
			return true
		}
		for _, l := range cc.List {
			if s, ok := StringLit(l); ok && s == "cache" {
				out = cc
			}
		}
		return true
	})
	return out
}

// ---- pool sites

type c10Site struct {
	file, fn, pool, objType string
	typeFields, fixed       []string
	deferReturn             bool
	reset                   string
}

// pools declared as `<name> = slicepool.NewObjectPool[T](n)` or `NewObjectPoolEx(n, func() *T { return &T{f: …} })`
func c10PoolDecl(c *Ctx, e ast.Expr) (typ string, fixed []string, ok bool) {
	call, isCall := e.(*ast.CallExpr)
	if !isCall {
		return
	}
	switch fun := call.Fun.(type) {
	case *ast.IndexExpr:
		if strings.HasSuffix(c10txt(c, fun.X), "NewObjectPool") {
			return c10txt(c, fun.Index), nil, true
		}
	case *ast.SelectorExpr, *ast.Ident:
		if strings.HasSuffix(c10txt(c, fun), "NewObjectPoolEx") && len(call.Args) == 2 {
			fl, isLit := call.Args[1].(*ast.FuncLit)
			if !isLit || len(fl.Body.List) != 1 {
				return "", nil, false
			}
			ret, isRet := fl.Body.List[0].(*ast.ReturnStmt)
			if !isRet || len(ret.Results) != 1 {
				return "", nil, false
			}
			x := ret.Results[0]
			if u, isU := x.(*ast.UnaryExpr); isU && u.Op == token.AND {
				x = u.X
			}
			cl, isCl := x.(*ast.CompositeLit)
			if !isCl {
				return "", nil, false
			}
			for _, el := range cl.Elts {
				kv, isKV := el.(*ast.KeyValueExpr)
				if !isKV {
					return "", nil, false
				}
				fixed = append(fixed, c10txt(c, kv.Key))
			}
			return c10txt(c, cl.Type), fixed, true
		}
	}
	return
}

func c10PoolSites(c *Ctx, rel string) ([]c10Site, bool) {
	f := c.File(rel)
	if f == nil {
		return nil, false
	}
	// pool declarations anywhere in the file: name -> (type, fixed)
	type decl struct {
		typ   string
		fixed []string
	}
	decls := map[string]decl{}
	ast.Inspect(f, func(n ast.Node) bool {
		switch v := n.(type) {
		case *ast.ValueSpec:
			for i, nm := range v.Names {
				if i < len(v.Values) {
					if t, fx, ok := c10PoolDecl(c, v.Values[i]); ok {
						decls[nm.Name] = decl{t, fx}
					}
				}
			}
		case *ast.AssignStmt:
			if len(v.Lhs) == 1 && len(v.Rhs) == 1 {
				if t, fx, ok := c10PoolDecl(c, v.Rhs[0]); ok {
					decls[c10txt(c, v.Lhs[0])] = decl{t, fx}
				}
			}
		}
		return true
	})
	var sites []c10Site
	allOk := true
	for _, d := range f.Decls {
		fd, ok := d.(*ast.FuncDecl)
		if !ok || fd.Body == nil {
			continue
		}
		var visit func(list []ast.Stmt)
		visit = func(list []ast.Stmt) {
			for i, s := range list {
				as, ok := s.(*ast.AssignStmt)
				if ok && len(as.Lhs) == 1 && len(as.Rhs) == 1 {
					if call, isCall := as.Rhs[0].(*ast.CallExpr); isCall {
						if sel, isSel := call.Fun.(*ast.SelectorExpr); isSel && sel.Sel.Name == "Get" && len(call.Args) == 0 {
							pool := c10txt(c, sel.X)
							if dcl, known := decls[pool]; known {
								obj := c10txt(c, as.Lhs[0])
								site := c10Site{file: rel, fn: fd.Name.Name, pool: pool, objType: dcl.typ, fixed: dcl.fixed, reset: ".none"}
								site.typeFields = c10FieldNames(c10StructOf(f, dcl.typ))
								rest := list[i+1:]
								if len(rest) > 0 {
									if ds, isDefer := rest[0].(*ast.DeferStmt); isDefer && c10txt(c, ds.Call) == pool+".Return("+obj+")" {
										site.deferReturn = true
										rest = rest[1:]
									}
								}
								// reset: `*obj = T{…}` or a run of `obj.f = …`
								var fields []string
								full := false
								for _, r := range rest {
									ra, isAs := r.(*ast.AssignStmt)
									if !isAs || len(ra.Lhs) != 1 || ra.Tok != token.ASSIGN {
										break
									}
									l := c10txt(c, ra.Lhs[0])
									if l == "*"+obj {
										cl, isCl := ra.Rhs[0].(*ast.CompositeLit)
										if !isCl || c10txt(c, cl.Type) != dcl.typ {
											break
										}
										for _, el := range cl.Elts {
											if kv, isKV := el.(*ast.KeyValueExpr); isKV {
												fields = append(fields, c10txt(c, kv.Key))
											}
										}
										full = true
										break
									}
									if strings.HasPrefix(l, obj+".") && !strings.Contains(l[len(obj)+1:], ".") {
										fields = append(fields, l[len(obj)+1:])
										continue
									}
									break
								}
								if full {
									site.reset = ".full " + leanStrList(fields)
								} else if len(fields) > 0 {
									site.reset = ".fields " + leanStrList(fields)
								}
								sites = append(sites, site)
							}
						}
					}
				}
				// descend
				ast.Inspect(s, func(n ast.Node) bool {
					if n == s {
						return true
					}
					if b, isBlock := n.(*ast.BlockStmt); isBlock {
						visit(b.List)
						return false
					}
					if cc, isCase := n.(*ast.CaseClause); isCase {
						visit(cc.Body)
						return false
					}
					return true
				})
			}
		}
		visit(fd.Body.List)
	}
	// any other `.Get()` on something called …Pool that we did not resolve makes the list untrustworthy
	ast.Inspect(f, func(n ast.Node) bool {
		if call, ok := n.(*ast.CallExpr); ok {
			if sel, isSel := call.Fun.(*ast.SelectorExpr); isSel && sel.Sel.Name == "Get" && len(call.Args) == 0 {
				x := c10txt(c, sel.X)
				if strings.HasSuffix(strings.ToLower(x), "pool") {
					found := false
					for _, s := range sites {
						if s.pool == x {
							found = true
						}
					}
					if !found {
						allOk = false
					}
				}
			}
		}
		return true
	})
	return sites, allOk
}

// all non-test .go files below the given directories of the repo (relative paths, sorted)
func c10GoFiles(repo string, dirs []string) []string {
	var out []string
	for _, d := range dirs {
		filepath.Walk(filepath.Join(repo, d), func(p string, info os.FileInfo, err error) error {
			if err != nil || info.IsDir() {
				return nil
			}
			if strings.HasSuffix(p, ".go") && !strings.HasSuffix(p, "_test.go") {
				if rel, e := filepath.Rel(repo, p); e == nil {
					out = append(out, filepath.ToSlash(rel))
				}
			}
			return nil
		})
	}
	sort.Strings(out)
	return out
}

// first statement of the closure returned under `case "<label>":` of kfTimeParse: Some idx if it is `context.GetMatch(idx)`
func c10Touch(c *Ctx, fd *ast.FuncDecl, label string) string {
	res := "none"
	if fd == nil {
		return "none"
	}
	ast.Inspect(fd, func(n ast.Node) bool {
		cc, ok := n.(*ast.CaseClause)
		if !ok {
			return true
		}
		hit := false
		for _, l := range cc.List {
			if s, ok := StringLit(l); ok && s == label {
				hit = true
			}
		}
		if !hit {
			return true
		}
		for _, s := range cc.Body {
			ret, isRet := s.(*ast.ReturnStmt)
			if !isRet || len(ret.Results) < 1 {
				continue
			}
			fl, isLit := ret.Results[0].(*ast.FuncLit)
			if !isLit || len(fl.Body.List) == 0 {
				continue
			}
			if es, isExpr := fl.Body.List[0].(*ast.ExprStmt); isExpr {
				if call, isCall := es.X.(*ast.CallExpr); isCall && c10txt(c, call.Fun) == "context.GetMatch" && len(call.Args) == 1 {
					if k, ok := IntLit(call.Args[0]); ok {
						res = fmt.Sprintf("some (%d)", k)
					}
				}
			}
		}
		return false
	})
	return res
}

func init() {
	RegisterGen("C10", func(c *Ctx) string {
		var sb strings.Builder
		sb.WriteString("import Rare.Model.C10Src\nnamespace Rare.Gen.C10\nopen Rare Rare.Expr Rare.C10\n\n")
		const fAnalysis = "pkg/expressions/stageAnalysis.go"
		const fKB = "pkg/expressions/keyBuilder.go"
		const fRange = "pkg/expressions/stdlib/funcsRange.go"
		const fMath = "pkg/expressions/stdlib/funcsMath.go"
		const fStage = "pkg/expressions/funcfile/stage.go"
		const fTime = "pkg/expressions/stdlib/funcsTime.go"

		// ---- monitorContext / EvalStaticStage
		for _, m := range []struct{ lean, meth, argT string }{{"monitorGetMatch", "monitorContext.GetMatch", "Int"}, {"monitorGetKey", "monitorContext.GetKey", "Bytes"}} {
			fd := c.Func(fAnalysis, m.meth)
			c.Fingerprint(fAnalysis, m.meth)
			if body, ok := c10MonitorLookup(c, fd); ok {
				fmt.Fprintf(&sb, "/-- `%s` (%s): (keyLookups after, answer) -/\ndef %s (keyLookups : Nat) (_ : %s) : Nat × Bytes := %s\n\n", m.meth, fAnalysis, m.lean, m.argT, body)
			} else {
				sb.WriteString(untranslatable(m.lean))
			}
		}
		c.Fingerprint(fAnalysis, "EvalStaticStage")
		if fd := c.Func(fAnalysis, "EvalStaticStage"); fd != nil && fd.Body != nil {
			// `var monitor monitorContext` (zero value), `ok = (monitor.keyLookups == K)`
			okExpr := ""
			zeroInit := false
			for _, s := range fd.Body.List {
				if ds, isDecl := s.(*ast.DeclStmt); isDecl && c10txt(c, ds) == "varmonitormonitorContext" {
					zeroInit = true
				}
				if as, isAs := s.(*ast.AssignStmt); isAs && len(as.Lhs) == 1 && c10txt(c, as.Lhs[0]) == "ok" {
					e := as.Rhs[0]
					if p, isParen := e.(*ast.ParenExpr); isParen {
						e = p.X
					}
					if be, isBin := e.(*ast.BinaryExpr); isBin && c10txt(c, be.X) == "monitor.keyLookups" {
						if k, isInt := IntLit(be.Y); isInt && k >= 0 {
							switch be.Op {
							case token.EQL:
								okExpr = fmt.Sprintf("keyLookups == %d", k)
							case token.NEQ:
								okExpr = fmt.Sprintf("keyLookups != %d", k)
							case token.LEQ:
								okExpr = fmt.Sprintf("decide (keyLookups ≤ %d)", k)
							case token.LSS:
								okExpr = fmt.Sprintf("decide (keyLookups < %d)", k)
							}
						}
					}
				}
			}
			if okExpr != "" && zeroInit {
				fmt.Fprintf(&sb, "/-- `EvalStaticStage`: `var monitor monitorContext` -/\ndef evalStaticInit : Nat := 0\n\n/-- `EvalStaticStage`: `ok = …` -/\ndef evalStaticOk (keyLookups : Nat) : Bool := %s\n\n", okExpr)
			} else {
				sb.WriteString(untranslatable("evalStaticOk"))
			}
			fmt.Fprintf(&sb, "/-- control skeleton of `EvalStaticStage` -/\ndef evalStaticStageCtl : List String := %s\n\n", leanStrList(c.c06Ctl(fd.Body.List)))
		} else {
			sb.WriteString(untranslatable("evalStaticOk"))
		}

		// ---- expressions.InStaticAnalysis: `if aware, ok := context.(StaticAnalysisAware); ok { return aware.InStaticAnalysis() }; return <default>`
		c.Fingerprint(fAnalysis, "InStaticAnalysis")
		if fd := c.Func(fAnalysis, "InStaticAnalysis"); fd != nil && fd.Body != nil {
			toks := c.c06Ctl(fd.Body.List)
			fmt.Fprintf(&sb, "/-- control skeleton of `InStaticAnalysis` (%s) -/\ndef inStaticAnalysisCtl : List String := %s\n\n", fAnalysis, leanStrList(toks))
			dflt := ""
			if n := len(fd.Body.List); n > 0 {
				if ret, ok := fd.Body.List[n-1].(*ast.ReturnStmt); ok && len(ret.Results) == 1 {
					if t := c10txt(c, ret.Results[0]); t == "true" || t == "false" {
						dflt = t
					}
				}
			}
			if dflt != "" {
				fmt.Fprintf(&sb, "/-- what `InStaticAnalysis` answers for a context that is not `StaticAnalysisAware` -/\ndef inStaticDefault : Bool := %s\n\n", dflt)
			} else {
				sb.WriteString(untranslatable("inStaticDefault"))
			}
		} else {
			sb.WriteString(untranslatable("inStaticDefault"))
		}

		// ---- every string-valued context type of the repo
		var impls []string
		for _, rel := range c10GoFiles(c.Repo, []string{"pkg", "cmd"}) {
			f := c.File(rel)
			if f == nil {
				continue
			}
			meths := c10Methods(f)
			var names []string
			for t := range meths {
				names = append(names, t)
			}
			sort.Strings(names)
			for _, t := range names {
				m := meths[t]
				if !c10SigIs(c, m["GetMatch"], "int", "string") || !c10SigIs(c, m["GetKey"], "string", "string") {
					continue
				}
				st := c10StructOf(f, t)
				wrapped := c10WrappedField(c, st)
				impls = append(impls, fmt.Sprintf("⟨%s, %s, %s, %s⟩", leanStr(t), leanStr(rel), leanBool(wrapped != ""), c10StaticAnswer(c, m["InStaticAnalysis"], wrapped)))
			}
		}
		fmt.Fprintf(&sb, "/-- every type of pkg/ and cmd/ (non-test) with `GetMatch(int) string` and `GetKey(string) string` -/\ndef contextTypes : List CtxImpl := [\n  %s]\n\n", strings.Join(impls, ",\n  "))

		// ---- GetMatch / GetKey of the wrapping contexts
		for _, w := range []struct{ lean, file, typ string }{{"subContext", fRange, "subContext"}, {"lazySubContext", fStage, "lazySubContext"}} {
			f := c.File(w.file)
			c.Fingerprint(w.file, w.typ+".GetMatch")
			c.Fingerprint(w.file, w.typ+".GetKey")
			c.Fingerprint(w.file, w.typ+".InStaticAnalysis")
			if f == nil {
				sb.WriteString(untranslatable(w.lean + "GetMatch"))
				continue
			}
			wrapped := c10WrappedField(c, c10StructOf(f, w.typ))
			if fn, ok := c10GetMatchFn(c, c.Func(w.file, w.typ+".GetMatch"), wrapped); ok && wrapped != "" {
				fmt.Fprintf(&sb, "/-- `(*%s).GetMatch` (%s); `n` = `len(s.vals)` / `len(s.args)` -/\ndef %sGetMatch %s\n", w.typ, w.file, w.lean, fn)
			} else {
				sb.WriteString(untranslatable(w.lean + "GetMatch"))
			}
			fmt.Fprintf(&sb, "/-- `(*%s).GetKey` -/\ndef %sGetKey : KeyRes := %s\n\n", w.typ, w.lean, c10GetKeyRes(c, c.Func(w.file, w.typ+".GetKey"), wrapped))
		}
		// `vals [2]string`
		if st := c10StructOf(c.File(fRange), "subContext"); st != nil {
			n := int64(-1)
			for _, fl := range st.Fields.List {
				if len(fl.Names) == 1 && fl.Names[0].Name == "vals" {
					if at, ok := fl.Type.(*ast.ArrayType); ok && at.Len != nil {
						if k, ok := IntLit(at.Len); ok {
							n = k
						}
					}
				}
			}
			if n >= 0 {
				fmt.Fprintf(&sb, "/-- `subContext.vals [N]string` -/\ndef subContextVals : Nat := %d\n\n", n)
			} else {
				sb.WriteString(untranslatable("subContextVals"))
			}
		}
		if fd := c.Func(fRange, "subContext.Eval"); fd != nil && fd.Body != nil {
			c.Fingerprint(fRange, "subContext.Eval")
			fmt.Fprintf(&sb, "/-- control skeleton of `(*subContext).Eval` -/\ndef subContextEvalCtl : List String := %s\n\n", leanStrList(c.c06Ctl(fd.Body.List)))
		}

		// ---- pool sites of the expression packages
		var sites []string
		sitesOk := true
		for _, rel := range c10GoFiles(c.Repo, []string{"pkg/expressions"}) {
			ss, ok := c10PoolSites(c, rel)
			if !ok {
				sitesOk = false
			}
			for _, s := range ss {
				sites = append(sites, fmt.Sprintf("{ file := %s, fn := %s, pool := %s, objType := %s, typeFields := %s, fixedFields := %s, deferReturn := %s, reset := %s }",
					leanStr(s.file), leanStr(s.fn), leanStr(s.pool), leanStr(s.objType), leanStrList(s.typeFields), leanStrList(s.fixed), leanBool(s.deferReturn), s.reset))
			}
		}
		if sitesOk {
			fmt.Fprintf(&sb, "/-- every `obj := <pool>.Get()` of pkg/expressions (non-test), in file and source order -/\ndef poolSites : List PoolSite := [\n  %s]\n\n", strings.Join(sites, ",\n  "))
		} else {
			sb.WriteString(untranslatable("poolSites"))
		}
		_ = fMath

		// ---- the cache closure
		c.Fingerprint(fTime, "smartDateParseWrapper")
		cc := c10CacheClause(c, c.Func(fTime, "smartDateParseWrapper"))
		done := false
		if cc != nil {
			var labels []string
			for _, l := range cc.List {
				s, _ := StringLit(l)
				labels = append(labels, s)
			}
			var init []ast.Stmt
			for _, s := range cc.Body {
				ret, isRet := s.(*ast.ReturnStmt)
				if !isRet {
					init = append(init, s)
					continue
				}
				if len(ret.Results) < 1 {
					break
				}
				x := ret.Results[0]
				if call, isCall := x.(*ast.CallExpr); isCall && len(call.Args) == 1 { // KeyBuilderStage(func…)
					x = call.Args[0]
				}
				fl, isLit := x.(*ast.FuncLit)
				if !isLit {
					break
				}
				fmt.Fprintf(&sb, "/-- labels of the cache-mode clause of `smartDateParseWrapper` -/\ndef cacheLabels : List String := %s\n\n", leanStrList(labels))
				fmt.Fprintf(&sb, "/-- what the clause does before it returns the closure -/\ndef cacheInit : List String := %s\n\n", leanStrList(c.c06Ctl(init)))
				fmt.Fprintf(&sb, "/-- the closure of the cache mode, statement by statement -/\ndef cacheClosure : CProg :=\n  %s\n\n", c10Prog(c, fl.Body.List))
				done = true
				break
			}
		}
		if !done {
			sb.WriteString(untranslatable("cacheClosure"))
		}

		// ---- {time now|live|delta}
		c.Fingerprint(fTime, "kfTimeParse")
		tp := c.Func(fTime, "kfTimeParse")
		for _, l := range []string{"now", "live", "delta"} {
			fmt.Fprintf(&sb, "/-- `{time %s}`: the index its closure touches the context with before anything else (`none`: it does not) -/\ndef %sTouch : Option Int := %s\n\n", l, l, c10Touch(c, tp, l))
		}

		// ---- control skeletons
		for _, a := range []struct{ lean, file, fn string }{
			{"optimizeCtl", fKB, "CompiledKeyBuilder.optimize"},
			{"buildKeyCtl", fKB, "CompiledKeyBuilder.BuildKey"},
			{"joinStagesCtl", fKB, "CompiledKeyBuilder.joinStages"},
			{"keyBuilderToFunctionCtl", fStage, "keyBuilderToFunction"},
			// the two atomic actions of the pool machine (Model/C10Conc.lean): both under the pool's mutex
			{"objectPoolGetCtl", "pkg/slicepool/objpool.go", "ObjectPool.Get"},
			{"objectPoolReturnCtl", "pkg/slicepool/objpool.go", "ObjectPool.Return"},
		} {
			fd := c.Func(a.file, a.fn)
			c.Fingerprint(a.file, a.fn)
			if fd == nil || fd.Body == nil {
				sb.WriteString(untranslatable(a.lean))
				continue
			}
			fmt.Fprintf(&sb, "/-- control skeleton of `%s` (%s) -/\ndef %s : List String := %s\n\n", a.fn, a.file, a.lean, leanStrList(c.c06Ctl(fd.Body.List)))
		}
		// ---- main.go: the Before hook (global output switches, then the funcs files)
		c.Fingerprint("main.go", "buildApp")
		hook := false
		if fd := c.Func("main.go", "buildApp"); fd != nil {
			ast.Inspect(fd, func(n ast.Node) bool {
				as, ok := n.(*ast.AssignStmt)
				if !ok || len(as.Lhs) != 1 || len(as.Rhs) != 1 || c10txt(c, as.Lhs[0]) != "app.Before" {
					return true
				}
				var fl *ast.FuncLit
				ast.Inspect(as.Rhs[0], func(m ast.Node) bool {
					if l, isLit := m.(*ast.FuncLit); isLit && fl == nil {
						fl = l
					}
					return fl == nil
				})
				if fl != nil && !hook {
					hook = true
					fmt.Fprintf(&sb, "/-- control skeleton of the `app.Before` hook (main.go) -/\ndef beforeHookCtl : List String := %s\n\n", leanStrList(c.c06Ctl(fl.Body.List)))
				}
				return false
			})
		}
		if !hook {
			sb.WriteString(untranslatable("beforeHookCtl"))
		}
		sb.WriteString("end Rare.Gen.C10\n")
		return sb.String()
	})
}
