package main

import (
	"fmt"
	"go/ast"
	"go/token"
	"os"
	"path/filepath"
	"sort"
	"strings"
)

// Round 4c: the expression context as an object that lives over many matches.  What is taken from the source:
//
//   - the fields of `type SliceSpaceExpressionContext struct` (name, type), in source order;
//   - for every method of it: which fields of the receiver it READS, which it MAY WRITE (assignment / inc-dec to
//     the field or an element of it, `&s.f`, the field passed whole to a call other than len/cap), which other
//     methods of the receiver it calls, and every other use of the receiver itself (passed on, stored, captured);
//   - everything processLineSync does with the worker's context, in source order: the binding, every
//     `expContext.<field> = <rhs>`, every call the context is handed to;
//   - every composite literal of the type in the non-test, non-hook files of pkg/extractor, with the fields it sets,
//     and every assignment to a field of ANY value through a selector named like one of the fields outside the
//     methods and processLineSync (there must be none: nobody else re-points a context).
const c16CtxType = "SliceSpaceExpressionContext"

func c16Squash(c *Ctx, n ast.Node) string { return strings.Join(strings.Fields(c.Print(n)), "") }

func c16CtxFields(c *Ctx, rel string) ([][2]string, bool) {
	f := c.File(rel)
	if f == nil {
		return nil, false
	}
	for _, d := range f.Decls {
		gd, ok := d.(*ast.GenDecl)
		if !ok || gd.Tok != token.TYPE {
			continue
		}
		for _, sp := range gd.Specs {
			ts, ok := sp.(*ast.TypeSpec)
			if !ok || ts.Name.Name != c16CtxType {
				continue
			}
			st, ok := ts.Type.(*ast.StructType)
			if !ok {
				return nil, false
			}
			var out [][2]string
			for _, fl := range st.Fields.List {
				t := c16Squash(c, fl.Type)
				if len(fl.Names) == 0 {
					out = append(out, [2]string{"<embedded>", t})
				}
				for _, n := range fl.Names {
					out = append(out, [2]string{n.Name, t})
				}
			}
			return out, true
		}
	}
	return nil, false
}

type c16MethodUse struct {
	name                       string
	reads, writes, calls, other []string
}

func c16AddUnique(l []string, s string) []string {
	for _, x := range l {
		if x == s {
			return l
		}
	}
	return append(l, s)
}

// c16RecvUses classifies every occurrence of the receiver identifier in a method body.
func c16RecvUses(c *Ctx, fd *ast.FuncDecl, ftype map[string]string) (c16MethodUse, bool) {
	u := c16MethodUse{name: fd.Name.Name}
	if fd.Recv == nil || len(fd.Recv.List) != 1 || len(fd.Recv.List[0].Names) != 1 || fd.Body == nil {
		return u, false
	}
	recv := fd.Recv.List[0].Names[0].Name
	// the field selected from the receiver at the root of an lvalue-like expression, "" if none
	rootField := func(e ast.Expr) string {
		for {
			switch v := e.(type) {
			case *ast.SelectorExpr:
				if id, ok := v.X.(*ast.Ident); ok && id.Name == recv {
					return v.Sel.Name
				}
				e = v.X
			case *ast.IndexExpr:
				e = v.X
			case *ast.SliceExpr:
				e = v.X
			case *ast.ParenExpr:
				e = v.X
			case *ast.StarExpr:
				e = v.X
			default:
				return ""
			}
		}
	}
	handled := map[*ast.Ident]bool{}
	ast.Inspect(fd.Body, func(n ast.Node) bool {
		switch v := n.(type) {
		case *ast.AssignStmt:
			for _, l := range v.Lhs {
				if f := rootField(l); f != "" {
					u.writes = c16AddUnique(u.writes, f)
				}
				if id, ok := l.(*ast.Ident); ok && id.Name == recv {
					u.other = append(u.other, "assigned:"+c16Squash(c, v))
				}
			}
		case *ast.IncDecStmt:
			if f := rootField(v.X); f != "" {
				u.writes = c16AddUnique(u.writes, f)
			}
		case *ast.RangeStmt:
			for _, t := range []ast.Expr{v.Key, v.Value} {
				if t != nil {
					if f := rootField(t); f != "" {
						u.writes = c16AddUnique(u.writes, f)
					}
				}
			}
		case *ast.UnaryExpr:
			if v.Op == token.AND {
				if f := rootField(v.X); f != "" {
					u.writes = c16AddUnique(u.writes, f)
				}
			}
		case *ast.CallExpr:
			if sel, ok := v.Fun.(*ast.SelectorExpr); ok {
				if id, ok := sel.X.(*ast.Ident); ok && id.Name == recv {
					handled[id] = true
					u.calls = c16AddUnique(u.calls, sel.Sel.Name)
				}
			}
			isLen := false
			if id, ok := v.Fun.(*ast.Ident); ok && (id.Name == "len" || id.Name == "cap") {
				isLen = true
			}
			for _, a := range v.Args {
				if isLen {
					continue
				}
				// a map, slice or pointer field handed over whole can be modified by the callee (a string or an
				// integer is copied)
				if sel, ok := a.(*ast.SelectorExpr); ok {
					if id, ok := sel.X.(*ast.Ident); ok && id.Name == recv && !c16ValueType[ftype[sel.Sel.Name]] {
						u.writes = c16AddUnique(u.writes, sel.Sel.Name+"(passed-to-"+c16Squash(c, v.Fun)+")")
					}
				}
			}
		case *ast.SelectorExpr:
			if id, ok := v.X.(*ast.Ident); ok && id.Name == recv {
				if !handled[id] {
					handled[id] = true
					u.reads = c16AddUnique(u.reads, v.Sel.Name)
				}
			}
		case *ast.GoStmt:
			u.other = append(u.other, "go-statement")
		case *ast.FuncLit:
			u.other = append(u.other, "closure")
		}
		return true
	})
	ast.Inspect(fd.Body, func(n ast.Node) bool {
		if id, ok := n.(*ast.Ident); ok && id.Name == recv && !handled[id] {
			u.other = append(u.other, "bare:"+recv)
		}
		return true
	})
	// a method call is not a field read
	var reads []string
	for _, r := range u.reads {
		isCall := false
		for _, m := range u.calls {
			if m == r {
				isCall = true
			}
		}
		if !isCall {
			reads = append(reads, r)
		}
	}
	u.reads = reads
	return u, true
}

var c16ValueType = map[string]bool{"string": true, "uint64": true, "int": true, "int64": true, "uint": true, "bool": true, "byte": true, "rune": true, "float64": true}

func c16CtxMethods(c *Ctx, rel string) ([]c16MethodUse, bool) {
	f := c.File(rel)
	if f == nil {
		return nil, false
	}
	fields, ok := c16CtxFields(c, rel)
	if !ok {
		return nil, false
	}
	ftype := map[string]string{}
	for _, fl := range fields {
		ftype[fl[0]] = fl[1]
	}
	var out []c16MethodUse
	for _, d := range f.Decls {
		fd, ok := d.(*ast.FuncDecl)
		if !ok || fd.Recv == nil || len(fd.Recv.List) != 1 {
			continue
		}
		t := fd.Recv.List[0].Type
		if st, ok := t.(*ast.StarExpr); ok {
			t = st.X
		}
		if id, ok := t.(*ast.Ident); !ok || id.Name != c16CtxType {
			continue
		}
		u, ok := c16RecvUses(c, fd, ftype)
		if !ok {
			return nil, false
		}
		out = append(out, u)
	}
	return out, len(out) > 0
}

// c16LoadEvents: in processLineSync, the variable bound to `s.context` and everything done with it, in source order.
func c16LoadEvents(c *Ctx, fd *ast.FuncDecl) ([]string, bool) {
	if fd == nil || fd.Body == nil {
		return nil, false
	}
	name := ""
	var out []string
	handled := map[*ast.Ident]bool{}
	ast.Inspect(fd.Body, func(n ast.Node) bool {
		switch v := n.(type) {
		case *ast.AssignStmt:
			if len(v.Lhs) == 1 && len(v.Rhs) == 1 {
				if id, ok := v.Lhs[0].(*ast.Ident); ok && name == "" && strings.HasSuffix(c16Squash(c, v.Rhs[0]), ".context") {
					name = id.Name
					handled[id] = true
					out = append(out, "bind\x00"+id.Name+"\x00"+c16Squash(c, v.Rhs[0]))
					return true
				}
			}
			if name == "" {
				return true
			}
			for i, l := range v.Lhs {
				if sel, ok := l.(*ast.SelectorExpr); ok {
					if id, ok := sel.X.(*ast.Ident); ok && id.Name == name {
						handled[id] = true
						rhs := "?"
						if len(v.Rhs) == len(v.Lhs) {
							rhs = c16Squash(c, v.Rhs[i])
						}
						out = append(out, "set\x00"+sel.Sel.Name+"\x00"+rhs)
					}
				}
			}
		case *ast.CallExpr:
			if name == "" {
				return true
			}
			for _, a := range v.Args {
				if id, ok := a.(*ast.Ident); ok && id.Name == name {
					handled[id] = true
					out = append(out, "use\x00"+c16Squash(c, v.Fun)+"\x00")
				}
			}
		}
		return true
	})
	if name == "" {
		return nil, false
	}
	ast.Inspect(fd.Body, func(n ast.Node) bool {
		if id, ok := n.(*ast.Ident); ok && id.Name == name && !handled[id] {
			out = append(out, "other\x00"+name+"\x00")
		}
		return true
	})
	return out, true
}

// c16CtxElsewhere: composite literals of the type and assignments through a selector with a field's name, in every
// non-test, non-hook file of pkg/extractor outside the type's own methods and processLineSync.
func c16CtxElsewhere(c *Ctx, dir string, fields [][2]string) (lits []string, sets []string, ok bool) {
	ents, err := os.ReadDir(filepath.Join(c.Repo, dir))
	if err != nil {
		return nil, nil, false
	}
	isField := map[string]bool{}
	for _, f := range fields {
		isField[f[0]] = true
	}
	var names []string
	for _, e := range ents {
		n := e.Name()
		if !strings.HasSuffix(n, ".go") || strings.HasSuffix(n, "_test.go") || strings.HasPrefix(n, "verif_") {
			continue
		}
		names = append(names, n)
	}
	sort.Strings(names)
	for _, n := range names {
		f := c.File(filepath.Join(dir, n))
		if f == nil {
			return nil, nil, false
		}
		for _, d := range f.Decls {
			fd, isFn := d.(*ast.FuncDecl)
			if !isFn || fd.Body == nil {
				continue
			}
			own := false
			if fd.Recv != nil && len(fd.Recv.List) == 1 {
				t := fd.Recv.List[0].Type
				if st, ok := t.(*ast.StarExpr); ok {
					t = st.X
				}
				if id, ok := t.(*ast.Ident); ok && id.Name == c16CtxType {
					own = true
				}
			}
			ast.Inspect(fd.Body, func(nd ast.Node) bool {
				switch v := nd.(type) {
				case *ast.CompositeLit:
					if id, ok := v.Type.(*ast.Ident); ok && id.Name == c16CtxType {
						var set []string
						for _, el := range v.Elts {
							if kv, ok := el.(*ast.KeyValueExpr); ok {
								set = append(set, c16Squash(c, kv.Key))
							} else {
								set = append(set, "<positional>")
							}
						}
						lits = append(lits, fd.Name.Name+":"+strings.Join(set, ","))
					}
				case *ast.AssignStmt:
					if own || fd.Name.Name == "processLineSync" {
						return true
					}
					for _, l := range v.Lhs {
						if sel, ok := l.(*ast.SelectorExpr); ok && isField[sel.Sel.Name] {
							sets = append(sets, fd.Name.Name+":"+c16Squash(c, v))
						}
					}
				}
				return true
			})
		}
	}
	return lits, sets, true
}

func c16EmitCtx(c *Ctx) string {
	const ctxFile = "pkg/extractor/sliceSpaceExpressionContext.go"
	var sb strings.Builder
	fields, ok := c16CtxFields(c, ctxFile)
	if ok {
		var rows []string
		for _, f := range fields {
			rows = append(rows, fmt.Sprintf("(%s, %s)", leanStr(f[0]), leanStr(f[1])))
		}
		fmt.Fprintf(&sb, "/-- the fields of `type %s struct` (%s), in source order: (name, type) -/\ndef ctxFields : List (String × String) :=\n  [%s]\n\n", c16CtxType, ctxFile, strings.Join(rows, ", "))
	} else {
		sb.WriteString(untranslatable("ctxFields"))
	}
	if ms, ok := c16CtxMethods(c, ctxFile); ok {
		var rows []string
		for _, m := range ms {
			rows = append(rows, fmt.Sprintf("(%s, %s, %s, %s, %s)", leanStr(m.name), leanStrList(m.reads), leanStrList(m.writes), leanStrList(m.calls), leanStrList(m.other)))
		}
		fmt.Fprintf(&sb, "/-- every method of the context, in source order: (name, receiver fields it reads, receiver fields it may write – assigned, inc/dec, element assigned, `&`, handed whole to a call other than len/cap –, methods of the receiver it calls, any other use of the receiver itself) -/\ndef ctxMethods : List (String × List String × List String × List String × List String) :=\n  [%s]\n\n", strings.Join(rows, ",\n   "))
	} else {
		sb.WriteString(untranslatable("ctxMethods"))
	}
	if ev, ok := c16LoadEvents(c, c.Func("pkg/extractor/extractor.go", "extractorInstance.processLineSync")); ok {
		var rows []string
		for _, e := range ev {
			p := strings.SplitN(e, "\x00", 3)
			rows = append(rows, fmt.Sprintf("(%s, %s, %s)", leanStr(p[0]), leanStr(p[1]), leanStr(p[2])))
		}
		fmt.Fprintf(&sb, "/-- everything `processLineSync` (pkg/extractor/extractor.go) does with the worker's context, in source order: (`bind`, variable, what it is bound to), (`set`, field, right-hand side), (`use`, the callee the context is handed to, -), (`other`, …) for any other occurrence of the variable -/\ndef ctxLoadEvents : List (String × String × String) :=\n  [%s]\n\n", strings.Join(rows, ",\n   "))
	} else {
		sb.WriteString(untranslatable("ctxLoadEvents"))
	}
	if ok {
		if lits, sets, ok2 := c16CtxElsewhere(c, "pkg/extractor", fields); ok2 {
			fmt.Fprintf(&sb, "/-- every composite literal of the type in pkg/extractor (non-test, non-hook files): `<function>:<fields set>` -/\ndef ctxLiterals : List String := %s\n\n", leanStrList(lits))
			fmt.Fprintf(&sb, "/-- assignments through a selector named like a field of the context anywhere else in pkg/extractor (outside its methods and processLineSync) -/\ndef ctxFieldSetsElsewhere : List String := %s\n\n", leanStrList(sets))
		} else {
			sb.WriteString(untranslatable("ctxLiterals"))
		}
	}
	for _, it := range []struct{ lean, fn string }{
		{"getMatchOutline", "SliceSpaceExpressionContext.GetMatch"},
		{"getKeyOutline", "SliceSpaceExpressionContext.GetKey"},
		{"arrayOutline", "SliceSpaceExpressionContext.array"},
	} {
		if l, ok := c16Outline(c, c.Func(ctxFile, it.fn)); ok {
			fmt.Fprintf(&sb, "/-- control skeleton of `%s` (%s): statement texts without white space, blocks bracketed -/\ndef %s : List String :=\n  %s\n\n", it.fn, ctxFile, it.lean, leanStrList(l))
		} else {
			sb.WriteString(untranslatable(it.lean))
		}
	}
	return sb.String()
}
