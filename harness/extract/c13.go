package main

import (
	"fmt"
	"go/ast"
	"os"
	"path/filepath"
	"sort"
	"strings"
	"unicode"
)

// C13: weekday/month tables, order of sortSets, and the two switches of cmd/helpers/sorting.go.
func init() {
	RegisterGen("C13", func(c *Ctx) string {
		var sb strings.Builder
		sb.WriteString("namespace Rare.Gen.C13\n\n")
		const ctxFile = "pkg/aggregation/sorting/contextual.go"
		const helpFile = "cmd/helpers/sorting.go"

		intMap := func(name string) bool {
			cl, ok := c.Var(ctxFile, name).(*ast.CompositeLit)
			if !ok {
				return false
			}
			type kv struct {
				k string
				v int64
			}
			var ents []kv
			for _, el := range cl.Elts {
				e, ok := el.(*ast.KeyValueExpr)
				if !ok {
					return false
				}
				k, ok1 := StringLit(e.Key)
				v, ok2 := IntLit(e.Value)
				if !ok1 || !ok2 || v < 0 {
					return false
				}
				ents = append(ents, kv{k, v})
			}
			sort.Slice(ents, func(i, j int) bool { return ents[i].k < ents[j].k })
			parts := make([]string, len(ents))
			for i, e := range ents {
				parts[i] = fmt.Sprintf("(%s, %d)", leanStr(e.k), e.v)
			}
			fmt.Fprintf(&sb, "/-- `%s` of contextual.go, sorted by key -/\ndef %s : List (String × Nat) := [%s]\n\n", name, name, strings.Join(parts, ", "))
			return true
		}
		okW := intMap("weekdays")
		if !okW {
			sb.WriteString(untranslatable("weekdays"))
		}
		okM := intMap("months")
		if !okM {
			sb.WriteString(untranslatable("months"))
		}
		// sortSets = [...]sortSet{weekdays, months}
		if cl, ok := c.Var(ctxFile, "sortSets").(*ast.CompositeLit); ok && okW && okM {
			var names []string
			good := true
			for _, el := range cl.Elts {
				id, ok := el.(*ast.Ident)
				if !ok || (id.Name != "weekdays" && id.Name != "months") {
					good = false
					break
				}
				names = append(names, id.Name)
			}
			if good {
				fmt.Fprintf(&sb, "/-- `sortSets`, in source order (inference tries them in this order) -/\ndef sortSets : List (List (String × Nat)) := [%s]\n\n", strings.Join(names, ", "))
			} else {
				sb.WriteString(untranslatable("sortSets"))
			}
		} else {
			sb.WriteString(untranslatable("sortSets"))
		}

		// the string switch of a function: case labels and the (single) statement of each clause
		switchOf := func(fn, leanName, doc string) {
			fd := c.Func(helpFile, fn)
			var sw *ast.SwitchStmt
			if fd != nil {
				ast.Inspect(fd, func(n ast.Node) bool {
					if s, ok := n.(*ast.SwitchStmt); ok && sw == nil {
						sw = s
					}
					return true
				})
			}
			if sw == nil {
				sb.WriteString(untranslatable(leanName))
				return
			}
			var rows []string
			for _, st := range sw.Body.List {
				cc, ok := st.(*ast.CaseClause)
				if !ok || len(cc.Body) != 1 {
					sb.WriteString(untranslatable(leanName))
					return
				}
				var labels []string
				for _, e := range cc.List {
					s, ok := StringLit(e)
					if !ok {
						sb.WriteString(untranslatable(leanName))
						return
					}
					labels = append(labels, s)
				}
				body := strings.Join(strings.Fields(c.Print(cc.Body[0])), " ")
				if cc.List == nil {
					labels = []string{"<default>"}
				}
				rows = append(rows, fmt.Sprintf("(%s, %s)", leanStrList(labels), leanStr(body)))
			}
			fmt.Fprintf(&sb, "/-- %s -/\ndef %s : List (List String × String) := [\n  %s]\n\n", doc, leanName, strings.Join(rows, ",\n  "))
		}
		switchOf("lookupSorter", "lookupSwitch", "`switch name` of `lookupSorter`: labels and the return statement")
		switchOf("parseSort", "modifierSwitch", "`switch strings.ToLower(modifier)` of `parseSort`: labels and the statement")

		// `reverse = (realname == "value")`
		found := false
		if fd := c.Func(helpFile, "parseSort"); fd != nil {
			ast.Inspect(fd, func(n ast.Node) bool {
				as, ok := n.(*ast.AssignStmt)
				if !ok || len(as.Lhs) != 1 || len(as.Rhs) != 1 || found {
					return true
				}
				if id, ok := as.Lhs[0].(*ast.Ident); ok && id.Name == "reverse" {
					fmt.Fprintf(&sb, "/-- the first assignment to `reverse` in `parseSort` -/\ndef reverseDefault : String := %s\n\n",
						leanStr(strings.Join(strings.Fields(c.Print(as.Rhs[0])), " ")))
					found = true
				}
				return true
			})
		}
		if !found {
			sb.WriteString(untranslatable("reverseDefault"))
		}

		// unicode.ToLower of the toolchain the harness (and rare) is built with: which non-ASCII runes
		// lower-case INTO ASCII (strings.ToLower results are only ever compared with ASCII constants),
		// whether ASCII behaves as expected, whether a lower-cased rune can lower-case again.
		{
			var pairs []string
			asciiOK, idem := true, true
			for r := rune(0); r <= unicode.MaxRune; r++ {
				l := unicode.ToLower(r)
				if r < 0x80 {
					want := r
					if 'A' <= r && r <= 'Z' {
						want = r + 32
					}
					if l != want {
						asciiOK = false
					}
				} else if l < 0x80 {
					pairs = append(pairs, fmt.Sprintf("(%d, %d)", r, l))
				}
				if unicode.ToLower(l) != l || l < 0 {
					idem = false
				}
			}
			fmt.Fprintf(&sb, "/-- every non-ASCII rune `r` with `unicode.ToLower(r) < 0x80`, with its image (all %d code points of this Go toolchain enumerated) -/\ndef lowerIntoAscii : List (Nat × Nat) := [%s]\n\n", int(unicode.MaxRune)+1, strings.Join(pairs, ", "))
			fmt.Fprintf(&sb, "/-- `unicode.ToLower` on ASCII is `A-Z ↦ a-z`, identity elsewhere -/\ndef lowerAsciiExact : Bool := %v\n\n", asciiOK)
			fmt.Fprintf(&sb, "/-- `unicode.ToLower` is idempotent and never negative -/\ndef lowerIdempotent : Bool := %v\n\n", idem)
		}


		// control skeleton of the comparators: every `if` condition, assignment and `return` expression, in source
		// order with its nesting depth (closures are entered).  Props/C13.lean states what the model mirrors; a changed
		// guard, tie-break or operator in /repo changes this table and breaks `comparators_match_source`.
		flat := func(n ast.Node) string { return strings.Join(strings.Fields(c.Print(n)), " ") }
		skeleton := func(file, fn, leanName string) {
			fd := c.Func(file, fn)
			if fd == nil || fd.Body == nil {
				sb.WriteString(untranslatable(leanName))
				return
			}
			var rows []string
			emit := func(depth int, kind, text string) {
				rows = append(rows, fmt.Sprintf("(%d, %s, %s)", depth, leanStr(kind), leanStr(text)))
			}
			good := true
			var block func(stmts []ast.Stmt, depth int)
			var stmt func(st ast.Stmt, depth int)
			exprs := func(es []ast.Expr) string {
				parts := make([]string, len(es))
				for i, e := range es {
					if fl, ok := e.(*ast.FuncLit); ok {
						parts[i] = "func" + strings.TrimPrefix(flat(fl.Type), "func")
					} else {
						parts[i] = flat(e)
					}
				}
				return strings.Join(parts, ", ")
			}
			funcLits := func(es []ast.Expr, depth int) {
				for _, e := range es {
					if fl, ok := e.(*ast.FuncLit); ok {
						block(fl.Body.List, depth+1)
					}
				}
			}
			stmt = func(st ast.Stmt, depth int) {
				switch x := st.(type) {
				case *ast.IfStmt:
					cond := flat(x.Cond)
					if x.Init != nil {
						cond = flat(x.Init) + "; " + cond
					}
					emit(depth, "if", cond)
					block(x.Body.List, depth+1)
					switch e := x.Else.(type) {
					case nil:
					case *ast.BlockStmt:
						emit(depth, "else", "")
						block(e.List, depth+1)
					case *ast.IfStmt:
						emit(depth, "else", "")
						stmt(e, depth)
					default:
						good = false
					}
				case *ast.ReturnStmt:
					emit(depth, "return", exprs(x.Results))
					funcLits(x.Results, depth)
				case *ast.AssignStmt:
					emit(depth, "assign", exprs(x.Lhs)+" "+x.Tok.String()+" "+exprs(x.Rhs))
					funcLits(x.Rhs, depth)
				case *ast.DeclStmt:
					emit(depth, "decl", flat(x))
				case *ast.ExprStmt:
					emit(depth, "expr", flat(x))
				case *ast.BlockStmt:
					block(x.List, depth)
				case *ast.RangeStmt:
					head := "range " + flat(x.X)
					if x.Key != nil {
						kv := flat(x.Key)
						if x.Value != nil {
							kv += ", " + flat(x.Value)
						}
						head = kv + " " + x.Tok.String() + " " + head
					}
					emit(depth, "for", head)
					block(x.Body.List, depth+1)
				default:
					good = false
				}
			}
			block = func(stmts []ast.Stmt, depth int) {
				for _, st := range stmts {
					stmt(st, depth)
				}
			}
			block(fd.Body.List, 0)
			if !good {
				sb.WriteString(untranslatable(leanName))
				return
			}
			fmt.Fprintf(&sb, "/-- control skeleton of `%s` (%s): (depth, kind, text) -/\ndef %s : List (Nat × String × String) := [\n  %s]\n\n",
				fn, file, leanName, strings.Join(rows, ",\n  "))
		}
		skeleton("pkg/aggregation/sorting/strings.go", "ByName", "byNameSkel")
		skeleton("pkg/aggregation/sorting/strings.go", "ByNameSmart", "byNameSmartSkel")
		skeleton(ctxFile, "ByContextualEx", "byContextualExSkel")
		skeleton(ctxFile, "ByContextual", "byContextualSkel")
		skeleton(ctxFile, "inferSortSetByValue", "inferSkel")
		skeleton("pkg/aggregation/sorting/dates.go", "ByDate", "byDateSkel")
		skeleton("pkg/aggregation/sorting/dates.go", "ByDateWithContextual", "byDateWithContextualSkel")
		skeleton("pkg/aggregation/sorting/namevalue.go", "ValueSorterEx", "valueSorterExSkel")
		skeleton("pkg/aggregation/sorting/namevalue.go", "ValueNilSorter", "valueNilSorterSkel")
		skeleton("pkg/aggregation/sorting/sorter.go", "Reverse", "reverseSkel")
		skeleton(helpFile, "BuildSorter", "buildSorterSkel")
		skeleton("pkg/aggregation/accumulator.go", "AccumulatingGroup.Groups", "groupsSkel")
		skeleton("pkg/aggregation/counter.go", "MatchCounter.ItemsSortedBy", "itemsSortedBySkel")
		skeleton("pkg/aggregation/counter.go", "minSlice", "minSliceSkel")
		skeleton("pkg/aggregation/sorting/sorter.go", "wrappedSorter.Less", "wrappedLessSkel")
		skeleton("pkg/aggregation/sorting/sorter.go", "wrappedSorter.Swap", "wrappedSwapSkel")
		skeleton("pkg/aggregation/sorting/sorter.go", "wrappedSorter.Len", "wrappedLenSkel")
		skeleton("pkg/aggregation/sorting/sorter.go", "Sort", "sortSkel")
		skeleton("pkg/aggregation/sorting/sorter.go", "SortBy", "sortBySkel")
		skeleton("pkg/aggregation/counter.go", "MatchCounter.Items", "itemsSkel")
		skeleton("pkg/aggregation/table.go", "TableAggregator.OrderedColumns", "orderedColumnsSkel")
		skeleton("pkg/aggregation/table.go", "TableAggregator.OrderedRows", "orderedRowsSkel")

		// round 4b: WHERE the stateful closures are created.  (a) no package-level variable of the sorting packages or the
		// commands may hold a closure made by ByContextual / ByContextualEx / ByDate / ByDateWithContextual (it would be shared
		// by every BuildSorter call of the process); (b) every command builds its sorters by its own BuildSorterOrFail calls,
		// outside any closure (once, before the aggregation loop), one call per axis.
		{
			statefulCtor := func(n ast.Node) bool {
				hit := false
				ast.Inspect(n, func(x ast.Node) bool {
					call, ok := x.(*ast.CallExpr)
					if !ok {
						return true
					}
					name := ""
					switch f := call.Fun.(type) {
					case *ast.Ident:
						name = f.Name
					case *ast.SelectorExpr:
						name = f.Sel.Name
					}
					switch name {
					case "ByContextual", "ByContextualEx", "ByDate", "ByDateWithContextual":
						hit = true
					}
					return true
				})
				return hit
			}
			files := []string{helpFile}
			if ents, err := os.ReadDir(filepath.Join(c.Repo, "pkg/aggregation/sorting")); err == nil {
				for _, e := range ents {
					if strings.HasSuffix(e.Name(), ".go") && !strings.HasSuffix(e.Name(), "_test.go") {
						files = append(files, "pkg/aggregation/sorting/"+e.Name())
					}
				}
			}
			cmdFiles := []string{"cmd/histo.go", "cmd/bargraph.go", "cmd/tabulate.go", "cmd/heatmap.go", "cmd/spark.go", "cmd/reduce.go"}
			files = append(files, cmdFiles...)
			sort.Strings(files)
			var globals []string
			for _, rel := range files {
				f := c.File(rel)
				if f == nil {
					globals = append(globals, leanStr(rel+": unreadable"))
					continue
				}
				for _, d := range f.Decls {
					gd, ok := d.(*ast.GenDecl)
					if !ok {
						continue
					}
					for _, sp := range gd.Specs {
						vs, ok := sp.(*ast.ValueSpec)
						if !ok {
							continue
						}
						for i, v := range vs.Values {
							if statefulCtor(v) {
								nm := "_"
								if i < len(vs.Names) {
									nm = vs.Names[i].Name
								}
								globals = append(globals, leanStr(rel+": "+nm))
							}
						}
					}
				}
			}
			fmt.Fprintf(&sb, "/-- package-level variables (sorting package, cmd/helpers/sorting.go, the commands) whose initialiser creates a stateful sorter closure -/\ndef statefulGlobals : List String := [%s]\n\n", strings.Join(globals, ", "))

			var sites []string
			for _, rel := range cmdFiles {
				f := c.File(rel)
				if f == nil {
					sites = append(sites, fmt.Sprintf("(%s, 0, \"unreadable\")", leanStr(rel)))
					continue
				}
				var walk func(n ast.Node, depth int)
				walk = func(n ast.Node, depth int) {
					ast.Inspect(n, func(x ast.Node) bool {
						switch y := x.(type) {
						case *ast.FuncLit:
							if y != n {
								walk(y.Body, depth+1)
								return false
							}
						case *ast.AssignStmt:
							txt := flat(y)
							if strings.Contains(txt, "BuildSorter") || statefulCtor(y) {
								sites = append(sites, fmt.Sprintf("(%s, %d, %s)", leanStr(rel), depth, leanStr(txt)))
							}
						case *ast.DeclStmt:
							if gd, ok := y.Decl.(*ast.GenDecl); ok {
								for _, sp := range gd.Specs { // printed per spec: the doc comment of the declaration is not part of it
									txt := gd.Tok.String() + " " + flat(sp)
									if strings.Contains(txt, "BuildSorter") || statefulCtor(sp) {
										sites = append(sites, fmt.Sprintf("(%s, %d, %s)", leanStr(rel), depth, leanStr(txt)))
									}
								}
							}
						}
						return true
					})
				}
				for _, d := range f.Decls {
					if fd, ok := d.(*ast.FuncDecl); ok && fd.Body != nil {
						walk(fd.Body, 0)
					}
				}
			}
			fmt.Fprintf(&sb, "/-- where the commands create their sorters: (file, closure depth, statement) -/\ndef sorterSites : List (String × Nat × String) := [\n  %s]\n\n", strings.Join(sites, ",\n  "))

			// default sort modes: what the user gets without --sort / --sort-rows / --sort-cols
			{
				fieldOf := func(cl *ast.CompositeLit, name string) ast.Expr {
					for _, el := range cl.Elts {
						if kv, ok := el.(*ast.KeyValueExpr); ok {
							if id, ok := kv.Key.(*ast.Ident); ok && id.Name == name {
								return kv.Value
							}
						}
					}
					return nil
				}
				dflt := "?"
				if e := c.Var(helpFile, "DefaultSortFlag"); e != nil {
					if u, ok := e.(*ast.UnaryExpr); ok {
						e = u.X
					}
					if cl, ok := e.(*ast.CompositeLit); ok {
						if v := fieldOf(cl, "Value"); v != nil {
							if sv, ok := StringLit(v); ok {
								dflt = sv
							}
						}
					}
				}
				fmt.Fprintf(&sb, "/-- `Value` of `helpers.DefaultSortFlag` -/\ndef defaultSortValue : String := %s\n\n", leanStr(dflt))
				var rows []string
				for _, rel := range cmdFiles {
					f := c.File(rel)
					if f == nil {
						continue
					}
					ast.Inspect(f, func(x ast.Node) bool {
						switch y := x.(type) {
						case *ast.CompositeLit:
							if flat(y.Type) == "cli.StringFlag" {
								nm, _ := StringLit(fieldOf(y, "Name"))
								if nm == "sort" || nm == "sort-rows" || nm == "sort-cols" {
									val := "<none>"
									if v := fieldOf(y, "Value"); v != nil {
										val = flat(v)
									}
									rows = append(rows, fmt.Sprintf("(%s, %s, %s)", leanStr(rel), leanStr(nm), leanStr(val)))
								}
								return true
							}
							for _, el := range y.Elts { // a flag list naming the shared flag itself
								if flat(el) == "helpers.DefaultSortFlag" {
									rows = append(rows, fmt.Sprintf("(%s, \"sort\", \"helpers.DefaultSortFlag.Value\")", leanStr(rel)))
								}
							}
						case *ast.CallExpr:
							if flat(y.Fun) == "helpers.DefaultSortFlagWithDefault" && len(y.Args) == 1 {
								rows = append(rows, fmt.Sprintf("(%s, \"sort\", %s)", leanStr(rel), leanStr(flat(y.Args[0]))))
							}
						}
						return true
					})
				}
				fmt.Fprintf(&sb, "/-- default of every sort flag of the commands: (file, flag, Go expression of the default) -/\ndef sortDefaults : List (String × String × String) := [\n  %s]\n\n", strings.Join(rows, ",\n  "))
			}
			skeleton(helpFile, "SortsByValue", "sortsByValueSkel")
			skeleton(helpFile, "DefaultSortFlagWithDefault", "defaultSortFlagWithDefaultSkel")
		}

		for _, fn := range [][2]string{
			{"pkg/aggregation/sorting/strings.go", "ByName"}, {"pkg/aggregation/sorting/strings.go", "ByNameSmart"},
			{ctxFile, "ByContextualEx"}, {ctxFile, "ByContextual"}, {ctxFile, "inferSortSetByValue"},
			{"pkg/aggregation/sorting/dates.go", "ByDate"}, {"pkg/aggregation/sorting/dates.go", "ByDateWithContextual"},
			{"pkg/aggregation/sorting/namevalue.go", "ValueSorterEx"}, {"pkg/aggregation/sorting/namevalue.go", "ValueNilSorter"},
			{"pkg/aggregation/sorting/sorter.go", "Reverse"}, {"pkg/aggregation/sorting/sorter.go", "SortBy"},
			{helpFile, "parseSort"}, {helpFile, "lookupSorter"}, {helpFile, "BuildSorter"},
			{"pkg/aggregation/accumulator.go", "AccumulatingGroup.Groups"},
			{"pkg/aggregation/counter.go", "MatchCounter.ItemsSortedBy"}, {"pkg/aggregation/counter.go", "minSlice"},
			{"pkg/aggregation/sorting/sorter.go", "wrappedSorter.Less"}, {"pkg/aggregation/sorting/sorter.go", "Sort"},
			{"pkg/aggregation/table.go", "TableAggregator.OrderedColumns"}, {"pkg/aggregation/table.go", "TableAggregator.OrderedRows"},
		} {
			c.Fingerprint(fn[0], fn[1])
		}
		sb.WriteString("end Rare.Gen.C13\n")
		return sb.String()
	})
}
