package main

import (
	"fmt"
	"go/ast"
	"sort"
	"strings"
	"unicode"
)

// C13: weekday/month tables, order of sortSets, and the two switches of cmd/helpers/sorting.go.
func init() {
	RegisterGen("C13", func(c *Ctx) string {
		var sb strings.Builder
		sb.WriteString("namespace Rare.Gen.C13\n\n")
		const ctxFile = "pkg/aggregation/sorting/contextual.go"
		const helpFile = "cmd/helpers/sorting.go"

		intMap := func(name string) bool {
			cl, ok := c.Var(ctxFile, name).(*ast.CompositeLit)
			if !ok {
				return false
			}
			type kv struct {
				k string
				v int64
			}
			var ents []kv
			for _, el := range cl.Elts {
				e, ok := el.(*ast.KeyValueExpr)
				if !ok {
					return false
				}
				k, ok1 := StringLit(e.Key)
				v, ok2 := IntLit(e.Value)
				if !ok1 || !ok2 || v < 0 {
					return false
				}
				ents = append(ents, kv{k, v})
			}
			sort.Slice(ents, func(i, j int) bool { return ents[i].k < ents[j].k })
			parts := make([]string, len(ents))
			for i, e := range ents {
				parts[i] = fmt.Sprintf("(%s, %d)", leanStr(e.k), e.v)
			}
			fmt.Fprintf(&sb, "/-- `%s` of contextual.go, sorted by key -/\ndef %s : List (String × Nat) := [%s]\n\n", name, name, strings.Join(parts, ", "))
			return true
		}
		okW := intMap("weekdays")
		if !okW {
			sb.WriteString(untranslatable("weekdays"))
		}
		okM := intMap("months")
		if !okM {
			sb.WriteString(untranslatable("months"))
		}
		// sortSets = [...]sortSet{weekdays, months}
		if cl, ok := c.Var(ctxFile, "sortSets").(*ast.CompositeLit); ok && okW && okM {
			var names []string
			good := true
			for _, el := range cl.Elts {
				id, ok := el.(*ast.Ident)
				if !ok || (id.Name != "weekdays" && id.Name != "months") {
					good = false
					break
				}
				names = append(names, id.Name)
			}
			if good {
				fmt.Fprintf(&sb, "/-- `sortSets`, in source order (inference tries them in this order) -/\ndef sortSets : List (List (String × Nat)) := [%s]\n\n", strings.Join(names, ", "))
			} else {
				sb.WriteString(untranslatable("sortSets"))
			}
		} else {
			sb.WriteString(untranslatable("sortSets"))
		}

		// the string switch of a function: case labels and the (single) statement of each clause
		switchOf := func(fn, leanName, doc string) {
			fd := c.Func(helpFile, fn)
			var sw *ast.SwitchStmt
			if fd != nil {
				ast.Inspect(fd, func(n ast.Node) bool {
					if s, ok := n.(*ast.SwitchStmt); ok && sw == nil {
						sw = s
					}
					return true
				})
			}
			if sw == nil {
				sb.WriteString(untranslatable(leanName))
				return
			}
			var rows []string
			for _, st := range sw.Body.List {
				cc, ok := st.(*ast.CaseClause)
				if !ok || len(cc.Body) != 1 {
					sb.WriteString(untranslatable(leanName))
					return
				}
				var labels []string
				for _, e := range cc.List {
					s, ok := StringLit(e)
					if !ok {
						sb.WriteString(untranslatable(leanName))
						return
					}
					labels = append(labels, s)
				}
				body := strings.Join(strings.Fields(c.Print(cc.Body[0])), " ")
				if cc.List == nil {
					labels = []string{"<default>"}
				}
				rows = append(rows, fmt.Sprintf("(%s, %s)", leanStrList(labels), leanStr(body)))
			}
			fmt.Fprintf(&sb, "/-- %s -/\ndef %s : List (List String × String) := [\n  %s]\n\n", doc, leanName, strings.Join(rows, ",\n  "))
		}
		switchOf("lookupSorter", "lookupSwitch", "`switch name` of `lookupSorter`: labels and the return statement")
		switchOf("parseSort", "modifierSwitch", "`switch strings.ToLower(modifier)` of `parseSort`: labels and the statement")

		// `reverse = (realname == "value")`
		found := false
		if fd := c.Func(helpFile, "parseSort"); fd != nil {
			ast.Inspect(fd, func(n ast.Node) bool {
				as, ok := n.(*ast.AssignStmt)
				if !ok || len(as.Lhs) != 1 || len(as.Rhs) != 1 || found {
					return true
				}
				if id, ok := as.Lhs[0].(*ast.Ident); ok && id.Name == "reverse" {
					fmt.Fprintf(&sb, "/-- the first assignment to `reverse` in `parseSort` -/\ndef reverseDefault : String := %s\n\n",
						leanStr(strings.Join(strings.Fields(c.Print(as.Rhs[0])), " ")))
					found = true
				}
				return true
			})
		}
		if !found {
			sb.WriteString(untranslatable("reverseDefault"))
		}

		// unicode.ToLower of the toolchain the harness (and rare) is built with: which non-ASCII runes
		// lower-case INTO ASCII (strings.ToLower results are only ever compared with ASCII constants),
		// whether ASCII behaves as expected, whether a lower-cased rune can lower-case again.
		{
			var pairs []string
			asciiOK, idem := true, true
			for r := rune(0); r <= unicode.MaxRune; r++ {
				l := unicode.ToLower(r)
				if r < 0x80 {
					want := r
					if 'A' <= r && r <= 'Z' {
						want = r + 32
					}
					if l != want {
						asciiOK = false
					}
				} else if l < 0x80 {
					pairs = append(pairs, fmt.Sprintf("(%d, %d)", r, l))
				}
				if unicode.ToLower(l) != l || l < 0 {
					idem = false
				}
			}
			fmt.Fprintf(&sb, "/-- every non-ASCII rune `r` with `unicode.ToLower(r) < 0x80`, with its image (all %d code points of this Go toolchain enumerated) -/\ndef lowerIntoAscii : List (Nat × Nat) := [%s]\n\n", int(unicode.MaxRune)+1, strings.Join(pairs, ", "))
			fmt.Fprintf(&sb, "/-- `unicode.ToLower` on ASCII is `A-Z ↦ a-z`, identity elsewhere -/\ndef lowerAsciiExact : Bool := %v\n\n", asciiOK)
			fmt.Fprintf(&sb, "/-- `unicode.ToLower` is idempotent and never negative -/\ndef lowerIdempotent : Bool := %v\n\n", idem)
		}

		for _, fn := range [][2]string{
			{"pkg/aggregation/sorting/strings.go", "ByName"}, {"pkg/aggregation/sorting/strings.go", "ByNameSmart"},
			{ctxFile, "ByContextualEx"}, {ctxFile, "ByContextual"}, {ctxFile, "inferSortSetByValue"},
			{"pkg/aggregation/sorting/dates.go", "ByDate"}, {"pkg/aggregation/sorting/dates.go", "ByDateWithContextual"},
			{"pkg/aggregation/sorting/namevalue.go", "ValueSorterEx"}, {"pkg/aggregation/sorting/namevalue.go", "ValueNilSorter"},
			{"pkg/aggregation/sorting/sorter.go", "Reverse"}, {"pkg/aggregation/sorting/sorter.go", "SortBy"},
			{helpFile, "parseSort"}, {helpFile, "lookupSorter"}, {helpFile, "BuildSorter"},
		} {
			c.Fingerprint(fn[0], fn[1])
		}
		sb.WriteString("end Rare.Gen.C13\n")
		return sb.String()
	})
}
