// Command extract is the translator tie (DESIGN.md 4.1): it reads /repo's Go sources with
// go/ast and regenerates lean/Rare/Gen/*.lean on every run, so that theorems stated about the
// generated tables, constants and integer fragments are re-checked by the Lean kernel against
// what the code says now.
//
//	extract <repo> <outdir>
//
// Each emitter produces one Lean file Gen/<Name>.lean.  An anchor that cannot be found or
// translated is emitted as `def <name>_untranslatable : Unit := ()` so that dependent
// theorems stop compiling (the check then falls through to the witness search).
package main

import (
	"crypto/sha256"
	"encoding/hex"
	"encoding/json"
	"fmt"
	"go/ast"
	"go/parser"
	"go/printer"
	"go/token"
	"os"
	"path/filepath"
	"sort"
	"strconv"
	"strings"
)

type Ctx struct {
	Repo  string
	fset  *token.FileSet
	files map[string]*ast.File
	// Fingerprints of functions the hand model mirrors (name -> sha256 of printed AST).
	Fingerprints map[string]string
}

type Emitter func(c *Ctx) string

var emitters = map[string]Emitter{}

func RegisterGen(name string, e Emitter) { emitters[name] = e }

func (c *Ctx) File(rel string) *ast.File {
	if f, ok := c.files[rel]; ok {
		return f
	}
	f, err := parser.ParseFile(c.fset, filepath.Join(c.Repo, rel), nil, parser.ParseComments)
	if err != nil {
		c.files[rel] = nil
		return nil
	}
	c.files[rel] = f
	return f
}

// Func finds a top-level function or method by name ("Recv.Name" for methods).
func (c *Ctx) Func(rel, name string) *ast.FuncDecl {
	f := c.File(rel)
	if f == nil {
		return nil
	}
	for _, d := range f.Decls {
		fd, ok := d.(*ast.FuncDecl)
		if !ok {
			continue
		}
		n := fd.Name.Name
		if fd.Recv != nil && len(fd.Recv.List) > 0 {
			t := fd.Recv.List[0].Type
			if st, ok := t.(*ast.StarExpr); ok {
				t = st.X
			}
			if ix, ok := t.(*ast.IndexExpr); ok {
				t = ix.X
			}
			if id, ok := t.(*ast.Ident); ok {
				n = id.Name + "." + n
			}
		}
		if n == name {
			return fd
		}
	}
	return nil
}

// Var finds the initialiser expression of a package-level var/const.
func (c *Ctx) Var(rel, name string) ast.Expr {
	f := c.File(rel)
	if f == nil {
		return nil
	}
	for _, d := range f.Decls {
		gd, ok := d.(*ast.GenDecl)
		if !ok {
			continue
		}
		for _, s := range gd.Specs {
			vs, ok := s.(*ast.ValueSpec)
			if !ok {
				continue
			}
			for i, n := range vs.Names {
				if n.Name == name && i < len(vs.Values) {
					return vs.Values[i]
				}
			}
		}
	}
	return nil
}

// LocalConst finds `const NAME = <expr>` inside a function body.
func (c *Ctx) LocalConst(fd *ast.FuncDecl, name string) ast.Expr {
	var out ast.Expr
	if fd == nil {
		return nil
	}
	ast.Inspect(fd, func(n ast.Node) bool {
		if vs, ok := n.(*ast.ValueSpec); ok {
			for i, nm := range vs.Names {
				if nm.Name == name && i < len(vs.Values) {
					out = vs.Values[i]
				}
			}
		}
		return true
	})
	return out
}

func (c *Ctx) Print(n ast.Node) string {
	var sb strings.Builder
	printer.Fprint(&sb, c.fset, n)
	return sb.String()
}

// Fingerprint records a normalised hash of a function so that evidence can say "the code moved".
func (c *Ctx) Fingerprint(rel, name string) {
	fd := c.Func(rel, name)
	key := rel + ":" + name
	if fd == nil {
		c.Fingerprints[key] = "missing"
		return
	}
	h := sha256.Sum256([]byte(c.Print(fd)))
	c.Fingerprints[key] = hex.EncodeToString(h[:8])
}

// ---- literal helpers

func leanStr(s string) string {
	var sb strings.Builder
	sb.WriteByte('"')
	for _, r := range s {
		switch {
		case r == '"':
			sb.WriteString("\\\"")
		case r == '\\':
			sb.WriteString("\\\\")
		case r == '\n':
			sb.WriteString("\\n")
		case r == '\t':
			sb.WriteString("\\t")
		case r == '\r':
			sb.WriteString("\\r")
		case r < 0x20 || r == 0x7f:
			sb.WriteString(fmt.Sprintf("\\x%02x", r))
		default:
			sb.WriteRune(r)
		}
	}
	sb.WriteByte('"')
	return sb.String()
}

func leanStrList(l []string) string {
	parts := make([]string, len(l))
	for i, s := range l {
		parts[i] = leanStr(s)
	}
	return "[" + strings.Join(parts, ", ") + "]"
}

// StringLit evaluates a Go string / char literal expression.
func StringLit(e ast.Expr) (string, bool) {
	switch v := e.(type) {
	case *ast.BasicLit:
		if v.Kind == token.STRING {
			s, err := strconv.Unquote(v.Value)
			return s, err == nil
		}
		if v.Kind == token.CHAR {
			s, err := strconv.Unquote(v.Value)
			return s, err == nil
		}
	case *ast.ParenExpr:
		return StringLit(v.X)
	case *ast.BinaryExpr:
		if v.Op == token.ADD {
			a, ok1 := StringLit(v.X)
			b, ok2 := StringLit(v.Y)
			return a + b, ok1 && ok2
		}
	case *ast.CallExpr: // string('x') / rune conversions
		if len(v.Args) == 1 {
			return StringLit(v.Args[0])
		}
	}
	return "", false
}

// IntLit evaluates simple constant integer expressions (literals, + - * / <<, parens, time units).
func IntLit(e ast.Expr) (int64, bool) {
	switch v := e.(type) {
	case *ast.BasicLit:
		if v.Kind == token.INT {
			n, err := strconv.ParseInt(strings.ReplaceAll(v.Value, "_", ""), 0, 64)
			return n, err == nil
		}
		if v.Kind == token.CHAR {
			s, err := strconv.Unquote(v.Value)
			if err == nil && len([]rune(s)) == 1 {
				return int64([]rune(s)[0]), true
			}
		}
	case *ast.ParenExpr:
		return IntLit(v.X)
	case *ast.UnaryExpr:
		if v.Op == token.SUB {
			n, ok := IntLit(v.X)
			return -n, ok
		}
	case *ast.SelectorExpr:
		if id, ok := v.X.(*ast.Ident); ok && id.Name == "time" {
			switch v.Sel.Name {
			case "Nanosecond":
				return 1, true
			case "Microsecond":
				return 1000, true
			case "Millisecond":
				return 1000000, true
			case "Second":
				return 1000000000, true
			case "Minute":
				return 60 * 1000000000, true
			case "Hour":
				return 3600 * 1000000000, true
			}
		}
	case *ast.BinaryExpr:
		a, ok1 := IntLit(v.X)
		b, ok2 := IntLit(v.Y)
		if !ok1 || !ok2 {
			return 0, false
		}
		switch v.Op {
		case token.ADD:
			return a + b, true
		case token.SUB:
			return a - b, true
		case token.MUL:
			return a * b, true
		case token.QUO:
			if b != 0 {
				return a / b, true
			}
		case token.SHL:
			return a << uint(b), true
		}
	}
	return 0, false
}

// MapKeys returns the string keys of a map composite literal, sorted.
func MapKeys(e ast.Expr) ([]string, bool) {
	cl, ok := e.(*ast.CompositeLit)
	if !ok {
		if call, ok2 := e.(*ast.CallExpr); ok2 && len(call.Args) >= 1 { // mapMerge(x) etc.
			return nil, false
		}
		return nil, false
	}
	var keys []string
	for _, el := range cl.Elts {
		kv, ok := el.(*ast.KeyValueExpr)
		if !ok {
			return nil, false
		}
		k, ok := StringLit(kv.Key)
		if !ok {
			return nil, false
		}
		keys = append(keys, k)
	}
	sort.Strings(keys)
	return keys, true
}

// StringList evaluates a []string{...} literal.
func StringList(e ast.Expr) ([]string, bool) {
	cl, ok := e.(*ast.CompositeLit)
	if !ok {
		return nil, false
	}
	var out []string
	for _, el := range cl.Elts {
		s, ok := StringLit(el)
		if !ok {
			return nil, false
		}
		out = append(out, s)
	}
	return out, true
}

func untranslatable(name string) string {
	return fmt.Sprintf("def %s_untranslatable : Unit := ()\n", name)
}

func main() {
	if len(os.Args) != 3 {
		fmt.Fprintln(os.Stderr, "usage: extract <repo> <outdir>")
		os.Exit(2)
	}
	c := &Ctx{Repo: os.Args[1], fset: token.NewFileSet(), files: map[string]*ast.File{}, Fingerprints: map[string]string{}}
	out := os.Args[2]
	os.MkdirAll(out, 0o755)
	names := []string{}
	for n := range emitters {
		names = append(names, n)
	}
	sort.Strings(names)
	for _, n := range names {
		body := emitters[n](c)
		src := "/- GENERATED by /verif/harness/extract from /repo on every run.  Do not edit. -/\n" + body
		if err := os.WriteFile(filepath.Join(out, n+".lean"), []byte(src), 0o644); err != nil {
			fmt.Fprintln(os.Stderr, err)
			os.Exit(1)
		}
	}
	fp, _ := json.MarshalIndent(c.Fingerprints, "", " ")
	os.WriteFile(filepath.Join(out, "fingerprints.json"), fp, 0o644)
}
