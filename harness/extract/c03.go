package main

import (
	"fmt"
	"go/ast"
	"go/token"
	"sort"
	"strings"
)

// C03: how every aggregating command is wired (aggregator constructor, sorter flags and their defaults, CSV writer,
// exit-code function, order of the final steps), what the CSV writers of pkg/csv/aggWriters.go range over and which
// sorter they hand to which accessor, the package-level sorters of sorting/namevalue.go, and the if-chain of
// helpers.DetermineErrorState.  Types and interpreters: lean/Rare/Model/C03Wiring.lean.
// `verifTrace(...)` statements (no-op hooks) are not looked at.

type c03Cmd struct {
	name, file, fn, cmdFn string
}

var c03Cmds = []c03Cmd{
	{"histo", "cmd/histo.go", "histoFunction", "histogramCommand"},
	{"table", "cmd/tabulate.go", "tabulateFunction", "tabulateCommand"},
	{"heatmap", "cmd/heatmap.go", "heatmapFunction", "heatmapCommand"},
	{"spark", "cmd/spark.go", "sparkFunction", "sparkCommand"},
	{"bargraph", "cmd/bargraph.go", "bargraphFunction", "bargraphCommand"},
	{"analyze", "cmd/analyze.go", "analyzeFunction", "analyzeCommand"},
	{"reduce", "cmd/reduce.go", "reduceFunction", "reduceCommand"},
}

func c03Sel(e ast.Expr) (pkg, name string, ok bool) {
	if se, ok := e.(*ast.SelectorExpr); ok {
		if id, ok := se.X.(*ast.Ident); ok {
			return id.Name, se.Sel.Name, true
		}
	}
	return "", "", false
}

// c03SortExpr translates a `sorting` expression into the Lean `SortExpr`.
func (c *Ctx) c03SortExpr(e ast.Expr, vars map[string]bool) string {
	name := ""
	switch v := e.(type) {
	case *ast.Ident:
		name = v.Name
	case *ast.SelectorExpr:
		if p, n, ok := c03Sel(v); ok && p == "sorting" {
			name = n
		}
	case *ast.ParenExpr:
		return c.c03SortExpr(v.X, vars)
	case *ast.CallExpr:
		fn := ""
		switch f := v.Fun.(type) {
		case *ast.Ident:
			fn = f.Name
		case *ast.SelectorExpr:
			if p, n, ok := c03Sel(f); ok && p == "sorting" {
				fn = n
			}
		}
		switch {
		case fn == "ByContextual" && len(v.Args) == 0:
			return ".byContextual"
		case fn == "ByDateWithContextual" && len(v.Args) == 0:
			return ".byDateWithContextual"
		case fn == "Reverse" && len(v.Args) == 1:
			return "(.reverse " + c.c03SortExpr(v.Args[0], vars) + ")"
		case fn == "ValueSorterEx" && len(v.Args) == 1:
			return "(.valueSorterEx " + c.c03SortExpr(v.Args[0], vars) + ")"
		case fn == "ValueNilSorter" && len(v.Args) == 1:
			return "(.valueNilSorter " + c.c03SortExpr(v.Args[0], vars) + ")"
		}
	}
	switch {
	case name == "ByName":
		return ".byName"
	case name == "ByNameSmart":
		return ".byNameSmart"
	case name != "" && vars[name]:
		return "(.named " + leanStr(name) + ")"
	}
	return "(.other " + leanStr(strings.Join(strings.Fields(c.Print(e)), " ")) + ")"
}

// c03InspectNoLit walks n without descending into function literals (the render callbacks).
func c03InspectNoLit(n ast.Node, f func(ast.Node)) {
	ast.Inspect(n, func(x ast.Node) bool {
		if x == nil {
			return false
		}
		if _, ok := x.(*ast.FuncLit); ok {
			return false
		}
		f(x)
		return true
	})
}

func c03Idents(args []ast.Expr) []string {
	out := make([]string, len(args))
	for i, a := range args {
		switch v := a.(type) {
		case *ast.Ident:
			out[i] = v.Name
		case *ast.SelectorExpr:
			if p, n, ok := c03Sel(v); ok {
				out[i] = p + "." + n
			} else {
				out[i] = "<expr>"
			}
		case *ast.FuncLit:
			out[i] = "<func>"
		default:
			out[i] = "<expr>"
		}
	}
	return out
}

// c03GoB translates a Go boolean expression into the Lean `GoB` (Model/C03Wiring.lean).
func (c *Ctx) c03GoB(e ast.Expr) string {
	other := func() string { return "(.other " + leanStr(strings.Join(strings.Fields(c.Print(e)), " ")) + ")" }
	switch v := e.(type) {
	case *ast.ParenExpr:
		return c.c03GoB(v.X)
	case *ast.Ident:
		switch v.Name {
		case "true":
			return "(.lit true)"
		case "false":
			return "(.lit false)"
		}
		return "(.var " + leanStr(v.Name) + ")"
	case *ast.UnaryExpr:
		if v.Op == token.NOT {
			return "(.not " + c.c03GoB(v.X) + ")"
		}
	case *ast.BinaryExpr:
		switch v.Op {
		case token.LAND:
			return "(.and " + c.c03GoB(v.X) + " " + c.c03GoB(v.Y) + ")"
		case token.LOR:
			return "(.or " + c.c03GoB(v.X) + " " + c.c03GoB(v.Y) + ")"
		case token.EQL, token.NEQ:
			x, ok := v.X.(*ast.Ident)
			if !ok {
				return other()
			}
			if y, ok := v.Y.(*ast.Ident); ok && y.Name == "nil" {
				if v.Op == token.EQL {
					return "(.isNil " + leanStr(x.Name) + ")"
				}
				return "(.notNil " + leanStr(x.Name) + ")"
			}
			if lit, ok := StringLit(v.Y); ok {
				if v.Op == token.EQL {
					return "(.strEq " + leanStr(x.Name) + " " + leanStr(lit) + ")"
				}
				return "(.strNe " + leanStr(x.Name) + " " + leanStr(lit) + ")"
			}
		}
	case *ast.CallExpr:
		fn := ""
		switch f := v.Fun.(type) {
		case *ast.Ident:
			fn = f.Name
		case *ast.SelectorExpr:
			if p, n, ok := c03Sel(f); ok {
				fn = p + "." + n
			}
		}
		if fn == "" {
			return other()
		}
		args := make([]string, len(v.Args))
		for i, a := range v.Args {
			id, ok := a.(*ast.Ident)
			if !ok {
				return other()
			}
			args[i] = leanStr(id.Name)
		}
		return "(.call " + leanStr(fn) + " [" + strings.Join(args, ", ") + "])"
	}
	return other()
}

// c03SbvSrc translates a function `func f(p string) bool { a, b, c := g(args…); return <bool expr> }` into the Lean `SbvSrc`.
func (c *Ctx) c03SbvSrc(fd *ast.FuncDecl) string {
	bad := func(why string) string {
		txt := "<missing>"
		if fd != nil && fd.Body != nil {
			txt = strings.Join(strings.Fields(c.Print(fd.Body)), " ")
		}
		return fmt.Sprintf("{ param := \"?\", lhs := [], callee := %s, args := [], ret := (.other %s) }", leanStr("<"+why+">"), leanStr(txt))
	}
	if fd == nil || fd.Body == nil {
		return bad("missing")
	}
	if fd.Type.Params == nil || len(fd.Type.Params.List) != 1 || len(fd.Type.Params.List[0].Names) != 1 {
		return bad("params")
	}
	param := fd.Type.Params.List[0].Names[0].Name
	if len(fd.Body.List) != 2 {
		return bad("shape")
	}
	as, ok := fd.Body.List[0].(*ast.AssignStmt)
	if !ok || as.Tok != token.DEFINE || len(as.Rhs) != 1 {
		return bad("shape")
	}
	call, ok := as.Rhs[0].(*ast.CallExpr)
	if !ok {
		return bad("shape")
	}
	callee := ""
	switch f := call.Fun.(type) {
	case *ast.Ident:
		callee = f.Name
	case *ast.SelectorExpr:
		if p, n, ok := c03Sel(f); ok {
			callee = p + "." + n
		}
	}
	if callee == "" {
		return bad("callee")
	}
	var lhs, args []string
	for _, l := range as.Lhs {
		id, ok := l.(*ast.Ident)
		if !ok {
			return bad("lhs")
		}
		lhs = append(lhs, leanStr(id.Name))
	}
	for _, a := range call.Args {
		switch v := a.(type) {
		case *ast.Ident:
			args = append(args, leanStr(v.Name))
		case *ast.BasicLit:
			args = append(args, leanStr(v.Value))
		default:
			return bad("args")
		}
	}
	ret, ok := fd.Body.List[1].(*ast.ReturnStmt)
	if !ok || len(ret.Results) != 1 {
		return bad("shape")
	}
	return fmt.Sprintf("{ param := %s, lhs := [%s], callee := %s, args := [%s], ret := %s }", leanStr(param),
		strings.Join(lhs, ", "), leanStr(callee), strings.Join(args, ", "), c.c03GoB(ret.Results[0]))
}

func init() {
	RegisterGen("C03", func(c *Ctx) string {
		var sb strings.Builder
		sb.WriteString("import Rare.Model.C03Wiring\nnamespace Rare.Gen.C03\nopen Rare.C03\n\n")

		// ---- helpers.DefaultSortFlag
		dfltName, dfltValue := "?", "?"
		if un, ok := c.Var("cmd/helpers/sorting.go", "DefaultSortFlag").(*ast.UnaryExpr); ok {
			if cl, ok := un.X.(*ast.CompositeLit); ok {
				for _, el := range cl.Elts {
					if kv, ok := el.(*ast.KeyValueExpr); ok {
						if k, ok := kv.Key.(*ast.Ident); ok {
							if s, ok := StringLit(kv.Value); ok {
								if k.Name == "Name" {
									dfltName = s
								} else if k.Name == "Value" {
									dfltValue = s
								}
							}
						}
					}
				}
			}
		}
		fmt.Fprintf(&sb, "/-- `helpers.DefaultSortFlag`: name and default value -/\ndef defaultSortFlag : String × String := (%s, %s)\n\n", leanStr(dfltName), leanStr(dfltValue))

		// ---- package-level sorters of namevalue.go
		const nvFile = "pkg/aggregation/sorting/namevalue.go"
		varNames := []string{}
		if f := c.File(nvFile); f != nil {
			for _, d := range f.Decls {
				if gd, ok := d.(*ast.GenDecl); ok && gd.Tok == token.VAR {
					for _, s := range gd.Specs {
						if vs, ok := s.(*ast.ValueSpec); ok {
							for i, n := range vs.Names {
								if i < len(vs.Values) {
									varNames = append(varNames, n.Name)
								}
							}
						}
					}
				}
			}
		}
		vars := map[string]bool{}
		for _, n := range varNames {
			vars[n] = true
		}
		var rows []string
		for _, n := range varNames {
			rows = append(rows, fmt.Sprintf("(%s, %s)", leanStr(n), c.c03SortExpr(c.Var(nvFile, n), map[string]bool{})))
		}
		fmt.Fprintf(&sb, "/-- the package-level sorters of sorting/namevalue.go, in source order -/\ndef sorterVars : List (String × SortExpr) := [\n  %s]\n\n", strings.Join(rows, ",\n  "))

		// ---- the CSV writers
		const csvFile = "pkg/csv/aggWriters.go"
		var writers []string
		if f := c.File(csvFile); f != nil {
			for _, d := range f.Decls {
				fd, ok := d.(*ast.FuncDecl)
				if !ok || fd.Recv != nil || !strings.HasPrefix(fd.Name.Name, "Write") || fd.Body == nil {
					continue
				}
				params := fd.Type.Params.List
				aggName, aggType := "?", "?"
				if len(params) == 2 && len(params[1].Names) == 1 {
					aggName = params[1].Names[0].Name
					aggType = strings.TrimPrefix(c.Print(params[1].Type), "*")
				}
				var ranges, calls, sorted []string
				ast.Inspect(fd.Body, func(n ast.Node) bool {
					switch v := n.(type) {
					case *ast.RangeStmt:
						ranges = append(ranges, leanStr(strings.Join(strings.Fields(c.Print(v.X)), " ")))
					case *ast.CallExpr:
						if se, ok := v.Fun.(*ast.SelectorExpr); ok {
							if id, ok := se.X.(*ast.Ident); ok && id.Name == aggName {
								calls = append(calls, leanStr(se.Sel.Name))
								for _, a := range v.Args {
									if p, _, ok := c03Sel(a); ok && p == "sorting" {
										sorted = append(sorted, fmt.Sprintf("(%s, %s)", leanStr(se.Sel.Name), c.c03SortExpr(a, vars)))
									}
								}
							}
						}
					}
					return true
				})
				writers = append(writers, fmt.Sprintf("{ name := %s, aggType := %s,\n    ranges := [%s],\n    sorted := [%s],\n    aggCalls := [%s] }",
					leanStr(fd.Name.Name), leanStr(aggType), strings.Join(ranges, ", "), strings.Join(sorted, ", "), strings.Join(calls, ", ")))
				c.Fingerprint(csvFile, fd.Name.Name)
			}
		}
		fmt.Fprintf(&sb, "/-- the functions `Write…` of pkg/csv/aggWriters.go, in source order: what they range over, which sorter goes\ninto which accessor, every method they call on the aggregator -/\ndef csvWriters : List CsvWriter := [\n  %s]\n\n", strings.Join(writers, ",\n  "))

		// ---- the commands
		var cmds []string
		for _, cm := range c03Cmds {
			fd := c.Func(cm.file, cm.fn)
			if fd == nil || fd.Body == nil {
				sb.WriteString(untranslatable("command_" + cm.name))
				continue
			}
			c.Fingerprint(cm.file, cm.fn)
			// flag name -> default value, from the Flags list of the command constructor
			flagDefault := map[string]string{}
			if cf := c.Func(cm.file, cm.cmdFn); cf != nil {
				ast.Inspect(cf, func(n ast.Node) bool {
					switch v := n.(type) {
					case *ast.CompositeLit:
						if p, t, ok := c03Sel(v.Type); ok && p == "cli" && t == "StringFlag" {
							nm, val := "", ""
							for _, el := range v.Elts {
								if kv, ok := el.(*ast.KeyValueExpr); ok {
									k, _ := kv.Key.(*ast.Ident)
									if k == nil {
										continue
									}
									if k.Name == "Name" {
										nm, _ = StringLit(kv.Value)
									}
									if k.Name == "Value" {
										if s, ok := StringLit(kv.Value); ok {
											val = s
										} else if strings.Join(strings.Fields(c.Print(kv.Value)), "") == "helpers.DefaultSortFlag.Value" {
											val = dfltValue
										} else {
											val = "<" + c.Print(kv.Value) + ">"
										}
									}
								}
							}
							if nm != "" {
								flagDefault[nm] = val
							}
						}
					case *ast.SelectorExpr:
						if p, n, ok := c03Sel(v); ok && p == "helpers" && n == "DefaultSortFlag" {
							if _, seen := flagDefault[dfltName]; !seen {
								flagDefault[dfltName] = dfltValue
							}
						}
					case *ast.CallExpr:
						if p, n, ok := c03Sel(v.Fun); ok && p == "helpers" && n == "DefaultSortFlagWithDefault" && len(v.Args) == 1 {
							if s, ok := StringLit(v.Args[0]); ok {
								flagDefault[dfltName] = s
							}
						}
					}
					return true
				})
			}
			// local string variables read from flags: v = c.String(<name>)
			strVar := map[string]string{}
			aggVar, aggCtor := "?", "?"
			var sorterFlags, otherSorters, loopAggs, order []string
			csvAgg, csvWriter := "", ""
			var exitArgs []string
			record := func(lhs ast.Expr, rhs ast.Expr) {
				id, ok := lhs.(*ast.Ident)
				if !ok {
					return
				}
				call, ok := rhs.(*ast.CallExpr)
				if !ok {
					return
				}
				if p, n, ok := c03Sel(call.Fun); ok {
					switch {
					case p == "c" && n == "String" && len(call.Args) == 1:
						if s, ok := StringLit(call.Args[0]); ok {
							strVar[id.Name] = s
						} else if strings.Join(strings.Fields(c.Print(call.Args[0])), "") == "helpers.DefaultSortFlag.Name" {
							strVar[id.Name] = dfltName
						}
					case p == "aggregation" && strings.HasPrefix(n, "New") && aggVar == "?":
						aggVar, aggCtor = id.Name, "aggregation."+n
					case p == "helpers" && n == "BuildSorterOrFail" && len(call.Args) == 1:
						flag := "?"
						if a, ok := call.Args[0].(*ast.Ident); ok {
							flag = strVar[a.Name]
						}
						dv, ok := flagDefault[flag]
						if !ok {
							dv = "?"
						}
						sorterFlags = append(sorterFlags, fmt.Sprintf("(%s, %s, %s)", leanStr(id.Name), leanStr(flag), leanStr(dv)))
					case p == "sorting":
						otherSorters = append(otherSorters, fmt.Sprintf("(%s, %s)", leanStr(id.Name), c.c03SortExpr(rhs, vars)))
					}
				}
			}
			c03InspectNoLit(fd.Body, func(n ast.Node) {
				switch v := n.(type) {
				case *ast.AssignStmt:
					for i := range v.Lhs {
						if i < len(v.Rhs) {
							record(v.Lhs[i], v.Rhs[i])
						}
					}
				case *ast.ValueSpec:
					for i, nm := range v.Names {
						if i < len(v.Values) {
							record(nm, v.Values[i])
						}
					}
				case *ast.CallExpr:
					if p, n, ok := c03Sel(v.Fun); ok {
						step := ""
						switch {
						case p == "helpers" && n == "RunAggregationLoop":
							step = "RunAggregationLoop"
							ids := c03Idents(v.Args)
							if len(ids) >= 2 {
								loopAggs = append(loopAggs, ids[1])
							}
						case p == "helpers" && n == "TryWriteCSV":
							step = "TryWriteCSV"
							ids := c03Idents(v.Args)
							if len(ids) == 3 {
								csvAgg, csvWriter = ids[1], ids[2]
							}
						case p == "helpers" && n == "DetermineErrorState":
							step = "DetermineErrorState"
							exitArgs = c03Idents(v.Args)
						case n == "Close" && len(v.Args) == 0 && (p == "writer" || p == "vt" || p == "table"):
							step = "Close"
						}
						if step != "" && (len(order) == 0 || order[len(order)-1] != step) {
							order = append(order, step)
						}
					}
				}
			})
			sort.Strings(loopAggs)
			loopAgg := "?"
			if len(loopAggs) > 0 && loopAggs[0] == loopAggs[len(loopAggs)-1] {
				loopAgg = loopAggs[0]
			}
			cmds = append(cmds, fmt.Sprintf("{ name := %s, aggCtor := %s, aggVar := %s, loopAgg := %s,\n    sorterFlags := [%s],\n    otherSorters := [%s],\n    csvWriter := %s, csvAgg := %s, exitArgs := %s,\n    order := %s }",
				leanStr(cm.name), leanStr(aggCtor), leanStr(aggVar), leanStr(loopAgg), strings.Join(sorterFlags, ", "), strings.Join(otherSorters, ", "),
				leanStr(csvWriter), leanStr(csvAgg), leanStrList(exitArgs), leanStrList(order)))
		}
		fmt.Fprintf(&sb, "/-- the aggregating commands: constructor, the aggregator handed to the loop / the CSV writer / the exit-code\nfunction, sorter flags `(variable, flag, default)`, sorters built without a flag, order of the final steps -/\ndef commands : List Command := [\n  %s]\n\n", strings.Join(cmds, ",\n  "))

		// ---- DetermineErrorState
		const exitFile = "cmd/helpers/exitCodes.go"
		consts := map[string]int64{}
		for _, n := range []string{"ExitCodeNoData", "ExitCodeInvalidUsage"} {
			if v, ok := IntLit(c.Var(exitFile, n)); ok {
				consts[n] = v
			}
		}
		obs := func(e ast.Expr) string {
			if call, ok := e.(*ast.CallExpr); ok && len(call.Args) == 0 {
				if _, n, ok := c03Sel(call.Fun); ok {
					switch n {
					case "ReadErrors":
						return ".readErrors"
					case "ParseErrors":
						return ".parseErrors"
					case "MatchedLines":
						return ".matchedLines"
					}
				}
			}
			return "(.other " + leanStr(c.Print(e)) + ")"
		}
		var cond func(e ast.Expr) string
		cond = func(e ast.Expr) string {
			if be, ok := e.(*ast.BinaryExpr); ok {
				zero := func(x ast.Expr) bool { v, ok := IntLit(x); return ok && v == 0 }
				isNil := func(x ast.Expr) bool { id, ok := x.(*ast.Ident); return ok && id.Name == "nil" }
				switch {
				case be.Op == token.GTR && zero(be.Y):
					return "(.gt0 " + obs(be.X) + ")"
				case be.Op == token.EQL && zero(be.Y):
					return "(.eq0 " + obs(be.X) + ")"
				case be.Op == token.NEQ && isNil(be.Y):
					if id, ok := be.X.(*ast.Ident); ok && id.Name == "agg" {
						return ".aggNotNil"
					}
				case be.Op == token.LAND:
					return "(.and " + cond(be.X) + " " + cond(be.Y) + ")"
				}
			}
			return "(.other " + leanStr(strings.Join(strings.Fields(c.Print(e)), " ")) + ")"
		}
		exitCode := func(r *ast.ReturnStmt) (int64, bool) {
			if len(r.Results) != 1 {
				return 0, false
			}
			if id, ok := r.Results[0].(*ast.Ident); ok && id.Name == "nil" {
				return 0, true
			}
			if call, ok := r.Results[0].(*ast.CallExpr); ok && len(call.Args) == 2 {
				if p, n, ok := c03Sel(call.Fun); ok && p == "cli" && n == "Exit" {
					if id, ok := call.Args[1].(*ast.Ident); ok {
						v, ok := consts[id.Name]
						return v, ok
					}
				}
			}
			return 0, false
		}
		okChain := false
		if fd := c.Func(exitFile, "DetermineErrorState"); fd != nil && fd.Body != nil {
			c.Fingerprint(exitFile, "DetermineErrorState")
			var chain []string
			good := true
			dflt := int64(-1)
			for i, st := range fd.Body.List {
				switch v := st.(type) {
				case *ast.IfStmt:
					if v.Init != nil || v.Else != nil || len(v.Body.List) != 1 {
						good = false
						break
					}
					r, ok := v.Body.List[0].(*ast.ReturnStmt)
					if !ok {
						good = false
						break
					}
					code, ok := exitCode(r)
					if !ok {
						good = false
						break
					}
					chain = append(chain, fmt.Sprintf("(%s, %d)", cond(v.Cond), code))
				case *ast.ReturnStmt:
					code, ok := exitCode(v)
					if !ok || i != len(fd.Body.List)-1 {
						good = false
					}
					dflt = code
				default:
					good = false
				}
			}
			if good && dflt >= 0 {
				okChain = true
				fmt.Fprintf(&sb, "/-- `DetermineErrorState`: the `if <cond> { return cli.Exit(…, <code>) }` chain and the final `return nil` (0) -/\ndef exitChain : List (Cond × Nat) := [%s]\ndef exitDefault : Nat := %d\n\n", strings.Join(chain, ", "), dflt)
			}
		}
		if !okChain {
			sb.WriteString(untranslatable("exitChain"))
		}
		fmt.Fprintf(&sb, "def exitCodeNoData : Nat := %d\ndef exitCodeInvalidUsage : Nat := %d\n\n", consts["ExitCodeNoData"], consts["ExitCodeInvalidUsage"])

		// ---- the flags every aggregating command declares: (kind, name, aliases, default as the source spells it);
		// shared flag variables (helpers.CSVFlag …) and helper calls appear with kind "shared" and their source text
		{
			var rows []string
			for _, cm := range c03Cmds {
				var flags []string
				if cf := c.Func(cm.file, cm.cmdFn); cf != nil {
					ast.Inspect(cf, func(n ast.Node) bool {
						kv, ok := n.(*ast.KeyValueExpr)
						if !ok {
							return true
						}
						if id, ok := kv.Key.(*ast.Ident); !ok || id.Name != "Flags" {
							return true
						}
						cl, ok := kv.Value.(*ast.CompositeLit)
						if !ok {
							return true
						}
						for _, el := range cl.Elts {
							src := strings.Join(strings.Fields(c.Print(el)), " ")
							ue, ok := el.(*ast.UnaryExpr)
							var lit *ast.CompositeLit
							if ok {
								lit, _ = ue.X.(*ast.CompositeLit)
							}
							if lit == nil {
								flags = append(flags, fmt.Sprintf("(\"shared\", %s, [], \"\")", leanStr(src)))
								continue
							}
							kind := strings.TrimPrefix(c.Print(lit.Type), "cli.")
							name, dflt := "", ""
							var aliases []string
							for _, f := range lit.Elts {
								fkv, ok := f.(*ast.KeyValueExpr)
								if !ok {
									continue
								}
								k, _ := fkv.Key.(*ast.Ident)
								if k == nil {
									continue
								}
								switch k.Name {
								case "Name":
									name = strings.Trim(c.Print(fkv.Value), "\"")
								case "Value":
									dflt = strings.Join(strings.Fields(c.Print(fkv.Value)), " ")
								case "Aliases":
									if al, ok := fkv.Value.(*ast.CompositeLit); ok {
										for _, a := range al.Elts {
											aliases = append(aliases, leanStr(strings.Trim(c.Print(a), "\"")))
										}
									}
								}
							}
							flags = append(flags, fmt.Sprintf("(%s, %s, [%s], %s)", leanStr(kind), leanStr(name), strings.Join(aliases, ", "), leanStr(dflt)))
						}
						return false
					})
				}
				rows = append(rows, fmt.Sprintf("(%s, [\n    %s])", leanStr(cm.name), strings.Join(flags, ",\n    ")))
			}
			fmt.Fprintf(&sb, "/-- the flags of every aggregating command: `(kind, name, aliases, default as spelled in the source)`; shared flag\nvariables and helper calls have kind `shared` and their source text as name -/\ndef commandFlags : List (String × List (String × String × List String × String)) := [\n  %s]\n\n", strings.Join(rows, ",\n  "))
		}
		// ---- how every command reads its flags: `(variable, accessor, flag)` of the leading `var ( … = c.Xxx("flag") )` block
		{
			var rows []string
			for _, cm := range c03Cmds {
				var reads []string
				if fd := c.Func(cm.file, cm.fn); fd != nil && fd.Body != nil {
					for _, st := range fd.Body.List {
						ds, ok := st.(*ast.DeclStmt)
						if !ok {
							continue
						}
						gd, ok := ds.Decl.(*ast.GenDecl)
						if !ok {
							continue
						}
						for _, sp := range gd.Specs {
							vs, ok := sp.(*ast.ValueSpec)
							if !ok || len(vs.Names) != 1 || len(vs.Values) != 1 {
								continue
							}
							reads = append(reads, fmt.Sprintf("(%s, %s)", leanStr(vs.Names[0].Name), leanStr(strings.Join(strings.Fields(c.Print(vs.Values[0])), " "))))
						}
					}
				}
				rows = append(rows, fmt.Sprintf("(%s, [%s])", leanStr(cm.name), strings.Join(reads, ", ")))
			}
			fmt.Fprintf(&sb, "/-- the leading `var ( … )` block of every command function: `(variable, initialiser as spelled in the source)` -/\ndef commandFlagReads : List (String × List (String × String)) := [\n  %s]\n\n", strings.Join(rows, ",\n  "))
		}
		// ---- the trim step of spark's render callback and helpers.SortsByValue
		{
			guard, body := "<missing>", []string{}
			var guardEx ast.Expr
			if fd := c.Func("cmd/spark.go", "sparkFunction"); fd != nil {
				ast.Inspect(fd, func(n ast.Node) bool {
					call, ok := n.(*ast.CallExpr)
					if !ok {
						return true
					}
					if p, nm, ok := c03Sel(call.Fun); !ok || p != "helpers" || nm != "RunAggregationLoop" || len(call.Args) != 3 {
						return true
					}
					fl, ok := call.Args[2].(*ast.FuncLit)
					if !ok {
						return true
					}
					for _, st := range fl.Body.List {
						if is, ok := st.(*ast.IfStmt); ok {
							guard = strings.Join(strings.Fields(c.Print(is.Cond)), " ")
							guardEx = is.Cond
							for _, l := range strings.Split(c.Print(is.Body), "\n") {
								if t := strings.Join(strings.Fields(l), " "); t != "" {
									body = append(body, leanStr(t))
								}
							}
							break
						}
					}
					return false
				})
			}
			sbv := "<missing>"
			guardE := "(.other \"<missing>\")"
			sbvFn := c.c03SbvSrc(c.Func("cmd/helpers/sorting.go", "SortsByValue"))
			if fd := c.Func("cmd/helpers/sorting.go", "SortsByValue"); fd != nil && fd.Body != nil {
				var ls []string
				for _, l := range strings.Split(c.Print(fd.Body), "\n") {
					if t := strings.Join(strings.Fields(l), " "); t != "" {
						ls = append(ls, t)
					}
				}
				sbv = strings.Join(ls, " ")
			}
			if guardEx != nil {
				guardE = c.c03GoB(guardEx)
			}
			fmt.Fprintf(&sb, "/-- the guard of spark's trim step as an expression, and helpers.SortsByValue as a function -/\ndef sparkTrimGuardE : GoB := %s\ndef sortsByValueFn : SbvSrc := %s\n\n", guardE, sbvFn)
			fmt.Fprintf(&sb, "/-- cmd/spark.go, render callback: the guard of the trim step and its body, line by line -/\ndef sparkTrimGuard : String := %s\ndef sparkTrimBody : List String := [\n  %s]\n/-- the body of helpers.SortsByValue -/\ndef sortsByValueSrc : String := %s\n\n", leanStr(guard), strings.Join(body, ",\n  "), leanStr(sbv))
		}

		// ---- cmd/histo.go writeHistoOutput, aggregation.minSlice, and the footer format strings of the five counting commands
		{
			bodyOf := func(file, fn string) []string {
				var ls []string
				if fd := c.Func(file, fn); fd != nil && fd.Body != nil {
					for _, l := range strings.Split(c.Print(fd.Body), "\n") {
						if t := strings.Join(strings.Fields(l), " "); t != "" {
							ls = append(ls, leanStr(t))
						}
					}
				} else {
					ls = append(ls, leanStr("<missing>"))
				}
				return ls
			}
			fmt.Fprintf(&sb, "/-- cmd/histo.go `writeHistoOutput`, line by line -/\ndef histoOutputBody : List String := [\n  %s]\n\n", strings.Join(bodyOf("cmd/histo.go", "writeHistoOutput"), ",\n  "))
			fmt.Fprintf(&sb, "/-- pkg/aggregation/counter.go `minSlice` -/\ndef minSliceBody : List String := [\n  %s]\n\n", strings.Join(bodyOf("pkg/aggregation/counter.go", "minSlice"), ",\n  "))
			var rows []string
			for _, cf := range [][3]string{{"histo", "cmd/histo.go", "histoFunction"}, {"table", "cmd/tabulate.go", "tabulateFunction"},
				{"heatmap", "cmd/heatmap.go", "heatmapFunction"}, {"spark", "cmd/spark.go", "sparkFunction"}, {"bargraph", "cmd/bargraph.go", "bargraphFunction"}} {
				var calls []string
				if fd := c.Func(cf[1], cf[2]); fd != nil {
					ast.Inspect(fd, func(n ast.Node) bool {
						call, ok := n.(*ast.CallExpr)
						if !ok {
							return true
						}
						if p, nm, ok := c03Sel(call.Fun); ok && p == "helpers" && nm == "FWriteExtractorSummary" {
							calls = append(calls, leanStr(strings.Join(strings.Fields(c.Print(call)), " ")))
						}
						return true
					})
				}
				rows = append(rows, fmt.Sprintf("(%s, [%s])", leanStr(cf[0]), strings.Join(calls, ", ")))
			}
			fmt.Fprintf(&sb, "/-- every `helpers.FWriteExtractorSummary(…)` call of the five counting commands, as spelled in the source -/\ndef footerCalls : List (String × List String) := [\n  %s]\n\n", strings.Join(rows, ",\n  "))
		}

		for _, fn := range [][2]string{
			{"cmd/reduce.go", "parseKeyValInitial"}, {"cmd/expressions.go", "parseKeyValue"},
			{"cmd/analyze.go", "writeAggrOutput"}, {"cmd/analyze.go", "parseStringSet"},
			{"cmd/helpers/summary.go", "FWriteExtractorSummary"}, {"cmd/helpers/summary.go", "FWriteMatchSummary"},
			{"cmd/helpers/output.go", "TryWriteCSV"}, {"cmd/helpers/output.go", "BuildVTermFromArguments"},
			{"pkg/csv/csvfile.go", "NewCSV"}, {"pkg/csv/csvfile.go", "CSVFile.WriteRow"},
		} {
			c.Fingerprint(fn[0], fn[1])
		}
		sb.WriteString("end Rare.Gen.C03\n")
		return sb.String()
	})
}
