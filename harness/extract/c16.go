package main

import (
	"fmt"
	"go/ast"
	"go/token"
	"strings"
)

// C16: the escape table of pkg/minijson and the literal pieces the object builder writes,
// regenerated from the Go source on every run (lean/Rare/Gen/C16.lean).  Props/C16.lean states
// escape_complete etc. about `Rare.Gen.C16.escapeLookup`, so a mutated table breaks a proof.

func c16Bytes(s string) string {
	if len(s) == 0 {
		return "[]"
	}
	parts := make([]string, len(s))
	for i := 0; i < len(s); i++ {
		parts[i] = fmt.Sprintf("0x%02x", s[i])
	}
	return "[" + strings.Join(parts, ", ") + "]"
}

func c16BytesList(l []string) string {
	parts := make([]string, len(l))
	for i, s := range l {
		parts[i] = c16Bytes(s)
	}
	return "[" + strings.Join(parts, ", ") + "]"
}

// c16ArrayTable evaluates `[N]string{idx: "lit", ...}` (keys: char or int literals).
func c16ArrayTable(e ast.Expr) ([]string, bool) {
	cl, ok := e.(*ast.CompositeLit)
	if !ok {
		return nil, false
	}
	at, ok := cl.Type.(*ast.ArrayType)
	if !ok || at.Len == nil {
		return nil, false
	}
	n, ok := IntLit(at.Len)
	if !ok || n <= 0 || n > 4096 {
		return nil, false
	}
	out := make([]string, n)
	next := int64(0)
	for _, el := range cl.Elts {
		val := el
		if kv, ok := el.(*ast.KeyValueExpr); ok {
			k, ok := IntLit(kv.Key)
			if !ok {
				return nil, false
			}
			next = k
			val = kv.Value
		}
		if next < 0 || next >= n {
			return nil, false
		}
		s, ok := StringLit(val)
		if !ok {
			return nil, false
		}
		out[next] = s
		next++
	}
	return out, true
}

// c16WrittenLits: the string / rune literals passed to s.sb.Write{String,Rune,Byte} inside a
// function, in source order (non-literal arguments are skipped).
func c16WrittenLits(fd *ast.FuncDecl) ([]string, bool) {
	if fd == nil {
		return nil, false
	}
	var out []string
	ast.Inspect(fd, func(n ast.Node) bool {
		call, ok := n.(*ast.CallExpr)
		if !ok || len(call.Args) != 1 {
			return true
		}
		sel, ok := call.Fun.(*ast.SelectorExpr)
		if !ok || !strings.HasPrefix(sel.Sel.Name, "Write") {
			return true
		}
		if bl, ok := call.Args[0].(*ast.BasicLit); ok && (bl.Kind == token.STRING || bl.Kind == token.CHAR) {
			if s, ok := StringLit(bl); ok {
				out = append(out, s)
			}
		}
		return true
	})
	return out, true
}

// c16CallLits: string literals appearing as arguments of calls to a given method inside fd.
func c16CallLits(fd *ast.FuncDecl, method string) ([]string, bool) {
	if fd == nil {
		return nil, false
	}
	var out []string
	ast.Inspect(fd, func(n ast.Node) bool {
		call, ok := n.(*ast.CallExpr)
		if !ok {
			return true
		}
		sel, ok := call.Fun.(*ast.SelectorExpr)
		if !ok || sel.Sel.Name != method {
			return true
		}
		for _, a := range call.Args {
			if bl, ok := a.(*ast.BasicLit); ok && bl.Kind == token.STRING {
				if s, ok := StringLit(bl); ok {
					out = append(out, s)
				}
			}
		}
		return true
	})
	return out, true
}


// ---- statement-by-statement translation of `isNumeric` (and of any function of the same shape: a string
// parameter scanned by `for ; i < len(s); i++` loops with early returns)
//
// Values are Lean `Int`s (bytes through `byteAt s k`, total).  A loop body becomes a function `Int → Flow`
// (`ret b` = return, `brk i` = break / loop exit with index i, `next i` = fall through to the post statement);
// `runLoop` (fixed prelude) iterates it.  Anything outside the expected subset makes the whole definition
// `untranslatable`, which breaks `isNumeric_matches_source` in Props/C16.lean.

type c16tr struct {
	c     *Ctx
	param string // the string parameter
	ok    bool
	why   string
}

func (t *c16tr) fail(why string) string {
	if t.ok {
		t.ok = false
		t.why = why
	}
	return "default"
}

// integer-valued expression
func (t *c16tr) intExpr(e ast.Expr) string {
	switch v := e.(type) {
	case *ast.ParenExpr:
		return t.intExpr(v.X)
	case *ast.BasicLit:
		if n, ok := IntLit(v); ok {
			return fmt.Sprintf("(%d : Int)", n)
		}
	case *ast.Ident:
		if v.Name == "i" || v.Name == "r" {
			return v.Name
		}
	case *ast.CallExpr:
		if id, ok := v.Fun.(*ast.Ident); ok && id.Name == "len" && len(v.Args) == 1 {
			if a, ok := v.Args[0].(*ast.Ident); ok && a.Name == t.param {
				return "len"
			}
		}
	case *ast.IndexExpr:
		if a, ok := v.X.(*ast.Ident); ok && a.Name == t.param {
			return "(byteAt " + t.param + " " + t.intExpr(v.Index) + ")"
		}
	case *ast.BinaryExpr:
		if v.Op == token.ADD {
			return "(" + t.intExpr(v.X) + " + " + t.intExpr(v.Y) + ")"
		}
		if v.Op == token.SUB {
			return "(" + t.intExpr(v.X) + " - " + t.intExpr(v.Y) + ")"
		}
	}
	return t.fail("integer expression " + t.c.Print(e))
}

func (t *c16tr) boolExpr(e ast.Expr) string {
	switch v := e.(type) {
	case *ast.ParenExpr:
		return t.boolExpr(v.X)
	case *ast.Ident:
		if v.Name == "true" || v.Name == "false" {
			return v.Name
		}
	case *ast.UnaryExpr:
		if v.Op == token.NOT {
			return "(!" + t.boolExpr(v.X) + ")"
		}
	case *ast.BinaryExpr:
		switch v.Op {
		case token.LAND:
			return "(" + t.boolExpr(v.X) + " && " + t.boolExpr(v.Y) + ")"
		case token.LOR:
			return "(" + t.boolExpr(v.X) + " || " + t.boolExpr(v.Y) + ")"
		case token.EQL:
			return "(decide (" + t.intExpr(v.X) + " = " + t.intExpr(v.Y) + "))"
		case token.NEQ:
			return "(decide (" + t.intExpr(v.X) + " ≠ " + t.intExpr(v.Y) + "))"
		case token.LSS:
			return "(decide (" + t.intExpr(v.X) + " < " + t.intExpr(v.Y) + "))"
		case token.GTR:
			return "(decide (" + t.intExpr(v.X) + " > " + t.intExpr(v.Y) + "))"
		case token.LEQ:
			return "(decide (" + t.intExpr(v.X) + " ≤ " + t.intExpr(v.Y) + "))"
		case token.GEQ:
			return "(decide (" + t.intExpr(v.X) + " ≥ " + t.intExpr(v.Y) + "))"
		}
	}
	return t.fail("condition " + t.c.Print(e))
}

// statements inside a loop body, followed by the continuation `rest` (the statements after an `if` without else)
func (t *c16tr) flow(stmts []ast.Stmt) string {
	if len(stmts) == 0 {
		return ".next i"
	}
	rest := stmts[1:]
	switch v := stmts[0].(type) {
	case *ast.AssignStmt:
		if v.Tok == token.DEFINE && len(v.Lhs) == 1 && len(v.Rhs) == 1 {
			if id, ok := v.Lhs[0].(*ast.Ident); ok && id.Name == "r" {
				return "let r : Int := " + t.intExpr(v.Rhs[0]) + "; " + t.flow(rest)
			}
		}
	case *ast.IncDecStmt:
		if id, ok := v.X.(*ast.Ident); ok && id.Name == "i" && v.Tok == token.INC {
			return "let i : Int := i + 1; " + t.flow(rest)
		}
	case *ast.ReturnStmt:
		if len(v.Results) == 1 {
			return ".ret " + t.boolExpr(v.Results[0])
		}
	case *ast.BranchStmt:
		if v.Tok == token.BREAK && v.Label == nil {
			return ".brk i"
		}
	case *ast.IfStmt:
		if v.Init == nil && v.Else == nil {
			body := append(append([]ast.Stmt{}, v.Body.List...), rest...)
			return "(if " + t.boolExpr(v.Cond) + " then (" + t.flow(body) + ") else (" + t.flow(rest) + "))"
		}
	}
	return t.fail("loop statement " + t.c.Print(stmts[0]))
}

// top-level statements of the function
func (t *c16tr) top(stmts []ast.Stmt) string {
	if len(stmts) == 0 {
		return t.fail("function falls off its end")
	}
	rest := stmts[1:]
	switch v := stmts[0].(type) {
	case *ast.IfStmt:
		if v.Init == nil && v.Else == nil && len(v.Body.List) == 1 {
			if r, ok := v.Body.List[0].(*ast.ReturnStmt); ok && len(r.Results) == 1 {
				return "if " + t.boolExpr(v.Cond) + " then " + t.boolExpr(r.Results[0]) + " else\n  " + t.top(rest)
			}
		}
	case *ast.AssignStmt:
		if v.Tok == token.DEFINE && len(v.Lhs) == 1 && len(v.Rhs) == 1 {
			if id, ok := v.Lhs[0].(*ast.Ident); ok && id.Name == "i" {
				return "let i : Int := " + t.intExpr(v.Rhs[0]) + "\n  " + t.top(rest)
			}
		}
	case *ast.ForStmt:
		// exactly `for ; i < len(s); i++`
		okShape := v.Init == nil && v.Cond != nil && v.Post != nil
		if okShape {
			okShape = strings.Join(strings.Fields(t.c.Print(v.Cond)), "") == "i<len("+t.param+")" &&
				strings.Join(strings.Fields(t.c.Print(v.Post)), "") == "i++"
		}
		if okShape {
			return "(runLoop len (fun i => " + t.flow(v.Body.List) + ") " + t.param + ".length i).cont fun i =>\n  " + t.top(rest)
		}
	case *ast.ReturnStmt:
		if len(v.Results) == 1 && len(rest) == 0 {
			return t.boolExpr(v.Results[0])
		}
	}
	return t.fail("statement " + t.c.Print(stmts[0]))
}

const c16Prelude = `/-- ` + "`s[k]`" + ` as an ` + "`Int`" + ` (total; the source only evaluates it under a bounds guard) -/
def byteAt (s : List UInt8) (k : Int) : Int := ((s.getD k.toNat 0).toNat : Int)

/-- outcome of one loop body: ` + "`return b`" + `, ` + "`break`" + ` with index ` + "`i`" + `, or fall through to the post statement -/
inductive Flow where
  | ret (b : Bool)
  | brk (i : Int)
  | next (i : Int)

/-- what follows a loop: a ` + "`return`" + ` inside it ends the function, otherwise the code after the loop runs with ` + "`i`" + ` -/
def Flow.cont (f : Flow) (k : Int → Bool) : Bool :=
  match f with
  | .ret b => b
  | .brk i => k i
  | .next i => k i

/-- ` + "`for ; i < len; i++ { body }`" + ` (the fuel is an upper bound on the number of iterations) -/
def runLoop (len : Int) (body : Int → Flow) : Nat → Int → Flow
  | 0, i => .brk i
  | fuel + 1, i =>
    if i < len then
      match body i with
      | .next i' => runLoop len body fuel (i' + 1)
      | f => f
    else .brk i

`

func c16ScanFunc(c *Ctx, rel, name, lean string) string {
	fd := c.Func(rel, name)
	if fd == nil || fd.Body == nil || fd.Type.Params == nil || len(fd.Type.Params.List) != 1 || len(fd.Type.Params.List[0].Names) != 1 {
		return untranslatable(lean)
	}
	t := &c16tr{c: c, param: fd.Type.Params.List[0].Names[0].Name, ok: true}
	body := t.top(fd.Body.List)
	if !t.ok {
		return fmt.Sprintf("-- %s: %s\n", name, strings.ReplaceAll(t.why, "\n", " ")) + untranslatable(lean)
	}
	return fmt.Sprintf("/-- `%s` of %s, statement by statement -/\ndef %s (%s : List UInt8) : Bool :=\n  let len : Int := %s.length\n  %s\n\n",
		name, rel, lean, t.param, t.param, body)
}

// ---- statement-by-statement translation of `escape`: a `strings.Builder` and a bool flag updated by one
// `for i := 0; i < len(s); i++` loop over the bytes of the parameter, then `if flag { return sb.String() }; return s`.
//
// The locals become the record `EscSt` (flag, builder contents); every statement is a state transformer
// (`let st := …`), a block is the chain of its statements, the loop is a fold over `List.range s.length`.
// `sb.Grow` only reserves capacity (identity).  Anything outside the subset makes the definition `untranslatable`,
// which breaks `escape_matches_source` in Props/C16.lean.

type c16esc struct {
	c      *Ctx
	param  string // the string parameter
	sb     string // the strings.Builder local
	flag   string // the bool local
	table  string // the package-level lookup table
	ok     bool
	why    string
}

func (t *c16esc) fail(why string) string {
	if t.ok {
		t.ok = false
		t.why = why
	}
	return "st"
}

func (t *c16esc) squash(n ast.Node) string { return strings.Join(strings.Fields(t.c.Print(n)), "") }

// a []byte-valued argument of sb.WriteString
func (t *c16esc) bytesExpr(e ast.Expr) string {
	switch v := e.(type) {
	case *ast.SliceExpr:
		if id, ok := v.X.(*ast.Ident); ok && id.Name == t.param && v.Low == nil && v.High != nil && !v.Slice3 {
			if h, ok := v.High.(*ast.Ident); ok && h.Name == "i" {
				return "(" + t.param + ".take i)"
			}
		}
	case *ast.IndexExpr:
		if id, ok := v.X.(*ast.Ident); ok && id.Name == t.table {
			if ix, ok := v.Index.(*ast.Ident); ok && ix.Name == "c" {
				return "(" + t.table + ".getD c.toNat [])"
			}
		}
	}
	return t.fail("bytes expression " + t.c.Print(e))
}

func (t *c16esc) cond(e ast.Expr) string {
	switch v := e.(type) {
	case *ast.ParenExpr:
		return t.cond(v.X)
	case *ast.Ident:
		if v.Name == t.flag {
			return "st.flag"
		}
	case *ast.UnaryExpr:
		if v.Op == token.NOT {
			return "(!" + t.cond(v.X) + ")"
		}
	case *ast.BinaryExpr:
		switch v.Op {
		case token.LAND:
			return "(" + t.cond(v.X) + " && " + t.cond(v.Y) + ")"
		case token.LOR:
			return "(" + t.cond(v.X) + " || " + t.cond(v.Y) + ")"
		case token.LSS:
			if t.squash(v.X) == "int(c)" && t.squash(v.Y) == "len("+t.table+")" {
				return "(decide (c.toNat < " + t.table + ".length))"
			}
		case token.NEQ:
			if t.squash(v.Y) == `""` {
				return "(" + t.bytesExpr(v.X) + " != [])"
			}
		case token.EQL:
			if t.squash(v.Y) == `""` {
				return "(" + t.bytesExpr(v.X) + " == [])"
			}
		}
	}
	return t.fail("condition " + t.c.Print(e))
}

// one statement as an expression of type EscSt (with `st`, `i`, `c` in scope)
func (t *c16esc) stmt(s ast.Stmt) string {
	switch v := s.(type) {
	case *ast.ExprStmt:
		if call, ok := v.X.(*ast.CallExpr); ok {
			if sel, ok := call.Fun.(*ast.SelectorExpr); ok {
				if id, ok := sel.X.(*ast.Ident); ok && id.Name == t.sb && len(call.Args) == 1 {
					switch sel.Sel.Name {
					case "Grow":
						return "st"
					case "WriteString":
						return "{ st with sb := st.sb ++ " + t.bytesExpr(call.Args[0]) + " }"
					case "WriteByte":
						if a, ok := call.Args[0].(*ast.Ident); ok && a.Name == "c" {
							return "{ st with sb := st.sb ++ [c] }"
						}
					}
				}
			}
		}
	case *ast.AssignStmt:
		if v.Tok == token.ASSIGN && len(v.Lhs) == 1 && len(v.Rhs) == 1 {
			if id, ok := v.Lhs[0].(*ast.Ident); ok && id.Name == t.flag {
				if b, ok := v.Rhs[0].(*ast.Ident); ok && (b.Name == "true" || b.Name == "false") {
					return "{ st with flag := " + b.Name + " }"
				}
			}
		}
	case *ast.IfStmt:
		if v.Init == nil {
			els := "st"
			switch e := v.Else.(type) {
			case nil:
			case *ast.BlockStmt:
				els = t.block(e.List)
			case *ast.IfStmt:
				els = t.stmt(e)
			default:
				return t.fail("else " + t.c.Print(v.Else))
			}
			return "(if " + t.cond(v.Cond) + " then " + t.block(v.Body.List) + " else " + els + ")"
		}
	}
	return t.fail("statement " + t.c.Print(s))
}

func (t *c16esc) block(stmts []ast.Stmt) string {
	var sb strings.Builder
	sb.WriteString("(")
	for _, s := range stmts {
		if a, ok := s.(*ast.AssignStmt); ok && a.Tok == token.DEFINE && len(a.Lhs) == 1 && len(a.Rhs) == 1 {
			// c := s[i]
			if id, ok := a.Lhs[0].(*ast.Ident); ok && id.Name == "c" && t.squash(a.Rhs[0]) == t.param+"[i]" {
				sb.WriteString("let c : UInt8 := " + t.param + ".getD i 0; ")
				continue
			}
			t.fail("definition " + t.c.Print(s))
			continue
		}
		sb.WriteString("let st : EscSt := " + t.stmt(s) + "; ")
	}
	sb.WriteString("st)")
	return sb.String()
}

const c16EscPrelude = `/-- the locals of ` + "`escape`" + `: the flag ` + "`hasMapped`" + ` and the contents of the ` + "`strings.Builder`" + ` -/
structure EscSt where
  flag : Bool
  sb : List UInt8

`

func c16EscapeFunc(c *Ctx, rel, name string) string {
	fd := c.Func(rel, name)
	bad := func(why string) string {
		return fmt.Sprintf("-- %s: %s\n", name, strings.ReplaceAll(why, "\n", " ")) + untranslatable("escape")
	}
	if fd == nil || fd.Body == nil || fd.Type.Params == nil || len(fd.Type.Params.List) != 1 || len(fd.Type.Params.List[0].Names) != 1 {
		return bad("signature")
	}
	t := &c16esc{c: c, param: fd.Type.Params.List[0].Names[0].Name, table: "escapeLookup", ok: true}
	st := fd.Body.List
	if len(st) != 5 {
		return bad("expected 5 top-level statements")
	}
	// var sb strings.Builder
	if ds, ok := st[0].(*ast.DeclStmt); ok && strings.HasPrefix(t.squash(ds), "var") && strings.HasSuffix(t.squash(ds), "strings.Builder") {
		if gd, ok := ds.Decl.(*ast.GenDecl); ok && len(gd.Specs) == 1 {
			if vs, ok := gd.Specs[0].(*ast.ValueSpec); ok && len(vs.Names) == 1 && len(vs.Values) == 0 {
				t.sb = vs.Names[0].Name
			}
		}
	}
	if t.sb == "" {
		return bad("builder declaration " + c.Print(st[0]))
	}
	// hasMapped := false
	init := ""
	if a, ok := st[1].(*ast.AssignStmt); ok && a.Tok == token.DEFINE && len(a.Lhs) == 1 && len(a.Rhs) == 1 {
		if id, ok := a.Lhs[0].(*ast.Ident); ok {
			if b, ok := a.Rhs[0].(*ast.Ident); ok && (b.Name == "true" || b.Name == "false") {
				t.flag, init = id.Name, b.Name
			}
		}
	}
	if t.flag == "" {
		return bad("flag initialisation " + c.Print(st[1]))
	}
	// for i := 0; i < len(s); i++ { … }
	loop, ok := st[2].(*ast.ForStmt)
	if !ok || loop.Init == nil || loop.Cond == nil || loop.Post == nil || t.squash(loop.Init) != "i:=0" ||
		t.squash(loop.Cond) != "i<len("+t.param+")" || t.squash(loop.Post) != "i++" {
		return bad("loop header " + c.Print(st[2]))
	}
	body := t.block(loop.Body.List)
	// if hasMapped { return sb.String() }; return s
	fin, ok := st[3].(*ast.IfStmt)
	if !ok || fin.Init != nil || fin.Else != nil || len(fin.Body.List) != 1 || t.squash(fin.Body.List[0]) != "return"+t.sb+".String()" {
		return bad("final if " + c.Print(st[3]))
	}
	finCond := t.cond(fin.Cond)
	if t.squash(st[4]) != "return"+t.param {
		return bad("final return " + c.Print(st[4]))
	}
	if !t.ok {
		return bad(t.why)
	}
	return fmt.Sprintf("/-- the loop body of `%s` (%s), statement by statement: `i` the index, `st` the locals -/\ndef escapeBody (%s : List UInt8) (i : Nat) (st : EscSt) : EscSt :=\n  %s\n\n"+
		"/-- `%s` of %s: the builder starts empty, `%s := %s`, the loop runs over `0 … len(%s)-1`, then `if %s { return %s.String() }; return %s` -/\ndef escape (%s : List UInt8) : List UInt8 :=\n  let st : EscSt := ⟨%s, []⟩\n  let st : EscSt := (List.range %s.length).foldl (fun st i => escapeBody %s i st) st\n  if %s then st.sb else %s\n\n",
		name, rel, t.param, body,
		name, rel, t.flag, init, t.param, t.flag, t.sb, t.param, t.param, init, t.param, t.param, finCond, t.param)
}

// c16EmulatedKeys: inside fd, the statements `expCtx.Keys["<lit>"] = <expr>` in source order, as (key, squashed right-hand
// side), and the squashed initialiser of the `Keys:` field of the context literal before them.
func c16EmulatedKeys(c *Ctx, fd *ast.FuncDecl) (string, [][2]string, bool) {
	if fd == nil || fd.Body == nil {
		return "", nil, false
	}
	keysInit := ""
	var rows [][2]string
	sq := func(n ast.Node) string { return strings.Join(strings.Fields(c.Print(n)), "") }
	ast.Inspect(fd.Body, func(n ast.Node) bool {
		switch v := n.(type) {
		case *ast.KeyValueExpr:
			if id, ok := v.Key.(*ast.Ident); ok && id.Name == "Keys" && keysInit == "" {
				keysInit = sq(v.Value)
			}
		case *ast.AssignStmt:
			if v.Tok == token.ASSIGN && len(v.Lhs) == 1 && len(v.Rhs) == 1 {
				if ix, ok := v.Lhs[0].(*ast.IndexExpr); ok && sq(ix.X) == "expCtx.Keys" {
					if k, ok := StringLit(ix.Index); ok {
						rows = append(rows, [2]string{k, sq(v.Rhs[0])})
					}
				}
			}
		}
		return true
	})
	return keysInit, rows, keysInit != "" && len(rows) > 0
}

// c16KeySwitch: the cases of `switch key` in GetKey whose body is `return s.json(<bool>, <bool>)`.
func c16KeySwitch(c *Ctx, fd *ast.FuncDecl) (string, bool) {
	if fd == nil {
		return "", false
	}
	var rows []string
	found := false
	ast.Inspect(fd, func(n ast.Node) bool {
		sw, ok := n.(*ast.SwitchStmt)
		if !ok || found {
			return true
		}
		if id, ok := sw.Tag.(*ast.Ident); !ok || id.Name != "key" {
			return true
		}
		found = true
		for _, st := range sw.Body.List {
			cc, ok := st.(*ast.CaseClause)
			if !ok || len(cc.Body) != 1 {
				continue
			}
			ret, ok := cc.Body[0].(*ast.ReturnStmt)
			if !ok || len(ret.Results) != 1 {
				continue
			}
			call, ok := ret.Results[0].(*ast.CallExpr)
			if !ok || len(call.Args) != 2 {
				continue
			}
			sel, ok := call.Fun.(*ast.SelectorExpr)
			if !ok || sel.Sel.Name != "json" {
				continue
			}
			a, ok1 := call.Args[0].(*ast.Ident)
			b, ok2 := call.Args[1].(*ast.Ident)
			if !ok1 || !ok2 {
				continue
			}
			var keys []string
			for _, k := range cc.List {
				s, ok := StringLit(k)
				if !ok {
					return false
				}
				keys = append(keys, s)
			}
			rows = append(rows, fmt.Sprintf("(%s, %s, %s)", c16BytesList(keys), a.Name, b.Name))
		}
		return false
	})
	if !found || len(rows) == 0 {
		return "", false
	}
	return "[" + strings.Join(rows, ",\n   ") + "]", true
}

// c16Outline: the control skeleton of a function: one entry per statement, nested blocks bracketed, every
// entry the source text of the statement header with white space removed.
func c16Outline(c *Ctx, fd *ast.FuncDecl) ([]string, bool) {
	if fd == nil || fd.Body == nil {
		return nil, false
	}
	var out []string
	squash := func(n ast.Node) string {
		// a doc comment on a local declaration (`// Output array` above `var sb …`) is not part of the statement
		if ds, ok := n.(*ast.DeclStmt); ok {
			if gd, ok := ds.Decl.(*ast.GenDecl); ok && gd.Doc != nil {
				cp := *gd
				cp.Doc = nil
				return strings.Join(strings.Fields(c.Print(&ast.DeclStmt{Decl: &cp})), "")
			}
		}
		return strings.Join(strings.Fields(c.Print(n)), "")
	}
	var walk func(list []ast.Stmt)
	walk = func(list []ast.Stmt) {
		for _, st := range list {
			switch v := st.(type) {
			case *ast.IfStmt:
				h := "if "
				if v.Init != nil {
					h += squash(v.Init) + ";"
				}
				out = append(out, h+squash(v.Cond)+"{")
				walk(v.Body.List)
				out = append(out, "}")
				if v.Else != nil {
					out = append(out, "else{")
					if b, ok := v.Else.(*ast.BlockStmt); ok {
						walk(b.List)
					} else {
						walk([]ast.Stmt{v.Else})
					}
					out = append(out, "}")
				}
			case *ast.ForStmt:
				h := "for "
				if v.Init != nil {
					h += squash(v.Init)
				}
				h += ";"
				if v.Cond != nil {
					h += squash(v.Cond)
				}
				h += ";"
				if v.Post != nil {
					h += squash(v.Post)
				}
				out = append(out, h+"{")
				walk(v.Body.List)
				out = append(out, "}")
			case *ast.RangeStmt:
				h := "range "
				if v.Key != nil {
					h += squash(v.Key)
				}
				if v.Value != nil {
					h += "," + squash(v.Value)
				}
				out = append(out, h+":="+squash(v.X)+"{")
				walk(v.Body.List)
				out = append(out, "}")
			case *ast.BlockStmt:
				walk(v.List)
			default:
				out = append(out, squash(st))
			}
		}
	}
	walk(fd.Body.List)
	return out, true
}

// ---- shared state of the JSON writers (for the goroutine argument): package-level variables of pkg/minijson,
// writes to them, and how the functions that build a view use their builder object.

// c16PackageVars: names of all package-level `var`s of the files (const/type/func are not state).
func c16PackageVars(c *Ctx, files []string) ([]string, bool) {
	var out []string
	for _, rel := range files {
		f := c.File(rel)
		if f == nil {
			return nil, false
		}
		for _, d := range f.Decls {
			gd, ok := d.(*ast.GenDecl)
			if !ok || gd.Tok != token.VAR {
				continue
			}
			for _, sp := range gd.Specs {
				if vs, ok := sp.(*ast.ValueSpec); ok {
					for _, n := range vs.Names {
						out = append(out, n.Name)
					}
				}
			}
		}
	}
	return out, true
}

// c16WritesTo: statements in the files that may modify the package variable `name`: assignment / inc-dec whose
// target is `name` or an index/slice/field of it, `&name`, or `name` passed whole to a call (other than len/cap).
func c16WritesTo(c *Ctx, files []string, name string) ([]string, bool) {
	var out []string
	root := func(e ast.Expr) bool {
		for {
			switch v := e.(type) {
			case *ast.Ident:
				return v.Name == name
			case *ast.IndexExpr:
				e = v.X
			case *ast.SliceExpr:
				e = v.X
			case *ast.SelectorExpr:
				e = v.X
			case *ast.ParenExpr:
				e = v.X
			case *ast.StarExpr:
				e = v.X
			default:
				return false
			}
		}
	}
	for _, rel := range files {
		f := c.File(rel)
		if f == nil {
			return nil, false
		}
		for _, d := range f.Decls {
			fd, ok := d.(*ast.FuncDecl)
			if !ok || fd.Body == nil {
				continue
			}
			ast.Inspect(fd.Body, func(n ast.Node) bool {
				switch v := n.(type) {
				case *ast.AssignStmt:
					for _, l := range v.Lhs {
						if root(l) {
							out = append(out, fd.Name.Name+":"+strings.Join(strings.Fields(c.Print(v)), ""))
						}
					}
				case *ast.IncDecStmt:
					if root(v.X) {
						out = append(out, fd.Name.Name+":"+strings.Join(strings.Fields(c.Print(v)), ""))
					}
				case *ast.UnaryExpr:
					if v.Op == token.AND && root(v.X) {
						out = append(out, fd.Name.Name+":&"+name)
					}
				case *ast.RangeStmt:
					if (v.Key != nil && root(v.Key)) || (v.Value != nil && root(v.Value)) {
						out = append(out, fd.Name.Name+":range-target")
					}
				case *ast.CallExpr:
					if id, ok := v.Fun.(*ast.Ident); ok && (id.Name == "len" || id.Name == "cap") {
						return true
					}
					for _, a := range v.Args {
						if id, ok := a.(*ast.Ident); ok && id.Name == name {
							out = append(out, fd.Name.Name+":passed-to-"+strings.Join(strings.Fields(c.Print(v.Fun)), ""))
						}
					}
				}
				return true
			})
		}
	}
	return out, true
}

// c16BuilderUses: in fd, the local variable declared `var <v> [pkg.]JsonObjectBuilder` and every use of it, classified:
// "call:<Method>" for `<v>.<Method>(...)`; anything else (address taken, passed, assigned, captured by a closure or
// a go statement) is reported verbatim as "other:<text>".
func c16BuilderUses(c *Ctx, fd *ast.FuncDecl) ([]string, bool) {
	if fd == nil || fd.Body == nil {
		return nil, false
	}
	name := ""
	ast.Inspect(fd.Body, func(n ast.Node) bool {
		ds, ok := n.(*ast.DeclStmt)
		if !ok {
			return true
		}
		gd, ok := ds.Decl.(*ast.GenDecl)
		if !ok || gd.Tok != token.VAR {
			return true
		}
		for _, sp := range gd.Specs {
			vs, ok := sp.(*ast.ValueSpec)
			if !ok || vs.Type == nil || len(vs.Names) != 1 {
				continue
			}
			t := strings.Join(strings.Fields(c.Print(vs.Type)), "")
			if t == "JsonObjectBuilder" || t == "minijson.JsonObjectBuilder" {
				name = vs.Names[0].Name
			}
		}
		return true
	})
	if name == "" {
		return nil, false
	}
	out := []string{"local:" + name}
	handled := map[*ast.Ident]bool{}
	ast.Inspect(fd.Body, func(n ast.Node) bool {
		switch v := n.(type) {
		case *ast.GoStmt:
			out = append(out, "other:go-statement")
		case *ast.FuncLit:
			out = append(out, "other:closure")
		case *ast.ValueSpec:
			for _, id := range v.Names {
				handled[id] = true
			}
		case *ast.CallExpr:
			if sel, ok := v.Fun.(*ast.SelectorExpr); ok {
				if id, ok := sel.X.(*ast.Ident); ok && id.Name == name {
					handled[id] = true
					out = append(out, "call:"+sel.Sel.Name)
				}
			}
		}
		return true
	})
	ast.Inspect(fd.Body, func(n ast.Node) bool {
		if id, ok := n.(*ast.Ident); ok && id.Name == name && !handled[id] {
			out = append(out, "other:"+name)
		}
		return true
	})
	return out, true
}

func init() {
	RegisterGen("C16", func(c *Ctx) string {
		const mj = "pkg/minijson/minijson.go"
		var sb strings.Builder
		sb.WriteString("namespace Rare.Gen.C16\n\n")

		if tbl, ok := c16ArrayTable(c.Var(mj, "escapeLookup")); ok {
			fmt.Fprintf(&sb, "/-- `escapeLookup` of %s: entry `i` is the escape sequence of byte `i` (`[]` = not mapped) -/\n", mj)
			fmt.Fprintf(&sb, "def escapeLookup : List (List UInt8) := %s\n\n", c16BytesList(tbl))
		} else {
			sb.WriteString(untranslatable("escapeLookup"))
		}

		for _, it := range []struct{ lean, fn string }{
			{"openLits", "JsonObjectBuilder.OpenEx"},
			{"closeLits", "JsonObjectBuilder.Close"},
			{"writeKeyLits", "JsonObjectBuilder.writeKey"},
			{"writeStringLits", "JsonObjectBuilder.WriteString"},
		} {
			if l, ok := c16WrittenLits(c.Func(mj, it.fn)); ok {
				fmt.Fprintf(&sb, "/-- literals written by `%s`, in source order -/\ndef %s : List (List UInt8) := %s\n\n", it.fn, it.lean, c16BytesList(l))
			} else {
				sb.WriteString(untranslatable(it.lean))
			}
		}
		wi := c.Func(mj, "JsonObjectBuilder.WriteInferred")
		if l, ok := c16CallLits(wi, "EqualFold"); ok {
			fmt.Fprintf(&sb, "/-- spellings compared with `strings.EqualFold` in `WriteInferred` -/\ndef inferredFoldLits : List (List UInt8) := %s\n\n", c16BytesList(l))
		} else {
			sb.WriteString(untranslatable("inferredFoldLits"))
		}
		if l, ok := c16CallLits(wi, "WriteLiteral"); ok {
			fmt.Fprintf(&sb, "/-- literals emitted by `WriteInferred` through `WriteLiteral` -/\ndef inferredLiterals : List (List UInt8) := %s\n\n", c16BytesList(l))
		} else {
			sb.WriteString(untranslatable("inferredLiterals"))
		}


		sb.WriteString(c16Prelude)
		sb.WriteString(c16ScanFunc(c, mj, "isNumeric", "isNumeric"))
		sb.WriteString(c16EscPrelude)
		sb.WriteString(c16EscapeFunc(c, mj, "escape"))

		// rare's array convention and the printing of `rare expression`
		if n, ok := IntLit(c.Var("pkg/expressions/stage.go", "ArraySeparator")); ok {
			fmt.Fprintf(&sb, "/-- `expressions.ArraySeparator` (pkg/expressions/stage.go) -/\ndef arraySeparator : Nat := %d\n\n", n)
		} else {
			sb.WriteString(untranslatable("arraySeparator"))
		}
		if init, rows, ok := c16EmulatedKeys(c, c.Func("cmd/expressions.go", "expressionFunction")); ok {
			var parts []string
			for _, r := range rows {
				parts = append(parts, fmt.Sprintf("(%s, %s)", c16Bytes(r[0]), leanStr(r[1])))
			}
			fmt.Fprintf(&sb, "/-- `expressionFunction` (cmd/expressions.go): the initialiser of `expCtx.Keys` -/\ndef expressionKeysInit : String := %s\n\n", leanStr(init))
			fmt.Fprintf(&sb, "/-- … and every later `expCtx.Keys[\"<key>\"] = <expr>` in source order: (key, right-hand side without white space) -/\ndef emulatedKeys : List (List UInt8 × String) :=\n  [%s]\n\n", strings.Join(parts, ",\n   "))
		} else {
			sb.WriteString(untranslatable("emulatedKeys"))
		}

		const ctxFile = "pkg/extractor/sliceSpaceExpressionContext.go"
		if rows, ok := c16KeySwitch(c, c.Func(ctxFile, "SliceSpaceExpressionContext.GetKey")); ok {
			fmt.Fprintf(&sb, "/-- the cases of `switch key` in `GetKey` that return `s.json(named, numbered)`: (case literals, named, numbered) -/\ndef jsonKeyCases : List (List (List UInt8) × Bool × Bool) :=\n  %s\n\n", rows)
		} else {
			sb.WriteString(untranslatable("jsonKeyCases"))
		}
		for _, it := range []struct{ lean, file, fn string }{
			{"jsonOutline", ctxFile, "SliceSpaceExpressionContext.json"},
			{"specialOutline", "cmd/expressions.go", "buildSpecialKeyJson"},
			{"parseKeyValueOutline", "cmd/expressions.go", "parseKeyValue"},
			{"parseKeyValuesIntoMapOutline", "cmd/expressions.go", "parseKeyValuesIntoMap"},
			{"marshalOutline", "pkg/minijson/util.go", "MarshalStringMapInferred"},
			{"writeInferredOutline", mj, "JsonObjectBuilder.WriteInferred"},
			{"writeIntOutline", mj, "JsonObjectBuilder.WriteInt"},
			{"writeKeyOutline", mj, "JsonObjectBuilder.writeKey"},
			{"writeStringOutline", mj, "JsonObjectBuilder.WriteString"},
			{"writeLiteralOutline", mj, "JsonObjectBuilder.WriteLiteral"},
			{"escapeOutline", mj, "escape"},
			{"regexTableOutline", "pkg/matchers/fastregex/re2.go", "createGroupNameTable"},
			{"smartFormatOutline", "cmd/expressions.go", "smartFormatResult"},
			{"makeArrayOutline", "pkg/expressions/stage.go", "MakeArray"},
		} {
			if l, ok := c16Outline(c, c.Func(it.file, it.fn)); ok {
				fmt.Fprintf(&sb, "/-- control skeleton of `%s` (%s): statement texts without white space, blocks bracketed -/\ndef %s : List String :=\n  %s\n\n", it.fn, it.file, it.lean, leanStrList(l))
			} else {
				sb.WriteString(untranslatable(it.lean))
			}
		}

		mjFiles := []string{mj, "pkg/minijson/util.go"}
		if vars, ok := c16PackageVars(c, mjFiles); ok {
			fmt.Fprintf(&sb, "/-- every package-level `var` of pkg/minijson (minijson.go, util.go) -/\ndef packageVars : List String := %s\n\n", leanStrList(vars))
			var writes []string
			for _, v := range vars {
				w, _ := c16WritesTo(c, mjFiles, v)
				writes = append(writes, w...)
			}
			fmt.Fprintf(&sb, "/-- statements of pkg/minijson that may modify one of them (assignment to it or to an element, `&v`, `v` passed whole) -/\ndef packageVarWrites : List String := %s\n\n", leanStrList(writes))
		} else {
			sb.WriteString(untranslatable("packageVars"))
		}
		{
			var rows []string
			okAll := true
			for _, it := range []struct{ file, fn string }{
				{ctxFile, "SliceSpaceExpressionContext.json"},
				{"cmd/expressions.go", "buildSpecialKeyJson"},
				{"pkg/minijson/util.go", "MarshalStringMapInferred"},
			} {
				u, ok := c16BuilderUses(c, c.Func(it.file, it.fn))
				if !ok {
					okAll = false
					break
				}
				rows = append(rows, fmt.Sprintf("(%s, %s)", leanStr(it.fn), leanStrList(u)))
			}
			if okAll {
				fmt.Fprintf(&sb, "/-- per view-building function: its `JsonObjectBuilder` and every use of it (`call:<method>`; anything else – address taken, passed on, captured by a closure or goroutine – as `other:…`) -/\ndef builderUses : List (String × List String) :=\n  [%s]\n\n", strings.Join(rows, ",\n   "))
			} else {
				sb.WriteString(untranslatable("builderUses"))
			}
		}

		// round 4c: the context as an object with a history (c16ctx.go)
		sb.WriteString(c16EmitCtx(c))

		for _, fn := range []string{"escape", "isNumeric", "JsonObjectBuilder.WriteInferred", "JsonObjectBuilder.writeKey",
			"JsonObjectBuilder.WriteString", "JsonObjectBuilder.WriteLiteral"} {
			c.Fingerprint(mj, fn)
		}
		c.Fingerprint("pkg/extractor/sliceSpaceExpressionContext.go", "SliceSpaceExpressionContext.json")
		c.Fingerprint("pkg/extractor/sliceSpaceExpressionContext.go", "SliceSpaceExpressionContext.GetMatch")
		c.Fingerprint("cmd/expressions.go", "buildSpecialKeyJson")

		sb.WriteString("end Rare.Gen.C16\n")
		return sb.String()
	})
}
