package main

import (
	"fmt"
	"go/ast"
	"go/token"
	"strings"
)

// C16: the escape table of pkg/minijson and the literal pieces the object builder writes,
// regenerated from the Go source on every run (lean/Rare/Gen/C16.lean).  Props/C16.lean states
// escape_complete etc. about `Rare.Gen.C16.escapeLookup`, so a mutated table breaks a proof.

func c16Bytes(s string) string {
	if len(s) == 0 {
		return "[]"
	}
	parts := make([]string, len(s))
	for i := 0; i < len(s); i++ {
		parts[i] = fmt.Sprintf("0x%02x", s[i])
	}
	return "[" + strings.Join(parts, ", ") + "]"
}

func c16BytesList(l []string) string {
	parts := make([]string, len(l))
	for i, s := range l {
		parts[i] = c16Bytes(s)
	}
	return "[" + strings.Join(parts, ", ") + "]"
}

// c16ArrayTable evaluates `[N]string{idx: "lit", ...}` (keys: char or int literals).
func c16ArrayTable(e ast.Expr) ([]string, bool) {
	cl, ok := e.(*ast.CompositeLit)
	if !ok {
		return nil, false
	}
	at, ok := cl.Type.(*ast.ArrayType)
	if !ok || at.Len == nil {
		return nil, false
	}
	n, ok := IntLit(at.Len)
	if !ok || n <= 0 || n > 4096 {
		return nil, false
	}
	out := make([]string, n)
	next := int64(0)
	for _, el := range cl.Elts {
		val := el
		if kv, ok := el.(*ast.KeyValueExpr); ok {
			k, ok := IntLit(kv.Key)
			if !ok {
				return nil, false
			}
			next = k
			val = kv.Value
		}
		if next < 0 || next >= n {
			return nil, false
		}
		s, ok := StringLit(val)
		if !ok {
			return nil, false
		}
		out[next] = s
		next++
	}
	return out, true
}

// c16WrittenLits: the string / rune literals passed to s.sb.Write{String,Rune,Byte} inside a
// function, in source order (non-literal arguments are skipped).
func c16WrittenLits(fd *ast.FuncDecl) ([]string, bool) {
	if fd == nil {
		return nil, false
	}
	var out []string
	ast.Inspect(fd, func(n ast.Node) bool {
		call, ok := n.(*ast.CallExpr)
		if !ok || len(call.Args) != 1 {
			return true
		}
		sel, ok := call.Fun.(*ast.SelectorExpr)
		if !ok || !strings.HasPrefix(sel.Sel.Name, "Write") {
			return true
		}
		if bl, ok := call.Args[0].(*ast.BasicLit); ok && (bl.Kind == token.STRING || bl.Kind == token.CHAR) {
			if s, ok := StringLit(bl); ok {
				out = append(out, s)
			}
		}
		return true
	})
	return out, true
}

// c16CallLits: string literals appearing as arguments of calls to a given method inside fd.
func c16CallLits(fd *ast.FuncDecl, method string) ([]string, bool) {
	if fd == nil {
		return nil, false
	}
	var out []string
	ast.Inspect(fd, func(n ast.Node) bool {
		call, ok := n.(*ast.CallExpr)
		if !ok {
			return true
		}
		sel, ok := call.Fun.(*ast.SelectorExpr)
		if !ok || sel.Sel.Name != method {
			return true
		}
		for _, a := range call.Args {
			if bl, ok := a.(*ast.BasicLit); ok && bl.Kind == token.STRING {
				if s, ok := StringLit(bl); ok {
					out = append(out, s)
				}
			}
		}
		return true
	})
	return out, true
}

func init() {
	RegisterGen("C16", func(c *Ctx) string {
		const mj = "pkg/minijson/minijson.go"
		var sb strings.Builder
		sb.WriteString("namespace Rare.Gen.C16\n\n")

		if tbl, ok := c16ArrayTable(c.Var(mj, "escapeLookup")); ok {
			fmt.Fprintf(&sb, "/-- `escapeLookup` of %s: entry `i` is the escape sequence of byte `i` (`[]` = not mapped) -/\n", mj)
			fmt.Fprintf(&sb, "def escapeLookup : List (List UInt8) := %s\n\n", c16BytesList(tbl))
		} else {
			sb.WriteString(untranslatable("escapeLookup"))
		}

		for _, it := range []struct{ lean, fn string }{
			{"openLits", "JsonObjectBuilder.OpenEx"},
			{"closeLits", "JsonObjectBuilder.Close"},
			{"writeKeyLits", "JsonObjectBuilder.writeKey"},
			{"writeStringLits", "JsonObjectBuilder.WriteString"},
		} {
			if l, ok := c16WrittenLits(c.Func(mj, it.fn)); ok {
				fmt.Fprintf(&sb, "/-- literals written by `%s`, in source order -/\ndef %s : List (List UInt8) := %s\n\n", it.fn, it.lean, c16BytesList(l))
			} else {
				sb.WriteString(untranslatable(it.lean))
			}
		}
		wi := c.Func(mj, "JsonObjectBuilder.WriteInferred")
		if l, ok := c16CallLits(wi, "EqualFold"); ok {
			fmt.Fprintf(&sb, "/-- spellings compared with `strings.EqualFold` in `WriteInferred` -/\ndef inferredFoldLits : List (List UInt8) := %s\n\n", c16BytesList(l))
		} else {
			sb.WriteString(untranslatable("inferredFoldLits"))
		}
		if l, ok := c16CallLits(wi, "WriteLiteral"); ok {
			fmt.Fprintf(&sb, "/-- literals emitted by `WriteInferred` through `WriteLiteral` -/\ndef inferredLiterals : List (List UInt8) := %s\n\n", c16BytesList(l))
		} else {
			sb.WriteString(untranslatable("inferredLiterals"))
		}

		for _, fn := range []string{"escape", "isNumeric", "JsonObjectBuilder.WriteInferred", "JsonObjectBuilder.writeKey",
			"JsonObjectBuilder.WriteString", "JsonObjectBuilder.WriteLiteral"} {
			c.Fingerprint(mj, fn)
		}
		c.Fingerprint("pkg/extractor/sliceSpaceExpressionContext.go", "SliceSpaceExpressionContext.json")
		c.Fingerprint("pkg/extractor/sliceSpaceExpressionContext.go", "SliceSpaceExpressionContext.GetMatch")
		c.Fingerprint("cmd/expressions.go", "buildSpecialKeyJson")

		sb.WriteString("end Rare.Gen.C16\n")
		return sb.String()
	})
}
