package main

import (
	"fmt"
	"go/ast"
	"go/token"
	"strings"
)

// C20 (round 4b): the WHOLE scan of WriteLineNoWrap (pkg/multiterm/linetrim.go), statement by statement.
//
// The function is translated into
//
//	def trimScan (fuel : Nat) (runes : List Int) (computedCols : Int) : Except String Int
//
// which runs the two nested `for cond { … }` loops over the local variables `i` and `visibleRunes`
// (structure `T`) and returns the upper bound `hi` of the slice `runes[:hi]` that the function finally
// writes.  Every `runes[e]` is an `idx` (error "index out of range" outside 0 ≤ e < len), the final
// `runes[:e]` is checked like a Go slice expression, loops that run out of `fuel` are an error.  The
// theorem `gen_trim_scan_is_model` (Props/C20) proves, for ALL rune lists and widths, that this function
// returns `.ok` of exactly the index the hand model `trimGo` computes – so the Go code never indexes out
// of range, and a changed guard, counter update, nesting or slice bound in /repo breaks the proof.
//
// Go subset: `x := <int literal>` for the two locals, `for cond { … }`, `if c { … } [else { … }]`,
// `x++`, `x--`, `x = e`, `x += e`, `x -= e`; expressions over the locals, `computedCols`, `len(runes)`,
// `runes[e]`, int / rune literals, + -, comparisons, && || !  (&& and || short-circuit when the right
// operand can fail).  The first statement must be `if !AutoTrim { out.Write([]byte(s)); return }`, then
// `runes := []rune(s)`; the last one `out.Write([]byte(string(runes[:e])))`.

type c20scan struct {
	locals map[string]bool
	bad    string
}

func (t *c20scan) fail(why string) string {
	if t.bad == "" {
		t.bad = why
	}
	return "default"
}

// expr returns (Lean term, type, pure).  A pure term has the Lean type Int / Bool, an impure one
// `Except String Int` / `Except String Bool`.
func (t *c20scan) expr(e ast.Expr) (string, string, bool) {
	switch v := e.(type) {
	case *ast.ParenExpr:
		return t.expr(v.X)
	case *ast.BasicLit:
		if n, ok := IntLit(v); ok && (v.Kind == token.INT || v.Kind == token.CHAR) {
			return fmt.Sprintf("(%d : Int)", n), "int", true
		}
	case *ast.Ident:
		switch {
		case v.Name == "true" || v.Name == "false":
			return v.Name, "bool", true
		case t.locals[v.Name]:
			return "s." + v.Name, "int", true
		case v.Name == "computedCols":
			return "computedCols", "int", true
		}
	case *ast.CallExpr:
		if id, ok := v.Fun.(*ast.Ident); ok && id.Name == "len" && len(v.Args) == 1 {
			if a, ok := v.Args[0].(*ast.Ident); ok && a.Name == "runes" {
				return "(runes.length : Int)", "int", true
			}
		}
	case *ast.IndexExpr:
		if a, ok := v.X.(*ast.Ident); ok && a.Name == "runes" {
			ix, ti, pure := t.expr(v.Index)
			if ti == "int" {
				if pure {
					return fmt.Sprintf("(idx runes %s)", ix), "int", false
				}
				return fmt.Sprintf("(do let k ← %s; idx runes k)", ix), "int", false
			}
		}
	case *ast.UnaryExpr:
		a, ta, pa := t.expr(v.X)
		if v.Op == token.NOT && ta == "bool" {
			if pa {
				return "(!" + a + ")", "bool", true
			}
			return fmt.Sprintf("(do let a ← %s; pure (!a))", a), "bool", false
		}
		if v.Op == token.SUB && ta == "int" && pa {
			return "(-" + a + ")", "int", true
		}
	case *ast.BinaryExpr:
		a, ta, pa := t.expr(v.X)
		b, tb, pb := t.expr(v.Y)
		var op, ty string
		switch v.Op {
		case token.LSS, token.GTR, token.LEQ, token.GEQ, token.EQL, token.NEQ:
			if ta == "int" && tb == "int" {
				op = map[token.Token]string{token.LSS: "<", token.GTR: ">", token.LEQ: "≤", token.GEQ: "≥", token.EQL: "=", token.NEQ: "≠"}[v.Op]
				ty = "bool"
				if pa && pb {
					return fmt.Sprintf("decide (%s %s %s)", a, op, b), ty, true
				}
				la, lb := a, b
				if pa {
					la = "pure (" + a + ")"
				}
				if pb {
					lb = "pure (" + b + ")"
				}
				return fmt.Sprintf("(do let a ← %s; let b ← %s; pure (decide (a %s b)))", la, lb, op), ty, false
			}
		case token.ADD, token.SUB:
			if ta == "int" && tb == "int" {
				if pa && pb {
					return fmt.Sprintf("(%s %s %s)", a, v.Op.String(), b), "int", true
				}
				la, lb := a, b
				if pa {
					la = "pure (" + a + ")"
				}
				if pb {
					lb = "pure (" + b + ")"
				}
				return fmt.Sprintf("(do let a ← %s; let b ← %s; pure (a %s b))", la, lb, v.Op.String()), "int", false
			}
		case token.LAND, token.LOR:
			if ta == "bool" && tb == "bool" {
				if pa && pb {
					return fmt.Sprintf("(%s %s %s)", a, map[token.Token]string{token.LAND: "&&", token.LOR: "||"}[v.Op], b), "bool", true
				}
				la, lb := a, b
				if pa {
					la = "pure (" + a + ")"
				}
				if pb {
					lb = "pure (" + b + ")"
				}
				// short circuit: the right operand is evaluated (and can fail) only when needed
				if v.Op == token.LAND {
					return fmt.Sprintf("(do let a ← %s; if a then %s else pure false)", la, lb), "bool", false
				}
				return fmt.Sprintf("(do let a ← %s; if a then pure true else %s)", la, lb), "bool", false
			}
		}
	}
	return t.fail(fmt.Sprintf("expression %T", e)), "?", true
}

func (t *c20scan) lift(e ast.Expr, want string) string {
	s, ty, pure := t.expr(e)
	if ty != want {
		return t.fail("type of expression")
	}
	if pure {
		return "(pure " + s + ")"
	}
	return s
}

// stmt: Lean term of type `Except String T` for the state after the statement, in terms of `s`
func (t *c20scan) stmt(st ast.Stmt) string {
	switch v := st.(type) {
	case *ast.ForStmt:
		if v.Init != nil || v.Post != nil || v.Cond == nil {
			return t.fail("for with init/post or without condition")
		}
		return fmt.Sprintf("whileLoop fuel (fun s => %s) (fun s => %s) s", t.lift(v.Cond, "bool"), t.block(v.Body.List))
	case *ast.IfStmt:
		if v.Init != nil {
			return t.fail("if with init")
		}
		els := "pure s"
		if v.Else != nil {
			b, ok := v.Else.(*ast.BlockStmt)
			if !ok {
				return t.fail("else if")
			}
			els = t.block(b.List)
		}
		return fmt.Sprintf("(do let c ← %s; if c then %s else %s)", t.lift(v.Cond, "bool"), t.block(v.Body.List), els)
	case *ast.IncDecStmt:
		id, ok := v.X.(*ast.Ident)
		if !ok || !t.locals[id.Name] {
			return t.fail("inc/dec target")
		}
		op := "+"
		if v.Tok == token.DEC {
			op = "-"
		}
		return fmt.Sprintf("pure { s with %s := s.%s %s 1 }", id.Name, id.Name, op)
	case *ast.AssignStmt:
		if len(v.Lhs) != 1 || len(v.Rhs) != 1 {
			return t.fail("assignment form")
		}
		id, ok := v.Lhs[0].(*ast.Ident)
		if !ok || !t.locals[id.Name] {
			return t.fail("assignment target")
		}
		rhs := t.lift(v.Rhs[0], "int")
		switch v.Tok {
		case token.ASSIGN:
			return fmt.Sprintf("(do let v ← %s; pure { s with %s := v })", rhs, id.Name)
		case token.ADD_ASSIGN:
			return fmt.Sprintf("(do let v ← %s; pure { s with %s := s.%s + v })", rhs, id.Name, id.Name)
		case token.SUB_ASSIGN:
			return fmt.Sprintf("(do let v ← %s; pure { s with %s := s.%s - v })", rhs, id.Name, id.Name)
		}
		return t.fail("assignment operator")
	}
	return t.fail(fmt.Sprintf("statement %T", st))
}

func (t *c20scan) block(list []ast.Stmt) string {
	var sb strings.Builder
	sb.WriteString("(do ")
	for _, st := range list {
		sb.WriteString("let s ← " + t.stmt(st) + "; ")
	}
	sb.WriteString("pure s)")
	return sb.String()
}

const c20ScanPrelude = `/-- the local variables of WriteLineNoWrap's scan -/
structure T where
  i : Int
  visibleRunes : Int
  deriving DecidableEq, Repr

/-- Go ` + "`runes[k]`" + `: panics outside ` + "`0 ≤ k < len(runes)`" + ` -/
def idx (runes : List Int) (k : Int) : Except String Int :=
  if 0 ≤ k ∧ k < (runes.length : Int) then .ok (runes.getD k.toNat 0) else .error "index out of range"

/-- Go ` + "`for cond { body }`" + `; running out of ` + "`fuel`" + ` is an error -/
def whileLoop (fuel : Nat) (cond : T → Except String Bool) (body : T → Except String T) : T → Except String T :=
  match fuel with
  | 0 => fun _ => .error "out of fuel"
  | f + 1 => fun s => do
    let c ← cond s
    if c then
      let s ← body s
      whileLoop f cond body s
    else pure s

`

// isConv reports whether e is the conversion `<elem>(x)` / `[]<elem>(x)` and returns x.
func c20Conv(e ast.Expr, slice bool, elem string) (ast.Expr, bool) {
	call, ok := e.(*ast.CallExpr)
	if !ok || len(call.Args) != 1 {
		return nil, false
	}
	fun := call.Fun
	if p, ok := fun.(*ast.ParenExpr); ok {
		fun = p.X
	}
	if slice {
		at, ok := fun.(*ast.ArrayType)
		if !ok || at.Len != nil {
			return nil, false
		}
		fun = at.Elt
	}
	id, ok := fun.(*ast.Ident)
	if !ok || id.Name != elem {
		return nil, false
	}
	return call.Args[0], true
}

// c20OutWrite: is st `out.Write(<arg>)`? returns arg
func c20OutWrite(st ast.Stmt) (ast.Expr, bool) {
	es, ok := st.(*ast.ExprStmt)
	if !ok {
		return nil, false
	}
	call, ok := es.X.(*ast.CallExpr)
	if !ok || c20CallName(call) != "out.Write" || len(call.Args) != 1 {
		return nil, false
	}
	return call.Args[0], true
}

func c20TrimScan(c *Ctx, sb *strings.Builder) {
	names := []string{"trimOffWritesAll", "trimScan"}
	fail := func(why string) {
		fmt.Fprintf(sb, "-- WriteLineNoWrap: %s\n", why)
		for _, n := range names {
			sb.WriteString(untranslatable(n))
		}
	}
	fd := c.Func("pkg/multiterm/linetrim.go", "WriteLineNoWrap")
	if fd == nil || fd.Body == nil || len(fd.Body.List) < 4 {
		fail("function missing or too short")
		return
	}
	body := fd.Body.List
	// (1) if !AutoTrim { out.Write([]byte(s)); return }
	ok := false
	if ifs, isIf := body[0].(*ast.IfStmt); isIf && ifs.Init == nil && ifs.Else == nil && len(ifs.Body.List) == 2 {
		if u, isU := ifs.Cond.(*ast.UnaryExpr); isU && u.Op == token.NOT {
			if id, isId := u.X.(*ast.Ident); isId && id.Name == "AutoTrim" {
				if arg, isW := c20OutWrite(ifs.Body.List[0]); isW {
					if x, isC := c20Conv(arg, true, "byte"); isC {
						if xi, isX := x.(*ast.Ident); isX && xi.Name == "s" {
							if r, isR := ifs.Body.List[1].(*ast.ReturnStmt); isR && len(r.Results) == 0 {
								ok = true
							}
						}
					}
				}
			}
		}
	}
	if !ok {
		fail("first statement is not `if !AutoTrim { out.Write([]byte(s)); return }`")
		return
	}
	// (2) runes := []rune(s)
	ok = false
	if as, isA := body[1].(*ast.AssignStmt); isA && as.Tok == token.DEFINE && len(as.Lhs) == 1 && len(as.Rhs) == 1 {
		if l, isL := as.Lhs[0].(*ast.Ident); isL && l.Name == "runes" {
			if x, isC := c20Conv(as.Rhs[0], true, "rune"); isC {
				if xi, isX := x.(*ast.Ident); isX && xi.Name == "s" {
					ok = true
				}
			}
		}
	}
	if !ok {
		fail("second statement is not `runes := []rune(s)`")
		return
	}
	// (3) the locals, the loops, (4) the final write
	t := &c20scan{locals: map[string]bool{}}
	inits := map[string]string{}
	var steps []string
	last := body[len(body)-1]
	for _, st := range body[2 : len(body)-1] {
		if as, isA := st.(*ast.AssignStmt); isA && as.Tok == token.DEFINE {
			if len(as.Lhs) != 1 || len(as.Rhs) != 1 {
				fail("local declaration form")
				return
			}
			id, isId := as.Lhs[0].(*ast.Ident)
			n, isN := IntLit(as.Rhs[0])
			if !isId || !isN || (id.Name != "i" && id.Name != "visibleRunes") || t.locals[id.Name] || len(steps) > 0 {
				fail("local declaration " + c.Print(st))
				return
			}
			t.locals[id.Name] = true
			inits[id.Name] = fmt.Sprintf("(%d : Int)", n)
			continue
		}
		steps = append(steps, "  let s ← "+t.stmt(st))
	}
	if !t.locals["i"] || !t.locals["visibleRunes"] {
		fail("locals i / visibleRunes not declared")
		return
	}
	arg, isW := c20OutWrite(last)
	var hi string
	ok = false
	if isW {
		if x, isC := c20Conv(arg, true, "byte"); isC {
			if y, isS := c20Conv(x, false, "string"); isS {
				if sl, isSl := y.(*ast.SliceExpr); isSl && sl.Low == nil && sl.High != nil && !sl.Slice3 {
					if a, isA := sl.X.(*ast.Ident); isA && a.Name == "runes" {
						hi = t.lift(sl.High, "int")
						ok = true
					}
				}
			}
		}
	}
	if !ok {
		fail("last statement is not `out.Write([]byte(string(runes[:e])))`")
		return
	}
	if t.bad != "" {
		fail(t.bad)
		return
	}
	sb.WriteString(c20ScanPrelude)
	sb.WriteString("/-- linetrim.go WriteLineNoWrap: with AutoTrim off the text is written unchanged (`if !AutoTrim { out.Write([]byte(s)); return }`) -/\ndef trimOffWritesAll : Bool := true\n\n")
	fmt.Fprintf(sb, "/-- linetrim.go WriteLineNoWrap, AutoTrim on, `runes = []rune(s)`: the scan, statement by statement; the result is the `hi` of the\n`runes[:hi]` that is written -/\ndef trimScan (fuel : Nat) (runes : List Int) (computedCols : Int) : Except String Int := do\n  let s : T := { i := %s, visibleRunes := %s }\n%s\n  let hi ← %s\n  if 0 ≤ hi ∧ hi ≤ (runes.length : Int) then pure hi else .error \"slice bounds out of range\"\n\n",
		inits["i"], inits["visibleRunes"], strings.Join(steps, "\n"), hi)
}

// ---- linetrim.go: the start-up state (`var AutoTrim`, `const defaultRows, defaultCols`, `init()`) ----
//
//	def autoTrimInitial : Bool, defaultRows / defaultCols : Int
//	def initFn (tty : Option (Int × Int)) : Bool × Int × Int      -- (AutoTrim, computedRows, computedCols) after init()
//
// init() must have the shape `if rows, cols, ok := termstate.GetTermRowsCols(); ok { A… } else { B… }` where every
// statement of A / B assigns to AutoTrim, computedRows, computedCols (single or parallel assignment) from
// true/false, rows, cols, defaultRows, defaultCols or integer literals.  `tty = some (rows, cols)` is "ok".

func c20Init(c *Ctx, sb *strings.Builder) {
	const lt = "pkg/multiterm/linetrim.go"
	names := []string{"autoTrimInitial", "defaultRows", "defaultCols", "initFn"}
	fail := func(why string) {
		fmt.Fprintf(sb, "-- linetrim.go init: %s\n", why)
		for _, n := range names {
			sb.WriteString(untranslatable(n))
		}
	}
	at := c.Var(lt, "AutoTrim")
	atId, ok := at.(*ast.Ident)
	if !ok || (atId.Name != "true" && atId.Name != "false") {
		fail("var AutoTrim is not a boolean literal")
		return
	}
	dr, ok1 := IntLit(c.Var(lt, "defaultRows"))
	dc, ok2 := IntLit(c.Var(lt, "defaultCols"))
	if !ok1 || !ok2 {
		fail("defaultRows / defaultCols are not integer constants")
		return
	}
	fd := c.Func(lt, "init")
	if fd == nil || fd.Body == nil || len(fd.Body.List) != 1 {
		fail("init() missing or not a single statement")
		return
	}
	ifs, ok := fd.Body.List[0].(*ast.IfStmt)
	if !ok || ifs.Init == nil || ifs.Else == nil {
		fail("init() is not if/else")
		return
	}
	ini, ok := ifs.Init.(*ast.AssignStmt)
	if !ok || ini.Tok != token.DEFINE || len(ini.Lhs) != 3 || len(ini.Rhs) != 1 {
		fail("init(): if-initialiser")
		return
	}
	call, ok := ini.Rhs[0].(*ast.CallExpr)
	if !ok || c20CallName(call) != "termstate.GetTermRowsCols" || len(call.Args) != 0 {
		fail("init(): initialiser is not termstate.GetTermRowsCols()")
		return
	}
	var lhs [3]string
	for i, e := range ini.Lhs {
		id, ok := e.(*ast.Ident)
		if !ok {
			fail("init(): initialiser names")
			return
		}
		lhs[i] = id.Name
	}
	if cid, ok := ifs.Cond.(*ast.Ident); !ok || cid.Name != lhs[2] {
		fail("init(): condition is not the ok result")
		return
	}
	els, ok := ifs.Else.(*ast.BlockStmt)
	if !ok {
		fail("init(): else if")
		return
	}
	bad := ""
	val := func(e ast.Expr) (string, string) {
		switch v := e.(type) {
		case *ast.Ident:
			switch v.Name {
			case "true", "false":
				return v.Name, "bool"
			case lhs[0]:
				return "ttyRows", "int"
			case lhs[1]:
				return "ttyCols", "int"
			case "defaultRows", "defaultCols":
				return v.Name, "int"
			}
		case *ast.BasicLit:
			if n, ok := IntLit(v); ok && v.Kind == token.INT {
				return fmt.Sprintf("(%d : Int)", n), "int"
			}
		}
		bad = "init(): value " + c.Print(e)
		return "default", "?"
	}
	branch := func(list []ast.Stmt) string {
		var sbb strings.Builder
		for _, st := range list {
			as, ok := st.(*ast.AssignStmt)
			if !ok || as.Tok != token.ASSIGN || len(as.Lhs) != len(as.Rhs) {
				bad = "init(): statement " + c.Print(st)
				return "s"
			}
			// parallel assignment: all right-hand sides are evaluated first (they never mention the targets here)
			upd := []string{}
			for i, l := range as.Lhs {
				id, ok := l.(*ast.Ident)
				v, ty := val(as.Rhs[i])
				if !ok {
					bad = "init(): target"
					return "s"
				}
				switch {
				case id.Name == "AutoTrim" && ty == "bool":
					upd = append(upd, "autoTrim := "+v)
				case id.Name == "computedRows" && ty == "int":
					upd = append(upd, "rows := "+v)
				case id.Name == "computedCols" && ty == "int":
					upd = append(upd, "cols := "+v)
				default:
					bad = "init(): target " + id.Name
					return "s"
				}
			}
			sbb.WriteString("let s : Env := { s with " + strings.Join(upd, ", ") + " }; ")
		}
		sbb.WriteString("s")
		return sbb.String()
	}
	thenB := branch(ifs.Body.List)
	elseB := branch(els.List)
	// the package-level initial values of computedRows / computedCols
	cr, okr := IntLit(c.Var(lt, "computedRows"))
	cc, okc := IntLit(c.Var(lt, "computedCols"))
	if !okr || !okc {
		bad = "var computedRows, computedCols are not integer literals"
	}
	if bad != "" {
		fail(bad)
		return
	}
	fmt.Fprintf(sb, "/-- linetrim.go: `var AutoTrim = …` -/\ndef autoTrimInitial : Bool := %s\n\n", atId.Name)
	fmt.Fprintf(sb, "/-- linetrim.go: const defaultRows -/\ndef defaultRows : Int := %d\n\n/-- linetrim.go: const defaultCols -/\ndef defaultCols : Int := %d\n\n", dr, dc)
	sb.WriteString("/-- the package-level state of linetrim.go -/\nstructure Env where\n  autoTrim : Bool\n  rows : Int\n  cols : Int\n  deriving DecidableEq, Repr\n\n")
	fmt.Fprintf(sb, "/-- linetrim.go init(): `tty = some (rows, cols)` when termstate.GetTermRowsCols() reports ok -/\ndef initFn (tty : Option (Int × Int)) : Env :=\n  let s : Env := { autoTrim := autoTrimInitial, rows := (%d : Int), cols := (%d : Int) }\n  match tty with\n  | some (ttyRows, ttyCols) => (%s)\n  | none => (%s)\n\n", cr, cc, thenB, elseB)
}
