package main

import (
	"bytes"
	"fmt"
	"go/ast"
	"go/build"
	"go/importer"
	"go/token"
	"go/types"
	"io"
	"os"
	"os/exec"
	"path/filepath"
	"sort"
	"strings"
)

// Access table (DESIGN.md C05, round 2).
//
// For every object that more than one goroutine can touch (Batcher, Extractor, ExpressionIgnoreSet,
// ObjectPool, the logger's package state, the variables RunAggregationLoop shares with its ticker
// closure) and for the monitor-protected state behind the aggregation loop's mutex (aggregators,
// terminal writers) the table lists EVERY field (go/types enumerates them, there is no hand-picked
// list) and every syntactic access with
//
//   * the object accessed: "var" = the field variable itself (for a slice: the header, for a pointer:
//     the pointer), "ref" = what a reference-typed field refers to (backing array, map, pointee,
//     closure), reached directly (`s.f[i]`), through a local alias (`x := s.f; … x[i]`), or because the
//     reference leaves the function (returned, sent, stored, passed to a call that may keep it);
//   * whether it is a write, whether it goes through sync/atomic (or a type that synchronises itself);
//   * the mutex held AT THE SITE OF THE ACCESS (a flow-sensitive must-hold analysis over the statement
//     tree: branches are joined by intersection, closures start with nothing held) – for a reference
//     that escapes the function nothing is held;
//   * the roles (goroutines of the same function) this access is ordered with by a `go` statement or
//     by an unbuffered-channel hand-shake that ends the other goroutine.
//
// Lean decides `raceFree` over the tables (Props/C05.lean `lockset_ok`).
//
// What is NOT seen: unsafe, reflection, cgo, method values (`f := s.M`), goroutines started in packages
// that are not listed below, aliasing through more than one level (an element of a guarded slice that
// is itself a pointer), aliasing through function results other than append / conversions, two
// distinct fields sharing one referent (unless declared as a region), distinct instances of one type
// (all receivers are taken to be the same object).

// ------------------------------------------------------------------ type loading

type tpkg struct {
	dir   string
	path  string
	pkg   *types.Package
	info  *types.Info
	files []*ast.File
	errs  []string
}

type typeWorld struct {
	c      *Ctx
	imp    types.Importer
	pkgs   map[string]*tpkg           // by dir
	funcs  map[string]*funcSrc        // qualified key -> declaration with source
	failed string
}

type funcSrc struct {
	tp *tpkg
	fd *ast.FuncDecl
}

var worlds = map[*Ctx]*typeWorld{}

func goEnv() []string {
	env := os.Environ()
	return append(env, "GOFLAGS=-mod=mod", "GOPROXY=off", "GOSUMDB=off", "GOTOOLCHAIN=local")
}

// exportLookup asks the go command for the export data of every dependency of the listed packages
// (compiled packages come out of the build cache) and returns a lookup function for the gc importer.
func exportLookup(repo string, dirs []string) (func(path string) (io.ReadCloser, error), error) {
	args := []string{"list", "-export", "-deps", "-f", "{{.ImportPath}}\t{{.Export}}"}
	for _, d := range dirs {
		args = append(args, "./"+d)
	}
	cmd := exec.Command("go", args...)
	cmd.Dir = repo
	cmd.Env = goEnv()
	var stderr bytes.Buffer
	cmd.Stderr = &stderr
	out, err := cmd.Output()
	if err != nil {
		return nil, fmt.Errorf("go list -export: %v: %s", err, stderr.String())
	}
	exp := map[string]string{}
	for _, l := range strings.Split(string(out), "\n") {
		if p := strings.SplitN(l, "\t", 2); len(p) == 2 && p[1] != "" {
			exp[p[0]] = p[1]
		}
	}
	return func(path string) (io.ReadCloser, error) {
		f, ok := exp[path]
		if !ok {
			return nil, fmt.Errorf("no export data for %s", path)
		}
		return os.Open(f)
	}, nil
}

func (c *Ctx) world(dirs []string) *typeWorld {
	if w, ok := worlds[c]; ok {
		return w
	}
	w := &typeWorld{c: c, pkgs: map[string]*tpkg{}, funcs: map[string]*funcSrc{}}
	worlds[c] = w
	lookup, err := exportLookup(c.Repo, dirs)
	if err == nil {
		w.imp = importer.ForCompiler(c.fset, "gc", lookup)
	} else {
		// fall back to type-checking the dependencies from source (slower, needs no build)
		os.Setenv("GOFLAGS", "-mod=mod")
		os.Setenv("GOPROXY", "off")
		os.Setenv("GOSUMDB", "off")
		os.Setenv("GOTOOLCHAIN", "local")
		wd, _ := os.Getwd()
		os.Chdir(c.Repo)
		defer os.Chdir(wd)
		w.imp = importer.ForCompiler(c.fset, "source", nil)
		w.failed = err.Error()
	}
	for _, d := range dirs {
		w.load(d)
	}
	return w
}

func (w *typeWorld) load(dir string) *tpkg {
	if tp, ok := w.pkgs[dir]; ok {
		return tp
	}
	c := w.c
	tp := &tpkg{dir: dir, path: "rare/" + dir}
	w.pkgs[dir] = tp
	ents, _ := os.ReadDir(filepath.Join(c.Repo, dir))
	var names []string
	for _, e := range ents {
		n := e.Name()
		if !strings.HasSuffix(n, ".go") || strings.HasSuffix(n, "_test.go") {
			continue
		}
		if ok, _ := build.Default.MatchFile(filepath.Join(c.Repo, dir), n); ok { // product build: tag `verif` off
			names = append(names, n)
		}
	}
	sort.Strings(names)
	for _, n := range names {
		if f := c.File(filepath.Join(dir, n)); f != nil {
			tp.files = append(tp.files, f)
		}
	}
	tp.info = &types.Info{
		Defs:       map[*ast.Ident]types.Object{},
		Uses:       map[*ast.Ident]types.Object{},
		Selections: map[*ast.SelectorExpr]*types.Selection{},
		Types:      map[ast.Expr]types.TypeAndValue{},
		Scopes:     map[ast.Node]*types.Scope{},
	}
	conf := types.Config{Importer: w.imp, Error: func(err error) { tp.errs = append(tp.errs, err.Error()) }}
	if wd, err := os.Getwd(); err == nil { // the source importer resolves module paths relative to the cwd
		os.Chdir(c.Repo)
		defer os.Chdir(wd)
	}
	tp.pkg, _ = conf.Check(tp.path, c.fset, tp.files, tp.info)
	for _, f := range tp.files {
		for _, d := range f.Decls {
			if fd, ok := d.(*ast.FuncDecl); ok && fd.Body != nil {
				if fo, ok := tp.info.Defs[fd.Name].(*types.Func); ok {
					w.funcs[funcKey(fo)] = &funcSrc{tp, fd}
				}
			}
		}
	}
	return tp
}

func derefT(t types.Type) types.Type {
	for {
		p, ok := t.(*types.Pointer)
		if !ok {
			return t
		}
		t = p.Elem()
	}
}

func namedOf(t types.Type) (pkg, name string) {
	t = derefT(t)
	if a, ok := t.(*types.Alias); ok {
		t = types.Unalias(a)
	}
	if n, ok := t.(*types.Named); ok {
		o := n.Obj()
		if o.Pkg() != nil {
			return o.Pkg().Path(), o.Name()
		}
		return "", o.Name()
	}
	return "", ""
}

// funcKey: "pkgpath.Type.Method" / "pkgpath.Func"
func funcKey(f *types.Func) string {
	f = f.Origin()
	sig, _ := f.Type().(*types.Signature)
	pp := ""
	if f.Pkg() != nil {
		pp = f.Pkg().Path()
	}
	if sig != nil && sig.Recv() != nil {
		_, n := namedOf(sig.Recv().Type())
		return pp + "." + n + "." + f.Name()
	}
	return pp + "." + f.Name()
}

func shortKey(k string) string {
	if i := strings.LastIndex(k, "/"); i >= 0 {
		return k[i+1:]
	}
	return k
}

// kindOf classifies a field type.
func kindOf(t types.Type) string {
	if p, n := namedOf(t); p == "sync" {
		if _, isPtr := t.(*types.Pointer); !isPtr {
			if n == "Mutex" || n == "RWMutex" {
				return "mutex"
			}
			return "sync"
		}
	} else if p == "sync/atomic" {
		return "atomicval"
	}
	switch t.Underlying().(type) {
	case *types.Slice:
		return "slice"
	case *types.Map:
		return "map"
	case *types.Pointer:
		return "pointer"
	case *types.Chan:
		return "chan"
	case *types.Signature:
		return "func"
	case *types.Interface:
		if _, isTP := t.(*types.TypeParam); isTP {
			return "value"
		}
		return "iface"
	}
	return "value"
}

func isRefKind(k string) bool {
	return k == "slice" || k == "map" || k == "pointer" || k == "func" || k == "iface"
}

// types whose methods are documented to be safe for concurrent use (they lock internally)
var selfSync = map[string]bool{"log.Logger": true, "regexp.Regexp": true, "os.File": true,
	"slicepool.ObjectPool": true} // ObjectPool: by its own table (`objectPool`), the others by their documentation

// stdlib packages none of whose functions keep a reference to an argument after returning
var nonRetaining = map[string]bool{"strings": true, "bytes": true, "fmt": true, "sort": true, "slices": true, "strconv": true,
	"unicode": true, "unicode/utf8": true, "math": true, "errors": true, "time": true, "rare/pkg/humanize": true, "maps": true}

// ------------------------------------------------------------------ configuration

type access struct {
	fn, field, region, obj string // obj: "var" | "ref"
	write, atomic          bool
	lock, mutex            string // lock: "", "W", "R"
	esc                    string // "" | return | arg | store | global | send | go | addr | methodvalue
	depth                  int    // nesting depth of the function literal making the access (0 = the declared function's own body)
	how                    string
	ord                    []string
	line                   int
}

type fieldInfo struct {
	name, kind, region string
	obj                *types.Var
	declDepth          int // closures mode: number of function literals around the declaration
}

type accessCfg struct {
	lean          string
	dir           string
	mode          string   // "struct" | "globals" | "locals" | "monitor"
	typ           string   // struct names "A|B" ("*" = every struct of the package), or the function (locals)
	readOnlyCalls []string // calls through a reference-typed field that are another component's read-only contract
	regions       map[string]string
	retainOK      []string // callees whose keeping of an argument is what a region declaration models
}

type src struct {
	fi  *fieldInfo
	via string
}

type lockState map[string]string

func (l lockState) clone() lockState {
	o := lockState{}
	for k, v := range l {
		o[k] = v
	}
	return o
}

func meet(a, b lockState) lockState {
	o := lockState{}
	for k, v := range a {
		if w, ok := b[k]; ok {
			if v == w {
				o[k] = v
			} else {
				o[k] = "R"
			}
		}
	}
	return o
}

type loopFrame struct {
	label  string
	isLoop bool
	exits  []lockState
}

type closure struct {
	lit  *ast.FuncLit
	name string
	ord  []string
}

type analyzer struct {
	w      *typeWorld
	tp     *tpkg
	cfg    accessCfg
	fields []*fieldInfo
	byObj  map[*types.Var]*fieldInfo
	alias  map[*types.Var]map[*fieldInfo]string
	out    []access
	emitOn bool

	// per flow
	fn      string
	locks   lockState
	frames  []*loopFrame
	pending []closure
	nclos   int
	ord     []string
	postGo  bool
	ctor    bool

	calls      map[string]*callInfo
	spawns     []string
	assumed    map[string]bool
	mutMemo    map[string]int
	nextLabel  string
	structs    []string
	ngo        int

	closureCtors map[string]bool
	perCall      map[string]bool // closures mode: captured variables declared inside a per-evaluation literal
}

type callInfo struct{ locked, unlocked int }

func (a *analyzer) pos(n ast.Node) int { return a.w.c.fset.Position(n.Pos()).Line }

func (a *analyzer) emit(fi *fieldInfo, obj string, write, atomic bool, how string, n ast.Node, unlocked bool) {
	if !a.emitOn || fi == nil {
		return
	}
	if obj == "ref" && !isRefKind(fi.kind) {
		return
	}
	lock, mutex := "", ""
	if !unlocked {
		var ms []string
		for m := range a.locks {
			ms = append(ms, m)
		}
		sort.Strings(ms)
		for _, m := range ms {
			if mutex != "" {
				mutex += "+"
			}
			mutex += m
			if lock == "" || a.locks[m] == "R" {
				lock = a.locks[m]
			}
		}
	}
	fn := a.fn
	if a.ctor && a.postGo {
		fn += "$post"
	}
	esc := ""
	if strings.HasPrefix(how, "escape:") {
		esc = strings.SplitN(strings.SplitN(how[len("escape:"):], ":", 2)[0], "@", 2)[0]
	}
	depth := strings.Count(a.fn, "$") - fi.declDepth
	if depth < 0 {
		depth = 0
	}
	a.out = append(a.out, access{fn, fi.name, fi.region, obj, write, atomic, lock, mutex, esc, depth, how, append([]string(nil), a.ord...), a.pos(n)})
}

func (a *analyzer) emitSrcs(ss []src, write bool, how string, n ast.Node, unlocked bool) {
	for _, s := range ss {
		h := how
		if s.via != "" {
			h = how + "@" + s.via
		}
		a.emit(s.fi, "ref", write, false, h, n, unlocked)
	}
}

// fieldOf: the tracked field / variable an expression names directly.
func (a *analyzer) fieldOf(e ast.Expr) *fieldInfo {
	switch v := e.(type) {
	case *ast.ParenExpr:
		return a.fieldOf(v.X)
	case *ast.SelectorExpr:
		if sel := a.tp.info.Selections[v]; sel != nil && sel.Kind() == types.FieldVal {
			if fv, ok := sel.Obj().(*types.Var); ok {
				return a.byObj[fv.Origin()]
			}
		}
	case *ast.Ident:
		if o, ok := a.tp.info.Uses[v].(*types.Var); ok {
			return a.byObj[o.Origin()]
		}
		if o, ok := a.tp.info.Defs[v].(*types.Var); ok {
			return a.byObj[o.Origin()]
		}
	}
	return nil
}

func (a *analyzer) localVar(e ast.Expr) *types.Var {
	id, ok := e.(*ast.Ident)
	if !ok {
		return nil
	}
	o, _ := a.tp.info.Uses[id].(*types.Var)
	if o == nil {
		o, _ = a.tp.info.Defs[id].(*types.Var)
	}
	if o == nil || o.IsField() || a.byObj[o] != nil {
		return nil
	}
	if o.Parent() == a.tp.pkg.Scope() { // package-level variable of an untracked kind
		return nil
	}
	return o
}

func (a *analyzer) typeOf(e ast.Expr) types.Type {
	if tv, ok := a.tp.info.Types[e]; ok && tv.Type != nil {
		return tv.Type
	}
	if id, ok := e.(*ast.Ident); ok {
		if o := a.tp.info.Uses[id]; o != nil {
			return o.Type()
		}
	}
	return types.Typ[types.Invalid]
}

func (a *analyzer) addAlias(v *types.Var, ss []src) {
	if v == nil || len(ss) == 0 {
		return
	}
	m := a.alias[v]
	if m == nil {
		m = map[*fieldInfo]string{}
		a.alias[v] = m
	}
	for _, s := range ss {
		m[s.fi] = v.Name()
	}
}

func (a *analyzer) aliasSrcs(v *types.Var) []src {
	var out []src
	for fi, via := range a.alias[v] {
		out = append(out, src{fi, via})
	}
	sort.Slice(out, func(i, j int) bool { return out[i].fi.name < out[j].fi.name })
	return out
}

// walk visits an expression whose value is needed, records the accesses this implies and returns the
// tracked referents the VALUE may alias (a slice sharing the backing array, a copy of the pointer …).
func (a *analyzer) walk(e ast.Expr) []src {
	switch v := e.(type) {
	case nil:
		return nil
	case *ast.ParenExpr:
		return a.walk(v.X)
	case *ast.Ident:
		if fi := a.fieldOf(v); fi != nil {
			a.emit(fi, "var", false, false, "direct", v, false)
			if isRefKind(fi.kind) {
				return []src{{fi, ""}}
			}
			return nil
		}
		if lv := a.localVar(v); lv != nil {
			return a.aliasSrcs(lv)
		}
		return nil
	case *ast.SelectorExpr:
		if fi := a.fieldOf(v); fi != nil {
			a.walkBase(v.X)
			a.emit(fi, "var", false, false, "direct", v, false)
			if isRefKind(fi.kind) {
				return []src{{fi, ""}}
			}
			return nil
		}
		if _, isPkg := a.tp.info.Uses[identOf(v.X)].(*types.PkgName); isPkg {
			return nil
		}
		ss := a.walk(v.X)
		if len(ss) > 0 {
			if sel := a.tp.info.Selections[v]; sel != nil && sel.Kind() == types.FieldVal {
				a.emitSrcs(ss, false, "direct", v, false) // p.x through a tracked pointer: reads the pointee
			} else if sel != nil && sel.Kind() == types.MethodVal {
				a.emitSrcs(ss, false, "escape:methodvalue", v, true)
			}
		}
		return nil
	case *ast.IndexExpr:
		ss := a.walk(v.X)
		a.walk(v.Index)
		if _, isSig := a.typeOf(v.X).Underlying().(*types.Signature); isSig {
			return ss // generic instantiation f[T]
		}
		a.emitSrcs(ss, false, "direct", v, false)
		return nil
	case *ast.IndexListExpr:
		return a.walk(v.X)
	case *ast.SliceExpr:
		ss := a.walk(v.X)
		a.walk(v.Low)
		a.walk(v.High)
		a.walk(v.Max)
		switch a.typeOf(v.X).Underlying().(type) {
		case *types.Slice:
			return ss
		case *types.Pointer: // pointer to array
			return ss
		}
		if len(ss) > 0 { // string / array value: reading it
			a.emitSrcs(ss, false, "direct", v, false)
		}
		return nil
	case *ast.StarExpr:
		ss := a.walk(v.X)
		a.emitSrcs(ss, false, "direct", v, false)
		return nil
	case *ast.UnaryExpr:
		if v.Op == token.AND {
			return a.walkAddr(v.X, v)
		}
		ss := a.walk(v.X)
		_ = ss // <-ch: a channel operation synchronises, the channel's buffer is not a data referent
		return nil
	case *ast.BinaryExpr:
		a.walk(v.X)
		a.walk(v.Y)
		return nil
	case *ast.CallExpr:
		return a.walkCall(v)
	case *ast.CompositeLit:
		a.walkCompositeLit(v)
		return nil
	case *ast.KeyValueExpr:
		a.walk(v.Key)
		return a.walk(v.Value)
	case *ast.FuncLit:
		a.nclos++
		a.pending = append(a.pending, closure{v, fmt.Sprintf("%s$%d", a.fn, a.nclos), nil})
		return nil
	case *ast.TypeAssertExpr:
		return a.walk(v.X)
	}
	return nil
}

func identOf(e ast.Expr) *ast.Ident {
	id, _ := e.(*ast.Ident)
	return id
}

// walkBase visits the object expression of a field selector (`s` in `s.f`, `a.b` in `a.b.f`).
func (a *analyzer) walkBase(e ast.Expr) {
	switch v := e.(type) {
	case *ast.Ident:
		if fi := a.fieldOf(v); fi != nil { // a tracked variable holding the object (locals / globals mode)
			a.emit(fi, "var", false, false, "direct", v, false)
		}
	default:
		a.walk(e)
	}
}

// walkAddr: &x
func (a *analyzer) walkAddr(x ast.Expr, at ast.Node) []src {
	switch v := x.(type) {
	case *ast.ParenExpr:
		return a.walkAddr(v.X, at)
	case *ast.IndexExpr: // &s.f[i]: a pointer into the referent
		ss := a.walk(v.X)
		a.walk(v.Index)
		return ss
	case *ast.CompositeLit:
		a.walkCompositeLit(v)
		return nil
	case *ast.SelectorExpr, *ast.Ident:
		if fi := a.fieldOf(v); fi != nil {
			if se, ok := v.(*ast.SelectorExpr); ok {
				a.walkBase(se.X)
			}
			if fi.kind == "atomicval" {
				// a pointer to an atomic value: whoever holds it can only go through its (atomic) methods
				a.emit(fi, "var", true, true, "atomic:addr", at, false)
				return nil
			}
			if fi.kind == "mutex" || fi.kind == "sync" {
				return nil
			}
			// the address of a shared variable leaves the expression: whoever gets it may write it, unlocked
			a.emit(fi, "var", true, false, "escape:addr", at, true)
			return nil
		}
		if se, ok := v.(*ast.SelectorExpr); ok {
			return a.walkNoRead(se.X)
		}
		return nil
	}
	a.walk(x)
	return nil
}

// walkNoRead: the referents an lvalue path goes through, without recording a read of the last hop.
func (a *analyzer) walkNoRead(e ast.Expr) []src {
	switch v := e.(type) {
	case *ast.ParenExpr:
		return a.walkNoRead(v.X)
	case *ast.Ident, *ast.SelectorExpr:
		if fi := a.fieldOf(v); fi != nil {
			if se, ok := v.(*ast.SelectorExpr); ok {
				a.walkBase(se.X)
			}
			a.emit(fi, "var", false, false, "direct", v, false)
			if isRefKind(fi.kind) {
				return []src{{fi, ""}}
			}
			return nil
		}
		if lv := a.localVar(v); lv != nil {
			return a.aliasSrcs(lv)
		}
		if se, ok := v.(*ast.SelectorExpr); ok {
			return a.walkNoRead(se.X)
		}
	case *ast.IndexExpr:
		ss := a.walkNoRead(v.X)
		a.walk(v.Index)
		return ss
	case *ast.StarExpr:
		return a.walkNoRead(v.X)
	case *ast.SliceExpr:
		return a.walkNoRead(v.X)
	default:
		return a.walk(e)
	}
	return nil
}

func (a *analyzer) structOfLit(v *ast.CompositeLit) *types.Struct {
	t := a.typeOf(v)
	if t == nil {
		return nil
	}
	st, _ := derefT(t).Underlying().(*types.Struct)
	return st
}

func (a *analyzer) walkCompositeLit(v *ast.CompositeLit) {
	st := a.structOfLit(v)
	for i, el := range v.Elts {
		var val ast.Expr = el
		var fi *fieldInfo
		if kv, ok := el.(*ast.KeyValueExpr); ok {
			val = kv.Value
			if st != nil {
				if id, ok := kv.Key.(*ast.Ident); ok {
					if fv, ok := a.tp.info.Uses[id].(*types.Var); ok {
						fi = a.byObj[fv.Origin()]
					}
				}
			} else {
				a.walk(kv.Key)
			}
		} else if st != nil && i < st.NumFields() {
			fi = a.byObj[st.Field(i).Origin()]
		}
		ss := a.walk(val)
		if fi != nil {
			a.emit(fi, "var", true, false, "init", el, false) // construction of a tracked object
			ss = dropField(ss, fi)
		}
		if len(ss) > 0 {
			a.escape(ss, "escape:store", "", el)
		}
	}
}

func dropField(ss []src, fi *fieldInfo) []src {
	var out []src
	for _, s := range ss {
		if s.fi.region != fi.region {
			out = append(out, s)
		}
	}
	return out
}

// escape: the reference leaves what the analysis follows; whoever holds it reads the referent later,
// with nothing held.
func (a *analyzer) escape(ss []src, how, callee string, n ast.Node) {
	if callee != "" {
		how += ":" + callee
	}
	if a.cfg.mode == "monitor" && (strings.HasPrefix(how, "escape:return") || strings.HasPrefix(how, "escape:arg") || strings.HasPrefix(how, "escape:store")) {
		// inside a monitor the receiver of the reference runs inside the monitor too
		a.emitSrcs(ss, false, how, n, false)
		return
	}
	a.emitSrcs(ss, false, how, n, true)
}

func (a *analyzer) calleeOf(call *ast.CallExpr) (*types.Func, bool) {
	var id *ast.Ident
	switch f := call.Fun.(type) {
	case *ast.Ident:
		id = f
	case *ast.SelectorExpr:
		id = f.Sel
	case *ast.IndexExpr:
		switch g := f.X.(type) {
		case *ast.Ident:
			id = g
		case *ast.SelectorExpr:
			id = g.Sel
		}
	}
	if id == nil {
		return nil, false
	}
	o := a.tp.info.Uses[id]
	if fn, ok := o.(*types.Func); ok {
		return fn, true
	}
	if _, ok := o.(*types.Builtin); ok {
		return nil, true
	}
	return nil, false
}

func (a *analyzer) isMutexType(t types.Type) bool {
	p, n := namedOf(t)
	return p == "sync" && (n == "Mutex" || n == "RWMutex")
}

func (a *analyzer) isSyncType(t types.Type) bool {
	p, _ := namedOf(t)
	return p == "sync" || p == "sync/atomic"
}

// mutexOp recognises X.Lock() / X.Unlock() / X.RLock() / X.RUnlock() on a sync.(RW)Mutex and names the mutex.
func (a *analyzer) mutexOp(call *ast.CallExpr) (mutex, op string) {
	se, ok := call.Fun.(*ast.SelectorExpr)
	if !ok {
		return "", ""
	}
	switch se.Sel.Name {
	case "Lock", "Unlock", "RLock", "RUnlock":
	default:
		return "", ""
	}
	if !a.isMutexType(a.typeOf(se.X)) {
		return "", ""
	}
	switch x := se.X.(type) {
	case *ast.Ident:
		return x.Name, se.Sel.Name
	case *ast.SelectorExpr:
		return x.Sel.Name, se.Sel.Name
	}
	return exprStr(a.w.c, se.X), se.Sel.Name
}

func (a *analyzer) retains(fn *types.Func) bool {
	if fn == nil {
		return true
	}
	if fn.Pkg() == nil {
		return false
	}
	if nonRetaining[fn.Pkg().Path()] {
		return false
	}
	k := shortKey(funcKey(fn))
	for _, ok := range a.cfg.retainOK {
		if ok == k {
			return false
		}
	}
	return true
}

func (a *analyzer) walkCall(call *ast.CallExpr) []src {
	name := exprStr(a.w.c, call.Fun)
	if name == "verifTrace" {
		return nil // instrumentation (build tag verif), as in the skeleton
	}
	// conversion T(x): shares the referent
	if tv, ok := a.tp.info.Types[call.Fun]; ok && tv.IsType() {
		var ss []src
		for _, arg := range call.Args {
			ss = append(ss, a.walk(arg)...)
		}
		switch a.typeOf(call).Underlying().(type) {
		case *types.Slice, *types.Pointer, *types.Map, *types.Signature, *types.Interface:
			return ss
		}
		if len(ss) > 0 {
			a.emitSrcs(ss, false, "direct", call, false) // string(b): copies, i.e. reads
		}
		return nil
	}
	fn, known := a.calleeOf(call)
	// sync/atomic on &field
	if fn != nil && fn.Pkg() != nil && fn.Pkg().Path() == "sync/atomic" && len(call.Args) > 0 {
		if u, ok := call.Args[0].(*ast.UnaryExpr); ok && u.Op == token.AND {
			if fi := a.fieldOf(u.X); fi != nil {
				if se, ok := u.X.(*ast.SelectorExpr); ok {
					a.walkBase(se.X)
				}
				a.emit(fi, "var", !strings.HasPrefix(fn.Name(), "Load"), true, "atomic."+fn.Name(), call, false)
				for _, arg := range call.Args[1:] {
					a.walk(arg)
				}
				return nil
			}
		}
	}
	// builtins
	if fn == nil && known {
		id := identOf(call.Fun)
		bn := ""
		if id != nil {
			bn = id.Name
		}
		switch bn {
		case "len", "cap":
			for _, arg := range call.Args {
				ss := a.walk(arg)
				if _, isMap := a.typeOf(arg).Underlying().(*types.Map); isMap {
					a.emitSrcs(ss, false, "direct", call, false)
				}
			}
			return nil
		case "append":
			var s0 []src
			for i, arg := range call.Args {
				ss := a.walk(arg)
				if i == 0 {
					s0 = ss
					a.emitSrcs(ss, false, "direct", call, false)
					a.emitSrcs(ss, true, "append", call, false) // may write in place (always does after a reslice)
				} else if call.Ellipsis.IsValid() && i == len(call.Args)-1 {
					a.emitSrcs(ss, false, "direct", call, false)
				} else if len(ss) > 0 {
					a.escape(ss, "escape:store", "", arg)
				}
			}
			return s0
		case "copy":
			for i, arg := range call.Args {
				ss := a.walk(arg)
				a.emitSrcs(ss, i == 0, "copy", call, false)
			}
			return nil
		case "delete", "clear":
			for i, arg := range call.Args {
				ss := a.walk(arg)
				if i == 0 {
					a.emitSrcs(ss, true, bn, call, false)
				}
			}
			return nil
		case "close":
			for _, arg := range call.Args {
				a.walk(arg)
			}
			return nil
		default:
			for _, arg := range call.Args {
				ss := a.walk(arg)
				if len(ss) > 0 && (bn == "panic" || bn == "print" || bn == "println") {
					a.emitSrcs(ss, false, "direct", call, false)
				}
			}
			return nil
		}
	}
	// static calls inside the package: remember whether the lock is held at the call site
	if fn != nil && fn.Pkg() == a.tp.pkg {
		ci := a.calls[fn.Name()]
		if ci == nil {
			ci = &callInfo{}
			a.calls[fn.Name()] = ci
		}
		if a.emitOn {
			if a.locks["*"] == "W" || len(a.locks) > 0 && a.onlyW() || (a.ctor && !a.postGo) {
				ci.locked++
			} else {
				ci.unlocked++
			}
		}
	}
	// method call / call through a function value
	if se, ok := call.Fun.(*ast.SelectorExpr); ok {
		if sel := a.tp.info.Selections[se]; sel != nil && sel.Kind() == types.MethodVal {
			a.walkMethodCall(call, se, fn)
			a.walkArgs(call, fn)
			return nil
		}
		if fi := a.fieldOf(se); fi != nil && fi.kind == "func" { // s.newer()
			a.walkBase(se.X)
			a.emit(fi, "var", false, false, "direct", se, false)
			a.callFuncValue(fi, call)
			a.walkArgs(call, nil)
			return nil
		}
	}
	if id, ok := call.Fun.(*ast.Ident); ok {
		if fi := a.fieldOf(id); fi != nil && fi.kind == "func" { // writeOutput()
			a.emit(fi, "var", false, false, "direct", id, false)
			a.callFuncValue(fi, call)
			a.walkArgs(call, nil)
			return nil
		}
		if lv := a.localVar(id); lv != nil {
			a.emitSrcs(a.aliasSrcs(lv), a.cfg.mode != "closures", "call:func", call, false)
		}
	}
	switch f := call.Fun.(type) {
	case *ast.FuncLit:
		a.walk(f)
	case *ast.IndexExpr, *ast.CallExpr, *ast.ParenExpr, *ast.TypeAssertExpr, *ast.StarExpr:
		a.walk(f) // args[0](ctx): reads the element, then calls through it
	}
	a.walkArgs(call, fn)
	return nil
}

// callFuncValue: calling a function value runs a body this table does not see; it counts as a write to
// whatever the closure captured (the field's referent) unless the configuration names it read-only.
func (a *analyzer) callFuncValue(fi *fieldInfo, call *ast.CallExpr) {
	if a.cfg.mode == "closures" {
		// a captured function value of a stage builder is another stage (or a pure helper): whatever state it
		// has is the state its own builder captured, i.e. another entry of this same table
		a.emit(fi, "ref", false, false, "call:stage", call, false)
		return
	}
	if a.isReadOnlyCall("func:" + fi.obj.Name()) {
		a.assumed["func:"+fi.obj.Name()] = true
		a.emit(fi, "ref", false, false, "call!:func", call, false)
		return
	}
	a.emit(fi, "ref", true, false, "call:func", call, false)
}

func (a *analyzer) onlyW() bool {
	for _, m := range a.locks {
		if m != "W" {
			return false
		}
	}
	return true
}

func (a *analyzer) walkArgs(call *ast.CallExpr, fn *types.Func) {
	callee := exprStr(a.w.c, call.Fun)
	for _, arg := range call.Args {
		ss := a.walk(arg)
		if len(ss) == 0 {
			continue
		}
		if a.retains(fn) {
			a.escape(ss, "escape:arg", callee, arg)
		} else {
			write := fn != nil && fn.Pkg() != nil && (fn.Pkg().Path() == "sort" || fn.Pkg().Path() == "slices" && strings.HasPrefix(fn.Name(), "Sort"))
			a.emitSrcs(ss, write, "arg:"+callee, arg, false)
		}
	}
}

// walkMethodCall: R.M(args)
func (a *analyzer) walkMethodCall(call *ast.CallExpr, se *ast.SelectorExpr, fn *types.Func) {
	rt := a.typeOf(se.X)
	if p, _ := namedOf(rt); p == "sync/atomic" {
		// a method of an atomic type (atomic.Value, atomic.Int64 …): an atomic operation on the variable
		if fi := a.fieldOf(se.X); fi != nil {
			a.emit(fi, "var", !strings.HasPrefix(se.Sel.Name, "Load"), true, "atomic:"+se.Sel.Name, call, false)
		}
		return
	}
	if a.isSyncType(rt) {
		// a synchronisation object: Lock/Unlock are handled at statement level, WaitGroup/Once calls are
		// synchronising operations, not data accesses
		return
	}
	key := ""
	if fn != nil {
		key = shortKey(funcKey(fn))
	}
	rp, rn := namedOf(rt)
	self := selfSync[shortKey(rp)+"."+rn] || selfSync[rp+"."+rn]
	var fi *fieldInfo
	var ss []src
	if fi = a.fieldOf(se.X); fi != nil {
		if inner, ok := se.X.(*ast.SelectorExpr); ok {
			a.walkBase(inner.X)
		}
		if isRefKind(fi.kind) {
			a.emit(fi, "var", false, false, "direct", se.X, false)
			ss = []src{{fi, ""}}
		} else {
			// a method on a struct-valued field operates on the field in place
			w := a.mutates(fn)
			a.emit(fi, "var", w, false, "call:"+key, call, false)
			return
		}
	} else {
		ss = a.walk(se.X)
	}
	if len(ss) == 0 {
		return
	}
	switch {
	case self:
		for _, s := range ss {
			a.emit(s.fi, "ref", true, true, "call:"+key+"(self-synchronised)", call, false)
		}
	case a.isReadOnlyCall(key):
		a.assumed[key] = true
		a.emitSrcs(ss, false, "call!:"+key, call, false)
	default:
		a.emitSrcs(ss, a.mutates(fn), "call:"+key, call, false)
	}
}

func (a *analyzer) isReadOnlyCall(key string) bool {
	for _, k := range a.cfg.readOnlyCalls {
		if k == key {
			return true
		}
	}
	return false
}

// mutates: may a call of fn write state reachable from its receiver?  Concrete methods with source in a
// loaded package are scanned (assignments / append / copy / delete rooted at the receiver, calls of other
// methods on receiver-rooted paths, transitively); an interface method is the disjunction over the
// methods of that name in the loaded packages; anything else is assumed to write.
func (a *analyzer) mutates(fn *types.Func) bool {
	if fn == nil {
		return true
	}
	sig, _ := fn.Type().(*types.Signature)
	if sig == nil || sig.Recv() == nil {
		return true
	}
	if _, isIface := derefT(sig.Recv().Type()).Underlying().(*types.Interface); isIface {
		found, res := false, false
		suffix := "." + fn.Name()
		var keys []string
		for k := range a.w.funcs {
			keys = append(keys, k)
		}
		sort.Strings(keys)
		for _, k := range keys {
			fs := a.w.funcs[k]
			if strings.HasSuffix(k, suffix) && fs.fd.Recv != nil && strings.Count(k[strings.LastIndex(k, "/")+1:], ".") == 2 {
				if fo, ok := fs.tp.info.Defs[fs.fd.Name].(*types.Func); ok {
					if s2, ok := fo.Type().(*types.Signature); ok && (s2.Params().Len() != sig.Params().Len() || s2.Results().Len() != sig.Results().Len()) {
						continue // same name, different shape: not an implementation of this interface method
					}
				}
				found = true
				if a.mutatesKey(k) {
					res = true
				}
			}
		}
		return !found || res
	}
	k := funcKey(fn)
	if _, ok := a.w.funcs[k]; !ok {
		return true
	}
	return a.mutatesKey(k)
}

func (a *analyzer) mutatesKey(k string) bool {
	switch a.mutMemo[k] {
	case 1:
		return false // in progress / known clean
	case 2:
		return true
	}
	a.mutMemo[k] = 1
	fs := a.w.funcs[k]
	info := fs.tp.info
	var recv types.Object
	if fs.fd.Recv != nil && len(fs.fd.Recv.List) > 0 && len(fs.fd.Recv.List[0].Names) > 0 {
		recv = info.Defs[fs.fd.Recv.List[0].Names[0]]
	}
	if recv == nil {
		return false
	}
	_, ptrRecv := recv.Type().(*types.Pointer)
	var rooted func(e ast.Expr) (bool, bool)
	rooted = func(e ast.Expr) (isRooted, throughRef bool) {
		switch v := e.(type) {
		case *ast.Ident:
			return info.Uses[v] == recv, false
		case *ast.ParenExpr:
			return rooted(v.X)
		case *ast.SelectorExpr:
			r, t := rooted(v.X)
			if r {
				if _, isPtr := info.TypeOf(v.X).Underlying().(*types.Pointer); isPtr && !(identOf(v.X) != nil && info.Uses[identOf(v.X)] == recv) {
					t = true
				}
			}
			return r, t
		case *ast.IndexExpr:
			r, t := rooted(v.X)
			if r {
				switch info.TypeOf(v.X).Underlying().(type) {
				case *types.Slice, *types.Map, *types.Pointer:
					t = true
				}
			}
			return r, t
		case *ast.SliceExpr:
			r, _ := rooted(v.X)
			return r, true
		case *ast.StarExpr:
			r, _ := rooted(v.X)
			return r, true
		}
		return false, false
	}
	writes := func(e ast.Expr) bool {
		if id, ok := e.(*ast.Ident); ok && info.Uses[id] == recv {
			return false // rebinding the receiver variable itself
		}
		r, t := rooted(e)
		return r && (ptrRecv || t)
	}
	dirty := false
	ast.Inspect(fs.fd.Body, func(n ast.Node) bool {
		if dirty {
			return false
		}
		switch v := n.(type) {
		case *ast.AssignStmt:
			for _, l := range v.Lhs {
				if writes(l) {
					dirty = true
				}
			}
		case *ast.IncDecStmt:
			if writes(v.X) {
				dirty = true
			}
		case *ast.CallExpr:
			if id, ok := v.Fun.(*ast.Ident); ok {
				if _, isB := info.Uses[id].(*types.Builtin); isB && len(v.Args) > 0 {
					switch id.Name {
					case "append", "copy", "delete", "clear":
						if r, _ := rooted(v.Args[0]); r {
							dirty = true
						}
					}
				}
			}
			if se, ok := v.Fun.(*ast.SelectorExpr); ok {
				if sel := info.Selections[se]; sel != nil && sel.Kind() == types.MethodVal {
					if r, _ := rooted(se.X); r {
						if callee, ok := sel.Obj().(*types.Func); ok {
							p, _ := namedOf(info.TypeOf(se.X))
							if p == "sync" || p == "sync/atomic" {
								return true
							}
							ck := funcKey(callee)
							if _, has := a.w.funcs[ck]; has {
								if a.mutatesKey(ck) {
									dirty = true
								}
							}
						}
					}
				}
			}
		}
		return true
	})
	if dirty {
		a.mutMemo[k] = 2
	}
	return dirty
}

// ------------------------------------------------------------------ statements

func (a *analyzer) pushFrame(label string, isLoop bool) *loopFrame {
	f := &loopFrame{label: label, isLoop: isLoop}
	a.frames = append(a.frames, f)
	return f
}

func (a *analyzer) popFrame() { a.frames = a.frames[:len(a.frames)-1] }

func (a *analyzer) block(list []ast.Stmt) (terminated bool) {
	for _, s := range list {
		if a.stmt(s) {
			return true
		}
	}
	return false
}

// assignTo handles one `lhs = rhs` pair (rhs already walked: ss are the referents its value aliases).
func (a *analyzer) assignTo(lhs ast.Expr, ss []src, opAssign bool, at ast.Node) {
	if id, ok := lhs.(*ast.Ident); ok && id.Name == "_" {
		return
	}
	if fi := a.fieldOf(lhs); fi != nil {
		if se, ok := lhs.(*ast.SelectorExpr); ok {
			a.walkBase(se.X)
		}
		if opAssign {
			a.emit(fi, "var", false, false, "direct", lhs, false)
		}
		a.emit(fi, "var", true, false, "direct", lhs, false)
		if rest := dropField(ss, fi); len(rest) > 0 {
			a.escape(rest, "escape:store", "", at)
		}
		return
	}
	if lv := a.localVar(lhs); lv != nil {
		a.addAlias(lv, ss)
		return
	}
	// an lvalue path: s.f[i], *p, p.x, s.v.x …
	switch v := lhs.(type) {
	case *ast.IndexExpr:
		base := a.walkNoRead(v.X)
		a.walk(v.Index)
		if opAssign {
			a.emitSrcs(base, false, "direct", lhs, false)
		}
		a.emitSrcs(base, true, "direct", lhs, false)
	case *ast.StarExpr:
		base := a.walkNoRead(v.X)
		if opAssign {
			a.emitSrcs(base, false, "direct", lhs, false)
		}
		a.emitSrcs(base, true, "direct", lhs, false)
	case *ast.SelectorExpr:
		// sub-field of a struct-valued tracked field (s.cfg.x = …) or of a tracked pointer's pointee (s.p.x = …)
		if root := a.valueRoot(v.X); root != nil {
			if opAssign {
				a.emit(root, "var", false, false, "direct", lhs, false)
			}
			a.emit(root, "var", true, false, "direct", lhs, false)
		} else {
			base := a.walkNoRead(v.X)
			if opAssign {
				a.emitSrcs(base, false, "direct", lhs, false)
			}
			a.emitSrcs(base, true, "direct", lhs, false)
		}
	default:
		a.walk(lhs)
	}
	if len(ss) > 0 {
		how := "escape:store"
		if id := identOf(lhs); id != nil {
			if o, ok := a.tp.info.Uses[id].(*types.Var); ok && o.Parent() == a.tp.pkg.Scope() {
				how = "escape:global" // parked in a package-level variable: reachable from every goroutine
			}
		}
		a.escape(ss, how, "", at)
	}
}

// valueRoot: e is (a path of value sub-fields below) a tracked struct-valued field.
func (a *analyzer) valueRoot(e ast.Expr) *fieldInfo {
	for {
		if fi := a.fieldOf(e); fi != nil {
			if !isRefKind(fi.kind) {
				if se, ok := e.(*ast.SelectorExpr); ok {
					a.walkBase(se.X)
				}
				return fi
			}
			return nil
		}
		se, ok := e.(*ast.SelectorExpr)
		if !ok {
			return nil
		}
		if _, isPtr := a.typeOf(se.X).Underlying().(*types.Pointer); isPtr {
			return nil
		}
		e = se.X
	}
}

func (a *analyzer) stmt(s ast.Stmt) (terminated bool) {
	label := a.nextLabel
	a.nextLabel = ""
	switch v := s.(type) {
	case nil:
		return false
	case *ast.ExprStmt:
		if call, ok := v.X.(*ast.CallExpr); ok {
			if m, op := a.mutexOp(call); m != "" {
				switch op {
				case "Lock":
					a.locks[m] = "W"
				case "RLock":
					a.locks[m] = "R"
				default:
					delete(a.locks, m)
				}
				return false
			}
			if id := identOf(call.Fun); id != nil && id.Name == "panic" {
				a.walk(call)
				return true
			}
		}
		a.walk(v.X)
	case *ast.DeferStmt:
		if m, op := a.mutexOp(v.Call); m != "" && (op == "Unlock" || op == "RUnlock") {
			return false // held until the function returns
		}
		if fl, ok := v.Call.Fun.(*ast.FuncLit); ok {
			for _, arg := range v.Call.Args {
				a.walk(arg)
			}
			a.nclos++
			a.pending = append(a.pending, closure{fl, fmt.Sprintf("%s$%d", a.fn, a.nclos), nil})
			return false
		}
		// a deferred call runs at function exit, when locks released by other deferred calls may be gone
		saved := a.locks
		a.locks = lockState{}
		a.walk(v.Call)
		a.locks = saved
	case *ast.GoStmt:
		for _, arg := range v.Call.Args {
			if ss := a.walk(arg); len(ss) > 0 {
				a.escape(ss, "escape:go", "", arg)
			}
		}
		if fl, ok := v.Call.Fun.(*ast.FuncLit); ok {
			a.nclos++
			name := fmt.Sprintf("%s$go%d", a.fn, a.nclos)
			if a.cfg.mode == "locals" {
				a.ngo++
				name = fmt.Sprintf("go%d", a.ngo) // the k-th `go func` of the function, as in findJoins
			}
			a.pending = append(a.pending, closure{fl, name, nil})
			if a.emitOn {
				a.spawns = append(a.spawns, name)
			}
		} else {
			if se, ok := v.Call.Fun.(*ast.SelectorExpr); ok {
				a.walkBase(se.X)
			}
			if a.emitOn {
				a.spawns = append(a.spawns, a.fn+"$go:"+exprStr(a.w.c, v.Call.Fun))
			}
		}
		a.postGo = true
	case *ast.AssignStmt:
		opAssign := v.Tok != token.ASSIGN && v.Tok != token.DEFINE
		if len(v.Lhs) == len(v.Rhs) {
			for i := range v.Lhs {
				ss := a.walk(v.Rhs[i])
				a.assignTo(v.Lhs[i], ss, opAssign, v)
			}
		} else {
			for _, r := range v.Rhs {
				a.walk(r)
			}
			for _, l := range v.Lhs {
				a.assignTo(l, nil, opAssign, v)
			}
		}
	case *ast.IncDecStmt:
		a.assignTo(v.X, nil, true, v)
	case *ast.DeclStmt:
		if gd, ok := v.Decl.(*ast.GenDecl); ok {
			for _, sp := range gd.Specs {
				if vs, ok := sp.(*ast.ValueSpec); ok {
					for i, n := range vs.Names {
						var ss []src
						if i < len(vs.Values) {
							ss = a.walk(vs.Values[i])
						}
						if i < len(vs.Values) || a.fieldOf(n) == nil || !a.isSyncType(a.typeOf(n)) {
							if fi := a.fieldOf(n); fi == nil || i < len(vs.Values) {
								a.assignTo(n, ss, false, v)
							}
						}
					}
				}
			}
		}
	case *ast.SendStmt:
		a.walk(v.Chan)
		if ss := a.walk(v.Value); len(ss) > 0 {
			a.escape(ss, "escape:send", "", v)
		}
	case *ast.ReturnStmt:
		for _, r := range v.Results {
			if ss := a.walk(r); len(ss) > 0 {
				a.escape(ss, "escape:return", "", r)
			}
		}
		return true
	case *ast.BranchStmt:
		switch v.Tok {
		case token.BREAK:
			for i := len(a.frames) - 1; i >= 0; i-- {
				f := a.frames[i]
				if v.Label == nil || f.label == v.Label.Name {
					f.exits = append(f.exits, a.locks.clone())
					break
				}
			}
			return true
		case token.CONTINUE:
			for i := len(a.frames) - 1; i >= 0; i-- {
				f := a.frames[i]
				if f.isLoop && (v.Label == nil || f.label == v.Label.Name) {
					f.exits = append(f.exits, a.locks.clone())
					break
				}
			}
			return true
		case token.GOTO:
			a.locks = lockState{}
		}
	case *ast.LabeledStmt:
		a.nextLabel = v.Label.Name
		return a.stmt(v.Stmt)
	case *ast.BlockStmt:
		return a.block(v.List)
	case *ast.IfStmt:
		a.stmt(v.Init)
		a.walk(v.Cond)
		entry := a.locks.clone()
		t1 := a.block(v.Body.List)
		s1 := a.locks
		a.locks = entry.clone()
		t2 := false
		if v.Else != nil {
			t2 = a.stmt(v.Else)
		}
		s2 := a.locks
		switch {
		case t1 && t2:
			a.locks = entry
			return true
		case t1:
			a.locks = s2
		case t2:
			a.locks = s1
		default:
			a.locks = meet(s1, s2)
		}
	case *ast.ForStmt:
		a.stmt(v.Init)
		a.walk(v.Cond)
		f := a.pushFrame(label, true)
		entry := a.locks.clone()
		t := a.block(v.Body.List)
		if !t {
			a.stmt(v.Post)
			f.exits = append(f.exits, a.locks.clone())
		}
		a.popFrame()
		var exit lockState
		if v.Cond != nil {
			exit = entry
		}
		for _, e := range f.exits {
			if exit == nil {
				exit = e
			} else {
				exit = meet(exit, e)
			}
		}
		if exit == nil { // for {} without break: never left
			a.locks = entry
			return true
		}
		a.locks = exit
	case *ast.RangeStmt:
		ss := a.walk(v.X)
		switch a.typeOf(v.X).Underlying().(type) {
		case *types.Map:
			a.emitSrcs(ss, false, "range", v, false)
		case *types.Slice:
			if v.Value != nil {
				a.emitSrcs(ss, false, "range", v, false)
			}
		case *types.Pointer:
			a.emitSrcs(ss, false, "range", v, false)
		}
		f := a.pushFrame(label, true)
		entry := a.locks.clone()
		if !a.block(v.Body.List) {
			f.exits = append(f.exits, a.locks.clone())
		}
		a.popFrame()
		exit := entry
		for _, e := range f.exits {
			exit = meet(exit, e)
		}
		a.locks = exit
	case *ast.SwitchStmt:
		a.stmt(v.Init)
		a.walk(v.Tag)
		return a.clauses(label, v.Body.List, false)
	case *ast.TypeSwitchStmt:
		a.stmt(v.Init)
		a.stmt(v.Assign)
		return a.clauses(label, v.Body.List, false)
	case *ast.SelectStmt:
		return a.clauses(label, v.Body.List, true)
	default:
		_ = v
	}
	return false
}

func (a *analyzer) clauses(label string, list []ast.Stmt, isSelect bool) (terminated bool) {
	f := a.pushFrame(label, false)
	entry := a.locks.clone()
	hasDefault := false
	var exits []lockState
	for _, cl := range list {
		a.locks = entry.clone()
		var body []ast.Stmt
		switch c := cl.(type) {
		case *ast.CaseClause:
			if c.List == nil {
				hasDefault = true
			}
			for _, e := range c.List {
				a.walk(e)
			}
			body = c.Body
		case *ast.CommClause:
			if c.Comm == nil {
				hasDefault = true
			} else {
				a.stmt(c.Comm)
			}
			body = c.Body
		}
		if !a.block(body) {
			exits = append(exits, a.locks.clone())
		}
	}
	a.popFrame()
	exits = append(exits, f.exits...)
	if !hasDefault && !isSelect {
		exits = append(exits, entry)
	}
	if len(exits) == 0 {
		a.locks = entry
		return len(list) > 0
	}
	out := exits[0]
	for _, e := range exits[1:] {
		out = meet(out, e)
	}
	a.locks = out
	return false
}

// runFlow analyses one function body and, after it, the closures found in it (nothing held on entry).
func (a *analyzer) runFlow(name string, body *ast.BlockStmt, ord []string) {
	a.fn, a.locks, a.frames, a.ord, a.postGo = name, lockState{}, nil, ord, false
	a.nclos = 0
	start := len(a.pending)
	a.block(body.List)
	todo := append([]closure(nil), a.pending[start:]...)
	a.pending = a.pending[:start]
	ctor := a.ctor
	for _, cl := range todo {
		a.ctor = false
		n := a.nclos
		a.runFlow(cl.name, cl.lit.Body, cl.ord)
		a.nclos = n
	}
	a.ctor = ctor
}

// ------------------------------------------------------------------ drivers

func (a *analyzer) addField(v *types.Var) {
	if a.byObj[v] != nil {
		return
	}
	fi := &fieldInfo{name: v.Name(), kind: kindOf(v.Type()), obj: v}
	fi.region = fi.name
	if r, ok := a.cfg.regions[fi.name]; ok {
		fi.region = r
	}
	a.fields = append(a.fields, fi)
	a.byObj[v] = fi
}

func structNames(tp *tpkg) []string {
	var out []string
	if tp.pkg == nil {
		return nil
	}
	for _, n := range tp.pkg.Scope().Names() {
		if tn, ok := tp.pkg.Scope().Lookup(n).(*types.TypeName); ok && !tn.IsAlias() {
			if _, isStruct := tn.Type().Underlying().(*types.Struct); isStruct {
				out = append(out, n)
			}
		}
	}
	return out
}

func newAnalyzer(w *typeWorld, cfg accessCfg) *analyzer {
	return &analyzer{w: w, tp: w.pkgs[cfg.dir], cfg: cfg, byObj: map[*types.Var]*fieldInfo{}, alias: map[*types.Var]map[*fieldInfo]string{},
		calls: map[string]*callInfo{}, assumed: map[string]bool{}, mutMemo: map[string]int{}, closureCtors: map[string]bool{}, perCall: map[string]bool{}}
}

func flowName(tp *tpkg, fd *ast.FuncDecl, own map[string]bool) string {
	if fd.Recv != nil && len(fd.Recv.List) > 0 {
		if fo, ok := tp.info.Defs[fd.Name].(*types.Func); ok {
			_, n := namedOf(fo.Type().(*types.Signature).Recv().Type())
			if !own[n] || len(own) > 1 {
				return n + "." + fd.Name.Name
			}
		}
	}
	return fd.Name.Name
}

// collect runs the analysis for one configuration; ok=false when an anchor is missing.
func (a *analyzer) collect(ctors []string) bool {
	tp := a.tp
	if tp == nil || tp.pkg == nil {
		return false
	}
	own := map[string]bool{}
	switch a.cfg.mode {
	case "struct", "monitor":
		names := strings.Split(a.cfg.typ, "|")
		if a.cfg.typ == "*" {
			names = structNames(tp)
		}
		for _, n := range names {
			tn, _ := tp.pkg.Scope().Lookup(n).(*types.TypeName)
			if tn == nil {
				return false
			}
			st, _ := tn.Type().Underlying().(*types.Struct)
			if st == nil {
				return false
			}
			own[n] = true
			a.structs = append(a.structs, n)
			for i := 0; i < st.NumFields(); i++ {
				a.addField(st.Field(i))
			}
		}
		if a.cfg.mode == "monitor" { // field names are qualified: several structs share one table
			for _, fi := range a.fields {
				for _, n := range names {
					tn := tp.pkg.Scope().Lookup(n).(*types.TypeName)
					st := tn.Type().Underlying().(*types.Struct)
					for i := 0; i < st.NumFields(); i++ {
						if st.Field(i) == fi.obj {
							fi.name = n + "." + fi.obj.Name()
							fi.region = fi.name
						}
					}
				}
			}
		}
	case "globals":
		for _, n := range tp.pkg.Scope().Names() {
			if v, ok := tp.pkg.Scope().Lookup(n).(*types.Var); ok {
				a.addField(v)
			}
		}
	case "locals":
		return a.collectLocals()
	case "closures":
		// variables that a function literal shares with the code that made it: the literal (a compiled expression
		// stage, a callback) outlives the call and is run by every worker.  A variable is tracked when it is declared
		// in a top-level function's body OR in a literal nested in it (a builder returned by a factory, like
		// funcfile's keyBuilderToFunction) and mentioned by a literal nested deeper than its declaration – unless the
		// declaration sits inside a per-evaluation literal (one that takes an expression context: a stage): such a
		// variable is made afresh by every evaluation and the literals that see it run in that evaluation's goroutine
		// (no `go` statement in these packages: `spawns`); those are listed as per-call locals.
		// `depth` of an access is counted from the declaring literal (0 = the code that runs once per build).
		for _, f := range tp.files {
			for _, d := range f.Decls {
				fd, ok := d.(*ast.FuncDecl)
				if !ok || fd.Body == nil {
					continue
				}
				var lits []*ast.FuncLit
				ast.Inspect(fd.Body, func(n ast.Node) bool {
					if fl, ok := n.(*ast.FuncLit); ok {
						lits = append(lits, fl)
					}
					return true
				})
				// enclosing literals of a position, outermost first
				chain := func(p token.Pos) []*ast.FuncLit {
					var out []*ast.FuncLit
					for _, fl := range lits { // ast.Inspect is pre-order: outer literals come first
						if fl.Pos() <= p && p <= fl.End() {
							out = append(out, fl)
						}
					}
					return out
				}
				isEval := func(fl *ast.FuncLit) bool {
					for _, p := range fl.Type.Params.List {
						if t := tp.info.TypeOf(p.Type); t != nil {
							if _, n := namedOf(t); strings.HasSuffix(n, "Context") {
								return true
							}
						}
					}
					return false
				}
				for _, fl := range lits {
					ast.Inspect(fl.Body, func(n ast.Node) bool {
						id, ok := n.(*ast.Ident)
						if !ok {
							return true
						}
						v, ok := tp.info.Uses[id].(*types.Var)
						if !ok || v.IsField() || v.Pkg() != tp.pkg || v.Parent() == tp.pkg.Scope() {
							return true
						}
						if v.Pos() < fd.Pos() || v.Pos() > fd.End() {
							return true // declared elsewhere
						}
						dc, uc := chain(v.Pos()), chain(id.Pos())
						if len(uc) <= len(dc) {
							return true // used by the code that declares it: a plain local of that invocation
						}
						name := flowName(tp, fd, own) + "." + v.Name()
						perEval := false
						for _, l := range dc {
							if isEval(l) {
								perEval = true
							}
						}
						if perEval {
							a.perCall[name] = true
							return true
						}
						if a.byObj[v] == nil {
							for _, o := range a.fields {
								if o.name == name {
									name = fmt.Sprintf("%s#%d", name, a.w.c.fset.Position(v.Pos()).Line)
								}
							}
							a.addField(v)
							fi := a.byObj[v]
							fi.name = name
							fi.region = fi.name
							fi.declDepth = len(dc)
							a.closureCtors[flowName(tp, fd, own)] = true
						}
						return true
					})
				}
			}
		}
	}
	isCtor := map[string]bool{}
	for _, c := range ctors {
		isCtor[c] = true
	}
	for c := range a.closureCtors {
		isCtor[c] = true
	}
	type fl struct {
		name string
		fd   *ast.FuncDecl
	}
	var flows []fl
	for _, f := range tp.files {
		for _, d := range f.Decls {
			if fd, ok := d.(*ast.FuncDecl); ok && fd.Body != nil {
				flows = append(flows, fl{flowName(tp, fd, own), fd})
			}
		}
	}
	for pass := 0; pass < 2; pass++ {
		a.emitOn = pass == 1
		for _, f := range flows {
			a.ctor = isCtor[f.name]
			a.pending = nil
			a.runFlow(f.name, f.fd.Body, nil)
		}
	}
	// unexported helpers whose every call site holds the exclusive lock (or is in a constructor) inherit it
	mutexName := ""
	for _, fi := range a.fields {
		if fi.kind == "mutex" {
			mutexName = fi.name
		}
	}
	for i := range a.out {
		ac := &a.out[i]
		base := ac.fn
		if j := strings.IndexByte(base, '$'); j >= 0 {
			continue
		}
		if ci := a.calls[base]; ci != nil && ci.locked > 0 && ci.unlocked == 0 && !ast.IsExported(base) && ac.lock == "" && mutexName != "" {
			ac.lock, ac.mutex = "W", mutexName
			ac.how += "(lock inherited from every call site)"
		}
	}
	return len(a.fields) > 0 || a.cfg.mode == "closures" // a package whose literals capture nothing has an empty table
}

// collectLocals: the variables of one function that its goroutine closures share with its body are
// treated like fields; the roles are "main" (the body) and "go<k>" (the k-th closure).
func (a *analyzer) collectLocals() bool {
	tp := a.tp
	var fd *ast.FuncDecl
	for _, f := range tp.files {
		for _, d := range f.Decls {
			if x, ok := d.(*ast.FuncDecl); ok && x.Name.Name == a.cfg.typ && x.Body != nil {
				fd = x
			}
		}
	}
	if fd == nil {
		return false
	}
	// tracked: parameters, and every variable declared in the function that a `go` closure mentions
	for _, p := range fd.Type.Params.List {
		for _, n := range p.Names {
			if v, ok := tp.info.Defs[n].(*types.Var); ok {
				a.addField(v)
			}
		}
	}
	var goLits []*ast.FuncLit
	ast.Inspect(fd.Body, func(n ast.Node) bool {
		if g, ok := n.(*ast.GoStmt); ok {
			if fl, ok := g.Call.Fun.(*ast.FuncLit); ok {
				goLits = append(goLits, fl)
			}
		}
		return true
	})
	for _, fl := range goLits {
		ast.Inspect(fl.Body, func(n ast.Node) bool {
			if id, ok := n.(*ast.Ident); ok {
				if v, ok := tp.info.Uses[id].(*types.Var); ok && !v.IsField() && v.Parent() != tp.pkg.Scope() && v.Pkg() == tp.pkg {
					if !(fl.Pos() <= v.Pos() && v.Pos() <= fl.End()) { // declared outside the closure
						a.addField(v)
					}
				}
			}
			return true
		})
	}
	l := &localsRun{a: a, fd: fd, goLits: goLits}
	l.findJoins()
	for pass := 0; pass < 2; pass++ {
		a.emitOn = pass == 1
		a.pending = nil
		l.run()
	}
	return true
}

type localsRun struct {
	a      *analyzer
	fd     *ast.FuncDecl
	goLits []*ast.FuncLit
	// joins: main's top-level statement index after which role k has ended (unbuffered hand-shake)
	joinAfter map[ast.Stmt][]string
}

// findJoins looks for the hand-shake `CH := make(chan T)` (unbuffered), exactly one `CH <- v` in the body
// outside every loop, and in closure k a single `case <-CH:` whose body touches nothing tracked and returns.
// The receive happens before the send completes and is the last thing the closure does, so everything the
// closure did is ordered before what follows the send.
func (l *localsRun) findJoins() {
	a, tp := l.a, l.a.tp
	l.joinAfter = map[ast.Stmt][]string{}
	for _, st := range l.fd.Body.List {
		send, ok := st.(*ast.SendStmt)
		if !ok {
			continue
		}
		chID := identOf(send.Chan)
		if chID == nil {
			continue
		}
		ch, _ := tp.info.Uses[chID].(*types.Var)
		if ch == nil || a.byObj[ch] == nil || a.byObj[ch].kind != "chan" {
			continue
		}
		// unbuffered?
		unbuffered := false
		uses := 0
		ast.Inspect(l.fd.Body, func(n ast.Node) bool {
			switch v := n.(type) {
			case *ast.AssignStmt:
				for i, lh := range v.Lhs {
					if id := identOf(lh); id != nil && tp.info.Defs[id] == ch && i < len(v.Rhs) {
						if call, ok := v.Rhs[i].(*ast.CallExpr); ok && identOf(call.Fun) != nil && identOf(call.Fun).Name == "make" {
							if len(call.Args) == 1 {
								unbuffered = true
							} else if n, ok := IntLit(call.Args[1]); ok && n == 0 {
								unbuffered = true
							}
						}
					}
				}
			case *ast.Ident:
				if tp.info.Uses[v] == ch {
					uses++
				}
			}
			return true
		})
		if !unbuffered {
			continue
		}
		// receivers
		for k, fl := range l.goLits {
			recvs, other := 0, 0
			okShape := false
			ast.Inspect(fl.Body, func(n ast.Node) bool {
				switch v := n.(type) {
				case *ast.CommClause:
					if es, ok := v.Comm.(*ast.ExprStmt); ok {
						if u, ok := es.X.(*ast.UnaryExpr); ok && u.Op == token.ARROW && identOf(u.X) != nil && tp.info.Uses[identOf(u.X)] == ch {
							recvs++
							clean := len(v.Body) > 0
							for i, b := range v.Body {
								_, isRet := b.(*ast.ReturnStmt)
								isTrace := false
								if es, ok := b.(*ast.ExprStmt); ok {
									if c, ok := es.X.(*ast.CallExpr); ok && exprStr(a.w.c, c.Fun) == "verifTrace" {
										isTrace = true
									}
								}
								if !(isTrace || isRet && i == len(v.Body)-1) {
									clean = false
								}
							}
							if _, isRet := v.Body[len(v.Body)-1].(*ast.ReturnStmt); clean && isRet {
								okShape = true
							}
							return false
						}
					}
				case *ast.Ident:
					if tp.info.Uses[v] == ch {
						other++
					}
				}
				return true
			})
			if recvs == 1 && other == 0 && okShape && uses == 2 { // one send in the body, one receive in the closure
				l.joinAfter[st] = append(l.joinAfter[st], fmt.Sprintf("go%d", k+1))
			}
		}
	}
}

func (l *localsRun) run() {
	a := l.a
	// main: accesses before the k-th `go` statement are ordered before role k (the go statement
	// happens before the goroutine starts); accesses after a join are ordered after the joined role
	allGo := []string{}
	for k := range l.goLits {
		allGo = append(allGo, fmt.Sprintf("go%d", k+1))
	}
	a.fn, a.locks, a.frames, a.postGo, a.nclos, a.ctor, a.ngo = "main", lockState{}, nil, false, 0, false, 0
	a.pending = nil
	spawned := 0
	var joined []string
	ordNow := func() []string {
		o := append([]string(nil), allGo[spawned:]...)
		return append(o, joined...)
	}
	// parameters are bound before anything runs
	for _, st := range l.fd.Body.List {
		a.ord = ordNow()
		before := a.nclos
		a.stmt(st)
		// count `go func` statements at top level that this statement contained
		ast.Inspect(st, func(n ast.Node) bool {
			if g, ok := n.(*ast.GoStmt); ok {
				if _, ok := g.Call.Fun.(*ast.FuncLit); ok {
					spawned++
				}
			}
			return true
		})
		_ = before
		if js, ok := l.joinAfter[st]; ok {
			joined = append(joined, js...)
		}
	}
	todo := append([]closure(nil), a.pending...)
	a.pending = nil
	for _, cl := range todo {
		n := a.nclos
		a.runFlow(cl.name, cl.lit.Body, nil)
		a.nclos = n
	}
}

// confinedEvidence checks syntactically that every value of struct type `typ` lives in one local variable of
// one function and never leaves it: composite literals of the type only as `v := T{…}`, `v` used only as
// `v.field` / `v.method(…)`, and inside the type's methods the receiver only as `s.…`.
func confinedEvidence(c *Ctx, tp *tpkg, typ string) (bool, string) {
	if tp == nil || tp.pkg == nil {
		return false, "package not loaded"
	}
	tn, _ := tp.pkg.Scope().Lookup(typ).(*types.TypeName)
	if tn == nil {
		return false, "type not found"
	}
	isT := func(t types.Type) bool {
		if t == nil {
			return false
		}
		n, ok := derefT(t).(*types.Named)
		return ok && n.Obj() == tn
	}
	holders := map[*types.Var]bool{}
	okAll, why := true, ""
	fail := func(s string) {
		if okAll {
			okAll, why = false, s
		}
	}
	lits := 0
	for _, f := range tp.files {
		// parent map
		parents := map[ast.Node]ast.Node{}
		var stack []ast.Node
		ast.Inspect(f, func(n ast.Node) bool {
			if n == nil {
				stack = stack[:len(stack)-1]
				return true
			}
			if len(stack) > 0 {
				parents[n] = stack[len(stack)-1]
			}
			stack = append(stack, n)
			return true
		})
		ast.Inspect(f, func(n ast.Node) bool {
			switch v := n.(type) {
			case *ast.CompositeLit:
				if isT(tp.info.TypeOf(v)) {
					lits++
					as, ok := parents[v].(*ast.AssignStmt)
					if !ok || as.Tok != token.DEFINE || len(as.Lhs) != 1 {
						fail("composite literal not bound by := to one local")
						return true
					}
					if lv, ok := tp.info.Defs[identOf(as.Lhs[0])].(*types.Var); ok {
						holders[lv] = true
					}
				}
			case *ast.CallExpr:
				if id := identOf(v.Fun); id != nil && id.Name == "new" && len(v.Args) == 1 && isT(tp.info.TypeOf(v.Args[0])) {
					fail("new(T)")
				}
			case *ast.FuncDecl:
				if v.Type.Results != nil {
					for _, r := range v.Type.Results.List {
						if isT(tp.info.TypeOf(r.Type)) {
							fail("function returns the type")
						}
					}
				}
			}
			return true
		})
		ast.Inspect(f, func(n ast.Node) bool {
			id, ok := n.(*ast.Ident)
			if !ok {
				return true
			}
			v, _ := tp.info.Uses[id].(*types.Var)
			if v == nil || !isT(v.Type()) || v.IsField() {
				return true
			}
			// every use of a variable of the type (holder or method receiver) must be `v.something`
			if se, ok := parents[id].(*ast.SelectorExpr); ok && se.X == id {
				return true
			}
			fail(fmt.Sprintf("%s used as a value at line %d", id.Name, c.fset.Position(id.Pos()).Line))
			return true
		})
	}
	if lits == 0 {
		fail("never constructed")
	}
	return okAll, why
}

// ------------------------------------------------------------------ emission

// packages whose struct types must all carry a sharing class (the others are loaded for the tables of captured
// stage state and for the "does this method write its receiver" summaries)
var censusDirs = []string{"pkg/slicepool", "pkg/logger", "pkg/multiterm", "pkg/aggregation", "pkg/extractor", "pkg/extractor/batchers",
	"pkg/multiterm/termrenderers", "cmd/helpers"}

var accessDirs = []string{"pkg/slicepool", "pkg/logger", "pkg/multiterm", "pkg/aggregation", "pkg/extractor", "pkg/extractor/batchers",
	"pkg/multiterm/termrenderers", "cmd/helpers", "pkg/expressions/stdlib", "pkg/expressions/funcfile",
	"pkg/expressions/stdmath", "pkg/multiterm/termscaler", "pkg/multiterm/termformat", "pkg/expressions",
	"pkg/matchers", "pkg/matchers/fastregex", "pkg/matchers/dissect"}

func leanBool(b bool) string {
	if b {
		return "true"
	}
	return "false"
}

func init() {
	RegisterGen("Access", func(c *Ctx) (result string) {
		defer func() {
			// a construct the analysis does not expect must not take the other properties' tables down with it
			if e := recover(); e != nil {
				result = "namespace Rare.Gen.Access\n\n-- the access-table extractor panicked: " + strings.ReplaceAll(fmt.Sprint(e), "\n", " ") + "\n" + untranslatable("access") + "\nend Rare.Gen.Access\n"
			}
		}()
		var sb strings.Builder
		sb.WriteString("namespace Rare.Gen.Access\n\n")
		sb.WriteString("structure Acc where\n  fn : String\n  field : String\n  region : String  -- referent region: fields whose referents may overlap share one\n  obj : String     -- \"var\": the field itself; \"ref\": what a reference-typed field refers to\n  write : Bool\n  atomic : Bool\n  lock : String    -- \"\" none, \"W\" exclusive, \"R\" shared\n  mutex : String   -- which mutex\n  esc : String     -- how the reference leaves the function: \"\" (it does not) return arg store global send go addr methodvalue\n  depth : Nat      -- nesting depth of the function literal making the access, counted from the code that declares the variable (0: that code itself – the declared function's own body, or the builder literal)\n  how : String     -- direct / alias (\"@x\") / append / call:… / escape:…\n  ord : List String  -- roles this access is ordered with (go statement, hand-shake)\n  line : Nat\n  deriving DecidableEq, Repr\n\n")
		sb.WriteString("structure Fld where\n  name : String\n  kind : String    -- value slice map pointer chan func iface mutex sync atomicval\n  deriving DecidableEq, Repr\n\n")
		w := c.world(accessDirs)
		type cfgC struct {
			accessCfg
			ctors []string
			doc   string
		}
		cfgs := []cfgC{
			{accessCfg{lean: "batcher", dir: "pkg/extractor/batchers", mode: "struct", typ: "Batcher"}, []string{"newBatcher"}, "Batcher (reader goroutines, render goroutine, main)"},
			{accessCfg{lean: "extractor", dir: "pkg/extractor", mode: "struct", typ: "Extractor",
				readOnlyCalls: []string{}},
				[]string{"New"}, "Extractor (workers, closer goroutine, main, render goroutine)"},
			{accessCfg{lean: "ignoreSet", dir: "pkg/extractor", mode: "struct", typ: "ExpressionIgnoreSet"}, []string{"NewIgnoreExpressions"}, "ExpressionIgnoreSet (shared by all workers)"},
			{accessCfg{lean: "objectPool", dir: "pkg/slicepool", mode: "struct", typ: "ObjectPool"}, []string{"NewObjectPoolEx", "NewObjectPool"}, "ObjectPool (shared by all workers of one compiled expression)"},
			{accessCfg{lean: "logger", dir: "pkg/logger", mode: "globals", regions: map[string]string{"logBuffer": "logger"}, retainOK: []string{"log.New"},
				readOnlyCalls: []string{"func:OsExit"}}, []string{"init"}, "package state of pkg/logger (every goroutine logs)"},
			{accessCfg{lean: "aggLoop", dir: "cmd/helpers", mode: "locals", typ: "RunAggregationLoop", regions: map[string]string{"aggregator": "aggstate", "writeOutput": "aggstate"},
				readOnlyCalls: []string{}}, nil, "variables RunAggregationLoop shares with its ticker goroutine (roles main / go1)"},
			{accessCfg{lean: "multitermGlobals", dir: "pkg/multiterm", mode: "globals"}, []string{"init"}, "package state of pkg/multiterm (render goroutine and main)"},
			{accessCfg{lean: "stageState", dir: "pkg/expressions/stdlib", mode: "closures"}, nil, "variables the compiled-expression stages of pkg/expressions/stdlib capture (one closure, run by every worker)"},
			{accessCfg{lean: "stageStateFuncfile", dir: "pkg/expressions/funcfile", mode: "closures"}, nil, "variables the stages of pkg/expressions/funcfile capture"},
			{accessCfg{lean: "stdlibGlobals", dir: "pkg/expressions/stdlib", mode: "globals"}, []string{"init"}, "package state of pkg/expressions/stdlib (every worker)"},
			{accessCfg{lean: "stageStateExpressions", dir: "pkg/expressions", mode: "closures"}, nil, "variables the stages made by pkg/expressions itself capture (joined argument stages, literals, static-analysis wrappers)"},
			{accessCfg{lean: "stageStateStdmath", dir: "pkg/expressions/stdmath", mode: "closures"}, nil, "variables function literals of pkg/expressions/stdmath capture"},
			{accessCfg{lean: "expressionsGlobals", dir: "pkg/expressions", mode: "globals"}, []string{"init"}, "package state of pkg/expressions (every worker)"},
			{accessCfg{lean: "stdmathGlobals", dir: "pkg/expressions/stdmath", mode: "globals"}, []string{"init"}, "package state of pkg/expressions/stdmath (every worker evaluating a {! …} stage)"},
			{accessCfg{lean: "compiledKeyBuilder", dir: "pkg/expressions", mode: "struct", typ: "CompiledKeyBuilder"}, []string{"KeyBuilder.Compile", "optimize"}, "CompiledKeyBuilder (the compiled expression every worker evaluates)"},
			{accessCfg{lean: "aggregation", dir: "pkg/aggregation", mode: "monitor", typ: "*"}, nil, "aggregator state (monitor: only entered under RunAggregationLoop's outputMutex or after the ticker ended)"},
			{accessCfg{lean: "multiterm", dir: "pkg/multiterm", mode: "monitor", typ: "*"}, nil, "terminal writers (monitor, as above)"},
			{accessCfg{lean: "termrenderers", dir: "pkg/multiterm/termrenderers", mode: "monitor", typ: "*"}, nil, "renderers (monitor, as above)"},
		}
		var assumed []string
		spawnsBy := map[string][]string{}
		for _, cfg := range cfgs {
			a := newAnalyzer(w, cfg.accessCfg)
			if !a.collect(cfg.ctors) {
				sb.WriteString(untranslatable(cfg.lean))
				continue
			}
			fmt.Fprintf(&sb, "/-- fields of %s -/\ndef %sFields : List Fld := [", cfg.doc, cfg.lean)
			for i, fi := range a.fields {
				if i > 0 {
					sb.WriteString(", ")
				}
				fmt.Fprintf(&sb, "⟨%s, %s⟩", leanStr(fi.name), leanStr(fi.kind))
			}
			sb.WriteString("]\n\n")
			fmt.Fprintf(&sb, "/-- accesses to %s in %s -/\ndef %s : List Acc := [\n", cfg.doc, cfg.dir, cfg.lean)
			for i, ac := range a.out {
				sep := ","
				if i == len(a.out)-1 {
					sep = ""
				}
				fmt.Fprintf(&sb, "  ⟨%s, %s, %s, %s, %s, %s, %s, %s, %s, %d, %s, %s, %d⟩%s\n", leanStr(ac.fn), leanStr(ac.field), leanStr(ac.region), leanStr(ac.obj), leanBool(ac.write), leanBool(ac.atomic),
					leanStr(ac.lock), leanStr(ac.mutex), leanStr(ac.esc), ac.depth, leanStr(ac.how), leanStrList(ac.ord), ac.line, sep)
			}
			sb.WriteString("]\n\n")
			ctorsOut := append([]string(nil), cfg.ctors...)
			var cc []string
			for c := range a.closureCtors {
				cc = append(cc, c)
			}
			sort.Strings(cc)
			ctorsOut = append(ctorsOut, cc...)
			fmt.Fprintf(&sb, "/-- constructors of %s: they run before the object is shared (up to their first `go` statement) -/\ndef %sCtors : List String := %s\n\n", cfg.lean, cfg.lean, leanStrList(ctorsOut))
			if cfg.mode == "closures" {
				var pc []string
				for k := range a.perCall {
					pc = append(pc, k)
				}
				sort.Strings(pc)
				fmt.Fprintf(&sb, "/-- captured variables of %s that are declared inside a per-evaluation literal (a stage): made afresh by every\n    evaluation, seen only by literals that run in that evaluation's goroutine -/\ndef %sPerCall : List String := %s\n\n", cfg.dir, cfg.lean, leanStrList(pc))
			}
			for k := range a.assumed {
				assumed = append(assumed, cfg.lean+":"+k)
			}
			spawnsBy[cfg.dir] = a.spawns
		}
		sort.Strings(assumed)
		fmt.Fprintf(&sb, "/-- calls through a shared reference that are taken to be read-only on their receiver: the other\n    component's contract (\"can be considered thread-safe\"), not checked here -/\ndef assumedReadOnly : List String := %s\n\n", leanStrList(assumed))
		// goroutines started per package
		var dirs []string
		for d := range spawnsBy {
			dirs = append(dirs, d)
		}
		sort.Strings(dirs)
		sb.WriteString("/-- `go` statements per analysed package (flow that contains them) -/\ndef spawns : List (String × List String) := [")
		for i, d := range dirs {
			if i > 0 {
				sb.WriteString(", ")
			}
			fmt.Fprintf(&sb, "(%s, %s)", leanStr(d), leanStrList(spawnsBy[d]))
		}
		sb.WriteString("]\n\n")
		// census of struct types
		class := map[string]string{
			"pkg/extractor/batchers.Batcher":            "shared:batcher",
			"pkg/extractor/batchers.readerMetrics":      "confined:one per reader goroutine (created in syncReaderToBatcher*, held by that goroutine's readahead scanner)",
			"pkg/extractor.Extractor":                   "shared:extractor",
			"pkg/extractor.ExpressionIgnoreSet":         "shared:ignoreSet",
			"pkg/extractor.extractorInstance":           "confined:checked",
			"pkg/extractor.SliceSpaceExpressionContext": "confined:one per worker (only reachable from its extractorInstance)",
			"pkg/extractor.InputBatch":                  "message:handed over through the batch channel, the sender drops its reference",
			"pkg/extractor.Match":                       "message:handed over through readChan",
			"pkg/extractor.Config":                      "value:copied into Extractor.config by New",
			"pkg/slicepool.ObjectPool":                  "shared:objectPool",
			"pkg/slicepool.IntPool":                     "confined:one per matcher instance, i.e. per worker (created in CreateInstance)",
		}
		ok, why := confinedEvidence(c, w.pkgs["pkg/extractor"], "extractorInstance")
		fmt.Fprintf(&sb, "/-- `extractorInstance` values live in one local of one goroutine and never leave it (syntactic check) -/\ndef extractorInstanceConfined : Bool := %s  -- %s\n\n", leanBool(ok), why)
		sb.WriteString("/-- every struct type of the analysed packages with its sharing class -/\ndef census : List (String × String) := [\n")
		var rows []string
		for _, d := range censusDirs {
			tp := w.pkgs[d]
			for _, n := range structNames(tp) {
				k := d + "." + n
				cl, has := class[k]
				if !has {
					switch d {
					case "pkg/aggregation":
						cl = "monitor:aggregation"
					case "pkg/multiterm":
						cl = "monitor:multiterm"
					case "pkg/multiterm/termrenderers":
						cl = "monitor:termrenderers"
					default:
						cl = "unclassified"
					}
				}
				rows = append(rows, fmt.Sprintf("  (%s, %s)", leanStr(k), leanStr(cl)))
			}
		}
		sb.WriteString(strings.Join(rows, ",\n"))
		sb.WriteString("\n]\n\n")
		var terrs []string
		for _, d := range accessDirs {
			if tp := w.pkgs[d]; tp != nil && len(tp.errs) > 0 {
				terrs = append(terrs, d+": "+tp.errs[0])
			}
		}
		fmt.Fprintf(&sb, "/-- type errors met while loading the packages (must be empty for the table to mean anything) -/\ndef typeErrors : List String := %s\n\n", leanStrList(terrs))
		sb.WriteString("end Rare.Gen.Access\n")
		return sb.String()
	})
}

func (c *Ctx) pkgFiles(dir string) []string {
	ents, _ := os.ReadDir(filepath.Join(c.Repo, dir))
	var out []string
	for _, e := range ents {
		n := e.Name()
		if strings.HasSuffix(n, ".go") && !strings.HasSuffix(n, "_test.go") && !strings.HasPrefix(n, "verif_") {
			out = append(out, filepath.Join(dir, n))
		}
	}
	sort.Strings(out)
	return out
}
