package main

import (
	"fmt"
	"go/ast"
	"go/token"
	"os"
	"path/filepath"
	"sort"
	"strings"
)

// Access table (DESIGN.md C05): for the shared state of Batcher, Extractor, ObjectPool and the
// logger package, every syntactic read/write site with the lock syntactically held there and
// whether the access goes through sync/atomic.  Lean decides `raceFree` over the table.

type access struct {
	fn, field          string
	write, atomic      bool
	lock               string // "", "W" (Lock) or "R" (RLock)
}

type accessCfg struct {
	lean     string   // Lean definition name
	dir      string   // package directory
	typ      string   // struct type name ("" = package-level variables)
	fields   []string // fields / variables of interest
	mutex    string   // mutex field / variable name
}

func (c *Ctx) pkgFiles(dir string) []string {
	ents, _ := os.ReadDir(filepath.Join(c.Repo, dir))
	var out []string
	for _, e := range ents {
		n := e.Name()
		if strings.HasSuffix(n, ".go") && !strings.HasSuffix(n, "_test.go") && !strings.HasPrefix(n, "verif_") {
			out = append(out, filepath.Join(dir, n))
		}
	}
	sort.Strings(out)
	return out
}

func recvName(fd *ast.FuncDecl, typ string) string {
	if fd.Recv == nil || len(fd.Recv.List) == 0 {
		return ""
	}
	t := fd.Recv.List[0].Type
	if st, ok := t.(*ast.StarExpr); ok {
		t = st.X
	}
	if ix, ok := t.(*ast.IndexExpr); ok {
		t = ix.X
	}
	id, ok := t.(*ast.Ident)
	if !ok || len(fd.Recv.List[0].Names) == 0 {
		return ""
	}
	match := false
	for _, alt := range strings.Split(typ, "|") {
		if id.Name == alt {
			match = true
		}
	}
	if !match {
		return ""
	}
	return fd.Recv.List[0].Names[0].Name
}

func (c *Ctx) collectAccesses(cfg accessCfg) ([]access, bool) {
	isField := map[string]bool{}
	for _, f := range cfg.fields {
		isField[f] = true
	}
	var out []access
	found := false
	// helper functions whose every call site holds the lock inherit it
	type callInfo struct{ locked, unlocked int }
	calls := map[string]*callInfo{}
	type pending struct {
		fn  string
		acc []access
	}
	var perFn []pending

	for _, rel := range c.pkgFiles(cfg.dir) {
		f := c.File(rel)
		if f == nil {
			continue
		}
		for _, d := range f.Decls {
			fd, ok := d.(*ast.FuncDecl)
			if !ok || fd.Body == nil {
				continue
			}
			recv := ""
			if cfg.typ != "" {
				recv = recvName(fd, cfg.typ)
				if recv == "" {
					continue
				}
			}
			found = true
			fname := fd.Name.Name
			// match `recv.field` (struct) or bare `field` identifiers (package-level)
			fieldOf := func(e ast.Expr) string {
				if cfg.typ != "" {
					if se, ok := e.(*ast.SelectorExpr); ok {
						if id, ok := se.X.(*ast.Ident); ok && id.Name == recv && isField[se.Sel.Name] {
							return se.Sel.Name
						}
					}
					return ""
				}
				if id, ok := e.(*ast.Ident); ok && isField[id.Name] && id.Obj != nil && id.Obj.Kind == ast.Var {
					if _, isTop := id.Obj.Decl.(*ast.ValueSpec); isTop {
						return id.Name
					}
				}
				return ""
			}
			isMutexCall := func(call *ast.CallExpr) string {
				se, ok := call.Fun.(*ast.SelectorExpr)
				if !ok {
					return ""
				}
				var m string
				if cfg.typ != "" {
					if inner, ok := se.X.(*ast.SelectorExpr); ok {
						if id, ok := inner.X.(*ast.Ident); ok && id.Name == recv {
							m = inner.Sel.Name
						}
					}
				} else if id, ok := se.X.(*ast.Ident); ok {
					m = id.Name
				}
				if m != cfg.mutex {
					return ""
				}
				return se.Sel.Name
			}
			lock := ""
			var accs []access
			var visitExpr func(e ast.Node, write bool)
			visitExpr = func(e ast.Node, write bool) {
				if e == nil {
					return
				}
				ast.Inspect(e, func(n ast.Node) bool {
					switch v := n.(type) {
					case *ast.FuncLit:
						return false // closures handled as separate flows below
					case *ast.CallExpr:
						name := exprStr(c, v.Fun)
						if strings.HasPrefix(name, "atomic.") && len(v.Args) > 0 {
							if u, ok := v.Args[0].(*ast.UnaryExpr); ok && u.Op == token.AND {
								if fl := fieldOf(u.X); fl != "" {
									accs = append(accs, access{fname, fl, !strings.HasPrefix(name, "atomic.Load"), true, lock})
									for _, a := range v.Args[1:] {
										visitExpr(a, false)
									}
									return false
								}
							}
						}
						if id, ok := v.Fun.(*ast.Ident); ok && cfg.typ == "" {
							ci := calls[id.Name]
							if ci == nil {
								ci = &callInfo{}
								calls[id.Name] = ci
							}
							if lock == "W" || fname == "init" {
								ci.locked++
							} else {
								ci.unlocked++
							}
						}
					case *ast.SelectorExpr:
						if fl := fieldOf(v); fl != "" {
							accs = append(accs, access{fname, fl, write, false, lock})
							return false
						}
					case *ast.Ident:
						if cfg.typ == "" {
							if fl := fieldOf(v); fl != "" {
								accs = append(accs, access{fname, fl, write, false, lock})
							}
						}
					}
					return true
				})
			}
			var visitStmt func(s ast.Stmt)
			visitBlock := func(b *ast.BlockStmt) {
				if b == nil {
					return
				}
				for _, s := range b.List {
					visitStmt(s)
				}
			}
			visitStmt = func(s ast.Stmt) {
				switch v := s.(type) {
				case *ast.ExprStmt:
					if call, ok := v.X.(*ast.CallExpr); ok {
						switch isMutexCall(call) {
						case "Lock":
							lock = "W"
							return
						case "RLock":
							lock = "R"
							return
						case "Unlock", "RUnlock":
							lock = ""
							return
						}
					}
					visitExpr(v.X, false)
				case *ast.DeferStmt:
					if m := isMutexCall(v.Call); m == "Unlock" || m == "RUnlock" {
						return // stays held until return
					}
					visitExpr(v.Call, false)
				case *ast.AssignStmt:
					for _, l := range v.Lhs {
						// writing through an index (s.x[i] = …) is a write of the field
						base := l
						for {
							if ix, ok := base.(*ast.IndexExpr); ok {
								base = ix.X
								continue
							}
							break
						}
						if fl := fieldOf(base); fl != "" {
							accs = append(accs, access{fname, fl, true, false, lock})
							if v.Tok != token.ASSIGN && v.Tok != token.DEFINE {
								accs = append(accs, access{fname, fl, false, false, lock})
							}
						} else {
							visitExpr(l, false)
						}
					}
					for _, r := range v.Rhs {
						visitExpr(r, false)
					}
				case *ast.IncDecStmt:
					if fl := fieldOf(v.X); fl != "" {
						accs = append(accs, access{fname, fl, true, false, lock})
					} else {
						visitExpr(v.X, false)
					}
				case *ast.BlockStmt:
					visitBlock(v)
				case *ast.IfStmt:
					if v.Init != nil {
						visitStmt(v.Init)
					}
					visitExpr(v.Cond, false)
					visitBlock(v.Body)
					if v.Else != nil {
						visitStmt(v.Else)
					}
				case *ast.ForStmt:
					if v.Init != nil {
						visitStmt(v.Init)
					}
					visitExpr(v.Cond, false)
					if v.Post != nil {
						visitStmt(v.Post)
					}
					visitBlock(v.Body)
				case *ast.RangeStmt:
					visitExpr(v.X, false)
					visitBlock(v.Body)
				case *ast.ReturnStmt:
					for _, r := range v.Results {
						visitExpr(r, false)
					}
				case *ast.SwitchStmt:
					if v.Init != nil {
						visitStmt(v.Init)
					}
					visitExpr(v.Tag, false)
					visitBlock(v.Body)
				case *ast.CaseClause:
					for _, e := range v.List {
						visitExpr(e, false)
					}
					for _, st := range v.Body {
						visitStmt(st)
					}
				case *ast.DeclStmt, *ast.GoStmt, *ast.SendStmt, *ast.BranchStmt, *ast.LabeledStmt, *ast.SelectStmt:
					visitExpr(v, false)
				default:
					visitExpr(v, false)
				}
			}
			visitBlock(fd.Body)
			perFn = append(perFn, pending{fname, accs})
		}
	}
	for _, p := range perFn {
		inherit := ""
		if ci := calls[p.fn]; ci != nil && ci.locked > 0 && ci.unlocked == 0 {
			inherit = "W" // every call site holds the exclusive lock (or is in init)
		}
		for _, a := range p.acc {
			if a.lock == "" && inherit != "" {
				a.lock = inherit
			}
			out = append(out, a)
		}
	}
	return out, found
}

func init() {
	RegisterGen("Access", func(c *Ctx) string {
		var sb strings.Builder
		sb.WriteString("namespace Rare.Gen.Access\n\n")
		sb.WriteString("structure Acc where\n  fn : String\n  field : String\n  write : Bool\n  atomic : Bool\n  lock : String   -- \"\" none, \"W\" exclusive, \"R\" shared\n  deriving DecidableEq, Repr\n\n")
		for _, cfg := range []accessCfg{
			{"batcher", "pkg/extractor/batchers", "Batcher", []string{"sourceCount", "readCount", "errorCount", "activeFiles", "readBytes", "lastRateUpdate", "lastRate", "lastRateBytes"}, "mux"},
			{"extractor", "pkg/extractor", "Extractor|extractorInstance", []string{"readLines", "matchedLines", "ignoredLines"}, "-"},
			{"objectPool", "pkg/slicepool", "ObjectPool", []string{"pool"}, "m"},
			{"logger", "pkg/logger", "", []string{"logger", "logBuffer"}, "mux"},
		} {
			accs, ok := c.collectAccesses(cfg)
			if !ok {
				sb.WriteString(untranslatable(cfg.lean))
				continue
			}
			fmt.Fprintf(&sb, "/-- accesses to the shared state of `%s` in %s -/\ndef %s : List Acc := [\n", cfg.typ, cfg.dir, cfg.lean)
			for i, a := range accs {
				sep := ","
				if i == len(accs)-1 {
					sep = ""
				}
				fmt.Fprintf(&sb, "  ⟨%s, %s, %v, %v, %s⟩%s\n", leanStr(a.fn), leanStr(a.field), a.write, a.atomic, leanStr(a.lock), sep)
			}
			sb.WriteString("]\n\n")
		}
		sb.WriteString("end Rare.Gen.Access\n")
		return sb.String()
	})
}
