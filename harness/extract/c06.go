package main

import (
	"fmt"
	"go/ast"
	"go/token"
	"strings"
)

// C06: exit-code constants and the ordered if-chain of DetermineErrorState (as a Lean function and
// as data), what main() does with the returned error, and the control skeletons (every statement,
// with its conditions, in source order) of GlobExpand / walkRoot / isDir, openFileToReader and the
// input-selection branch of BuildBatcherFromArguments.

// c06Ctl renders a statement list as a token list: structure tokens "if:<cond>{", "}else{", "}",
// "range:<x>{", "for:<cond>{", "go{", "defer{", "func{" and one token per simple statement
// (whitespace removed).  A call with a function-literal argument becomes "call:<fun>(<other args>){ … }".
func (c *Ctx) c06Ctl(body []ast.Stmt) []string {
	var out []string
	var stmts func(l []ast.Stmt)
	var stmt func(s ast.Stmt)
	txt := func(n ast.Node) string { return strings.Join(strings.Fields(c.Print(n)), "") }
	callWithLit := func(call *ast.CallExpr, prefix string) bool {
		var lit *ast.FuncLit
		var args []string
		for _, a := range call.Args {
			if fl, ok := a.(*ast.FuncLit); ok && lit == nil {
				lit = fl
				args = append(args, "func")
			} else {
				args = append(args, txt(a))
			}
		}
		if fl, ok := call.Fun.(*ast.FuncLit); ok {
			out = append(out, prefix+"{")
			stmts(fl.Body.List)
			out = append(out, "}")
			return true
		}
		if lit == nil {
			return false
		}
		out = append(out, prefix+":"+txt(call.Fun)+"("+strings.Join(args, ",")+"){")
		stmts(lit.Body.List)
		out = append(out, "}")
		return true
	}
	stmt = func(s ast.Stmt) {
		switch v := s.(type) {
		case *ast.IfStmt:
			cond := txt(v.Cond)
			if v.Init != nil {
				cond = txt(v.Init) + ";" + cond
			}
			out = append(out, "if:"+cond+"{")
			stmts(v.Body.List)
			if v.Else != nil {
				out = append(out, "}else{")
				switch e := v.Else.(type) {
				case *ast.BlockStmt:
					stmts(e.List)
				default:
					stmt(e)
				}
			}
			out = append(out, "}")
		case *ast.RangeStmt:
			out = append(out, "range:"+txt(v.X)+"{")
			stmts(v.Body.List)
			out = append(out, "}")
		case *ast.ForStmt:
			cond := ""
			if v.Cond != nil {
				cond = txt(v.Cond)
			}
			out = append(out, "for:"+cond+"{")
			stmts(v.Body.List)
			out = append(out, "}")
		case *ast.BlockStmt:
			stmts(v.List)
		case *ast.GoStmt:
			if !callWithLit(v.Call, "go") {
				out = append(out, "go:"+txt(v.Call))
			}
		case *ast.DeferStmt:
			if !callWithLit(v.Call, "defer") {
				out = append(out, "defer:"+txt(v.Call))
			}
		case *ast.ExprStmt:
			if c06IsTraceHook(v) {
				return // verifTrace(...): event-trace hook, an empty function without the build tag `verif`
			}
			if call, ok := v.X.(*ast.CallExpr); ok && callWithLit(call, "call") {
				return
			}
			out = append(out, "do:"+txt(v.X))
		case *ast.SendStmt:
			out = append(out, "send:"+txt(v.Chan)+"<-"+txt(v.Value))
		case *ast.ReturnStmt:
			parts := []string{}
			for _, r := range v.Results {
				parts = append(parts, txt(r))
			}
			out = append(out, "return:"+strings.Join(parts, ","))
		default:
			out = append(out, "stmt:"+txt(s))
		}
	}
	stmts = func(l []ast.Stmt) {
		for _, s := range l {
			stmt(s)
		}
	}
	stmts(body)
	return out
}

// c06IsTraceHook: the statement is a call of the add-only instrumentation hook verifTrace (a no-op unless the
// harness is built with the tag `verif`); it is not part of the control skeleton the C06 theorems are about.
func c06IsTraceHook(s *ast.ExprStmt) bool {
	if call, ok := s.X.(*ast.CallExpr); ok {
		if id, ok := call.Fun.(*ast.Ident); ok && id.Name == "verifTrace" {
			return true
		}
	}
	return false
}

// c06Tree renders a statement list as a term of `Rare.C06.Ctl` (lean/Rare/Model/C06Ctl.lean).
func (c *Ctx) c06Tree(body []ast.Stmt) string {
	txt := func(n ast.Node) string { return strings.Join(strings.Fields(c.Print(n)), "") }
	var block func(l []ast.Stmt) string
	litOf := func(call *ast.CallExpr) (*ast.FuncLit, string) {
		if fl, ok := call.Fun.(*ast.FuncLit); ok {
			return fl, ""
		}
		var lit *ast.FuncLit
		var args []string
		for _, a := range call.Args {
			if fl, ok := a.(*ast.FuncLit); ok && lit == nil {
				lit = fl
				args = append(args, "func")
			} else {
				args = append(args, txt(a))
			}
		}
		return lit, txt(call.Fun) + "(" + strings.Join(args, ",") + ")"
	}
	block = func(l []ast.Stmt) string {
		if len(l) == 0 {
			return ".nil"
		}
		next := block(l[1:])
		switch v := l[0].(type) {
		case *ast.IfStmt:
			cond := txt(v.Cond)
			if v.Init != nil {
				cond = txt(v.Init) + ";" + cond
			}
			els := ".nil"
			switch e := v.Else.(type) {
			case *ast.BlockStmt:
				els = block(e.List)
			case ast.Stmt:
				if e != nil {
					els = block([]ast.Stmt{e})
				}
			}
			return fmt.Sprintf("(.ifS %s %s %s %s)", leanStr(cond), block(v.Body.List), els, next)
		case *ast.RangeStmt:
			return fmt.Sprintf("(.loop %s %s %s)", leanStr("range:"+txt(v.X)), block(v.Body.List), next)
		case *ast.ForStmt:
			cond := ""
			if v.Cond != nil {
				cond = txt(v.Cond)
			}
			return fmt.Sprintf("(.loop %s %s %s)", leanStr("for:"+cond), block(v.Body.List), next)
		case *ast.BlockStmt:
			return block(append(append([]ast.Stmt{}, v.List...), l[1:]...))
		case *ast.GoStmt:
			if fl, _ := litOf(v.Call); fl != nil {
				return fmt.Sprintf("(.goS %s %s)", block(fl.Body.List), next)
			}
			return fmt.Sprintf("(.goS (.simple %s .nil) %s)", leanStr("do:"+txt(v.Call)), next)
		case *ast.DeferStmt:
			if fl, _ := litOf(v.Call); fl != nil {
				return fmt.Sprintf("(.deferS %s %s)", block(fl.Body.List), next)
			}
			return fmt.Sprintf("(.deferS (.simple %s .nil) %s)", leanStr("do:"+txt(v.Call)), next)
		case *ast.ExprStmt:
			if c06IsTraceHook(v) {
				return next
			}
			if call, ok := v.X.(*ast.CallExpr); ok {
				if fl, head := litOf(call); fl != nil {
					return fmt.Sprintf("(.callLit %s %s %s)", leanStr(head), block(fl.Body.List), next)
				}
			}
			return fmt.Sprintf("(.simple %s %s)", leanStr("do:"+txt(v.X)), next)
		case *ast.SendStmt:
			return fmt.Sprintf("(.simple %s %s)", leanStr("send:"+txt(v.Chan)+"<-"+txt(v.Value)), next)
		case *ast.ReturnStmt:
			parts := []string{}
			for _, r := range v.Results {
				parts = append(parts, txt(r))
			}
			return fmt.Sprintf("(.ret %s %s)", leanStr(strings.Join(parts, ",")), next)
		default:
			return fmt.Sprintf("(.simple %s %s)", leanStr("stmt:"+txt(l[0])), next)
		}
	}
	return block(body)
}

// c06Cond translates a condition of DetermineErrorState into a Lean Bool expression over
// readErrors / aggPresent / parseErrors / matchedLines.
func c06Cond(e ast.Expr) (string, bool) {
	switch v := e.(type) {
	case *ast.ParenExpr:
		s, ok := c06Cond(v.X)
		return "(" + s + ")", ok
	case *ast.BinaryExpr:
		switch v.Op {
		case token.LAND, token.LOR:
			a, ok1 := c06Cond(v.X)
			b, ok2 := c06Cond(v.Y)
			op := " && "
			if v.Op == token.LOR {
				op = " || "
			}
			return "(" + a + op + b + ")", ok1 && ok2
		case token.NEQ, token.EQL:
			// agg != nil / agg == nil
			if id, ok := v.Y.(*ast.Ident); ok && id.Name == "nil" {
				if x, ok := v.X.(*ast.Ident); ok && x.Name == "agg" {
					if v.Op == token.NEQ {
						return "aggPresent", true
					}
					return "(!aggPresent)", true
				}
				return "", false
			}
			fallthrough
		case token.GTR, token.LSS, token.GEQ, token.LEQ:
			a, ok1 := c06Term(v.X)
			b, ok2 := c06Term(v.Y)
			op := map[token.Token]string{token.GTR: ">", token.LSS: "<", token.GEQ: "≥", token.LEQ: "≤", token.EQL: "=", token.NEQ: "≠"}[v.Op]
			return "decide (" + a + " " + op + " " + b + ")", ok1 && ok2
		}
	}
	return "", false
}

func c06Term(e ast.Expr) (string, bool) {
	if n, ok := IntLit(e); ok && n >= 0 {
		return fmt.Sprint(n), true
	}
	if call, ok := e.(*ast.CallExpr); ok && len(call.Args) == 0 {
		if sel, ok := call.Fun.(*ast.SelectorExpr); ok {
			if x, ok := sel.X.(*ast.Ident); ok {
				switch x.Name + "." + sel.Sel.Name {
				case "b.ReadErrors":
					return "readErrors", true
				case "agg.ParseErrors":
					return "parseErrors", true
				case "e.MatchedLines":
					return "matchedLines", true
				}
			}
		}
	}
	return "", false
}

// ---------------------------------------------------------------- BuildBatcherFromArguments as a function

// c06BB translates the body of BuildBatcherFromArguments into a Lean function over the flag look-ups
// (B : String → Bool for c.Bool, I : String → Int for c.Int), the number of positional arguments and whether the
// first one is "-".  Supported: the `var ( name = expr … )` block, `fileglobs := c.Args().Slice()`, ifs whose body is
// one logger.Fatal* call, ifs whose body is one logger.Println warning, if / else-if / else with returns.
type c06BB struct {
	c     *Ctx
	bools map[string]bool
	ints  map[string]bool
	ok    bool
}

func (t *c06BB) flagCall(e ast.Expr) (kind, name string, ok bool) {
	call, isCall := e.(*ast.CallExpr)
	if !isCall || len(call.Args) != 1 {
		return "", "", false
	}
	sel, isSel := call.Fun.(*ast.SelectorExpr)
	if !isSel {
		return "", "", false
	}
	if x, isId := sel.X.(*ast.Ident); !isId || x.Name != "c" {
		return "", "", false
	}
	lit, isLit := StringLit(call.Args[0])
	if !isLit || (sel.Sel.Name != "Bool" && sel.Sel.Name != "Int") {
		return "", "", false
	}
	return sel.Sel.Name, lit, true
}

func (t *c06BB) boolExpr(e ast.Expr) string {
	switch v := e.(type) {
	case *ast.ParenExpr:
		return "(" + t.boolExpr(v.X) + ")"
	case *ast.Ident:
		if t.bools[v.Name] {
			return v.Name
		}
	case *ast.UnaryExpr:
		if v.Op == token.NOT {
			return "(!" + t.boolExpr(v.X) + ")"
		}
	case *ast.CallExpr:
		if kind, name, ok := t.flagCall(v); ok && kind == "Bool" {
			return "B " + leanStr(name)
		}
	case *ast.BinaryExpr:
		switch v.Op {
		case token.LAND:
			return "(" + t.boolExpr(v.X) + " && " + t.boolExpr(v.Y) + ")"
		case token.LOR:
			return "(" + t.boolExpr(v.X) + " || " + t.boolExpr(v.Y) + ")"
		case token.LSS, token.GTR, token.LEQ, token.GEQ, token.EQL, token.NEQ:
			txt := strings.Join(strings.Fields(t.c.Print(v)), "")
			if txt == "len(fileglobs)==0" {
				return "decide (nargs = 0)"
			}
			if txt == "fileglobs[0]==\"-\"" {
				return "firstIsDash"
			}
			a, b := t.intExpr(v.X), t.intExpr(v.Y)
			op := map[token.Token]string{token.GTR: ">", token.LSS: "<", token.GEQ: "≥", token.LEQ: "≤", token.EQL: "=", token.NEQ: "≠"}[v.Op]
			return "decide (" + a + " " + op + " " + b + ")"
		}
	}
	t.ok = false
	return "false"
}

func (t *c06BB) intExpr(e ast.Expr) string {
	if n, ok := IntLit(e); ok {
		if n < 0 {
			return fmt.Sprintf("(%d)", n)
		}
		return fmt.Sprint(n)
	}
	if id, ok := e.(*ast.Ident); ok && t.ints[id.Name] {
		return id.Name
	}
	if kind, name, ok := t.flagCall(e); ok && kind == "Int" {
		return "I " + leanStr(name)
	}
	t.ok = false
	return "0"
}

// loggerCall: logger.<fn>(args…)
func (t *c06BB) loggerCall(st ast.Stmt) (fn string, args []ast.Expr, ok bool) {
	es, isE := st.(*ast.ExprStmt)
	if !isE {
		return "", nil, false
	}
	call, isCall := es.X.(*ast.CallExpr)
	if !isCall {
		return "", nil, false
	}
	sel, isSel := call.Fun.(*ast.SelectorExpr)
	if !isSel {
		return "", nil, false
	}
	if x, isId := sel.X.(*ast.Ident); !isId || x.Name != "logger" {
		return "", nil, false
	}
	return sel.Sel.Name, call.Args, true
}

func (t *c06BB) arg(e ast.Expr) string {
	if id, ok := e.(*ast.Ident); ok {
		if t.bools[id.Name] {
			return ".b " + id.Name
		}
		if t.ints[id.Name] {
			return ".i " + id.Name
		}
	}
	if call, ok := e.(*ast.CallExpr); ok && strings.Join(strings.Fields(t.c.Print(call.Fun)), "") == "dirwalk.GlobExpand" && len(call.Args) == 2 {
		if id, ok := call.Args[0].(*ast.Ident); ok && id.Name == "fileglobs" {
			if r, ok := call.Args[1].(*ast.Ident); ok && t.bools[r.Name] {
				return ".glob " + r.Name
			}
		}
	}
	return ".text " + leanStr(strings.Join(strings.Fields(t.c.Print(e)), ""))
}

// block translates a statement list; w = name of the current warnings list.
func (t *c06BB) block(l []ast.Stmt, w int, ind string) string {
	if len(l) == 0 {
		t.ok = false
		return ind + ".untranslatable"
	}
	switch v := l[0].(type) {
	case *ast.AssignStmt:
		if strings.Join(strings.Fields(t.c.Print(v)), "") == "fileglobs:=c.Args().Slice()" {
			return t.block(l[1:], w, ind)
		}
	case *ast.ReturnStmt:
		if len(v.Results) == 1 {
			if call, ok := v.Results[0].(*ast.CallExpr); ok {
				var args []string
				for _, a := range call.Args {
					args = append(args, t.arg(a))
				}
				return fmt.Sprintf("%s.ret %s [%s] w%d", ind, leanStr(strings.Join(strings.Fields(t.c.Print(call.Fun)), "")), strings.Join(args, ", "), w)
			}
		}
	case *ast.IfStmt:
		if v.Init == nil && len(v.Body.List) == 1 {
			if fn, args, ok := t.loggerCall(v.Body.List[0]); ok && v.Else == nil {
				if strings.HasPrefix(fn, "Fatal") && len(args) >= 2 {
					if msg, ok := StringLit(args[1]); ok {
						code := strings.Join(strings.Fields(t.c.Print(args[0])), "")
						return fmt.Sprintf("%sif %s then .fatal %s %s else\n%s", ind, t.boolExpr(v.Cond), leanStr(code), leanStr(msg), t.block(l[1:], w, ind))
					}
				}
				if strings.HasPrefix(fn, "Print") && len(args) == 1 {
					if msg, ok := StringLit(args[0]); ok {
						return fmt.Sprintf("%slet w%d := w%d ++ (if %s then [%s] else [])\n%s", ind, w+1, w, t.boolExpr(v.Cond), leanStr(msg), t.block(l[1:], w+1, ind))
					}
				}
			}
		}
		if v.Init == nil && v.Else != nil && len(l) == 1 {
			var els string
			switch e := v.Else.(type) {
			case *ast.BlockStmt:
				els = t.block(e.List, w, ind+"  ")
			case *ast.IfStmt:
				els = t.block([]ast.Stmt{e}, w, ind+"  ")
			}
			return fmt.Sprintf("%sif %s then\n%s\n%selse\n%s", ind, t.boolExpr(v.Cond), t.block(v.Body.List, w, ind+"  "), ind, els)
		}
	}
	t.ok = false
	return ind + ".untranslatable"
}

func (c *Ctx) c06BuildBatcherFn(fd *ast.FuncDecl) (string, bool) {
	t := &c06BB{c: c, bools: map[string]bool{}, ints: map[string]bool{}, ok: true}
	var sb strings.Builder
	sb.WriteString("def buildBatcherFn (B : String → Bool) (I : String → Int) (nargs : Nat) (firstIsDash : Bool) : Decision :=\n")
	rest := fd.Body.List
	for len(rest) > 0 {
		if ds, ok := rest[0].(*ast.DeclStmt); ok {
			gd, ok := ds.Decl.(*ast.GenDecl)
			if !ok || gd.Tok != token.VAR {
				return "", false
			}
			for _, sp := range gd.Specs {
				vs, ok := sp.(*ast.ValueSpec)
				if !ok || len(vs.Names) != 1 || len(vs.Values) != 1 {
					return "", false
				}
				name := vs.Names[0].Name
				// an integer flag, or a boolean expression over flags and earlier variables
				if kind, _, ok := t.flagCall(vs.Values[0]); ok && kind == "Int" {
					fmt.Fprintf(&sb, "  let %s : Int := %s\n", name, t.intExpr(vs.Values[0]))
					t.ints[name] = true
				} else {
					fmt.Fprintf(&sb, "  let %s : Bool := %s\n", name, t.boolExpr(vs.Values[0]))
					t.bools[name] = true
				}
			}
			rest = rest[1:]
			continue
		}
		if as, ok := rest[0].(*ast.AssignStmt); ok && strings.Join(strings.Fields(c.Print(as)), "") == "fileglobs:=c.Args().Slice()" {
			rest = rest[1:]
			continue
		}
		break
	}
	sb.WriteString("  let w0 : List String := []\n")
	sb.WriteString(t.block(rest, 0, "  "))
	sb.WriteString("\n\n")
	return sb.String(), t.ok
}

func init() {
	RegisterGen("C06", func(c *Ctx) string {
		var sb strings.Builder
		sb.WriteString("import Rare.Model.C06Ctl\nnamespace Rare.Gen.C06\nopen Rare.C06 (Ctl Arg Decision)\n\n")
		const exitFile = "cmd/helpers/exitCodes.go"
		consts := map[string]int64{}
		for _, name := range []string{"ExitCodeNoData", "ExitCodeInvalidUsage"} {
			lean := strings.ToLower(name[:1]) + name[1:]
			if n, ok := IntLit(c.Var(exitFile, name)); ok && n >= 0 {
				consts[name] = n
				fmt.Fprintf(&sb, "/-- `%s` (%s) -/\ndef %s : Nat := %d\n\n", name, exitFile, lean, n)
			} else {
				sb.WriteString(untranslatable(lean))
			}
		}

		// DetermineErrorState: `if <cond> { return cli.Exit(<msg>, <const>) }` … `return nil`
		c.Fingerprint(exitFile, "DetermineErrorState")
		fd := c.Func(exitFile, "DetermineErrorState")
		okChain := fd != nil && fd.Body != nil && len(consts) == 2
		var fn, data []string
		if okChain {
			for i, st := range fd.Body.List {
				last := i == len(fd.Body.List)-1
				if last {
					r, ok := st.(*ast.ReturnStmt)
					if !ok || len(r.Results) != 1 || c.Print(r.Results[0]) != "nil" {
						okChain = false
					}
					break
				}
				ifs, ok := st.(*ast.IfStmt)
				if !ok || ifs.Init != nil || ifs.Else != nil || len(ifs.Body.List) != 1 {
					okChain = false
					break
				}
				r, ok := ifs.Body.List[0].(*ast.ReturnStmt)
				if !ok || len(r.Results) != 1 {
					okChain = false
					break
				}
				call, ok := r.Results[0].(*ast.CallExpr)
				if !ok || strings.Join(strings.Fields(c.Print(call.Fun)), "") != "cli.Exit" || len(call.Args) != 2 {
					okChain = false
					break
				}
				msg, ok1 := StringLit(call.Args[0])
				id, ok2 := call.Args[1].(*ast.Ident)
				cond, ok3 := c06Cond(ifs.Cond)
				if !ok1 || !ok2 || !ok3 {
					okChain = false
					break
				}
				if _, known := consts[id.Name]; !known {
					okChain = false
					break
				}
				lean := strings.ToLower(id.Name[:1]) + id.Name[1:]
				fn = append(fn, fmt.Sprintf("  if %s then (%s, %s) else", cond, lean, leanStr(msg)))
				data = append(data, fmt.Sprintf("(%s, %s, %s)", leanStr(strings.Join(strings.Fields(c.Print(ifs.Cond)), "")), lean, leanStr(msg)))
			}
		}
		if okChain {
			fmt.Fprintf(&sb, "/-- `DetermineErrorState` (%s): the ordered if-chain; result = (exit status, message), `(0, \"\")` for `return nil` -/\n", exitFile)
			sb.WriteString("def determineErrorState (readErrors : Int) (aggPresent : Bool) (parseErrors matchedLines : Int) : Nat × String :=\n")
			sb.WriteString(strings.Join(fn, "\n"))
			sb.WriteString("\n  (0, \"\")\n\n")
			fmt.Fprintf(&sb, "/-- the same chain as data: (condition text, exit status, message) in source order -/\ndef chain : List (String × Nat × String) := [%s]\n\n", strings.Join(data, ", "))
		} else {
			sb.WriteString(untranslatable("determineErrorState"))
		}

		// main(): how the error becomes the process exit status
		c.Fingerprint("main.go", "main")
		if md := c.Func("main.go", "main"); md != nil && md.Body != nil {
			fmt.Fprintf(&sb, "/-- control skeleton of `main` (main.go) -/\ndef mainFn : List String := %s\n\n", leanStrList(c.c06Ctl(md.Body.List)))
		} else {
			sb.WriteString(untranslatable("mainFn"))
		}

		type anchor struct{ lean, file, fn string }
		for _, a := range []anchor{
			{"globExpand", "pkg/extractor/dirwalk/globExpand.go", "GlobExpand"},
			{"walkRoot", "pkg/extractor/dirwalk/globExpand.go", "walkRoot"},
			{"isDir", "pkg/extractor/dirwalk/globExpand.go", "isDir"},
			{"openFileToReader", "pkg/extractor/batchers/fileBatcher.go", "openFileToReader"},
			{"openFilesToChan", "pkg/extractor/batchers/fileBatcher.go", "OpenFilesToChan"},
		} {
			c.Fingerprint(a.file, a.fn)
			f := c.Func(a.file, a.fn)
			if f == nil || f.Body == nil {
				sb.WriteString(untranslatable(a.lean))
				continue
			}
			fmt.Fprintf(&sb, "/-- control skeleton of `%s` (%s) -/\ndef %s : List String := %s\n\n", a.fn, a.file, a.lean, leanStrList(c.c06Ctl(f.Body.List)))
		}

		// control tree of OpenFilesToChan (for the semaphore accounting)
		if f := c.Func("pkg/extractor/batchers/fileBatcher.go", "OpenFilesToChan"); f != nil && f.Body != nil {
			fmt.Fprintf(&sb, "/-- control tree of `OpenFilesToChan` -/\ndef openFilesToChanTree : Ctl :=\n  %s\n\n", c.c06Tree(f.Body.List))
		} else {
			sb.WriteString(untranslatable("openFilesToChanTree"))
		}

		// control tree of OpenReaderToChan (the standard-input reader; executed by Model/C06Exec.lean)
		c.Fingerprint("pkg/extractor/batchers/readerBatcher.go", "OpenReaderToChan")
		if f := c.Func("pkg/extractor/batchers/readerBatcher.go", "OpenReaderToChan"); f != nil && f.Body != nil {
			fmt.Fprintf(&sb, "/-- control tree of `OpenReaderToChan` (pkg/extractor/batchers/readerBatcher.go) -/\ndef openReaderToChanTree : Ctl :=\n  %s\n\n", c.c06Tree(f.Body.List))
		} else {
			sb.WriteString(untranslatable("openReaderToChanTree"))
		}

		// BuildBatcherFromArguments: the usage checks and the three-way input selection (every if of the body)
		c.Fingerprint("cmd/helpers/extractorBuilder.go", "BuildBatcherFromArguments")
		if f := c.Func("cmd/helpers/extractorBuilder.go", "BuildBatcherFromArguments"); f != nil && f.Body != nil {
			var ifs []ast.Stmt
			for _, st := range f.Body.List {
				if _, ok := st.(*ast.IfStmt); ok {
					ifs = append(ifs, st)
				}
			}
			fmt.Fprintf(&sb, "/-- the if-statements of `BuildBatcherFromArguments` (cmd/helpers/extractorBuilder.go) -/\ndef buildBatcher : List String := %s\n\n", leanStrList(c.c06Ctl(ifs)))
			if txt, ok := c.c06BuildBatcherFn(f); ok {
				sb.WriteString("/-- the body of `BuildBatcherFromArguments` as a function: flag look-ups `B` (`c.Bool`), `I` (`c.Int`), number of positional arguments, first argument is `-` -/\n")
				sb.WriteString(txt)
			} else {
				sb.WriteString(untranslatable("buildBatcherFn"))
			}
		} else {
			sb.WriteString(untranslatable("buildBatcher"))
		}
		// function level: GlobExpand's loop body, walkRoot, isDir, openFileToReader (c06fn.go)
		sb.WriteString(c.c06Functions())
		sb.WriteString("end Rare.Gen.C06\n")
		return sb.String()
	})
}
