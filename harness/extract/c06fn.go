package main

// C06, function level: the bodies of GlobExpand (one iteration of its loop), walkRoot, isDir and openFileToReader
// regenerated as Lean FUNCTIONS over oracle parameters (os.Stat, filepath.Walk, filepath.Glob, os.Open, gzip.NewReader),
// not only as statement texts.  Props/C06.lean proves the hand model equal to them for all inputs
// (`expand_matches_source`, `open_matches_source`).  Anything outside the statement forms handled here makes the
// definition `<name>_untranslatable`, which breaks those theorems.

import (
	"fmt"
	"go/ast"
	"go/token"
	"strings"
)

type c06Fn struct {
	c  *Ctx
	ok bool
}

func (t *c06Fn) txt(n ast.Node) string { return strings.Join(strings.Fields(t.c.Print(n)), "") }

func (t *c06Fn) fail() string { t.ok = false; return "([], [\"<untranslatable>\"])" }

// sendOf: `c <- x` with x an identifier
func (t *c06Fn) sendOf(st ast.Stmt) (string, bool) {
	s, ok := st.(*ast.SendStmt)
	if !ok {
		return "", false
	}
	ch, ok1 := s.Chan.(*ast.Ident)
	v, ok2 := s.Value.(*ast.Ident)
	if !ok1 || !ok2 || ch.Name != "c" {
		return "", false
	}
	return v.Name, true
}

// cond: boolean conditions of GlobExpand's loop body
func (t *c06Fn) cond(e ast.Expr, info string) string {
	switch v := e.(type) {
	case *ast.ParenExpr:
		return t.cond(v.X, info)
	case *ast.Ident:
		if v.Name == "recursive" {
			return "recursive"
		}
	case *ast.UnaryExpr:
		if v.Op == token.NOT {
			return "(!" + t.cond(v.X, info) + ")"
		}
	case *ast.CallExpr:
		s := t.txt(v)
		if s == "isDir(p)" {
			return "isDir p"
		}
		if info != "" && s == info+".IsDir()" {
			return "e.2"
		}
	case *ast.BinaryExpr:
		switch v.Op {
		case token.LAND:
			return "(" + t.cond(v.X, info) + " && " + t.cond(v.Y, info) + ")"
		case token.LOR:
			return "(" + t.cond(v.X, info) + " || " + t.cond(v.Y, info) + ")"
		case token.GTR:
			if t.txt(v) == "len(expanded)>0" {
				return "decide (expanded.length > 0)"
			}
		}
	}
	t.ok = false
	return "false"
}

// walkCall: filepath.Walk(<root>, func(walkPath string, info os.FileInfo, err error) error {
//   if err != nil { return err }; if <cond(info)> { c <- walkPath }; return nil })
func (t *c06Fn) walkCall(st ast.Stmt) (string, bool) {
	es, ok := st.(*ast.ExprStmt)
	if !ok {
		return "", false
	}
	call, ok := es.X.(*ast.CallExpr)
	if !ok || t.txt(call.Fun) != "filepath.Walk" || len(call.Args) != 2 {
		return "", false
	}
	lit, ok := call.Args[1].(*ast.FuncLit)
	if !ok || len(lit.Type.Params.List) != 3 || len(lit.Body.List) != 3 {
		return "", false
	}
	var names []string
	for _, f := range lit.Type.Params.List {
		if len(f.Names) != 1 {
			return "", false
		}
		names = append(names, f.Names[0].Name)
	}
	pathN, infoN, errN := names[0], names[1], names[2]
	var root string
	switch t.txt(call.Args[0]) {
	case "walkRoot(p)":
		root = "(walkRoot p)"
	case "p":
		root = "p"
	default:
		return "", false
	}
	if t.txt(lit.Body.List[0]) != "if"+errN+"!=nil{return"+errN+"}" || t.txt(lit.Body.List[2]) != "returnnil" {
		return "", false
	}
	ifs, ok := lit.Body.List[1].(*ast.IfStmt)
	if !ok || ifs.Init != nil || ifs.Else != nil || len(ifs.Body.List) != 1 {
		return "", false
	}
	if v, ok := t.sendOf(ifs.Body.List[0]); !ok || v != pathN {
		return "", false
	}
	return fmt.Sprintf("(((walk %s).filter fun e => %s).map (·.1), [])", root, t.cond(ifs.Cond, infoN)), true
}

// block: a statement list as an expression of type `List α × List String` (names sent on `c`, messages logged)
func (t *c06Fn) block(l []ast.Stmt, ind string) string {
	if len(l) == 0 {
		return ind + "([], [])"
	}
	var head string
	rest := l[1:]
	switch v := l[0].(type) {
	case *ast.SendStmt:
		x, ok := t.sendOf(v)
		if !ok {
			return ind + t.fail()
		}
		head = ind + "([" + x + "], [])"
	case *ast.ExprStmt:
		if w, ok := t.walkCall(v); ok {
			head = ind + w
		} else if call, ok := v.X.(*ast.CallExpr); ok && strings.HasPrefix(t.txt(call.Fun), "logger.Print") && len(call.Args) >= 1 {
			msg, ok := StringLit(call.Args[0])
			if !ok {
				return ind + t.fail()
			}
			head = ind + "([], [" + leanStr(msg) + "])"
		} else {
			return ind + t.fail()
		}
	case *ast.RangeStmt:
		// for _, item := range expanded { c <- item }
		val, ok1 := v.Value.(*ast.Ident)
		x, ok2 := v.X.(*ast.Ident)
		if !ok1 || !ok2 || len(v.Body.List) != 1 {
			return ind + t.fail()
		}
		if s, ok := t.sendOf(v.Body.List[0]); !ok || s != val.Name {
			return ind + t.fail()
		}
		head = ind + "(" + x.Name + ", [])"
	case *ast.AssignStmt:
		// expanded, err := filepath.Glob(p) ; if err != nil { A } else { B }   (B may be an else-if chain)
		if t.txt(v) == "expanded,err:=filepath.Glob(p)" && len(rest) >= 1 {
			if ifs, ok := rest[0].(*ast.IfStmt); ok && ifs.Init == nil && t.txt(ifs.Cond) == "err!=nil" && ifs.Else != nil {
				a := t.block(ifs.Body.List, ind+"    ")
				var b string
				switch e := ifs.Else.(type) {
				case *ast.BlockStmt:
					b = t.block(e.List, ind+"    ")
				case *ast.IfStmt:
					b = t.block([]ast.Stmt{e}, ind+"    ")
				}
				head = fmt.Sprintf("%smatch glob p with\n%s| none =>\n%s\n%s| some expanded =>\n%s", ind, ind, a, ind, b)
				rest = rest[1:]
				break
			}
		}
		return ind + t.fail()
	case *ast.IfStmt:
		if v.Init != nil {
			return ind + t.fail()
		}
		els := ind + "  ([], [])"
		switch e := v.Else.(type) {
		case *ast.BlockStmt:
			els = t.block(e.List, ind+"  ")
		case *ast.IfStmt:
			els = t.block([]ast.Stmt{e}, ind+"  ")
		}
		head = fmt.Sprintf("%sif %s then\n%s\n%selse\n%s", ind, t.cond(v.Cond, ""), t.block(v.Body.List, ind+"  "), ind, els)
	default:
		return ind + t.fail()
	}
	if len(rest) == 0 {
		return head
	}
	return fmt.Sprintf("%sseq (\n%s) (\n%s)", ind, head, t.block(rest, ind+"  "))
}

// c06GlobExpandFn: the body of `for _, p := range paths` inside the goroutine of GlobExpand
func (c *Ctx) c06GlobExpandFn(fd *ast.FuncDecl) (string, bool) {
	t := &c06Fn{c: c, ok: true}
	var loop *ast.RangeStmt
	closes := false
	for _, st := range fd.Body.List {
		g, ok := st.(*ast.GoStmt)
		if !ok {
			continue
		}
		lit, ok := g.Call.Fun.(*ast.FuncLit)
		if !ok {
			return "", false
		}
		for i, s := range lit.Body.List {
			if r, ok := s.(*ast.RangeStmt); ok && loop == nil {
				loop = r
				if i != 0 {
					return "", false
				}
			} else if t.txt(s) == "close(c)" && i == len(lit.Body.List)-1 {
				closes = true
			} else {
				return "", false
			}
		}
	}
	if loop == nil || !closes || t.txt(loop.X) != "paths" {
		return "", false
	}
	if v, ok := loop.Value.(*ast.Ident); !ok || v.Name != "p" {
		return "", false
	}
	var sb strings.Builder
	sb.WriteString("def globExpandFn {α : Type} (isDir : α → Bool) (walkRoot : α → α) (walk : α → List (α × Bool)) (glob : α → Option (List α))\n    (recursive : Bool) (p : α) : List α × List String :=\n")
	sb.WriteString("  let seq := fun (a b : List α × List String) => (a.1 ++ b.1, a.2 ++ b.2)\n")
	sb.WriteString(t.block(loop.Body.List, "  "))
	sb.WriteString("\n\n")
	return sb.String(), t.ok
}

// c06WalkRootFn: `if path == "" || os.IsPathSeparator(path[len(path)-1]) { return path }; return path + string(filepath.Separator)`
func (c *Ctx) c06WalkRootFn(fd *ast.FuncDecl) (string, bool) {
	t := &c06Fn{c: c, ok: true}
	if len(fd.Body.List) != 2 {
		return "", false
	}
	ifs, ok := fd.Body.List[0].(*ast.IfStmt)
	if !ok || ifs.Init != nil || ifs.Else != nil || len(ifs.Body.List) != 1 {
		return "", false
	}
	var ret func(st ast.Stmt) (string, bool)
	ret = func(st ast.Stmt) (string, bool) {
		r, ok := st.(*ast.ReturnStmt)
		if !ok || len(r.Results) != 1 {
			return "", false
		}
		switch t.txt(r.Results[0]) {
		case "path":
			return "path", true
		case "path+string(filepath.Separator)":
			return "path ++ [sep]", true
		case "string(filepath.Separator)+path":
			return "[sep] ++ path", true
		}
		return "", false
	}
	var cond func(e ast.Expr) string
	cond = func(e ast.Expr) string {
		switch v := e.(type) {
		case *ast.ParenExpr:
			return cond(v.X)
		case *ast.UnaryExpr:
			if v.Op == token.NOT {
				return "(!" + cond(v.X) + ")"
			}
		case *ast.BinaryExpr:
			if v.Op == token.LOR {
				return "(" + cond(v.X) + " || " + cond(v.Y) + ")"
			}
			if v.Op == token.LAND {
				return "(" + cond(v.X) + " && " + cond(v.Y) + ")"
			}
			switch t.txt(v) {
			case "path==\"\"":
				return "path.isEmpty"
			case "path!=\"\"":
				return "(!path.isEmpty)"
			}
		case *ast.CallExpr:
			switch t.txt(v) {
			case "os.IsPathSeparator(path[len(path)-1])":
				return "isSep (path.getLastD 0)"
			case "os.IsPathSeparator(path[0])":
				return "isSep (path.headD 0)"
			}
		}
		t.ok = false
		return "false"
	}
	a, ok1 := ret(ifs.Body.List[0])
	b, ok2 := ret(fd.Body.List[1])
	if !ok1 || !ok2 {
		return "", false
	}
	s := fmt.Sprintf("def walkRootFn (isSep : UInt8 → Bool) (sep : UInt8) (path : List UInt8) : List UInt8 :=\n  if %s then %s else %s\n\n", cond(ifs.Cond), a, b)
	return s, t.ok
}

// c06IsDirFn: `if fi, err := os.Stat(path); err == nil && fi.IsDir() { return true }; return false`
// `stat path` = none when os.Stat fails, else some (fi.IsDir())
func (c *Ctx) c06IsDirFn(fd *ast.FuncDecl) (string, bool) {
	t := &c06Fn{c: c, ok: true}
	if len(fd.Body.List) != 2 {
		return "", false
	}
	ifs, ok := fd.Body.List[0].(*ast.IfStmt)
	if !ok || ifs.Init == nil || ifs.Else != nil || len(ifs.Body.List) != 1 {
		return "", false
	}
	var statFn string
	switch t.txt(ifs.Init) {
	case "fi,err:=os.Stat(path)":
		statFn = "stat"
	case "fi,err:=os.Lstat(path)":
		statFn = "lstat"
	default:
		return "", false
	}
	var cond func(e ast.Expr) string
	cond = func(e ast.Expr) string {
		switch v := e.(type) {
		case *ast.ParenExpr:
			return cond(v.X)
		case *ast.UnaryExpr:
			if v.Op == token.NOT {
				return "(!" + cond(v.X) + ")"
			}
		case *ast.BinaryExpr:
			if v.Op == token.LOR {
				return "(" + cond(v.X) + " || " + cond(v.Y) + ")"
			}
			if v.Op == token.LAND {
				return "(" + cond(v.X) + " && " + cond(v.Y) + ")"
			}
			switch t.txt(v) {
			case "err==nil":
				return "(" + statFn + " path).isSome"
			case "err!=nil":
				return "(" + statFn + " path).isNone"
			}
		case *ast.CallExpr:
			if t.txt(v) == "fi.IsDir()" {
				return "((" + statFn + " path).getD false)"
			}
		}
		t.ok = false
		return "false"
	}
	lit := func(st ast.Stmt) (string, bool) {
		switch t.txt(st) {
		case "returntrue":
			return "true", true
		case "returnfalse":
			return "false", true
		}
		return "", false
	}
	a, ok1 := lit(ifs.Body.List[0])
	b, ok2 := lit(fd.Body.List[1])
	if !ok1 || !ok2 {
		return "", false
	}
	s := fmt.Sprintf("def isDirFn {α : Type} (stat lstat : α → Option Bool) (path : α) : Bool :=\n  if %s then %s else %s\n\n", cond(ifs.Cond), a, b)
	return s, t.ok
}

// c06OpenFn: openFileToReader as a state-passing function.  State: `isGz` (the returned reader is the gzip reader),
// `rewound` (baseFile.Seek(0, io.SeekStart) ran), `logs`.  Oracles: `openOk` (os.Open), `hdrOk` (gzip.NewReader).
func (c *Ctx) c06OpenFn(fd *ast.FuncDecl) (string, bool) {
	t := &c06Fn{c: c, ok: true}
	l := fd.Body.List
	if len(l) < 4 || t.txt(l[0]) != "baseFile,err:=os.Open(filename)" || t.txt(l[1]) != "iferr!=nil{returnnil,err}" ||
		t.txt(l[2]) != "varfileio.ReadCloser=baseFile" || t.txt(l[len(l)-1]) != "returnfile,nil" {
		return "", false
	}
	// the statements in between update the state
	var stmts func(l []ast.Stmt, ind string) string
	stmts = func(l []ast.Stmt, ind string) string {
		if len(l) == 0 {
			return ind + "st"
		}
		switch v := l[0].(type) {
		case *ast.ExprStmt:
			s := t.txt(v)
			if call, ok := v.X.(*ast.CallExpr); ok && strings.HasPrefix(t.txt(call.Fun), "logger.Print") && len(call.Args) >= 1 {
				if msg, ok := StringLit(call.Args[0]); ok {
					return fmt.Sprintf("%slet st := (st.1, st.2.1, st.2.2 ++ [%s])\n%s", ind, leanStr(msg), stmts(l[1:], ind))
				}
			}
			if s == "baseFile.Seek(0,io.SeekStart)" {
				return fmt.Sprintf("%slet st := (st.1, true, st.2.2)\n%s", ind, stmts(l[1:], ind))
			}
		case *ast.AssignStmt:
			switch t.txt(v) {
			case "file=zfile":
				return fmt.Sprintf("%slet st := (true, st.2.1, st.2.2)\n%s", ind, stmts(l[1:], ind))
			case "file=baseFile":
				return fmt.Sprintf("%slet st := (false, st.2.1, st.2.2)\n%s", ind, stmts(l[1:], ind))
			case "zfile,err:=gzip.NewReader(file)":
				// must be followed by `if err != nil {A} else {B}` (or `if err == nil`)
				if len(l) >= 2 {
					if ifs, ok := l[1].(*ast.IfStmt); ok && ifs.Init == nil {
						var a, b string
						els := ind + "  st"
						if e, ok := ifs.Else.(*ast.BlockStmt); ok {
							els = stmts(e.List, ind+"  ")
						} else if ifs.Else != nil {
							break
						}
						thn := stmts(ifs.Body.List, ind+"  ")
						switch t.txt(ifs.Cond) {
						case "err!=nil":
							a, b = thn, els
						case "err==nil":
							a, b = els, thn
						default:
							t.ok = false
						}
						return fmt.Sprintf("%slet st := if !hdrOk then\n%s\n%selse\n%s\n%s", ind, a, ind, b, stmts(l[2:], ind))
					}
				}
			}
		case *ast.IfStmt:
			if v.Init == nil && v.Else == nil {
				var cnd string
				switch t.txt(v.Cond) {
				case "gunzip":
					cnd = "gunzip"
				case "!gunzip":
					cnd = "!gunzip"
				}
				if cnd != "" {
					return fmt.Sprintf("%slet st := if %s then\n%s\n%selse st\n%s", ind, cnd, stmts(v.Body.List, ind+"  "), ind, stmts(l[1:], ind))
				}
			}
		}
		t.ok = false
		return ind + "st"
	}
	var sb strings.Builder
	sb.WriteString("def openFileToReaderFn (openOk hdrOk gunzip : Bool) : Option (Bool × Bool × List String) :=\n")
	sb.WriteString("  if !openOk then none else\n")
	sb.WriteString("  let st : Bool × Bool × List String := (false, false, [])\n")
	sb.WriteString(stmts(l[3:len(l)-1], "  "))
	sb.WriteString("\n  some st\n\n")
	// `some st` after the final `st` expression: the block above ends with a bare `st`; drop it
	s := strings.Replace(sb.String(), "\n  st\n  some st\n", "\n  some st\n", 1)
	return s, t.ok
}

func (c *Ctx) c06Functions() string {
	var sb strings.Builder
	type gen struct {
		lean, file, fn, doc string
		f                   func(*ast.FuncDecl) (string, bool)
	}
	for _, g := range []gen{
		{"globExpandFn", "pkg/extractor/dirwalk/globExpand.go", "GlobExpand",
			"one iteration of `for _, p := range paths` of `GlobExpand` as a function: (names sent on the channel, messages logged); oracles `isDir`, `walkRoot`, `walk r` = the (path, info.IsDir()) pairs `filepath.Walk(r, …)` hands to the callback without error, `glob` = `filepath.Glob` (`none` = error)", c.c06GlobExpandFn},
		{"walkRootFn", "pkg/extractor/dirwalk/globExpand.go", "walkRoot", "`walkRoot` as a function on byte strings (`isSep` = `os.IsPathSeparator`, `sep` = `filepath.Separator`)", c.c06WalkRootFn},
		{"isDirFn", "pkg/extractor/dirwalk/globExpand.go", "isDir", "`isDir` as a function (`stat`/`lstat` = `os.Stat`/`os.Lstat`: `none` on error, else `some fi.IsDir()`)", c.c06IsDirFn},
		{"openFileToReaderFn", "pkg/extractor/batchers/fileBatcher.go", "openFileToReader",
			"`openFileToReader` as a function: `none` = the open error is returned; else (the reader returned is the gzip reader, `baseFile.Seek(0, io.SeekStart)` ran, messages logged); oracles `openOk` (`os.Open`), `hdrOk` (`gzip.NewReader`)", c.c06OpenFn},
	} {
		fd := c.Func(g.file, g.fn)
		if fd == nil || fd.Body == nil {
			sb.WriteString(untranslatable(g.lean))
			continue
		}
		if txt, ok := g.f(fd); ok {
			fmt.Fprintf(&sb, "/-- %s -/\n%s", g.doc, txt)
		} else {
			sb.WriteString(untranslatable(g.lean))
		}
	}
	return sb.String()
}
