package main

import (
	"fmt"
	"go/ast"
	"go/token"
	"strings"
)

// C20 (round 4c): WHICH writer a command gets, and what start-up sees of stdout.
//
//	cmd/helpers/output.go           BuildVTerm, BuildVTermFromArguments
//	pkg/multiterm/termstate/term.go IsPipedOutput, GetTermRowsCols
//
// are translated statement by statement into
//
//	def isPipedOutput (statOk charDevice : Bool) : Bool
//	def getTermRowsCols (isTerminal sizeOk : Bool) (sizeWidth sizeHeight : Int) : Int × Int × Bool
//	def buildVTerm (<param> piped : Bool) : Kind
//	def buildVTermFromArguments (flagBool : String → Bool) (flagString : String → List UInt8) (piped : Bool) : Kind
//
// The operating system's answers are parameters: `statOk` = `os.Stdout.Stat()` returned no error, `charDevice` =
// `fi.Mode() & os.ModeCharDevice` is not 0, `isTerminal` = `term.IsTerminal(fd)`, `sizeOk`/`sizeWidth`/`sizeHeight` =
// the results of `term.GetSize(fd)` IN THE ORDER THE LIBRARY RETURNS THEM (width, height); `piped` = the result of
// `termstate.IsPipedOutput()`; `flagBool n` / `flagString n` = `c.Bool(n)` / `c.String(n)` of the cli context, `n` being
// the `Name:` of the flag variable the source mentions.  Theorems `gen_*_is_model` in Props/C20 prove these equal to the
// hand model (Model/C20.lean): a changed guard, a swapped result, another flag or another constructor in /repo breaks them.
//
// Go subset: a body of `if [init;] cond { … } [else { … }]`, `x := e`, `return e…`; falling out of an `if` continues
// with the statements after it.

type c20out struct {
	c     *Ctx
	file  string
	vars  map[string][2]string // Go identifier -> Lean term, type (bool int str err stat fd kind)
	bad   string
	nres  int
	isTop bool
}

func (t *c20out) fail(why string) string {
	if t.bad == "" {
		t.bad = why
	}
	return "default"
}

// flagName: `X.Name` where X is a package-level `&cli.…Flag{Name: "…"}` of the same file
func (t *c20out) flagName(e ast.Expr) (string, bool) {
	se, ok := e.(*ast.SelectorExpr)
	if !ok || se.Sel.Name != "Name" {
		return "", false
	}
	id, ok := se.X.(*ast.Ident)
	if !ok {
		return "", false
	}
	v := t.c.Var(t.file, id.Name)
	if ue, ok := v.(*ast.UnaryExpr); ok && ue.Op == token.AND {
		v = ue.X
	}
	cl, ok := v.(*ast.CompositeLit)
	if !ok {
		return "", false
	}
	for _, el := range cl.Elts {
		kv, ok := el.(*ast.KeyValueExpr)
		if !ok {
			continue
		}
		if k, ok := kv.Key.(*ast.Ident); ok && k.Name == "Name" {
			return StringLit(kv.Value)
		}
	}
	return "", false
}

func (t *c20out) expr(e ast.Expr) (string, string) {
	switch v := e.(type) {
	case *ast.ParenExpr:
		return t.expr(v.X)
	case *ast.Ident:
		switch v.Name {
		case "true", "false":
			return v.Name, "bool"
		case "nil":
			return "nil", "nil"
		}
		if x, ok := t.vars[v.Name]; ok {
			return x[0], x[1]
		}
		return t.fail("identifier " + v.Name), "?"
	case *ast.BasicLit:
		if v.Kind == token.INT {
			if n, ok := IntLit(v); ok {
				return fmt.Sprintf("(%d : Int)", n), "int"
			}
		}
		if v.Kind == token.STRING {
			if s, ok := StringLit(v); ok {
				return "(" + c20Bytes(s) + " : List UInt8)", "str"
			}
		}
		return t.fail("literal " + v.Value), "?"
	case *ast.UnaryExpr:
		if v.Op == token.NOT {
			a, ty := t.expr(v.X)
			if ty != "bool" {
				return t.fail("! of " + ty), "?"
			}
			return "(!" + a + ")", "bool"
		}
		if v.Op == token.AND {
			if cl, ok := v.X.(*ast.CompositeLit); ok && len(cl.Elts) == 0 && t.c.Print(cl.Type) == "multiterm.NullTerm" {
				return "Kind.null", "kind"
			}
		}
		return t.fail("unary " + t.c.Print(e)), "?"
	case *ast.BinaryExpr:
		switch v.Op {
		case token.LOR, token.LAND:
			a, ta := t.expr(v.X)
			b, tb := t.expr(v.Y)
			if ta != "bool" || tb != "bool" {
				return t.fail("operands of " + v.Op.String()), "?"
			}
			return "(" + a + " " + v.Op.String() + " " + b + ")", "bool"
		case token.AND:
			// fi.Mode() & os.ModeCharDevice
			if call, ok := v.X.(*ast.CallExpr); ok && len(call.Args) == 0 && t.c.Print(v.Y) == "os.ModeCharDevice" {
				if se, ok := call.Fun.(*ast.SelectorExpr); ok && se.Sel.Name == "Mode" {
					if id, ok := se.X.(*ast.Ident); ok && t.vars[id.Name][1] == "stat" {
						return "charDevice", "bits"
					}
				}
			}
			return t.fail("& " + t.c.Print(e)), "?"
		case token.EQL, token.NEQ:
			a, ta := t.expr(v.X)
			b, tb := t.expr(v.Y)
			neg := v.Op == token.NEQ
			pos := func(s string) string {
				if neg {
					return "(!" + s + ")"
				}
				return s
			}
			switch {
			case ta == "err" && tb == "nil": // err == nil: the call succeeded
				return pos(a), "bool"
			case ta == "bits" && b == "(0 : Int)": // bits == 0: the bit is not set
				return pos("(!" + a + ")"), "bool"
			case ta == "str" && tb == "str", ta == "int" && tb == "int":
				return pos("decide (" + a + " = " + b + ")"), "bool"
			}
			return t.fail("comparison " + t.c.Print(e)), "?"
		}
		return t.fail("operator " + v.Op.String()), "?"
	case *ast.CallExpr:
		name := c20CallName(v)
		switch {
		case (name == "c.Bool" || name == "c.String") && len(v.Args) == 1:
			n, ok := t.flagName(v.Args[0])
			if !ok {
				return t.fail("flag name " + t.c.Print(v.Args[0])), "?"
			}
			if name == "c.Bool" {
				return "(flagBool " + leanStr(n) + ")", "bool"
			}
			return "(flagString " + leanStr(n) + ")", "str"
		case name == "termstate.IsPipedOutput" && len(v.Args) == 0:
			return "piped", "bool"
		case name == "term.IsTerminal" && len(v.Args) == 1:
			if _, ty := t.expr(v.Args[0]); ty != "fd" {
				return t.fail("IsTerminal of " + t.c.Print(v.Args[0])), "?"
			}
			return "isTerminal", "bool"
		case name == "BuildVTerm" && len(v.Args) == 1:
			a, ty := t.expr(v.Args[0])
			if ty != "bool" {
				return t.fail("BuildVTerm argument"), "?"
			}
			return "(buildVTerm " + a + " piped)", "kind"
		case name == "multiterm.NewBufferedTerm" && len(v.Args) == 0:
			return "Kind.buffered", "kind"
		case name == "multiterm.New" && len(v.Args) == 0:
			return "Kind.live", "kind"
		}
		return t.fail("call " + t.c.Print(e)), "?"
	}
	return t.fail("expression " + t.c.Print(e)), "?"
}

// define handles `a, b, … := call` / `x := e`; returns a Lean `let` prefix (possibly empty)
func (t *c20out) define(as *ast.AssignStmt) string {
	if as.Tok != token.DEFINE || len(as.Rhs) != 1 {
		t.fail("statement " + t.c.Print(as))
		return ""
	}
	names := []string{}
	for _, l := range as.Lhs {
		id, ok := l.(*ast.Ident)
		if !ok {
			t.fail("target " + t.c.Print(l))
			return ""
		}
		names = append(names, id.Name)
	}
	src := t.c.Print(as.Rhs[0])
	switch {
	case src == "os.Stdout.Stat()" && len(names) == 2:
		t.vars[names[0]] = [2]string{"stat", "stat"}
		t.vars[names[1]] = [2]string{"statOk", "err"}
		return ""
	case src == "int(os.Stdout.Fd())" && len(names) == 1:
		t.vars[names[0]] = [2]string{"fd", "fd"}
		return ""
	case len(names) == 3:
		if call, ok := as.Rhs[0].(*ast.CallExpr); ok && c20CallName(call) == "term.GetSize" && len(call.Args) == 1 {
			if _, ty := t.expr(call.Args[0]); ty == "fd" {
				// golang.org/x/term GetSize(fd) (width, height int, err error)
				t.vars[names[0]] = [2]string{"sizeWidth", "int"}
				t.vars[names[1]] = [2]string{"sizeHeight", "int"}
				t.vars[names[2]] = [2]string{"sizeOk", "err"}
				return ""
			}
		}
	case len(names) == 1:
		a, ty := t.expr(as.Rhs[0])
		if ty == "bool" {
			t.vars[names[0]] = [2]string{names[0], "bool"}
			return "let " + names[0] + " : Bool := " + a + "; "
		}
	}
	t.fail("definition " + t.c.Print(as))
	return ""
}

// block: the value the function returns when it runs `list` and, if it falls out of it, continues with `k`
func (t *c20out) block(list []ast.Stmt, k string) string {
	if len(list) == 0 {
		if k == "" {
			return t.fail("control reaches the end without return")
		}
		return k
	}
	switch st := list[0].(type) {
	case *ast.ReturnStmt:
		if len(st.Results) != t.nres {
			return t.fail("return " + t.c.Print(st))
		}
		parts := []string{}
		for _, r := range st.Results {
			a, ty := t.expr(r)
			if ty != "bool" && ty != "int" && ty != "kind" {
				return t.fail("returned value " + t.c.Print(r))
			}
			parts = append(parts, a)
		}
		if len(parts) == 1 {
			return parts[0]
		}
		return "(" + strings.Join(parts, ", ") + ")"
	case *ast.IfStmt:
		pre := ""
		if st.Init != nil {
			as, ok := st.Init.(*ast.AssignStmt)
			if !ok {
				return t.fail("if-initialiser")
			}
			pre = t.define(as)
		}
		cond, ty := t.expr(st.Cond)
		if ty != "bool" {
			return t.fail("condition " + t.c.Print(st.Cond))
		}
		rest := t.block(list[1:], k)
		thenS := t.block(st.Body.List, rest)
		elseS := rest
		switch el := st.Else.(type) {
		case nil:
		case *ast.BlockStmt:
			elseS = t.block(el.List, rest)
		default:
			return t.fail("else if")
		}
		return "(" + pre + "if " + cond + " then " + thenS + " else " + elseS + ")"
	case *ast.AssignStmt:
		pre := t.define(st)
		return "(" + pre + t.block(list[1:], k) + ")"
	}
	return t.fail("statement " + t.c.Print(list[0]))
}

func c20OutFunc(c *Ctx, sb *strings.Builder, file, goName, leanName, sig, doc string, nres int, boolParams bool) {
	fd := c.Func(file, goName)
	c.Fingerprint(file, goName)
	if fd == nil || fd.Body == nil {
		fmt.Fprintf(sb, "-- %s: not found\n%s", goName, untranslatable(leanName))
		return
	}
	t := &c20out{c: c, file: file, vars: map[string][2]string{}, nres: nres}
	params := []string{}
	if fd.Type.Params != nil {
		for _, f := range fd.Type.Params.List {
			for _, n := range f.Names {
				if boolParams && c.Print(f.Type) == "bool" {
					t.vars[n.Name] = [2]string{n.Name, "bool"}
					params = append(params, n.Name)
				}
			}
		}
	}
	if boolParams {
		if len(params) != 1 {
			fmt.Fprintf(sb, "-- %s: parameters\n%s", goName, untranslatable(leanName))
			return
		}
		sig = "(" + params[0] + " piped : Bool) : Kind"
	}
	body := t.block(fd.Body.List, "")
	if t.bad != "" {
		fmt.Fprintf(sb, "-- %s: %s\n%s", goName, t.bad, untranslatable(leanName))
		return
	}
	fmt.Fprintf(sb, "/-- %s -/\ndef %s %s :=\n  %s\n\n", doc, leanName, sig, body)
}

// c20Small: the methods that are one-liners or empty – NullTerm (three empty bodies: nothing is ever written) and the
// two WriteForLinef (delegate to WriteForLine(line, fmt.Sprintf(format, args...)) of the same receiver)
func c20Small(c *Ctx, sb *strings.Builder) {
	const nt = "pkg/multiterm/nullterm.go"
	counts := []string{}
	ok := true
	for _, fn := range []string{"NullTerm.WriteForLine", "NullTerm.WriteForLinef", "NullTerm.Close"} {
		c.Fingerprint(nt, fn)
		fd := c.Func(nt, fn)
		if fd == nil || fd.Body == nil {
			ok = false
			break
		}
		counts = append(counts, fmt.Sprintf("%d", len(fd.Body.List)))
	}
	if ok {
		fmt.Fprintf(sb, "/-- nullterm.go: number of statements in the bodies of NullTerm.WriteForLine / WriteForLinef / Close -/\ndef nullTermStatements : List Nat := [%s]\n\n", strings.Join(counts, ", "))
	} else {
		sb.WriteString(untranslatable("nullTermStatements"))
	}
	deleg := func(file, fn string) bool {
		fd := c.Func(file, fn)
		if fd == nil || fd.Body == nil || len(fd.Body.List) != 1 || fd.Recv == nil || len(fd.Recv.List[0].Names) != 1 {
			return false
		}
		es, ok := fd.Body.List[0].(*ast.ExprStmt)
		if !ok {
			return false
		}
		recv := fd.Recv.List[0].Names[0].Name
		var ps []string
		for _, f := range fd.Type.Params.List {
			for _, n := range f.Names {
				ps = append(ps, n.Name)
			}
		}
		if len(ps) != 3 {
			return false
		}
		return c.Print(es.X) == fmt.Sprintf("%s.WriteForLine(%s, fmt.Sprintf(%s, %s...))", recv, ps[0], ps[1], ps[2])
	}
	c.Fingerprint("pkg/multiterm/multiterm.go", "TermWriter.WriteForLinef")
	c.Fingerprint("pkg/multiterm/virtualterm.go", "VirtualTerm.WriteForLinef")
	fmt.Fprintf(sb, "/-- multiterm.go / virtualterm.go: WriteForLinef(line, format, args...) is exactly WriteForLine(line, fmt.Sprintf(format, args...)) -/\ndef writeForLinefDelegates : Bool × Bool := (%v, %v)\n\n",
		deleg("pkg/multiterm/multiterm.go", "TermWriter.WriteForLinef"), deleg("pkg/multiterm/virtualterm.go", "VirtualTerm.WriteForLinef"))
}

func c20Out(c *Ctx, sb *strings.Builder) {
	const ts = "pkg/multiterm/termstate/term.go"
	const out = "cmd/helpers/output.go"
	sb.WriteString("/-- the three implementations of multiterm.MultilineTerm a command can get -/\ninductive Kind where\n  | null\n  | buffered\n  | live\n  deriving DecidableEq, Repr\n\n")
	c20OutFunc(c, sb, ts, "IsPipedOutput", "isPipedOutput", "(statOk charDevice : Bool) : Bool",
		"termstate/term.go IsPipedOutput(): `statOk` = os.Stdout.Stat() gave no error, `charDevice` = fi.Mode() & os.ModeCharDevice is not 0", 1, false)
	c20OutFunc(c, sb, ts, "GetTermRowsCols", "getTermRowsCols", "(isTerminal sizeOk : Bool) (sizeWidth sizeHeight : Int) : Int × Int × Bool",
		"termstate/term.go GetTermRowsCols(): `sizeWidth, sizeHeight, sizeOk` = the results of term.GetSize(fd) in the library's order", 3, false)
	c20OutFunc(c, sb, out, "BuildVTerm", "buildVTerm", "",
		"cmd/helpers/output.go BuildVTerm(…): `piped` = termstate.IsPipedOutput()", 1, true)
	c20OutFunc(c, sb, out, "BuildVTermFromArguments", "buildVTermFromArguments",
		"(flagBool : String → Bool) (flagString : String → List UInt8) (piped : Bool) : Kind",
		"cmd/helpers/output.go BuildVTermFromArguments(c): `flagBool n` = c.Bool(n), `flagString n` = c.String(n)", 1, false)
	c20Small(c, sb)
}
