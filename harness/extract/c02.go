package main

import (
	"fmt"
	"go/ast"
	"go/token"
	"strings"
)

// constEnv evaluates the string constants of a file (literals, concatenations, references to
// earlier constants).
func (c *Ctx) constEnv(rel string) map[string]string {
	env := map[string]string{}
	f := c.File(rel)
	if f == nil {
		return env
	}
	var eval func(e ast.Expr) (string, bool)
	eval = func(e ast.Expr) (string, bool) {
		switch v := e.(type) {
		case *ast.Ident:
			s, ok := env[v.Name]
			return s, ok
		case *ast.BinaryExpr:
			if v.Op == token.ADD {
				a, ok1 := eval(v.X)
				b, ok2 := eval(v.Y)
				return a + b, ok1 && ok2
			}
		case *ast.ParenExpr:
			return eval(v.X)
		}
		return StringLit(e)
	}
	for pass := 0; pass < 3; pass++ {
		for _, d := range f.Decls {
			gd, ok := d.(*ast.GenDecl)
			if !ok || gd.Tok != token.CONST {
				continue
			}
			for _, s := range gd.Specs {
				vs := s.(*ast.ValueSpec)
				for i, n := range vs.Names {
					if i < len(vs.Values) {
						if v, ok := eval(vs.Values[i]); ok {
							env[n.Name] = v
						}
					}
				}
			}
		}
	}
	return env
}

// ---- a tiny translator of Go integer/boolean guard expressions into Lean (Int / Bool)

type c02tr struct {
	c    *Ctx
	vars []string
	bad  bool
}

func (t *c02tr) v(name string) string {
	name = strings.NewReplacer(".", "_", "(", "_", ")", "").Replace(name)
	if name == "end" {
		name = "end_"
	}
	for _, x := range t.vars {
		if x == name {
			return name
		}
	}
	t.vars = append(t.vars, name)
	return name
}

func (t *c02tr) intE(e ast.Expr) string {
	switch v := e.(type) {
	case *ast.ParenExpr:
		return "(" + t.intE(v.X) + ")"
	case *ast.BasicLit:
		if n, ok := IntLit(v); ok {
			return fmt.Sprintf("%d", n)
		}
	case *ast.Ident:
		return t.v(v.Name)
	case *ast.SelectorExpr:
		return t.v(v.Sel.Name)
	case *ast.CallExpr:
		if id, ok := v.Fun.(*ast.Ident); ok && (id.Name == "uint64" || id.Name == "int64" || id.Name == "int") && len(v.Args) == 1 {
			// an integer conversion (no wrap-around is modelled: the operands are lengths and indices)
			return t.intE(v.Args[0])
		}
		if id, ok := v.Fun.(*ast.Ident); ok && id.Name == "len" && len(v.Args) == 1 {
			switch a := v.Args[0].(type) {
			case *ast.Ident:
				return t.v("len_" + a.Name)
			case *ast.SelectorExpr:
				return t.v("len_" + a.Sel.Name)
			}
		}
	case *ast.BinaryExpr:
		a, b := t.intE(v.X), t.intE(v.Y)
		switch v.Op {
		case token.ADD:
			return "(" + a + " + " + b + ")"
		case token.SUB:
			return "(" + a + " - " + b + ")"
		case token.MUL:
			return "(" + a + " * " + b + ")"
		case token.QUO:
			return "(Int.tdiv " + a + " " + b + ")"
		case token.REM:
			return "(Int.tmod " + a + " " + b + ")"
		}
	}
	t.bad = true
	return "0"
}

func (t *c02tr) boolE(e ast.Expr) string {
	switch v := e.(type) {
	case *ast.ParenExpr:
		return "(" + t.boolE(v.X) + ")"
	case *ast.BinaryExpr:
		switch v.Op {
		case token.LOR:
			return "(" + t.boolE(v.X) + " || " + t.boolE(v.Y) + ")"
		case token.LAND:
			return "(" + t.boolE(v.X) + " && " + t.boolE(v.Y) + ")"
		}
		ops := map[token.Token]string{token.LSS: "<", token.LEQ: "≤", token.GTR: ">", token.GEQ: "≥", token.EQL: "=", token.NEQ: "≠"}
		if op, ok := ops[v.Op]; ok {
			return "decide (" + t.intE(v.X) + " " + op + " " + t.intE(v.Y) + ")"
		}
	}
	t.bad = true
	return "false"
}

// c02Guard emits `def name (vars : Int) : Bool := …` for a Go condition.
func c02Guard(c *Ctx, sb *strings.Builder, name string, e ast.Expr) {
	if e == nil {
		sb.WriteString(untranslatable(name))
		return
	}
	t := &c02tr{c: c}
	body := t.boolE(e)
	if t.bad {
		sb.WriteString(untranslatable(name))
		return
	}
	args := ""
	for _, v := range t.vars {
		args += " (" + v + " : Int)"
	}
	fmt.Fprintf(sb, "/-- `%s` -/\ndef %s%s : Bool := %s\n", exprStr(c, e), name, args, body)
}

func c02Int(c *Ctx, sb *strings.Builder, name string, e ast.Expr) {
	if e == nil {
		sb.WriteString(untranslatable(name))
		return
	}
	t := &c02tr{c: c}
	body := t.intE(e)
	if t.bad {
		sb.WriteString(untranslatable(name))
		return
	}
	args := ""
	for _, v := range t.vars {
		args += " (" + v + " : Int)"
	}
	fmt.Fprintf(sb, "/-- `%s` -/\ndef %s%s : Int := %s\n", exprStr(c, e), name, args, body)
}

// c02Ifs returns the conditions of all `if` statements of a function in source order.
func c02Ifs(fd *ast.FuncDecl) []ast.Expr {
	var out []ast.Expr
	if fd == nil {
		return nil
	}
	ast.Inspect(fd, func(n ast.Node) bool {
		if is, ok := n.(*ast.IfStmt); ok {
			out = append(out, is.Cond)
		}
		return true
	})
	return out
}

func c02Nth(l []ast.Expr, i int) ast.Expr {
	if i < len(l) {
		return l[i]
	}
	return nil
}

// c02Guards: the guard conditions and small integer fragments of GetMatch, array, WrapIndices, the case
// labels of GetKey's switch and the case conditions of BuildMatcherFromArguments' switch.
func c02Guards(c *Ctx, sb *strings.Builder) {
	ctxFile := "pkg/extractor/sliceSpaceExpressionContext.go"
	gm := c.Func(ctxFile, "SliceSpaceExpressionContext.GetMatch")
	ifs := c02Ifs(gm)
	c02Guard(c, sb, "getMatchGuard0", c02Nth(ifs, 0))
	c02Guard(c, sb, "getMatchGuard1", c02Nth(ifs, 1))
	// sliceIndex := idx * 2 ; start := s.indices[sliceIndex] ; end := s.indices[sliceIndex+1]
	var sliceIndex, startIdx, endIdx ast.Expr
	if gm != nil {
		ast.Inspect(gm, func(n ast.Node) bool {
			if as, ok := n.(*ast.AssignStmt); ok && len(as.Lhs) == 1 && len(as.Rhs) == 1 {
				if id, ok := as.Lhs[0].(*ast.Ident); ok {
					switch id.Name {
					case "sliceIndex":
						sliceIndex = as.Rhs[0]
					case "start", "end":
						if ix, ok := as.Rhs[0].(*ast.IndexExpr); ok {
							if id.Name == "start" {
								startIdx = ix.Index
							} else {
								endIdx = ix.Index
							}
						}
					}
				}
			}
			return true
		})
	}
	c02Int(c, sb, "getMatchSliceIndex", sliceIndex)
	c02Int(c, sb, "getMatchStartAt", startIdx)
	c02Int(c, sb, "getMatchEndAt", endIdx)
	// array(): for i := 1; i < len(s.indices)/2; i++ { … if i > 1 { separator } … }
	ar := c.Func(ctxFile, "SliceSpaceExpressionContext.array")
	var arInit, arCond ast.Expr
	if ar != nil {
		ast.Inspect(ar, func(n ast.Node) bool {
			if fs, ok := n.(*ast.ForStmt); ok {
				if as, ok := fs.Init.(*ast.AssignStmt); ok && len(as.Rhs) == 1 {
					arInit = as.Rhs[0]
				}
				arCond = fs.Cond
			}
			return true
		})
	}
	c02Int(c, sb, "arrayFirst", arInit)
	c02Guard(c, sb, "arrayLoopCond", arCond)
	c02Guard(c, sb, "arraySepCond", c02Nth(c02Ifs(ar), 0))
	// WrapIndices: the early return on odd/empty lists, the per-pair guard, the tail guard, the colour index
	wi := c.Func("pkg/color/coloring.go", "WrapIndices")
	wifs := c02Ifs(wi)
	c02Guard(c, sb, "wrapEarly", c02Nth(wifs, 1))
	c02Guard(c, sb, "wrapPairGuard", c02Nth(wifs, 2))
	c02Guard(c, sb, "wrapTailGuard", c02Nth(wifs, 3))
	var colorIdx ast.Expr
	if wi != nil {
		ast.Inspect(wi, func(n ast.Node) bool {
			if ix, ok := n.(*ast.IndexExpr); ok {
				if id, ok := ix.X.(*ast.Ident); ok && id.Name == "GroupColors" {
					colorIdx = ix.Index
				}
			}
			return true
		})
	}
	c02Int(c, sb, "wrapColorIndex", colorIdx)
	// GetKey: case labels in order with the returned expression
	gk := c.Func(ctxFile, "SliceSpaceExpressionContext.GetKey")
	var cases []string
	okCases := false
	if gk != nil {
		ast.Inspect(gk, func(n ast.Node) bool {
			sw, ok := n.(*ast.SwitchStmt)
			if !ok {
				return true
			}
			okCases = true
			for _, st := range sw.Body.List {
				cc := st.(*ast.CaseClause)
				var labels []string
				for _, l := range cc.List {
					if v, ok := StringLit(l); ok {
						labels = append(labels, v)
					} else {
						okCases = false
					}
				}
				ret := "?"
				if len(cc.Body) == 1 {
					if rs, ok := cc.Body[0].(*ast.ReturnStmt); ok && len(rs.Results) == 1 {
						ret = exprStr(c, rs.Results[0])
					}
				}
				cases = append(cases, fmt.Sprintf("(%s, %s)", leanStrList(labels), leanStr(ret)))
			}
			return false
		})
	}
	if okCases {
		fmt.Fprintf(sb, "/-- the `switch key` of `GetKey`: labels and returned expression, in order -/\ndef getKeyCases : List (List String × String) := [%s]\n", strings.Join(cases, ", "))
	} else {
		sb.WriteString(untranslatable("getKeyCases"))
	}
	// BuildMatcherFromArguments: the case conditions of its switch, in order
	bm := c.Func("cmd/helpers/extractorBuilder.go", "BuildMatcherFromArguments")
	var conds []string
	okSw := false
	if bm != nil {
		ast.Inspect(bm, func(n ast.Node) bool {
			sw, ok := n.(*ast.SwitchStmt)
			if !ok {
				return true
			}
			okSw = sw.Tag == nil
			for _, st := range sw.Body.List {
				cc := st.(*ast.CaseClause)
				if cc.List == nil {
					conds = append(conds, "default")
				}
				for _, l := range cc.List {
					conds = append(conds, exprStr(c, l))
				}
			}
			return false
		})
	}
	if okSw {
		fmt.Fprintf(sb, "/-- the `switch` of `BuildMatcherFromArguments`: case conditions in order -/\ndef planSwitch : List String := %s\n", leanStrList(conds))
	} else {
		sb.WriteString(untranslatable("planSwitch"))
	}
	// fastregex.buildRegexp: which compile function each mode uses
	var calls []string
	if br := c.Func("pkg/matchers/fastregex/re2.go", "buildRegexp"); br != nil {
		ast.Inspect(br, func(n ast.Node) bool {
			switch v := n.(type) {
			case *ast.IfStmt:
				calls = append(calls, "if:"+exprStr(c, v.Cond))
			case *ast.ReturnStmt:
				if len(v.Results) == 1 {
					if call, ok := v.Results[0].(*ast.CallExpr); ok {
						calls = append(calls, "return:"+exprStr(c, call.Fun))
					}
				}
			}
			return true
		})
	}
	fmt.Fprintf(sb, "/-- `fastregex.buildRegexp` (re2.go): the compile function per mode -/\ndef buildRegexp : List String := %s\n", leanStrList(calls))
	// cmd/filter.go: the `--line` prefix – format string and the two colours
	{
		env := c.constEnv("pkg/color/coloring.go")
		var format string
		colors := map[string]string{}
		okF := false
		if fd := c.Func("cmd/filter.go", "filterFunction"); fd != nil {
			ast.Inspect(fd, func(n ast.Node) bool {
				call, ok := n.(*ast.CallExpr)
				if !ok {
					return true
				}
				name := exprStr(c, call.Fun)
				switch name {
				case "fmt.Printf":
					if len(call.Args) > 0 {
						if v, ok := StringLit(call.Args[0]); ok {
							format, okF = v, true
						}
					}
				case "color.Wrap", "color.Wrapi":
					if len(call.Args) == 2 {
						if se, ok := call.Args[0].(*ast.SelectorExpr); ok {
							if v, has := env[se.Sel.Name]; has {
								colors[name+":"+exprStr(c, call.Args[1])] = v
							}
						}
					}
				}
				return true
			})
		}
		src, ok1 := colors["color.Wrap:match.Source"]
		num, ok2 := colors["color.Wrapi:match.LineNumber"]
		if okF && ok1 && ok2 {
			fmt.Fprintf(sb, "def filterPrefixFormat : String := %s\ndef filterSrcColor : String := %s\ndef filterNumColor : String := %s\n", leanStr(format), leanStr(src), leanStr(num))
		} else {
			sb.WriteString(untranslatable("filterPrefixFormat"))
		}
		c.Fingerprint("pkg/color/coloring.go", "Wrap")
	}
	c.Fingerprint("pkg/matchers/fastregex/re2.go", "buildRegexp")
	c.Fingerprint("pkg/matchers/fastregex/re2.go", "createGroupNameTable")
}


// ---- the two batching loops of batcher.go as statement text (verifTrace calls left out)

func c02IsTrace(st ast.Stmt) bool {
	es, ok := st.(*ast.ExprStmt)
	if !ok {
		return false
	}
	call, ok := es.X.(*ast.CallExpr)
	if !ok {
		return false
	}
	id, ok := call.Fun.(*ast.Ident)
	return ok && id.Name == "verifTrace"
}

func c02StmtStr(c *Ctx, st ast.Stmt) string {
	return strings.Join(strings.Fields(c.Print(st)), "")
}

func c02StmtList(c *Ctx, list []ast.Stmt) []string {
	out := []string{}
	for _, st := range list {
		if !c02IsTrace(st) {
			out = append(out, c02StmtStr(c, st))
		}
	}
	return out
}

// c02BatchLoop emits, for one of the loops: the statements before the `for` that mention the batch, the
// initial batchStart, the loop condition, the body in front of its final `if`, that `if`'s condition and body,
// and the `if` after the loop.  Anything of another shape is reported as untranslatable.
func c02BatchLoop(c *Ctx, sb *strings.Builder, name, fn string) {
	fd := c.Func("pkg/extractor/batchers/batcher.go", fn)
	bad := func() { sb.WriteString(untranslatable(name)) }
	if fd == nil || fd.Body == nil {
		bad()
		return
	}
	var pre []string
	start := int64(-1)
	var loop *ast.ForStmt
	var after []ast.Stmt
	for i, st := range fd.Body.List {
		if fs, ok := st.(*ast.ForStmt); ok {
			loop = fs
			after = fd.Body.List[i+1:]
			break
		}
		if c02IsTrace(st) {
			continue
		}
		txt := c02StmtStr(c, st)
		if !strings.Contains(txt, "batch") || strings.HasPrefix(txt, "lastBatchFlush:=") {
			continue
		}
		if ds, ok := st.(*ast.DeclStmt); ok {
			if gd, ok := ds.Decl.(*ast.GenDecl); ok && len(gd.Specs) == 1 {
				if vs, ok := gd.Specs[0].(*ast.ValueSpec); ok && len(vs.Names) == 1 && vs.Names[0].Name == "batchStart" && len(vs.Values) == 1 {
					if n, ok := IntLit(vs.Values[0]); ok {
						start = n
						continue
					}
				}
			}
		}
		pre = append(pre, txt)
	}
	if loop == nil || loop.Init != nil || loop.Post != nil || loop.Cond == nil || start < 0 {
		bad()
		return
	}
	var body []ast.Stmt
	for _, st := range loop.Body.List {
		if !c02IsTrace(st) {
			body = append(body, st)
		}
	}
	if len(body) == 0 {
		bad()
		return
	}
	fl, ok := body[len(body)-1].(*ast.IfStmt)
	if !ok || fl.Else != nil || fl.Init != nil {
		bad()
		return
	}
	var tails []ast.Stmt
	for _, st := range after {
		if !c02IsTrace(st) {
			tails = append(tails, st)
		}
	}
	if len(tails) != 1 {
		bad()
		return
	}
	tl, ok := tails[0].(*ast.IfStmt)
	if !ok || tl.Else != nil || tl.Init != nil {
		bad()
		return
	}
	fmt.Fprintf(sb, "/-- `%s` (batcher.go): statements before the loop that mention the batch -/\ndef %s_pre : List String := %s\n", fn, name, leanStrList(pre))
	fmt.Fprintf(sb, "def %s_start : Nat := %d\n", name, start)
	fmt.Fprintf(sb, "def %s_loopCond : String := %s\n", name, leanStr(exprStr(c, loop.Cond)))
	fmt.Fprintf(sb, "def %s_head : List String := %s\n", name, leanStrList(c02StmtList(c, body[:len(body)-1])))
	fmt.Fprintf(sb, "def %s_cond : String := %s\n", name, leanStr(exprStr(c, fl.Cond)))
	fmt.Fprintf(sb, "def %s_flush : List String := %s\n", name, leanStrList(c02StmtList(c, fl.Body.List)))
	fmt.Fprintf(sb, "def %s_tailCond : String := %s\n", name, leanStr(exprStr(c, tl.Cond)))
	fmt.Fprintf(sb, "def %s_tail : List String := %s\n", name, leanStrList(c02StmtList(c, tl.Body.List)))
	c.Fingerprint("pkg/extractor/batchers/batcher.go", fn)
}

// c02Worker: how the worker walks a batch and numbers its lines (extractor.go asyncWorker)
func c02Worker(c *Ctx, sb *strings.Builder) {
	fd := c.Func("pkg/extractor/extractor.go", "Extractor.asyncWorker")
	var rng *ast.RangeStmt
	var call *ast.CallExpr
	if fd != nil {
		ast.Inspect(fd, func(n ast.Node) bool {
			switch v := n.(type) {
			case *ast.RangeStmt:
				if rng == nil {
					rng = v
				}
			case *ast.CallExpr:
				if se, ok := v.Fun.(*ast.SelectorExpr); ok && se.Sel.Name == "processLineSync" && call == nil {
					call = v
				}
			}
			return true
		})
	}
	if rng == nil || call == nil || len(call.Args) != 3 || rng.Key == nil || rng.Value == nil {
		sb.WriteString(untranslatable("workerCall"))
		return
	}
	var args []string
	for _, a := range call.Args {
		args = append(args, exprStr(c, a))
	}
	fmt.Fprintf(sb, "/-- the worker's loop over a batch: `for <key>, <value> := range <x>` and the arguments of `processLineSync` -/\ndef workerRange : List String := %s\ndef workerCall : List String := %s\n",
		leanStrList([]string{exprStr(c, rng.Key), exprStr(c, rng.Value), exprStr(c, rng.X)}), leanStrList(args))
	c02Int(c, sb, "workerLineNum", call.Args[1])
	c.Fingerprint("pkg/extractor/extractor.go", "Extractor.asyncWorker")
}

func init() {
	RegisterGen("C02", func(c *Ctx) string {
		var sb strings.Builder
		sb.WriteString("namespace Rare.Gen.C02\n\n")
		rel := "pkg/color/coloring.go"
		env := c.constEnv(rel)
		if v, ok := env["Reset"]; ok {
			fmt.Fprintf(&sb, "def reset : String := %s\n", leanStr(v))
		} else {
			sb.WriteString(untranslatable("reset"))
		}
		ok := false
		if cl, isCl := c.Var(rel, "GroupColors").(*ast.CompositeLit); isCl {
			var cols []string
			ok = true
			for _, el := range cl.Elts {
				id, isId := el.(*ast.Ident)
				if !isId {
					ok = false
					break
				}
				v, has := env[id.Name]
				if !has {
					ok = false
					break
				}
				cols = append(cols, v)
			}
			if ok {
				fmt.Fprintf(&sb, "def groupColors : List String := %s\n", leanStrList(cols))
			}
		}
		if !ok {
			sb.WriteString(untranslatable("groupColors"))
		}
		// the array separator of {@}, the escape byte and code terminator of StrLen, the two constants of
		// the default-output branch of `rare filter`
		if n, ok := IntLit(c.Var("pkg/expressions/stage.go", "ArraySeparator")); ok {
			fmt.Fprintf(&sb, "def arraySeparator : Nat := %d\n", n)
		} else {
			sb.WriteString(untranslatable("arraySeparator"))
		}
		if n, ok := IntLit(c.Var(rel, "escapeRune")); ok {
			fmt.Fprintf(&sb, "def escapeRune : Nat := %d\n", n)
		} else {
			sb.WriteString(untranslatable("escapeRune"))
		}
		codeEnd := int64(-1)
		if fd := c.Func(rel, "StrLen"); fd != nil {
			ast.Inspect(fd, func(n ast.Node) bool {
				if be, ok := n.(*ast.BinaryExpr); ok && be.Op == token.EQL {
					if bl, ok := be.Y.(*ast.BasicLit); ok && bl.Kind == token.CHAR {
						if v, ok := IntLit(bl); ok {
							codeEnd = v
						}
					}
				}
				return true
			})
		}
		if codeEnd >= 0 {
			fmt.Fprintf(&sb, "def codeEnd : Nat := %d\n", codeEnd)
		} else {
			sb.WriteString(untranslatable("codeEnd"))
		}
		whole, skip := int64(-1), int64(-1)
		isIndices := func(e ast.Expr) bool {
			se, ok := e.(*ast.SelectorExpr)
			return ok && se.Sel.Name == "Indices"
		}
		if fd := c.Func("cmd/filter.go", "filterFunction"); fd != nil {
			ast.Inspect(fd, func(n ast.Node) bool {
				switch v := n.(type) {
				case *ast.BinaryExpr:
					if call, ok := v.X.(*ast.CallExpr); ok && v.Op == token.EQL && len(call.Args) == 1 && isIndices(call.Args[0]) {
						if id, ok := call.Fun.(*ast.Ident); ok && id.Name == "len" {
							if k, ok := IntLit(v.Y); ok {
								whole = k
							}
						}
					}
				case *ast.SliceExpr:
					if isIndices(v.X) && v.Low != nil && v.High == nil {
						if k, ok := IntLit(v.Low); ok {
							skip = k
						}
					}
				}
				return true
			})
		}
		if whole >= 0 && skip >= 0 {
			fmt.Fprintf(&sb, "def filterWholeLen : Nat := %d\ndef filterSkip : Nat := %d\n", whole, skip)
		} else {
			sb.WriteString(untranslatable("filterWholeLen"))
		}
		// the prefix `--ignore-case` puts in front of the regular expression
		icPrefix, icOK := "", false
		if fd := c.Func("cmd/helpers/extractorBuilder.go", "BuildMatcherFromArguments"); fd != nil {
			ast.Inspect(fd, func(n ast.Node) bool {
				if be, ok := n.(*ast.BinaryExpr); ok && be.Op == token.ADD {
					if bl, ok := be.X.(*ast.BasicLit); ok && bl.Kind == token.STRING {
						if v, ok := StringLit(bl); ok {
							icPrefix, icOK = v, true
						}
					}
				}
				return true
			})
		}
		if icOK {
			fmt.Fprintf(&sb, "def icPrefix : String := %s\n", leanStr(icPrefix))
		} else {
			sb.WriteString(untranslatable("icPrefix"))
		}
		c.Fingerprint("cmd/helpers/extractorBuilder.go", "BuildMatcherFromArguments")
		c.Fingerprint("cmd/filter.go", "filterFunction")
		c.Fingerprint(rel, "StrLen")
		c.Fingerprint(rel, "WrapIndices")
		c.Fingerprint("pkg/extractor/sliceSpaceExpressionContext.go", "SliceSpaceExpressionContext.GetMatch")
		c.Fingerprint("pkg/extractor/sliceSpaceExpressionContext.go", "SliceSpaceExpressionContext.GetKey")
		c.Fingerprint("pkg/extractor/sliceSpaceExpressionContext.go", "SliceSpaceExpressionContext.array")
		c02Guards(c, &sb)
		c02BatchLoop(c, &sb, "batchLoopPlain", "Batcher.syncReaderToBatcher")
		c02BatchLoop(c, &sb, "batchLoopTimed", "Batcher.syncReaderToBatcherWithTimeFlush")
		c02Worker(c, &sb)
		// const AutoFlushTimeout = 250 * time.Millisecond, and who passes it to the timed loop
		if be, ok := c.Var("pkg/extractor/batchers/batcher.go", "AutoFlushTimeout").(*ast.BinaryExpr); ok && be.Op == token.MUL && exprStr(c, be.Y) == "time.Millisecond" {
			if n, ok := IntLit(be.X); ok {
				fmt.Fprintf(&sb, "def autoFlushTimeoutMs : Nat := %d\n", n)
			} else {
				sb.WriteString(untranslatable("autoFlushTimeoutMs"))
			}
		} else {
			sb.WriteString(untranslatable("autoFlushTimeoutMs"))
		}
		var timedCalls []string
		for _, fn := range []struct{ file, name string }{{"pkg/extractor/batchers/readerBatcher.go", "OpenReaderToChan"}, {"pkg/extractor/batchers/tailBatcher.go", "TailFilesToChan"},
			{"pkg/extractor/batchers/fileBatcher.go", "OpenFilesToChan"}} {
			if fd := c.Func(fn.file, fn.name); fd != nil {
				ast.Inspect(fd, func(n ast.Node) bool {
					if call, ok := n.(*ast.CallExpr); ok {
						if se, ok := call.Fun.(*ast.SelectorExpr); ok && strings.HasPrefix(se.Sel.Name, "syncReaderToBatcher") && len(call.Args) > 0 {
							timedCalls = append(timedCalls, fn.name+":"+se.Sel.Name+":"+exprStr(c, call.Args[len(call.Args)-1]))
						}
					}
					return true
				})
			}
		}
		fmt.Fprintf(&sb, "/-- which constructor runs which loop, with the loop's last argument -/\ndef batchLoopCalls : List String := %s\n\n", leanStrList(timedCalls))
		// Round 4d: the expression context as an object that lives over many matches – its fields, what every method
		// reads / may write, what processLineSync assigns before it hands the context on, who else constructs or
		// assigns one (the walker is C16's, harness/extract/c16ctx.go; the lists are emitted here under Gen.C02 so that
		// the C02 theorems about capture values over a history depend on nothing but this file)
		sb.WriteString(c16EmitCtx(c))
		sb.WriteString("\nend Rare.Gen.C02\n")
		return sb.String()
	})
}
