package main

import (
	"fmt"
	"go/ast"
	"go/token"
	"strings"
)

// constEnv evaluates the string constants of a file (literals, concatenations, references to
// earlier constants).
func (c *Ctx) constEnv(rel string) map[string]string {
	env := map[string]string{}
	f := c.File(rel)
	if f == nil {
		return env
	}
	var eval func(e ast.Expr) (string, bool)
	eval = func(e ast.Expr) (string, bool) {
		switch v := e.(type) {
		case *ast.Ident:
			s, ok := env[v.Name]
			return s, ok
		case *ast.BinaryExpr:
			if v.Op == token.ADD {
				a, ok1 := eval(v.X)
				b, ok2 := eval(v.Y)
				return a + b, ok1 && ok2
			}
		case *ast.ParenExpr:
			return eval(v.X)
		}
		return StringLit(e)
	}
	for pass := 0; pass < 3; pass++ {
		for _, d := range f.Decls {
			gd, ok := d.(*ast.GenDecl)
			if !ok || gd.Tok != token.CONST {
				continue
			}
			for _, s := range gd.Specs {
				vs := s.(*ast.ValueSpec)
				for i, n := range vs.Names {
					if i < len(vs.Values) {
						if v, ok := eval(vs.Values[i]); ok {
							env[n.Name] = v
						}
					}
				}
			}
		}
	}
	return env
}

func init() {
	RegisterGen("C02", func(c *Ctx) string {
		var sb strings.Builder
		sb.WriteString("namespace Rare.Gen.C02\n\n")
		rel := "pkg/color/coloring.go"
		env := c.constEnv(rel)
		if v, ok := env["Reset"]; ok {
			fmt.Fprintf(&sb, "def reset : String := %s\n", leanStr(v))
		} else {
			sb.WriteString(untranslatable("reset"))
		}
		ok := false
		if cl, isCl := c.Var(rel, "GroupColors").(*ast.CompositeLit); isCl {
			var cols []string
			ok = true
			for _, el := range cl.Elts {
				id, isId := el.(*ast.Ident)
				if !isId {
					ok = false
					break
				}
				v, has := env[id.Name]
				if !has {
					ok = false
					break
				}
				cols = append(cols, v)
			}
			if ok {
				fmt.Fprintf(&sb, "def groupColors : List String := %s\n", leanStrList(cols))
			}
		}
		if !ok {
			sb.WriteString(untranslatable("groupColors"))
		}
		c.Fingerprint(rel, "WrapIndices")
		c.Fingerprint("pkg/extractor/sliceSpaceExpressionContext.go", "SliceSpaceExpressionContext.GetMatch")
		c.Fingerprint("pkg/extractor/sliceSpaceExpressionContext.go", "SliceSpaceExpressionContext.GetKey")
		c.Fingerprint("pkg/extractor/sliceSpaceExpressionContext.go", "SliceSpaceExpressionContext.array")
		sb.WriteString("\nend Rare.Gen.C02\n")
		return sb.String()
	})
}
