package main

import (
	"fmt"
	"go/ast"
	"go/token"
	"strings"
)

// constEnv evaluates the string constants of a file (literals, concatenations, references to
// earlier constants).
func (c *Ctx) constEnv(rel string) map[string]string {
	env := map[string]string{}
	f := c.File(rel)
	if f == nil {
		return env
	}
	var eval func(e ast.Expr) (string, bool)
	eval = func(e ast.Expr) (string, bool) {
		switch v := e.(type) {
		case *ast.Ident:
			s, ok := env[v.Name]
			return s, ok
		case *ast.BinaryExpr:
			if v.Op == token.ADD {
				a, ok1 := eval(v.X)
				b, ok2 := eval(v.Y)
				return a + b, ok1 && ok2
			}
		case *ast.ParenExpr:
			return eval(v.X)
		}
		return StringLit(e)
	}
	for pass := 0; pass < 3; pass++ {
		for _, d := range f.Decls {
			gd, ok := d.(*ast.GenDecl)
			if !ok || gd.Tok != token.CONST {
				continue
			}
			for _, s := range gd.Specs {
				vs := s.(*ast.ValueSpec)
				for i, n := range vs.Names {
					if i < len(vs.Values) {
						if v, ok := eval(vs.Values[i]); ok {
							env[n.Name] = v
						}
					}
				}
			}
		}
	}
	return env
}

func init() {
	RegisterGen("C02", func(c *Ctx) string {
		var sb strings.Builder
		sb.WriteString("namespace Rare.Gen.C02\n\n")
		rel := "pkg/color/coloring.go"
		env := c.constEnv(rel)
		if v, ok := env["Reset"]; ok {
			fmt.Fprintf(&sb, "def reset : String := %s\n", leanStr(v))
		} else {
			sb.WriteString(untranslatable("reset"))
		}
		ok := false
		if cl, isCl := c.Var(rel, "GroupColors").(*ast.CompositeLit); isCl {
			var cols []string
			ok = true
			for _, el := range cl.Elts {
				id, isId := el.(*ast.Ident)
				if !isId {
					ok = false
					break
				}
				v, has := env[id.Name]
				if !has {
					ok = false
					break
				}
				cols = append(cols, v)
			}
			if ok {
				fmt.Fprintf(&sb, "def groupColors : List String := %s\n", leanStrList(cols))
			}
		}
		if !ok {
			sb.WriteString(untranslatable("groupColors"))
		}
		// the array separator of {@}, the escape byte and code terminator of StrLen, the two constants of
		// the default-output branch of `rare filter`
		if n, ok := IntLit(c.Var("pkg/expressions/stage.go", "ArraySeparator")); ok {
			fmt.Fprintf(&sb, "def arraySeparator : Nat := %d\n", n)
		} else {
			sb.WriteString(untranslatable("arraySeparator"))
		}
		if n, ok := IntLit(c.Var(rel, "escapeRune")); ok {
			fmt.Fprintf(&sb, "def escapeRune : Nat := %d\n", n)
		} else {
			sb.WriteString(untranslatable("escapeRune"))
		}
		codeEnd := int64(-1)
		if fd := c.Func(rel, "StrLen"); fd != nil {
			ast.Inspect(fd, func(n ast.Node) bool {
				if be, ok := n.(*ast.BinaryExpr); ok && be.Op == token.EQL {
					if bl, ok := be.Y.(*ast.BasicLit); ok && bl.Kind == token.CHAR {
						if v, ok := IntLit(bl); ok {
							codeEnd = v
						}
					}
				}
				return true
			})
		}
		if codeEnd >= 0 {
			fmt.Fprintf(&sb, "def codeEnd : Nat := %d\n", codeEnd)
		} else {
			sb.WriteString(untranslatable("codeEnd"))
		}
		whole, skip := int64(-1), int64(-1)
		isIndices := func(e ast.Expr) bool {
			se, ok := e.(*ast.SelectorExpr)
			return ok && se.Sel.Name == "Indices"
		}
		if fd := c.Func("cmd/filter.go", "filterFunction"); fd != nil {
			ast.Inspect(fd, func(n ast.Node) bool {
				switch v := n.(type) {
				case *ast.BinaryExpr:
					if call, ok := v.X.(*ast.CallExpr); ok && v.Op == token.EQL && len(call.Args) == 1 && isIndices(call.Args[0]) {
						if id, ok := call.Fun.(*ast.Ident); ok && id.Name == "len" {
							if k, ok := IntLit(v.Y); ok {
								whole = k
							}
						}
					}
				case *ast.SliceExpr:
					if isIndices(v.X) && v.Low != nil && v.High == nil {
						if k, ok := IntLit(v.Low); ok {
							skip = k
						}
					}
				}
				return true
			})
		}
		if whole >= 0 && skip >= 0 {
			fmt.Fprintf(&sb, "def filterWholeLen : Nat := %d\ndef filterSkip : Nat := %d\n", whole, skip)
		} else {
			sb.WriteString(untranslatable("filterWholeLen"))
		}
		// the prefix `--ignore-case` puts in front of the regular expression
		icPrefix, icOK := "", false
		if fd := c.Func("cmd/helpers/extractorBuilder.go", "BuildMatcherFromArguments"); fd != nil {
			ast.Inspect(fd, func(n ast.Node) bool {
				if be, ok := n.(*ast.BinaryExpr); ok && be.Op == token.ADD {
					if bl, ok := be.X.(*ast.BasicLit); ok && bl.Kind == token.STRING {
						if v, ok := StringLit(bl); ok {
							icPrefix, icOK = v, true
						}
					}
				}
				return true
			})
		}
		if icOK {
			fmt.Fprintf(&sb, "def icPrefix : String := %s\n", leanStr(icPrefix))
		} else {
			sb.WriteString(untranslatable("icPrefix"))
		}
		c.Fingerprint("cmd/helpers/extractorBuilder.go", "BuildMatcherFromArguments")
		c.Fingerprint("cmd/filter.go", "filterFunction")
		c.Fingerprint(rel, "StrLen")
		c.Fingerprint(rel, "WrapIndices")
		c.Fingerprint("pkg/extractor/sliceSpaceExpressionContext.go", "SliceSpaceExpressionContext.GetMatch")
		c.Fingerprint("pkg/extractor/sliceSpaceExpressionContext.go", "SliceSpaceExpressionContext.GetKey")
		c.Fingerprint("pkg/extractor/sliceSpaceExpressionContext.go", "SliceSpaceExpressionContext.array")
		sb.WriteString("\nend Rare.Gen.C02\n")
		return sb.String()
	})
}
