package main

import (
	"fmt"
	"go/ast"
	"go/token"
	"regexp"
	"sort"
	"strings"
)

// C18: the tables of pkg/expressions/stdlib/funcsTime.go – `timeFormats` (named layouts, `time.X`
// constants resolved to their text), the `if … else if` chain of `timeBucketToFormat`, the keys of
// `attrType`, and the integer expression of its `QUARTER` entry.
func init() {
	RegisterGen("C18", func(c *Ctx) string {
		var sb strings.Builder
		sb.WriteString("import Rare.Base.GoInt\nnamespace Rare.Gen.C18\nopen Rare\n\n")
		const file = "pkg/expressions/stdlib/funcsTime.go"

		// layouts of package time that the table may name (text of Go 1.x's constants)
		timeConst := map[string]string{
			"Layout": "01/02 03:04:05PM '06 -0700", "ANSIC": "Mon Jan _2 15:04:05 2006", "UnixDate": "Mon Jan _2 15:04:05 MST 2006",
			"RubyDate": "Mon Jan 02 15:04:05 -0700 2006", "RFC822": "02 Jan 06 15:04 MST", "RFC822Z": "02 Jan 06 15:04 -0700",
			"RFC850": "Monday, 02-Jan-06 15:04:05 MST", "RFC1123": "Mon, 02 Jan 2006 15:04:05 MST", "RFC1123Z": "Mon, 02 Jan 2006 15:04:05 -0700",
			"RFC3339": "2006-01-02T15:04:05Z07:00", "RFC3339Nano": "2006-01-02T15:04:05.999999999Z07:00", "Kitchen": "3:04PM",
			"Stamp": "Jan _2 15:04:05", "StampMilli": "Jan _2 15:04:05.000", "StampMicro": "Jan _2 15:04:05.000000", "StampNano": "Jan _2 15:04:05.000000000",
			"DateTime": "2006-01-02 15:04:05", "DateOnly": "2006-01-02", "TimeOnly": "15:04:05",
		}
		var layoutOf func(e ast.Expr, depth int) (string, bool)
		layoutOf = func(e ast.Expr, depth int) (string, bool) {
			if s, ok := StringLit(e); ok {
				if _, isCall := e.(*ast.CallExpr); !isCall {
					return s, true
				}
			}
			switch v := e.(type) {
			case *ast.SelectorExpr:
				if id, ok := v.X.(*ast.Ident); ok && id.Name == "time" {
					s, ok := timeConst[v.Sel.Name]
					return s, ok
				}
			case *ast.Ident: // a package-level constant such as defaultTimeFormat
				if depth < 4 {
					if init := c.Var(file, v.Name); init != nil {
						return layoutOf(init, depth+1)
					}
				}
			}
			return "", false
		}

		// timeFormats
		ok := false
		if cl, isLit := c.Var(file, "timeFormats").(*ast.CompositeLit); isLit {
			type kv struct{ k, v string }
			var ents []kv
			ok = true
			for _, el := range cl.Elts {
				e, isKV := el.(*ast.KeyValueExpr)
				if !isKV {
					ok = false
					break
				}
				k, ok1 := StringLit(e.Key)
				v, ok2 := layoutOf(e.Value, 0)
				if !ok1 || !ok2 {
					ok = false
					break
				}
				ents = append(ents, kv{k, v})
			}
			if ok {
				sort.Slice(ents, func(i, j int) bool { return ents[i].k < ents[j].k })
				parts := make([]string, len(ents))
				for i, e := range ents {
					parts[i] = fmt.Sprintf("(%s, %s)", leanStr(e.k), leanStr(e.v))
				}
				fmt.Fprintf(&sb, "/-- `timeFormats`, sorted by key, `time.*` constants resolved -/\ndef timeFormats : List (String × String) := [\n  %s]\n\n", strings.Join(parts, ",\n  "))
			}
		}
		if !ok {
			sb.WriteString(untranslatable("timeFormats"))
		}
		if s, ok := layoutOf(c.Var(file, "defaultTimeFormat"), 0); ok {
			fmt.Fprintf(&sb, "def defaultTimeFormat : String := %s\n\n", leanStr(s))
		} else {
			sb.WriteString(untranslatable("defaultTimeFormat"))
		}

		// timeBucketToFormat: if isPartialString(name, "<word>") { return "<layout>" } else if … ; return ""
		ok = false
		if fd := c.Func(file, "timeBucketToFormat"); fd != nil && fd.Body != nil {
			var rows []string
			var walk func(st ast.Stmt) bool
			walk = func(st ast.Stmt) bool {
				is, isIf := st.(*ast.IfStmt)
				if !isIf || is.Init != nil || len(is.Body.List) != 1 {
					return false
				}
				call, isCall := is.Cond.(*ast.CallExpr)
				if !isCall || len(call.Args) != 2 {
					return false
				}
				if id, isId := call.Fun.(*ast.Ident); !isId || id.Name != "isPartialString" {
					return false
				}
				if id, isId := call.Args[0].(*ast.Ident); !isId || id.Name != "name" {
					return false
				}
				word, ok1 := StringLit(call.Args[1])
				ret, isRet := is.Body.List[0].(*ast.ReturnStmt)
				if !ok1 || !isRet || len(ret.Results) != 1 {
					return false
				}
				layout, ok2 := StringLit(ret.Results[0])
				if !ok2 {
					return false
				}
				rows = append(rows, fmt.Sprintf("(%s, %s)", leanStr(word), leanStr(layout)))
				if is.Else == nil {
					return true
				}
				return walk(is.Else)
			}
			// shape: name = strings.ToLower(name); if-chain; return ""
			body := fd.Body.List
			if len(body) == 3 {
				as, isAs := body[0].(*ast.AssignStmt)
				lower := isAs && len(as.Rhs) == 1 && strings.Join(strings.Fields(c.Print(as.Rhs[0])), "") == "strings.ToLower(name)" && as.Tok == token.ASSIGN
				ret, isRet := body[2].(*ast.ReturnStmt)
				empty := false
				if isRet && len(ret.Results) == 1 {
					s, isStr := StringLit(ret.Results[0])
					empty = isStr && s == ""
				}
				if lower && empty && walk(body[1]) {
					ok = true
					fmt.Fprintf(&sb, "/-- `timeBucketToFormat`: (word, layout) of each `isPartialString(name, word)` branch, in source order;\nthe name is lower-cased first and the fall-through result is \"\" -/\ndef bucketTable : List (String × String) := [\n  %s]\n\n", strings.Join(rows, ",\n  "))
				}
			}
		}
		if !ok {
			sb.WriteString(untranslatable("bucketTable"))
		}

		// attrType: keys, and the QUARTER arithmetic
		var attr *ast.CompositeLit
		if cl, isLit := c.Var(file, "attrType").(*ast.CompositeLit); isLit {
			attr = cl
		}
		if keys, ok := MapKeys(c.Var(file, "attrType")); ok {
			fmt.Fprintf(&sb, "/-- keys of `attrType`, sorted -/\ndef attrKeys : List String := %s\n\n", leanStrList(keys))
		} else {
			sb.WriteString(untranslatable("attrKeys"))
		}
		quarter := ""
		if attr != nil {
			for _, el := range attr.Elts {
				e, isKV := el.(*ast.KeyValueExpr)
				if !isKV {
					continue
				}
				if k, _ := StringLit(e.Key); k != "QUARTER" {
					continue
				}
				fl, isFn := e.Value.(*ast.FuncLit)
				if !isFn || len(fl.Body.List) != 2 {
					break
				}
				// month := int(t.Month()); return strconv.Itoa(<expr over month>)
				as, isAs := fl.Body.List[0].(*ast.AssignStmt)
				ret, isRet := fl.Body.List[1].(*ast.ReturnStmt)
				if !isAs || !isRet || len(as.Lhs) != 1 || len(ret.Results) != 1 {
					break
				}
				if id, isId := as.Lhs[0].(*ast.Ident); !isId || id.Name != "month" {
					break
				}
				if strings.Join(strings.Fields(c.Print(as.Rhs[0])), "") != "int(t.Month())" {
					break
				}
				call, isCall := ret.Results[0].(*ast.CallExpr)
				if !isCall || len(call.Args) != 1 || strings.Join(strings.Fields(c.Print(call.Fun)), "") != "strconv.Itoa" {
					break
				}
				if s, ok := c18IntExpr(call.Args[0]); ok {
					quarter = s
				}
			}
		}
		if quarter != "" {
			fmt.Fprintf(&sb, "/-- the `QUARTER` entry of `attrType`: `month := int(t.Month()); strconv.Itoa(…)` -/\ndef quarter (month : Int) : Int := %s\n\n", quarter)
		} else {
			sb.WriteString(untranslatable("quarter"))
		}

		// round 4: argument-count guards, key-words, mode / zone key-words, attribute bodies
		squash := func(n ast.Node) string { return strings.Join(strings.Fields(c.Print(n)), "") }
		reBetween := regexp.MustCompile(`^!isArgCountBetween\(args,(\d+),(\d+)\)$`)
		reNe := regexp.MustCompile(`^len\(args\)!=(\d+)$`)
		reOut := regexp.MustCompile(`^len\(args\)<(\d+)\|\|len\(args\)>(\d+)$`)
		var ranges []string
		rangesOk := true
		for _, p := range [][2]string{{"time", "kfTimeParse"}, {"timeformat", "kfTimeFormat"}, {"duration", "kfDuration"}, {"durationformat", "kfDurationFormat"},
			{"buckettime", "kfBucketTime"}, {"timeattr", "kfTimeAttr"}} {
			fd := c.Func(file, p[1])
			found := false
			if fd != nil && fd.Body != nil && len(fd.Body.List) > 0 {
				if is, isIf := fd.Body.List[0].(*ast.IfStmt); isIf && is.Init == nil {
					cond := squash(is.Cond)
					if m := reBetween.FindStringSubmatch(cond); m != nil {
						ranges = append(ranges, fmt.Sprintf("(%s, %s, %s)", leanStr(p[0]), m[1], m[2]))
						found = true
					} else if m := reNe.FindStringSubmatch(cond); m != nil {
						ranges = append(ranges, fmt.Sprintf("(%s, %s, %s)", leanStr(p[0]), m[1], m[1]))
						found = true
					} else if m := reOut.FindStringSubmatch(cond); m != nil {
						ranges = append(ranges, fmt.Sprintf("(%s, %s, %s)", leanStr(p[0]), m[1], m[2]))
						found = true
					}
				}
			}
			if !found {
				rangesOk = false
			}
		}
		if rangesOk {
			fmt.Fprintf(&sb, "/-- the argument-count guard that opens each helper: (expression name, least, most) -/\ndef argRanges : List (String × Nat × Nat) := [%s]\n\n", strings.Join(ranges, ", "))
		} else {
			sb.WriteString(untranslatable("argRanges"))
		}
		// the string cases of the first `switch` with tag `tag` inside function fn, one list per case clause
		switchCases := func(fn, tag string) ([][]string, bool) {
			fd := c.Func(file, fn)
			if fd == nil || fd.Body == nil {
				return nil, false
			}
			var out [][]string
			done, good := false, true
			ast.Inspect(fd.Body, func(n ast.Node) bool {
				sw, isSw := n.(*ast.SwitchStmt)
				if done || !isSw || sw.Tag == nil || squash(sw.Tag) != tag {
					return !done
				}
				done = true
				for _, st := range sw.Body.List {
					cc := st.(*ast.CaseClause)
					if cc.List == nil {
						continue // default
					}
					var ks []string
					for _, e := range cc.List {
						k, ok := StringLit(e)
						if !ok {
							good = false
						}
						ks = append(ks, k)
					}
					out = append(out, ks)
				}
				return false
			})
			return out, done && good
		}
		emitCases := func(name, doc, fn, tag string) {
			if cs, ok := switchCases(fn, tag); ok {
				parts := make([]string, len(cs))
				for i, ks := range cs {
					parts[i] = leanStrList(ks)
				}
				fmt.Fprintf(&sb, "/-- %s -/\ndef %s : List (List String) := [%s]\n\n", doc, name, strings.Join(parts, ", "))
			} else {
				sb.WriteString(untranslatable(name))
			}
		}
		emitCases("timeKeywords", "`kfTimeParse`: the cases of `switch strings.ToLower(val)` on a constant first argument", "kfTimeParse", "strings.ToLower(val)")
		emitCases("parseModes", "`smartDateParseWrapper`: the non-default cases of `switch strings.ToLower(format)`", "smartDateParseWrapper", "strings.ToLower(format)")
		emitCases("zoneKeywords", "`parseTimezoneLocation`: the non-default cases of `switch strings.ToUpper(tzf)`", "parseTimezoneLocation", "strings.ToUpper(tzf)")
		if attr != nil {
			type kv struct{ k, v string }
			var bodies []kv
			good := true
			for _, el := range attr.Elts {
				e, isKV := el.(*ast.KeyValueExpr)
				if !isKV {
					good = false
					break
				}
				k, ok := StringLit(e.Key)
				if !ok {
					good = false
					break
				}
				bodies = append(bodies, kv{k, squash(e.Value)})
			}
			if good {
				sort.Slice(bodies, func(i, j int) bool { return bodies[i].k < bodies[j].k })
				parts := make([]string, len(bodies))
				for i, b := range bodies {
					parts[i] = fmt.Sprintf("(%s, %s)", leanStr(b.k), leanStr(b.v))
				}
				fmt.Fprintf(&sb, "/-- the functions of `attrType` as source text (white space removed), sorted by key -/\ndef attrBodies : List (String × String) := [\n  %s]\n\n", strings.Join(parts, ",\n  "))
			} else {
				sb.WriteString(untranslatable("attrBodies"))
			}
		} else {
			sb.WriteString(untranslatable("attrBodies"))
		}

		// round 4b: what the stage closures of the four simple helpers return, as source text
		{
			var parts []string
			good := true
			for _, p := range [][2]string{{"timeformat", "kfTimeFormat"}, {"duration", "kfDuration"}, {"durationformat", "kfDurationFormat"}, {"timeattr", "kfTimeAttr"}} {
				fd := c.Func(file, p[1])
				if fd == nil || fd.Body == nil {
					good = false
					break
				}
				var rets []string
				ast.Inspect(fd.Body, func(n ast.Node) bool {
					fl, isLit := n.(*ast.FuncLit)
					if !isLit {
						return true
					}
					ast.Inspect(fl.Body, func(m ast.Node) bool {
						if r, isRet := m.(*ast.ReturnStmt); isRet {
							rets = append(rets, squash(r))
						}
						return true
					})
					return false
				})
				if len(rets) == 0 {
					good = false
					break
				}
				parts = append(parts, fmt.Sprintf("(%s, %s)", leanStr(p[0]), leanStrList(rets)))
			}
			if good {
				fmt.Fprintf(&sb, "/-- the `return` statements of the stage closure of each simple helper as source text (white space removed), in source order -/\ndef stageReturns : List (String × List String) := [\n  %s]\n\n", strings.Join(parts, ",\n  "))
			} else {
				sb.WriteString(untranslatable("stageReturns"))
			}
		}


		// round 4c: what the stage closures can remember.  For each simple helper: the identifiers the closure uses that
		// are declared in the enclosing function (parameters, `:=`, `var`) or as package-level variables of the file
		// (prefix `pkg:`), and every statement of the closure that can write memory outliving one evaluation:
		// assignments / ++ / -- whose target is not declared inside the closure, method calls on such a variable
		// (`x.Store(…)`, `x.Lock()` …; `args[i](context)` is a call OF the captured stage, not a method), `go`, sends.
		{
			var caps, writes []string
			good := true
			for _, p := range [][2]string{{"timeformat", "kfTimeFormat"}, {"duration", "kfDuration"}, {"durationformat", "kfDurationFormat"}, {"timeattr", "kfTimeAttr"}} {
				fd := c.Func(file, p[1])
				if fd == nil || fd.Body == nil {
					good = false
					break
				}
				var fl *ast.FuncLit
				ast.Inspect(fd.Body, func(n ast.Node) bool {
					if l, isLit := n.(*ast.FuncLit); isLit && fl == nil {
						fl = l
						return false
					}
					return fl == nil
				})
				if fl == nil {
					good = false
					break
				}
				inside := func(n ast.Node) bool { return n.Pos() >= fl.Pos() && n.End() <= fl.End() }
				outer := map[string]bool{} // declared in the enclosing function, outside the closure
				if fd.Type.Params != nil {
					for _, f := range fd.Type.Params.List {
						for _, id := range f.Names {
							outer[id.Name] = true
						}
					}
				}
				inner := map[string]bool{} // declared inside the closure
				if fl.Type.Params != nil {
					for _, f := range fl.Type.Params.List {
						for _, id := range f.Names {
							inner[id.Name] = true
						}
					}
				}
				declare := func(n ast.Node, name string) {
					if name == "_" {
						return
					}
					if inside(n) {
						inner[name] = true
					} else {
						outer[name] = true
					}
				}
				ast.Inspect(fd.Body, func(n ast.Node) bool {
					switch v := n.(type) {
					case *ast.AssignStmt:
						if v.Tok == token.DEFINE {
							for _, l := range v.Lhs {
								if id, isId := l.(*ast.Ident); isId {
									declare(v, id.Name)
								}
							}
						}
					case *ast.ValueSpec:
						for _, id := range v.Names {
							declare(v, id.Name)
						}
					case *ast.RangeStmt:
						if v.Tok == token.DEFINE {
							for _, e := range []ast.Expr{v.Key, v.Value} {
								if id, isId := e.(*ast.Ident); isId {
									declare(v, id.Name)
								}
							}
						}
					}
					return true
				})
				pkgVar := func(name string) bool { // a package-level `var` of the file (constants and tables included)
					f := c.File(file)
					if f == nil {
						return false
					}
					for _, d := range f.Decls {
						gd, isGen := d.(*ast.GenDecl)
						if !isGen || gd.Tok != token.VAR {
							continue
						}
						for _, sp := range gd.Specs {
							for _, id := range sp.(*ast.ValueSpec).Names {
								if id.Name == name {
									return true
								}
							}
						}
					}
					return false
				}
				var root func(e ast.Expr) string
				root = func(e ast.Expr) string {
					switch v := e.(type) {
					case *ast.Ident:
						return v.Name
					case *ast.SelectorExpr:
						return root(v.X)
					case *ast.IndexExpr:
						return root(v.X)
					case *ast.StarExpr:
						return root(v.X)
					case *ast.ParenExpr:
						return root(v.X)
					case *ast.UnaryExpr:
						return root(v.X)
					}
					return ""
				}
				foreign := func(name string) bool { return name != "" && !inner[name] && (outer[name] || pkgVar(name)) }
				used := map[string]bool{}
				var ws []string
				ast.Inspect(fl.Body, func(n ast.Node) bool {
					switch v := n.(type) {
					case *ast.SelectorExpr: // x.f: only x is a use
						ast.Inspect(v.X, func(m ast.Node) bool {
							if id, isId := m.(*ast.Ident); isId && !inner[id.Name] {
								if outer[id.Name] {
									used[id.Name] = true
								} else if pkgVar(id.Name) {
									used["pkg:"+id.Name] = true
								}
							}
							return true
						})
						return false
					case *ast.Ident:
						if !inner[v.Name] {
							if outer[v.Name] {
								used[v.Name] = true
							} else if pkgVar(v.Name) {
								used["pkg:"+v.Name] = true
							}
						}
					}
					return true
				})
				ast.Inspect(fl.Body, func(n ast.Node) bool {
					switch v := n.(type) {
					case *ast.AssignStmt:
						if v.Tok != token.DEFINE {
							for _, l := range v.Lhs {
								if foreign(root(l)) {
									ws = append(ws, squash(v))
									break
								}
							}
						}
					case *ast.IncDecStmt:
						if foreign(root(v.X)) {
							ws = append(ws, squash(v))
						}
					case *ast.CallExpr:
						if sel, isSel := v.Fun.(*ast.SelectorExpr); isSel && foreign(root(sel.X)) {
							ws = append(ws, squash(v))
						}
					case *ast.GoStmt:
						ws = append(ws, squash(v))
					case *ast.SendStmt:
						ws = append(ws, squash(v))
					}
					return true
				})
				var us []string
				for k := range used {
					us = append(us, k)
				}
				sort.Strings(us)
				caps = append(caps, fmt.Sprintf("(%s, %s)", leanStr(p[0]), leanStrList(us)))
				writes = append(writes, fmt.Sprintf("(%s, %s)", leanStr(p[0]), leanStrList(ws)))
			}
			if good {
				fmt.Fprintf(&sb, "/-- what the stage closure of each simple helper captures: identifiers used inside it that are declared in the enclosing\nfunction or as package-level variables of the file (`pkg:`), sorted -/\ndef stageCaptures : List (String × List String) := [\n  %s]\n\n", strings.Join(caps, ",\n  "))
				fmt.Fprintf(&sb, "/-- the statements of each stage closure that can write memory outliving one evaluation (assignments / ++ / -- to, and\nmethod calls on, variables not declared inside the closure; `go`; channel sends), as source text -/\ndef stageWrites : List (String × List String) := [\n  %s]\n\n", strings.Join(writes, ",\n  "))
			} else {
				sb.WriteString(untranslatable("stageCaptures"))
				sb.WriteString(untranslatable("stageWrites"))
			}
		}

		for _, fn := range []string{"namedTimeFormatToFormat", "smartDateParseWrapper", "kfTimeParse", "kfTimeFormat", "kfDuration", "kfDurationFormat",
			"timeBucketToFormat", "kfBucketTime", "kfTimeAttr", "parseTimezoneLocation"} {
			c.Fingerprint(file, fn)
		}
		c.Fingerprint("pkg/expressions/stdlib/util.go", "isPartialString")
		sb.WriteString("end Rare.Gen.C18\n")
		return sb.String()
	})
}

// c18IntExpr translates a Go int expression over the variable `month` (+ - * / %, literals, parens)
// into wrapped Lean arithmetic.
func c18IntExpr(e ast.Expr) (string, bool) {
	switch v := e.(type) {
	case *ast.ParenExpr:
		return c18IntExpr(v.X)
	case *ast.Ident:
		if v.Name == "month" {
			return "month", true
		}
	case *ast.BasicLit:
		if n, ok := IntLit(v); ok {
			return fmt.Sprintf("%d", n), true
		}
	case *ast.BinaryExpr:
		a, ok1 := c18IntExpr(v.X)
		b, ok2 := c18IntExpr(v.Y)
		if !ok1 || !ok2 {
			return "", false
		}
		switch v.Op {
		case token.ADD:
			return fmt.Sprintf("(wrap64 (%s + %s))", a, b), true
		case token.SUB:
			return fmt.Sprintf("(wrap64 (%s - %s))", a, b), true
		case token.MUL:
			return fmt.Sprintf("(wrap64 (%s * %s))", a, b), true
		case token.QUO:
			return fmt.Sprintf("(goDiv %s %s)", a, b), true
		case token.REM:
			return fmt.Sprintf("(goMod %s %s)", a, b), true
		}
	}
	return "", false
}
