package main

import (
	"fmt"
	"go/ast"
	"go/token"
	"strings"
)

// C20 (round 4c): the line store behind --snapshot / piped output, statement by statement:
//
//	pkg/multiterm/virtualterm.go   NewVirtualTerm, NewVirtualTermEx, WriteForLine, Close, Get, LineCount, WriteToOutput
//	pkg/multiterm/bufferedterm.go  BufferedTerm.Close
//
// State `V` = the fields `lines` / `closed`.  `for cond { … }` is `vWhile` with fuel, `s.lines[e] = x` and `s.lines[e]`
// are CHECKED (error "index out of range" outside 0 ≤ e < len), `panic("…")` is `.error "…"`, every call that writes
// to `out` is an event (`VEv`), in program order.  Theorems `gen_virtual_*` in Props/C20 prove these equal to the hand
// model `VirtualTerm.*` / `bufferedClose` for ALL stores, lines and texts – including which inputs panic.
//
// Go subset: `if c { panic("lit") }`, `if c { return e }`, `for c { … }`, `for _, x := range s.lines { … }`,
// `s.lines = append(s.lines, e)`, `s.lines[e] = e`, `s.closed = e`, `x := []byte{'c'}`, `return e`, calls
// `WriteLineNoWrap(out, x)`, `out.Write(x)`, `s.WriteToOutput(os.Stdout)`, `s.VirtualTerm.Close()`; expressions over
// the parameters, `len(s.lines)`, `s.closed`, int / string literals, comparisons, && || !.

type c20virt struct {
	c      *Ctx
	recv   string
	params map[string]string // name -> type (int str)
	locals map[string]string // name -> Lean term (byte strings)
	bad    string
}

func (t *c20virt) fail(why string) string {
	if t.bad == "" {
		t.bad = why
	}
	return "default"
}

func (t *c20virt) isField(e ast.Expr, field string) bool {
	se, ok := e.(*ast.SelectorExpr)
	if !ok || se.Sel.Name != field {
		return false
	}
	id, ok := se.X.(*ast.Ident)
	return ok && id.Name == t.recv
}

func (t *c20virt) expr(e ast.Expr) (string, string) {
	switch v := e.(type) {
	case *ast.ParenExpr:
		return t.expr(v.X)
	case *ast.Ident:
		if v.Name == "true" || v.Name == "false" {
			return v.Name, "bool"
		}
		if ty, ok := t.params[v.Name]; ok {
			return v.Name, ty
		}
		if l, ok := t.locals[v.Name]; ok {
			return l, "str"
		}
		return t.fail("identifier " + v.Name), "?"
	case *ast.BasicLit:
		if v.Kind == token.INT {
			if n, ok := IntLit(v); ok {
				return fmt.Sprintf("(%d : Int)", n), "int"
			}
		}
		if v.Kind == token.STRING {
			if s, ok := StringLit(v); ok {
				return "(" + c20Bytes(s) + " : List UInt8)", "str"
			}
		}
		return t.fail("literal " + v.Value), "?"
	case *ast.SelectorExpr:
		if t.isField(v, "closed") {
			return "s.closed", "bool"
		}
		return t.fail("selector " + t.c.Print(e)), "?"
	case *ast.CallExpr:
		if id, ok := v.Fun.(*ast.Ident); ok && id.Name == "len" && len(v.Args) == 1 && t.isField(v.Args[0], "lines") {
			return "(s.lines.length : Int)", "int"
		}
		return t.fail("call " + t.c.Print(e)), "?"
	case *ast.UnaryExpr:
		if v.Op == token.NOT {
			a, ty := t.expr(v.X)
			if ty == "bool" {
				return "(!" + a + ")", "bool"
			}
		}
		return t.fail("unary " + t.c.Print(e)), "?"
	case *ast.BinaryExpr:
		a, ta := t.expr(v.X)
		b, tb := t.expr(v.Y)
		switch v.Op {
		case token.LOR, token.LAND:
			if ta == "bool" && tb == "bool" {
				return "(" + a + " " + v.Op.String() + " " + b + ")", "bool"
			}
		case token.LSS, token.LEQ, token.GTR, token.GEQ, token.EQL, token.NEQ:
			if ta == "int" && tb == "int" {
				op := map[token.Token]string{token.LSS: "<", token.LEQ: "≤", token.GTR: ">", token.GEQ: "≥", token.EQL: "=", token.NEQ: "≠"}[v.Op]
				return "decide (" + a + " " + op + " " + b + ")", "bool"
			}
		}
		return t.fail("operator " + t.c.Print(e)), "?"
	}
	return t.fail("expression " + t.c.Print(e)), "?"
}

// stmts: a `do` block over the state `s : V` (and the event list `evs` when withEvs); `retTy` = "" for procedures
func (t *c20virt) stmts(list []ast.Stmt, retTy string, withEvs bool) string {
	var sb strings.Builder
	sb.WriteString("(do ")
	returned := false
	for _, st := range list {
		if returned {
			t.fail("statement after return")
		}
		switch v := st.(type) {
		case *ast.IfStmt:
			cond, ty := t.expr(v.Cond)
			if v.Init != nil || v.Else != nil || ty != "bool" || len(v.Body.List) != 1 {
				t.fail("if " + t.c.Print(v.Cond))
				continue
			}
			switch b := v.Body.List[0].(type) {
			case *ast.ExprStmt:
				call, ok := b.X.(*ast.CallExpr)
				if ok {
					if id, ok2 := call.Fun.(*ast.Ident); ok2 && id.Name == "panic" && len(call.Args) == 1 {
						if msg, ok3 := StringLit(call.Args[0]); ok3 {
							fmt.Fprintf(&sb, "let s ← (if %s then (.error %s : Except String V) else pure s); ", cond, leanStr(msg))
							continue
						}
					}
				}
				t.fail("if body " + t.c.Print(b))
			case *ast.ReturnStmt:
				if retTy == "" || len(b.Results) != 1 {
					t.fail("return in if")
					continue
				}
				// early return: the rest of the function is the else branch
				rest := t.stmts(list[indexOf(list, st)+1:], retTy, withEvs)
				r := t.retExpr(b.Results[0], retTy)
				fmt.Fprintf(&sb, "if %s then %s else %s)", cond, r, rest)
				return sb.String()
			default:
				t.fail("if body " + t.c.Print(v.Body))
			}
		case *ast.ForStmt:
			cond, ty := t.expr(v.Cond)
			if v.Init != nil || v.Post != nil || ty != "bool" {
				t.fail("for " + t.c.Print(v.Cond))
				continue
			}
			body := t.stmts(v.Body.List, "", false)
			fmt.Fprintf(&sb, "let s ← vWhile fuel (fun s => %s) (fun s => %s) s; ", cond, body)
		case *ast.RangeStmt:
			if withEvs && t.isField(v.X, "lines") && v.Tok == token.DEFINE && v.Value != nil {
				if k, ok := v.Key.(*ast.Ident); ok && k.Name == "_" {
					if x, ok := v.Value.(*ast.Ident); ok {
						t.locals[x.Name] = x.Name
						var evs []string
						for _, bs := range v.Body.List {
							evs = append(evs, t.event(bs))
						}
						delete(t.locals, x.Name)
						fmt.Fprintf(&sb, "let evs ← pure (evs ++ s.lines.flatMap (fun %s => [%s])); ", x.Name, strings.Join(evs, ", "))
						continue
					}
				}
			}
			t.fail("range " + t.c.Print(v.X))
		case *ast.AssignStmt:
			if len(v.Lhs) != 1 || len(v.Rhs) != 1 {
				t.fail("assignment " + t.c.Print(v))
				continue
			}
			switch {
			case v.Tok == token.DEFINE:
				// x := []byte{'c', …}
				id, ok := v.Lhs[0].(*ast.Ident)
				cl, ok2 := v.Rhs[0].(*ast.CompositeLit)
				if ok && ok2 && t.c.Print(cl.Type) == "[]byte" {
					var bs []byte
					good := true
					for _, el := range cl.Elts {
						s, ok := StringLit(el)
						if !ok || len(s) != 1 {
							good = false
						}
						bs = append(bs, s...)
					}
					if good {
						t.locals[id.Name] = "(" + c20Bytes(string(bs)) + " : List UInt8)"
						continue
					}
				}
				t.fail("definition " + t.c.Print(v))
			case v.Tok == token.ASSIGN && t.isField(v.Lhs[0], "lines"):
				// s.lines = append(s.lines, e)
				if call, ok := v.Rhs[0].(*ast.CallExpr); ok && len(call.Args) == 2 {
					if id, ok := call.Fun.(*ast.Ident); ok && id.Name == "append" && t.isField(call.Args[0], "lines") {
						x, ty := t.expr(call.Args[1])
						if ty == "str" {
							fmt.Fprintf(&sb, "let s ← pure { s with lines := s.lines ++ [%s] }; ", x)
							continue
						}
					}
				}
				t.fail("assignment " + t.c.Print(v))
			case v.Tok == token.ASSIGN && t.isField(v.Lhs[0], "closed"):
				x, ty := t.expr(v.Rhs[0])
				if ty != "bool" {
					t.fail("assignment " + t.c.Print(v))
					continue
				}
				fmt.Fprintf(&sb, "let s ← pure { s with closed := %s }; ", x)
			case v.Tok == token.ASSIGN:
				// s.lines[e] = x
				if ix, ok := v.Lhs[0].(*ast.IndexExpr); ok && t.isField(ix.X, "lines") {
					k, tk := t.expr(ix.Index)
					x, tx := t.expr(v.Rhs[0])
					if tk == "int" && tx == "str" {
						fmt.Fprintf(&sb, "let s ← (do let l ← vSet s.lines %s %s; pure { s with lines := l }); ", k, x)
						continue
					}
				}
				t.fail("assignment " + t.c.Print(v))
			default:
				t.fail("assignment " + t.c.Print(v))
			}
		case *ast.ExprStmt:
			src := t.c.Print(v.X)
			switch {
			case withEvs && src == t.recv+".WriteToOutput(os.Stdout)":
				sb.WriteString("let evs ← (do let e ← vWriteToOutput s; pure (evs ++ e)); ")
			case withEvs && src == t.recv+".VirtualTerm.Close()":
				sb.WriteString("let s ← vClose s; ")
			default:
				t.fail("statement " + src)
			}
		case *ast.ReturnStmt:
			if retTy == "" || len(v.Results) != 1 {
				t.fail("return")
				continue
			}
			sb.WriteString(t.retExpr(v.Results[0], retTy) + ")")
			return sb.String()
		default:
			t.fail("statement " + t.c.Print(st))
		}
	}
	switch {
	case retTy != "":
		t.fail("missing return")
		sb.WriteString("default)")
	case withEvs:
		sb.WriteString("pure (s, evs))")
	default:
		sb.WriteString("pure s)")
	}
	return sb.String()
}

func indexOf(list []ast.Stmt, st ast.Stmt) int {
	for i, x := range list {
		if x == st {
			return i
		}
	}
	return len(list)
}

// retExpr: the returned value as an `Except String _`
func (t *c20virt) retExpr(e ast.Expr, retTy string) string {
	if ix, ok := e.(*ast.IndexExpr); ok && retTy == "str" && t.isField(ix.X, "lines") {
		k, tk := t.expr(ix.Index)
		if tk == "int" {
			return "(vIdx s.lines " + k + ")"
		}
	}
	x, ty := t.expr(e)
	if ty != retTy {
		return t.fail("returned value " + t.c.Print(e))
	}
	return "(pure " + x + ")"
}

// event: a statement of the range body that writes to `out`
func (t *c20virt) event(st ast.Stmt) string {
	es, ok := st.(*ast.ExprStmt)
	if !ok {
		return t.fail("range body " + t.c.Print(st))
	}
	call, ok := es.X.(*ast.CallExpr)
	if !ok {
		return t.fail("range body " + t.c.Print(st))
	}
	name := c20CallName(call)
	switch {
	case name == "WriteLineNoWrap" && len(call.Args) == 2 && t.c.Print(call.Args[0]) == "out":
		x, ty := t.expr(call.Args[1])
		if ty == "str" {
			return "VEv.writeLineNoWrap " + x
		}
	case name == "out.Write" && len(call.Args) == 1:
		x, ty := t.expr(call.Args[0])
		if ty == "str" {
			return "VEv.write " + x
		}
	}
	return t.fail("range body " + t.c.Print(st))
}

const c20VirtPrelude = `/-- the fields of VirtualTerm -/
structure V where
  lines : List (List UInt8)
  closed : Bool
  deriving DecidableEq, Repr

/-- what the store writes to ` + "`out`" + `, in program order -/
inductive VEv where
  | writeLineNoWrap (line : List UInt8)
  | write (b : List UInt8)
  deriving DecidableEq, Repr

/-- Go ` + "`for cond { body }`" + ` over the store; running out of ` + "`fuel`" + ` is an error -/
def vWhile (fuel : Nat) (cond : V → Bool) (body : V → Except String V) : V → Except String V :=
  match fuel with
  | 0 => fun _ => .error "out of fuel"
  | f + 1 => fun s => if cond s then (match body s with
      | .ok s' => vWhile f cond body s'
      | .error e => .error e) else pure s

/-- Go ` + "`lines[k]`" + `: panics outside 0 ≤ k < len -/
def vIdx (l : List (List UInt8)) (k : Int) : Except String (List UInt8) :=
  if 0 ≤ k ∧ k < (l.length : Int) then .ok (l.getD k.toNat []) else .error "index out of range"

/-- Go ` + "`lines[k] = x`" + `: panics outside 0 ≤ k < len -/
def vSet (l : List (List UInt8)) (k : Int) (x : List UInt8) : Except String (List (List UInt8)) :=
  if 0 ≤ k ∧ k < (l.length : Int) then .ok (l.set k.toNat x) else .error "index out of range"

`

func c20VirtFunc(c *Ctx, sb *strings.Builder, file, goName, leanName, doc string, retTy string, withEvs bool) {
	fd := c.Func(file, goName)
	if fd == nil || fd.Body == nil || fd.Recv == nil || len(fd.Recv.List) != 1 || len(fd.Recv.List[0].Names) != 1 {
		fmt.Fprintf(sb, "-- %s: not found\n%s", goName, untranslatable(leanName))
		return
	}
	t := &c20virt{c: c, recv: fd.Recv.List[0].Names[0].Name, params: map[string]string{}, locals: map[string]string{}}
	sig := ""
	for _, f := range fd.Type.Params.List {
		for _, n := range f.Names {
			switch c.Print(f.Type) {
			case "int":
				t.params[n.Name] = "int"
				sig += fmt.Sprintf(" (%s : Int)", n.Name)
			case "string":
				t.params[n.Name] = "str"
				sig += fmt.Sprintf(" (%s : List UInt8)", n.Name)
			case "io.Writer":
				if n.Name != "out" {
					t.fail("writer parameter " + n.Name)
				}
			default:
				t.fail("parameter type " + c.Print(f.Type))
			}
		}
	}
	body := t.stmts(fd.Body.List, retTy, withEvs)
	if t.bad != "" {
		fmt.Fprintf(sb, "-- %s: %s\n%s", goName, t.bad, untranslatable(leanName))
		return
	}
	res := "V"
	pre := ""
	switch {
	case retTy == "str":
		res = "(List UInt8)"
	case retTy == "int":
		res = "Int"
	case withEvs:
		res = "(V × List VEv)"
		pre = "\n  let evs : List VEv := []"
	}
	fuel := ""
	if strings.Contains(body, "vWhile") {
		fuel = " (fuel : Nat)"
	}
	if withEvs && goName != "VirtualTerm.WriteToOutput" {
		fmt.Fprintf(sb, "/-- %s -/\ndef %s%s%s (s : V) : Except String %s :=%s\n  %s\n\n", doc, leanName, fuel, sig, res, pre, body)
		return
	}
	if goName == "VirtualTerm.WriteToOutput" {
		// the store is not changed: only the events are returned
		fmt.Fprintf(sb, "/-- %s -/\ndef %s%s%s (s : V) : Except String (List VEv) :=%s\n  Except.map (·.2) (%s : Except String (V × List VEv))\n\n", doc, leanName, fuel, sig, pre, body)
		return
	}
	fmt.Fprintf(sb, "/-- %s -/\ndef %s%s%s (s : V) : Except String %s :=\n  %s\n\n", doc, leanName, fuel, sig, res, body)
}

func c20Virt(c *Ctx, sb *strings.Builder) {
	const vt = "pkg/multiterm/virtualterm.go"
	const bt = "pkg/multiterm/bufferedterm.go"
	for _, fn := range []string{"NewVirtualTerm", "NewVirtualTermEx", "VirtualTerm.Close", "VirtualTerm.Get", "VirtualTerm.LineCount"} {
		c.Fingerprint(vt, fn)
	}
	c.Fingerprint(bt, "NewBufferedTerm")
	sb.WriteString(c20VirtPrelude)
	// NewVirtualTerm() = NewVirtualTermEx(<size>, <cap>); NewVirtualTermEx: lines = make([]string, size, cap)
	func() {
		fail := func(why string) { fmt.Fprintf(sb, "-- NewVirtualTerm: %s\n%s", why, untranslatable("vNew")) }
		calls := c20CallArgs(c.Func(vt, "NewVirtualTerm"), "NewVirtualTermEx")
		ex := c.Func(vt, "NewVirtualTermEx")
		nb := c.Func(bt, "NewBufferedTerm")
		if len(calls) != 1 || len(calls[0]) != 2 || ex == nil || nb == nil {
			fail("shape")
			return
		}
		size, ok := IntLit(calls[0][0])
		if !ok || size < 0 {
			fail("size argument")
			return
		}
		mk := c20CallArgs(ex, "make")
		if len(mk) != 1 || len(mk[0]) != 3 || c.Print(mk[0][0]) != "[]string" || c.Print(mk[0][1]) != ex.Type.Params.List[0].Names[0].Name {
			fail("make([]string, size, cap)")
			return
		}
		src := c.Print(ex.Body)
		if strings.Contains(src, "closed") {
			fail("NewVirtualTermEx sets closed")
			return
		}
		if len(c20CallArgs(nb, "NewVirtualTerm")) != 1 {
			fail("NewBufferedTerm does not wrap NewVirtualTerm()")
			return
		}
		fmt.Fprintf(sb, "/-- virtualterm.go NewVirtualTerm() = NewVirtualTermEx(%d, …): `make([]string, %d, cap)`, `closed` left at its zero value; bufferedterm.go NewBufferedTerm() wraps it -/\ndef vNew : V :=\n  { lines := List.replicate %d ([] : List UInt8), closed := false }\n\n", size, size, size)
	}()
	c20VirtFunc(c, sb, vt, "VirtualTerm.WriteForLine", "vWriteForLine", "virtualterm.go WriteForLine(line, text)", "", false)
	c20VirtFunc(c, sb, vt, "VirtualTerm.Close", "vClose", "virtualterm.go Close()", "", false)
	c20VirtFunc(c, sb, vt, "VirtualTerm.Get", "vGet", "virtualterm.go Get(line)", "str", false)
	c20VirtFunc(c, sb, vt, "VirtualTerm.LineCount", "vLineCount", "virtualterm.go LineCount()", "int", false)
	c20VirtFunc(c, sb, vt, "VirtualTerm.WriteToOutput", "vWriteToOutput", "virtualterm.go WriteToOutput(out): the calls that write to `out`", "", true)
	c20VirtFunc(c, sb, bt, "BufferedTerm.Close", "bClose", "bufferedterm.go BufferedTerm.Close(): WriteToOutput(os.Stdout), then the embedded VirtualTerm.Close()", "", true)
}
