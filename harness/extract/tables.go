package main

import (
	"fmt"
	"go/ast"
	"strings"
)

// Tables: robust literal data shared by several properties.
func init() {
	RegisterGen("Tables", func(c *Ctx) string {
		var sb strings.Builder
		sb.WriteString("namespace Rare.Gen\n\n")

		// names of the standard expression functions
		if keys, ok := MapKeys(c.Var("pkg/expressions/stdlib/funcs.go", "StandardFunctions")); ok {
			fmt.Fprintf(&sb, "/-- keys of `stdlib.StandardFunctions` -/\ndef stdFunctionNames : List String := %s\n\n", leanStrList(keys))
		} else {
			sb.WriteString(untranslatable("stdFunctionNames"))
		}

		// batcher constants
		if n, ok := IntLit(c.Var("pkg/extractor/batchers/batcher.go", "ReadAheadBufferSize")); ok {
			fmt.Fprintf(&sb, "def readAheadBufferSize : Nat := %d\n", n)
		} else {
			sb.WriteString(untranslatable("readAheadBufferSize"))
		}
		if n, ok := IntLit(c.Var("pkg/extractor/batchers/batcher.go", "AutoFlushTimeout")); ok {
			fmt.Fprintf(&sb, "/-- nanoseconds -/\ndef autoFlushTimeout : Nat := %d\n", n)
		} else {
			sb.WriteString(untranslatable("autoFlushTimeout"))
		}

		// capacity of extractor.readChan: make(chan []Match, N) inside New
		found := false
		if fd := c.Func("pkg/extractor/extractor.go", "New"); fd != nil {
			ast.Inspect(fd, func(n ast.Node) bool {
				kv, ok := n.(*ast.KeyValueExpr)
				if !ok {
					return true
				}
				if id, ok := kv.Key.(*ast.Ident); ok && id.Name == "readChan" {
					if call, ok := kv.Value.(*ast.CallExpr); ok && len(call.Args) == 2 {
						if v, ok := IntLit(call.Args[1]); ok {
							fmt.Fprintf(&sb, "def readChanCap : Nat := %d\n", v)
							found = true
						}
					}
				}
				return true
			})
		}
		if !found {
			sb.WriteString(untranslatable("readChanCap"))
		}

		// MAX_ITERATIONS of @for
		if v, ok := IntLit(c.LocalConst(c.Func("pkg/expressions/stdlib/funcsRange.go", "kfArrayFor"), "MAX_ITERATIONS")); ok {
			fmt.Fprintf(&sb, "def maxIterations : Nat := %d\n", v)
		} else {
			sb.WriteString(untranslatable("maxIterations"))
		}

		sb.WriteString("\nend Rare.Gen\n")
		return sb.String()
	})
}
