package main

import (
	"fmt"
	"go/ast"
	"go/token"
	"sort"
	"strings"
)

// C11 round 4c: the argument-count guard of every helper bound in StandardFunctions whose builder lives in one of
// the files below.  The guard is the first `if` of the builder (or of the builder a helper-maker returns / delegates
// to) whose body returns stageErrArgCount / stageErrArgRange; its condition is EVALUATED for 0..arityProbe arguments
// (len(args), integer literals, comparisons, && || !, and isArgCountBetween through its own body in util.go), so
// `len(args) != 3`, `len(args) < 2 || len(args) > 3`, `!isArgCountBetween(args, 1, 4)` and `len(args) <= 1` all
// come out as an interval [lo, hi] of accepted counts (hi = none when the largest probed count is still accepted).

var c11ArityFiles = []string{
	"pkg/expressions/stdlib/funcsArithmatic.go", "pkg/expressions/stdlib/funcsComparators.go",
	"pkg/expressions/stdlib/funcsCommon.go", "pkg/expressions/stdlib/funcsStrings.go",
	"pkg/expressions/stdlib/funcsCsv.go", "pkg/expressions/stdlib/funcsLookups.go",
	"pkg/expressions/stdlib/funcsPath.go", "pkg/expressions/stdlib/funcsType.go",
	"pkg/expressions/stdlib/drawing.go",
}

const arityProbe = 12

type arityEval struct {
	c   *Ctx
	n   int64
	env map[string]int64
	ok  bool
}

func (a *arityEval) num(e ast.Expr) int64 {
	switch v := e.(type) {
	case *ast.ParenExpr:
		return a.num(v.X)
	case *ast.BasicLit:
		if x, ok := IntLit(v); ok {
			return x
		}
	case *ast.Ident:
		if x, ok := a.env[v.Name]; ok {
			return x
		}
	case *ast.CallExpr:
		if id, ok := v.Fun.(*ast.Ident); ok && id.Name == "len" && len(v.Args) == 1 {
			if arg, ok := v.Args[0].(*ast.Ident); ok && arg.Name == "args" {
				return a.n
			}
		}
	case *ast.BinaryExpr:
		x, y := a.num(v.X), a.num(v.Y)
		switch v.Op {
		case token.ADD:
			return x + y
		case token.SUB:
			return x - y
		case token.MUL:
			return x * y
		}
	}
	a.ok = false
	return 0
}

func (a *arityEval) cond(e ast.Expr) bool {
	switch v := e.(type) {
	case *ast.ParenExpr:
		return a.cond(v.X)
	case *ast.UnaryExpr:
		if v.Op == token.NOT {
			return !a.cond(v.X)
		}
	case *ast.BinaryExpr:
		switch v.Op {
		case token.LAND:
			x := a.cond(v.X)
			y := a.cond(v.Y)
			return x && y
		case token.LOR:
			x := a.cond(v.X)
			y := a.cond(v.Y)
			return x || y
		case token.EQL:
			return a.num(v.X) == a.num(v.Y)
		case token.NEQ:
			return a.num(v.X) != a.num(v.Y)
		case token.LSS:
			return a.num(v.X) < a.num(v.Y)
		case token.LEQ:
			return a.num(v.X) <= a.num(v.Y)
		case token.GTR:
			return a.num(v.X) > a.num(v.Y)
		case token.GEQ:
			return a.num(v.X) >= a.num(v.Y)
		}
	case *ast.CallExpr:
		// isArgCountBetween(args, lo, hi): through its body
		if id, ok := v.Fun.(*ast.Ident); ok && len(v.Args) >= 1 {
			if first, ok := v.Args[0].(*ast.Ident); ok && first.Name == "args" {
				fd := a.c.Func("pkg/expressions/stdlib/util.go", id.Name)
				if fd != nil && fd.Body != nil && len(fd.Body.List) == 1 {
					if ret, ok := fd.Body.List[0].(*ast.ReturnStmt); ok && len(ret.Results) == 1 {
						var params []string
						for _, f := range fd.Type.Params.List {
							for _, nm := range f.Names {
								params = append(params, nm.Name)
							}
						}
						if len(params) == len(v.Args) && params[0] == "args" {
							inner := &arityEval{c: a.c, n: a.n, env: map[string]int64{}, ok: true}
							for i := 1; i < len(params); i++ {
								inner.env[params[i]] = a.num(v.Args[i])
							}
							r := inner.cond(ret.Results[0])
							if !inner.ok {
								a.ok = false
							}
							return r
						}
					}
				}
			}
		}
	}
	a.ok = false
	return false
}

func returnsArgError(body *ast.BlockStmt) bool {
	found := false
	ast.Inspect(body, func(n ast.Node) bool {
		if r, ok := n.(*ast.ReturnStmt); ok && len(r.Results) == 1 {
			if call, ok := r.Results[0].(*ast.CallExpr); ok {
				if id, ok := call.Fun.(*ast.Ident); ok && (id.Name == "stageErrArgCount" || id.Name == "stageErrArgRange") {
					found = true
				}
			}
		}
		return !found
	})
	return found
}

func (c *Ctx) c11FindFunc(name string) *ast.FuncDecl {
	for _, rel := range c11ArityFiles {
		if fd := c.Func(rel, name); fd != nil {
			return fd
		}
	}
	return nil
}

func (c *Ctx) c11FindVar(name string) ast.Expr {
	for _, rel := range c11ArityFiles {
		if e := c.Var(rel, name); e != nil {
			return e
		}
	}
	return nil
}

// c11Guard returns the guard condition of the builder called `name` (nil, true = a builder without any guard).
func (c *Ctx) c11Guard(name string, depth int) (ast.Expr, bool) {
	if depth > 3 {
		return nil, false
	}
	fd := c.c11FindFunc(name)
	if fd == nil {
		// kfPathBase = kfPathManip(filepath.Base)
		if call, ok := c.c11FindVar(name).(*ast.CallExpr); ok {
			if id, ok := call.Fun.(*ast.Ident); ok {
				return c.c11Guard(id.Name, depth+1)
			}
		}
		return nil, false
	}
	var guard ast.Expr
	ast.Inspect(fd.Body, func(n ast.Node) bool {
		if guard != nil {
			return false
		}
		if ifs, ok := n.(*ast.IfStmt); ok && ifs.Init == nil && returnsArgError(ifs.Body) {
			guard = ifs.Cond
			return false
		}
		return true
	})
	if guard != nil {
		return guard, true
	}
	// a helper-maker that delegates: `return arithmaticHelperiChecked(func …)`
	if len(fd.Body.List) == 1 {
		if ret, ok := fd.Body.List[0].(*ast.ReturnStmt); ok && len(ret.Results) == 1 {
			if call, ok := ret.Results[0].(*ast.CallExpr); ok {
				if id, ok := call.Fun.(*ast.Ident); ok && c.c11FindFunc(id.Name) != nil {
					return c.c11Guard(id.Name, depth+1)
				}
			}
		}
	}
	return nil, true
}

func (c *Ctx) c11Arity(sb *strings.Builder) {
	cl, ok := c.Var("pkg/expressions/stdlib/funcs.go", "StandardFunctions").(*ast.CompositeLit)
	if !ok {
		sb.WriteString(untranslatable("arity"))
		return
	}
	type row struct {
		name, guard string
		lo          int
		hi          int // -1: none
	}
	var rows []row
	for _, el := range cl.Elts {
		e, ok := el.(*ast.KeyValueExpr)
		if !ok {
			continue
		}
		k, ok := StringLit(e.Key)
		if !ok {
			continue
		}
		val := e.Value
		for {
			if call, ok := val.(*ast.CallExpr); ok {
				if id, ok := call.Fun.(*ast.Ident); ok && id.Name == "KeyBuilderFunction" && len(call.Args) == 1 {
					val = call.Args[0]
					continue
				}
			}
			break
		}
		var head string
		switch v := val.(type) {
		case *ast.Ident:
			head = v.Name
		case *ast.CallExpr:
			if id, ok := v.Fun.(*ast.Ident); ok {
				head = id.Name
			}
		}
		if head == "" {
			continue
		}
		guard, found := c.c11Guard(head, 0)
		if !found {
			continue // builder outside the C11 files
		}
		r := row{name: k, lo: 0, hi: -1, guard: "(none)"}
		if guard != nil {
			r.guard = c.Print(guard)
			accepted := make([]bool, arityProbe+1)
			good := true
			for n := 0; n <= arityProbe; n++ {
				ev := &arityEval{c: c, n: int64(n), env: map[string]int64{}, ok: true}
				rej := ev.cond(guard)
				if !ev.ok {
					good = false
				}
				accepted[n] = !rej
			}
			lo, hi := -1, -1
			for n := 0; n <= arityProbe; n++ {
				if accepted[n] {
					if lo < 0 {
						lo = n
					}
					hi = n
				}
			}
			// the accepted counts must form one interval
			for n := 0; n <= arityProbe && good; n++ {
				if accepted[n] != (lo >= 0 && n >= lo && n <= hi) {
					good = false
				}
			}
			if !good || lo < 0 {
				r.lo, r.hi = 999, 0 // not an interval / not evaluable: no table of the model matches this
			} else {
				r.lo = lo
				r.hi = hi
				if hi == arityProbe {
					r.hi = -1
				}
			}
		}
		rows = append(rows, r)
	}
	sort.Slice(rows, func(i, j int) bool { return rows[i].name < rows[j].name })
	fmt.Fprintf(sb, "\n/-- The argument-count guard of every helper whose builder is in funcs{Arithmatic,Comparators,Common,Strings,Csv,Lookups,Path,Type}.go\n    or drawing.go: `(helper, lo, hi)` = the counts the guard lets through (its condition evaluated for 0..%d arguments;\n    `none` = no upper limit). -/\n", arityProbe)
	sb.WriteString("def arity : List (String × Nat × Option Nat) := [\n")
	for i, r := range rows {
		sep := ","
		if i == len(rows)-1 {
			sep = "]"
		}
		hi := "none"
		if r.hi >= 0 {
			hi = fmt.Sprintf("some %d", r.hi)
		}
		fmt.Fprintf(sb, "  (%s, %d, %s)%s -- %s\n", leanStr(r.name), r.lo, hi, sep, strings.ReplaceAll(r.guard, "\n", " "))
	}
	if len(rows) == 0 {
		sb.WriteString("  ]\n")
	}
}
