package main

import (
	"fmt"
	"go/ast"
	"go/token"
	"strings"
)

// C15: what the follow-mode transition systems (lean/Rare/Model/C15.lean) assume about
// pkg/followreader: capacities of the two signal channels, that `writeSignalNonBlock` is a select
// with a default clause, which event kinds the watcher goroutine turns into which signal (the
// switch in startWatcher, in source order), the sync skeletons of the goroutine and of both Read
// loops, the poller's defaults and the conditions of its re-open logic.
func init() {
	RegisterGen("C15", func(c *Ctx) string {
		var sb strings.Builder
		sb.WriteString("namespace Rare.Gen.C15\n\n")
		const notify = "pkg/followreader/notify.go"
		const poller = "pkg/followreader/poller.go"
		for _, fn := range []string{"NewNotify", "NotifyFollowReader.Read", "NotifyFollowReader.startWatcher",
			"NotifyFollowReader.reopenIfReplaced", "NotifyFollowReader.Drain", "writeSignalNonBlock"} {
			c.Fingerprint(notify, fn)
		}
		for _, fn := range []string{"NewPolling", "PollingFollowReader.Read", "PollingFollowReader.Drain"} {
			c.Fingerprint(poller, fn)
		}

		// field := value of the composite literal returned by a constructor
		fieldOf := func(file, fn, field string) ast.Expr {
			fd := c.Func(file, fn)
			if fd == nil || fd.Body == nil {
				return nil
			}
			var found ast.Expr
			ast.Inspect(fd.Body, func(n ast.Node) bool {
				if kv, ok := n.(*ast.KeyValueExpr); ok {
					if id, ok := kv.Key.(*ast.Ident); ok && id.Name == field && found == nil {
						found = kv.Value
					}
				}
				return true
			})
			return found
		}
		chanCap := func(lean, field string) {
			e := fieldOf(notify, "NewNotify", field)
			call, ok := e.(*ast.CallExpr)
			if !ok || exprStr(c, call.Fun) != "make" || len(call.Args) < 1 {
				sb.WriteString(untranslatable(lean))
				return
			}
			if _, isChan := call.Args[0].(*ast.ChanType); !isChan {
				sb.WriteString(untranslatable(lean))
				return
			}
			var capv int64
			if len(call.Args) >= 2 {
				v, ok := IntLit(call.Args[1])
				if !ok || v < 0 {
					sb.WriteString(untranslatable(lean))
					return
				}
				capv = v
			}
			fmt.Fprintf(&sb, "/-- capacity of `%s` (NewNotify) -/\ndef %s : Nat := %d\n\n", field, lean, capv)
		}
		chanCap("eventWriteCap", "eventWrite")
		chanCap("eventDeleteCap", "eventDelete")

		// writeSignalNonBlock: a select with exactly one send and a default clause
		if fd := c.Func(notify, "writeSignalNonBlock"); fd != nil && fd.Body != nil {
			sends, defaults, others := 0, 0, 0
			ast.Inspect(fd.Body, func(n ast.Node) bool {
				if cc, ok := n.(*ast.CommClause); ok {
					switch cc.Comm.(type) {
					case nil:
						defaults++
					case *ast.SendStmt:
						sends++
					default:
						others++
					}
				}
				return true
			})
			fmt.Fprintf(&sb, "/-- `writeSignalNonBlock` is `select { case c <- …: default: }` -/\ndef signalIsNonBlocking : Bool := %v\n\n",
				sends == 1 && defaults == 1 && others == 0)
		} else {
			sb.WriteString(untranslatable("signalIsNonBlocking"))
		}

		// the watcher goroutine
		if fd := c.Func(notify, "NotifyFollowReader.startWatcher"); fd != nil && fd.Body != nil {
			var goBody *ast.BlockStmt
			ast.Inspect(fd.Body, func(n ast.Node) bool {
				if g, ok := n.(*ast.GoStmt); ok && goBody == nil {
					if fl, ok := g.Call.Fun.(*ast.FuncLit); ok {
						goBody = fl.Body
					}
				}
				return true
			})
			if goBody == nil {
				sb.WriteString(untranslatable("watcherSkeleton"))
				sb.WriteString(untranslatable("watcherSwitch"))
			} else {
				fmt.Fprintf(&sb, "/-- sync skeleton of the goroutine started by `startWatcher` -/\ndef watcherSkeleton : List String := %s\n\n",
					leanStrList(c.skeletonOf(goBody)))
				var sw *ast.SwitchStmt
				ast.Inspect(goBody, func(n ast.Node) bool {
					if s, ok := n.(*ast.SwitchStmt); ok && sw == nil {
						sw = s
					}
					return true
				})
				if sw == nil {
					sb.WriteString(untranslatable("watcherSwitch"))
				} else {
					var rows []string
					for _, st := range sw.Body.List {
						cc := st.(*ast.CaseClause)
						cond := "default"
						if len(cc.List) > 0 {
							parts := make([]string, len(cc.List))
							for i, e := range cc.List {
								parts[i] = exprStr(c, e)
							}
							cond = strings.Join(parts, ",")
						}
						var body []string
						for _, b := range cc.Body {
							body = append(body, exprStr2(c, b))
						}
						rows = append(rows, fmt.Sprintf("(%s, %s)", leanStr(cond), leanStr(strings.Join(body, ";"))))
					}
					fmt.Fprintf(&sb, "/-- the `switch` of the watcher goroutine: (case condition, body), in source order -/\ndef watcherSwitch : List (String × String) := [%s]\n\n",
						strings.Join(rows, ",\n  "))
					// The same switch as DATA: for every case that tests a bit of event.Op
					//   (bit of the fsnotify Op, "the case also requires s.ReOpen", signals raised: (only under `if s.ReOpen`, channel))
					// with channel 0 = s.eventWrite, 1 = s.eventDelete.  Cases that do not look at event.Op (closed channel,
					// another file's name) are left out; any other shape of condition or body is untranslatable.
					opBits := map[string]int{"Create": 1, "Write": 2, "Remove": 4, "Rename": 8, "Chmod": 16}
					chanOf := func(st ast.Stmt) (int, bool) {
						es, ok := st.(*ast.ExprStmt)
						if !ok {
							return 0, false
						}
						switch exprStr2(c, es.X) {
						case "writeSignalNonBlock(s.eventWrite)":
							return 0, true
						case "writeSignalNonBlock(s.eventDelete)":
							return 1, true
						}
						return 0, false
					}
					var sigRows []string
					okAll := true
					for _, st := range sw.Body.List {
						cc := st.(*ast.CaseClause)
						if len(cc.List) != 1 || !strings.Contains(exprStr(c, cc.List[0]), "event.Op") {
							if len(cc.List) == 0 { // a default case would catch every other event
								okAll = false
							}
							continue
						}
						var atoms []ast.Expr
						var split func(e ast.Expr)
						split = func(e ast.Expr) {
							if p, ok := e.(*ast.ParenExpr); ok {
								split(p.X)
								return
							}
							if b, ok := e.(*ast.BinaryExpr); ok && b.Op == token.LAND {
								split(b.X)
								split(b.Y)
								return
							}
							atoms = append(atoms, e)
						}
						split(cc.List[0])
						bit, needs := 0, false
						for _, a := range atoms {
							t := exprStr(c, a)
							switch {
							case t == "s.ReOpen":
								needs = true
							case strings.HasPrefix(t, "event.Op&fsnotify.") && strings.HasSuffix(t, "!=0") && bit == 0:
								bit = opBits[strings.TrimSuffix(strings.TrimPrefix(t, "event.Op&fsnotify."), "!=0")]
								if bit == 0 {
									okAll = false
								}
							default:
								okAll = false
							}
						}
						if bit == 0 {
							okAll = false
						}
						var sigs []string
						for _, b := range cc.Body {
							if ch, ok := chanOf(b); ok {
								sigs = append(sigs, fmt.Sprintf("(false, %d)", ch))
								continue
							}
							ifs, ok := b.(*ast.IfStmt)
							if !ok || ifs.Init != nil || ifs.Else != nil || exprStr(c, ifs.Cond) != "s.ReOpen" {
								okAll = false
								continue
							}
							for _, b2 := range ifs.Body.List {
								if ch, ok := chanOf(b2); ok {
									sigs = append(sigs, fmt.Sprintf("(true, %d)", ch))
								} else {
									okAll = false
								}
							}
						}
						sigRows = append(sigRows, fmt.Sprintf("(%d, %v, [%s])", bit, needs, strings.Join(sigs, ", ")))
					}
					if !okAll {
						sb.WriteString(untranslatable("watcherSignals"))
					} else {
						fmt.Fprintf(&sb, "/-- the cases of that `switch` that test `event.Op`, as data: (bit of the fsnotify Op, the case also requires\n    `s.ReOpen`, signals raised in its body: (only under `if s.ReOpen`, channel 0 = eventWrite / 1 = eventDelete)) -/\ndef watcherSignals : List (Nat × Bool × List (Bool × Nat)) := [%s]\n\n",
							strings.Join(sigRows, ",\n  "))
					}
				}
			}
		} else {
			sb.WriteString(untranslatable("watcherSkeleton"))
			sb.WriteString(untranslatable("watcherSwitch"))
		}

		skel := func(lean, file, fn string) {
			fd := c.Func(file, fn)
			if fd == nil || fd.Body == nil {
				sb.WriteString(untranslatable(lean))
				return
			}
			fmt.Fprintf(&sb, "/-- sync skeleton of `%s` (%s) -/\ndef %s : List String := %s\n\n", fn, file, lean, leanStrList(c.skeletonOf(fd.Body)))
		}
		skel("notifyReadSkeleton", notify, "NotifyFollowReader.Read")
		skel("pollReadSkeleton", poller, "PollingFollowReader.Read")

		// conditions of every `if` in a function, in source order
		conds := func(lean, file, fn string) {
			fd := c.Func(file, fn)
			if fd == nil || fd.Body == nil {
				sb.WriteString(untranslatable(lean))
				return
			}
			var out []string
			ast.Inspect(fd.Body, func(n ast.Node) bool {
				switch v := n.(type) {
				case *ast.IfStmt:
					out = append(out, exprStr(c, v.Cond))
				case *ast.ForStmt:
					if v.Cond != nil {
						out = append(out, "for:"+exprStr(c, v.Cond))
					}
				}
				return true
			})
			fmt.Fprintf(&sb, "/-- conditions of the `if`/`for` statements of `%s`, in source order -/\ndef %s : List String := %s\n\n", fn, lean, leanStrList(out))
		}
		conds("notifyReadConds", notify, "NotifyFollowReader.Read")
		conds("reopenIfReplacedConds", notify, "NotifyFollowReader.reopenIfReplaced")
		conds("pollReadConds", poller, "PollingFollowReader.Read")

		// Every write to the poller's offset `readBytes`, in the WHOLE file (any function or method, also
		// ones the model does not know about), as "<func>:<statement>" in source order.  The polling LTS
		// changes `readBytes` in exactly three places (Drain: = offset; Read: += n after every read, = 0 when a
		// shorter file is found at the path); a helper that resets it elsewhere breaks `poll_offset_writes`.
		if pf := c.File(poller); pf != nil {
			var writes, opens []string
			for _, d := range pf.Decls {
				fd, ok := d.(*ast.FuncDecl)
				if !ok || fd.Body == nil {
					continue
				}
				name := fd.Name.Name
				if fd.Recv != nil && len(fd.Recv.List) == 1 {
					t := fd.Recv.List[0].Type
					if st, ok := t.(*ast.StarExpr); ok {
						t = st.X
					}
					name = exprStr2(c, t) + "." + name
				}
				isOffset := func(e ast.Expr) bool { return exprStr2(c, e) == "s.readBytes" }
				ast.Inspect(fd.Body, func(n ast.Node) bool {
					switch v := n.(type) {
					case *ast.AssignStmt:
						for _, l := range v.Lhs {
							if isOffset(l) {
								writes = append(writes, name+":"+exprStr2(c, v))
							}
						}
						for _, l := range v.Lhs {
							if exprStr2(c, l) == "s.f" {
								opens = append(opens, name+":"+exprStr2(c, v))
							}
						}
					case *ast.IncDecStmt:
						if isOffset(v.X) {
							writes = append(writes, name+":"+exprStr2(c, v))
						}
					case *ast.UnaryExpr:
						if v.Op == token.AND && isOffset(v.X) {
							writes = append(writes, name+":&s.readBytes")
						}
					}
					return true
				})
			}
			fmt.Fprintf(&sb, "/-- every write to `s.readBytes` in poller.go (all functions), \"func:statement\", in source order -/\ndef pollOffsetWrites : List String := %s\n\n", leanStrList(writes))
			fmt.Fprintf(&sb, "/-- every assignment to `s.f` in poller.go (all functions), \"func:statement\", in source order -/\ndef pollHandleWrites : List String := %s\n\n", leanStrList(opens))
		} else {
			sb.WriteString(untranslatable("pollOffsetWrites"))
			sb.WriteString(untranslatable("pollHandleWrites"))
		}
		// the statements of the re-open block of Read: the body of `if st != nil && st.Size() != s.readBytes`
		if fd := c.Func(poller, "PollingFollowReader.Read"); fd != nil && fd.Body != nil {
			var block []string
			found := false
			ast.Inspect(fd.Body, func(n ast.Node) bool {
				if is, ok := n.(*ast.IfStmt); ok && !found && exprStr2(c, is.Cond) == "st!=nil&&st.Size()!=s.readBytes" {
					found = true
					for _, st := range is.Body.List {
						block = append(block, exprStr2(c, st))
					}
				}
				return true
			})
			if found {
				fmt.Fprintf(&sb, "/-- the statements executed when `Stat` reports a size different from `readBytes` (poller.go Read) -/\ndef pollReopenBlock : List String := %s\n\n", leanStrList(block))
			} else {
				sb.WriteString(untranslatable("pollReopenBlock"))
			}
		} else {
			sb.WriteString(untranslatable("pollReopenBlock"))
		}

		// poller defaults
		if v, ok := IntLit(fieldOf(poller, "NewPolling", "ReadAttempts")); ok && v >= 0 {
			fmt.Fprintf(&sb, "/-- default `ReadAttempts` -/\ndef readAttempts : Nat := %d\n\n", v)
		} else {
			sb.WriteString(untranslatable("readAttempts"))
		}
		// PollDelay: <int> * time.Millisecond
		pd := fieldOf(poller, "NewPolling", "PollDelay")
		okPD := false
		if be, ok := pd.(*ast.BinaryExpr); ok && be.Op == token.MUL {
			if v, ok := IntLit(be.X); ok && v >= 0 && exprStr(c, be.Y) == "time.Millisecond" {
				fmt.Fprintf(&sb, "/-- default `PollDelay` in milliseconds -/\ndef pollDelayMs : Nat := %d\n\n", v)
				okPD = true
			}
		}
		if !okPD {
			sb.WriteString(untranslatable("pollDelayMs"))
		}
		// observation point (b): the time-flush batching loop and what TailFilesToChan does with a file.
		// Every assignment to `batch` (the slice whose header travels on the channel) and every `if`/`for`
		// condition of the loop, in source order: the heap model `Rare.C15.Batch` allocates a fresh array
		// after every send exactly because `batch` is only ever re-assigned with `make(...)`.
		const batcher = "pkg/extractor/batchers/batcher.go"
		const tailb = "pkg/extractor/batchers/tailBatcher.go"
		c.Fingerprint(batcher, "Batcher.syncReaderToBatcherWithTimeFlush")
		c.Fingerprint(tailb, "TailFilesToChan")
		if fd := c.Func(batcher, "Batcher.syncReaderToBatcherWithTimeFlush"); fd != nil && fd.Body != nil {
			var assigns, sends []string
			ast.Inspect(fd.Body, func(n ast.Node) bool {
				switch v := n.(type) {
				case *ast.AssignStmt:
					for i, l := range v.Lhs {
						if id, ok := l.(*ast.Ident); ok && id.Name == "batch" && i < len(v.Rhs) {
							assigns = append(assigns, exprStr2(c, v.Rhs[i]))
						}
					}
				case *ast.SendStmt:
					sends = append(sends, exprStr2(c, v.Chan)+"<-"+exprStr2(c, v.Value))
				}
				return true
			})
			fmt.Fprintf(&sb, "/-- right-hand sides of every assignment to `batch` in `syncReaderToBatcherWithTimeFlush`, in source order -/\ndef batchAssigns : List String := %s\n\n", leanStrList(assigns))
			fmt.Fprintf(&sb, "/-- every channel send of `syncReaderToBatcherWithTimeFlush`, in source order -/\ndef batchSends : List String := %s\n\n", leanStrList(sends))
		} else {
			sb.WriteString(untranslatable("batchAssigns"))
			sb.WriteString(untranslatable("batchSends"))
		}
		conds("batchLoopConds", batcher, "Batcher.syncReaderToBatcherWithTimeFlush")
		conds("tailFilesConds", tailb, "TailFilesToChan")
		// calls made by the per-file goroutine of TailFilesToChan that matter to the model, in source order
		if fd := c.Func(tailb, "TailFilesToChan"); fd != nil && fd.Body != nil {
			var calls []string
			ast.Inspect(fd.Body, func(n ast.Node) bool {
				if ce, ok := n.(*ast.CallExpr); ok {
					f := exprStr2(c, ce.Fun)
					switch f {
					case "followreader.New", "r.Drain", "out.syncReaderToBatcherWithTimeFlush", "out.syncReaderToBatcher":
						args := make([]string, len(ce.Args))
						for i, a := range ce.Args {
							args[i] = exprStr2(c, a)
						}
						calls = append(calls, f+"("+strings.Join(args, ",")+")")
					}
				}
				return true
			})
			fmt.Fprintf(&sb, "/-- follow-reader / batching calls of `TailFilesToChan`, in source order -/\ndef tailFilesCalls : List String := %s\n\n", leanStrList(calls))
		} else {
			sb.WriteString(untranslatable("tailFilesCalls"))
		}
		// ---- wiring: which follow reader with which options, from the command line down to the constructors
		const front = "pkg/followreader/followreader.go"
		const builder = "cmd/helpers/extractorBuilder.go"
		c.Fingerprint(front, "New")
		c.Fingerprint(builder, "BuildBatcherFromArguments")
		// followreader.New: the statements of its body, in source order
		if fd := c.Func(front, "New"); fd != nil && fd.Body != nil {
			var rows []string
			for _, st := range fd.Body.List {
				rows = append(rows, exprStr2(c, st))
			}
			fmt.Fprintf(&sb, "/-- the body of `followreader.New(filename, reopen, poll)`, statement by statement -/\ndef followNewBody : List String := %s\n\n", leanStrList(rows))
			var ps []string
			for _, f := range fd.Type.Params.List {
				for _, n := range f.Names {
					ps = append(ps, n.Name)
				}
			}
			fmt.Fprintf(&sb, "/-- parameter names of `followreader.New`, in order -/\ndef followNewParams : List String := %s\n\n", leanStrList(ps))
		} else {
			sb.WriteString(untranslatable("followNewBody"))
			sb.WriteString(untranslatable("followNewParams"))
		}
		// what the constructors do with `reopen`: the option field of the returned literal, the condition under which a
		// failed Open is an error, and the parameter list
		ctor := func(lean, file, fn string, fields ...string) {
			fd := c.Func(file, fn)
			if fd == nil || fd.Body == nil {
				sb.WriteString(untranslatable(lean))
				return
			}
			var rows []string
			for _, f := range fd.Type.Params.List {
				for _, n := range f.Names {
					rows = append(rows, "param:"+n.Name)
				}
			}
			for _, f := range fields {
				if e := fieldOf(file, fn, f); e != nil {
					rows = append(rows, f+":"+exprStr2(c, e))
				} else {
					rows = append(rows, f+":<missing>")
				}
			}
			ast.Inspect(fd.Body, func(n ast.Node) bool {
				if is, ok := n.(*ast.IfStmt); ok {
					rows = append(rows, "if:"+exprStr2(c, is.Cond))
				}
				if ce, ok := n.(*ast.CallExpr); ok && exprStr2(c, ce.Fun) == "os.Open" {
					rows = append(rows, "call:"+exprStr2(c, ce))
				}
				return true
			})
			fmt.Fprintf(&sb, "/-- `%s`: parameters, option fields of the returned reader, `os.Open` calls and `if` conditions -/\ndef %s : List String := %s\n\n", fn, lean, leanStrList(rows))
		}
		ctor("newNotifyWiring", notify, "NewNotify", "filename", "f", "ReOpen")
		ctor("newPollingWiring", poller, "NewPolling", "filename", "f", "Reopen", "ReadAttempts", "PollDelay")
		// TailFilesToChan: parameters and sync skeleton (one goroutine per file name, no semaphore: --readers does not apply)
		if fd := c.Func(tailb, "TailFilesToChan"); fd != nil && fd.Body != nil {
			var ps []string
			for _, f := range fd.Type.Params.List {
				for _, n := range f.Names {
					ps = append(ps, n.Name)
				}
			}
			fmt.Fprintf(&sb, "/-- parameter names of `TailFilesToChan`, in order -/\ndef tailFilesParams : List String := %s\n\n", leanStrList(ps))
			fmt.Fprintf(&sb, "/-- sync skeleton of `TailFilesToChan` (goroutines, channel operations, loops, defers) -/\ndef tailFilesSkeleton : List String := %s\n\n", leanStrList(c.skeletonOf(fd.Body)))
			// WaitGroup discipline and the calls around it, in source order
			var wg []string
			ast.Inspect(fd.Body, func(n ast.Node) bool {
				if ce, ok := n.(*ast.CallExpr); ok {
					f := exprStr2(c, ce.Fun)
					switch f {
					case "wg.Add", "wg.Done", "wg.Wait", "out.close", "out.stopFileReading", "out.startFileReading", "out.incErrors", "newBatcher":
						wg = append(wg, exprStr2(c, ce))
					}
				}
				return true
			})
			fmt.Fprintf(&sb, "/-- WaitGroup / bookkeeping calls of `TailFilesToChan`, in source order -/\ndef tailFilesBookkeeping : List String := %s\n\n", leanStrList(wg))
		} else {
			sb.WriteString(untranslatable("tailFilesParams"))
			sb.WriteString(untranslatable("tailFilesSkeleton"))
			sb.WriteString(untranslatable("tailFilesBookkeeping"))
		}
		// the command line: the follow variables of BuildBatcherFromArguments, its conditions and the TailFilesToChan call
		if fd := c.Func(builder, "BuildBatcherFromArguments"); fd != nil && fd.Body != nil {
			var vars, calls, fatals []string
			ast.Inspect(fd.Body, func(n ast.Node) bool {
				switch v := n.(type) {
				case *ast.ValueSpec:
					for i, nm := range v.Names {
						if strings.HasPrefix(nm.Name, "follow") && i < len(v.Values) {
							vars = append(vars, nm.Name+"="+exprStr2(c, v.Values[i]))
						}
					}
				case *ast.CallExpr:
					f := exprStr2(c, v.Fun)
					if f == "batchers.TailFilesToChan" {
						calls = append(calls, exprStr2(c, v))
					}
				case *ast.IfStmt:
					// an `if` whose body is a single fatal exit: (condition, exit code)
					if len(v.Body.List) == 1 {
						if es, ok := v.Body.List[0].(*ast.ExprStmt); ok {
							if ce, ok := es.X.(*ast.CallExpr); ok && strings.HasPrefix(exprStr2(c, ce.Fun), "logger.Fatal") && len(ce.Args) > 0 &&
								strings.Contains(exprStr2(c, v.Cond), "follow") {
								fatals = append(fatals, exprStr2(c, v.Cond)+"=>"+exprStr2(c, ce.Args[0]))
							}
						}
					}
				}
				return true
			})
			fmt.Fprintf(&sb, "/-- the follow variables of `BuildBatcherFromArguments` (cmd/helpers), in source order -/\ndef cliFollowVars : List String := %s\n\n", leanStrList(vars))
			fmt.Fprintf(&sb, "/-- `if <cond> { logger.Fatal…(<code>, …) }` of `BuildBatcherFromArguments`: \"cond=>code\", in source order -/\ndef cliFatals : List String := %s\n\n", leanStrList(fatals))
			fmt.Fprintf(&sb, "/-- the `TailFilesToChan` call(s) of `BuildBatcherFromArguments` -/\ndef cliBatcherCalls : List String := %s\n\n", leanStrList(calls))
			// the `if` conditions that decide between stdin / follow / plain files (those that mention follow or the arguments)
			var cs []string
			ast.Inspect(fd.Body, func(n ast.Node) bool {
				if is, ok := n.(*ast.IfStmt); ok {
					cnd := exprStr2(c, is.Cond)
					if strings.Contains(cnd, "follow") || strings.Contains(cnd, "fileglobs") {
						cs = append(cs, cnd)
					}
				}
				return true
			})
			fmt.Fprintf(&sb, "/-- the `if` conditions of `BuildBatcherFromArguments` that mention the follow variables or the arguments, in source order -/\ndef cliBatcherConds : List String := %s\n\n", leanStrList(cs))
		} else {
			sb.WriteString(untranslatable("cliFollowVars"))
			sb.WriteString(untranslatable("cliFatals"))
			sb.WriteString(untranslatable("cliBatcherCalls"))
			sb.WriteString(untranslatable("cliBatcherConds"))
		}
		// the four follow flags: name and aliases
		if fd := c.Func(builder, "getExtractorFlags"); fd != nil && fd.Body != nil {
			var flags []string
			ast.Inspect(fd.Body, func(n ast.Node) bool {
				cl, ok := n.(*ast.CompositeLit)
				if !ok || exprStr2(c, cl.Type) != "cli.BoolFlag" {
					return true
				}
				name, aliases := "", ""
				for _, el := range cl.Elts {
					if kv, ok := el.(*ast.KeyValueExpr); ok {
						switch exprStr2(c, kv.Key) {
						case "Name":
							name, _ = StringLit(kv.Value)
						case "Aliases":
							if l, ok := StringList(kv.Value); ok {
								aliases = strings.Join(l, ",")
							} else {
								aliases = "?"
							}
						}
					}
				}
				switch name {
				case "follow", "reopen", "poll", "tail":
					flags = append(flags, name+":"+aliases)
				}
				return true
			})
			fmt.Fprintf(&sb, "/-- the follow flags of the extractor commands: \"name:aliases\" -/\ndef cliFollowFlags : List String := %s\n\n", leanStrList(flags))
		} else {
			sb.WriteString(untranslatable("cliFollowFlags"))
		}
		sb.WriteString("end Rare.Gen.C15\n")
		return sb.String()
	})
}

func exprStr2(c *Ctx, n ast.Node) string {
	s := c.Print(n)
	return strings.Join(strings.Fields(s), "")
}
