package main

import (
	"fmt"
	"go/ast"
	"go/token"
	"strings"
)

// C07: guard conditions, index arithmetic and the Welford update of pkg/aggregation and pkg/stringSplitter,
// regenerated on every run into lean/Rare/Gen/C07.lean.  Props/C07.lean proves the hand model equal to these
// (`*_matches_source`), so a changed condition / constant / statement in /repo breaks a theorem.
//
// Integer fragments are translated over unbounded `Int` (they are lengths and indices: no wrap-around), float
// fragments over an abstract number type with the operations as parameters (the model instantiates them with
// `Rat` and with the software binary64).

type c07tr struct {
	c    *Ctx
	vars map[string]string // whitespace-free Go text -> Lean name
	ver  map[string]int    // SSA versions of assigned Lean names
	lets []string
	ok   bool
	why  string
}

func (c *Ctx) c07new(vars map[string]string) *c07tr {
	return &c07tr{c: c, vars: vars, ver: map[string]int{}, ok: true}
}

func (t *c07tr) txt(n ast.Node) string { return strings.Join(strings.Fields(t.c.Print(n)), "") }

func (t *c07tr) fail(n ast.Node) {
	if t.ok {
		t.why = t.txt(n)
	}
	t.ok = false
}

func (t *c07tr) cur(name string) string {
	if v := t.ver[name]; v > 0 {
		return fmt.Sprintf("%s_%d", name, v)
	}
	return name
}

func (t *c07tr) lookup(e ast.Expr) (string, bool) {
	n, ok := t.vars[t.txt(e)]
	if !ok {
		return "", false
	}
	return t.cur(n), true
}

// integer-valued expression over Int
func (t *c07tr) intExpr(e ast.Expr) string {
	if n, ok := t.lookup(e); ok {
		return n
	}
	switch v := e.(type) {
	case *ast.ParenExpr:
		return t.intExpr(v.X)
	case *ast.BasicLit:
		if v.Kind == token.INT {
			return "(" + v.Value + " : Int)"
		}
	case *ast.UnaryExpr:
		if v.Op == token.SUB {
			return "(-" + t.intExpr(v.X) + ")"
		}
	case *ast.SelectorExpr:
		switch t.txt(v) {
		case "math.MaxInt64":
			return "maxInt64"
		case "math.MinInt64":
			return "minInt64"
		}
	case *ast.BinaryExpr:
		a, b := t.intExpr(v.X), t.intExpr(v.Y)
		switch v.Op {
		case token.ADD:
			return "(" + a + " + " + b + ")"
		case token.SUB:
			return "(" + a + " - " + b + ")"
		case token.MUL:
			return "(" + a + " * " + b + ")"
		case token.QUO:
			return "(Int.tdiv " + a + " " + b + ")"
		}
	}
	t.fail(e)
	return "0"
}

// boolean expression over integer comparisons
func (t *c07tr) boolExpr(e ast.Expr) string {
	if n, ok := t.lookup(e); ok {
		return n
	}
	switch v := e.(type) {
	case *ast.ParenExpr:
		return t.boolExpr(v.X)
	case *ast.UnaryExpr:
		if v.Op == token.NOT {
			return "(!" + t.boolExpr(v.X) + ")"
		}
	case *ast.BinaryExpr:
		switch v.Op {
		case token.LAND:
			return "(" + t.boolExpr(v.X) + " && " + t.boolExpr(v.Y) + ")"
		case token.LOR:
			return "(" + t.boolExpr(v.X) + " || " + t.boolExpr(v.Y) + ")"
		case token.EQL, token.NEQ, token.LSS, token.GTR, token.LEQ, token.GEQ:
			op := map[token.Token]string{token.EQL: "=", token.NEQ: "≠", token.LSS: "<", token.GTR: ">", token.LEQ: "≤", token.GEQ: "≥"}[v.Op]
			return "(decide (" + t.intExpr(v.X) + " " + op + " " + t.intExpr(v.Y) + "))"
		}
	}
	t.fail(e)
	return "false"
}

// number-valued expression over the abstract operations add sub mul div ofNat zero
func (t *c07tr) numExpr(e ast.Expr) string {
	if n, ok := t.lookup(e); ok {
		return n
	}
	switch v := e.(type) {
	case *ast.ParenExpr:
		return t.numExpr(v.X)
	case *ast.BasicLit:
		if v.Kind == token.FLOAT && (v.Value == "0.0" || v.Value == "0.") {
			return "zero"
		}
	case *ast.CallExpr:
		if t.txt(v.Fun) == "float64" && len(v.Args) == 1 {
			return "(ofNat " + t.natExpr(v.Args[0]) + ")"
		}
	case *ast.BinaryExpr:
		op := map[token.Token]string{token.ADD: "add", token.SUB: "sub", token.MUL: "mul", token.QUO: "div"}[v.Op]
		if op != "" {
			return "(" + op + " " + t.numExpr(v.X) + " " + t.numExpr(v.Y) + ")"
		}
	}
	t.fail(e)
	return "zero"
}

// natural-number expression (an unsigned counter)
func (t *c07tr) natExpr(e ast.Expr) string {
	if n, ok := t.lookup(e); ok {
		return n
	}
	switch v := e.(type) {
	case *ast.ParenExpr:
		return t.natExpr(v.X)
	case *ast.BasicLit:
		if v.Kind == token.INT {
			return v.Value
		}
	case *ast.BinaryExpr:
		switch v.Op {
		case token.ADD:
			return "(" + t.natExpr(v.X) + " + " + t.natExpr(v.Y) + ")"
		case token.SUB:
			return "(" + t.natExpr(v.X) + " - " + t.natExpr(v.Y) + ")"
		}
	}
	t.fail(e)
	return "0"
}

// comparison of two numbers through the abstract `lt` (a > b is lt b a)
func (t *c07tr) numCmp(e ast.Expr) string {
	if be, ok := e.(*ast.BinaryExpr); ok {
		switch be.Op {
		case token.LSS:
			return "(lt " + t.numExpr(be.X) + " " + t.numExpr(be.Y) + ")"
		case token.GTR:
			return "(lt " + t.numExpr(be.Y) + " " + t.numExpr(be.X) + ")"
		}
	}
	t.fail(e)
	return "false"
}

func (t *c07tr) bind(lean, val string) {
	t.ver[lean]++
	t.lets = append(t.lets, fmt.Sprintf("  let %s := %s", t.cur(lean), val))
}

// assignInt: `x = e`, `x := e`, `x += e`, `x -= e` for a mapped integer variable x; cond != "" guards it
func (t *c07tr) assign(as *ast.AssignStmt, kind string, cond string) {
	if len(as.Lhs) != 1 || len(as.Rhs) != 1 {
		t.fail(as)
		return
	}
	lean, ok := t.vars[t.txt(as.Lhs[0])]
	if !ok {
		t.fail(as)
		return
	}
	ex := t.intExpr
	plus, minus := "(%s + %s)", "(%s - %s)"
	if kind == "num" {
		ex = t.numExpr
		plus, minus = "(add %s %s)", "(sub %s %s)"
	}
	old := t.cur(lean)
	var val string
	switch as.Tok {
	case token.ASSIGN, token.DEFINE:
		val = ex(as.Rhs[0])
	case token.ADD_ASSIGN:
		val = fmt.Sprintf(plus, old, ex(as.Rhs[0]))
	case token.SUB_ASSIGN:
		val = fmt.Sprintf(minus, old, ex(as.Rhs[0]))
	default:
		t.fail(as)
		return
	}
	if cond != "" {
		val = fmt.Sprintf("if %s then %s else %s", cond, val, old)
	}
	t.bind(lean, val)
}

func c07ifs(body ast.Node) []*ast.IfStmt {
	var out []*ast.IfStmt
	ast.Inspect(body, func(n ast.Node) bool {
		if is, ok := n.(*ast.IfStmt); ok {
			out = append(out, is)
		}
		return true
	})
	return out
}

func c07returns(body ast.Node) []*ast.ReturnStmt {
	var out []*ast.ReturnStmt
	ast.Inspect(body, func(n ast.Node) bool {
		if _, ok := n.(*ast.FuncLit); ok {
			return false
		}
		if rs, ok := n.(*ast.ReturnStmt); ok {
			out = append(out, rs)
		}
		return true
	})
	return out
}

func (t *c07tr) emit(sb *strings.Builder, doc, sig, result string) {
	name := strings.Fields(sig)[0]
	if !t.ok {
		fmt.Fprintf(sb, "/- `%s`: cannot translate `%s` -/\n%s\n", name, t.why, untranslatable(name))
		return
	}
	fmt.Fprintf(sb, "/-- %s -/\ndef %s :=\n", doc, sig)
	for _, l := range t.lets {
		sb.WriteString(l + "\n")
	}
	sb.WriteString("  " + result + "\n\n")
}

// condition list of the `if` statements of a function, in source order
func (c *Ctx) c07Conds(sb *strings.Builder, file, fn, lean, params string, vars map[string]string, want int) {
	fd := c.Func(file, fn)
	t := c.c07new(vars)
	if fd == nil || fd.Body == nil {
		sb.WriteString(untranslatable(lean) + "\n")
		return
	}
	ifs := c07ifs(fd.Body)
	if len(ifs) != want {
		fmt.Fprintf(sb, "/- `%s`: %d if statements, expected %d -/\n%s\n", fn, len(ifs), want, untranslatable(lean))
		return
	}
	var cs, doc []string
	for _, is := range ifs {
		cs = append(cs, t.boolExpr(is.Cond))
		doc = append(doc, "`"+c.Print(is.Cond)+"`")
	}
	t.emit(sb, fmt.Sprintf("`%s` (%s): the conditions of its if statements, in order: %s", fn, file, strings.Join(doc, ", ")),
		lean+" "+params+" : List Bool", "["+strings.Join(cs, ", ")+"]")
}

func c07stmtText(c *Ctx, list []ast.Stmt) []string {
	var out []string
	for _, s := range list {
		switch v := s.(type) {
		case *ast.IfStmt:
			h := "if "
			if v.Init != nil {
				h += c.Print(v.Init) + "; "
			}
			out = append(out, h+c.Print(v.Cond)+" {")
			out = append(out, c07stmtText(c, v.Body.List)...)
			for el := v.Else; el != nil; {
				switch e := el.(type) {
				case *ast.IfStmt:
					out = append(out, "} else if "+c.Print(e.Cond)+" {")
					out = append(out, c07stmtText(c, e.Body.List)...)
					el = e.Else
				case *ast.BlockStmt:
					out = append(out, "} else {")
					out = append(out, c07stmtText(c, e.List)...)
					el = nil
				default:
					el = nil
				}
			}
			out = append(out, "}")
		case *ast.RangeStmt:
			h := "for "
			if v.Key != nil {
				h += c.Print(v.Key)
				if v.Value != nil {
					h += ", " + c.Print(v.Value)
				}
				h += " := "
			}
			out = append(out, h+"range "+c.Print(v.X)+" {")
			out = append(out, c07stmtText(c, v.Body.List)...)
			out = append(out, "}")
		case *ast.ForStmt:
			h := "for "
			if v.Init != nil {
				h += c.Print(v.Init)
			}
			h += "; "
			if v.Cond != nil {
				h += c.Print(v.Cond)
			}
			h += "; "
			if v.Post != nil {
				h += c.Print(v.Post)
			}
			out = append(out, h+" {")
			out = append(out, c07stmtText(c, v.Body.List)...)
			out = append(out, "}")
		default:
			out = append(out, strings.Join(strings.Fields(c.Print(s)), " "))
		}
	}
	return out
}

func init() {
	RegisterGen("C07", func(c *Ctx) string {
		const (
			fSplit = "pkg/stringSplitter/splitter.go"
			fNum   = "pkg/aggregation/numerical.go"
			fCnt   = "pkg/aggregation/counter.go"
			fSub   = "pkg/aggregation/countersubkey.go"
			fTab   = "pkg/aggregation/table.go"
			fAcc   = "pkg/aggregation/accumulator.go"
		)
		var sb strings.Builder
		sb.WriteString("import Rare.Base.GoInt\nnamespace Rare.Gen.C07\nopen Rare\n\n")
		for _, a := range [][2]string{{fSplit, "Splitter.Next"}, {fSplit, "Splitter.NextOk"}, {fSplit, "Splitter.Done"},
			{fNum, "NewNumericalAggregator"}, {fNum, "MatchNumerical.Samplef"}, {fNum, "MatchNumerical.Sample"}, {fNum, "MatchNumerical.Variance"},
			{fNum, "MatchNumerical.Analyze"}, {fNum, "StatisticalAnalysis.Median"}, {fNum, "StatisticalAnalysis.Mode"}, {fNum, "StatisticalAnalysis.Quantile"},
			{fCnt, "MatchCounter.Sample"}, {fCnt, "MatchCounter.SampleValue"}, {fCnt, "minSlice"},
			{fSub, "SubKeyCounter.Sample"}, {fSub, "SubKeyCounter.SampleValue"}, {fSub, "SubKeyCounter.getOrCreateSubkeyIndex"}, {fSub, "insertAlphanumeric"},
			{fTab, "TableAggregator.Sample"}, {fTab, "TableAggregator.SampleItem"}, {fTab, "TableAggregator.ComputeMinMax"}, {fTab, "TableAggregator.Trim"},
			{fAcc, "AccumulatingGroup.Sample"}, {fAcc, "AccumulatingGroup.buildGroupKey"}, {fAcc, "GroupKey.Parts"},
			{fAcc, "exprAccumulatorContext.GetMatch"}, {fAcc, "accumulatorGroupSortContext.GetMatch"}} {
			c.Fingerprint(a[0], a[1])
		}

		// ---- splitter
		if fd := c.Func(fSplit, "Splitter.Done"); fd != nil && fd.Body != nil && len(c07returns(fd.Body)) == 1 && len(c07returns(fd.Body)[0].Results) == 1 {
			t := c.c07new(map[string]string{"s.next": "next"})
			r := t.boolExpr(c07returns(fd.Body)[0].Results[0])
			t.emit(&sb, "`Splitter.Done`: the returned expression", "splitterDone (next : Int) : Bool", r)
		} else {
			sb.WriteString(untranslatable("splitterDone") + "\n")
		}
		c.c07Conds(&sb, fSplit, "Splitter.Next", "splitterNextConds", "(next idx : Int)", map[string]string{"s.next": "next", "idx": "idx"}, 2)
		if fd := c.Func(fSplit, "Splitter.Next"); fd != nil && fd.Body != nil {
			// the assignments to idx and s.next after the second `if` (the found-delimiter path)
			t := c.c07new(map[string]string{"s.next": "next", "idx": "idx", "len(s.Delim)": "dlen"})
			seenIfs, n := 0, 0
			for _, s := range fd.Body.List {
				if _, ok := s.(*ast.IfStmt); ok {
					seenIfs++
					continue
				}
				if as, ok := s.(*ast.AssignStmt); ok && seenIfs == 2 {
					if _, mapped := t.vars[t.txt(as.Lhs[0])]; mapped {
						t.assign(as, "int", "")
						n++
					}
				}
			}
			if n != 2 {
				t.ok, t.why = false, fmt.Sprintf("%d assignments to idx / s.next after the not-found branch, expected 2", n)
			}
			t.emit(&sb, "`Splitter.Next`, delimiter found at offset `idx` of the rest: the assignments to `idx` and `s.next` (`dlen` = `len(s.Delim)`); answer = (end of the field, new `next`)",
				"splitterAdvance (next idx dlen : Int) : Int × Int", "("+t.cur("idx")+", "+t.cur("next")+")")
		} else {
			sb.WriteString(untranslatable("splitterAdvance") + "\n")
		}

		// ---- numerical: Welford update, min / max, Variance, order statistics
		if fd := c.Func(fNum, "MatchNumerical.Samplef"); fd != nil && fd.Body != nil {
			t := c.c07new(map[string]string{"s.samples": "samples", "s.mean": "mean", "s.variance": "variance", "val": "val", "oldMean": "oldMean"})
			n := 0
			for _, s := range fd.Body.List {
				switch v := s.(type) {
				case *ast.IncDecStmt:
					if t.txt(v.X) == "s.samples" && v.Tok == token.INC {
						t.bind("samples", "("+t.cur("samples")+" + 1)")
						n++
					} else {
						t.fail(v)
					}
				case *ast.AssignStmt:
					t.assign(v, "num", "")
					n++
				}
			}
			if n != 4 {
				t.ok, t.why = false, fmt.Sprintf("%d top-level counter / assignment statements, expected 4", n)
			}
			t.emit(&sb, "`Samplef`: `s.samples++`, `oldMean := s.mean` and the two update statements of the running moments, in source order; answer = (samples, mean, variance)",
				"welford {α : Type} (add sub mul div : α → α → α) (ofNat : Nat → α) (samples : Nat) (mean variance val : α) : Nat × α × α",
				"("+t.cur("samples")+", "+t.cur("mean")+", "+t.cur("variance")+")")
			// the two guarded assignments of min / max
			t2 := c.c07new(map[string]string{"s.min": "mn", "s.max": "mx", "val": "val"})
			var ifs []*ast.IfStmt
			for _, s := range fd.Body.List {
				if is, ok := s.(*ast.IfStmt); ok {
					if _, isCmp := is.Cond.(*ast.BinaryExpr); isCmp {
						ifs = append(ifs, is)
					}
				}
			}
			if len(ifs) != 2 {
				t2.ok, t2.why = false, fmt.Sprintf("%d comparisons guarding min / max, expected 2", len(ifs))
			} else {
				for _, is := range ifs {
					if len(is.Body.List) != 1 || is.Else != nil {
						t2.fail(is)
						continue
					}
					as, ok := is.Body.List[0].(*ast.AssignStmt)
					if !ok {
						t2.fail(is)
						continue
					}
					t2.assign(as, "num", t2.numCmp(is.Cond))
				}
			}
			t2.emit(&sb, "`Samplef`: the guarded assignments of `s.min` / `s.max` (`a > b` is `lt b a`); answer = (min, max)",
				"minMaxUpdate {α : Type} (lt : α → α → Bool) (mn mx val : α) : α × α", "("+t2.cur("mn")+", "+t2.cur("mx")+")")
		} else {
			sb.WriteString(untranslatable("welford") + "\n" + untranslatable("minMaxUpdate") + "\n")
		}
		if fd := c.Func(fNum, "MatchNumerical.Variance"); fd != nil && fd.Body != nil && len(c07ifs(fd.Body)) == 1 && len(c07returns(fd.Body)) == 2 {
			t := c.c07new(map[string]string{"s.samples": "samples", "s.variance": "variance"})
			is := c07ifs(fd.Body)[0]
			rs := c07returns(fd.Body)
			cond := "false"
			if be, ok := is.Cond.(*ast.BinaryExpr); ok && be.Op == token.GTR {
				cond = "decide (" + t.natExpr(be.X) + " > " + t.natExpr(be.Y) + ")"
			} else {
				t.fail(is.Cond)
			}
			if len(rs[0].Results) != 1 || len(rs[1].Results) != 1 {
				t.fail(fd.Body)
			} else {
				t.emit(&sb, "`Variance`: `if` condition, the guarded answer and the fall-through answer",
					"varianceOf {α : Type} (div : α → α → α) (ofNat : Nat → α) (zero : α) (samples : Nat) (variance : α) : α",
					"if "+cond+" then "+t.numExpr(rs[0].Results[0])+" else "+t.numExpr(rs[1].Results[0]))
			}
		} else {
			sb.WriteString(untranslatable("varianceOf") + "\n")
		}
		// initial Min / Max: math.Inf(sign)
		if fd := c.Func(fNum, "NewNumericalAggregator"); fd != nil {
			signs := map[string]string{}
			ast.Inspect(fd, func(n ast.Node) bool {
				if kv, ok := n.(*ast.KeyValueExpr); ok {
					if call, ok := kv.Value.(*ast.CallExpr); ok && strings.Join(strings.Fields(c.Print(call.Fun)), "") == "math.Inf" && len(call.Args) == 1 {
						if v, ok := IntLit(call.Args[0]); ok {
							signs[c.Print(kv.Key)] = fmt.Sprint(v)
						}
					}
				}
				return true
			})
			if signs["min"] != "" && signs["max"] != "" {
				fmt.Fprintf(&sb, "/-- `NewNumericalAggregator`: the arguments of `math.Inf` for the initial `min` and `max` -/\ndef initInfSigns : Int × Int := (%s, %s)\n\n", signs["min"], signs["max"])
			} else {
				sb.WriteString(untranslatable("initInfSigns") + "\n")
			}
		} else {
			sb.WriteString(untranslatable("initInfSigns") + "\n")
		}
		nvars := map[string]string{"len(s.orderedValues)": "n", "idx": "idx", "i": "i"}
		if fd := c.Func(fNum, "StatisticalAnalysis.Median"); fd != nil && fd.Body != nil && len(c07ifs(fd.Body)) == 1 && len(c07returns(fd.Body)) == 2 {
			t := c.c07new(nvars)
			cond := t.boolExpr(c07ifs(fd.Body)[0].Cond)
			idx := "0"
			if ie, ok := c07returns(fd.Body)[1].Results[0].(*ast.IndexExpr); ok && t.txt(ie.X) == "s.orderedValues" {
				idx = t.intExpr(ie.Index)
			} else {
				t.fail(c07returns(fd.Body)[1])
			}
			t.emit(&sb, "`Median`: the empty test and the index of the returned element (`n` = `len(s.orderedValues)`)", "medianIdx (n : Int) : Bool × Int", "("+cond+", "+idx+")")
		} else {
			sb.WriteString(untranslatable("medianIdx") + "\n")
		}
		if fd := c.Func(fNum, "StatisticalAnalysis.Quantile"); fd != nil && fd.Body != nil && len(c07ifs(fd.Body)) == 3 {
			t := c.c07new(nvars)
			ifs := c07ifs(fd.Body)
			empty := t.boolExpr(ifs[0].Cond)
			for _, is := range ifs[1:] {
				if len(is.Body.List) != 1 || is.Else != nil {
					t.fail(is)
					continue
				}
				if as, ok := is.Body.List[0].(*ast.AssignStmt); ok {
					t.assign(as, "int", t.boolExpr(is.Cond))
				} else {
					t.fail(is)
				}
			}
			idx := "0"
			rs := c07returns(fd.Body)
			if ie, ok := rs[len(rs)-1].Results[0].(*ast.IndexExpr); ok && t.txt(ie.X) == "s.orderedValues" {
				idx = t.intExpr(ie.Index)
			} else {
				t.fail(rs[len(rs)-1])
			}
			// the raw index: int(float64(len) * p)
			raw := ""
			for _, s := range fd.Body.List {
				if as, ok := s.(*ast.AssignStmt); ok && as.Tok == token.DEFINE && t.txt(as.Lhs[0]) == "idx" {
					raw = t.txt(as.Rhs[0])
				}
			}
			if raw == "" {
				t.ok, t.why = false, "idx := …"
			}
			t.emit(&sb, "`Quantile`: the empty test and the two clamps applied to the raw index `idx`, then the index of the returned element", "quantileIdx (n idx : Int) : Bool × Int", "("+empty+", "+idx+")")
			fmt.Fprintf(&sb, "/-- `Quantile`: the raw index -/\ndef quantileRaw : String := %s\n\n", leanStr(raw))
		} else {
			sb.WriteString(untranslatable("quantileIdx") + "\n" + untranslatable("quantileRaw") + "\n")
		}
		if fd := c.Func(fNum, "StatisticalAnalysis.Mode"); fd != nil && fd.Body != nil {
			fmt.Fprintf(&sb, "/-- `Mode`: its statements -/\ndef modeSource : List String := %s\n\n", leanStrList(c07stmtText(c, fd.Body.List)))
		} else {
			sb.WriteString(untranslatable("modeSource") + "\n")
		}

		// ---- numerical.go as a state machine: the state (struct fields) and the statements of the three methods that change it
		// (`Analyze` sorts s.values in place; a cached "already sorted" flag or a skipped sort is a different machine)
		for _, a := range [][2]string{{"MatchNumerical.Samplef", "samplefSource"}, {"MatchNumerical.Sample", "numSampleSource"}, {"MatchNumerical.Analyze", "analyzeSource"}} {
			if fd := c.Func(fNum, a[0]); fd != nil && fd.Body != nil {
				fmt.Fprintf(&sb, "/-- `%s` (%s): its statements -/\ndef %s : List String := %s\n\n", a[0], fNum, a[1], leanStrList(c07stmtText(c, fd.Body.List)))
			} else {
				sb.WriteString(untranslatable(a[1]) + "\n")
			}
		}
		for _, a := range [][2]string{{"MatchNumerical", "numericalFields"}, {"StatisticalAnalysis", "analysisFields"}, {"NumericalConfig", "numericalConfigFields"}} {
			var fields []string
			found := false
			if f := c.File(fNum); f != nil {
				ast.Inspect(f, func(n ast.Node) bool {
					ts, ok := n.(*ast.TypeSpec)
					if !ok || ts.Name.Name != a[0] {
						return true
					}
					if st, ok := ts.Type.(*ast.StructType); ok && st.Fields != nil {
						found = true
						for _, fl := range st.Fields.List {
							ty := strings.Join(strings.Fields(c.Print(fl.Type)), "")
							if len(fl.Names) == 0 {
								fields = append(fields, ty)
							}
							for _, nm := range fl.Names {
								fields = append(fields, nm.Name+" "+ty)
							}
						}
					}
					return false
				})
			}
			if found {
				fmt.Fprintf(&sb, "/-- `type %s struct` (%s): its fields -/\ndef %s : List String := %s\n\n", a[0], fNum, a[1], leanStrList(fields))
			} else {
				sb.WriteString(untranslatable(a[1]) + "\n")
			}
		}

		// ---- counter.go
		c.c07Conds(&sb, fCnt, "minSlice", "minSliceConds", "(len count : Int)", map[string]string{"len(items)": "len", "count": "count"}, 1)
		for _, a := range [][3]string{{fCnt, "MatchCounter.Sample", "counterSampleSource"}, {fSub, "SubKeyCounter.Sample", "subKeySampleSource"},
			{fTab, "TableAggregator.Sample", "tableSampleSource"}, {fTab, "TableAggregator.Trim", "trimSource"},
			{fSub, "SubKeyCounter.getOrCreateSubkeyIndex", "subkeyIndexSource"}, {fSub, "insertAlphanumeric", "insertAlphanumericSource"}} {
			if fd := c.Func(a[0], a[1]); fd != nil && fd.Body != nil {
				fmt.Fprintf(&sb, "/-- `%s` (%s): its statements -/\ndef %s : List String := %s\n\n", a[1], a[0], a[2], leanStrList(c07stmtText(c, fd.Body.List)))
			} else {
				sb.WriteString(untranslatable(a[2]) + "\n")
			}
		}

		// ---- table.go ComputeMinMax
		if fd := c.Func(fTab, "TableAggregator.ComputeMinMax"); fd != nil && fd.Body != nil && len(c07ifs(fd.Body)) == 3 {
			t := c.c07new(map[string]string{"len(s.rows)": "nrows", "len(s.cols)": "ncols", "val": "val", "min": "mn", "max": "mx"})
			ifs := c07ifs(fd.Body)
			empty := t.boolExpr(ifs[0].Cond)
			// min, max = math.MaxInt64, math.MinInt64
			init := ""
			for _, s := range fd.Body.List {
				if as, ok := s.(*ast.AssignStmt); ok && len(as.Lhs) == 2 && len(as.Rhs) == 2 && t.txt(as.Lhs[0]) == "min" && t.txt(as.Lhs[1]) == "max" {
					init = "(" + t.intExpr(as.Rhs[0]) + ", " + t.intExpr(as.Rhs[1]) + ")"
				}
			}
			if init == "" {
				t.ok, t.why = false, "min, max = …"
			}
			t.emit(&sb, "`ComputeMinMax`: the empty-table test", "minMaxEmpty (nrows ncols : Int) : Bool", empty)
			t.emit(&sb, "`ComputeMinMax`: the start values of `min`, `max`", "minMaxInit : Int × Int", init)
			for _, is := range ifs[1:] {
				if len(is.Body.List) != 1 || is.Else != nil {
					t.fail(is)
					continue
				}
				if as, ok := is.Body.List[0].(*ast.AssignStmt); ok {
					t.assign(as, "int", t.boolExpr(is.Cond))
				} else {
					t.fail(is)
				}
			}
			t.emit(&sb, "`ComputeMinMax`: the two guarded assignments of the inner loop; answer = (min, max)", "minMaxStep (mn mx val : Int) : Int × Int", "("+t.cur("mn")+", "+t.cur("mx")+")")
		} else {
			sb.WriteString(untranslatable("minMaxEmpty") + "\n" + untranslatable("minMaxInit") + "\n" + untranslatable("minMaxStep") + "\n")
		}

		// ---- accumulator.go
		if fd := c.Func(fAcc, "AccumulatingGroup.buildGroupKey"); fd != nil && fd.Body != nil && len(c07ifs(fd.Body)) == 3 {
			t := c.c07new(map[string]string{"len(s.groupDef)": "n", "i": "i"})
			ifs := c07ifs(fd.Body)
			cs := []string{t.boolExpr(ifs[0].Cond), t.boolExpr(ifs[1].Cond)}
			t.emit(&sb, "`buildGroupKey`: the tests on the number of group expressions, in order", "groupKeyArity (n : Int) : List Bool", "["+strings.Join(cs, ", ")+"]")
			sep := t.boolExpr(ifs[2].Cond)
			what := ""
			if len(ifs[2].Body.List) == 1 {
				what = t.txt(ifs[2].Body.List[0])
			}
			if what != "sb.WriteRune(expressions.ArraySeparator)" {
				t.ok, t.why = false, "the guarded statement is "+what
			}
			t.emit(&sb, "`buildGroupKey`: when the loop writes the separator before part `i`", "groupKeySep (i : Int) : Bool", sep)
		} else {
			sb.WriteString(untranslatable("groupKeyArity") + "\n" + untranslatable("groupKeySep") + "\n")
		}
		if fd := c.Func(fAcc, "GroupKey.Parts"); fd != nil && fd.Body != nil {
			fmt.Fprintf(&sb, "/-- `GroupKey.Parts`: its statements -/\ndef partsSource : List String := %s\n\n", leanStrList(c07stmtText(c, fd.Body.List)))
		} else {
			sb.WriteString(untranslatable("partsSource") + "\n")
		}
		for _, a := range [][2]string{{"exprAccumulatorContext.GetMatch", "accGetMatch"}, {"accumulatorGroupSortContext.GetMatch", "sortGetMatch"}} {
			fd := c.Func(fAcc, a[0])
			if fd == nil || fd.Body == nil {
				sb.WriteString(untranslatable(a[1]+"Loop") + "\n")
				continue
			}
			t := c.c07new(map[string]string{"idx": "idx", "i": "i"})
			var loop *ast.ForStmt
			ast.Inspect(fd.Body, func(n ast.Node) bool {
				if f, ok := n.(*ast.ForStmt); ok {
					loop = f
				}
				return true
			})
			if loop == nil || loop.Cond == nil || loop.Init == nil || loop.Post == nil {
				t.ok, t.why = false, "for loop"
				t.emit(&sb, "", a[1]+"Loop (i idx : Int) : Bool", "false")
				continue
			}
			cond := t.boolExpr(loop.Cond)
			hdr := t.txt(loop.Init) + ";" + t.txt(loop.Post)
			if hdr != "i:=0;i++" {
				t.ok, t.why = false, hdr
			}
			t.emit(&sb, fmt.Sprintf("`%s`: the condition of `for i := 0; …; i++`", a[0]), a[1]+"Loop (i idx : Int) : Bool", cond)
			if a[1] == "accGetMatch" {
				c.c07Conds(&sb, fAcc, a[0], "accGetMatchConds", "(idx : Int) (done : Bool)", map[string]string{"idx": "idx", "splitter.Done()": "done"}, 2)
			} else {
				c.c07Conds(&sb, fAcc, a[0], "sortGetMatchConds", "(done : Bool)", map[string]string{"splitter.Done()": "done"}, 1)
			}
		}
		sb.WriteString("end Rare.Gen.C07\n")
		return sb.String()
	})
}
