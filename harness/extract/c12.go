package main

import (
	"fmt"
	"go/ast"
	"go/token"
	"strings"
)

// C12: the pool sizing of pkg/matchers/dissect (CreateInstance's NewIntPool argument and
// FindSubmatchIndex's Get argument, as functions of groupCount) and the needles CompileEx
// searches for, regenerated from the Go source on every run (lean/Rare/Gen/C12.lean).
// Props/C12.lean proves `gen_pool_sizing` about these definitions, so a changed sizing
// expression or needle breaks a proof.

// c12Arith translates an int expression over `s.groupCount`, literals, + and * to Lean (Nat).
func c12Arith(e ast.Expr) (string, bool) {
	switch x := e.(type) {
	case *ast.ParenExpr:
		s, ok := c12Arith(x.X)
		return "(" + s + ")", ok
	case *ast.BasicLit:
		if x.Kind == token.INT {
			if v, ok := IntLit(x); ok && v >= 0 {
				return fmt.Sprint(v), true
			}
		}
	case *ast.SelectorExpr:
		if x.Sel.Name == "groupCount" {
			return "groupCount", true
		}
	case *ast.BinaryExpr:
		if x.Op == token.ADD || x.Op == token.MUL {
			a, ok1 := c12Arith(x.X)
			b, ok2 := c12Arith(x.Y)
			op := "+"
			if x.Op == token.MUL {
				op = "*"
			}
			return "(" + a + " " + op + " " + b + ")", ok1 && ok2
		}
	}
	return "", false
}

// c12CallArgs: first argument of every call whose selector name is `sel` inside fd, in source order.
func c12CallArgs(fd *ast.FuncDecl, sel string) []ast.Expr {
	var out []ast.Expr
	if fd == nil {
		return nil
	}
	ast.Inspect(fd, func(n ast.Node) bool {
		if call, ok := n.(*ast.CallExpr); ok {
			if s, ok := call.Fun.(*ast.SelectorExpr); ok && s.Sel.Name == sel && len(call.Args) > 0 {
				out = append(out, call.Args[len(call.Args)-1])
			}
		}
		return true
	})
	return out
}

func init() {
	RegisterGen("C12", func(c *Ctx) string {
		const file = "pkg/matchers/dissect/dissect.go"
		var sb strings.Builder
		sb.WriteString("namespace Rare.Gen.C12\n\n")
		for _, fn := range []string{"CompileEx", "Dissect.CreateInstance", "DissectInstance.FindSubmatchIndex"} {
			c.Fingerprint(file, fn)
		}
		c.Fingerprint("pkg/matchers/dissect/case.go", "indexIgnoreCase")
		c.Fingerprint("pkg/matchers/dissect/case.go", "lowerByte")
		c.Fingerprint("pkg/slicepool/intpool.go", "IntPool.Get")

		emit := func(name string, args []ast.Expr) {
			if len(args) == 1 {
				if s, ok := c12Arith(args[0]); ok {
					fmt.Fprintf(&sb, "def %s (groupCount : Nat) : Nat := %s\n\n", name, s)
					return
				}
			}
			sb.WriteString(untranslatable(name) + "\n")
		}
		emit("poolSize", c12CallArgs(c.Func(file, "Dissect.CreateInstance"), "NewIntPool"))
		emit("getSize", c12CallArgs(c.Func(file, "DissectInstance.FindSubmatchIndex"), "Get"))

		// needles of the strings.Index calls of CompileEx, in source order
		var needles []string
		ok := true
		for _, a := range c12CallArgs(c.Func(file, "CompileEx"), "Index") {
			s, isLit := StringLit(a)
			ok = ok && isLit
			needles = append(needles, s)
		}
		if ok && len(needles) > 0 {
			parts := make([]string, len(needles))
			for i, s := range needles {
				bs := make([]string, len(s))
				for j := 0; j < len(s); j++ {
					bs[j] = fmt.Sprint(s[j])
				}
				parts[i] = "[" + strings.Join(bs, ", ") + "]"
			}
			fmt.Fprintf(&sb, "def compileNeedles : List (List UInt8) := [%s]\n\n", strings.Join(parts, ", "))
		} else {
			sb.WriteString(untranslatable("compileNeedles") + "\n")
		}
		sb.WriteString("end Rare.Gen.C12\n")
		return sb.String()
	})
}
