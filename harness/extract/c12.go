package main

import (
	"fmt"
	"go/ast"
	"go/token"
	"os"
	"os/exec"
	"path/filepath"
	"runtime"
	"strings"
)

// C12: the pool sizing of pkg/matchers/dissect (CreateInstance's NewIntPool argument and
// FindSubmatchIndex's Get argument, as functions of groupCount) and the needles CompileEx
// searches for, regenerated from the Go source on every run (lean/Rare/Gen/C12.lean).
// Props/C12.lean proves `gen_pool_sizing` about these definitions, so a changed sizing
// expression or needle breaks a proof.
//
// Round 3: the shape of CompileEx itself – every `strings.*Index*` search with its function name and
// needle (string or char literal), every slice expression and every branch condition (if / else if /
// switch case), printed in source order (`compileSearches`, `compileSlices`, `compileConds`).
// `compile_code_matches_source` pins them to what `compileStep` of the model mirrors, so a search
// for a different needle (or with a different function), a shifted slice bound or a changed branch
// condition breaks a proof even when no generated input distinguishes the two.

// c12Needle: a string or char literal as bytes.
func c12Needle(e ast.Expr) ([]byte, bool) {
	if s, ok := StringLit(e); ok {
		return []byte(s), true
	}
	return nil, false
}

func c12Bytes(b []byte) string {
	bs := make([]string, len(b))
	for j := range b {
		bs[j] = fmt.Sprint(b[j])
	}
	return "[" + strings.Join(bs, ", ") + "]"
}

// c12Shape emits compileSearches / compileSlices / compileConds for fd.
func c12Shape(c *Ctx, fd *ast.FuncDecl, sb *strings.Builder) {
	if fd == nil || fd.Body == nil {
		sb.WriteString(untranslatable("compileSearches") + "\n")
		sb.WriteString(untranslatable("compileSlices") + "\n")
		sb.WriteString(untranslatable("compileConds") + "\n")
		return
	}
	var searches, slices, conds []string
	okSearch := true
	ast.Inspect(fd.Body, func(n ast.Node) bool {
		switch x := n.(type) {
		case *ast.CallExpr:
			if s, ok := x.Fun.(*ast.SelectorExpr); ok && strings.Contains(s.Sel.Name, "Index") && len(x.Args) > 0 {
				nd, isLit := c12Needle(x.Args[len(x.Args)-1])
				okSearch = okSearch && isLit
				searches = append(searches, fmt.Sprintf("(%s, %s)", leanStr(c.Print(x.Fun)), c12Bytes(nd)))
			}
		case *ast.SliceExpr:
			slices = append(slices, c.Print(x))
		case *ast.IfStmt:
			cond := c.Print(x.Cond)
			if x.Init != nil {
				cond = c.Print(x.Init) + "; " + cond
			}
			conds = append(conds, cond)
		case *ast.CaseClause:
			for _, e := range x.List {
				conds = append(conds, c.Print(e))
			}
		case *ast.ForStmt:
			if x.Cond != nil {
				conds = append(conds, c.Print(x.Cond))
			}
		}
		return true
	})
	if okSearch {
		fmt.Fprintf(sb, "def compileSearches : List (String × List UInt8) := [%s]\n\n", strings.Join(searches, ", "))
	} else {
		sb.WriteString(untranslatable("compileSearches") + "\n")
	}
	fmt.Fprintf(sb, "def compileSlices : List String := %s\n\n", leanStrList(slices))
	fmt.Fprintf(sb, "def compileConds : List String := %s\n\n", leanStrList(conds))
}

// c12Arith translates an int expression over `s.groupCount`, literals, + and * to Lean (Nat).
func c12Arith(e ast.Expr) (string, bool) {
	switch x := e.(type) {
	case *ast.ParenExpr:
		s, ok := c12Arith(x.X)
		return "(" + s + ")", ok
	case *ast.BasicLit:
		if x.Kind == token.INT {
			if v, ok := IntLit(x); ok && v >= 0 {
				return fmt.Sprint(v), true
			}
		}
	case *ast.SelectorExpr:
		if x.Sel.Name == "groupCount" {
			return "groupCount", true
		}
	case *ast.BinaryExpr:
		if x.Op == token.ADD || x.Op == token.MUL {
			a, ok1 := c12Arith(x.X)
			b, ok2 := c12Arith(x.Y)
			op := "+"
			if x.Op == token.MUL {
				op = "*"
			}
			return "(" + a + " " + op + " " + b + ")", ok1 && ok2
		}
	}
	return "", false
}

// c12CallArgs: first argument of every call whose selector name is `sel` inside fd, in source order.
func c12CallArgs(fd *ast.FuncDecl, sel string) []ast.Expr {
	var out []ast.Expr
	if fd == nil {
		return nil
	}
	ast.Inspect(fd, func(n ast.Node) bool {
		if call, ok := n.(*ast.CallExpr); ok {
			if s, ok := call.Fun.(*ast.SelectorExpr); ok && s.Sel.Name == sel && len(call.Args) > 0 {
				out = append(out, call.Args[len(call.Args)-1])
			}
		}
		return true
	})
	return out
}


// ---- round 4: statement skeletons, receiver access tables, lowerByte as a Lean function

// c12Skeleton prints a function body statement by statement in source order: assignments and
// inc/dec ("lhs op rhs"), branch and loop heads, case clauses, returns, break/continue, expression
// statements.  Nested blocks are entered; the text of every expression is kept, so the list pins the
// control flow AND the index arithmetic.
func c12Skeleton(c *Ctx, fd *ast.FuncDecl) ([]string, bool) {
	if fd == nil || fd.Body == nil {
		return nil, false
	}
	var out []string
	var walk func(st ast.Stmt)
	block := func(b *ast.BlockStmt) {
		if b != nil {
			for _, st := range b.List {
				walk(st)
			}
		}
	}
	walk = func(st ast.Stmt) {
		switch x := st.(type) {
		case *ast.AssignStmt, *ast.IncDecStmt, *ast.ReturnStmt, *ast.BranchStmt, *ast.ExprStmt, *ast.DeclStmt:
			out = append(out, strings.Join(strings.Fields(c.Print(x)), " "))
		case *ast.IfStmt:
			h := "if "
			if x.Init != nil {
				h += c.Print(x.Init) + "; "
			}
			out = append(out, h+c.Print(x.Cond))
			block(x.Body)
			if x.Else != nil {
				out = append(out, "else")
				walk(x.Else)
			}
			out = append(out, "end")
		case *ast.BlockStmt:
			block(x)
		case *ast.ForStmt:
			h := "for "
			if x.Init != nil {
				h += c.Print(x.Init)
			}
			h += "; "
			if x.Cond != nil {
				h += c.Print(x.Cond)
			}
			h += "; "
			if x.Post != nil {
				h += c.Print(x.Post)
			}
			out = append(out, h)
			block(x.Body)
			out = append(out, "end")
		case *ast.RangeStmt:
			h := "range"
			if x.Key != nil {
				h += " " + c.Print(x.Key)
			}
			if x.Value != nil {
				h += ", " + c.Print(x.Value)
			}
			out = append(out, h+" := "+c.Print(x.X))
			block(x.Body)
			out = append(out, "end")
		case *ast.SwitchStmt:
			h := "switch"
			if x.Tag != nil {
				h += " " + c.Print(x.Tag)
			}
			out = append(out, h)
			for _, cc := range x.Body.List {
				cl := cc.(*ast.CaseClause)
				if cl.List == nil {
					out = append(out, "default")
				} else {
					es := make([]string, len(cl.List))
					for i, e := range cl.List {
						es[i] = c.Print(e)
					}
					out = append(out, "case "+strings.Join(es, ", "))
				}
				for _, b := range cl.Body {
					walk(b)
				}
			}
			out = append(out, "end")
		default:
			out = append(out, "?"+strings.Join(strings.Fields(c.Print(st)), " "))
		}
	}
	block(fd.Body)
	return out, true
}

// c12RootIdent: the identifier an lvalue / selector chain starts with (ret[idx+1] -> ret, s.pool -> s).
func c12RootIdent(e ast.Expr) string {
	for {
		switch x := e.(type) {
		case *ast.Ident:
			return x.Name
		case *ast.SelectorExpr:
			e = x.X
		case *ast.IndexExpr:
			e = x.X
		case *ast.SliceExpr:
			e = x.X
		case *ast.ParenExpr:
			e = x.X
		case *ast.StarExpr:
			e = x.X
		default:
			return ""
		}
	}
}

// c12Access: what a method does THROUGH ITS RECEIVER: the lvalues it assigns (writes) and the
// methods / function-valued fields it calls, in source order.
func c12Access(c *Ctx, fd *ast.FuncDecl) (writes, calls []string, ok bool) {
	if fd == nil || fd.Recv == nil || len(fd.Recv.List) == 0 || len(fd.Recv.List[0].Names) == 0 {
		return nil, nil, false
	}
	recv := fd.Recv.List[0].Names[0].Name
	ast.Inspect(fd.Body, func(n ast.Node) bool {
		switch x := n.(type) {
		case *ast.AssignStmt:
			for _, l := range x.Lhs {
				if _, plain := l.(*ast.Ident); !plain && c12RootIdent(l) == recv {
					writes = append(writes, c.Print(l))
				}
			}
		case *ast.IncDecStmt:
			if _, plain := x.X.(*ast.Ident); !plain && c12RootIdent(x.X) == recv {
				writes = append(writes, c.Print(x.X))
			}
		case *ast.CallExpr:
			if c12RootIdent(x.Fun) == recv {
				calls = append(calls, c.Print(x.Fun))
			}
		}
		return true
	})
	return writes, calls, true
}

// c12ByteExpr translates a byte-valued / boolean Go expression over one parameter, char and int
// literals, + - and comparisons joined by && || to Lean (UInt8 arithmetic, Prop connectives).
func c12ByteExpr(e ast.Expr, param string) (string, bool) {
	switch x := e.(type) {
	case *ast.ParenExpr:
		s, ok := c12ByteExpr(x.X, param)
		return "(" + s + ")", ok
	case *ast.Ident:
		if x.Name == param {
			return "c", true
		}
	case *ast.BasicLit:
		if v, ok := IntLit(x); ok && v >= 0 && v < 256 {
			return fmt.Sprint(v), true
		}
	case *ast.BinaryExpr:
		ops := map[token.Token]string{token.ADD: "+", token.SUB: "-", token.LEQ: "≤", token.LSS: "<", token.GEQ: "≥",
			token.GTR: ">", token.LAND: "∧", token.LOR: "∨", token.EQL: "=", token.NEQ: "≠"}
		if op, ok := ops[x.Op]; ok {
			a, ok1 := c12ByteExpr(x.X, param)
			b, ok2 := c12ByteExpr(x.Y, param)
			return "(" + a + " " + op + " " + b + ")", ok1 && ok2
		}
	}
	return "", false
}

// c12LowerByte: `func lowerByte(c byte) byte { if COND { return A }; return B }` as a Lean function.
func c12LowerByte(fd *ast.FuncDecl) (string, bool) {
	if fd == nil || fd.Body == nil || len(fd.Body.List) != 2 || fd.Type.Params == nil || len(fd.Type.Params.List) != 1 ||
		len(fd.Type.Params.List[0].Names) != 1 {
		return "", false
	}
	param := fd.Type.Params.List[0].Names[0].Name
	ifs, ok1 := fd.Body.List[0].(*ast.IfStmt)
	ret, ok2 := fd.Body.List[1].(*ast.ReturnStmt)
	if !ok1 || !ok2 || ifs.Init != nil || ifs.Else != nil || len(ifs.Body.List) != 1 || len(ret.Results) != 1 {
		return "", false
	}
	r1, ok3 := ifs.Body.List[0].(*ast.ReturnStmt)
	if !ok3 || len(r1.Results) != 1 {
		return "", false
	}
	cond, okc := c12ByteExpr(ifs.Cond, param)
	a, oka := c12ByteExpr(r1.Results[0], param)
	b, okb := c12ByteExpr(ret.Results[0], param)
	if !(okc && oka && okb) {
		return "", false
	}
	return fmt.Sprintf("def lowerByte (c : UInt8) : UInt8 := if %s then %s else %s\n\n", cond, a, b), true
}

// ---- round 4b: the STATE of the types (struct fields) and the inventory of functions per file

// c12StructFields: the fields of struct type `name` in source order, "field type" each (an embedded
// field is its type alone).  What an instance can remember between two calls is exactly this list.
func c12StructFields(c *Ctx, rel, name string) ([]string, bool) {
	f := c.File(rel)
	if f == nil {
		return nil, false
	}
	for _, d := range f.Decls {
		gd, ok := d.(*ast.GenDecl)
		if !ok {
			continue
		}
		for _, s := range gd.Specs {
			ts, ok := s.(*ast.TypeSpec)
			if !ok || ts.Name.Name != name {
				continue
			}
			st, ok := ts.Type.(*ast.StructType)
			if !ok {
				return nil, false
			}
			var out []string
			for _, fl := range st.Fields.List {
				t := strings.Join(strings.Fields(c.Print(fl.Type)), " ")
				if len(fl.Names) == 0 {
					out = append(out, t)
				}
				for _, n := range fl.Names {
					out = append(out, n.Name+" "+t)
				}
			}
			return out, true
		}
	}
	return nil, false
}

// c12Decls: every function and method a file declares ("Recv.Name" for methods), in source order,
// and its package-level variables – a helper or a package-level cache added next to the mirrored
// functions shows up here even when no mirrored function changes its text.
func c12Decls(c *Ctx, rel string) ([]string, bool) {
	f := c.File(rel)
	if f == nil {
		return nil, false
	}
	var out []string
	for _, d := range f.Decls {
		switch x := d.(type) {
		case *ast.FuncDecl:
			n := x.Name.Name
			if x.Recv != nil && len(x.Recv.List) > 0 {
				t := x.Recv.List[0].Type
				if st, ok := t.(*ast.StarExpr); ok {
					t = st.X
				}
				n = c.Print(t) + "." + n
			}
			out = append(out, n)
		case *ast.GenDecl:
			if x.Tok == token.VAR {
				for _, s := range x.Specs {
					if vs, ok := s.(*ast.ValueSpec); ok {
						for _, nm := range vs.Names {
							out = append(out, "var "+nm.Name)
						}
					}
				}
			}
		}
	}
	return out, true
}

// c12Goroot: a second context rooted at the source tree of the Go TOOLCHAIN that builds the harness
// and `rare` (GOROOT/src).  The model mirrors `internal/stringslite.Index`, `bytealg.IndexRabinKarp`,
// `bytealg.HashStr` and the amd64 constants from there; these are not part of /repo but the model
// relies on their text, so they are regenerated and pinned like the functions of /repo (a toolchain
// upgrade that changes the search breaks `stdlib_index_matches_source` instead of passing silently).
func c12Goroot() *Ctx {
	root := os.Getenv("GOROOT")
	if root == "" {
		root = runtime.GOROOT()
	}
	if root == "" {
		if out, err := exec.Command("go", "env", "GOROOT").Output(); err == nil {
			root = strings.TrimSpace(string(out))
		}
	}
	if root == "" {
		return nil
	}
	return &Ctx{Repo: filepath.Join(root, "src"), fset: token.NewFileSet(), files: map[string]*ast.File{}, Fingerprints: map[string]string{}}
}

// c12ConstNat: a package-level `const NAME = <int literal>`.
func c12ConstNat(c *Ctx, rel, name string) (int64, bool) {
	if e := c.Var(rel, name); e != nil {
		return IntLit(e)
	}
	return 0, false
}

func c12EmitStdlib(sb *strings.Builder) {
	g := c12Goroot()
	const sl, ba, amd = "internal/stringslite/strings.go", "internal/bytealg/bytealg.go", "internal/bytealg/index_amd64.go"
	for _, t := range []struct{ def, file, fn string }{
		{"stdIndexSkeleton", sl, "Index"}, {"stdRabinKarpSkeleton", ba, "IndexRabinKarp"},
		{"stdHashStrSkeleton", ba, "HashStr"}, {"stdCutoverSkeleton", amd, "Cutover"}, {"stdAmd64InitSkeleton", amd, "init"}} {
		if g == nil {
			sb.WriteString(untranslatable(t.def) + "\n")
			continue
		}
		sk, ok := c12Skeleton(g, g.Func(t.file, t.fn))
		c12EmitList(sb, t.def, sk, ok)
	}
	for _, t := range []struct{ def, file, name string }{{"stdPrimeRK", ba, "PrimeRK"}, {"stdMaxBruteForce", amd, "MaxBruteForce"}} {
		if g != nil {
			if v, ok := c12ConstNat(g, t.file, t.name); ok && v >= 0 {
				fmt.Fprintf(sb, "def %s : Nat := %d\n\n", t.def, v)
				continue
			}
		}
		sb.WriteString(untranslatable(t.def) + "\n")
	}
	fmt.Fprintf(sb, "def stdGoVersion : String := %s\n\n", leanStr(runtime.Version()))
}

func c12EmitList(sb *strings.Builder, name string, l []string, ok bool) {
	if !ok {
		sb.WriteString(untranslatable(name) + "\n")
		return
	}
	fmt.Fprintf(sb, "def %s : List String := %s\n\n", name, leanStrList(l))
}

func init() {
	RegisterGen("C12", func(c *Ctx) string {
		const file = "pkg/matchers/dissect/dissect.go"
		var sb strings.Builder
		sb.WriteString("namespace Rare.Gen.C12\n\n")
		for _, fn := range []string{"CompileEx", "Dissect.CreateInstance", "DissectInstance.FindSubmatchIndex"} {
			c.Fingerprint(file, fn)
		}
		c.Fingerprint("pkg/matchers/dissect/case.go", "indexIgnoreCase")
		c.Fingerprint("pkg/matchers/dissect/case.go", "lowerByte")
		c.Fingerprint("pkg/slicepool/intpool.go", "IntPool.Get")

		emit := func(name string, args []ast.Expr) {
			if len(args) == 1 {
				if s, ok := c12Arith(args[0]); ok {
					fmt.Fprintf(&sb, "def %s (groupCount : Nat) : Nat := %s\n\n", name, s)
					return
				}
			}
			sb.WriteString(untranslatable(name) + "\n")
		}
		emit("poolSize", c12CallArgs(c.Func(file, "Dissect.CreateInstance"), "NewIntPool"))
		emit("getSize", c12CallArgs(c.Func(file, "DissectInstance.FindSubmatchIndex"), "Get"))

		// needles of the strings.Index calls of CompileEx, in source order
		var needles []string
		ok := true
		for _, a := range c12CallArgs(c.Func(file, "CompileEx"), "Index") {
			s, isLit := StringLit(a)
			ok = ok && isLit
			needles = append(needles, s)
		}
		if ok && len(needles) > 0 {
			parts := make([]string, len(needles))
			for i, s := range needles {
				bs := make([]string, len(s))
				for j := 0; j < len(s); j++ {
					bs[j] = fmt.Sprint(s[j])
				}
				parts[i] = "[" + strings.Join(bs, ", ") + "]"
			}
			fmt.Fprintf(&sb, "def compileNeedles : List (List UInt8) := [%s]\n\n", strings.Join(parts, ", "))
		} else {
			sb.WriteString(untranslatable("compileNeedles") + "\n")
		}
		c12Shape(c, c.Func(file, "CompileEx"), &sb)

		// round 4: the match loop, the case-insensitive search and the pool, statement by statement
		c.Fingerprint("pkg/matchers/dissect/case.go", "lowerASCII")
		const caseFile, poolFile = "pkg/matchers/dissect/case.go", "pkg/slicepool/intpool.go"
		sk, ok := c12Skeleton(c, c.Func(file, "DissectInstance.FindSubmatchIndex"))
		c12EmitList(&sb, "findSkeleton", sk, ok)
		sk, ok = c12Skeleton(c, c.Func(file, "CompileEx"))
		c12EmitList(&sb, "compileSkeleton", sk, ok)
		sk, ok = c12Skeleton(c, c.Func(caseFile, "indexIgnoreCase"))
		c12EmitList(&sb, "icSkeleton", sk, ok)
		sk, ok = c12Skeleton(c, c.Func(caseFile, "lowerASCII"))
		c12EmitList(&sb, "lowerASCIISkeleton", sk, ok)
		sk, ok = c12Skeleton(c, c.Func(poolFile, "IntPool.Get"))
		c12EmitList(&sb, "poolGetSkeleton", sk, ok)
		sk, ok = c12Skeleton(c, c.Func(file, "Dissect.CreateInstance"))
		c12EmitList(&sb, "createInstanceSkeleton", sk, ok)
		w, calls, ok := c12Access(c, c.Func(file, "DissectInstance.FindSubmatchIndex"))
		c12EmitList(&sb, "findReceiverWrites", w, ok)
		c12EmitList(&sb, "findReceiverCalls", calls, ok)
		w, _, ok = c12Access(c, c.Func(poolFile, "IntPool.Get"))
		c12EmitList(&sb, "poolGetReceiverWrites", w, ok)
		// round 4b: state and inventory
		for _, t := range []struct{ def, file, typ string }{
			{"instanceFields", file, "DissectInstance"}, {"dissectFields", file, "Dissect"},
			{"tokenFields", file, "token"}, {"intPoolFields", poolFile, "IntPool"}} {
			fl, ok := c12StructFields(c, t.file, t.typ)
			c12EmitList(&sb, t.def, fl, ok)
		}
		for _, t := range []struct{ def, file string }{{"dissectDecls", file}, {"caseDecls", caseFile}, {"intPoolDecls", poolFile}} {
			dl, ok := c12Decls(c, t.file)
			c12EmitList(&sb, t.def, dl, ok)
		}
		// the small functions around the mirrored ones, statement by statement
		for _, t := range []struct{ def, file, fn string }{
			{"newIntPoolSkeleton", poolFile, "NewIntPool"}, {"nameTableSkeleton", file, "Dissect.SubexpNameTable"},
			{"compileFnSkeleton", file, "Compile"}, {"mustCompileSkeleton", file, "MustCompile"},
			{"toFactorySkeleton", "pkg/matchers/factory.go", "ToFactory"},
			{"factoryCreateSkeleton", "pkg/matchers/factory.go", "factoryWrapper.CreateInstance"},
			// round 4c: how the CLI gets its matcher (-d / -m / -I): the dissect arm hands the -I flag to CompileEx,
			// the regex arm puts "(?i)" in front of the expression
			{"matcherWiringSkeleton", "cmd/helpers/extractorBuilder.go", "BuildMatcherFromArguments"}} {
			c.Fingerprint(t.file, t.fn)
			sk, ok := c12Skeleton(c, c.Func(t.file, t.fn))
			c12EmitList(&sb, t.def, sk, ok)
		}
		c12EmitStdlib(&sb)
		if lb, ok := c12LowerByte(c.Func(caseFile, "lowerByte")); ok {
			sb.WriteString(lb)
		} else {
			sb.WriteString(untranslatable("lowerByte") + "\n")
		}
		sb.WriteString("end Rare.Gen.C12\n")
		return sb.String()
	})
}
