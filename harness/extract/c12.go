package main

import (
	"fmt"
	"go/ast"
	"go/token"
	"strings"
)

// C12: the pool sizing of pkg/matchers/dissect (CreateInstance's NewIntPool argument and
// FindSubmatchIndex's Get argument, as functions of groupCount) and the needles CompileEx
// searches for, regenerated from the Go source on every run (lean/Rare/Gen/C12.lean).
// Props/C12.lean proves `gen_pool_sizing` about these definitions, so a changed sizing
// expression or needle breaks a proof.
//
// Round 3: the shape of CompileEx itself – every `strings.*Index*` search with its function name and
// needle (string or char literal), every slice expression and every branch condition (if / else if /
// switch case), printed in source order (`compileSearches`, `compileSlices`, `compileConds`).
// `compile_code_matches_source` pins them to what `compileStep` of the model mirrors, so a search
// for a different needle (or with a different function), a shifted slice bound or a changed branch
// condition breaks a proof even when no generated input distinguishes the two.

// c12Needle: a string or char literal as bytes.
func c12Needle(e ast.Expr) ([]byte, bool) {
	if s, ok := StringLit(e); ok {
		return []byte(s), true
	}
	return nil, false
}

func c12Bytes(b []byte) string {
	bs := make([]string, len(b))
	for j := range b {
		bs[j] = fmt.Sprint(b[j])
	}
	return "[" + strings.Join(bs, ", ") + "]"
}

// c12Shape emits compileSearches / compileSlices / compileConds for fd.
func c12Shape(c *Ctx, fd *ast.FuncDecl, sb *strings.Builder) {
	if fd == nil || fd.Body == nil {
		sb.WriteString(untranslatable("compileSearches") + "\n")
		sb.WriteString(untranslatable("compileSlices") + "\n")
		sb.WriteString(untranslatable("compileConds") + "\n")
		return
	}
	var searches, slices, conds []string
	okSearch := true
	ast.Inspect(fd.Body, func(n ast.Node) bool {
		switch x := n.(type) {
		case *ast.CallExpr:
			if s, ok := x.Fun.(*ast.SelectorExpr); ok && strings.Contains(s.Sel.Name, "Index") && len(x.Args) > 0 {
				nd, isLit := c12Needle(x.Args[len(x.Args)-1])
				okSearch = okSearch && isLit
				searches = append(searches, fmt.Sprintf("(%s, %s)", leanStr(c.Print(x.Fun)), c12Bytes(nd)))
			}
		case *ast.SliceExpr:
			slices = append(slices, c.Print(x))
		case *ast.IfStmt:
			cond := c.Print(x.Cond)
			if x.Init != nil {
				cond = c.Print(x.Init) + "; " + cond
			}
			conds = append(conds, cond)
		case *ast.CaseClause:
			for _, e := range x.List {
				conds = append(conds, c.Print(e))
			}
		case *ast.ForStmt:
			if x.Cond != nil {
				conds = append(conds, c.Print(x.Cond))
			}
		}
		return true
	})
	if okSearch {
		fmt.Fprintf(sb, "def compileSearches : List (String × List UInt8) := [%s]\n\n", strings.Join(searches, ", "))
	} else {
		sb.WriteString(untranslatable("compileSearches") + "\n")
	}
	fmt.Fprintf(sb, "def compileSlices : List String := %s\n\n", leanStrList(slices))
	fmt.Fprintf(sb, "def compileConds : List String := %s\n\n", leanStrList(conds))
}

// c12Arith translates an int expression over `s.groupCount`, literals, + and * to Lean (Nat).
func c12Arith(e ast.Expr) (string, bool) {
	switch x := e.(type) {
	case *ast.ParenExpr:
		s, ok := c12Arith(x.X)
		return "(" + s + ")", ok
	case *ast.BasicLit:
		if x.Kind == token.INT {
			if v, ok := IntLit(x); ok && v >= 0 {
				return fmt.Sprint(v), true
			}
		}
	case *ast.SelectorExpr:
		if x.Sel.Name == "groupCount" {
			return "groupCount", true
		}
	case *ast.BinaryExpr:
		if x.Op == token.ADD || x.Op == token.MUL {
			a, ok1 := c12Arith(x.X)
			b, ok2 := c12Arith(x.Y)
			op := "+"
			if x.Op == token.MUL {
				op = "*"
			}
			return "(" + a + " " + op + " " + b + ")", ok1 && ok2
		}
	}
	return "", false
}

// c12CallArgs: first argument of every call whose selector name is `sel` inside fd, in source order.
func c12CallArgs(fd *ast.FuncDecl, sel string) []ast.Expr {
	var out []ast.Expr
	if fd == nil {
		return nil
	}
	ast.Inspect(fd, func(n ast.Node) bool {
		if call, ok := n.(*ast.CallExpr); ok {
			if s, ok := call.Fun.(*ast.SelectorExpr); ok && s.Sel.Name == sel && len(call.Args) > 0 {
				out = append(out, call.Args[len(call.Args)-1])
			}
		}
		return true
	})
	return out
}

func init() {
	RegisterGen("C12", func(c *Ctx) string {
		const file = "pkg/matchers/dissect/dissect.go"
		var sb strings.Builder
		sb.WriteString("namespace Rare.Gen.C12\n\n")
		for _, fn := range []string{"CompileEx", "Dissect.CreateInstance", "DissectInstance.FindSubmatchIndex"} {
			c.Fingerprint(file, fn)
		}
		c.Fingerprint("pkg/matchers/dissect/case.go", "indexIgnoreCase")
		c.Fingerprint("pkg/matchers/dissect/case.go", "lowerByte")
		c.Fingerprint("pkg/slicepool/intpool.go", "IntPool.Get")

		emit := func(name string, args []ast.Expr) {
			if len(args) == 1 {
				if s, ok := c12Arith(args[0]); ok {
					fmt.Fprintf(&sb, "def %s (groupCount : Nat) : Nat := %s\n\n", name, s)
					return
				}
			}
			sb.WriteString(untranslatable(name) + "\n")
		}
		emit("poolSize", c12CallArgs(c.Func(file, "Dissect.CreateInstance"), "NewIntPool"))
		emit("getSize", c12CallArgs(c.Func(file, "DissectInstance.FindSubmatchIndex"), "Get"))

		// needles of the strings.Index calls of CompileEx, in source order
		var needles []string
		ok := true
		for _, a := range c12CallArgs(c.Func(file, "CompileEx"), "Index") {
			s, isLit := StringLit(a)
			ok = ok && isLit
			needles = append(needles, s)
		}
		if ok && len(needles) > 0 {
			parts := make([]string, len(needles))
			for i, s := range needles {
				bs := make([]string, len(s))
				for j := 0; j < len(s); j++ {
					bs[j] = fmt.Sprint(s[j])
				}
				parts[i] = "[" + strings.Join(bs, ", ") + "]"
			}
			fmt.Fprintf(&sb, "def compileNeedles : List (List UInt8) := [%s]\n\n", strings.Join(parts, ", "))
		} else {
			sb.WriteString(untranslatable("compileNeedles") + "\n")
		}
		c12Shape(c, c.Func(file, "CompileEx"), &sb)
		sb.WriteString("end Rare.Gen.C12\n")
		return sb.String()
	})
}
