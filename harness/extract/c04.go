package main

import (
	"fmt"
	"go/ast"
	"go/token"
	"strings"
)

// C04: the line scanners of pkg/readahead (immediate.go, buffered.go, util.go).
//
// Two layers are emitted into lean/Rare/Gen/C04.lean for each of ImmediateReadAhead.Scan,
// BufferedReadAhead.Scan, dropCR and maxi:
//
//  1. the control skeleton (labels, ifs with their init statements, loops, gotos, breaks,
//     returns and the text of every simple statement, white space removed) as a `List String`;
//     Props/C04.lean proves it equal to the skeleton the hand model was written against (`rfl`),
//     so any edit of those functions – a reordered statement, a changed guard, a moved
//     `s.end += n` – stops a theorem from compiling;
//
//  2. semantically translated fragments, in source order (pre-order of the statement tree):
//     every `if`/`for` condition as a Bool function (`<fn>_cond_k`), every update of an integer
//     variable as an Int function of the old value and the variables read (`<fn>_set_k`), every
//     slice expression as its bounds (`<fn>_slice_k : Sl`, `cr` = wrapped in dropCR(...)), every
//     `make([]byte, n)` size (`<fn>_make_k`).  Props/C04.lean proves that the hand model's steps
//     (emitAt, emitTail, regrow, readLoop's end computation, the buffered refill size, dropCR …)
//     compute exactly these functions for all states, so an off-by-one in /repo breaks a proof.
//
// Integer expressions: + - are Int + -, `/` is `Int.tdiv` (Go truncates), literals and char
// literals are numerals, `len(x)` is the variable `len_x`, `x[i]` is `x_at i` (an `Int → Int`
// parameter), `maxi(a,b)` refers to the generated `maxi`.  Non-integer tests become Bool
// parameters (`s.eof` → eof, `err != nil` → err_nonnil, `err != io.EOF` → err_not_eof,
// `s.onError != nil` → has_onError).  Anything else makes that fragment `…_untranslatable`.

type c04Param struct{ name, typ string }

type c04tr struct {
	c      *Ctx
	params []c04Param
	ok     bool
}

func (t *c04tr) use(name, typ string) string {
	for _, p := range t.params {
		if p.name == name {
			return name
		}
	}
	t.params = append(t.params, c04Param{name, typ})
	return name
}

func (t *c04tr) txt(n ast.Node) string { return strings.Join(strings.Fields(t.c.Print(n)), "") }

func c04Sanitize(s string) string {
	s = strings.TrimPrefix(s, "s.")
	var sb strings.Builder
	for _, r := range s {
		if r == '_' || (r >= 'a' && r <= 'z') || (r >= 'A' && r <= 'Z') || (r >= '0' && r <= '9') {
			sb.WriteRune(r)
		} else {
			sb.WriteByte('_')
		}
	}
	return sb.String()
}

// leanIdent maps a Go integer variable to the name of the Lean parameter.
func c04IntVar(text string) (string, bool) {
	switch text {
	case "s.offset":
		return "offset", true
	case "s.end":
		return "end_", true
	case "s.bufSize":
		return "bufSize", true
	case "s.maxBufLen":
		return "maxBufLen", true
	case "end":
		return "endL", true
	case "eol", "n", "relIndex", "start", "readOffset", "a", "b", "maxBufLen", "bufSize":
		return text, true
	}
	return "", false
}

func (t *c04tr) intExpr(e ast.Expr) string {
	switch v := e.(type) {
	case *ast.ParenExpr:
		return "(" + t.intExpr(v.X) + ")"
	case *ast.BasicLit:
		if n, ok := IntLit(v); ok && n >= 0 {
			return fmt.Sprint(n)
		}
	case *ast.Ident, *ast.SelectorExpr:
		if name, ok := c04IntVar(t.txt(e)); ok {
			return t.use(name, "Int")
		}
	case *ast.CallExpr:
		fn := t.txt(v.Fun)
		if fn == "len" && len(v.Args) == 1 {
			return t.use("len_"+c04Sanitize(t.txt(v.Args[0])), "Int")
		}
		if fn == "maxi" && len(v.Args) == 2 {
			return fmt.Sprintf("(maxi %s %s)", t.intAtomic(v.Args[0]), t.intAtomic(v.Args[1]))
		}
	case *ast.IndexExpr:
		base := t.txt(v.X)
		if _, isVar := c04IntVar(base); !isVar {
			idx := t.intExpr(v.Index)
			return fmt.Sprintf("(%s (%s))", t.use(c04Sanitize(base)+"_at", "Int → Int"), idx)
		}
	case *ast.BinaryExpr:
		a, b := t.intAtomic(v.X), t.intAtomic(v.Y)
		switch v.Op {
		case token.ADD:
			return a + " + " + b
		case token.SUB:
			return a + " - " + b
		case token.QUO:
			return fmt.Sprintf("Int.tdiv %s %s", a, b)
		}
	}
	t.ok = false
	return "0"
}

// intAtomic parenthesises compound expressions.
func (t *c04tr) intAtomic(e ast.Expr) string {
	s := t.intExpr(e)
	if strings.ContainsAny(s, " ") && !(strings.HasPrefix(s, "(") && strings.HasSuffix(s, ")") && c04Balanced(s[1:len(s)-1])) {
		return "(" + s + ")"
	}
	return s
}

func c04Balanced(s string) bool {
	d := 0
	for _, r := range s {
		if r == '(' {
			d++
		} else if r == ')' {
			d--
			if d < 0 {
				return false
			}
		}
	}
	return d == 0
}

func (t *c04tr) boolExpr(e ast.Expr) string {
	switch v := e.(type) {
	case *ast.ParenExpr:
		return "(" + t.boolExpr(v.X) + ")"
	case *ast.UnaryExpr:
		if v.Op == token.NOT {
			return "(!" + t.boolExpr(v.X) + ")"
		}
	case *ast.SelectorExpr:
		if t.txt(v) == "s.eof" {
			return t.use("eof", "Bool")
		}
	case *ast.BinaryExpr:
		switch v.Op {
		case token.LAND:
			return "(" + t.boolExpr(v.X) + " && " + t.boolExpr(v.Y) + ")"
		case token.LOR:
			return "(" + t.boolExpr(v.X) + " || " + t.boolExpr(v.Y) + ")"
		case token.NEQ:
			switch t.txt(v) {
			case "err!=nil":
				return t.use("err_nonnil", "Bool")
			case "err!=io.EOF":
				return t.use("err_not_eof", "Bool")
			case "s.onError!=nil":
				return t.use("has_onError", "Bool")
			}
			return fmt.Sprintf("decide (%s ≠ %s)", t.intAtomic(v.X), t.intAtomic(v.Y))
		case token.EQL:
			return fmt.Sprintf("decide (%s = %s)", t.intAtomic(v.X), t.intAtomic(v.Y))
		case token.LSS, token.GTR, token.LEQ, token.GEQ:
			op := map[token.Token]string{token.LSS: "<", token.GTR: ">", token.LEQ: "≤", token.GEQ: "≥"}[v.Op]
			return fmt.Sprintf("decide (%s %s %s)", t.intAtomic(v.X), op, t.intAtomic(v.Y))
		}
	}
	t.ok = false
	return "false"
}

func (t *c04tr) sliceExpr(e ast.Expr) string {
	cr := "false"
	if call, ok := e.(*ast.CallExpr); ok && t.txt(call.Fun) == "dropCR" && len(call.Args) == 1 {
		cr = "true"
		e = call.Args[0]
	}
	se, ok := e.(*ast.SliceExpr)
	if !ok || se.Slice3 {
		t.ok = false
		return "⟨false, \"\", 0, 0⟩"
	}
	base := t.txt(se.X)
	lo := "0"
	if se.Low != nil {
		lo = t.intExpr(se.Low)
	}
	var hi string
	if se.High != nil {
		hi = t.intExpr(se.High)
	} else {
		hi = t.use("len_"+c04Sanitize(base), "Int")
	}
	return fmt.Sprintf("⟨%s, %s, %s, %s⟩", cr, leanStr(base), lo, hi)
}

func (t *c04tr) def(sb *strings.Builder, name, typ, body, doc string) {
	if !t.ok {
		fmt.Fprintf(sb, "/-- `%s` -/\n%s\n", doc, untranslatable(name))
		return
	}
	var ps []string
	for _, p := range t.params {
		ps = append(ps, fmt.Sprintf("(%s : %s)", p.name, p.typ))
	}
	sep := ""
	if len(ps) > 0 {
		sep = " "
	}
	fmt.Fprintf(sb, "/-- `%s` -/\ndef %s%s%s : %s := %s\n\n", doc, name, sep, strings.Join(ps, " "), typ, body)
}

// c04Skeleton renders the control structure of a statement list.
func (c *Ctx) c04Skeleton(body []ast.Stmt) []string {
	txt := func(n ast.Node) string { return strings.Join(strings.Fields(c.Print(n)), "") }
	var out []string
	var walk func(s ast.Stmt)
	block := func(l []ast.Stmt) {
		for _, s := range l {
			walk(s)
		}
	}
	var ifs func(v *ast.IfStmt, head string)
	ifs = func(v *ast.IfStmt, head string) {
		cond := txt(v.Cond)
		if v.Init != nil {
			cond = txt(v.Init) + ";" + cond
		}
		out = append(out, head+cond+"{")
		block(v.Body.List)
		switch e := v.Else.(type) {
		case *ast.IfStmt:
			ifs(e, "}elseif:")
			return
		case *ast.BlockStmt:
			out = append(out, "}else{")
			block(e.List)
		}
		out = append(out, "}")
	}
	walk = func(s ast.Stmt) {
		switch v := s.(type) {
		case *ast.LabeledStmt:
			out = append(out, "label:"+v.Label.Name)
			walk(v.Stmt)
		case *ast.EmptyStmt:
		case *ast.BlockStmt:
			out = append(out, "{")
			block(v.List)
			out = append(out, "}")
		case *ast.IfStmt:
			ifs(v, "if:")
		case *ast.ForStmt:
			head := "for:"
			if v.Init != nil {
				head += txt(v.Init)
			}
			head += ";"
			if v.Cond != nil {
				head += txt(v.Cond)
			}
			head += ";"
			if v.Post != nil {
				head += txt(v.Post)
			}
			out = append(out, head+"{")
			block(v.Body.List)
			out = append(out, "}")
		case *ast.BranchStmt:
			l := strings.ToLower(v.Tok.String())
			if v.Label != nil {
				l += ":" + v.Label.Name
			}
			out = append(out, l)
		case *ast.ReturnStmt:
			var parts []string
			for _, r := range v.Results {
				parts = append(parts, txt(r))
			}
			out = append(out, "return:"+strings.Join(parts, ","))
		default:
			out = append(out, "stmt:"+txt(s))
		}
	}
	block(body)
	return out
}

// c04Fragments emits the translated conditions / integer updates / slices / make sizes of fd.
func (c *Ctx) c04Fragments(sb *strings.Builder, prefix string, fd *ast.FuncDecl) {
	nCond, nSet, nSlice, nMake := 0, 0, 0, 0
	fresh := func() *c04tr { return &c04tr{c: c, ok: true} }
	txt := func(n ast.Node) string { return strings.Join(strings.Fields(c.Print(n)), "") }
	cond := func(e ast.Expr) {
		t := fresh()
		body := t.boolExpr(e)
		t.def(sb, fmt.Sprintf("%s_cond_%d", prefix, nCond), "Bool", body, txt(e))
		nCond++
	}
	// slices and make sizes inside an expression, outermost first
	var exprs func(e ast.Node)
	exprs = func(e ast.Node) {
		if e == nil {
			return
		}
		ast.Inspect(e, func(n ast.Node) bool {
			switch v := n.(type) {
			case *ast.CallExpr:
				fn := txt(v.Fun)
				if fn == "dropCR" && len(v.Args) == 1 {
					if _, isSlice := v.Args[0].(*ast.SliceExpr); isSlice {
						t := fresh()
						body := t.sliceExpr(v)
						t.def(sb, fmt.Sprintf("%s_slice_%d", prefix, nSlice), "Sl", body, txt(v))
						nSlice++
						return false
					}
				}
				if fn == "make" && len(v.Args) == 2 {
					t := fresh()
					body := t.intExpr(v.Args[1])
					t.def(sb, fmt.Sprintf("%s_make_%d", prefix, nMake), "Int", body, txt(v))
					nMake++
					return false
				}
			case *ast.SliceExpr:
				t := fresh()
				body := t.sliceExpr(v)
				t.def(sb, fmt.Sprintf("%s_slice_%d", prefix, nSlice), "Sl", body, txt(v))
				nSlice++
				exprs(v.X)
				return false
			case *ast.FuncLit:
				return false
			}
			return true
		})
	}
	assign := func(as *ast.AssignStmt) {
		if len(as.Lhs) == 1 && len(as.Rhs) == 1 {
			if name, ok := c04IntVar(txt(as.Lhs[0])); ok {
				t := fresh()
				var body string
				switch as.Tok {
				case token.ASSIGN, token.DEFINE:
					body = t.intExpr(as.Rhs[0])
				case token.ADD_ASSIGN:
					old := t.use(name, "Int")
					body = old + " + " + t.intAtomic(as.Rhs[0])
				case token.SUB_ASSIGN:
					old := t.use(name, "Int")
					body = old + " - " + t.intAtomic(as.Rhs[0])
				default:
					t.ok = false
				}
				if _, isCall := as.Rhs[0].(*ast.CallExpr); isCall && !strings.HasPrefix(txt(as.Rhs[0]), "maxi(") && !strings.HasPrefix(txt(as.Rhs[0]), "len(") {
					// eol := bytes.IndexByte(...): an oracle value, not arithmetic; its slice argument is emitted below
					exprs(as.Rhs[0])
					return
				}
				t.def(sb, fmt.Sprintf("%s_set_%d", prefix, nSet), "Int", body, txt(as))
				nSet++
				return
			}
		}
		for _, r := range as.Rhs {
			exprs(r)
		}
	}
	var walk func(s ast.Stmt)
	block := func(l []ast.Stmt) {
		for _, s := range l {
			walk(s)
		}
	}
	walk = func(s ast.Stmt) {
		switch v := s.(type) {
		case *ast.LabeledStmt:
			walk(v.Stmt)
		case *ast.BlockStmt:
			block(v.List)
		case *ast.IfStmt:
			if v.Init != nil {
				walk(v.Init)
			}
			cond(v.Cond)
			block(v.Body.List)
			if v.Else != nil {
				walk(v.Else)
			}
		case *ast.ForStmt:
			if v.Init != nil {
				walk(v.Init)
			}
			if v.Cond != nil {
				cond(v.Cond)
			}
			block(v.Body.List)
			if v.Post != nil {
				walk(v.Post)
			}
		case *ast.AssignStmt:
			assign(v)
		case *ast.ExprStmt:
			exprs(v.X)
		case *ast.ReturnStmt:
			for _, r := range v.Results {
				exprs(r)
			}
		}
	}
	block(fd.Body.List)
	fmt.Fprintf(sb, "/-- number of fragments emitted for `%s`: conditions, integer updates, slices, make sizes -/\ndef %s_counts : List Nat := [%d, %d, %d, %d]\n\n",
		prefix, prefix, nCond, nSet, nSlice, nMake)
}

func init() {
	RegisterGen("C04", func(c *Ctx) string {
		var sb strings.Builder
		sb.WriteString("namespace Rare.Gen.C04\n\n")
		sb.WriteString("/-- a slice expression `base[lo:hi]`, `cr` = the expression is wrapped in `dropCR( … )` -/\n")
		sb.WriteString("structure Sl where\n  cr : Bool\n  base : String\n  lo : Int\n  hi : Int\n  deriving Repr, DecidableEq\n\n")

		const util = "pkg/readahead/util.go"
		const imm = "pkg/readahead/immediate.go"
		const buf = "pkg/readahead/buffered.go"

		// maxi: `if a > b { return a }; return b`  (the only shape accepted)
		c.Fingerprint(util, "maxi")
		okMaxi := false
		if fd := c.Func(util, "maxi"); fd != nil && fd.Body != nil && len(fd.Body.List) == 2 {
			is, ok1 := fd.Body.List[0].(*ast.IfStmt)
			r2, ok2 := fd.Body.List[1].(*ast.ReturnStmt)
			if ok1 && ok2 && is.Init == nil && is.Else == nil && len(is.Body.List) == 1 && len(r2.Results) == 1 {
				if r1, ok := is.Body.List[0].(*ast.ReturnStmt); ok && len(r1.Results) == 1 {
					t := &c04tr{c: c, ok: true}
					t.use("a", "Int")
					t.use("b", "Int")
					cond := t.boolExpr(is.Cond)
					x, y := t.intExpr(r1.Results[0]), t.intExpr(r2.Results[0])
					if t.ok && len(t.params) == 2 {
						fmt.Fprintf(&sb, "/-- `maxi` (%s) -/\ndef maxi (a b : Int) : Int := if %s then %s else %s\n\n", util, cond, x, y)
						okMaxi = true
					}
				}
			}
		}
		if !okMaxi {
			sb.WriteString(untranslatable("maxi"))
		}

		for _, f := range []struct{ file, goName, prefix string }{
			{util, "dropCR", "dropCR"},
			{util, "maxi", "maxiFn"},
			{imm, "ImmediateReadAhead.Scan", "imm"},
			{buf, "BufferedReadAhead.Scan", "buf"},
			{imm, "NewImmediate", "newImm"},
			{buf, "NewBuffered", "newBuf"},
			{imm, "ImmediateReadAhead.ReadLine", "immReadLine"},
			{buf, "BufferedReadAhead.ReadLine", "bufReadLine"},
			{imm, "ImmediateReadAhead.Bytes", "immBytes"},
			{buf, "BufferedReadAhead.Bytes", "bufBytes"},
		} {
			c.Fingerprint(f.file, f.goName)
			fd := c.Func(f.file, f.goName)
			if fd == nil || fd.Body == nil {
				sb.WriteString(untranslatable(f.prefix + "_skeleton"))
				continue
			}
			fmt.Fprintf(&sb, "/-- control skeleton of `%s` (%s) -/\ndef %s_skeleton : List String := %s\n\n",
				f.goName, f.file, f.prefix, leanStrList(c.c04Skeleton(fd.Body.List)))
			switch f.prefix {
			case "dropCR", "imm", "buf", "newBuf", "newImm":
				c.c04Fragments(&sb, f.prefix, fd)
			}
		}

		// the delimiter the constructors install
		for _, f := range []struct{ file, fn, lean string }{{imm, "NewImmediate", "immDelim"}, {buf, "NewBuffered", "bufDelim"}} {
			found := false
			if fd := c.Func(f.file, f.fn); fd != nil {
				ast.Inspect(fd, func(n ast.Node) bool {
					if kv, ok := n.(*ast.KeyValueExpr); ok && !found {
						if id, ok := kv.Key.(*ast.Ident); ok && id.Name == "delim" {
							if v, ok := IntLit(kv.Value); ok && v >= 0 && v < 256 {
								fmt.Fprintf(&sb, "/-- `delim` installed by `%s` -/\ndef %s : Nat := %d\n\n", f.fn, f.lean, v)
								found = true
							}
						}
					}
					return true
				})
			}
			if !found {
				sb.WriteString(untranslatable(f.lean))
			}
		}

		sb.WriteString("end Rare.Gen.C04\n")
		return sb.String()
	})
}
