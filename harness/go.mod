module verifharness

go 1.23

require (
	github.com/araddon/dateparse v0.0.0-20210207001429-0eec95c9db7e
	github.com/urfave/cli/v2 v2.11.2
	rare v0.0.0
)

require (
	github.com/cpuguy83/go-md2man/v2 v2.0.2 // indirect
	github.com/fsnotify/fsnotify v1.4.9 // indirect
	github.com/russross/blackfriday/v2 v2.1.0 // indirect
	github.com/tidwall/gjson v1.14.1 // indirect
	github.com/tidwall/match v1.1.1 // indirect
	github.com/tidwall/pretty v1.2.0 // indirect
	github.com/xrash/smetrics v0.0.0-20201216005158-039620a65673 // indirect
	golang.org/x/sys v0.1.0 // indirect
	golang.org/x/term v0.0.0-20210503060354-a79de5458b56 // indirect
)

replace rare => /repo
