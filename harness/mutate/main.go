// Command mutate enumerates and applies small syntactic mutations of one Go source file.
// It is a diagnostic of the verification machinery (tools/mutation_sweep.py): mutants that compile and
// pass the repository's own test suite are run against ./check; survivors show where a change could
// hide.  It decides nothing about a property.
//
//	mutate list  <file.go>            -> one JSON line per mutation point
//	mutate apply <file.go> <k> <out>  -> writes the k-th mutant of file.go to out
package main

import (
	"encoding/json"
	"fmt"
	"go/ast"
	"go/parser"
	"go/token"
	"os"
	"strconv"
)

type mut struct {
	K     int    `json:"k"`
	Line  int    `json:"line"`
	Kind  string `json:"kind"`
	Func  string `json:"func"`
	Old   string `json:"old"`
	New   string `json:"new"`
	start int
	end   int
}

var swaps = map[token.Token][]string{
	token.LSS: {"<="}, token.LEQ: {"<"}, token.GTR: {">="}, token.GEQ: {">"},
	token.EQL: {"!="}, token.NEQ: {"=="}, token.ADD: {"-"}, token.SUB: {"+"},
	token.LAND: {"||"}, token.LOR: {"&&"},
}

func main() {
	if len(os.Args) < 3 {
		fmt.Fprintln(os.Stderr, "usage: mutate list|apply file [k out]")
		os.Exit(2)
	}
	file := os.Args[2]
	src, err := os.ReadFile(file)
	if err != nil {
		panic(err)
	}
	fset := token.NewFileSet()
	f, err := parser.ParseFile(fset, file, src, parser.ParseComments)
	if err != nil {
		panic(err)
	}
	var muts []mut
	add := func(pos, end token.Pos, kind, fn, nw string) {
		s, e := fset.Position(pos).Offset, fset.Position(end).Offset
		muts = append(muts, mut{K: len(muts), Line: fset.Position(pos).Line, Kind: kind, Func: fn, Old: string(src[s:e]), New: nw, start: s, end: e})
	}
	for _, d := range f.Decls {
		fd, ok := d.(*ast.FuncDecl)
		if !ok || fd.Body == nil {
			continue
		}
		fn := fd.Name.Name
		if fd.Recv != nil && len(fd.Recv.List) > 0 {
			switch t := fd.Recv.List[0].Type.(type) {
			case *ast.StarExpr:
				if id, ok := t.X.(*ast.Ident); ok {
					fn = id.Name + "." + fn
				}
			case *ast.Ident:
				fn = t.Name + "." + fn
			}
		}
		ast.Inspect(fd.Body, func(n ast.Node) bool {
			switch x := n.(type) {
			case *ast.CallExpr:
				// leave the verification hooks alone
				if id, ok := x.Fun.(*ast.Ident); ok && (id.Name == "verifTrace") {
					return false
				}
			case *ast.BinaryExpr:
				for _, nw := range swaps[x.Op] {
					add(x.OpPos, x.OpPos+token.Pos(len(x.Op.String())), "binop", fn, nw)
				}
			case *ast.BasicLit:
				if x.Kind == token.INT {
					if v, err := strconv.ParseInt(x.Value, 0, 64); err == nil {
						add(x.Pos(), x.End(), "int+1", fn, strconv.FormatInt(v+1, 10))
						if v > 0 {
							add(x.Pos(), x.End(), "int-1", fn, strconv.FormatInt(v-1, 10))
						}
					}
				}
			case *ast.IncDecStmt:
				nw := "--"
				if x.Tok == token.DEC {
					nw = "++"
				}
				add(x.TokPos, x.TokPos+2, "incdec", fn, nw)
			case *ast.IfStmt:
				add(x.Cond.Pos(), x.Cond.End(), "negcond", fn, "!("+string(src[fset.Position(x.Cond.Pos()).Offset:fset.Position(x.Cond.End()).Offset])+")")
			case *ast.BranchStmt:
				if x.Label == nil && x.Tok == token.BREAK {
					add(x.Pos(), x.End(), "branch", fn, "continue")
				} else if x.Label == nil && x.Tok == token.CONTINUE {
					add(x.Pos(), x.End(), "branch", fn, "break")
				}
			case *ast.BlockStmt:
				for _, st := range x.List {
					switch s := st.(type) {
					case *ast.ExprStmt:
						if c, ok := s.X.(*ast.CallExpr); ok {
							if id, ok := c.Fun.(*ast.Ident); ok && (id.Name == "verifTrace" || id.Name == "panic") {
								continue
							}
						}
						add(s.Pos(), s.End(), "delstmt", fn, "{}")
					case *ast.AssignStmt:
						if s.Tok != token.DEFINE {
							add(s.Pos(), s.End(), "delstmt", fn, "{}")
						}
					case *ast.IncDecStmt:
						add(s.Pos(), s.End(), "delstmt", fn, "{}")
					}
				}
			}
			return true
		})
	}
	switch os.Args[1] {
	case "list":
		enc := json.NewEncoder(os.Stdout)
		for _, m := range muts {
			enc.Encode(m)
		}
	case "apply":
		k, _ := strconv.Atoi(os.Args[3])
		m := muts[k]
		out := append([]byte{}, src[:m.start]...)
		out = append(out, []byte(m.New)...)
		out = append(out, src[m.end:]...)
		if err := os.WriteFile(os.Args[4], out, 0o644); err != nil {
			panic(err)
		}
	}
}
