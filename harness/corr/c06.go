//go:build c06

package main

// C06: in-process correspondence for input planning and reading.
//
//	glob <recursive> <args> <fs> <tree>            dirwalk.GlobExpand on a generated tree (cwd = tree root)
//	open <gunzip> <names> <files> <readers> <batch> batchers.OpenFilesToChan: read errors + every line handed on
//	exit <readErrors> <hasAgg> <parseErrors> <matched>   helpers.DetermineErrorState
//	gzoracle <content>                              what compress/gzip yields (used by extra/C06.py as the oracle)
//
// <fs>/<files> are the oracle tables of the Lean driver (see lean/Rare/Drv/C06.lean); for `glob` they are
// computed at generation time with os.Stat / an lstat walk / filepath.Glob, for `open` with compress/gzip.

import (
	"bytes"
	"compress/gzip"
	"encoding/binary"
	"fmt"
	"hash/crc32"
	"io"
	"os"
	"path/filepath"
	"sort"
	"strconv"
	"strings"

	"rare/cmd/helpers"
	"rare/pkg/extractor/batchers"
	"rare/pkg/extractor/dirwalk"
	"rare/pkg/logger"

	"github.com/urfave/cli/v2"
)

func c06WorkDir() string {
	if d := os.Getenv("VERIF_WORK"); d != "" {
		return d
	}
	return "/verif/work/tmp"
}

var c06Seq int

// inTree builds the tree described by spec in a fresh directory, runs f with that directory as cwd.
func c06InTree(spec string, f func()) {
	c06Seq++
	dir := filepath.Join(c06WorkDir(), fmt.Sprintf("c06-%d-%d", os.Getpid(), c06Seq))
	os.RemoveAll(dir)
	os.MkdirAll(dir, 0o755)
	defer os.RemoveAll(dir)
	if spec != "." {
		for _, e := range strings.Split(spec, ",") {
			p := strings.Split(e, ":")
			rel := filepath.Join(dir, string(UnHex(p[0])))
			switch p[1] {
			case "d":
				os.MkdirAll(rel, 0o755)
			case "f":
				os.MkdirAll(filepath.Dir(rel), 0o755)
				os.WriteFile(rel, UnHex(p[2]), 0o644)
			case "l":
				os.MkdirAll(filepath.Dir(rel), 0o755)
				os.Symlink(string(UnHex(p[2])), rel)
			}
		}
	}
	old, _ := os.Getwd()
	if err := os.Chdir(dir); err != nil {
		panic(err)
	}
	defer os.Chdir(old)
	f()
}

type c06Stub struct {
	re      int
	pe, mat uint64
}

func (s c06Stub) ReadErrors() int      { return s.re }
func (s c06Stub) ParseErrors() uint64  { return s.pe }
func (s c06Stub) MatchedLines() uint64 { return s.mat }

// gzOracle: what compress/gzip does with this content.
func c06GzOracle(content []byte) (hdrOk bool, probed int, decoded []byte, fails bool) {
	rd := bytes.NewReader(content)
	cr := &countingReader{r: rd}
	z, err := gzip.NewReader(cr) // cr is not an io.ByteReader: gzip wraps it in bufio like it does for *os.File
	if err != nil {
		return false, cr.n, nil, false
	}
	decoded, err = io.ReadAll(z)
	return true, 0, decoded, err != nil
}

type countingReader struct {
	r io.Reader
	n int
}

func (c *countingReader) Read(p []byte) (int, error) {
	n, err := c.r.Read(p)
	c.n += n
	return n, err
}

func b01(b bool) int {
	if b {
		return 1
	}
	return 0
}

func c06Run(f []string) string {
	if ans, ok := c06RunGlob(f); ok {
		return ans
	}
	if ans, ok := c06RunGzip(f); ok {
		return ans
	}
	if ans, ok := c06RunInflate(f); ok {
		return ans
	}
	if ans, ok := c06RunDispatch(f); ok {
		return ans
	}
	if ans, ok := c06RunFault(f); ok {
		return ans
	}
	switch f[0] {
	case "glob":
		rec := f[1] == "1"
		args := UnHexListS(f[2])
		var got []string
		c06InTree(f[4], func() {
			for p := range dirwalk.GlobExpand(args, rec) {
				got = append(got, p)
			}
		})
		return "ok " + HexListS(got)
	case "open":
		gunzip := f[1] == "1"
		names := UnHexListS(f[2])
		readers, _ := strconv.Atoi(f[4])
		batch, _ := strconv.Atoi(f[5])
		// tree from the <files> table: existing entries only
		var spec []string
		if f[3] != "." {
			for _, e := range strings.Split(f[3], ",") {
				p := strings.Split(e, ":")
				if p[1] != "1" {
					continue
				}
				if p[2] == "1" {
					spec = append(spec, p[0]+":d")
				} else {
					spec = append(spec, p[0]+":f:"+p[3])
				}
			}
		}
		treeSpec := "."
		if len(spec) > 0 {
			treeSpec = strings.Join(spec, ",")
		}
		var rows []string
		errs := 0
		active := 0
		c06InTree(treeSpec, func() {
			ch := make(chan string, len(names)+1)
			for _, n := range names {
				ch <- n
			}
			close(ch)
			b := batchers.OpenFilesToChan(ch, gunzip, readers, batch, 2)
			for ib := range b.BatchChan() {
				for i, l := range ib.Batch {
					rows = append(rows, HexS(fmt.Sprintf("%s:%d:%s", ib.Source, ib.BatchStart+uint64(i), string(l))))
				}
			}
			errs = b.ReadErrors()
			// the deferred block of the reader goroutine calls stopFileReading before wg.Done() (/repo 7025f4b), so
			// once the channel is closed no file may be listed as active any more (C05 close_status_complete)
			active = b.ActiveFileCount()
		})
		if active != 0 {
			return fmt.Sprintf("ok errs=%d active-after-close=%d", errs, active)
		}
		sort.Strings(rows)
		out := "."
		if len(rows) > 0 {
			out = strings.Join(rows, ";")
		}
		return fmt.Sprintf("ok errs=%d out=%s", errs, out)
	case "exit":
		re, _ := strconv.Atoi(f[1])
		pe, _ := strconv.ParseUint(f[3], 10, 64)
		mat, _ := strconv.ParseUint(f[4], 10, 64)
		st := c06Stub{re, pe, mat}
		var agg helpers.AggregationErrors
		if f[2] == "1" {
			agg = st
		}
		err := helpers.DetermineErrorState(st, st, agg)
		if err == nil {
			return "ok 0 -"
		}
		code := helpers.ExitCodeInvalidUsage // main(): an error that is no ExitCoder
		if v, ok := err.(cli.ExitCoder); ok {
			code = v.ExitCode()
		}
		return fmt.Sprintf("ok %d %s", code, HexS(err.Error()))
	case "gzoracle":
		ok, probed, dec, fails := c06GzOracle(UnHex(f[1]))
		return fmt.Sprintf("ok %d %d %s %d", b01(ok), probed, Hex(dec), b01(fails))
	}
	return "bad-op"
}

// ---------------------------------------------------------------- generators

func c06Text(r *Rand) []byte {
	words := []string{"alpha", "beta k", "k", "12", "-7", "x y z", "", " ", "k:v", "\xc3\xa9", "\xff\xfe", strings.Repeat("a", 70)}
	n := Pick(r, []int{0, 1, 1, 2, 3, 5, 9, 40})
	if r.Chance(1, 40) {
		n = 12000 // crosses the 128 KiB read-ahead buffer
	}
	var sb bytes.Buffer
	for i := 0; i < n; i++ {
		sb.WriteString(Pick(r, words))
		if r.Chance(1, 9) {
			sb.WriteString("\r")
		}
		if i < n-1 || r.Chance(2, 3) {
			sb.WriteString("\n")
		}
	}
	return sb.Bytes()
}

func c06Gzip(data []byte, level int, name string) []byte {
	var b bytes.Buffer
	w, _ := gzip.NewWriterLevel(&b, level)
	w.Name = name
	w.Write(data)
	w.Close()
	return b.Bytes()
}

// c06File returns a kind label and the file bytes.
func c06File(r *Rand) (string, []byte) {
	text := c06Text(r)
	k := r.Intn(23)
	switch {
	case k >= 20: // hand-made header (FEXTRA/FNAME/FCOMMENT/FHCRC/reserved bits, intact or damaged) + real stream
		b, kind := c06GzipWithHeader(r, text)
		return kind, b
	case k < 5:
		return "plain", text
	case k == 5:
		return "empty", nil
	}
	z := c06Gzip(text, Pick(r, []int{0, 1, 6, 9}), Pick(r, []string{"", "", "orig.log"}))
	switch {
	case k < 10:
		if r.Chance(1, 4) {
			return "gzip-multi", append(z, c06Gzip(c06Text(r), 6, "")...)
		}
		return "gzip", z
	case k < 13:
		cut := r.Intn(len(z) + 1)
		if r.Chance(1, 4) {
			cut = r.Intn(12)
		} else if r.Chance(1, 4) {
			cut = len(z) - 1 - r.Intn(8)
		}
		if cut > len(z) {
			cut = len(z)
		}
		return "gzip-truncated", z[:cut]
	case k == 13:
		c := append([]byte{}, z...)
		c[len(c)-1-r.Intn(8)] ^= 1 << uint(r.Intn(8))
		return "gzip-badtrailer", c
	case k == 14:
		c := append([]byte{}, z...)
		c[r.Intn(3)] ^= Pick(r, []byte{1, 0x80, 0xff})
		return "gzip-badheader", c
	case k < 17: // a flipped bit anywhere (header, deflate data, trailer): exact here because the oracle is the library itself
		c := append([]byte{}, z...)
		c[r.Intn(len(c))] ^= 1 << uint(r.Intn(8))
		return "gzip-bitflip", c
	case k == 17:
		return "gzip-trailing-garbage", append(append([]byte{}, z...), Pick(r, []string{"\x00", "garbage\n", "\x1f\x8b", "\x1f\x8b\x08\x00"})...)
	case k == 18:
		// header with FHCRC
		h := []byte{0x1f, 0x8b, 8, 2, 0, 0, 0, 0, 0, 3}
		crc := crc32.ChecksumIEEE(h)
		h = binary.LittleEndian.AppendUint16(h, uint16(crc))
		if r.Chance(1, 3) {
			h[len(h)-1] ^= 1
		}
		return "gzip-fhcrc", append(h, z[10:]...)
	}
	return "plain-looks-gzip", append([]byte{0x1f, 0x8b}, text...)
}

func c06GenOpen(r *Rand) string {
	n := Pick(r, []int{1, 1, 2, 3, 5, 8})
	var names []string
	var ents []string
	kinds := map[string]bool{}
	for i := 0; i < n; i++ {
		name := fmt.Sprintf("f%d", i)
		switch r.Intn(12) {
		case 0: // missing
			names = append(names, name)
			continue
		case 1: // directory given as file
			ents = append(ents, fmt.Sprintf("%s:1:1:-:0:0:-:0", HexS(name)))
			names = append(names, name)
			continue
		}
		_, data := c06File(r)
		ok, probed, dec, fails := c06GzOracle(data)
		ents = append(ents, fmt.Sprintf("%s:1:0:%s:%d:%d:%s:%d", HexS(name), Hex(data), b01(ok), probed, Hex(dec), b01(fails)))
		names = append(names, name)
		kinds[name] = true
		if r.Chance(1, 8) {
			names = append(names, name) // the same file mentioned twice
		}
	}
	files := "."
	if len(ents) > 0 {
		files = strings.Join(ents, ",")
	}
	return fmt.Sprintf("open %d %s %s %d %d", b01(r.Chance(2, 3)), HexListS(names), files, Pick(r, []int{1, 1, 2, 3, 8}), Pick(r, []int{1, 2, 3, 1000}))
}

var c06FileNames = []string{"a.log", "b.log", "c.txt", "k.gz", "x[1].log", "x1.log", "we*ird", "q?.log", "qq.log", "a[.log", ".hidden", "sp ace", "back\\slash", "[", "ab]c"}
var c06DirNames = []string{"d1", "d2", "sub", "e[x]", "logs.d"}
var c06Globs = []string{"*", "*.log", "*/*", "*/*.log", "d?/*", "[abk].*", "[^a]*", "x[1].log", "q?.log", "nomatch*", "a[.log", "[", "ab]c", "we\\*ird", "we*", "*/*/*", "d1/*", "[a-", "back\\slash", "\\", "*[", ".*", "e[x]/*", "e[[]x]/*", "?", "**", "*/", "d1/", "./*", "missing", "d1/missing", "a.log/x"}

// lstat walk in lexical order, independent of filepath.Walk
func c06WalkOracle(root string) []string {
	var out []string
	var walk func(p string)
	walk = func(p string) {
		fi, err := os.Lstat(p)
		if err != nil {
			return
		}
		if !fi.IsDir() {
			out = append(out, p)
			return
		}
		ents, _ := os.ReadDir(p)
		names := []string{}
		for _, e := range ents {
			names = append(names, e.Name())
		}
		sort.Strings(names)
		for _, n := range names {
			walk(filepath.Join(p, n))
		}
	}
	if !strings.HasSuffix(root, "/") {
		root += "/"
	}
	walk(root)
	return out
}

func c06GenGlob(r *Rand) string {
	dirs := []string{""}
	var spec []string
	used := map[string]bool{}
	for i := Pick(r, []int{0, 1, 2, 3, 5}); i > 0; i-- {
		d := filepath.Join(Pick(r, dirs), Pick(r, c06DirNames))
		if !used[d] && strings.Count(d, "/") < 3 {
			used[d] = true
			dirs = append(dirs, d)
			spec = append(spec, HexS(d)+":d")
		}
	}
	var files []string
	for i := Pick(r, []int{0, 1, 2, 3, 4, 6, 9}); i > 0; i-- {
		p := filepath.Join(Pick(r, dirs), Pick(r, c06FileNames))
		if !used[p] {
			used[p] = true
			files = append(files, p)
			spec = append(spec, HexS(p)+":f:"+HexS("x\n"))
		}
	}
	for i := Pick(r, []int{0, 0, 1, 2}); i > 0; i-- {
		p := filepath.Join(Pick(r, dirs), Pick(r, []string{"ln1", "ln2", "ldir"}))
		if used[p] {
			continue
		}
		used[p] = true
		target := "nowhere"
		switch r.Intn(3) {
		case 0:
			if len(files) > 0 {
				target, _ = filepath.Rel(filepath.Dir("/"+p), "/"+Pick(r, files))
			}
		case 1:
			if len(dirs) > 1 {
				target, _ = filepath.Rel(filepath.Dir("/"+p), "/"+Pick(r, dirs[1:]))
			}
		}
		spec = append(spec, HexS(p)+":l:"+HexS(target))
	}
	var args []string
	for i := Pick(r, []int{0, 1, 1, 2, 3, 5}); i > 0; i-- {
		switch k := r.Intn(10); {
		case k < 3 && len(files) > 0:
			args = append(args, Pick(r, files))
		case k < 5 && len(dirs) > 1:
			args = append(args, Pick(r, dirs[1:])+Pick(r, []string{"", "", "/", "//"}))
		case k == 5:
			args = append(args, Pick(r, []string{".", "./", "ldir", "ln1", "-"}))
		case k == 6 && len(args) > 0:
			args = append(args, Pick(r, args))
		default:
			args = append(args, Pick(r, c06Globs))
		}
	}
	tree := "."
	if len(spec) > 0 {
		tree = strings.Join(spec, ",")
	}
	rec := r.Chance(1, 2)
	var ents []string
	c06InTree(tree, func() {
		seen := map[string]bool{}
		for _, a := range args {
			if seen[a] {
				continue
			}
			seen[a] = true
			isDir := false
			if fi, err := os.Stat(a); err == nil && fi.IsDir() {
				isDir = true
			}
			var walk []string
			if isDir {
				walk = c06WalkOracle(a)
			}
			g, err := filepath.Glob(a)
			tag := "f"
			if err != nil {
				tag, g = "b", nil
			}
			ents = append(ents, fmt.Sprintf("%s:%d:%s:%s:%s", HexS(a), b01(isDir), HexListS(walk), tag, HexListS(g)))
		}
	})
	fs := "."
	if len(ents) > 0 {
		fs = strings.Join(ents, ",")
	}
	return fmt.Sprintf("glob %d %s %s %s", b01(rec), HexListS(args), fs, tree)
}

func c06Gen(r *Rand, tier string) []string {
	var out []string
	// DetermineErrorState: the whole decision table over small values
	vals := []int{0, 1, 2, 7}
	for _, re := range vals {
		for hasAgg := 0; hasAgg < 2; hasAgg++ {
			for _, pe := range vals {
				for _, m := range vals {
					out = append(out, fmt.Sprintf("exit %d %d %d %d", re, hasAgg, pe, m))
				}
			}
		}
	}
	// the file system as oracle tables (kept small: `globx` below runs the same code against the Lean model of the file system)
	nGlob, nOpen := 100, 250
	if tier == "thorough" {
		nGlob, nOpen = 1000, 2200
	}
	out = append(out, c06GenGlobCases(r, tier)...)
	out = append(out, c06GzipGenCases(r, tier)...)
	out = append(out, c06InflateGenCases(r, tier)...)
	out = append(out, c06DispatchGenCases(r, tier)...)
	out = append(out, c06FaultGenCases(r, tier)...)
	for i := 0; i < nGlob; i++ {
		out = append(out, c06GenGlob(r))
	}
	for i := 0; i < nOpen; i++ {
		out = append(out, c06GenOpen(r))
	}
	return out
}

func c06Stats(cases []string) map[string]int {
	st := map[string]int{}
	for _, c := range cases {
		f := strings.Fields(c)
		st["op:"+f[0]]++
		c06GlobStats(st, f)
		c06GzipStats(st, f)
		c06InflateStats(st, f)
		c06DispatchStats(st, f)
		c06FaultStats(st, f)
		switch f[0] {
		case "glob":
			if f[1] == "1" {
				st["glob:recursive"]++
			}
			if strings.Contains(f[3], ":b:") {
				st["glob:bad-pattern-arg"]++
			}
			if strings.Contains(f[3], ":1:") {
				st["glob:directory-arg"]++
			}
			if strings.Contains(f[4], ":l:") {
				st["glob:tree-with-symlink"]++
			}
			if f[2] == "." {
				st["glob:no-args"]++
			}
		case "open":
			if f[1] == "1" {
				st["open:gunzip"]++
			}
			for _, e := range strings.Split(f[3], ",") {
				p := strings.Split(e, ":")
				if len(p) < 8 {
					continue
				}
				switch {
				case p[2] == "1":
					st["open:file:directory"]++
				case p[4] == "1" && p[7] == "1":
					st["open:file:gzip-failing"]++
				case p[4] == "1":
					st["open:file:gzip-ok"]++
				default:
					st["open:file:not-gzip"]++
				}
			}
		}
	}
	return st
}

func init() {
	logger.DeferLogs() // keep the [Log] lines of the real code off the harness output
	Register("C06", &Prop{Gen: c06Gen, Run: c06Run, Stats: c06Stats})
}
