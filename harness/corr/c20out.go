//go:build c20

package main

// C20 (round 4c): WHICH writer a command gets and what it then writes – the real
// cmd/helpers.BuildVTermFromArguments and termstate.IsPipedOutput / GetTermRowsCols run in-process against a
// stdout of a chosen kind:
//
//	pipe    an os.Pipe                                 (not a character device)
//	file    a regular file                             (not a character device)
//	null    /dev/null                                  (a character device that is not a terminal)
//	closed  a closed descriptor                        (Stat fails)
//	pty     the slave of a fresh pseudo-terminal whose size was set to <rows> x <cols>
//
// op  cli <noout> <csv hex> <snapshot> <kind> <rows> <cols> <history>
// ->  ok kind=<null|buffered|live> piped=<0|1> size=<ok>,<rows>,<cols> <what was written>
//
// `what was written` is `b=<hex>` for pipe / file, `-` for null / closed, and for a pty the screen of the reference
// terminal (<cols> x <rows>, the tty has already turned \n into \r\n) after the bytes read from the master side.
// The harness plays linetrim.go's init() for that stdout (init() itself ran when the process started; it is tied to
// the model by `gen_init_is_model` and the op `init`): AutoTrim and the size are set from what the REAL
// GetTermRowsCols reports for the swapped stdout.

import (
	"flag"
	"fmt"
	"io"
	"os"
	"strconv"
	"strings"
	"syscall"
	"unsafe"

	"rare/cmd/helpers"
	"rare/pkg/multiterm"
	"rare/pkg/multiterm/termstate"

	"github.com/urfave/cli/v2"
)

func c20Ioctl(fd uintptr, req uintptr, arg unsafe.Pointer) error {
	_, _, e := syscall.Syscall(syscall.SYS_IOCTL, fd, req, uintptr(arg))
	if e != 0 {
		return e
	}
	return nil
}

func c20OpenPty(rows, cols int) (*os.File, *os.File, error) {
	m, err := os.OpenFile("/dev/ptmx", os.O_RDWR|syscall.O_NOCTTY, 0)
	if err != nil {
		return nil, nil, err
	}
	var unlock int32
	if err := c20Ioctl(m.Fd(), syscall.TIOCSPTLCK, unsafe.Pointer(&unlock)); err != nil {
		m.Close()
		return nil, nil, err
	}
	var n uint32
	if err := c20Ioctl(m.Fd(), syscall.TIOCGPTN, unsafe.Pointer(&n)); err != nil {
		m.Close()
		return nil, nil, err
	}
	ws := struct{ Row, Col, X, Y uint16 }{uint16(rows), uint16(cols), 0, 0}
	if err := c20Ioctl(m.Fd(), syscall.TIOCSWINSZ, unsafe.Pointer(&ws)); err != nil {
		m.Close()
		return nil, nil, err
	}
	s, err := os.OpenFile("/dev/pts/"+strconv.Itoa(int(n)), os.O_RDWR|syscall.O_NOCTTY, 0)
	if err != nil {
		m.Close()
		return nil, nil, err
	}
	return m, s, nil
}

func c20KindName(t multiterm.MultilineTerm) string {
	switch t.(type) {
	case *multiterm.NullTerm:
		return "null"
	case *multiterm.BufferedTerm:
		return "buffered"
	case *multiterm.TermWriter:
		return "live"
	}
	return fmt.Sprintf("%T", t)
}

func c20RunOut(f []string) string {
	if f[0] != "cli" || len(f) != 8 {
		return "bad-op"
	}
	rows, _ := strconv.Atoi(f[5])
	cols, _ := strconv.Atoi(f[6])
	h := c20ParseHist(f[7])
	set := flag.NewFlagSet("c20", flag.ContinueOnError)
	for _, fl := range []cli.Flag{helpers.NoOutFlag, helpers.CSVFlag, helpers.SnapshotFlag} {
		if err := fl.Apply(set); err != nil {
			return "bad-case " + err.Error()
		}
	}
	var args []string
	if f[1] == "1" {
		args = append(args, "--noout")
	}
	if csv := string(UnHex(f[2])); csv != "" {
		args = append(args, "--csv="+csv)
	}
	if f[3] == "1" {
		args = append(args, "--snapshot")
	}
	if err := set.Parse(args); err != nil {
		return "bad-case " + err.Error()
	}
	ctx := cli.NewContext(cli.NewApp(), set, nil)

	// the stdout of the chosen kind; `collect` returns what was written to it once it has been closed
	var stdout *os.File
	collect := func() (string, bool) { return "-", false }
	const capBytes = 8 << 20
	drain := func(r *os.File) chan []byte {
		done := make(chan []byte, 1)
		go func() {
			var b []byte
			buf := make([]byte, 64<<10)
			for {
				n, err := r.Read(buf)
				if n > 0 && len(b) < capBytes {
					b = append(b, buf[:n]...)
				}
				if err != nil {
					break
				}
			}
			done <- b
		}()
		return done
	}
	switch f[4] {
	case "pipe":
		r, w, err := os.Pipe()
		if err != nil {
			return "harness-error " + err.Error()
		}
		done := drain(r)
		stdout = w
		collect = func() (string, bool) { b := <-done; r.Close(); return "b=" + Hex(b), true }
	case "file":
		tmp, err := os.CreateTemp("", "c20out")
		if err != nil {
			return "harness-error " + err.Error()
		}
		name := tmp.Name()
		stdout = tmp
		collect = func() (string, bool) {
			defer os.Remove(name)
			fh, err := os.Open(name)
			if err != nil {
				return "harness-error " + err.Error(), true
			}
			defer fh.Close()
			b, _ := io.ReadAll(io.LimitReader(fh, capBytes))
			return "b=" + Hex(b), true
		}
	case "null":
		w, err := os.OpenFile("/dev/null", os.O_WRONLY, 0)
		if err != nil {
			return "harness-error " + err.Error()
		}
		stdout = w
	case "closed":
		r, w, err := os.Pipe()
		if err != nil {
			return "harness-error " + err.Error()
		}
		r.Close()
		w.Close()
		stdout = w
	case "pty":
		m, s, err := c20OpenPty(rows, cols)
		if err != nil {
			return "unmodelled no-pty " + err.Error()
		}
		done := drain(m)
		stdout = s
		collect = func() (string, bool) {
			b := <-done
			m.Close()
			t := newVT(cols, rows, false)
			t.feed(b)
			return fmt.Sprintf("scr=%s row=%d col=%d vis=%s", t.rowsOut(rows), t.row, t.col, b01(t.vis)), true
		}
	default:
		return "bad-case kind"
	}

	c20mu.Lock()
	old := os.Stdout
	os.Stdout = stdout
	var kind, piped, size string
	panicked := false
	func() {
		defer func() {
			if recover() != nil {
				panicked = true
			}
			os.Stdout = old
			stdout.Close()
			c20mu.Unlock()
		}()
		// linetrim.go init() for this stdout
		r, c, ok := termstate.GetTermRowsCols()
		if ok {
			multiterm.VerifSetAutoTrim(true)
			multiterm.VerifSetTermSize(r, c)
		} else {
			multiterm.VerifSetAutoTrim(false)
			multiterm.VerifSetTermSize(24, 80)
		}
		size = fmt.Sprintf("%s,%d,%d", b01(ok), r, c)
		piped = b01(termstate.IsPipedOutput())
		vt := helpers.BuildVTermFromArguments(ctx)
		kind = c20KindName(vt)
		for _, it := range h {
			if it.close {
				vt.Close()
			} else {
				vt.WriteForLine(it.line, it.text)
			}
		}
		vt.Close()
	}()
	out, _ := collect()
	if panicked {
		return "panic"
	}
	return fmt.Sprintf("ok kind=%s piped=%s size=%s %s", kind, piped, size, out)
}

// c20HistC: a history WITH Close() calls in the middle for a screen of `height` rows: after d Closes every update lands
// d rows lower (physical line = line + d, Lean `physHist`); updates mostly go to physical lines that are still on the
// screen (`ReachUpd`), sometimes to one that has scrolled off.
func c20HistC(r *Rand, width, height int, trim bool) string {
	n := 2 + r.Intn(12)
	d, m := 0, 0 // Closes so far, largest physical line
	var items []string
	for i := 0; i < n; i++ {
		if r.Chance(1, 4) {
			items = append(items, "c")
			d++
			m++
			continue
		}
		lo := m - (height - 1)
		if lo < d {
			lo = d
		}
		hi := m + 2
		p := lo
		if hi > lo {
			p = lo + r.Intn(hi-lo+1)
		}
		if r.Chance(1, 12) {
			p = d + r.Intn(m-d+1) // anywhere, possibly scrolled off
		}
		if p > m {
			m = p
		}
		vis := r.Intn(width + 3)
		if !trim && vis > width {
			vis = width
		}
		items = append(items, fmt.Sprintf("%d:%s", p-d, HexS(c20Text(r, vis, r.Chance(1, 25)))))
	}
	return strings.Join(items, ",")
}

// c20GenOut: the `cli` cases, and the live writer with Close() calls in the middle of the history
func c20GenOut(r *Rand, tier string) []string {
	n := 160
	if tier == "thorough" {
		n = 6000
	}
	var out []string
	for i := 0; i < n; i++ {
		width := Pick(r, []int{1, 2, 3, 4, 5, 8, 10, 20, 40})
		trim := r.Chance(2, 3)
		tb := 0
		if trim {
			tb = 1
		}
		height := Pick(r, []int{2, 3, 4, 5, 8, 12, 30})
		row0 := r.Intn(height)
		if r.Chance(1, 3) {
			out = append(out, fmt.Sprintf("term %d %d %s", width, tb, c20HistC(r, width, 30, trim)))
		} else {
			out = append(out, fmt.Sprintf("termh %d %d %d %d %s", width, height, row0, tb, c20HistC(r, width, height, trim)))
		}
	}
	kinds := []string{"pipe", "pipe", "file", "null", "closed", "pty", "pty", "pty"}
	for i := 0; i < n; i++ {
		kind := Pick(r, kinds)
		noout, snapshot := 0, 0
		if r.Chance(1, 6) {
			noout = 1
		}
		if r.Chance(1, 3) {
			snapshot = 1
		}
		csv := "-"
		if r.Chance(1, 4) {
			// "-" is the value that silences the writer; everything else (a file name, "--", "- ", "") does not
			csv = HexS(Pick(r, []string{"-", "-", "-", "out.csv", "--", "- ", " -", "-\n", "x", "\xe2\x88\x92"}))
		}
		rows, cols := Pick(r, []int{1, 2, 3, 4, 5, 8, 24, 50}), Pick(r, []int{1, 2, 3, 4, 5, 8, 10, 20, 40, 80, 132, 250})
		if r.Chance(1, 10) {
			rows, cols = Pick(r, []int{1, 2, 120}), Pick(r, []int{0, 1, 500, 65535})
		}
		width := cols
		if kind != "pty" {
			width = Pick(r, []int{3, 10, 80})
		}
		if width > 100 {
			width = 100
		}
		if width < 1 {
			width = 1
		}
		var hist string
		if kind == "pty" {
			// a screen of `rows` rows: the block may scroll; texts of the safe class (the tty's output processing must
			// not see tabs etc.); the trimming keeps them inside the width
			hh := rows
			if hh < 1 {
				hh = 1
			}
			if hh > 12 {
				hh = 12
			}
			hist = c20HistH(r, width, hh, true)
		} else {
			bad := r.Chance(1, 8)
			hist = c20Hist(r, width, r.Chance(1, 2), bad, bad && r.Chance(1, 2))
		}
		out = append(out, fmt.Sprintf("cli %d %s %d %s %d %d %s", noout, csv, snapshot, kind, rows, cols, hist))
	}
	return out
}
