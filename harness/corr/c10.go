//go:build c10 || c08

package main

import (
	"fmt"
	"strings"
	"sync"

	"rare/pkg/expressions"
	"rare/pkg/expressions/funcfile"
	"rare/pkg/expressions/funclib"
)

// countingCtx wraps a context and counts look-ups (to see whether a stage was frozen by the optimiser).
type countingCtx struct {
	inner expressions.KeyBuilderContext
	n     int
}

func (c *countingCtx) GetMatch(i int) string  { c.n++; return c.inner.GetMatch(i) }
func (c *countingCtx) GetKey(k string) string { c.n++; return c.inner.GetKey(k) }

func evalBoth(tmpl, elems, keys string) (string, string) {
	run := func(opt bool) string {
		kb := funclib.NewKeyBuilderEx(opt)
		compiled, errs := kb.Compile(tmpl)
		if compiled == nil {
			return "nil-compiled errs=" + errsStr(errs)
		}
		val := compiled.BuildKey(mkContext(elems, keys))
		return fmt.Sprintf("ok errs=%s val=%s", errsStr(errs), HexS(val))
	}
	return run(true), run(false)
}

func loadFuncs(file string, opt bool) (*expressions.KeyBuilder, error) {
	cmplr := funclib.NewKeyBuilder()
	fns, err := funcfile.LoadDefinitions(cmplr, strings.NewReader(file), "defs")
	kb := funclib.NewKeyBuilderEx(opt)
	kb.Funcs(fns)
	return kb, err
}

func c10Run(f []string) string {
	switch f[0] {
	case "expr":
		a, _ := exprRun(f)
		return a
	case "optdiff":
		a, b := evalBoth(string(UnHex(f[1])), f[2], f[3])
		if a != b {
			return "DIFF opt=" + a + " noopt=" + b
		}
		return a
	case "funcs":
		kb, _ := loadFuncs(string(UnHex(f[2])), f[1] == "1")
		compiled, errs := kb.Compile(string(UnHex(f[3])))
		val := compiled.BuildKey(mkContext(f[4], f[5]))
		return fmt.Sprintf("ok errs=%s val=%s", errsStr(errs), HexS(val))
	case "inline":
		// inline <file> <call template> <inlined template> <elems> <keys>
		var outs []string
		for _, opt := range []bool{true, false} {
			kb, _ := loadFuncs(string(UnHex(f[1])), opt)
			c1, e1 := kb.Compile(string(UnHex(f[2])))
			c2, _ := kb.Compile(string(UnHex(f[3])))
			v1 := c1.BuildKey(mkContext(f[4], f[5]))
			v2 := c2.BuildKey(mkContext(f[4], f[5]))
			if v1 != v2 {
				return fmt.Sprintf("DIFF call=%s inlined=%s opt=%v", HexS(v1), HexS(v2), opt)
			}
			outs = append(outs, fmt.Sprintf("ok errs=%s val=%s", errsStr(e1), HexS(v1)))
		}
		if outs[0] != outs[1] {
			return "DIFF opt=" + outs[0] + " noopt=" + outs[1]
		}
		return outs[0]
	case "ftree":
		return c10FtreeRun(f)
	case "hist":
		return c10HistRun(f)
	case "par":
		// par <w> <template> <elems> <keys>: one compiled expression evaluated from w goroutines
		var w int
		fmt.Sscanf(f[1], "%d", &w)
		kb := funclib.NewKeyBuilderEx(true)
		compiled, errs := kb.Compile(string(UnHex(f[2])))
		want := compiled.BuildKey(mkContext(f[3], f[4]))
		var wg sync.WaitGroup
		bad := make(chan string, w)
		for g := 0; g < w; g++ {
			wg.Add(1)
			go func() {
				defer wg.Done()
				defer func() {
					if e := recover(); e != nil {
						bad <- fmt.Sprint("panic ", e)
					}
				}()
				for k := 0; k < 200; k++ {
					if got := compiled.BuildKey(mkContext(f[3], f[4])); got != want {
						bad <- "DIFF concurrent=" + HexS(got) + " sequential=" + HexS(want)
						return
					}
				}
			}()
		}
		wg.Wait()
		select {
		case b := <-bad:
			return b
		default:
		}
		return fmt.Sprintf("ok errs=%s val=%s", errsStr(errs), HexS(want))
	case "parf":
		// parf <w> <file> <template> <elems> <keys>: one compiled expression that calls funcs-file functions,
		// evaluated from w goroutines, EACH WITH ITS OWN match context (elements suffixed by the goroutine
		// number, as extractor workers see different lines); every result must equal the sequential one
		var w int
		fmt.Sscanf(f[1], "%d", &w)
		kb, _ := loadFuncs(string(UnHex(f[2])), true)
		compiled, errs := kb.Compile(string(UnHex(f[3])))
		mk := func(g int) *expressions.KeyBuilderContextArray {
			c := mkContext(f[4], f[5])
			if g > 0 {
				for i := range c.Elements {
					c.Elements[i] += fmt.Sprintf("#%d", g)
				}
			}
			return c
		}
		want := make([]string, w+1)
		for g := 0; g <= w; g++ {
			want[g] = compiled.BuildKey(mk(g))
		}
		var wg sync.WaitGroup
		bad := make(chan string, w+1)
		for g := 1; g <= w; g++ {
			wg.Add(1)
			go func(g int) {
				defer wg.Done()
				defer func() {
					if e := recover(); e != nil {
						bad <- fmt.Sprint("panic ", e)
					}
				}()
				ctx := mk(g)
				for k := 0; k < 6000; k++ {
					if got := compiled.BuildKey(ctx); got != want[g] {
						bad <- fmt.Sprintf("DIFF worker=%d concurrent=%s sequential=%s", g, HexS(got), HexS(want[g]))
						return
					}
				}
			}(g)
		}
		wg.Wait()
		select {
		case b := <-bad:
			return b
		default:
		}
		return fmt.Sprintf("ok errs=%s val=%s", errsStr(errs), HexS(want[0]))
	case "live", "livef":
		// live <template> / livef <file> <template>: a value defined to vary must still consult the
		// context after optimisation (also when nested in a sub-expression or a user function)
		kb := funclib.NewKeyBuilderEx(true)
		tmpl := string(UnHex(f[1]))
		if f[0] == "livef" {
			kb, _ = loadFuncs(string(UnHex(f[1])), true)
			tmpl = string(UnHex(f[2]))
		}
		compiled, _ := kb.Compile(tmpl)
		cc := &countingCtx{inner: mkContext(".", ".")}
		compiled.BuildKey(cc)
		if cc.n == 0 {
			return "DIFF frozen: the optimiser turned a varying value into a constant"
		}
		return "ok touched=1"
	}
	return "bad-op"
}

type c10g struct{ r *Rand }

// c10CheapInf: the generator of C10 itself also emits `{@for x 1 y}` (MAX_ITERATIONS rounds without arithmetic)
var c10CheapInf = false

var c10Consts = []string{"0", "1", "-1", "5", "10", "3.5", "abc", "\"\"", "\"a b\"", "x", "007", "9223372036854775807", "\" \"", "é"}
var c10Dyn = []string{"{0}", "{1}", "{2}", "{3}", "{src}", "{line}", "{nokey}", "{@}"}

type c10fn struct {
	name     string
	min, max int
}

var c10Fns = []c10fn{
	{"coalesce", 1, 3}, {"bucket", 2, 2}, {"bucketrange", 2, 2}, {"clamp", 3, 3}, {"expbucket", 1, 1}, {"isint", 1, 1}, {"isnum", 1, 1},
	{"sumi", 2, 3}, {"subi", 2, 3}, {"multi", 2, 3}, {"divi", 2, 2}, {"modi", 2, 2}, {"maxi", 2, 3}, {"mini", 2, 3},
	{"sumf", 2, 2}, {"subf", 2, 2}, {"multf", 2, 2}, {"divf", 2, 2}, {"ceil", 1, 1}, {"floor", 1, 1}, {"log10", 1, 1}, {"log2", 1, 1},
	{"ln", 1, 1}, {"pow", 2, 2}, {"sqrt", 1, 1}, {"round", 1, 2}, {"if", 2, 3}, {"switch", 2, 5}, {"unless", 2, 2}, {"eq", 2, 3},
	{"neq", 2, 2}, {"not", 1, 1}, {"lt", 2, 2}, {"gt", 2, 2}, {"lte", 2, 2}, {"gte", 2, 2}, {"and", 1, 3}, {"or", 1, 3},
	{"len", 1, 1}, {"like", 2, 2}, {"prefix", 2, 2}, {"suffix", 2, 2}, {"format", 1, 3}, {"substr", 3, 3}, {"select", 2, 2},
	{"upper", 1, 1}, {"lower", 1, 1}, {"tab", 1, 3}, {"$", 1, 3}, {"@", 1, 3}, {"@len", 1, 1}, {"@map", 2, 2}, {"@split", 1, 2},
	{"@select", 2, 2}, {"@join", 1, 2}, {"@reduce", 2, 3}, {"@filter", 2, 2}, {"@slice", 2, 3}, {"@in", 2, 2}, {"@range", 1, 3},
	{"@for", 3, 3}, {"basename", 1, 1}, {"dirname", 1, 1}, {"extname", 1, 1}, {"lookup", 2, 3}, {"haskey", 2, 3},
	{"hi", 1, 1}, {"hf", 1, 1}, {"bytesize", 1, 2}, {"bytesizesi", 1, 2}, {"downscale", 1, 2}, {"percent", 1, 3}, {"json", 1, 2},
	{"csv", 1, 3}, {"time", 1, 2}, {"timeformat", 1, 2}, {"timeattr", 2, 2}, {"buckettime", 2, 2}, {"duration", 1, 1},
	{"durationformat", 1, 1}, {"color", 2, 2}, {"repeat", 2, 2}, {"bar", 3, 3}, {"!", 1, 3},
}

func (g *c10g) atom(dynOK bool) string {
	if dynOK && g.r.Chance(1, 2) {
		return Pick(g.r, c10Dyn)
	}
	return Pick(g.r, c10Consts)
}

func (g *c10g) expr(depth int, dynOK bool) string {
	if depth <= 0 || g.r.Chance(1, 3) {
		return g.atom(dynOK)
	}
	fn := Pick(g.r, c10Fns)
	n := g.r.Range(fn.min, fn.max)
	if g.r.Chance(1, 25) { // wrong arity now and then
		n = g.r.Intn(5)
	}
	parts := []string{fn.name}
	for i := 0; i < n; i++ {
		a := g.expr(depth-1, dynOK)
		switch fn.name {
		case "repeat":
			if i == 1 {
				a = Pick(g.r, []string{"0", "1", "3", "-1", "{1}"})
			}
		case "round", "percent", "bytesize", "bytesizesi", "downscale":
			if i >= 1 {
				a = Pick(g.r, []string{"0", "1", "2", "5"})
			}
		case "@range":
			a = Pick(g.r, []string{"0", "1", "3", "7", "-2", "{1}"})
		case "@for":
			if i == 1 {
				// bounded by the round index: an unbounded condition runs MAX_ITERATIONS rounds of float parsing in
				// the software-float model (30 s per case); the INF path is kept with a cheap constant condition
				a = Pick(g.r, []string{"\"{lt {1} 4}\"", "\"{and {lt {1} 6} {lt {len {0}} 3}}\"", "\"\""})
				if c10CheapInf && g.r.Chance(1, 40) {
					a = "1"
				}
			}
		case "!":
			if i == 0 {
				a = Pick(g.r, []string{"\"1+2*3\"", "\"[0]*2\"", "\"x+1\"", "\"2^3^2\"", "\"(1+[1])/2\"", "\"7 % 3\"", "\"-x\""})
			}
		case "time":
			if i == 0 && g.r.Chance(1, 3) {
				a = Pick(g.r, []string{"now", "live", "delta"})
			}
		case "format":
			if i == 0 {
				a = Pick(g.r, []string{"\"%s\"", "\"%s-%s\"", "\"%5s|\"", "\"100%%\""})
			}
		}
		parts = append(parts, a)
	}
	return "{" + strings.Join(parts, " ") + "}"
}

func (g *c10g) ctx() ([]string, []string) {
	vals := []string{"", "0", "1", "-5", "42", "3.25", "abc", "a b\x00c", " ", "1e3", "9223372036854775808", "x\xffy", "2021-01-02 03:04:05"}
	n := g.r.Intn(5)
	var el []string
	for i := 0; i < n; i++ {
		el = append(el, Pick(g.r, vals))
	}
	if g.r.Chance(1, 6) {
		for i := range el {
			el[i] = "" // the all-empty context the optimiser probes with
		}
	}
	keys := []string{"src", "file.log", "line", "7", "x", Pick(g.r, vals)}
	return el, keys
}

func c10Gen(r *Rand, tier string) []string {
	g := &c10g{r}
	c10CheapInf = true
	n := 1500
	if tier == "thorough" {
		n = 60000
	}
	var out []string
	for i := 0; i < n; i++ {
		t := g.expr(3, true)
		if r.Chance(1, 4) {
			t = Pick(r, []string{"pre ", "", "\\{", "a\\nb"}) + t + Pick(r, []string{"", " post", "{0}", g.expr(2, false)})
		}
		el, ks := g.ctx()
		if strings.Contains(t, "time live") || strings.Contains(t, "time delta") || strings.Contains(t, "time now") {
			continue
		}
		out = append(out, fmt.Sprintf("optdiff %s %s %s", HexS(normTemplate(t)), HexListS(el), HexListS(ks)))
	}
	// family generators (all helpers, boundary values): the same templates, compared opt vs no-opt
	for _, gen := range exprGens {
		cases := gen(NewRand(r.U64()), "quick")
		for i, c := range cases {
			f := strings.Fields(c)
			if f[0] != "expr" || len(f) != 5 {
				continue
			}
			if tier != "thorough" && i%3 != 0 {
				continue
			}
			if t := string(UnHex(f[2])); strings.Contains(t, "@range -9223372036854775808") {
				continue // MAX_ITERATIONS rounds of 19-digit arithmetic: 5 s in the Lean driver; C17's own check keeps it
			}
			out = append(out, fmt.Sprintf("optdiff %s %s %s", f[2], f[3], f[4]))
		}
	}
	// values defined to vary must not be frozen
	for _, t := range []string{"{time live}", "{time delta}", "a{time live}b", "{sumi {time delta} 1}", "{if 1 {time live}}",
		"{@map \"a\" \"{time live}\"}", "{@filter \"a b\" \"{time delta}\"}", "{@reduce {@ a b} \"{time live}\"}", "{@for 0 \"{lt {1} 2}\" \"{time live}\"}"} {
		out = append(out, "live "+HexS(t))
	}
	for _, ft := range [][2]string{{"mynow {time live}\n", "{mynow x}"}, {"d {time delta}\nw {d {0}}!\n", "{w 1}"}, {"m {@map {0} \"{time live}\"}\n", "{m a}"}} {
		out = append(out, "livef "+HexS(ft[0])+" "+HexS(ft[1]))
	}
	// user functions: definitions files with comments / continuations / later-calls-earlier
	nf := 400
	if tier == "thorough" {
		nf = 12000
	}
	bodies := []string{"{multi {0} 2}", "{0}-{1}", "{sumi {0} {1}}", "{if {0} {1} {2}}", "[{src}:{0}]", "{coalesce {2} none}", "{upper {0}}{lower {1}}",
		"{@map {0} \"{sumi {0} 1}\"}", "{len {0}}", "lit", "{3}", "{eq {0} {1}}"}
	for i := 0; i < nf; i++ {
		var file strings.Builder
		names := []string{"fa", "fb", "fc"}
		used := map[string]string{}
		for k, nm := range names {
			if r.Chance(1, 4) {
				continue
			}
			body := Pick(r, bodies)
			if k > 0 && r.Chance(1, 3) { // later definitions may call earlier ones
				prev := names[r.Intn(k)]
				if _, ok := used[prev]; ok {
					body = "{" + prev + " " + Pick(r, []string{"{0}", "{1}", "7"}) + " " + Pick(r, []string{"{1}", "x"}) + "}"
				}
			}
			used[nm] = body
			if r.Chance(1, 3) {
				file.WriteString("# a comment line\n")
			}
			if r.Chance(1, 4) {
				file.WriteString("\n  \n")
			}
			line := nm + " " + body
			if r.Chance(1, 3) && strings.Contains(body, " ") { // split at a space into a continuation
				idx := strings.Index(line[len(nm)+1:], " ") + len(nm) + 1
				file.WriteString(line[:idx+1] + "\\" + Pick(r, []string{"", " # why"}) + "\n")
				if r.Chance(1, 3) {
					file.WriteString("   # interleaved comment\n")
				}
				file.WriteString("   " + line[idx+1:])
			} else {
				file.WriteString(line)
			}
			if r.Chance(1, 3) {
				file.WriteString("  # trailing comment")
			}
			file.WriteString("\n")
		}
		if r.Chance(1, 10) {
			file.WriteString("broken\n") // missing expression
		}
		if r.Chance(1, 10) {
			file.WriteString("bad {unknownfn 1}\n") // compile error: not added
		}
		nm := Pick(r, append(names, "bad", "broken"))
		nargs := r.Intn(4)
		var args []string
		for k := 0; k < nargs; k++ {
			args = append(args, g.atom(true))
		}
		call := "{" + nm + " " + strings.Join(args, " ") + "}"
		if nargs == 0 {
			call = "{" + nm + " \"\"}"
			args = []string{"\"\""}
		}
		el, ks := g.ctx()
		out = append(out, fmt.Sprintf("funcs %d %s %s %s %s", r.Intn(2), HexS(file.String()), HexS(normTemplate(call)), HexListS(el), HexListS(ks)))
		// hand-inlined body for bodies without binders and without nested user calls
		if body, ok := used[nm]; ok && !strings.Contains(body, "@map") && !strings.Contains(body, "{f") {
			inl := body
			// simultaneous substitution: first mark every {k}, then expand the marks (an argument such as
			// {0} must not be substituted again)
			for k := 3; k >= 0; k-- {
				inl = strings.ReplaceAll(inl, fmt.Sprintf("{%d}", k), fmt.Sprintf("\x03%d\x03", k))
			}
			for k := 3; k >= 0; k-- {
				rep := "\x01\x02"
				if k < len(args) {
					rep = args[k]
					if strings.HasPrefix(rep, "\"") { // a quoted constant is its content
						rep = strings.Trim(rep, "\"")
					}
					if !strings.HasPrefix(rep, "{") {
						rep = "\x01" + rep + "\x02"
					}
				}
				inl = strings.ReplaceAll(inl, fmt.Sprintf("\x03%d\x03", k), rep)
			}
			inl = quoteMarked(inl)
			out = append(out, fmt.Sprintf("inline %s %s %s %s %s", HexS(file.String()), HexS(normTemplate(call)), HexS(normTemplate(inl)), HexListS(el), HexListS(ks)))
		}
		if i%6 == 0 {
			if _, ok := used[nm]; ok {
				out = append(out, fmt.Sprintf("parf %d %s %s %s %s", Pick(r, []int{2, 4, 8}), HexS(file.String()), HexS(normTemplate(call)), HexListS(el), HexListS(ks)))
			}
		}
		if i%8 == 0 {
			out = append(out, fmt.Sprintf("par %d %s %s %s", Pick(r, []int{2, 4, 8}), HexS(normTemplate(g.expr(3, true))), HexListS(el), HexListS(ks)))
		}
	}
	// user functions whose body reads several arguments / named keys, called with dynamic arguments from many
	// goroutines with different matches (what extractor workers do)
	np := 10
	if tier == "thorough" {
		np = 120
	}
	for i := 0; i < np; i++ {
		body := Pick(r, []string{"{0}-{1}", "{sumi {0} {1}}", "{0}@{src}/{1}", "{if {0} {1} {0}}", "{0}{0}{1}{1}", "{coalesce {1} {0}}:{0}"})
		file := "pair " + body + "\nwrap {pair {1} {0}}|{pair {0} {0}}\n"
		call := Pick(r, []string{"{pair {0} {1}}", "{wrap {0} {1}}", "{pair {1} {0}}{pair {0} {1}}", "{pair {sumi {0} 1} {1}}"})
		el := []string{fmt.Sprint(r.Intn(90) + 1), fmt.Sprint(r.Intn(90) + 1)}
		out = append(out, fmt.Sprintf("parf %d %s %s %s %s", Pick(r, []int{4, 8, 16}), HexS(file), HexS(call), HexListS(el), HexListS([]string{"src", "f.log"})))
	}
	// nested funcs-file functions, forward references / recursion, definitions files given as trees
	out = append(out, c10NestCases(r, tier)...)
	// histories through one compiled expression (hidden state: layout cache, pools, per-argument buffers)
	out = append(out, c10HistCases(r, tier)...)
	return out
}

// quoteMarked turns \x01text\x02 into "text" when inside braces (argument position) and into
// plain text outside braces (literal position).
func quoteMarked(s string) string {
	var sb strings.Builder
	depth := 0
	for i := 0; i < len(s); i++ {
		switch s[i] {
		case '{':
			depth++
			sb.WriteByte('{')
		case '}':
			depth--
			sb.WriteByte('}')
		case 1, 2:
			if depth > 0 {
				sb.WriteByte('"')
			}
		default:
			sb.WriteByte(s[i])
		}
	}
	return sb.String()
}

func c10Stats(cases []string) map[string]int {
	st := map[string]int{}
	for _, c := range cases {
		f := strings.Fields(c)
		st["op."+f[0]]++
	}
	return st
}

func init() {
	Register("C10", &Prop{Gen: c10Gen, Run: c10Run, Stats: c10Stats})
}
