package main

// exprGens collects the expression-case generators of the function-family properties so that the
// whole-language properties (C08: no crash, C10: optimisation/user functions) can reuse them.
// Each generator returns case lines that start with "expr <opt> <template> <elems> <keys>".
var exprGens []func(r *Rand, tier string) []string
