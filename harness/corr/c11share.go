//go:build c11 || c08 || c10

package main

func init() { exprGens = append(exprGens, c11Gen) }
