//go:build c11

package main

import (
	"math"
	"strconv"
	"strings"

	"rare/pkg/expressions"
	"rare/pkg/expressions/funclib"
)

// C11 round 4b: `ln` / `log10` / `log2` / `pow` inside the model (lean/Rare/Model/C11Log.lean mirrors math.Log as it
// runs on amd64 – log_amd64.s – and math.Pow).
//
//	lg <ln|log10|log2> <value hex>   {ln {0}} …            -> ok val=<hex>
//	pw <base hex> <exponent hex>     {pow {0} {1}}         -> ok val=<hex>   (model: `unmodelled pow` when math.Exp is reached)
//	spec ln|log10 <value hex>        the same real call against the SPECIFICATION (the documented algorithm on the Frexp
//	                                 decomposition): differs from the code on subnormal arguments only (known finding)
//
// The real side always goes through the compiled helper.

var logCompiled = map[string]*expressions.CompiledKeyBuilder{}

func logEval(tmpl string, elems ...string) string {
	kb, ok := logCompiled[tmpl]
	if !ok {
		kb, _ = funclib.NewKeyBuilderEx(false).Compile(tmpl)
		logCompiled[tmpl] = kb
	}
	if kb == nil {
		return "nil-compiled"
	}
	return "ok val=" + HexS(kb.BuildKey(&expressions.KeyBuilderContextArray{Elements: elems}))
}

func logRun(f []string) (string, bool) {
	switch {
	case len(f) == 3 && f[0] == "lg" && (f[1] == "ln" || f[1] == "log10" || f[1] == "log2"):
		return logEval("{"+f[1]+" {0}}", string(UnHex(f[2]))), true
	case len(f) == 3 && f[0] == "spec" && (f[1] == "ln" || f[1] == "log10"):
		return logEval("{"+f[1]+" {0}}", string(UnHex(f[2]))), true
	case len(f) == 3 && f[0] == "pw":
		return logEval("{pow {0} {1}}", string(UnHex(f[1])), string(UnHex(f[2]))), true
	}
	return "", false
}

// logText spells a bit pattern so that strconv.ParseFloat returns exactly that value (shortest decimal, sometimes a
// hex float, sometimes 17 digits).
func logText(r *Rand, b uint64) string {
	x := math.Float64frombits(b)
	switch r.Intn(5) {
	case 0:
		if !math.IsNaN(x) && !math.IsInf(x, 0) {
			return strconv.FormatFloat(x, 'x', -1, 64)
		}
	case 1:
		return strconv.FormatFloat(x, 'e', 16, 64)
	}
	return strconv.FormatFloat(x, 'g', -1, 64)
}

const logHSqrt2Frac = 0x6A09E667F3BCD // fraction bits of sqrt(2)/2: the rescaling threshold of math.Log

func logArgBits(r *Rand, tier string) []uint64 {
	var out []uint64
	out = append(out, f64Specials...)
	step := 37
	if tier == "thorough" {
		step = 1
	}
	// every binade (thorough) with the fractions at which the code changes branch
	for e := uint64(0); e <= 2046; e += uint64(1 + r.Intn(step)) {
		for _, m := range []uint64{0, 1, logHSqrt2Frac - 1, logHSqrt2Frac, logHSqrt2Frac + 1, 1<<52 - 1, r.U64() & (1<<52 - 1)} {
			out = append(out, e<<52|m)
		}
	}
	// subnormals: powers of two and arbitrary
	for s := 0; s < 52; s += 1 + r.Intn(step)%7 {
		out = append(out, uint64(1)<<uint(s), uint64(1)<<uint(s)|r.U64()&(uint64(1)<<uint(s)-1))
	}
	// powers of ten, small integers, values next to 1
	for e := -323; e <= 308; e += 1 + r.Intn(step)%11 {
		v, _ := strconv.ParseFloat("1e"+strconv.Itoa(e), 64)
		out = append(out, math.Float64bits(v))
	}
	for i := 1; i <= 1100; i += 1 + r.Intn(step) {
		out = append(out, math.Float64bits(float64(i)))
	}
	one := math.Float64bits(1)
	for d := uint64(0); d < 40; d += uint64(1 + r.Intn(step)%5) {
		out = append(out, one+d, one-d, one+d<<20, one-d<<20, one+d<<40, one-d<<40)
	}
	n := 300
	if tier == "thorough" {
		n = 12000
	}
	for i := 0; i < n; i++ {
		b := f64RandBits(r)
		if r.Chance(5, 6) {
			b &^= 1 << 63
		}
		out = append(out, b)
	}
	return out
}

var powBases = []string{"0", "-0", "1", "-1", "2", "-2", "10", "-10", "0.5", "-0.5", "1.5", "-1.5", "3", "7", "0.1", "1e-300", "1e300", "-1e300", "5e-324", "-5e-324",
	"2.2250738585072014e-308", "1.7976931348623157e308", "-1.7976931348623157e308", "Inf", "-Inf", "NaN", "0.9999999999999999", "1.0000000000000002",
	"-0.9999999999999999", "-1.0000000000000002", "1024", "0.0009765625", "9007199254740993", "4", "0.25", "x", ""}
var powExps = []string{"0", "-0", "1", "-1", "2", "-2", "3", "-3", "0.5", "-0.5", "Inf", "-Inf", "NaN", "10", "-10", "22", "23", "-22", "-23", "52", "53", "63", "64", "-64",
	"1022", "1023", "1024", "-1021", "-1022", "-1023", "-1074", "-1075", "1074", "1075", "2047", "4095", "4096", "4097", "-4097", "1e18", "-1e18", "9223372036854775807",
	"9223372036854775808", "-9223372036854775808", "9.3e18", "1e19", "-1e19", "1e300", "-1e300", "9007199254740991", "9007199254740992", "9007199254740993",
	"-9007199254740991", "9007199254740994", "4503599627370497", "1.5", "2.5", "-1.5", "0.25", "1e-300", "5e-324", "0.49999999999999994", "0.5000000000000001", "x", ""}

func logCases(r *Rand, tier string) []string {
	var out []string
	for _, b := range logArgBits(r, tier) {
		t := HexS(logText(r, b))
		switch r.Intn(3) {
		case 0:
			out = append(out, "lg ln "+t)
		case 1:
			out = append(out, "lg log10 "+t)
		default:
			out = append(out, "lg log2 "+t)
		}
		if tier == "thorough" || r.Chance(1, 4) {
			out = append(out, "lg ln "+t, "lg log10 "+t, "lg log2 "+t)
		}
	}
	for _, v := range []string{"x", "", "1e400", "-1e400", " 1", "0x1p-1074", "0x0.8p-1073", "1_0", "+Inf", "-nan"} {
		out = append(out, "lg ln "+HexS(v), "lg log10 "+HexS(v), "lg log2 "+HexS(v))
	}
	// the specification side: normal arguments only (on those it provably agrees with the code's model:
	// `log_agrees_on_normal`), plus the one recorded subnormal witness per helper (known_findings/C11.json)
	out = append(out, "spec ln "+HexS("5e-324"), "spec log10 "+HexS("5e-324"))
	ns := 60
	if tier == "thorough" {
		ns = 3000
	}
	for i := 0; i < ns; i++ {
		b := f64RandBits(r) &^ (1 << 63)
		if e := b >> 52; e == 0 {
			b |= uint64(r.Range(1, 2046)) << 52
		}
		out = append(out, "spec "+Pick(r, []string{"ln", "log10"})+" "+HexS(logText(r, b)))
	}
	// pow
	for _, a := range powBases {
		for _, e := range powExps {
			if tier == "thorough" || r.Chance(1, 4) {
				out = append(out, "pw "+HexS(a)+" "+HexS(e))
			}
		}
	}
	np := 400
	if tier == "thorough" {
		np = 15000
	}
	for i := 0; i < np; i++ {
		var a, e string
		switch r.Intn(4) {
		case 0:
			a = Pick(r, powBases)
		case 1:
			a = strconv.Itoa(r.Range(-30, 30))
		default:
			a = logText(r, f64RandBits(r))
		}
		switch r.Intn(5) {
		case 0:
			e = Pick(r, powExps)
		case 1, 2:
			e = strconv.Itoa(r.Range(-70, 70))
		case 3:
			e = strconv.Itoa(r.Range(-1200, 1200))
		default:
			e = logText(r, f64RandBits(r))
		}
		out = append(out, "pw "+HexS(a)+" "+HexS(e))
	}
	// the same through the expression op: folds {pow a b c}, nesting, constants
	for i := 0; i < np/8; i++ {
		a, b, c := strconv.Itoa(r.Range(-9, 9)), strconv.Itoa(r.Range(-5, 12)), strconv.Itoa(r.Range(-3, 4))
		out = append(out, ExprCase(r.Bool(), "{pow "+a+" {0} "+c+"}|{log2 {pow 2 {0}}}|{log10 {1}}|{ln {pow {1} 2}}", []string{b, Pick(r, powBases)}, nil))
	}
	return out
}

func logStats(cases []string, st map[string]int) {
	for _, c := range cases {
		f := strings.Fields(c)
		if len(f) < 3 {
			continue
		}
		switch f[0] {
		case "lg":
			st["op.lg."+f[1]]++
			if v, err := strconv.ParseFloat(string(UnHex(f[2])), 64); err == nil {
				switch {
				case v > 0 && v < 2.2250738585072014e-308:
					st["op.lg.subnormal"]++
				case v > 0 && math.Float64bits(v)&(1<<52-1) == logHSqrt2Frac:
					st["op.lg.atThreshold"]++
				case v > 0 && math.Float64bits(v)&(1<<52-1) == 0:
					st["op.lg.powerOfTwo"]++
				}
			}
		case "pw":
			st["op.pw"]++
			if v, err := strconv.ParseFloat(string(UnHex(f[2])), 64); err == nil && v == math.Trunc(v) {
				st["op.pw.integralExponent"]++
			}
		case "spec":
			if f[1] == "ln" || f[1] == "log10" {
				st["op.spec-"+f[1]]++
			}
		}
	}
}

func init() {
	c11ExtraGen = append(c11ExtraGen, logCases)
	c11ExtraRun = append(c11ExtraRun, logRun)
	c11ExtraStats = append(c11ExtraStats, logStats)
}
