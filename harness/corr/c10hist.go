//go:build c10 || c08

package main

import (
	"fmt"
	"strings"

	"rare/pkg/expressions"
	"rare/pkg/expressions/funclib"
)

// hist <file hex | -> <template> <keys> <elems 1> <elems 2> …
//
// ONE compiled expression (builtins, plus the definitions file if given) evaluated on several matches in order,
// once compiled with optimisation and once without: the two answer sequences must agree (DIFF otherwise), and the
// model – which has no hidden state – must predict every value of the sequence.  This is the direct test of
// everything a stage closure keeps between evaluations: the date-layout cache of {time}/{buckettime} (model:
// unmodelled, the oracle is the DIFF), pooled sub-contexts carrying the previous match, per-argument buffers.
func c10HistRun(f []string) string {
	if len(f) < 5 {
		return "bad-args"
	}
	tmpl := string(UnHex(f[2]))
	var outs [2]string
	for k, opt := range []bool{true, false} {
		var kb *expressions.KeyBuilder
		if f[1] == "-" {
			kb = funclib.NewKeyBuilderEx(opt)
		} else {
			kb, _ = loadFuncs(string(UnHex(f[1])), opt)
		}
		compiled, errs := kb.Compile(tmpl)
		if compiled == nil {
			outs[k] = "nil-compiled errs=" + errsStr(errs)
			continue
		}
		vals := []string{}
		for _, el := range f[4:] {
			vals = append(vals, HexS(compiled.BuildKey(mkContext(el, f[3]))))
		}
		outs[k] = fmt.Sprintf("ok errs=%s vals=%s", errsStr(errs), strings.Join(vals, ","))
	}
	if outs[0] != outs[1] {
		return "DIFF opt=" + outs[0] + " noopt=" + outs[1]
	}
	return outs[0]
}

var c10Dates = []string{"15", "", "2020-01-15", "01/02/2020 10:00", "2021-01-02 03:04:05", "junk", "02", "2020-02-30",
	"Jan 2 2021", "1609556645", "2020-01-01", "12/31/2019 23:59", "2020-01-15T10:00:00Z", "10:00:00"}

var c10DateExprs = []string{"{0}", "\"2020-01-{0}\"", "{coalesce {0} 2020-01-01}", "\"2020-01-01\"", "\"{0} {1}\"", "\"{0}T{1}Z\"",
	"{1}", "\"2020-{1}-{0}\"", "{if {1} {0} \"01/02/2020 10:00\"}"}

func c10HistCases(r *Rand, tier string) []string {
	g := &c10g{r}
	var out []string
	keys := HexListS([]string{"src", "f.log", "line", "7"})
	mkHist := func(file, tmpl string, ctxs [][]string) string {
		fh := "-"
		if file != "" {
			fh = HexS(file)
		}
		parts := []string{"hist", fh, HexS(normTemplate(tmpl)), keys}
		for _, c := range ctxs {
			parts = append(parts, HexListS(c))
		}
		return strings.Join(parts, " ")
	}
	scale := 1
	if tier == "thorough" {
		scale = 20
	}
	// 1. any helper, several matches through one compiled expression (pooled contexts carry the previous match)
	for i := 0; i < 150*scale; i++ {
		t := g.expr(3, true)
		if strings.Contains(t, "time live") || strings.Contains(t, "time delta") || strings.Contains(t, "time now") {
			continue
		}
		var ctxs [][]string
		for k, n := 0, r.Range(2, 4); k < n; k++ {
			el, _ := g.ctx()
			ctxs = append(ctxs, el)
		}
		out = append(out, mkHist("", t, ctxs))
	}
	// 2. the date-layout cache: top level, inside binders, inside funcs-file functions; dates of several layouts
	dateCtx := func() [][]string {
		var ctxs [][]string
		for k, n := 0, r.Range(2, 5); k < n; k++ {
			ctxs = append(ctxs, []string{Pick(r, c10Dates), Pick(r, c10Dates)})
		}
		return ctxs
	}
	timeFile := "ts {time {0}}\ntb {buckettime {0} day}\ntt {ts \"{0}-{1}\"}\ntm {@map {0} \"{ts {0}}\"}\n"
	for i := 0; i < 150*scale; i++ {
		d := Pick(r, c10DateExprs)
		var t, file string
		switch r.Intn(10) {
		case 0:
			t = fmt.Sprintf("{time %s}", d)
		case 1:
			t = fmt.Sprintf("{time %s %s}", d, Pick(r, []string{"cache", "\"\"", "CACHE"}))
		case 2:
			t = fmt.Sprintf("{buckettime %s %s}", d, Pick(r, []string{"day", "month", "hour"}))
		case 3:
			t = fmt.Sprintf("{timeformat {time %s} RFC3339}|{time %s}", d, Pick(r, c10DateExprs))
		case 4:
			t = fmt.Sprintf("{@map {@ %s %s %s} \"{time {0}}\"}", d, Pick(r, c10DateExprs), Pick(r, []string{"2020-01-01", "\"01/02/2020 10:00\"", "{1}"}))
		case 5:
			t = fmt.Sprintf("{@filter {@ %s 2020-01-01 {1}} \"{gt {time {0}} 0}\"}", d)
		case 6:
			t = fmt.Sprintf("{@reduce {@ %s {1} 2020-01-02} \"{0}/{time {1}}\"}", d)
		case 7:
			file, t = timeFile, fmt.Sprintf("{ts %s}", d)
		case 8:
			file, t = timeFile, Pick(r, []string{"{tb \"2020-01-{0}\"}", "{tt 2020 {0}}", "{tt {1} 01-02}", "{ts {0}}{ts {1}}", "{tm {@ {0} 2020-01-01}}"})
		default:
			file, t = timeFile, fmt.Sprintf("{sumi {ts %s} {ts \"2020-01-{0}\"}}", d)
		}
		out = append(out, mkHist(file, t, dateCtx()))
	}
	// 3. funcs-file functions whose body hands a MULTI-PART argument to a helper, called nested inside their own
	//    arguments, evaluated several times (an argument of two or more stages is a joined stage of its own)
	bodies := []string{"{upper {1}:{0}}", "{lower {0}-{src}-{1}}", "{sumi {0}{1} 1}", "{coalesce \"{1}{0}\"}", "<{upper {0}{0}}|{1}>",
		"{len {1}.{0}.{1}}", "{if {0} {upper x{1}y} {lower {1}{0}}}"}
	calls := []string{"{f {f {0} {1}} {2}}", "{f {2} {f {1} {0}}}", "{f {f {f {0} {1}} {2}} {0}}", "{f {f {0} {1}}{f {1} {2}} {2}}",
		"{f {0}{1} {f {1}{2} {0}}}", "{upper {f {0}-{1} {f {2} {0}.{1}}}}", "{g {0} {1}}", "{g {f {0} {1}} {g {1} {2}}}"}
	vals := []string{"a", "b", "c", "", "7", "x y", "é", "12"}
	for i := 0; i < 60*scale; i++ {
		body := Pick(r, bodies)
		file := "f " + body + "\ng {f {f {1} {0}} {0}:{1}}\n"
		call := Pick(r, calls)
		var ctxs [][]string
		for k, n := 0, r.Range(2, 4); k < n; k++ {
			ctxs = append(ctxs, []string{Pick(r, vals), Pick(r, vals), Pick(r, vals)})
		}
		out = append(out, mkHist(file, call, ctxs))
		out = append(out, fmt.Sprintf("funcs %d %s %s %s %s", r.Intn(2), HexS(file), HexS(call), HexListS(ctxs[0]), keys))
		if i%3 == 0 {
			out = append(out, fmt.Sprintf("parf %d %s %s %s %s", Pick(r, []int{4, 8}), HexS(file), HexS(call), HexListS(ctxs[0]), keys))
		}
	}
	// 4. multi-part arguments of builtins, every worker with its own match (what extractor workers do)
	multi := []string{"{upper {0}-{1}}", "{sumi {0}{1} {1}{0}}", "{coalesce \"{0}{1}{2}\"}", "{lower {src}:{0}:{1}}{upper {1}.{0}}",
		"{if {0} {upper {0}{1}} {lower {1}{0}}}", "{@map {@ {0}{1} {1}{0}} \"{upper {0}!}\"}", "{len {0}{1}{0}{1}}"}
	for i := 0; i < 12*scale; i++ {
		el := []string{fmt.Sprint(r.Intn(900) + 1), Pick(r, vals) + fmt.Sprint(r.Intn(90)), Pick(r, vals)}
		out = append(out, fmt.Sprintf("parf %d - %s %s %s", Pick(r, []int{4, 8, 16}), HexS(Pick(r, multi)), HexListS(el), keys))
	}
	// 5. dates `dateparse.ParseFormat` cannot detect but `time.Parse` accepts under the layout another date left behind
	//    (finding fold-lenient, /repo 1dba502): constant and dynamic, behind binders and funcs-file functions – the
	//    stage answers from its memory, so optimised and unoptimised must agree on every line of every history
	lenient := [][2]string{{"oct 7,  1970", "oct 7, 1970"}, {"12  Feb 2006, 19:17", "12 Feb 2006, 19:17"}, {"7  oct 70", "7 oct 70"},
		{"1  July 2013", "1 July 2013"}, {"2014-04-26 17:24:37.+23", "2014-04-26 17:24:37.123"}, {"May 8,  2009 5:57:51 PM", "May 8, 2009 5:57:51 PM"},
		{"Tue, 11  Jul 2017 16:28:13 +0200", "Tue, 11 Jul 2017 16:28:13 +0200"}}
	lenFile := "ts {time {0}}\ntb {buckettime {0} day}\ntn {ts {0}}\ntm {@map {0} \"{ts {0}}\"}\n"
	for i := 0; i < 70*scale; i++ {
		p := Pick(r, lenient)
		bad, good := p[0], p[1]
		q := func(x string) string { return "\"" + x + "\"" }
		a, b := q(bad), q(good)
		if r.Chance(3, 10) {
			a, b = b, a
		}
		if r.Chance(2, 10) {
			b = "{0}"
		}
		var t, file string
		switch r.Intn(9) {
		case 0:
			t = fmt.Sprintf("{@map {@ %s %s} \"{time {0}}\"}", a, b)
		case 1:
			t = fmt.Sprintf("{@map {@ %s %s {1}} \"{buckettime {0} %s}\"}", a, b, Pick(r, []string{"day", "month", "hour"}))
		case 2:
			t = fmt.Sprintf("{@filter {@ %s %s} \"{gt {time {0}} -99999999999}\"}", a, b)
		case 3:
			t = fmt.Sprintf("{@reduce {@ x %s %s} \"{0}/{time {1}}\"}", a, b)
		case 4:
			file, t = lenFile, fmt.Sprintf("{ts %s}|{ts %s}", a, Pick(r, []string{"{0}", "{1}", b}))
		case 5:
			file, t = lenFile, fmt.Sprintf("{tb %s}|{tb %s}", a, Pick(r, []string{"{0}", "{1}", b}))
		case 6:
			file, t = lenFile, fmt.Sprintf("{tn %s}|{tn {0}}|{ts {1}}", a)
		case 7:
			file, t = lenFile, fmt.Sprintf("{tm {@ %s %s}}", a, b)
		default:
			t = fmt.Sprintf("{time %s}|{time {0}}|{@map {@ %s} \"{time {0} cache}\"}", a, a)
		}
		var ctxs [][]string
		for k, n := 0, r.Range(2, 4); k < n; k++ {
			ctxs = append(ctxs, []string{Pick(r, []string{good, bad, "", "2020-01-01", Pick(r, lenient)[1]}), Pick(r, []string{good, bad, ""})})
		}
		out = append(out, mkHist(file, t, ctxs))
	}
	return out
}
