//go:build c18

package main

// C18, round 4c: HISTORIES on one compiled stage.  `{timeattr}` / `{timeformat}` / `{time}` with an
// explicit format build their closure once per compiled expression and a log is a sequence of
// evaluations of that closure: anything the closure remembers between two lines (a memo of "the
// current day", a cached offset, a reused buffer) is invisible to single evaluations on freshly
// compiled expressions.  The op `zh` evaluates ONE compiled stage on a whole history and the model
// answers every argument on its own from the zone's transition table (no oracle, no memory).
// Histories are built around the zone's transitions: before / after the change, the local midnights
// next to it (a spring-forward day has 23 hours, a fall-back day 25), ascending like a log or shuffled.

import (
	"fmt"
	"sort"
	"strconv"
	"strings"
	"time"
)

// c18Run's part for `zh fn a1 zone table args`.
func c18RunHist(f []string) string {
	hs := func(i int) string { return string(UnHex(f[i])) }
	name := map[string]string{"attr": "timeattr", "fmt": "timeformat", "time": "time"}[f[1]]
	if name == "" {
		return "bad-op"
	}
	// the case must be consistent in itself (the shrinker of `check` edits fields independently): the zone loads and
	// the table describes it at every instant of the history
	z := c18LoadZone(hs(3))
	if !z.ok || z.loc == time.UTC || z.loc == time.Local {
		return "bad-case zone"
	}
	k, outs := c18Eval(name, 3, []string{hs(2), hs(3)}, UnHexListS(f[5]))
	if outs == nil {
		return k
	}
	var instants []string
	if f[1] == "time" {
		instants = outs
	} else {
		instants = UnHexListS(f[5])
	}
	for _, a := range instants {
		if u, err := strconv.ParseInt(a, 10, 64); err == nil {
			wo, wa := c18ZoneAt(z, u)
			if o, ab, ok := c18TabLookup(f[4], u); !ok || o != wo || ab != wa {
				return "bad-case table"
			}
		}
	}
	if k != "." {
		return fmt.Sprintf("ok errs=%s val=%s", k, HexS(outs[0]))
	}
	return fmt.Sprintf("ok errs=%s val=%s", k, HexListS(outs))
}

// c18TabLookup: offset and abbreviation the table `<off>:<abbr>,<from>:<off>:<abbr>,…` has at u.
func c18TabLookup(tab string, u int64) (int, string, bool) {
	off, abbr := 0, ""
	for i, e := range strings.Split(tab, ",") {
		p := strings.Split(e, ":")
		if (i == 0 && len(p) != 2) || (i > 0 && len(p) != 3) {
			return 0, "", false
		}
		if i > 0 {
			t, err := strconv.ParseInt(p[0], 10, 64)
			if err != nil {
				return 0, "", false
			}
			if u < t {
				break
			}
			p = p[1:]
		}
		o, err := strconv.Atoi(p[0])
		if err != nil {
			return 0, "", false
		}
		off, abbr = o, string(UnHex(p[1]))
	}
	return off, abbr, true
}

// c18LocalMidnight: the instant `time.Date` gives for 00:00 of the local day `days` days after the one of u.
func c18LocalMidnight(z c18Zone, u int64, days int) int64 {
	t := time.Unix(u, 0).In(z.loc)
	return time.Date(t.Year(), t.Month(), t.Day()+days, 0, 0, 0, 0, z.loc).Unix()
}

// c18HistInstants draws the instants of one history around base.
func c18HistInstants(r *Rand, z c18Zone, base int64) []int64 {
	n := r.Range(2, 12)
	var us []int64
	switch r.Intn(6) {
	case 4, 5: // shortly before base (a change of offset, mostly), later that local day, then the first hours of the next local day
		first := base - 1 - int64(r.Intn(7000))
		us = append(us, first)
		for i := 2; i < n; i++ {
			us = append(us, base+int64(r.Intn(40000)))
		}
		us = append(us, c18LocalMidnight(z, first, 1)+int64(r.Intn(2*3600)))
		if r.Chance(1, 4) {
			us = append(us, c18LocalMidnight(z, first, 2)+int64(r.Intn(2*3600)))
		}
		sort.Slice(us, func(i, j int) bool { return us[i] < us[j] })
	case 0: // a log: ascending, from shortly before base
		u := base - int64(r.Intn(4*3600))
		for i := 0; i < n; i++ {
			us = append(us, u)
			u += Pick(r, []int64{0, 1, 59, 60, 599, 1800, 3600, 3601, 7200, 20000, 43200, 80000, 86400})
		}
	case 1, 2: // around the local midnights next to base: the day of base, the next one, the one after
		for i := 0; i < n; i++ {
			switch r.Intn(5) {
			case 0:
				us = append(us, base-1-int64(r.Intn(7200)))
			case 1:
				us = append(us, base+int64(r.Intn(50000)))
			default:
				m := c18LocalMidnight(z, base, r.Intn(4)-1)
				if r.Chance(2, 3) {
					us = append(us, m+int64(r.Intn(5400)))
				} else {
					us = append(us, m-1-int64(r.Intn(5400)))
				}
			}
		}
		if r.Chance(3, 4) {
			sort.Slice(us, func(i, j int) bool { return us[i] < us[j] })
		}
	default: // anywhere within two days, with revisits
		for i := 0; i < n; i++ {
			if i > 1 && r.Chance(1, 4) {
				us = append(us, us[r.Intn(i)])
			} else {
				us = append(us, base+int64(r.Intn(4*86400))-2*86400)
			}
		}
	}
	return us
}

// c18HistCase: one `zh` case for the IANA zone z ("" when no history fits the table).
func c18HistCase(r *Rand, z c18Zone) string {
	c := c18HistCase1(r, z)
	if c != "" && strings.HasPrefix(c18RunHist(strings.Fields(c)), "bad-case") {
		return "" // an instant outside the table
	}
	return c
}

func c18HistCase1(r *Rand, z c18Zone) string {
	tr := c18Transitions[z.arg]
	var base int64
	if len(tr) > 0 && r.Chance(7, 10) {
		base = Pick(r, tr)
		if r.Chance(1, 3) { // the day before / after the change
			base += Pick(r, []int64{-86400, 86400, -43200, 43200})
		}
	} else {
		base = c18Instant(r, z)
	}
	if base < 10*86400 || base > c18Max-10*86400 || (len(tr) > 0 && base > tr[len(tr)-1]-10*86400) {
		return "" // the table is complete only up to the last transition ZoneBounds reports
	}
	us := c18HistInstants(r, z, base)
	tab := c18Table(z, base)
	k := r.Intn(100)
	switch {
	case k < 60:
		a := c18RandCase(r, Pick(r, []string{"weekday", "week", "yearweek", "quarter"}))
		args := make([]string, len(us))
		for i, u := range us {
			args[i] = strconv.FormatInt(u, 10)
			if r.Chance(1, 40) {
				args[i] = Pick(r, c18BadInts)
			}
		}
		return fmt.Sprintf("zh attr %s %s %s %s", HexS(a), HexS(z.arg), tab, HexListS(args))
	case k < 85:
		f := c18PickFormat(r)
		args := make([]string, len(us))
		for i, u := range us {
			args[i] = strconv.FormatInt(u, 10)
			if r.Chance(1, 40) {
				args[i] = Pick(r, c18BadInts)
			}
		}
		return fmt.Sprintf("zh fmt %s %s %s %s", HexS(f), HexS(z.arg), tab, HexListS(args))
	default: // texts without zone: the table alone decides the instant (gaps and overlaps included)
		f := Pick(r, c18ZonelessLayouts)
		layout, named := c18Layouts[f]
		if !named {
			layout = f
		}
		args := make([]string, len(us))
		for i, u := range us {
			t := time.Unix(u, 0).In(z.loc)
			args[i] = t.Format(layout)
			if r.Chance(1, 5) { // the wall clock shifted back: into the gap just after a spring-forward change
				_, o := t.Zone()
				args[i] = time.Unix(u+int64(o)-Pick(r, []int64{1, 1800, 3600}), 0).UTC().Format(layout)
			}
			if r.Chance(1, 30) {
				// a damaged text; one that still parses must stay inside the table (a changed year digit leaves it)
				m := c18Mutate(r, args[i])
				if pt, err := time.ParseInLocation(layout, m, z.loc); err != nil || (pt.Unix() > base-300*86400 && pt.Unix() < base+300*86400) {
					args[i] = m
				}
			}
		}
		return fmt.Sprintf("zh time %s %s %s %s", HexS(f), HexS(z.arg), tab, HexListS(args))
	}
}

// c18HistStats: how many histories cross a local-day boundary / an offset change.
func c18HistStats(f []string, st map[string]int) {
	st["zh."+f[1]]++
	args := UnHexListS(f[5])
	st["zh.evaluations"] += len(args)
	if f[1] == "time" {
		return
	}
	z := c18LoadZone(string(UnHex(f[3])))
	days, offs := map[string]bool{}, map[int]bool{}
	for _, a := range args {
		if u, err := strconv.ParseInt(strings.TrimSpace(a), 10, 64); err == nil {
			t := time.Unix(u, 0).In(z.loc)
			days[t.Format("2006-01-02")] = true
			_, o := t.Zone()
			offs[o] = true
		}
	}
	if len(days) > 1 {
		st["zh.crosses-local-midnight"]++
	}
	if len(offs) > 1 {
		st["zh.crosses-offset-change"]++
	}
}
