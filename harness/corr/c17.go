//go:build c17 || c08 || c10

package main

import (
	"fmt"
	"strconv"
	"strings"
	"sync"

	"rare/pkg/expressions"
	"rare/pkg/expressions/funclib"
	"rare/pkg/stringSplitter"
)

// C17 – array helpers obey list semantics.
//
// Ops:
//   expr <opt> <template> <elements> <keys>              shared expression op (real funclib vs model)
//   splitter <S> <Delim>                                 drain the real stringSplitter.Splitter
//   conc <G> <rounds> <opt> <template> <elements> <keys> compile once, evaluate from G goroutines (each with
//                                                        its own context) and compare with sequential results;
//                                                        the answer for goroutine 0's context is the `expr` answer

// set by c17spec.go (build tag c17 only): specification-level ops and their generator
var c17Extra func(f []string) (string, bool)
var c17ExtraGen func(r *Rand, tier string) []string

// set by c17pool.go (build tag c17 only): pool / overlap ops, their generator, and the child-process isolation
var c17PoolRun func(f []string) (string, bool)
var c17PoolGen func(r *Rand, tier string) []string
var c17Isolate func(f []string) string

// set by c17heap.go (build tag c17 only): the heap-machine op `heapm` and its generator
var c17HeapRun func(f []string) (string, bool)
var c17HeapGen func(r *Rand, tier string) []string

func c17Run(f []string) string {
	if s, ok := exprRun(f); ok {
		return canonPanic(s)
	}
	if c17Extra != nil {
		if s, ok := c17Extra(f); ok {
			return s
		}
	}
	if c17PoolRun != nil {
		if s, ok := c17PoolRun(f); ok {
			return s
		}
	}
	if c17HeapRun != nil {
		if s, ok := c17HeapRun(f); ok {
			return s
		}
	}
	switch f[0] {
	case "splitter":
		sp := stringSplitter.Splitter{S: string(UnHex(f[1])), Delim: string(UnHex(f[2]))}
		var out []string
		limit := len(sp.S) + 2
		for i := 0; !sp.Done(); i++ {
			if i > limit {
				return "hang"
			}
			out = append(out, sp.Next())
		}
		return "ok " + HexListS(out)
	case "conc":
		return c17Conc(f)
	}
	return "bad-op"
}

func canonPanic(s string) string {
	if strings.HasPrefix(s, "panic") {
		return "panic"
	}
	return s
}

// goroutine g evaluates against its own context: elements rotated by g, every key value suffixed.
func c17Ctx(elems, keys string, g int) *expressions.KeyBuilderContextArray {
	ctx := mkContext(elems, keys)
	if g == 0 {
		return ctx
	}
	n := len(ctx.Elements)
	rot := make([]string, n)
	for i := range rot {
		rot[i] = ctx.Elements[(i+g)%n]
	}
	ctx.Elements = rot
	for k, v := range ctx.Keys {
		ctx.Keys[k] = v + "#" + strconv.Itoa(g)
	}
	return ctx
}

func c17Conc(f []string) string {
	if len(f) != 7 {
		return "bad-args"
	}
	G, _ := strconv.Atoi(f[1])
	rounds, _ := strconv.Atoi(f[2])
	kb := funclib.NewKeyBuilderEx(f[3] == "1")
	compiled, errs := kb.Compile(string(UnHex(f[4])))
	if compiled == nil {
		return "nil-compiled errs=" + errsStr(errs)
	}
	// sequential references, one per goroutine context
	want := make([]string, G)
	for g := 0; g < G; g++ {
		want[g] = compiled.BuildKey(c17Ctx(f[5], f[6], g))
	}
	var wg sync.WaitGroup
	bad := make([]string, G)
	start := make(chan struct{})
	for g := 0; g < G; g++ {
		wg.Add(1)
		go func(g int) {
			defer wg.Done()
			defer func() {
				if e := recover(); e != nil {
					bad[g] = fmt.Sprintf("panic:%v", e)
				}
			}()
			ctx := c17Ctx(f[5], f[6], g)
			<-start
			for r := 0; r < rounds; r++ {
				if got := compiled.BuildKey(ctx); got != want[g] {
					bad[g] = fmt.Sprintf("g%d-round%d:%s!=%s", g, r, HexS(got), HexS(want[g]))
					return
				}
			}
		}(g)
	}
	close(start)
	wg.Wait()
	for _, b := range bad {
		if b != "" {
			return "conc-mismatch " + strings.ReplaceAll(b, " ", "_")
		}
	}
	return fmt.Sprintf("ok errs=%s val=%s", errsStr(errs), HexS(want[0]))
}

// ---------------------------------------------------------------- generator

type c17Gen struct {
	r     *Rand
	depth int
}

var c17Words = []string{"a", "b", "ab", "aa", "x", "", "abc", "é", "世", "1", "2", "10", "-3", "b,a", "a b", " ", "0", "xx", "aab", "é世"}
var c17Delims = []string{",", ";", "ab", "aa", "é", "世", "--", "a,", "€x", "::", "|", "\" \"", "aba", "b", "世é", ",,", "abab"}
var c17Keys = []string{"k", "arr", "d", "n", "missing"}

// arbitrary element strings (no NUL: elements are what sits between separators)
func (g *c17Gen) word() string {
	r := g.r
	if r.Chance(1, 8) {
		n := r.Intn(5)
		b := make([]byte, n)
		for i := range b {
			b[i] = byte(1 + r.Intn(255))
		}
		return string(b)
	}
	if r.Chance(1, 6) {
		return Pick(r, c17Words) + Pick(r, c17Words) + Pick(r, c17Words)
	}
	return Pick(r, c17Words)
}

func (g *c17Gen) list() []string {
	n := g.r.Intn(6)
	if g.r.Chance(1, 10) {
		n = g.r.Intn(12)
	}
	out := make([]string, n)
	for i := range out {
		out[i] = g.word()
		if g.r.Chance(1, 5) {
			out[i] = ""
		}
	}
	return out
}

// a literal usable as a bare template argument (no braces, quotes, backslashes, spaces)
func (g *c17Gen) lit() string {
	return Pick(g.r, []string{"a", "b", "ab", "x", "1", "2", "0", "-1", "é", "世", "abc", "aa", "3", "\"\"", "\"a b\"", "\" \""})
}

func (g *c17Gen) intArg() string {
	r := g.r
	switch r.Intn(12) {
	case 0:
		return Pick(r, []string{"9223372036854775807", "-9223372036854775808", "9223372036854775806", "-9223372036854775807", "4611686018427387904", "9223372036854775808", "99999999999999999999"})
	case 1:
		return Pick(r, []string{"x", "\"\"", "1.5", "{0}", "{n}", "+2", "-0", "007", "1e3", "0x10"})
	case 2:
		return strconv.Itoa(r.Range(-40, 40))
	default:
		return strconv.Itoa(r.Range(-8, 8))
	}
}

// a scalar expression over {0}, {1}, keys and literals; d = remaining nesting depth
func (g *c17Gen) scalar(d int) string {
	r := g.r
	if d <= 0 || r.Chance(1, 4) {
		switch r.Intn(8) {
		case 0, 1, 2:
			return "{0}"
		case 3, 4:
			return "{1}"
		case 5:
			return "{" + Pick(r, c17Keys) + "}"
		case 6:
			return Pick(r, []string{"{2}", "{-1}", "{-9223372036854775808}", "{99}", "{9223372036854775807}"})
		default:
			return g.lit()
		}
	}
	a, b, c := g.scalar(d-1), g.scalar(d-1), g.scalar(d-1)
	switch r.Intn(16) {
	case 0:
		return "{eq " + a + " " + b + "}"
	case 1:
		return "{neq " + a + " " + b + "}"
	case 2:
		return "{not " + a + "}"
	case 3:
		return "{and " + a + " " + b + "}"
	case 4:
		return "{or " + a + " " + b + "}"
	case 5:
		return "{if " + a + " " + b + " " + c + "}"
	case 6:
		return "{if " + a + " " + b + "}"
	case 7:
		return "{unless " + a + " " + b + "}"
	case 8:
		return "{coalesce " + a + " " + b + "}"
	case 9:
		return "{switch " + a + " " + b + " " + c + "}"
	case 10:
		return "\"" + a + "-" + b + "\"" // concatenation inside one argument
	case 11:
		return "{@ " + a + " " + b + "}" // produces separators inside an element
	case 12: // scalar helpers outside the model (answer: unmodelled; oracle = no panic)
		return Pick(r, []string{"{upper " + a + "}", "{sumi " + a + " " + b + "}", "{len " + a + "}", "{prefix " + a + " " + b + "}", "{lt " + a + " " + b + "}"})
	case 13:
		return "{@len " + a + "}"
	case 14:
		return "{@select " + a + " " + g.intArg() + "}"
	default:
		return "{eq " + a + " " + g.lit() + "}"
	}
}

// an array-valued expression
func (g *c17Gen) array(d int) string {
	r := g.r
	if d <= 0 || r.Chance(1, 3) {
		switch r.Intn(8) {
		case 0, 1, 2:
			return "{" + strconv.Itoa(r.Intn(3)) + "}"
		case 3:
			return "{arr}"
		case 4:
			n := r.Intn(5)
			parts := []string{"{@"}
			for i := 0; i < n; i++ {
				parts = append(parts, g.lit())
			}
			return strings.Join(parts, " ") + "}"
		case 5:
			return "{@range " + strconv.Itoa(r.Range(-3, 6)) + "}"
		case 6:
			return "\"\""
		default:
			return "{@split {" + strconv.Itoa(r.Intn(3)) + "} " + Pick(r, c17Delims) + "}"
		}
	}
	a := g.array(d - 1)
	switch r.Intn(8) {
	case 0:
		return "{@map " + a + " " + g.scalar(d-1) + "}"
	case 1:
		return "{@filter " + a + " " + g.scalar(d-1) + "}"
	case 2:
		return "{@slice " + a + " " + g.intArg() + " " + g.intArg() + "}"
	case 3:
		return "{@slice " + a + " " + g.intArg() + "}"
	case 4:
		return "{@ " + a + " " + g.array(d-1) + "}"
	case 5:
		return "{$ " + a + " " + g.scalar(d-1) + "}"
	case 6:
		return "{@split {@join " + a + " " + Pick(r, c17Delims) + "} " + Pick(r, c17Delims) + "}"
	default:
		return a
	}
}

func (g *c17Gen) rangeExpr() string {
	r := g.r
	small := func() string { return strconv.Itoa(r.Range(-12, 12)) }
	switch r.Intn(10) {
	case 0:
		return "{@range " + small() + "}"
	case 1:
		return "{@range " + small() + " " + small() + "}"
	case 2, 3, 4:
		return "{@range " + small() + " " + small() + " " + strconv.Itoa(r.Range(-4, 4)) + "}"
	case 5: // near the int64 limits: the counter must not wrap
		base := Pick(r, []int64{9223372036854775807, -9223372036854775808})
		if base > 0 {
			st := base - int64(r.Intn(40))
			return fmt.Sprintf("{@range %d %d %d}", st, base-int64(r.Intn(3)), r.Range(1, 9))
		}
		st := base + int64(r.Intn(40))
		return fmt.Sprintf("{@range %d %d %d}", st, base+int64(r.Intn(3)), -r.Range(1, 9))
	case 6: // huge strides over the whole range
		return fmt.Sprintf("{@range %s %s %s}",
			Pick(r, []string{"-9223372036854775808", "-9223372036854775807", "0", "-5"}),
			Pick(r, []string{"9223372036854775807", "9223372036854775806", "5"}),
			Pick(r, []string{"9223372036854775807", "4611686018427387904", "3074457345618258603", "6148914691236517205"}))
	case 7:
		return fmt.Sprintf("{@range %s %s %s}",
			Pick(r, []string{"9223372036854775807", "0", "7"}),
			Pick(r, []string{"-9223372036854775808", "-9223372036854775807", "-7"}),
			Pick(r, []string{"-9223372036854775808", "-9223372036854775807", "-4611686018427387904", "-3074457345618258603"}))
	case 8: // not numbers / dynamic
		return "{@range " + g.intArg() + " " + g.intArg() + " " + g.intArg() + "}"
	default:
		return "{@range {0} {1} {2}}"
	}
}

func (g *c17Gen) forExpr() string {
	r := g.r
	n := r.Range(0, 7)
	switch r.Intn(8) {
	case 0, 1: // bounded by the index
		return fmt.Sprintf("{@for %s {neq {1} %d} %s}", g.lit(), n, g.scalar(2))
	case 2: // grows until a target
		return fmt.Sprintf("{@for a {neq {0} %s} \"{0}a\"}", strings.Repeat("a", n+1))
	case 3: // key resolved in the enclosing match
		return fmt.Sprintf("{@for {k} {not {eq {1} %d}} \"{0}{d}\"}", n)
	case 4: // empty leading values
		return fmt.Sprintf("{@for \"\" {neq {1} %d} {if {eq {1} 1} b \"\"}}", n)
	case 5: // condition false from the start / only white space
		return fmt.Sprintf("{@for %s %s %s}", g.lit(), Pick(r, []string{"\"\"", "\" \"", "{missing}", "{eq a b}"}), g.scalar(1))
	case 6: // nested in a map: sub-context inside sub-context
		return fmt.Sprintf("{@map %s {@for {0} {neq {1} %d} \"{0}{k}\"}}", g.array(1), r.Intn(4))
	default:
		return fmt.Sprintf("{@for %s {and {neq {1} %d} %s} %s}", g.scalar(1), n, g.scalar(2), g.scalar(2))
	}
}

func (g *c17Gen) template() string {
	r := g.r
	d := r.Range(0, 3)
	var t string
	switch r.Intn(20) {
	case 0:
		t = "{@len " + g.array(d) + "}"
	case 1:
		t = "{@split {" + strconv.Itoa(r.Intn(3)) + "} " + Pick(r, c17Delims) + "}"
	case 2:
		t = "{@join " + g.array(d) + " " + Pick(r, c17Delims) + "}"
	case 3: // the round trip itself
		dl := Pick(r, c17Delims)
		t = "{@join {@split {" + strconv.Itoa(r.Intn(3)) + "} " + dl + "} " + dl + "}"
	case 4:
		dl := Pick(r, c17Delims)
		t = "{@split {@join " + g.array(d) + " " + dl + "} " + dl + "}"
	case 5, 6:
		t = "{@select " + g.array(d) + " " + g.intArg() + "}"
	case 7, 8:
		t = "{@slice " + g.array(d) + " " + g.intArg() + Pick(r, []string{"", "", " " + g.intArg()}) + "}"
	case 9, 10:
		t = "{@map " + g.array(d) + " " + g.scalar(3) + "}"
	case 11, 12:
		t = "{@filter " + g.array(d) + " " + g.scalar(3) + "}"
	case 13, 14:
		t = "{@reduce " + g.array(d) + " " + g.scalar(3) + Pick(r, []string{"", "", " " + g.lit(), " {k}"}) + "}"
	case 15:
		t = "{@in " + g.scalar(1) + " " + Pick(r, []string{g.array(1), "{@ a b ab}", "{@ \"\" x}", "{0}", "\"\""}) + "}"
	case 16:
		t = g.rangeExpr()
	case 17:
		t = g.forExpr()
	case 18:
		parts := []string{Pick(r, []string{"{@", "{$"})}
		for i, n := 0, r.Intn(5); i < n; i++ {
			parts = append(parts, Pick(r, []string{g.scalar(1), g.array(1), g.lit()}))
		}
		t = strings.Join(parts, " ") + "}"
	default:
		t = g.array(3)
	}
	// malformed stream: wrong arity, delimiters that are empty / dynamic, text around the statement.
	// (@for templates only get the arity/context mutations: rewriting their condition can make a loop
	// whose values grow for a million rounds, which exhausts memory in the real code as well.)
	mut := r.Intn(25)
	if strings.Contains(t, "@for") && mut != 1 && mut != 2 {
		mut = 24
	}
	switch mut {
	case 0:
		t = strings.Replace(t, " ", " x ", 1)
	case 1:
		if i := strings.LastIndex(t, " "); i > 0 {
			t = t[:i] + "}"
		}
	case 2:
		t = "pre-" + t + "-post"
	case 3:
		t = strings.Replace(t, Pick(r, c17Delims), Pick(r, []string{"\"\"", "{1}", "{d}"}), 1)
	case 4:
		t = t + t
	}
	return t
}

func (g *c17Gen) context() ([]string, []string) {
	r := g.r
	n := 3
	if r.Chance(1, 6) {
		n = r.Intn(3)
	}
	elems := make([]string, n)
	for i := range elems {
		kind := r.Intn(4)
		if r.Chance(2, 3) {
			kind = i // {0}: an array, {1}: something to split, {2}: a number
		}
		switch kind {
		case 0: // an array handed in by the match
			elems[i] = strings.Join(g.list(), "\x00")
		case 1: // something to split
			parts := g.list()
			elems[i] = strings.Join(parts, strings.Trim(Pick(r, c17Delims), "\""))
		case 2:
			elems[i] = strconv.Itoa(r.Range(-9, 9))
		default:
			elems[i] = g.word()
		}
	}
	keys := []string{}
	for _, k := range c17Keys[:4] {
		if r.Chance(3, 4) {
			v := g.word()
			if k == "arr" {
				v = strings.Join(g.list(), "\x00")
			}
			if k == "n" {
				v = strconv.Itoa(r.Range(-5, 5))
			}
			keys = append(keys, k, v)
		}
	}
	return elems, keys
}

func c17GenCases(r *Rand, tier string) []string {
	g := &c17Gen{r: r}
	n, nSplit, nConc := 2500, 600, 60
	if tier == "thorough" {
		n, nSplit, nConc = 60000, 20000, 600
	}
	var out []string
	// every run to the iteration cap costs the model about two seconds: keep them few
	infBudget := 3
	if tier == "thorough" {
		infBudget = 10
	}
	for i := 0; i < n; i++ {
		t := g.template()
		elems, keys := g.context()
		line := ExprCase(i%2 == 1, t, elems, keys)
		if strings.Contains(t, "@range") && (strings.Contains(t, "92233720368547758") || strings.Contains(t, "4611686018427387904")) {
			if strings.Contains(c17Run(strings.Fields(line)), "3c494e463e") { // "<INF>"
				if infBudget == 0 {
					continue
				}
				infBudget--
			}
		}
		out = append(out, line)
	}
	// the splitter on its own: arbitrary bytes, delimiters of 1..4 bytes
	for i := 0; i < nSplit; i++ {
		dl := []byte(strings.Trim(Pick(r, c17Delims), "\""))
		if r.Chance(1, 3) {
			dl = make([]byte, r.Range(1, 4))
			for j := range dl {
				dl[j] = Pick(r, []byte{'a', 'b', 0, 0xc3, 0xa9})
			}
		}
		var sb []byte
		for j, m := 0, r.Intn(7); j < m; j++ {
			switch r.Intn(4) {
			case 0:
				sb = append(sb, dl...)
			case 1:
				sb = append(sb, dl[:r.Intn(len(dl)+1)]...)
			default:
				sb = append(sb, Pick(r, []byte{'a', 'b', 0, 0xc3, 0xa9, 'x'}))
			}
		}
		out = append(out, fmt.Sprintf("splitter %s %s", Hex(sb), Hex(dl)))
	}
	// concurrency: pooled sub-contexts under 1..8 goroutines
	for i := 0; i < nConc; i++ {
		var t string
		switch r.Intn(5) {
		case 0:
			t = "{@map " + g.array(2) + " \"{0}{k}\"}"
		case 1:
			t = "{@filter " + g.array(2) + " {neq {0} {k}}}"
		case 2:
			t = "{@reduce " + g.array(2) + " \"{0}{d}{1}\"}"
		case 3:
			t = fmt.Sprintf("{@for {k} {neq {1} %d} \"{0}{d}\"}", r.Range(1, 6))
		default:
			t = "{@map " + g.array(1) + " {@filter {arr} {neq {0} {k}}}}"
		}
		elems, keys := g.context()
		if len(elems) == 0 {
			elems = []string{"a\x00b\x00c"}
		}
		out = append(out, fmt.Sprintf("conc %d %d %s", r.Range(1, 8), Pick(r, []int{1, 20, 200}), ExprCase(r.Bool(), t, elems, keys)[5:]))
	}
	// a few runs to the iteration cap (expensive: one million rounds each)
	infs := []string{"{@for a 1 b}", "{@for {0} {k} {0}}"}
	if tier == "thorough" {
		infs = append(infs, "{@for \"\" x \"\"}", "{@map {@ a b} {@for {0} 1 {1}}}")
	}
	for i, t := range infs {
		out = append(out, ExprCase(i%2 == 0, t, []string{"q"}, []string{"k", "yes"}))
	}
	if c17ExtraGen != nil {
		out = append(out, c17ExtraGen(r, tier)...)
	}
	if c17PoolGen != nil {
		out = append(out, c17PoolGen(r, tier)...)
	}
	if c17HeapGen != nil {
		out = append(out, c17HeapGen(r, tier)...)
	}
	if tier == "thorough" {
		out = append(out, c17Exhaustive()...)
	}
	return out
}

// exhaustive small enumerations (tests, not proof)
func c17Exhaustive() []string {
	var out []string
	// all strings over {a,b} up to length 7 x delimiters: splitter, @split and the join/split round trip
	var strs []string
	var rec func(cur string)
	rec = func(cur string) {
		strs = append(strs, cur)
		if len(cur) < 7 {
			rec(cur + "a")
			rec(cur + "b")
		}
	}
	rec("")
	for _, s := range strs {
		for _, d := range []string{"a", "ab", "aa", "aba", "abab"} {
			out = append(out, fmt.Sprintf("splitter %s %s", HexS(s), HexS(d)))
			if len(s) <= 5 {
				out = append(out, ExprCase(false, "{@join {@split {0} "+d+"} "+d+"}", []string{s}, nil))
			}
		}
	}
	// all arrays of length 0..4 (with empty elements) x start -6..6 x len absent,-1..5: @slice, @select
	elems := []string{"", "x", "y"}
	var arrs [][]string
	var rec2 func(cur []string)
	rec2 = func(cur []string) {
		arrs = append(arrs, cur)
		if len(cur) < 4 {
			for _, e := range elems {
				rec2(append(append([]string{}, cur...), e))
			}
		}
	}
	rec2(nil)
	for ai, a := range arrs {
		arr := strings.Join(a, "\x00")
		for st := -6; st <= 6; st++ {
			out = append(out, ExprCase(ai%2 == 0, fmt.Sprintf("{@select {0} %d}", st), []string{arr}, nil))
			out = append(out, ExprCase(ai%2 == 0, fmt.Sprintf("{@slice {0} %d}", st), []string{arr}, nil))
			for ln := -1; ln <= 5; ln++ {
				out = append(out, ExprCase(ai%2 == 1, fmt.Sprintf("{@slice {0} %d %d}", st, ln), []string{arr}, nil))
			}
		}
		out = append(out, ExprCase(false, "{@len {0}}", []string{arr}, nil))
		out = append(out, ExprCase(false, "{@filter {0} {0}}", []string{arr}, nil))
		out = append(out, ExprCase(false, "{@reduce {0} \"{0}+{1}\"}", []string{arr}, nil))
		out = append(out, ExprCase(false, "{@map {0} \"<{0}>\"}", []string{arr}, nil))
	}
	// all ranges with start, stop in -5..5 and increment -3..3
	for a := -5; a <= 5; a++ {
		for b := -5; b <= 5; b++ {
			for c := -3; c <= 3; c++ {
				out = append(out, ExprCase(c%2 == 0, fmt.Sprintf("{@range %d %d %d}", a, b, c), nil, nil))
			}
		}
	}
	return out
}

func c17Stats(cases []string) map[string]int {
	st := map[string]int{}
	for _, c := range cases {
		f := strings.Fields(c)
		st["op."+f[0]]++
		var t string
		switch f[0] {
		case "expr":
			t = string(UnHex(f[2]))
			st["opt."+f[1]]++
			if strings.Contains(strings.Join(UnHexListS(f[3]), ""), "\x00") {
				st["ctx.elementWithSeparators"]++
			}
			if strings.Contains(f[3], "-") {
				st["ctx.emptyElement"]++
			}
		case "conc":
			t = string(UnHex(f[4]))
			st["conc.goroutines."+f[1]]++
		case "splitter":
			st[fmt.Sprintf("splitter.delimLen.%d", len(UnHex(f[2])))]++
			continue
		case "wf":
			t = string(UnHex(f[2]))
		case "spec":
			st["spec."+f[1]]++
			continue
		case "pool":
			st["pool.size."+f[1]]++
			continue
		case "heapm":
			st["heapm.pool."+f[1]]++
			st[fmt.Sprintf("heapm.helpers.%d", strings.Count(f[3], "M")+strings.Count(f[3], "F")+strings.Count(f[3], "R")+strings.Count(f[3], "O"))]++
			continue
		case "overlap":
			t = string(UnHex(f[2]))
			st[fmt.Sprintf("overlap.workers.%d", (len(f)-4)/2)]++
		default:
			continue
		}
		for _, fn := range []string{"@len", "@split", "@join", "@select", "@slice", "@map", "@filter", "@reduce", "@in", "@range", "@for", "{@ ", "{$ "} {
			if strings.Contains(t, "{"+strings.TrimPrefix(fn, "{")) {
				st["func."+strings.TrimSpace(strings.TrimPrefix(fn, "{"))]++
			}
		}
		if strings.Contains(t, "9223372036854775") {
			st["arg.hugeInt"]++
		}
		if strings.Contains(t, " -") {
			st["arg.negativeInt"]++
		}
		if strings.ContainsAny(t, "é世€") {
			st["tmpl.multiByteRune"]++
		}
		dep, maxDep := 0, 0
		for _, ch := range t {
			if ch == '{' {
				dep++
				if dep > maxDep {
					maxDep = dep
				}
			} else if ch == '}' {
				dep--
			}
		}
		st[fmt.Sprintf("tmpl.nesting.%d", maxDep)]++
	}
	return st
}

func init() {
	Register("C17", &Prop{Gen: c17GenCases, Stats: c17Stats, Run: func(f []string) string {
		if c17Isolate != nil { // every case in a child process: a fatal runtime error is an answer, not the end of the run
			return c17Isolate(f)
		}
		return c17Run(f)
	}})
}
