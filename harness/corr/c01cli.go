//go:build c01

package main

import (
	"bytes"
	"fmt"
	"io"
	"os"
	"path/filepath"
	"strconv"
	"strings"

	"rare/cmd"
	"rare/cmd/helpers"
	"rare/pkg/color"
	"rare/pkg/extractor"
	"rare/pkg/humanize"
	"rare/pkg/logger"

	"github.com/urfave/cli/v2"
)

// Direct correspondence ops for the command-line side of C01:
//
//	summary <fmt> <col> <matched> <read> <ignored> <errors> <parts>   helpers.FWriteExtractorSummary on an Extractor
//	                                                                  whose counters hold the given values
//	hui <fmt> <n>                                                     humanize.Hui
//	flags <files|stdin> <batch> <batch-buffer> <workers> <readers>    helpers.BuildBatcherFromArguments +
//	        BuildExtractorFromArgumentsEx through a real cli.App: usage error (exit code, message) or the observed
//	        parameters: batch size handed to the batching loop, capacity of the batch channel and of readChan,
//	        number of worker goroutines, which batching loop ran
//	filtern <limit> <fmt> <input> <ignores> <extract>                  the real `rare filter -n limit` command
//	        (cmd.GetSupportedCommands) on one file, one reader, one worker: stdout lines and the stderr line

func onOff(s string) bool { return s == "1" }

func withFormat(fmtOn, colOn bool, fn func()) {
	oldH, oldC := humanize.Enabled, color.Enabled
	humanize.Enabled, color.Enabled = fmtOn, colOn
	defer func() { humanize.Enabled, color.Enabled = oldH, oldC }()
	fn()
}

func summaryRun(f []string) string {
	if len(f) != 8 {
		return "bad-args"
	}
	m, _ := strconv.ParseUint(f[3], 10, 64)
	r, _ := strconv.ParseUint(f[4], 10, 64)
	i, _ := strconv.ParseUint(f[5], 10, 64)
	e, _ := strconv.ParseUint(f[6], 10, 64)
	parts := UnHexListS(f[7])
	var out string
	withFormat(onOff(f[1]), onOff(f[2]), func() {
		out = helpers.FWriteExtractorSummary(extractor.VerifExtractorWithCounts(r, m, i), e, parts...)
	})
	return "ok " + HexS(out)
}

func huiRun(f []string) string {
	n, _ := strconv.ParseUint(f[2], 10, 64)
	var out string
	withFormat(onOff(f[1]), false, func() { out = humanize.Hui(n) })
	return "ok " + HexS(out)
}

type osExit struct{ code int }

// captureFatal runs fn with logger.OsExit replaced (the replacement unwinds with a panic, as the repository's own
// tests do) and the log deferred into the logger's buffer; returns the exit code (-1 = none) and what was logged.
func captureFatal(fn func()) (code int, logged string) {
	code = -1
	oldExit := logger.OsExit
	logger.OsExit = func(v int) { panic(osExit{v}) }
	logger.DeferLogs()
	func() {
		defer func() {
			logger.OsExit = oldExit
			if e := recover(); e != nil {
				if x, ok := e.(osExit); ok {
					code = x.code
					return
				}
				panic(e)
			}
		}()
		fn()
	}()
	// flush the deferred log into a pipe standing in for stderr
	r, w, err := os.Pipe()
	if err != nil {
		panic(err)
	}
	oldErr := os.Stderr
	os.Stderr = w
	logger.ImmediateLogs()
	os.Stderr = oldErr
	w.Close()
	b, _ := io.ReadAll(r)
	r.Close()
	return code, string(b)
}

var cliSeq int

func cliDir() string {
	cliSeq++
	dir := filepath.Join(workDir(), fmt.Sprintf("cli-%d-%d", os.Getpid(), cliSeq))
	os.MkdirAll(dir, 0o755)
	return dir
}

func flagsRun(f []string) string {
	if len(f) != 6 {
		return "bad-args"
	}
	input := f[1]
	dir := cliDir()
	defer os.RemoveAll(dir)
	defer inDir(dir)()
	nfiles := 4
	var args []string
	args = append(args, "app", "test", "--batch", f[2], "--batch-buffer", f[3], "--workers", f[4], "--readers", f[5])
	data := []byte("a\nb\nc\nd\ne\nf\ng\n")
	oldIn := os.Stdin
	defer func() { os.Stdin = oldIn }()
	if input == "stdin" {
		r, w, err := os.Pipe()
		if err != nil {
			panic(err)
		}
		os.Stdin = r
		go func() { w.Write(data); w.Close() }()
		defer w.Close()
	} else {
		for i := 0; i < nfiles; i++ {
			os.WriteFile(filepath.Join(dir, fmt.Sprintf("f%04d", i)), data, 0o644)
			args = append(args, fmt.Sprintf("f%04d", i))
		}
	}
	var capC, capRC int
	var read uint64
	ran := false
	action := func(c *cli.Context) error {
		b := helpers.BuildBatcherFromArguments(c)
		ext := helpers.BuildExtractorFromArgumentsEx(c, b, "\t")
		capC, capRC = cap(b.BatchChan()), cap(ext.ReadChan())
		for range ext.ReadChan() {
		}
		read = ext.ReadLines()
		ran = true
		return nil
	}
	command := helpers.AdaptCommandForExtractor(cli.Command{Name: "test", Action: action})
	command.After = nil // the adapted After flushes the log buffer to stderr; captureFatal does that itself
	app := cli.NewApp()
	app.Commands = []*cli.Command{command}
	app.ExitErrHandler = func(*cli.Context, error) {}
	app.Writer, app.ErrWriter = io.Discard, io.Discard
	extractor.VerifTraceStart()
	code, logged := captureFatal(func() { app.Run(args) })
	evs := extractor.VerifTraceStop()
	if code >= 0 {
		msg := strings.TrimSuffix(strings.TrimPrefix(logged, "[Log] "), "\n")
		return fmt.Sprintf("usage %d %s", code, HexS(msg))
	}
	if !ran {
		return "notrun " + HexS(logged)
	}
	batch, workers, timed := -1, 0, 0
	active, maxActive := 0, 0
	for _, e := range evs {
		switch e.Ev {
		case "sync.begin":
			if batch >= 0 && batch != int(e.A) {
				return "viol batch differs between sources"
			}
			batch = int(e.A)
			if e.B > 0 {
				timed = 1
			}
		case "w.start":
			workers++
		case "sema.acq":
			active++
			if active > maxActive {
				maxActive = active
			}
		case "sema.rel":
			active--
		}
	}
	want := uint64(7)
	readers, _ := strconv.Atoi(f[5])
	rs := strconv.Itoa(readers)
	if input == "stdin" {
		rs = "1"
	} else {
		want *= uint64(nfiles)
		if maxActive > readers {
			rs = fmt.Sprintf("viol%d", maxActive)
		}
	}
	if read != want {
		return fmt.Sprintf("viol read=%d want=%d", read, want)
	}
	return fmt.Sprintf("ok batch=%d B=%d W=%d K=%d timed=%d R=%s", batch, capC, workers, capRC, timed, rs)
}

// captureOutErr runs fn with stdout and stderr replaced by pipes.
func captureOutErr(fn func()) (string, string) {
	ro, wo, _ := os.Pipe()
	re, we, _ := os.Pipe()
	oldOut, oldErr := os.Stdout, os.Stderr
	outc, errc := make(chan []byte, 1), make(chan []byte, 1)
	go func() { b, _ := io.ReadAll(ro); outc <- b }()
	go func() { b, _ := io.ReadAll(re); errc <- b }()
	func() {
		defer func() {
			os.Stdout, os.Stderr = oldOut, oldErr
			wo.Close()
			we.Close()
		}()
		os.Stdout, os.Stderr = wo, we
		fn()
	}()
	o, e := <-outc, <-errc
	ro.Close()
	re.Close()
	return string(o), string(e)
}

func filterRun(f []string) string {
	if len(f) != 6 && !(len(f) == 7 && f[6] == "l") {
		return "bad-args"
	}
	spec := parseClsSpec("h", f[4], f[5])
	if spec == nil {
		return "bad-args"
	}
	dir := cliDir()
	defer os.RemoveAll(dir)
	defer inDir(dir)()
	os.WriteFile(filepath.Join(dir, "f0000"), UnHex(f[3]), 0o644)
	args := []string{"rare", "filter", "--workers", "1", "--readers", "1", "--batch", "3", "-n", f[1], "-e", spec.extract}
	if !spec.nilIgnore {
		for _, ig := range spec.ignores {
			args = append(args, "-i", ig)
		}
	}
	if len(f) == 7 { // --line: "<source> <number>: " in front of every match (theorem filter_line_prefix)
		args = append(args, "-l")
	}
	args = append(args, "f0000")
	app := cli.NewApp()
	app.Commands = cmd.GetSupportedCommands()
	app.ExitErrHandler = func(*cli.Context, error) {}
	var stdout, stderr string
	code := -1
	withFormat(onOff(f[2]), false, func() {
		stdout, stderr = captureOutErr(func() {
			code, _ = captureFatal(func() { app.Run(args) })
		})
	})
	if code >= 0 {
		return "compile-error"
	}
	var keys []string
	if stdout != "" {
		keys = strings.Split(strings.TrimSuffix(stdout, "\n"), "\n")
	}
	// the stderr line is the last line written (read errors etc. would come before it)
	return fmt.Sprintf("ok out=%s err=%s", HexListS(keys), HexS(stderr))
}

func cliGen(r *Rand, tier string) []string {
	var out []string
	n := 400
	if tier == "thorough" {
		n = 6000
	}
	bounds := []uint64{0, 1, 9, 10, 99, 100, 101, 999, 1000, 1001, 9999, 10000, 99999, 100000, 999999, 1000000, 1234567, 999999999,
		1000000000, 4294967295, 4294967296, 999999999999, 1000000000000, 9223372036854775807, 9223372036854775808,
		9999999999999999999, 10000000000000000000, 18446744073709551615}
	num := func() uint64 {
		switch r.Intn(4) {
		case 0:
			return Pick(r, bounds)
		case 1:
			return uint64(r.Intn(2000))
		case 2:
			return r.U64() >> uint(r.Intn(64))
		default:
			return uint64(r.Intn(5))
		}
	}
	partsPool := []string{"(R: 1)", "", "x", "(Ignored: 7)", "1,000", "\x1b[0m", "é"}
	for i := 0; i < n; i++ {
		var parts []string
		if r.Chance(1, 4) {
			for k := r.Intn(3); k >= 0; k-- {
				parts = append(parts, Pick(r, partsPool))
			}
		}
		e := uint64(0)
		if r.Chance(1, 3) {
			e = num()
		}
		out = append(out, fmt.Sprintf("summary %d %d %d %d %d %d %s", r.Intn(2), r.Intn(2), num(), num(), num(), e, HexListS(parts)))
		out = append(out, fmt.Sprintf("hui %d %d", r.Intn(2), num()))
	}
	for _, b := range bounds {
		out = append(out, fmt.Sprintf("hui 1 %d", b), fmt.Sprintf("hui 0 %d", b))
	}
	// flags: every combination of boundary values, files and stdin
	nf := 1
	if tier == "thorough" {
		nf = 3
	}
	for k := 0; k < nf; k++ {
		for _, input := range []string{"files", "stdin"} {
			for _, batch := range []int{-1, 0, 1, 2, 1000} {
				for _, bb := range []int{-2, -1, 0, 1, 3} {
					for _, w := range []int{-3, 0, 1, 3} {
						for _, rd := range []int{-1, 0, 1, 2, 5} {
							if k > 0 || r.Chance(1, 3) || (batch >= 1 && bb >= 0 && rd >= 1 && r.Chance(1, 2)) {
								out = append(out, fmt.Sprintf("flags %s %d %d %d %d", input, batch, bb, w, rd))
							}
						}
					}
				}
			}
		}
	}
	for i := 0; i < 40*nf; i++ {
		out = append(out, fmt.Sprintf("flags %s %d %d %d %d", Pick(r, []string{"files", "stdin"}), r.Range(-2, 12), r.Range(-2, 9), r.Range(-2, 9), r.Range(-1, 6)))
	}
	// filter -n
	nfl := 120
	if tier == "thorough" {
		nfl = 1500
	}
	words := []string{"a", "b", "", "k:v", "1", "2", "3", " ", "b", "long line with spaces", "é", "\xff", "x"}
	igs := [][]string{nil, nil, {"{eq {0} b}"}, {"{eq {line} 2}"}, {"{eq {0} a}", "{eq {line} 1}"}, {"{0}"}}
	exs := []string{"{0}", "{0}", "{line}:{0}", "{src}:{0}", "{eq {0} a}"}
	for i := 0; i < nfl; i++ {
		nl := Pick(r, []int{0, 1, 2, 3, 4, 5, 7, 10, 20})
		var sb bytes.Buffer
		for k := 0; k < nl; k++ {
			sb.WriteString(Pick(r, words))
			sb.WriteByte('\n')
		}
		data := sb.Bytes()
		if nl > 0 && r.Chance(1, 5) {
			data = data[:len(data)-1]
		}
		limit := Pick(r, []int{0, 0, 1, 1, 2, 3, 4, 5, 6, 9, 25, -1})
		ig := Pick(r, igs)
		igS := "N"
		if ig != nil {
			hs := make([]string, len(ig))
			for k, t := range ig {
				hs[k] = HexS(t)
			}
			igS = strings.Join(hs, "+")
		}
		cs := fmt.Sprintf("filtern %d %d %s %s %s", limit, r.Intn(2), Hex(data), igS, HexS(Pick(r, exs)))
		if i%3 == 1 {
			cs += " l"
		}
		out = append(out, cs)
	}
	return out
}

func cliStats(st map[string]int, c string) {
	f := strings.Fields(c)
	switch f[0] {
	case "summary":
		st["summary.cases"]++
		for _, k := range []int{3, 4, 5} {
			if n, _ := strconv.ParseUint(f[k], 10, 64); n >= 1000 {
				st["summary.counter>=1000"]++
			} else if n == 0 {
				st["summary.counter=0"]++
			}
		}
		if f[2] == "1" {
			st["summary.colour"]++
		}
		if f[1] == "0" {
			st["summary.noformat"]++
		}
	case "hui":
		st["hui.cases"]++
	case "flags":
		st["flags.cases"]++
		b, _ := strconv.Atoi(f[2])
		bb, _ := strconv.Atoi(f[3])
		rd, _ := strconv.Atoi(f[5])
		if b < 1 || bb < 0 || rd < 1 {
			st["flags.invalid"]++
		}
		if bb == 0 {
			st["flags.unbuffered"]++
		}
		st["flags."+f[1]]++
	case "filtern":
		st["filtern.cases"]++
		if len(f) == 7 {
			st["filtern.line-prefix"]++
		}
		if f[1] != "0" {
			st["filtern.limited"]++
		}
	}
}
