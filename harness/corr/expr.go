package main

import (
	"fmt"
	"strings"

	"rare/pkg/expressions"
	"rare/pkg/expressions/funclib"
)

// Shared `expr` op of the expression-language properties:
//
//	expr <opt 0|1> <template hex (the raw bytes of the Go string, valid UTF-8 or not)> <elements hexlist> <keys hexlist k;v;…>
//
// answers `ok errs=<kind@index:ctxhex,…> val=<hex>`; panics are canonicalised to `panic`.

// normTemplate re-encodes a template the way Go sees it when ranging over runes.  The shared `expr` op no
// longer uses it (the model decodes the raw bytes itself, Rare.C09.decodeRunes); kept for ops that embed
// templates in other fields.
func normTemplate(s string) string { return string([]rune(s)) }

func errKind(err error) string {
	msg := err.Error()
	switch {
	case strings.Contains(msg, "non-terminated statement"):
		return "unterminated"
	case strings.Contains(msg, "empty statement"):
		return "empty"
	case strings.Contains(msg, "missing function"):
		return "missing"
	case strings.Contains(msg, "invalid number of arguments"):
		return "func.argcount"
	case strings.Contains(msg, "invalid arg type, expected int"):
		return "func.num"
	case strings.Contains(msg, "unable to parse"):
		return "func.parsing"
	case strings.Contains(msg, "expected const"):
		return "func.const"
	case strings.Contains(msg, "unable to find value in set"):
		return "func.enum"
	case strings.Contains(msg, "invalid empty value"):
		return "func.empty"
	case strings.Contains(msg, "unable to read file"):
		return "func.file"
	case strings.Contains(msg, "value out of range"):
		return "func.value"
	}
	return "func.other"
}

func errsStr(errs *expressions.CompilerErrors) string {
	if errs == nil || len(errs.Errors) == 0 {
		return "."
	}
	parts := []string{}
	for _, e := range errs.Errors {
		parts = append(parts, fmt.Sprintf("%s@%d:%s", errKind(e.Err), e.Index, HexS(e.Context)))
	}
	return strings.Join(parts, ",")
}

func mkContext(elems, keys string) *expressions.KeyBuilderContextArray {
	ctx := &expressions.KeyBuilderContextArray{Elements: UnHexListS(elems), Keys: map[string]string{}}
	kv := UnHexListS(keys)
	for i := len(kv) - 2; i >= 0; i -= 2 { // first occurrence wins, as in the model
		if i%2 == 0 {
			ctx.Keys[kv[i]] = kv[i+1]
		}
	}
	return ctx
}

func exprRun(f []string) (string, bool) {
	if len(f) != 5 || f[0] != "expr" {
		return "", false
	}
	kb := funclib.NewKeyBuilderEx(f[1] == "1")
	compiled, errs := kb.Compile(string(UnHex(f[2])))
	if compiled == nil {
		return "nil-compiled errs=" + errsStr(errs), true
	}
	val := compiled.BuildKey(mkContext(f[3], f[4]))
	return fmt.Sprintf("ok errs=%s val=%s", errsStr(errs), HexS(val)), true
}

// ExprCase builds a case line for the expr op.
func ExprCase(opt bool, template string, elems []string, keys []string) string {
	o := "0"
	if opt {
		o = "1"
	}
	return fmt.Sprintf("expr %s %s %s %s", o, HexS(template), HexListS(elems), HexListS(keys))
}
