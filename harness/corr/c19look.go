//go:build c19

package main

import (
	"fmt"
	"strings"

	"rare/pkg/expressions/stdmath"
)

// C19, round 4b: op
//
//	look <formula hex>
//
// the look-ups `stdmath.Compile(formula).Eval(ctx)` makes, in the order it makes them, observed on the REAL code
// with a recording context (`i:<n>` = GetMatch(n), `k:<namehex>` = GetKey(name)); `ok -` for none, `err <kind>`
// for a compile error.  The model answers with `Expr.vars` of the expression it built – which
// `lookups_are_formula_variables` proves equal to the variable occurrences of the parse tree (the driver checks
// that equality on every case as well).  So: compile-time folding drops exactly the variable-free sub-formulas,
// the left operand is evaluated first, `&&`/`||` do not short-circuit, `0*x` still looks `x` up.

type c19RecCtx struct{ log []string }

func (c *c19RecCtx) GetMatch(i int) float64 {
	c.log = append(c.log, fmt.Sprintf("i:%d", i))
	return 0
}
func (c *c19RecCtx) GetKey(s string) float64 {
	c.log = append(c.log, "k:"+HexS(s))
	return 0
}

func c19LookRun(f []string) (string, bool) {
	if f[0] != "look" {
		return "", false
	}
	e, err := stdmath.Compile(string(UnHex(f[1])))
	if err != nil {
		return "err " + c19ErrKind(err), true
	}
	ctx := &c19RecCtx{}
	e.Eval(ctx)
	if len(ctx.log) == 0 {
		return "ok -", true
	}
	return "ok " + strings.Join(ctx.log, ","), true
}

func c19LookGen(r *Rand, tier string) []string {
	n := 400
	if tier == "thorough" {
		n = 6000
	}
	out := []string{}
	for _, f := range []string{"0*x", "0 && x", "1 || x", "x - x", "2*3 + x", "(2*3) + (x)", "x + 2*3", "abs(-2) + [1]", "-(-x)", "[0]+[1]+[0]", "[x y]", "[-1]",
		"2(x)(y)", "x(y)", "sqrt(4)x", "!x && !y || [2]", "0 * (1 + (2 + (x)))", "((((7))))", "e", "pi*2", "inf + nan", "x^0", "1^x", "0x10 + 0b1 + [0x10]", "[01]", "[ 1 ]"} {
		out = append(out, "look "+HexS(f))
	}
	for i := 0; i < n; i++ {
		g := &c19Gen{r: r, exact: r.Bool()}
		f := g.expr(r.Intn(4))
		if r.Chance(1, 8) {
			f = c19Malformed(r, g)
		}
		out = append(out, "look "+HexS(f))
	}
	return out
}
