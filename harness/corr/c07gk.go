//go:build c07

package main

// C07, group keys of the accumulating group at every arity with empty values at every position:
//
//	gk <perm> <elements>     groups {p} for each digit p of <perm> (`-` = no group expression), one data column
//	                         c = {sumi {.} 1}; every element is sampled; answer = the records the REAL
//	                         csv.WriteAccumulator writes (header, then one record per group: GroupColCount() key
//	                         cells + data) and Parts() of every group key (groups by name)
//	parts <key>              GroupKey(key).Parts() of an arbitrary key
//
// The model answers with `groupCells` / `groupKeyParts` (theorems groupkey_cells, groupkey_injective).

import (
	"fmt"
	"strings"

	"rare/pkg/aggregation"
	"rare/pkg/aggregation/sorting"
	"rare/pkg/csv"
	"rare/pkg/expressions"
	"rare/pkg/expressions/funclib"
)

type c07Recorder struct{ rows [][]string }

func (s *c07Recorder) Close() error { return nil }
func (s *c07Recorder) Write(record []string) error {
	s.rows = append(s.rows, append([]string{}, record...))
	return nil
}
func (s *c07Recorder) WriteRow(data ...any) error {
	rec := make([]string, len(data))
	for i, d := range data {
		rec[i] = fmt.Sprint(d)
	}
	return s.Write(rec)
}

var _ csv.CSV = (*c07Recorder)(nil)

func c07GkRunOnce(f []string) string {
	switch f[0] {
	case "parts":
		return "ok " + HexListS(aggregation.GroupKey(UnHex(f[1])).Parts())
	case "gk":
		a := aggregation.NewAccumulatingGroup(funclib.NewKeyBuilderEx(true))
		if f[1] != "-" {
			for i, p := range f[1] {
				if err := a.AddGroupExpr(fmt.Sprintf("g%d", i), fmt.Sprintf("{%c}", p)); err != nil {
					return "bad-group " + err.Error()
				}
			}
		}
		if err := a.AddDataExpr("c", "{sumi {.} 1}", "0"); err != nil {
			return "bad-data " + err.Error()
		}
		for _, e := range UnHexListS(f[2]) {
			a.Sample(e)
		}
		rec := &c07Recorder{}
		if err := csv.WriteAccumulator(rec, a); err != nil {
			return "csv-error " + err.Error()
		}
		rows := make([]string, len(rec.rows))
		for i, r := range rec.rows {
			rows[i] = HexListS(r)
		}
		var parts []string
		for _, g := range a.Groups(sorting.ByName) {
			parts = append(parts, HexListS(g.Parts()))
		}
		return fmt.Sprintf("ok n=%d rows=%s parts=%s", a.GroupColCount(), strings.Join(rows, "|"), strings.Join(parts, "|"))
	}
	return "bad-op"
}

// ---------------------------------------------------------------- generator

var c07GkPerms = []string{"-", "1", "2", "12", "21", "13", "123", "321", "213", "1234", "4321", "11", "122"}

func c07GkValue(r *Rand) string {
	switch r.Intn(10) {
	case 0, 1, 2, 3:
		return ""
	case 4, 5, 6:
		return "a"
	case 7:
		return "b"
	case 8:
		return Pick(r, []string{"ab", " ", "0", "é", "\xff", "a,b", "\"", "x\ny"})
	default:
		return Pick(r, []string{"b", "aa"})
	}
}

func c07GkElement(r *Rand) string {
	n := r.Intn(6)
	parts := make([]string, n)
	for i := range parts {
		parts[i] = c07GkValue(r)
	}
	return expressions.MakeArray(parts...)
}

// every tuple over alpha of the given width, as one element each
func c07GkTuples(alpha []string, width int) []string {
	out := []string{}
	var rec func(cur []string)
	rec = func(cur []string) {
		if len(cur) == width {
			out = append(out, expressions.MakeArray(cur...))
			return
		}
		for _, a := range alpha {
			rec(append(append([]string{}, cur...), a))
		}
	}
	rec(nil)
	return out
}

func c07GkGen(r *Rand, tier string) []string {
	n, alpha, maxw := 250, []string{"", "a"}, 4
	if tier == "thorough" {
		n, alpha, maxw = 8000, []string{"", "a", "b"}, 5
	}
	var out []string
	// exhaustive: every tuple of width 0..maxw over the tiny alphabet against every group list
	for w := 0; w <= maxw; w++ {
		tuples := c07GkTuples(alpha, w)
		for _, p := range c07GkPerms {
			out = append(out, fmt.Sprintf("gk %s %s", p, HexListS(tuples)))
		}
		for _, t := range tuples {
			out = append(out, "parts "+HexS(t))
		}
	}
	for i := 0; i < n; i++ {
		m := r.Intn(7)
		es := make([]string, m)
		for j := range es {
			es[j] = c07GkElement(r)
		}
		out = append(out, fmt.Sprintf("gk %s %s", Pick(r, c07GkPerms), HexListS(es)))
		// arbitrary keys: separators at the start, at the end, doubled, alone
		k := r.Intn(7)
		b := make([]byte, k)
		for j := range b {
			b[j] = Pick(r, []byte{0, 0, 'a', 'b', 0xff})
		}
		out = append(out, "parts "+Hex(b))
	}
	return out
}

func c07GkStats(f []string, st map[string]int) {
	st["op."+f[0]]++
	if f[0] == "gk" {
		arity := len(f[1])
		if f[1] == "-" {
			arity = 0
		}
		st[fmt.Sprintf("gk.arity%d", arity)]++
		for _, e := range UnHexListS(f[2]) {
			p := strings.Split(e, "\x00")
			if e == "" {
				st["gk.element.empty"]++
				continue
			}
			if p[0] == "" {
				st["gk.element.leadingEmpty"]++
			}
			if p[len(p)-1] == "" {
				st["gk.element.trailingEmpty"]++
			}
			for j := 1; j+1 < len(p); j++ {
				if p[j] == "" {
					st["gk.element.innerEmpty"]++
					break
				}
			}
		}
	}
}
