//go:build c04

package main

import (
	"fmt"
	"runtime"
	"strconv"
	"strings"

	"rare/pkg/extractor"
	"rare/pkg/extractor/batchers"
	"rare/pkg/readahead"
)

// Round 4b: the scanners at REAL sizes.  Data travels run-length coded (`n*hh` items joined by `,`, `-` = empty; lists of
// byte strings joined by `;`, `.` = empty list; both sides print maximal runs), so a 128 KiB line costs a few bytes of
// protocol.  `big sync` drives the real syncReaderToBatcher, i.e. readahead.NewImmediate(reader, ReadAheadBufferSize)
// with the batcher's own constant: a '\n' exactly at byte 131071, lines longer than the buffer (regrow at full size),
// "\r\n" straddling the buffer end, an injected error at a completely filled 128 KiB buffer.

func c04ParseRle(s string) []byte {
	if s == "-" {
		return nil
	}
	var out []byte
	for _, it := range strings.Split(s, ",") {
		kv := strings.Split(it, "*")
		n, _ := strconv.Atoi(kv[0])
		b := UnHex(kv[1])
		for i := 0; i < n; i++ {
			out = append(out, b[0])
		}
	}
	return out
}

func c04Rle(b []byte) string {
	if len(b) == 0 {
		return "-"
	}
	var sb strings.Builder
	for i := 0; i < len(b); {
		j := i
		for j < len(b) && b[j] == b[i] {
			j++
		}
		if i > 0 {
			sb.WriteByte(',')
		}
		fmt.Fprintf(&sb, "%d*%02x", j-i, b[i])
		i = j
	}
	return sb.String()
}

func c04RleList(l [][]byte) string {
	if len(l) == 0 {
		return "."
	}
	parts := make([]string, len(l))
	for i, b := range l {
		parts[i] = c04Rle(b)
	}
	return strings.Join(parts, ";")
}

// c04ScribbleReader: the io.Reader contract lets Read use ALL of p as scratch space even when it returns n < len(p).
// After every Read this wrapper overwrites p[n:] with '\n' bytes (the most tempting garbage for a line scanner): a
// scanner that looks at, hands out or counts bytes beyond what Read reported would split differently.
type c04ScribbleReader struct{ r *scriptedReader }

func (c *c04ScribbleReader) Read(p []byte) (int, error) {
	n, err := c.r.Read(p)
	for i := n; i < len(p); i++ {
		p[i] = '\n'
	}
	return n, err
}

// c04RunBig handles the ops `big <imm|buf|sync> <size|batchSize> <rle data> <script>` and
// `nocb <imm|buf> <size> <hex data> <script>` (no OnError callback installed).
func c04RunBig(f []string) string {
	switch f[0] {
	case "big":
		n, _ := strconv.Atoi(f[2])
		data := c04ParseRle(f[3])
		rd := &scriptedReader{rest: data, script: parseScript(f[4])}
		if f[1] == "sync" {
			b := batchers.VerifSyncReaderToChan("src", rd, n, 4)
			var held []extractor.InputBatch
			var onArrival []string
			render := func(ib extractor.InputBatch) string {
				ls := make([][]byte, len(ib.Batch))
				for i, l := range ib.Batch {
					ls[i] = l
				}
				return fmt.Sprintf("%d:%s", ib.BatchStart, c04RleList(ls))
			}
			for ib := range b.BatchChan() {
				held = append(held, ib)
				onArrival = append(onArrival, render(ib))
			}
			runtime.GC()
			var late []string
			for _, ib := range held {
				late = append(late, render(ib))
			}
			stable := 1
			if strings.Join(late, "|") != strings.Join(onArrival, "|") {
				stable = 0
			}
			out := "."
			if len(late) > 0 {
				out = strings.Join(late, "|")
			}
			return fmt.Sprintf("ok errs=%d stable=%d b=%s", b.ReadErrors(), stable, out)
		}
		var sc readahead.Scanner
		if f[1] == "imm" {
			sc = readahead.NewImmediate(rd, n)
		} else {
			sc = readahead.NewBuffered(rd, n)
		}
		errs := 0
		sc.OnError(func(error) { errs++ })
		var held, atReturn [][]byte
		limit := len(data) + len(rd.script) + 3
		done := 0
		for i := 0; i < limit; i++ {
			if !sc.Scan() {
				done = 1
				break
			}
			b := sc.Bytes()
			held = append(held, b)
			atReturn = append(atReturn, append([]byte{}, b...))
		}
		return fmt.Sprintf("ok errs=%d done=%d t=%s r=%s", errs, done, c04RleList(atReturn), c04RleList(held))
	case "scr":
		size, _ := strconv.Atoi(f[2])
		data := append([]byte{}, UnHex(f[3])...)
		srd := &scriptedReader{rest: data, script: parseScript(f[4])}
		rd := &c04ScribbleReader{srd}
		var sc readahead.Scanner
		if f[1] == "imm" {
			sc = readahead.NewImmediate(rd, size)
		} else {
			sc = readahead.NewBuffered(rd, size)
		}
		errs := 0
		sc.OnError(func(error) { errs++ })
		var held, atReturn [][]byte
		limit := len(data) + len(srd.script) + 3
		done := 0
		for i := 0; i < limit; i++ {
			if !sc.Scan() {
				done = 1
				break
			}
			b := sc.Bytes()
			held = append(held, b)
			atReturn = append(atReturn, append([]byte{}, b...))
		}
		return fmt.Sprintf("ok errs=%d done=%d t=%s r=%s", errs, done, HexList(atReturn), HexList(held))
	case "nocb":
		size, _ := strconv.Atoi(f[2])
		data := append([]byte{}, UnHex(f[3])...)
		rd := &scriptedReader{rest: data, script: parseScript(f[4])}
		var sc readahead.Scanner
		if f[1] == "imm" {
			sc = readahead.NewImmediate(rd, size)
		} else {
			sc = readahead.NewBuffered(rd, size)
		}
		var held, atReturn [][]byte
		limit := len(data) + len(rd.script) + 3
		done := 0
		for i := 0; i < limit; i++ {
			if !sc.Scan() {
				done = 1
				break
			}
			b := sc.Bytes()
			held = append(held, b)
			atReturn = append(atReturn, append([]byte{}, b...))
		}
		return fmt.Sprintf("ok done=%d t=%s r=%s", done, HexList(atReturn), HexList(held))
	}
	return "bad-op"
}

// c04GenBig: lines placed relative to the end of a buffer of real size.
func c04GenBig(r *Rand, tier string) []string {
	var out []string
	const ra = batchers.ReadAheadBufferSize
	// fixed boundary cases (every run): '\n' as the last byte of the completely filled 128 KiB buffer and one byte
	// either side of it; CRLF straddling the buffer end; a line of 2.5 buffers; an error at the full buffer
	for _, d := range []int{-2, -1, 0, 1} {
		out = append(out, fmt.Sprintf("big sync 1000 %d*61,1*0a,70*62,1*0a,9*63 .", ra-1+d))
		out = append(out, fmt.Sprintf("big imm %d %d*61,1*0a,70*62,1*0a,9*63 .", ra, ra-1+d))
		out = append(out, fmt.Sprintf("big sync 1 %d*61,1*0d,1*0a,70*62,1*0d .", ra-2+d))
	}
	out = append(out,
		fmt.Sprintf("big sync 2 %d*61,1*0a,%d*62,1*0d,1*0a,3*63 .", ra*5/2, ra+7),
		fmt.Sprintf("big sync 3 5*61,1*0a,%d*62 %d:n,%d:f", ra, ra, ra),
		fmt.Sprintf("big sync 3 5*61,1*0a,%d*62 %d:f", ra, ra),
		fmt.Sprintf("big buf %d %d*61,1*0a,%d*62,1*0a %d:n,0:n,%d:e", ra, ra-1, ra/2, ra, ra),
		fmt.Sprintf("big buf %d %d*61,1*0d,1*0a,%d*62 .", ra, ra*3/2, ra/2+1),
	)
	// lines of 256 (thorough: 64) bytes: byte 131071 of the stream is a '\n' and every refill starts on a line start
	{
		var items []string
		w, lines := 256, ra/256+10
		if tier == "thorough" {
			w, lines = 64, 2*ra/64+9
		}
		for i := 0; i < lines; i++ {
			items = append(items, fmt.Sprintf("%d*%02x,1*0a", w-1, 'a'+i%26))
		}
		out = append(out, "big sync 100000 "+strings.Join(items, ",")+" .")
	}
	n := 14
	if tier == "thorough" {
		n = 500
	}
	for i := 0; i < n; i++ {
		size := Pick(r, []int{ra, ra, 4096, 65536, 1000})
		kind := Pick(r, []string{"sync", "sync", "imm", "buf"})
		if kind == "sync" {
			size = ra
		}
		var items []string
		total := 0
		nl := r.Range(1, 6)
		for j := 0; j < nl; j++ {
			// a line ending at a multiple of the buffer size +-2, or a random long/short one
			ln := 0
			switch r.Intn(4) {
			case 0:
				m := r.Range(1, 3) * size
				ln = m - total%size - 1 + r.Range(-2, 2)
			case 1:
				ln = r.Intn(2*size + 3)
			case 2:
				ln = r.Intn(100)
			case 3:
				ln = size - total%size - 1 + r.Range(-1, 1)
			}
			if ln < 0 {
				ln = 0
			}
			if ln > 0 {
				items = append(items, fmt.Sprintf("%d*%02x", ln, 'a'+j))
			}
			term := Pick(r, []string{"1*0a", "1*0a", "1*0d,1*0a", "1*0d,1*0d,1*0a", "1*0d"})
			if j == nl-1 && r.Chance(1, 2) {
				term = Pick(r, []string{"", "1*0d"})
			}
			if term != "" {
				items = append(items, term)
			}
			total += ln + strings.Count(term, "*")
		}
		data := "-"
		if len(items) > 0 {
			data = strings.Join(items, ",")
		}
		sc := Pick(r, []string{".", ".", fmt.Sprintf("%d:n,%d:n,0:n,%d:n", size, size-1, 2*size), fmt.Sprintf("%d:n,%d:f", size, size),
			fmt.Sprintf("%d:n,1:n,1:n,%d:e", size-1, size), fmt.Sprintf("%d:n,%d:n,%d:n", size/2, size/2, size/2), "1:n,0:n,1:n"})
		arg := size
		if kind == "sync" {
			arg = Pick(r, []int{1, 2, 1000, 100000})
		}
		if kind == "buf" && arg < 2 {
			arg = 2
		}
		out = append(out, fmt.Sprintf("big %s %d %s %s", kind, arg, data, sc))
	}
	// no OnError callback
	m := 120
	if tier == "thorough" {
		m = 12000
	}
	alpha := []byte{'a', '\n', '\r', 'b', '\n'}
	for i := 0; i < m; i++ {
		kind, size := "imm", Pick(r, []int{1, 2, 3, 4, 8})
		if r.Chance(1, 2) {
			kind = "buf"
			if size < 2 {
				size = 2
			}
		}
		d := make([]byte, r.Intn(3*size+3))
		for j := range d {
			d[j] = Pick(r, alpha)
		}
		var steps []string
		for j := r.Intn(4); j > 0; j-- {
			steps = append(steps, fmt.Sprintf("%d:n", r.Intn(4)))
		}
		steps = append(steps, fmt.Sprintf("%d:%s", r.Intn(5), Pick(r, []string{"f", "f", "e", "n"})))
		op := "nocb"
		if i%2 == 1 {
			op = "scr" // same shapes through the scribbling reader (short reads leave room to scribble on)
		}
		out = append(out, fmt.Sprintf("%s %s %d %s %s", op, kind, size, Hex(d), strings.Join(steps, ",")))
	}
	return out
}
