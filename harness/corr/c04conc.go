//go:build c04

package main

import (
	"bytes"
	"fmt"
	"io"
	"strconv"
	"strings"
	"sync"
	"sync/atomic"

	"rare/pkg/extractor/batchers"
	"rare/pkg/readahead"
)

// Round 4b: held slices under CONCURRENT readers.  In rare the reader goroutine is inside Scan() (issuing Reads into
// the scanner's buffer, regrowing it) while extractor workers read the lines of batches handed out earlier.  The op
//
//	conc <imm|buf|bat> <bufSize|maxBufLen|batchSize> <workers> <rle data> <script>
//
// runs the real scanner (imm/buf: one goroutine scanning, the uncopied slices travel over a channel; bat: the real
// OpenReaderToChan goroutine with the batcher's 128 KiB buffer) against `workers` consumer goroutines that keep every
// slice they got and re-read recent and old ones on every arrival and all of them at the end, comparing with an
// independent reference split of the data.  Answer: `ok bad=<wrong reads> lines=<lines delivered>`.
// The plain correspondence compares it with the model (`bad=0`, line count of Imm/Buf.scanAll); extra/C04.py runs the
// same cases in a harness built with the race detector: a write into memory a consumer is reading is a DATA RACE report.
// Scripts of conc cases contain no early error (chunking and stalls only), so the delivered bytes are the data.

func c04RefSplit(d []byte) [][]byte {
	var out [][]byte
	start := 0
	for i, c := range d {
		if c == '\n' {
			l := d[start:i]
			if len(l) > 0 && l[len(l)-1] == '\r' {
				l = l[:len(l)-1]
			}
			out = append(out, l)
			start = i + 1
		}
	}
	if start < len(d) {
		out = append(out, d[start:])
	}
	return out
}

type c04Item struct {
	idx int
	b   []byte
}

func c04RunConc(f []string) string {
	n, _ := strconv.Atoi(f[2])
	workers, _ := strconv.Atoi(f[3])
	if workers < 1 {
		workers = 1
	}
	data := c04ParseRle(f[4])
	ref := c04RefSplit(append([]byte{}, data...))
	rd := &scriptedReader{rest: data, script: parseScript(f[5])}
	var bad int64
	var lines int64
	check := func(it c04Item) {
		if it.idx >= len(ref) || !bytes.Equal(it.b, ref[it.idx]) {
			atomic.AddInt64(&bad, 1)
		}
	}
	ch := make(chan c04Item, 256)
	var wg sync.WaitGroup
	for w := 0; w < workers; w++ {
		wg.Add(1)
		go func() {
			defer wg.Done()
			var held []c04Item
			for it := range ch {
				held = append(held, it)
				// the new one, the 24 before it, and a thin sample of everything older
				for k := len(held) - 1; k >= 0 && k >= len(held)-25; k-- {
					check(held[k])
				}
				for k := 0; k < len(held)-25; k += 97 {
					check(held[k])
				}
			}
			for _, it := range held {
				check(it)
			}
		}()
	}
	switch f[1] {
	case "imm", "buf":
		var sc readahead.Scanner
		if f[1] == "imm" {
			sc = readahead.NewImmediate(rd, n)
		} else {
			sc = readahead.NewBuffered(rd, n)
		}
		limit := len(data) + len(rd.script) + 3
		for i := 0; i < limit && sc.Scan(); i++ {
			ch <- c04Item{i, sc.Bytes()}
			lines++
		}
	case "bat":
		b := batchers.OpenReaderToChan("src", io.NopCloser(rd), n, 8)
		for ib := range b.BatchChan() {
			for i, l := range ib.Batch {
				ch <- c04Item{int(ib.BatchStart) - 1 + i, l}
				lines++
			}
		}
	default:
		close(ch)
		wg.Wait()
		return "bad-op"
	}
	close(ch)
	wg.Wait()
	return fmt.Sprintf("ok bad=%d lines=%d", atomic.LoadInt64(&bad), lines)
}

// c04GenConc: many short lines (every buffer size divides the stream into line-aligned and misaligned refills),
// long lines forcing regrows, all delivered in chunks with stalls.
func c04GenConc(r *Rand, tier string) []string {
	var out []string
	n := 10
	if tier == "thorough" {
		n = 150
	}
	if tier == "race" {
		n = 14
	}
	const ra = batchers.ReadAheadBufferSize
	for i := 0; i < n; i++ {
		kind := Pick(r, []string{"imm", "imm", "buf", "bat"})
		size := Pick(r, []int{2, 8, 64, 1024, 4096})
		if kind == "bat" {
			size = ra
		}
		var items []string
		total := 0
		target := 40 * size
		if target > 3*ra/2 {
			target = 3 * ra / 2
		}
		if target < 600 {
			target = 600
		}
		if tier == "race" && target < 20000 {
			target = 20000
		}
		if kind == "bat" {
			target = ra + ra/2 + r.Intn(ra)
		}
		lineLen := Pick(r, []int{7, 63, 64, 15, 255})
		if size >= 8 && r.Chance(1, 2) {
			lineLen = size - 1 // "line\n" fills the buffer exactly: nothing pending at every refill
		}
		if kind == "bat" {
			lineLen = Pick(r, []int{127, 1023, 255}) // (the model's list arithmetic is quadratic in the number of lines)
			if tier == "race" {
				lineLen = Pick(r, []int{31, 63, 127, 1023})
			}
		}
		j := 0
		for total < target {
			ln := lineLen
			switch r.Intn(12) {
			case 0:
				ln = r.Intn(3 * lineLen)
			case 1:
				if kind != "bat" {
					ln = size*r.Range(1, 3) + r.Range(-1, 1)
				}
			}
			if ln < 0 {
				ln = 0
			}
			if ln > 0 {
				items = append(items, fmt.Sprintf("%d*%02x", ln, 'a'+j%26))
			}
			if r.Chance(1, 9) && ln > 0 {
				// keep the line length: replace the last byte by '\r' would change alignment, so CR is extra
				items = append(items, "1*0d")
				total++
			}
			items = append(items, "1*0a")
			total += ln + 1
			j++
		}
		if r.Chance(1, 2) {
			items = append(items, "5*7a")
		}
		sc := Pick(r, []string{".", ".", fmt.Sprintf("%d:n,0:n,%d:n,1:n", size, size/2+1), "3:n,0:n,0:n,64:n,1:n",
			fmt.Sprintf("%d:n,%d:n,%d:n,%d:n", size, size, size, size)})
		arg := size
		if kind == "bat" {
			arg = Pick(r, []int{1, 7, 1000, 100000})
		}
		if kind == "buf" && arg < 2 {
			arg = 2
		}
		out = append(out, fmt.Sprintf("conc %s %d %d %s %s", kind, arg, Pick(r, []int{1, 2, 4}), strings.Join(items, ","), sc))
	}
	return out
}
