//go:build c03

package main

// Correspondence for C03 (in-process part; the end-to-end part is extra/C03.py):
//
//	csv <rows>                       the real csv.CSVFile (encoding/csv Writer) on arbitrary records; the text is
//	                                 re-read with Go's encoding/csv Reader as an independent oracle
//	agg counter <hist>               MatchCounter    -> csv.WriteCounter
//	agg table <delim> <hist>         TableAggregator -> csv.WriteTable
//	agg subkey <hist>                SubKeyCounter   -> csv.WriteSubCounter
//	exit <readErrors> <aggNil> <parseErrors> <matched>     helpers.DetermineErrorState
//	cmd / reduce / analyze / tbl     the command functions in process: c03cmd.go, c03reduce.go, c03analyze.go, c03tbl.go
//
// rows: records joined by `|`, a record = hex fields joined by `;` (`.` = no field), `_` = no record.
// Every writer is run several times on the same aggregator: Go randomises map iteration per `range`, so a
// dependence of the CSV text on the iteration order shows up as `nondet`.

import (
	"bytes"
	stdcsv "encoding/csv"
	"fmt"
	"strconv"
	"strings"

	"rare/cmd/helpers"
	"rare/pkg/aggregation"
	"rare/pkg/csv"

	"github.com/urfave/cli/v2"
)

type c03Buf struct{ bytes.Buffer }

func (b *c03Buf) Close() error { return nil }

func c03EncRows(rows [][]string) string {
	if len(rows) == 0 {
		return "_"
	}
	p := make([]string, len(rows))
	for i, r := range rows {
		p[i] = HexListS(r)
	}
	return strings.Join(p, "|")
}

func c03DecRows(s string) [][]string {
	if s == "_" {
		return nil
	}
	parts := strings.Split(s, "|")
	out := make([][]string, len(parts))
	for i, p := range parts {
		out[i] = UnHexListS(p)
	}
	return out
}

func c03Write(f func(w csv.CSV) error) string {
	first := ""
	for i := 0; i < 4; i++ {
		var b c03Buf
		w := csv.NewCSV(&b)
		if err := f(w); err != nil {
			return "err " + err.Error()
		}
		w.Close()
		if i == 0 {
			first = b.String()
		} else if first != b.String() {
			return "nondet"
		}
	}
	return "ok " + HexS(first)
}

type c03Stub struct {
	readErrors  int
	parseErrors uint64
	matched     uint64
}

func (s *c03Stub) ReadErrors() int      { return s.readErrors }
func (s *c03Stub) ParseErrors() uint64  { return s.parseErrors }
func (s *c03Stub) MatchedLines() uint64 { return s.matched }

func c03Run(f []string) string {
	switch f[0] {
	case "reduce":
		return c03ReduceRun(f)
	case "analyze":
		return c03AnalyzeRun(f)
	case "analyze-spec":
		return c03AnalyzeSpecRun(f)
	case "reducec":
		return c03ReduceCRun(f)
	case "tbl":
		return c03TblRun(f)
	case "sbv":
		return c03SbvRun(f)
	case "cmd":
		return c03CmdRun(f)
	case "csv":
		rows := c03DecRows(f[1])
		var b c03Buf
		w := csv.NewCSV(&b)
		guard := 1
		for _, r := range rows {
			if len(r) == 0 {
				guard = 0
			}
			if err := w.Write(r); err != nil {
				return "err " + err.Error()
			}
		}
		w.Close()
		text := b.Bytes()
		rd := stdcsv.NewReader(bytes.NewReader(text))
		rd.FieldsPerRecord = -1
		back, err := rd.ReadAll()
		if err != nil {
			return "readerr " + err.Error()
		}
		return fmt.Sprintf("ok %s %s %d", Hex(text), c03EncRows(back), guard)
	case "agg":
		switch f[1] {
		case "counter":
			a := aggregation.NewCounter()
			for _, s := range UnHexListS(f[2]) {
				a.Sample(s)
			}
			return c03Write(func(w csv.CSV) error { return csv.WriteCounter(w, a) })
		case "table":
			a := aggregation.NewTable(string(UnHex(f[2])))
			for _, s := range UnHexListS(f[3]) {
				a.Sample(s)
			}
			return c03Write(func(w csv.CSV) error { return csv.WriteTable(w, a) })
		case "subkey":
			a := aggregation.NewSubKeyCounter()
			for _, s := range UnHexListS(f[2]) {
				a.Sample(s)
			}
			return c03Write(func(w csv.CSV) error { return csv.WriteSubCounter(w, a) })
		}
	case "exit":
		re, _ := strconv.Atoi(f[1])
		pe, _ := strconv.ParseUint(f[3], 10, 64)
		m, _ := strconv.ParseUint(f[4], 10, 64)
		st := &c03Stub{re, pe, m}
		var agg helpers.AggregationErrors
		if f[2] == "0" {
			agg = st
		}
		err := helpers.DetermineErrorState(st, st, agg)
		if err == nil {
			return "ok 0"
		}
		if ec, ok := err.(cli.ExitCoder); ok {
			return fmt.Sprintf("ok %d", ec.ExitCode())
		}
		return "err " + err.Error()
	}
	return "bad-op"
}

// ---------------------------------------------------------------- generators

var c03Atoms = []string{"a", "b", "ab", "z", ",", "\"", "\r", "\n", "\r\n", " ", "\t", "\\", ".", "\\.", "\x00", "\u00e9", "\u00a0", "\u2003",
	"\u3000", "\u0085", "\u2028", "\u202f", "\u1680", "\u200b", "\xc2", "\xe2\x80", "\xff", "1", "-", "0", "x y", "\u65e5\u672c"}

func c03Field(r *Rand) string {
	switch r.Intn(10) {
	case 0:
		return ""
	case 1:
		return Pick(r, []string{"\\.", "\\", ".", " ", "\"", "\"\"", ",", "\r", "\n", "\r\n", "\n\r", "a\rb", "a\r\nb", " a", "a ", " x", "　", "\xe2\x80\x80", "\xe2\x80\x8b", "\xe2\x81\x9f", "\xe2\x80\xaf", "\xe3\x80\x80z", "\xc2\x85", "\xc2\xa0", "\xc2\xa1", "\xe1\x9a\x80"})
	}
	n := r.Range(1, 4)
	var sb strings.Builder
	for i := 0; i < n; i++ {
		sb.WriteString(Pick(r, c03Atoms))
	}
	return sb.String()
}

func c03Rows(r *Rand) [][]string {
	n := r.Intn(5)
	rows := make([][]string, n)
	for i := range rows {
		k := r.Range(1, 4)
		if r.Chance(1, 12) {
			k = 0 // a record without fields: outside the guard of csv_roundtrip
		}
		rows[i] = make([]string, k)
		for j := range rows[i] {
			rows[i][j] = c03Field(r)
		}
	}
	return rows
}

func c03Key(r *Rand) string {
	if r.Chance(1, 3) {
		return Pick(r, []string{"a", "b", "c", "k1", "k2", ""})
	}
	return c03Field(r)
}

func c03Inc(r *Rand) string {
	switch r.Intn(8) {
	case 0:
		return Pick(r, []string{"x", "", "1.5", " 1", "--2"})
	case 1:
		return Pick(r, []string{"-1", "0", "9223372036854775807", "-9223372036854775808", "9223372036854775808", "+7"})
	default:
		return strconv.Itoa(r.Range(-3, 12))
	}
}

// c03Hist: samples of `parts` keys joined by delim, optionally followed by an increment (and junk).
func c03Hist(r *Rand, delim string, parts int) []string {
	n := r.Intn(9)
	if r.Chance(1, 10) {
		n = r.Range(9, 30)
	}
	keys := make([]string, r.Range(1, 4))
	for i := range keys {
		keys[i] = c03Key(r)
	}
	subs := make([]string, r.Range(1, 3))
	for i := range subs {
		subs[i] = c03Key(r)
	}
	h := make([]string, n)
	for i := range h {
		p := []string{Pick(r, keys)}
		if parts > 1 && !r.Chance(1, 8) {
			p = append(p, Pick(r, subs))
		}
		if len(p) == parts && r.Chance(1, 2) {
			p = append(p, c03Inc(r))
			if r.Chance(1, 10) {
				p = append(p, "junk")
			}
		}
		h[i] = strings.Join(p, delim)
	}
	return h
}

func c03Gen(r *Rand, tier string) []string {
	n := 400
	if tier == "thorough" {
		n = 25000
	}
	var out []string
	nReduce := 300
	if tier == "thorough" {
		nReduce = 6000
	}
	for i := 0; i < nReduce; i++ {
		out = append(out, c03ReduceCase(r))
		out = append(out, c03AnalyzeCase(r))
		if i%4 == 0 {
			out = append(out, c03AnalyzeSpecCase(r))
		}
	}
	nCmd := 500
	if tier == "thorough" {
		nCmd = 12000
	}
	for i := 0; i < nCmd; i++ {
		out = append(out, c03CmdCase(r))
	}
	nTbl := 1500
	if tier == "thorough" {
		nTbl = 40000
	}
	for i := 0; i < nTbl; i++ {
		out = append(out, c03TblCase(r))
	}
	nRc := 250
	if tier == "thorough" {
		nRc = 6000
	}
	for i := 0; i < nRc; i++ {
		out = append(out, c03ReduceCCase(r))
	}
	nSbv := 400
	if tier == "thorough" {
		nSbv = 8000
	}
	for i := 0; i < nSbv; i++ {
		out = append(out, c03SbvCase(r))
	}
	c03SbvExhaustive(&out)
	if tier == "thorough" {
		c03TblExhaustive(5, &out)
	} else {
		c03TblExhaustive(4, &out)
	}
	for i := 0; i < n; i++ {
		out = append(out, "csv "+c03EncRows(c03Rows(r)))
		out = append(out, "agg counter "+HexListS(c03Hist(r, "\x00", 1)))
		out = append(out, "agg subkey "+HexListS(c03Hist(r, "\x00", 2)))
		d := Pick(r, []string{"\x00", "\x00", "\x00", ",", "::", "\t"})
		out = append(out, "agg table "+HexS(d)+" "+HexListS(c03Hist(r, d, 2)))
	}
	// exhaustive: every single field over a small alphabet up to length 3 (4 in thorough), alone and after a plain field
	alpha := []string{"a", ",", "\"", "\r", "\n", " ", "\\", "."}
	depth := 3
	if tier == "thorough" {
		depth = 4
	}
	var rec func(cur string, d int)
	rec = func(cur string, d int) {
		out = append(out, "csv "+c03EncRows([][]string{{cur}}))
		out = append(out, "csv "+c03EncRows([][]string{{"x", cur}, {cur, ""}}))
		if d < depth {
			for _, a := range alpha {
				rec(cur+a, d+1)
			}
		}
	}
	rec("", 0)
	// exit code table: every combination around the thresholds
	for _, re := range []int{0, 1, 3} {
		for _, an := range []int{0, 1} {
			for _, pe := range []int{0, 1, 9} {
				for _, m := range []int{0, 1, 1000} {
					out = append(out, fmt.Sprintf("exit %d %d %d %d", re, an, pe, m))
				}
			}
		}
	}
	return out
}

func c03Stats(cases []string) map[string]int {
	st := map[string]int{}
	for _, c := range cases {
		f := strings.Fields(c)
		switch f[0] {
		case "reduce":
			c03ReduceStats(f, st)
		case "analyze":
			st["op.analyze"]++
			fl, _ := strconv.Atoi(f[1])
			if fl&1 != 0 {
				st["analyze.extra"]++
			}
			st["analyze.samples"] += len(UnHexListS(f[4]))
		case "analyze-spec":
			st["op.analyzeSpec"]++
		case "reducec":
			st["op.reducec"]++
			tune := strings.Split(f[1], ",")
			if tune[0] != "1" {
				st["reducec.workers>1"]++
			}
			if tune[1] != "1" {
				st["reducec.readers>1"]++
			}
			if fs := c03DecRows(f[8]); len(fs) > 1 {
				st["reducec.files>1"]++
			}
			for _, a := range UnHexListS(f[6]) {
				ord := false
				for _, e := range c03OrdExprs {
					if strings.HasSuffix(a, "="+e) {
						ord = true
					}
				}
				if ord {
					st["reducec.orderSensitive"]++
					if fs := c03DecRows(f[8]); len(fs) > 1 {
						st["reducec.orderSensitive.files>1"]++
					}
					break
				}
			}
		case "tbl":
			c03TblStats(f, st)
		case "sbv":
			c03SbvStats(f, st)
		case "cmd":
			c03CmdStats(f, st)
		case "csv":
			st["op.csv"]++
			rows := c03DecRows(f[1])
			for _, r := range rows {
				if len(r) == 0 {
					st["csv.record.noFields"]++
				}
				if len(r) == 1 && r[0] == "" {
					st["csv.record.singleEmptyField"]++
				}
				for _, x := range r {
					st["csv.fields"]++
					if strings.ContainsAny(x, ",\"\r\n") {
						st["csv.field.special"]++
					}
					if strings.Contains(x, "\r\n") {
						st["csv.field.crlf"]++
					}
					if strings.Contains(x, "\r") && !strings.Contains(x, "\r\n") {
						st["csv.field.loneCR"]++
					}
					if x == "\\." {
						st["csv.field.backslashDot"]++
					}
					if strings.ContainsRune(x, 0) {
						st["csv.field.nul"]++
					}
					for i := 0; i < len(x); i++ {
						if x[i] >= 0x80 {
							st["csv.field.nonAscii"]++
							break
						}
					}
				}
			}
		case "agg":
			st["op.agg."+f[1]]++
		case "exit":
			st["op.exit"]++
		}
	}
	return st
}

// past failing inputs / boundary rows; always run first
var c03Corpus = []string{
	"csv _",
	"csv .",
	"csv -",
	"csv -|-",
	"csv 5c2e",
	"csv 0d",
	"csv 0d0a",
	"csv 610d0a62;22",
	"csv c2a0;e38080;c285;e2808b",
	"agg counter .",
	"agg table 00 .",
	"agg subkey .",
	"agg counter 2c;22;0d;0a;2c",
	"agg table 00 2c0022;2c000a;0d000a0035",
}

func init() {
	Register("C03", &Prop{Gen: c03Gen, Run: c03Run, Stats: c03Stats, Corpus: append(append(append(append(append(append([]string{}, c03Corpus...), c03ReduceCorpus...), c03AnalyzeCorpus...), c03TblCorpus...), c03CmdCorpus...), c03SbvCorpus...)})
}
