//go:build c01 || c02 || c03 || c05

package main

import (
	"bytes"
	"fmt"
	"os"
	"path/filepath"
	"runtime"
	"sort"
	"strconv"
	"strings"
	"time"

	"rare/pkg/extractor"
	"rare/pkg/extractor/batchers"
	"rare/pkg/matchers"
)

// harnessMatcher is the stand-in matcher of the pipeline correspondence (mirrors Rare.C01.harness*):
// a line containing 'x' does not match; group 1 is the text after the first ':'.
type harnessMatcher struct{}

func (harnessMatcher) CreateInstance() matchers.Matcher { return harnessMatcher{} }
func (harnessMatcher) SubexpNameTable() map[string]int  { return map[string]int{} }
func (harnessMatcher) FindSubmatchIndex(b []byte) []int {
	if bytes.IndexByte(b, 'x') >= 0 {
		return nil
	}
	if i := bytes.IndexByte(b, ':'); i >= 0 {
		return []int{0, len(b), i + 1, len(b)}
	}
	return []int{0, len(b), -1, -1}
}

type pipeCfg struct {
	inputs                           [][]byte
	mode                             string
	batch, workers, readers, buffer  int
	flushMs                          int
	script                           string
	procs                            int
	consumerDelayEvery, consumerWait int
}

type pipeResult struct {
	read, matched, ignored uint64
	matches                []extractor.Match
	readErrors             int
}

var pipeSeq int

// runPipe runs the REAL batcher + extractor on the inputs and consumes lazily (late consumption:
// every Match is held until the channel is closed, a GC is forced, and only then read).
func runPipe(c pipeCfg) pipeResult {
	if c.procs > 0 {
		defer runtime.GOMAXPROCS(runtime.GOMAXPROCS(c.procs))
	}
	var b *batchers.Batcher
	var cleanup func()
	switch c.mode {
	case "reader":
		var data []byte
		if len(c.inputs) > 0 {
			data = append([]byte{}, c.inputs[0]...)
		}
		rd := &scriptedReader{rest: data, script: parseScript(c.script)}
		if c.flushMs > 0 {
			b = batchers.VerifOpenReaderToChan("s0", rd, c.batch, c.buffer, time.Duration(c.flushMs)*time.Millisecond)
		} else {
			b = batchers.OpenReaderToChan("s0", rd, c.batch, c.buffer)
		}
	default: // files
		pipeSeq++
		dir := filepath.Join(workDir(), fmt.Sprintf("pipe-%d-%d", os.Getpid(), pipeSeq))
		os.MkdirAll(dir, 0o755)
		cleanup = func() { os.RemoveAll(dir) }
		names := make(chan string, len(c.inputs)+1)
		for i, in := range c.inputs {
			p := filepath.Join(dir, fmt.Sprintf("f%04d", i))
			os.WriteFile(p, in, 0o644)
			names <- p
		}
		close(names)
		b = batchers.OpenFilesToChan(names, false, c.readers, c.batch, c.buffer)
	}
	ig, _ := extractor.NewIgnoreExpressions("{1}")
	ext, err := extractor.New(b.BatchChan(), &extractor.Config{
		Matcher: harnessMatcher{}, Extract: "{0}", Workers: c.workers, Ignore: ig,
	})
	if err != nil {
		panic(err)
	}
	var held [][]extractor.Match
	n := 0
	for mb := range ext.ReadChan() {
		held = append(held, mb)
		n++
		if c.consumerDelayEvery > 0 && n%c.consumerDelayEvery == 0 {
			time.Sleep(time.Duration(c.consumerWait) * time.Microsecond)
		}
	}
	runtime.GC()
	res := pipeResult{read: ext.ReadLines(), matched: ext.MatchedLines(), ignored: ext.IgnoredLines(), readErrors: b.ReadErrors()}
	for _, mb := range held {
		res.matches = append(res.matches, mb...)
	}
	if cleanup != nil {
		cleanup()
	}
	return res
}

func workDir() string {
	if d := os.Getenv("VERIF_WORK"); d != "" {
		return d
	}
	return "/verif/work/tmp"
}

func srcIndex(s string) int {
	base := filepath.Base(s)
	if strings.HasPrefix(base, "f") {
		n, _ := strconv.Atoi(base[1:])
		return n
	}
	if strings.HasPrefix(base, "s") {
		n, _ := strconv.Atoi(base[1:])
		return n
	}
	return -1
}

func group(m extractor.Match, k int) string {
	if 2*k+1 >= len(m.Indices) || m.Indices[2*k] < 0 || m.Indices[2*k+1] < 0 {
		return ""
	}
	return m.Line[m.Indices[2*k]:m.Indices[2*k+1]]
}

func parsePipe(f []string) pipeCfg {
	// pipe <inputs> <mode> <batch> <workers> <readers> <buffer> <flushms> <script> <procs> <delayEvery>
	atoi := func(s string) int { n, _ := strconv.Atoi(s); return n }
	return pipeCfg{inputs: UnHexList(f[1]), mode: f[2], batch: atoi(f[3]), workers: atoi(f[4]), readers: atoi(f[5]),
		buffer: atoi(f[6]), flushMs: atoi(f[7]), script: f[8], procs: atoi(f[9]), consumerDelayEvery: atoi(f[10]), consumerWait: 200}
}

func pipeAnswer(c pipeCfg, r pipeResult) string {
	type row struct {
		src, num int
		s        string
	}
	rows := make([]row, len(r.matches))
	inorder := true
	for i, m := range r.matches {
		// Extracted must be the key `{0}` = the line itself; a mismatch shows up in the text field.
		txt := m.Line
		if m.Extracted != m.Line {
			txt = m.Line + "|extracted=" + m.Extracted
		}
		rows[i] = row{srcIndex(m.Source), int(m.LineNumber), fmt.Sprintf("%d:%d:%s:%s", srcIndex(m.Source), m.LineNumber, HexS(txt), HexS(group(m, 1)))}
		if i > 0 && (rows[i-1].src > rows[i].src || (rows[i-1].src == rows[i].src && rows[i-1].num >= rows[i].num)) {
			inorder = false
		}
	}
	// arrival order is only claimed for one reader and one worker
	claimed := c.workers == 1 && (c.readers == 1 || len(c.inputs) <= 1)
	io := 1
	if claimed && !inorder {
		io = 0
	}
	sort.Slice(rows, func(i, j int) bool {
		if rows[i].src != rows[j].src {
			return rows[i].src < rows[j].src
		}
		return rows[i].num < rows[j].num
	})
	parts := make([]string, len(rows))
	for i, r := range rows {
		parts[i] = r.s
	}
	body := "."
	if len(parts) > 0 {
		body = strings.Join(parts, ",")
	}
	return fmt.Sprintf("ok read=%d matched=%d ignored=%d inorder=%d matches=%s", r.read, r.matched, r.ignored, io, body)
}

func pipeRun(f []string) string {
	if f[0] != "pipe" {
		return "bad-op"
	}
	c := parsePipe(f)
	return pipeAnswer(c, runPipe(c))
}

func genLines(r *Rand, n int) []byte {
	var sb bytes.Buffer
	words := []string{"a", "bb", "x", "k:v", "k: ", ":", "", "long-line-long-line-long-line", "\r", "q:\t", "é", "\x00z"}
	for i := 0; i < n; i++ {
		k := r.Intn(3) + 1
		for j := 0; j < k; j++ {
			sb.WriteString(Pick(r, words))
		}
		if r.Chance(1, 6) {
			sb.WriteString("\r")
		}
		if i < n-1 || r.Chance(2, 3) {
			sb.WriteString("\n")
		}
	}
	return sb.Bytes()
}

func pipeGen(r *Rand, tier string) []string {
	n := 220
	if tier == "thorough" {
		n = 4000
	}
	var out []string
	for i := 0; i < n; i++ {
		mode := "files"
		if r.Chance(2, 5) {
			mode = "reader"
		}
		nin := 1
		if mode == "files" {
			nin = Pick(r, []int{0, 1, 1, 2, 3, 5, 9})
		}
		var ins [][]byte
		for k := 0; k < nin; k++ {
			ln := Pick(r, []int{0, 1, 2, 3, 7, 20, 60})
			if r.Chance(1, 30) {
				ln = 3000
			}
			ins = append(ins, genLines(r, ln))
		}
		if i%40 == 7 {
			// inputs larger than the 128 KiB read-ahead buffer, fixed-width lines so that a newline falls on
			// the last byte of a full buffer (and a few that do not)
			w := Pick(r, []int{8, 16, 32, 64, 17, 100})
			total := 131072*Pick(r, []int{1, 2, 3}) + Pick(r, []int{0, 16, 4096, 70000})
			var sb bytes.Buffer
			for k := 0; sb.Len() < total; k++ {
				l := fmt.Sprintf("%0*d", w-1, k)
				if k%5 == 3 {
					l = "x" + l[1:]
				}
				sb.WriteString(l + "\n")
			}
			ins = [][]byte{sb.Bytes()}
			if mode == "files" && r.Chance(1, 2) {
				ins = append(ins, genLines(r, 50))
			}
		}
		batch := Pick(r, []int{1, 1, 2, 3, 7, 1000})
		workers := Pick(r, []int{1, 1, 2, 3, 4, 8})
		readers := Pick(r, []int{1, 1, 2, 3, 4})
		buffer := Pick(r, []int{1, 1, 2, 3, 4})
		flush := 0
		script := "."
		if mode == "reader" {
			// chunking (incl. stalls), optional sleeps that force timer flushes
			var steps []string
			total := 0
			if len(ins) > 0 {
				total = len(ins[0])
			}
			if r.Chance(1, 2) {
				flush = 1
			}
			for pos := 0; pos < total && len(steps) < 40; {
				w := Pick(r, []int{0, 1, 2, 3, 5, 8, 13, 50})
				st := fmt.Sprintf("%d:n", w)
				if flush > 0 && r.Chance(1, 6) {
					st += ":3"
				}
				steps = append(steps, st)
				pos += w
			}
			if len(steps) > 0 {
				script = strings.Join(steps, ",")
			}
		}
		procs := Pick(r, []int{0, 1, 2, 4, 16})
		delay := Pick(r, []int{0, 0, 1, 3})
		out = append(out, fmt.Sprintf("pipe %s %s %d %d %d %d %d %s %d %d", HexList(ins), mode, batch, workers, readers, buffer, flush, script, procs, delay))
	}
	return out
}

func pipeStats(cases []string) map[string]int {
	st := map[string]int{}
	for _, c := range cases {
		f := strings.Fields(c)
		if f[0] != "pipe" {
			st["op."+f[0]]++
			continue
		}
		st["mode."+f[2]]++
		st["batch."+f[3]]++
		st["workers."+f[4]]++
		st["readers."+f[5]]++
		st["buffer."+f[6]]++
		if f[7] != "0" {
			st["timeflush"]++
		}
		if strings.Contains(f[8], ":n:") {
			st["timeflush.sleeps"]++
		}
		st["inputs."+strconv.Itoa(len(UnHexList(f[1])))]++
	}
	return st
}
