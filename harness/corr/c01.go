//go:build c01 || c02 || c03 || c05

package main

import (
	"bytes"
	"fmt"
	"os"
	"path/filepath"
	"runtime"
	"sort"
	"strconv"
	"strings"
	"sync"
	"time"

	"rare/pkg/expressions/funclib"
	"rare/pkg/extractor"
	"rare/pkg/extractor/batchers"
	"rare/pkg/matchers"
)

// harnessMatcher is the stand-in matcher of the pipeline correspondence (mirrors Rare.C01.harness*):
// a line containing 'x' does not match; group 1 is the text after the first ':'.
type harnessMatcher struct{}

func (harnessMatcher) CreateInstance() matchers.Matcher { return harnessMatcher{} }
func (harnessMatcher) SubexpNameTable() map[string]int  { return map[string]int{} }
func (harnessMatcher) FindSubmatchIndex(b []byte) []int {
	if bytes.IndexByte(b, 'x') >= 0 {
		return nil
	}
	if i := bytes.IndexByte(b, ':'); i >= 0 {
		return []int{0, len(b), i + 1, len(b)}
	}
	return []int{0, len(b), -1, -1}
}

// harnessMatcherN: as harnessMatcher plus group 2 = the text before the first ':' and a name table
// (mirrors Rare.C01.harnessIndicesN / harnessNamesN).
type harnessMatcherN struct{}

func (harnessMatcherN) CreateInstance() matchers.Matcher { return harnessMatcherN{} }
func (harnessMatcherN) SubexpNameTable() map[string]int {
	return map[string]int{"val": 1, "key": 2, "all": 0}
}
func (harnessMatcherN) FindSubmatchIndex(b []byte) []int {
	if bytes.IndexByte(b, 'x') >= 0 {
		return nil
	}
	if i := bytes.IndexByte(b, ':'); i >= 0 {
		return []int{0, len(b), i + 1, len(b), 0, i}
	}
	return []int{0, len(b), -1, -1, -1, -1}
}

// clsSpec is the classification configuration of a case: matcher, ignore expressions, extract expression
// (nil *clsSpec = the fixed legacy configuration: harnessMatcher, ignore "{1}", extract "{0}").
// Case-line fields `<matcher> <ignores> <extract>`: matcher h|n; ignores N (nil IgnoreSet) | E (a set
// without expressions) | hex templates joined by '+'; extract hex.
type clsSpec struct {
	matcher   string
	nilIgnore bool
	ignores   []string
	extract   string
}

func (c *clsSpec) fields() []string {
	ig := "E"
	if c.nilIgnore {
		ig = "N"
	} else if len(c.ignores) > 0 {
		parts := make([]string, len(c.ignores))
		for i, e := range c.ignores {
			parts[i] = HexS(e)
		}
		ig = strings.Join(parts, "+")
	}
	return []string{c.matcher, ig, HexS(c.extract)}
}

func parseClsSpec(m, ig, ex string) *clsSpec {
	c := &clsSpec{matcher: m, extract: string(UnHex(ex))}
	switch ig {
	case "N":
		c.nilIgnore = true
	case "E":
	default:
		for _, h := range strings.Split(ig, "+") {
			c.ignores = append(c.ignores, string(UnHex(h)))
		}
	}
	return c
}

// extractorConfig builds the real extractor configuration of a case through the real constructors.
func extractorConfig(c *clsSpec, workers int) (*extractor.Config, error) {
	if c == nil {
		ig, _ := extractor.NewIgnoreExpressions("{1}")
		return &extractor.Config{Matcher: harnessMatcher{}, Extract: "{0}", Workers: workers, Ignore: ig}, nil
	}
	var ig extractor.IgnoreSet
	var err error
	if c.nilIgnore {
		ig, err = extractor.NewIgnoreExpressions()
	} else {
		ig, err = extractor.NewIgnoreExpressions(append([]string{}, c.ignores...)...)
	}
	if err != nil {
		return nil, err
	}
	var m matchers.Factory = harnessMatcher{}
	if c.matcher == "n" {
		m = harnessMatcherN{}
	}
	return &extractor.Config{Matcher: m, Extract: c.extract, Workers: workers, Ignore: ig}, nil
}

// srcName is the source name the batcher reports for input k of a case with a classification
// configuration (files are opened by their name relative to the case's directory).
func srcName(mode string, k int) string {
	if mode == "reader" || mode == "r" {
		return fmt.Sprintf("s%d", k)
	}
	return fmt.Sprintf("f%04d", k)
}

var chdirMu sync.Mutex

// inDir makes dir the working directory (so that the real OpenFilesToChan can be given the relative
// names f0000… and {src} is that name); the returned function restores the previous one.
func inDir(dir string) func() {
	chdirMu.Lock()
	old, _ := os.Getwd()
	os.Chdir(dir)
	return func() {
		if old != "" {
			os.Chdir(old)
		}
		chdirMu.Unlock()
	}
}

type pipeCfg struct {
	cls                              *clsSpec
	inputs                           [][]byte
	mode                             string
	batch, workers, readers, buffer  int
	flushMs                          int
	script                           string
	procs                            int
	consumerDelayEvery, consumerWait int
	steer                            *steerSpec // schedule steering of this run (c01trace.go); derived from the case line
}

type pipeResult struct {
	read, matched, ignored uint64
	matches                []extractor.Match
	readErrors             int
	compileError           bool
	badBatch               string // a received match batch that is not the in-order matched part of ONE input batch ("" = none)
}

var pipeSeq int

// runPipe runs the REAL batcher + extractor on the inputs and consumes lazily (late consumption:
// every Match is held until the channel is closed, a GC is forced, and only then read).
func runPipe(c pipeCfg) pipeResult {
	if c.procs > 0 {
		defer runtime.GOMAXPROCS(runtime.GOMAXPROCS(c.procs))
	}
	if c.steer != nil { // the outcome must not depend on the interleaving: perturb it at the model's transitions
		steerRunMu.Lock()
		defer steerRunMu.Unlock()
		extractor.VerifTraceSetProbe(c.steer.probe())
		defer extractor.VerifTraceSetProbe(nil)
	}
	var b *batchers.Batcher
	var cleanup func()
	switch c.mode {
	case "reader":
		var data []byte
		if len(c.inputs) > 0 {
			data = append([]byte{}, c.inputs[0]...)
		}
		rd := &scriptedReader{rest: data, script: parseScript(c.script)}
		if c.flushMs > 0 {
			b = batchers.VerifOpenReaderToChan("s0", rd, c.batch, c.buffer, time.Duration(c.flushMs)*time.Millisecond)
		} else {
			b = batchers.OpenReaderToChan("s0", rd, c.batch, c.buffer)
		}
	default: // files
		pipeSeq++
		dir := filepath.Join(workDir(), fmt.Sprintf("pipe-%d-%d", os.Getpid(), pipeSeq))
		os.MkdirAll(dir, 0o755)
		cleanup = func() { os.RemoveAll(dir) }
		names := make(chan string, len(c.inputs)+1)
		if c.cls != nil {
			defer inDir(dir)()
		}
		for i, in := range c.inputs {
			p := filepath.Join(dir, fmt.Sprintf("f%04d", i))
			os.WriteFile(p, in, 0o644)
			if c.cls != nil {
				p = srcName(c.mode, i)
			}
			names <- p
		}
		close(names)
		b = batchers.OpenFilesToChan(names, false, c.readers, c.batch, c.buffer)
	}
	ecfg, cerr := extractorConfig(c.cls, c.workers)
	var ext *extractor.Extractor
	var err error
	if cerr == nil {
		ext, err = extractor.New(b.BatchChan(), ecfg)
	}
	if cerr != nil || err != nil {
		go func() { // drain the batcher so that its goroutines end
			for range b.BatchChan() {
			}
		}()
		if cleanup != nil {
			cleanup()
		}
		return pipeResult{compileError: true}
	}
	var held [][]extractor.Match
	n := 0
	for mb := range ext.ReadChan() {
		held = append(held, mb)
		n++
		if c.consumerDelayEvery > 0 && n%c.consumerDelayEvery == 0 {
			time.Sleep(time.Duration(c.consumerWait) * time.Microsecond)
		}
	}
	runtime.GC()
	res := pipeResult{read: ext.ReadLines(), matched: ext.MatchedLines(), ignored: ext.IgnoredLines(), readErrors: b.ReadErrors()}
	// theorem pipeline_match_batches: every received batch is non-empty, from one source, in line order, inside ONE
	// input batch; with size-cut batches (no timer) the input batch of a line is (number-1)/batch, and the matches of
	// one input batch are never split over two deliveries
	seen := map[string]bool{}
	for _, mb := range held {
		if len(mb) == 0 {
			res.badBatch = "empty"
			continue
		}
		for i := 1; i < len(mb); i++ {
			if mb[i].Source != mb[0].Source || mb[i].LineNumber <= mb[i-1].LineNumber || (c.batch > 0 && mb[i].LineNumber-mb[0].LineNumber >= uint64(c.batch)) {
				res.badBatch = fmt.Sprintf("mixed %s:%d,%s:%d", mb[0].Source, mb[0].LineNumber, mb[i].Source, mb[i].LineNumber)
			}
		}
		if c.flushMs == 0 && c.batch > 0 {
			k := (mb[0].LineNumber - 1) / uint64(c.batch)
			if (mb[len(mb)-1].LineNumber-1)/uint64(c.batch) != k {
				res.badBatch = fmt.Sprintf("straddles %s:%d..%d", mb[0].Source, mb[0].LineNumber, mb[len(mb)-1].LineNumber)
			}
			key := fmt.Sprintf("%s/%d", mb[0].Source, k)
			if seen[key] {
				res.badBatch = "split " + key
			}
			seen[key] = true
		}
	}
	for _, mb := range held {
		res.matches = append(res.matches, mb...)
	}
	if cleanup != nil {
		cleanup()
	}
	return res
}

func workDir() string {
	if d := os.Getenv("VERIF_WORK"); d != "" {
		return d
	}
	return "/verif/work/tmp"
}

func srcIndex(s string) int {
	base := filepath.Base(s)
	if strings.HasPrefix(base, "f") {
		n, _ := strconv.Atoi(base[1:])
		return n
	}
	if strings.HasPrefix(base, "s") {
		n, _ := strconv.Atoi(base[1:])
		return n
	}
	return -1
}

func group(m extractor.Match, k int) string {
	if 2*k+1 >= len(m.Indices) || m.Indices[2*k] < 0 || m.Indices[2*k+1] < 0 {
		return ""
	}
	return m.Line[m.Indices[2*k]:m.Indices[2*k+1]]
}

func parsePipe(f []string) pipeCfg {
	// pipe <inputs> <mode> <batch> <workers> <readers> <buffer> <flushms> <script> <procs> <delayEvery>
	atoi := func(s string) int { n, _ := strconv.Atoi(s); return n }
	var cls *clsSpec
	if len(f) >= 14 {
		cls = parseClsSpec(f[11], f[12], f[13])
	}
	return pipeCfg{cls: cls, inputs: UnHexList(f[1]), mode: f[2], batch: atoi(f[3]), workers: atoi(f[4]), readers: atoi(f[5]),
		buffer: atoi(f[6]), flushMs: atoi(f[7]), script: f[8], procs: atoi(f[9]), consumerDelayEvery: atoi(f[10]), consumerWait: 200}
}

func pipeAnswer(c pipeCfg, r pipeResult) string {
	type row struct {
		src, num int
		s        string
	}
	if r.compileError {
		return "compile-error"
	}
	rows := make([]row, len(r.matches))
	inorder := true
	for i, m := range r.matches {
		if c.cls != nil {
			// with a classification configuration: source (must be the name of the input), number, line, key
			src := srcIndex(m.Source)
			if m.Source != srcName(c.mode, src) {
				src = -1
			}
			rows[i] = row{src, int(m.LineNumber), fmt.Sprintf("%d:%d:%s:%s", src, m.LineNumber, HexS(m.Line), HexS(m.Extracted))}
			if i > 0 && (rows[i-1].src > rows[i].src || (rows[i-1].src == rows[i].src && rows[i-1].num >= rows[i].num)) {
				inorder = false
			}
			continue
		}
		// Extracted must be the key `{0}` = the line itself; a mismatch shows up in the text field.
		txt := m.Line
		if m.Extracted != m.Line {
			txt = m.Line + "|extracted=" + m.Extracted
		}
		rows[i] = row{srcIndex(m.Source), int(m.LineNumber), fmt.Sprintf("%d:%d:%s:%s", srcIndex(m.Source), m.LineNumber, HexS(txt), HexS(group(m, 1)))}
		if i > 0 && (rows[i-1].src > rows[i].src || (rows[i-1].src == rows[i].src && rows[i-1].num >= rows[i].num)) {
			inorder = false
		}
	}
	// arrival order: with one worker every source's matches arrive in line order, whatever the number of readers
	// (theorem pipeline_single_worker_order); the order across sources is only claimed for one reader
	perSrc := true
	lastNum := map[int]int{}
	for _, r := range rows {
		if n, ok := lastNum[r.src]; ok && n >= r.num {
			perSrc = false
		}
		lastNum[r.src] = r.num
	}
	claimed := c.workers == 1 && (c.readers == 1 || len(c.inputs) <= 1)
	io := 1
	if (claimed && !inorder) || (c.workers == 1 && !perSrc) || r.badBatch != "" {
		io = 0
	}
	sort.Slice(rows, func(i, j int) bool {
		if rows[i].src != rows[j].src {
			return rows[i].src < rows[j].src
		}
		return rows[i].num < rows[j].num
	})
	parts := make([]string, len(rows))
	for i, r := range rows {
		parts[i] = r.s
	}
	body := "."
	if len(parts) > 0 {
		body = strings.Join(parts, ",")
	}
	return fmt.Sprintf("ok read=%d matched=%d ignored=%d inorder=%d matches=%s", r.read, r.matched, r.ignored, io, body)
}

func pipeRun(f []string) string {
	if f[0] != "pipe" {
		return "bad-op"
	}
	c := parsePipe(f)
	// two runs in three are steered (jitter and/or a goroutine parked at a transition), chosen by the case line itself
	h := uint64(14695981039346656037)
	for _, b := range []byte(strings.Join(f, " ")) {
		h = (h ^ uint64(b)) * 1099511628211
	}
	if sr := NewRand(mixSeed(h)); sr.Intn(3) != 0 && len(f[1]) < 200000 {
		c.steer = genSteer(sr)
	}
	return pipeAnswer(c, runPipe(c))
}

func genLines(r *Rand, n int) []byte {
	var sb bytes.Buffer
	words := []string{"a", "bb", "x", "k:v", "k: ", ":", "", "long-line-long-line-long-line", "\r", "q:\t", "é", "\x00z",
		// group 1 / keys made of white space only: ASCII, NEL, NBSP, U+1680, U+2003, U+2028, U+3000 …
		"w:\u00a0", "w:\u0085", "w:\u1680 ", "w:\u2003\t", "w:\u2028", "w:\u3000", "w:\u205f\u202f", "w:\v\f",
		// … and look-alikes that are NOT white space for Go: U+200B, U+180E, U+FEFF, a lone continuation byte,
		// a truncated sequence, an over-long encoding of a space, a surrogate
		"t:\u200b", "t:\u180e", "t:\ufeff", "t:\xa0", "t:\xc2", "t:\xe2\x80", "t:\xc0\xa0", "t:\xed\xa0\x80", "t: \xe3\x80", "t:\u00a0\x85"}
	for i := 0; i < n; i++ {
		k := r.Intn(3) + 1
		for j := 0; j < k; j++ {
			sb.WriteString(Pick(r, words))
		}
		if r.Chance(1, 6) {
			sb.WriteString("\r")
		}
		if i < n-1 || r.Chance(2, 3) {
			sb.WriteString("\n")
		}
	}
	return sb.Bytes()
}

// genClsSpec draws a classification configuration: ignore expressions over groups, {line}, {src} and
// named groups (so that a context left over from another line, batch or source shows), extract
// expressions with {src}/{line}, keys that can be empty or white space only.  Only functions of the
// modelled registry, and only templates that compile.
func genClsSpec(r *Rand, mode string, nin int) *clsSpec {
	c := &clsSpec{matcher: Pick(r, []string{"h", "h", "n"})}
	name := func() string {
		if nin <= 0 || r.Chance(1, 8) {
			return Pick(r, []string{"nosuch", "", "f0000", "s0"})
		}
		return srcName(mode, r.Intn(nin))
	}
	num := func() string { return Pick(r, []string{"0", "1", "1", "2", "2", "3", "4", "7", "20"}) }
	var atom func(depth int) string
	atom = func(depth int) string {
		k := r.Intn(19)
		if depth > 1 && k >= 13 {
			k = r.Intn(13)
		}
		switch k {
		case 0:
			return "{1}"
		case 1, 2:
			return "{eq {line} " + num() + "}"
		case 3, 4:
			return "{eq {src} " + name() + "}"
		case 5:
			return "{gt {line} " + num() + "}"
		case 6:
			return "{lt {line} " + num() + "}"
		case 7:
			return "{prefix {0} " + Pick(r, []string{"a", "k", "w", "bb"}) + "}"
		case 8:
			return "{neq {src} " + name() + "}"
		case 9:
			return Pick(r, []string{"{2}", "{line}", "{src}", "{nosuch}", "{suffix {0} a}", "{like {0} :}", "{like {src} 1}",
				"{like {#} v}", "{like {.#} k}", "{like {.} :}", "{not {like {#} 1}}"}) // JSON views of the match ({.} {#} {.#}, property C16)
		case 10:
			if c.matcher == "n" {
				return Pick(r, []string{"{val}", "{eq {key} k}", "{key}", "{eq {all} a}"})
			}
			return "{eq {1} v}"
		case 11: // literals: blank ones are falsy, U+200B is not a space
			return Pick(r, []string{"", " ", "\t", "\u00a0", "\u3000 \u2009", "\u200b", "\xa0", "0"})
		case 12:
			return "{eq {modi {line} " + Pick(r, []string{"2", "3"}) + "} " + Pick(r, []string{"0", "1"}) + "}"
		case 13:
			return "{and " + atom(depth+1) + " " + atom(depth+1) + "}"
		case 14:
			return "{or " + atom(depth+1) + " " + atom(depth+1) + "}"
		case 15:
			return "{not " + atom(depth+1) + "}"
		case 16:
			return "{if " + atom(depth+1) + " " + Pick(r, []string{"\" \"", "y", "{1}", "\"\u00a0\"", "{line}"}) + " " + Pick(r, []string{"\"\"", "\"\t\"", "{1}", "n"}) + "}"
		case 17:
			return "{and {eq {src} " + name() + "} {eq {line} " + num() + "}}"
		default:
			return "{unless " + atom(depth+1) + " " + Pick(r, []string{"{src}", "1", "\" \""}) + "}"
		}
	}
	switch r.Intn(12) {
	case 0:
		c.nilIgnore = true
	case 1: // a set without expressions
	case 2:
		c.ignores = []string{"{1}"}
	default:
		n := Pick(r, []int{1, 1, 1, 2, 2, 3})
		for i := 0; i < n; i++ {
			c.ignores = append(c.ignores, atom(0))
		}
	}
	ex := []string{"{0}", "{0}", "{src}:{line}:{0}", "{src}:{line}:{0}", "{1}", "{1}", "{line}", "{src}", "{2}", "{0}{1}",
		"{if {gt {line} 2} {0}}", "{src} {line}", " ", "{if {eq {src} " + name() + "} {0} {1}}", "{unless {eq {line} " + num() + "} {0}}",
		"{line}:{1}", "\u00a0{1}", "{eq {line} " + num() + "}", "{select {0} 0}", "{substr {0} 0 2}",
		"{.}", "{#}", "{.#}", "{#.}", "{line} {#}", "{src}:{.#}"}
	if c.matcher == "n" {
		ex = append(ex, "{val}", "{key}", "{key}={val}", "{all}", "{src}/{key}", "{.}", "{.#}", "{line}:{.}")
	}
	c.extract = Pick(r, ex)
	// keep only configurations the real constructors accept
	if _, err := extractorConfig(c, 1); err != nil {
		return genClsSpec(r, mode, nin)
	}
	if _, err := funclib.NewKeyBuilder().Compile(c.extract); err != nil {
		return genClsSpec(r, mode, nin)
	}
	return c
}

func pipeGen(r *Rand, tier string) []string {
	n := 220
	if tier == "thorough" {
		n = 4000
	}
	var out []string
	for i := 0; i < n; i++ {
		mode := "files"
		if r.Chance(2, 5) {
			mode = "reader"
		}
		nin := 1
		if mode == "files" {
			nin = Pick(r, []int{0, 1, 1, 2, 3, 5, 9})
		}
		var ins [][]byte
		for k := 0; k < nin; k++ {
			ln := Pick(r, []int{0, 1, 2, 3, 7, 20, 60})
			if r.Chance(1, 30) {
				ln = 3000
			}
			ins = append(ins, genLines(r, ln))
		}
		if i%40 == 7 {
			// inputs larger than the 128 KiB read-ahead buffer, fixed-width lines so that a newline falls on
			// the last byte of a full buffer (and a few that do not)
			w := Pick(r, []int{8, 16, 32, 64, 17, 100})
			total := 131072*Pick(r, []int{1, 2, 3}) + Pick(r, []int{0, 16, 4096, 70000})
			var sb bytes.Buffer
			for k := 0; sb.Len() < total; k++ {
				l := fmt.Sprintf("%0*d", w-1, k)
				if k%5 == 3 {
					l = "x" + l[1:]
				}
				sb.WriteString(l + "\n")
			}
			ins = [][]byte{sb.Bytes()}
			if mode == "files" && r.Chance(1, 2) {
				ins = append(ins, genLines(r, 50))
			}
		}
		batch := Pick(r, []int{1, 1, 2, 3, 7, 1000})
		workers := Pick(r, []int{1, 1, 2, 3, 4, 8})
		readers := Pick(r, []int{1, 1, 2, 3, 4})
		buffer := Pick(r, []int{1, 1, 2, 3, 4, 0})
		flush := 0
		script := "."
		if mode == "reader" {
			// chunking (incl. stalls), optional sleeps that force timer flushes
			var steps []string
			total := 0
			if len(ins) > 0 {
				total = len(ins[0])
			}
			if r.Chance(1, 2) {
				flush = 1
			}
			for pos := 0; pos < total && len(steps) < 40; {
				w := Pick(r, []int{0, 1, 2, 3, 5, 8, 13, 50})
				st := fmt.Sprintf("%d:n", w)
				if flush > 0 && r.Chance(1, 6) {
					st += ":3"
				}
				steps = append(steps, st)
				pos += w
			}
			if len(steps) > 0 {
				script = strings.Join(steps, ",")
			}
		}
		procs := Pick(r, []int{0, 1, 2, 4, 16})
		delay := Pick(r, []int{0, 0, 1, 3})
		line := fmt.Sprintf("pipe %s %s %d %d %d %d %d %s %d %d", HexList(ins), mode, batch, workers, readers, buffer, flush, script, procs, delay)
		if i%8 != 5 { // one case in eight keeps the legacy fixed configuration
			line += " " + strings.Join(genClsSpec(r, mode, len(ins)).fields(), " ")
		}
		out = append(out, line)
	}
	return append(out, pipeTailGen(r, tier)...)
}

// pipeTailGen: histories in which the LAST batches a worker processes contain no matched line - only ignored ones
// (a truthy ignore expression, or an empty key) and unmatched ones - after batches with matches, or with nothing
// before them: whatever a worker tallies for such a batch must still reach the totals (a per-worker tally that is
// published only together with a batch of matches loses it).  Small batch sizes so that the tail spans several
// batches, one to three workers, both ways of being ignored.
func pipeTailGen(r *Rand, tier string) []string {
	n := 16
	if tier == "thorough" {
		n = 300
	}
	var out []string
	for i := 0; i < n; i++ {
		emptyKey := i%2 == 1 // nil ignore set, extract {1}: a line without ':' has an empty key
		matchedL, ignoredL := []string{"a", "bb", "m"}, []string{"k:v", "q:1", "k: z"}
		if emptyKey {
			matchedL, ignoredL = ignoredL, []string{"a", "bb", "", "k:"}
		}
		nin := Pick(r, []int{1, 1, 1, 2, 3})
		batch := Pick(r, []int{1, 1, 2, 2, 3, 4})
		var ins [][]byte
		for k := 0; k < nin; k++ {
			var sb bytes.Buffer
			head := Pick(r, []int{0, 0, 1, 2, 3, 5})
			tail := batch*Pick(r, []int{1, 1, 2, 3}) + Pick(r, []int{0, 0, 1})
			for j := 0; j < head; j++ {
				sb.WriteString(Pick(r, append(append([]string{"x"}, matchedL...), matchedL...)) + "\n")
			}
			for j := 0; j < tail; j++ {
				l := Pick(r, ignoredL)
				if r.Chance(1, 5) {
					l = "x" + l // unmatched
				}
				sb.WriteString(l + "\n")
			}
			ins = append(ins, sb.Bytes())
		}
		mode := "files"
		if nin == 1 && r.Chance(1, 3) {
			mode = "reader"
		}
		line := fmt.Sprintf("pipe %s %s %d %d %d %d 0 . %d %d", HexList(ins), mode, batch, Pick(r, []int{1, 1, 2, 3}), Pick(r, []int{1, 1, 2}),
			Pick(r, []int{1, 2, 0}), Pick(r, []int{0, 1, 4}), Pick(r, []int{0, 1}))
		if emptyKey {
			line += " " + strings.Join((&clsSpec{matcher: "h", nilIgnore: true, extract: "{1}"}).fields(), " ")
		} else if r.Chance(1, 2) {
			line += " " + strings.Join((&clsSpec{matcher: "h", ignores: []string{"{1}"}, extract: "{src}:{line}:{0}"}).fields(), " ")
		}
		out = append(out, line)
	}
	return out
}

func pipeStats(cases []string) map[string]int {
	st := map[string]int{}
	for _, c := range cases {
		f := strings.Fields(c)
		if f[0] != "pipe" {
			st["op."+f[0]]++
			continue
		}
		st["mode."+f[2]]++
		st["batch."+f[3]]++
		st["workers."+f[4]]++
		st["readers."+f[5]]++
		st["buffer."+f[6]]++
		if f[7] != "0" {
			st["timeflush"]++
		}
		if strings.Contains(f[8], ":n:") {
			st["timeflush.sleeps"]++
		}
		st["inputs."+strconv.Itoa(len(UnHexList(f[1])))]++
		if len(f) >= 14 {
			clsStats(st, "cls.", parseClsSpec(f[11], f[12], f[13]))
		} else {
			st["cls.legacy"]++
		}
	}
	return st
}

// clsStats adds distribution facts of a classification configuration to st.
func clsStats(st map[string]int, pre string, c *clsSpec) {
	st[pre+"matcher."+c.matcher]++
	switch {
	case c.nilIgnore:
		st[pre+"ignore.nil"]++
	case len(c.ignores) == 0:
		st[pre+"ignore.emptyset"]++
	default:
		st[pre+"ignore.n"+strconv.Itoa(len(c.ignores))]++
	}
	all := strings.Join(c.ignores, " ")
	if strings.Contains(all, "{line}") {
		st[pre+"ignore.uses.line"]++
	}
	if strings.Contains(all, "{src}") {
		st[pre+"ignore.uses.src"]++
	}
	if strings.Contains(c.extract, "{src}") || strings.Contains(c.extract, "{line}") {
		st[pre+"extract.uses.srcline"]++
	}
	if c.extract == "{1}" || c.extract == " " || strings.HasSuffix(c.extract, "{val}") {
		st[pre+"extract.blankable"]++
	}
}
