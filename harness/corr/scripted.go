package main

import (
	"errors"
	"io"
	"strconv"
	"strings"
	"time"
)

// scriptedReader mirrors Rare.C04.Reader.read.
type scriptStep struct {
	want  int
	err   byte // 'n', 'e', 'f'
	sleep time.Duration
}

type scriptedReader struct {
	rest   []byte
	script []scriptStep
}

var errInjected = errors.New("injected read failure")

func (r *scriptedReader) Read(p []byte) (int, error) {
	if len(r.script) == 0 {
		if len(r.rest) == 0 {
			return 0, io.EOF
		}
		n := copy(p, r.rest)
		r.rest = r.rest[n:]
		return n, nil
	}
	s := r.script[0]
	r.script = r.script[1:]
	if s.sleep > 0 {
		time.Sleep(s.sleep)
	}
	n := s.want
	if n > len(p) {
		n = len(p)
	}
	if n > len(r.rest) {
		n = len(r.rest)
	}
	copy(p, r.rest[:n])
	r.rest = r.rest[n:]
	switch s.err {
	case 'e':
		return n, io.EOF
	case 'f':
		return n, errInjected
	}
	return n, nil
}

func parseScript(s string) []scriptStep {
	if s == "." {
		return nil
	}
	var out []scriptStep
	for _, p := range strings.Split(s, ",") {
		kv := strings.Split(p, ":")
		n, _ := strconv.Atoi(kv[0])
		st := scriptStep{want: n, err: kv[1][0]}
		if len(kv) > 2 { // optional third component: sleep in milliseconds before answering
			ms, _ := strconv.Atoi(kv[2])
			st.sleep = time.Duration(ms) * time.Millisecond
		}
		out = append(out, st)
	}
	return out
}


func (r *scriptedReader) Close() error { return nil }
