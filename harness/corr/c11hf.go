//go:build c11

package main

import (
	"fmt"
	"strings"

	"rare/pkg/expressions"
	"rare/pkg/expressions/funclib"
)

// `spec hf <value hex>`: the real `{hf {0}}` against the SPECIFICATION of hf (the rendering keeps the sign of
// the value).  The Lean side answers what the specification demands, not what the model of the code computes;
// the two differ on exactly one value, -Inf (printed `Inf`): the recorded known finding of C11.

var hfCompiled *expressions.CompiledKeyBuilder

func hfSpecRun(f []string) (string, bool) {
	if len(f) != 3 || f[0] != "spec" || f[1] != "hf" {
		return "", false
	}
	if hfCompiled == nil {
		hfCompiled, _ = funclib.NewKeyBuilderEx(false).Compile("{hf {0}}")
	}
	if hfCompiled == nil {
		return "nil-compiled", true
	}
	return "ok val=" + HexS(hfCompiled.BuildKey(&expressions.KeyBuilderContextArray{Elements: []string{string(UnHex(f[2]))}})), true
}

func hfSpecCases(r *Rand, tier string) []string {
	vals := []string{"-Inf", "Inf", "+Inf", "NaN", "0", "-0", "-0.00001", "0.00001", "-1", "1", "999.99996", "-999.99996", "1000", "-1000", "-1234567.891", "1234567.891",
		"1e15", "-1e15", "1e22", "-1e22", "1.7976931348623157e308", "-1.7976931348623157e308", "5e-324", "-5e-324", "x", "", "1e400"}
	var out []string
	for _, v := range vals {
		out = append(out, "spec hf "+HexS(v))
	}
	n := 60
	if tier == "thorough" {
		n = 3000
	}
	for i := 0; i < n; i++ {
		out = append(out, "spec hf "+HexS(f64RandDecimal(r)))
	}
	return out
}

func hfSpecStats(cases []string, st map[string]int) {
	for _, c := range cases {
		if strings.HasPrefix(c, "spec hf ") {
			st["op.spec-hf"]++
		}
	}
}

func init() {
	c11ExtraGen = append(c11ExtraGen, hfSpecCases)
	c11ExtraRun = append(c11ExtraRun, hfSpecRun)
	c11ExtraStats = append(c11ExtraStats, hfSpecStats)
	_ = fmt.Sprint
}
