//go:build c05

package main

// C05, "ends with a complete render" on the signal path.
//
//   sigagg <workers> <batch> <when> <renderDelayMs> <sampleDelayEvery> <gapUs>
//
//     The real RunAggregationLoop runs over a real extractor whose input does NOT end (a batch every <gapUs> µs);
//     the process sends itself SIGINT (what Ctrl-C does) – <when> = s<n>: inside the n-th call of Sample (main holds
//     the mutex), r<k>: inside the k-th periodic render (the ticker holds the mutex, main sits in its select or
//     waits for the lock).  The loop must return (graceful stop), with a last
//     writeOutput() that happened after the last Sample and shows exactly what was sampled; what was sampled is a
//     whole number of batches (every line matches, every batch has <batch> lines); no render and no Sample overlap;
//     and after the return nothing renders any more (the ticker goroutine has ended).
//     Model: Model/C05Signal.lean (`signal` step), Props: signal_final_render, signal_render_sample_exclusive.

import (
	"fmt"
	"os"
	"os/signal"
	"strconv"
	"sync"
	"sync/atomic"
	"syscall"
	"time"

	"rare/cmd/helpers"
	"rare/pkg/aggregation"
	"rare/pkg/extractor"
)

var c05SigOnce sync.Once
var c05SigSink = make(chan os.Signal, 8)

type sigCounter struct {
	*aggregation.MatchCounter
	inSample, inRender, overlap int32
	n                           int64
	after                       int64
	delayEvery                  int64
}

func (w *sigCounter) Sample(ele string) {
	atomic.StoreInt32(&w.inSample, 1)
	if atomic.LoadInt32(&w.inRender) != 0 {
		atomic.StoreInt32(&w.overlap, 1)
	}
	n := atomic.AddInt64(&w.n, 1)
	if n == w.after {
		syscall.Kill(os.Getpid(), syscall.SIGINT)
	}
	if w.delayEvery > 0 && n%w.delayEvery == 0 {
		time.Sleep(30 * time.Microsecond)
	}
	w.MatchCounter.Sample(ele)
	if atomic.LoadInt32(&w.inRender) != 0 {
		atomic.StoreInt32(&w.overlap, 1)
	}
	atomic.StoreInt32(&w.inSample, 0)
}

func c05SigAgg(f []string) string {
	if len(f) < 6 {
		return "bad-args"
	}
	atoi := func(s string) int { n, _ := strconv.Atoi(s); return n }
	if len(f) < 7 || len(f[3]) < 2 {
		return "bad-args"
	}
	workers, batch, renderDelay, delayEvery, gapUs := atoi(f[1]), atoi(f[2]), atoi(f[4]), atoi(f[5]), atoi(f[6])
	after, afterRender := 0, 0
	switch f[3][0] {
	case 's':
		after = atoi(f[3][1:])
	case 'r':
		afterRender = atoi(f[3][1:])
	}
	if workers < 1 || batch < 1 || after+afterRender < 1 {
		return "bad-args"
	}
	// SIGINT must never take the harness down, whatever the code under test registers
	c05SigOnce.Do(func() { signal.Notify(c05SigSink, os.Interrupt) })
	ch := make(chan extractor.InputBatch, 2)
	ext, err := extractor.New(ch, &extractor.Config{Matcher: fieldMatcher{}, Extract: "{word}", Workers: workers})
	if err != nil {
		return "bad-args " + err.Error()
	}
	var stop int32
	var produced int64
	prodDone := make(chan struct{})
	go func() { // the input never ends by itself
		defer close(prodDone)
		ln := uint64(1)
		keys := []string{"a", "b", "cc", "dd"}
		for atomic.LoadInt32(&stop) == 0 {
			var cur []extractor.BString
			for i := 0; i < batch; i++ {
				cur = append(cur, extractor.BString(keys[int(ln)%len(keys)]+" 1 2 2020-01-01"))
				ln++
			}
			select {
			case ch <- extractor.InputBatch{Batch: cur, Source: "s", BatchStart: ln - uint64(batch)}:
				atomic.AddInt64(&produced, int64(batch))
			case <-time.After(20 * time.Millisecond):
			}
			if gapUs > 0 {
				time.Sleep(time.Duration(gapUs) * time.Microsecond)
			}
		}
		close(ch)
	}()
	w := &sigCounter{MatchCounter: aggregation.NewCounter(), after: int64(after), delayEvery: int64(delayEvery)}
	var renders, lastTotal, lastSeenN int64
	var returned int32
	var lateRenders int32
	var inFlight int32
	render := func() {
		if atomic.AddInt32(&inFlight, 1) > 1 {
			atomic.StoreInt32(&w.overlap, 1) // two writeOutput calls at the same time
		}
		defer atomic.AddInt32(&inFlight, -1)
		atomic.StoreInt32(&w.inRender, 1)
		if atomic.LoadInt32(&w.inSample) != 0 {
			atomic.StoreInt32(&w.overlap, 1)
		}
		if atomic.LoadInt32(&returned) != 0 {
			atomic.AddInt32(&lateRenders, 1)
		}
		if afterRender > 0 && atomic.LoadInt64(&renders)+1 == int64(afterRender) && atomic.LoadInt32(&returned) == 0 {
			syscall.Kill(os.Getpid(), syscall.SIGINT)
		}
		var total int64
		for _, it := range w.MatchCounter.Items() {
			total += it.Item.Count()
		}
		time.Sleep(time.Duration(renderDelay) * time.Millisecond)
		atomic.StoreInt64(&lastTotal, total)
		atomic.StoreInt64(&lastSeenN, atomic.LoadInt64(&w.n))
		atomic.AddInt64(&renders, 1)
		if atomic.LoadInt32(&w.inSample) != 0 {
			atomic.StoreInt32(&w.overlap, 1)
		}
		atomic.StoreInt32(&w.inRender, 0)
	}
	done := make(chan struct{})
	go func() {
		helpers.RunAggregationLoop(ext, w, render)
		atomic.StoreInt32(&returned, 1)
		close(done)
	}()
	ret := 1
	select {
	case <-done:
	case <-time.After(20 * time.Second):
		ret = 0
	}
	nAtReturn := atomic.LoadInt64(&w.n)
	rendersAtReturn := atomic.LoadInt64(&renders)
	finalTotal := atomic.LoadInt64(&lastTotal)
	finalSeen := atomic.LoadInt64(&lastSeenN)
	exhausted := 0
	select {
	case <-prodDone:
		exhausted = 1
	default:
	}
	// let the rest of the pipeline finish (nobody reads readChan any more: drain it), and watch for late renders
	atomic.StoreInt32(&stop, 1)
	drained := make(chan struct{})
	go func() {
		for range ext.ReadChan() {
		}
		close(drained)
	}()
	time.Sleep(230 * time.Millisecond)
	select { // no worker of this case may still be running when the next case starts its trace
	case <-drained:
	case <-time.After(3 * time.Second):
	}
	b2i := func(b bool) int {
		if b {
			return 1
		}
		return 0
	}
	c05SigCases++
	c05SigSampled += int(nAtReturn)
	return fmt.Sprintf("ok returned=%d input_exhausted=%d final_render=%d final_eq_sampled=%d whole_batches=%d late_renders=%d late_samples=%d excl_ok=%d",
		ret, exhausted, b2i(rendersAtReturn >= 1), b2i(finalTotal == nAtReturn && finalSeen == nAtReturn), b2i(nAtReturn%int64(batch) == 0),
		atomic.LoadInt32(&lateRenders), atomic.LoadInt64(&w.n)-nAtReturn, 1-int(atomic.LoadInt32(&w.overlap)))
}

var c05SigCases, c05SigSampled int

func c05SigGen(r *Rand, tier string) []string {
	n := 3
	if tier == "thorough" {
		n = 20
	}
	var out []string
	for i := 0; i < n; i++ {
		when := fmt.Sprintf("s%d", Pick(r, []int{1, 2, 10, 500, 4000}))
		gap := Pick(r, []int{0, 0, 200})
		if r.Chance(1, 2) { // Ctrl-C while a periodic render is running and main waits in its select
			when = fmt.Sprintf("r%d", Pick(r, []int{1, 1, 2}))
			gap = Pick(r, []int{300, 2000, 30000})
		}
		out = append(out, fmt.Sprintf("sigagg %d %d %s %d %d %d", Pick(r, []int{1, 2, 4, 8}), Pick(r, []int{1, 3, 7, 50}),
			when, Pick(r, []int{0, 5, 60, 130}), Pick(r, []int{0, 1, 1, 7}), gap))
	}
	return out
}
