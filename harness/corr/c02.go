//go:build c02

package main

import (
	"bytes"
	"fmt"
	"regexp"
	"runtime"
	"sort"
	"strconv"
	"strings"
	"time"

	"rare/pkg/color"
	"rare/pkg/extractor"
	"rare/pkg/extractor/batchers"
	"rare/pkg/matchers"
	"rare/pkg/matchers/fastregex"
)

// fixedMatcher hands a prescribed index slice and name table to the real extractor for one target line.
type fixedMatcher struct {
	target  []byte
	indices []int
	names   map[string]int
}

func (m *fixedMatcher) CreateInstance() matchers.Matcher { return m }
func (m *fixedMatcher) SubexpNameTable() map[string]int  { return m.names }
func (m *fixedMatcher) FindSubmatchIndex(b []byte) []int {
	if bytes.Equal(b, m.target) {
		return append([]int{}, m.indices...)
	}
	return nil
}

func parseInts(s string) []int {
	if s == "." {
		return nil
	}
	var out []int
	for _, p := range strings.Split(s, ",") {
		n, _ := strconv.Atoi(p)
		out = append(out, n)
	}
	return out
}

func c02Run(f []string) string {
	switch f[0] {
	case "pipe":
		return pipeRun(f)
	case "plan":
		return c02PlanRun(f)
	case "named":
		return c02NamedRun(f)
	case "rx", "rxkey", "rxkeyp":
		return c02RxRun(f)
	case "dissectpipe":
		return c02PoolRun(f)
	case "tflush":
		return c02TFlushRun(f)
	case "tfheap":
		return c02TFHeapRun(f)
	case "ctxhist":
		return c02HistRun(f)
	case "filt", "filtl", "vis", "idx":
		return c02FilterRun(f)
	case "ctx":
		// ctx <line> <indices> <names> <name idx> <src> <linenum> <key>
		line := UnHex(f[1])
		indices := parseInts(f[2])
		names := map[string]int{}
		nidx := parseInts(f[4])
		for i, n := range UnHexListS(f[3]) {
			if _, dup := names[n]; !dup { // first occurrence wins, as in the model
				names[n] = nidx[i]
			}
		}
		src := string(UnHex(f[5]))
		lineNum, _ := strconv.Atoi(f[6])
		key := string(UnHex(f[7]))
		var data bytes.Buffer
		for i := 1; i < lineNum; i++ {
			data.WriteString("\x01filler\n")
		}
		data.Write(line)
		data.WriteString("\n")
		m := &fixedMatcher{target: line, indices: indices, names: names}
		b := batchers.OpenReaderToChan(src, &scriptedReader{rest: data.Bytes()}, 3, 1)
		ext, err := extractor.New(b.BatchChan(), &extractor.Config{Matcher: m, Extract: "[{" + key + "}]", Workers: 1})
		if err != nil {
			return "compile-error " + HexS(err.Error())
		}
		var got []extractor.Match
		for mb := range ext.ReadChan() {
			got = append(got, mb...)
		}
		if len(got) != 1 {
			return fmt.Sprintf("matches=%d", len(got))
		}
		v := got[0].Extracted
		if got[0].LineNumber != uint64(lineNum) || got[0].Source != src || got[0].Line != string(line) {
			return "wrong-provenance"
		}
		return "ok " + HexS(v[1:len(v)-1])
	case "wrap":
		color.Enabled = true
		line := string(UnHex(f[1]))
		out := color.WrapIndices(line, parseInts(f[2]))
		// property-level oracle on this side, for lines without an ESC byte of their own: deleting the
		// table's codes gives the line back.  (For a line that carries escape sequences itself a textual
		// search cannot tell them from inserted ones; there the model's segment-wise `strip` – proved equal
		// to the line – is compared through the rendered bytes.)
		if !strings.Contains(line, "\x1b") {
			stripped := out
			for _, c := range color.GroupColors {
				stripped = strings.ReplaceAll(stripped, string(c), "")
			}
			stripped = strings.ReplaceAll(stripped, string(color.Reset), "")
			if stripped != line {
				return "ok " + HexS(out) + " stripped-differs"
			}
		}
		return "ok " + HexS(out)
	case "regexpipe":
		// regexpipe <n> <pattern> <inputs> <workers> <batch>
		pat := string(UnHex(f[2]))
		re, err := fastregex.Compile(pat)
		if err != nil {
			return "bad-pattern"
		}
		ref := regexp.MustCompile(pat)
		inputs := UnHexList(f[3])
		workers, _ := strconv.Atoi(f[4])
		batch, _ := strconv.Atoi(f[5])
		var data []byte
		if len(inputs) > 0 {
			data = inputs[0]
		}
		b := batchers.OpenReaderToChan("s0", &scriptedReader{rest: append([]byte{}, data...)}, batch, 2)
		ext, err := extractor.New(b.BatchChan(), &extractor.Config{Matcher: matchers.ToFactory(re), Extract: "{0}", Workers: workers})
		if err != nil {
			return "compile-error"
		}
		var held [][]extractor.Match
		for mb := range ext.ReadChan() {
			held = append(held, mb)
		}
		runtime.GC()
		time.Sleep(time.Millisecond)
		lines := bytes.Split(data, []byte("\n"))
		stable := 1
		n := 0
		var nums []int
		for _, mb := range held {
			for _, m := range mb {
				n++
				nums = append(nums, int(m.LineNumber))
				if int(m.LineNumber) < 1 || int(m.LineNumber) > len(lines) {
					stable = 0
					continue
				}
				want := lines[m.LineNumber-1]
				if m.Line != string(want) {
					stable = 0
				}
				wi := ref.FindSubmatchIndex(want)
				if len(wi) != len(m.Indices) {
					stable = 0
					continue
				}
				for k := range wi {
					if wi[k] != m.Indices[k] {
						stable = 0
					}
				}
				if len(wi) >= 2 && m.Extracted != string(want[wi[0]:wi[1]]) {
					stable = 0
				}
			}
		}
		sort.Ints(nums)
		for k := 1; k < len(nums); k++ {
			if nums[k] == nums[k-1] {
				stable = 0
			}
		}
		return fmt.Sprintf("ok stable=%d n=%d", stable, n)
	}
	return "bad-op"
}

func c02Gen(r *Rand, tier string) []string {
	var out []string
	n := 700
	if tier == "thorough" {
		n = 20000
	}
	keys := []string{"0", "1", "2", "3", "7", "-1", "-2", "+1", "01", "9223372036854775807", "-9223372036854775808",
		"4611686018427387904", "4611686018427387905", "src", "line", "@", "name", "other", "nm2", "missing"}
	for i := 0; i < n; i++ {
		ln := r.Intn(12)
		line := make([]byte, ln)
		for j := range line {
			line[j] = Pick(r, []byte("abc:é \x00\t"))
		}
		if string(line) == "\x01filler" {
			continue
		}
		ng := r.Intn(5)
		var idx []string
		for g := 0; g < ng; g++ {
			if r.Chance(1, 4) {
				idx = append(idx, "-1", "-1")
				continue
			}
			a := r.Intn(ln + 1)
			b := a + r.Intn(ln-a+1)
			idx = append(idx, strconv.Itoa(a), strconv.Itoa(b))
		}
		if r.Chance(1, 10) && len(idx) > 0 {
			idx = idx[:len(idx)-1] // odd length
		}
		is := "."
		if len(idx) > 0 {
			is = strings.Join(idx, ",")
		}
		if len(idx) == 0 {
			// an empty index slice means "no match" to the extractor; the ctx op needs a match
			is = fmt.Sprintf("0,%d", ln)
		}
		names := []string{"name", "nm2"}
		nidx := []string{strconv.Itoa(r.Intn(4)), strconv.Itoa(r.Intn(6))}
		if r.Chance(1, 3) {
			names, nidx = nil, nil
		}
		ni := "."
		if len(nidx) > 0 {
			ni = strings.Join(nidx, ",")
		}
		out = append(out, fmt.Sprintf("ctx %s %s %s %s %s %d %s", Hex(line), is, HexListS(names), ni, HexS(Pick(r, []string{"s0", "<stdin>", "a/b.log"})), r.Range(1, 9), HexS(Pick(r, keys))))
		// WrapIndices
		var gs []string
		for g := 0; g < r.Intn(5); g++ {
			if r.Chance(1, 5) {
				gs = append(gs, "-1", "-1")
				continue
			}
			a := r.Intn(ln + 1)
			b := a + r.Intn(ln-a+1)
			gs = append(gs, strconv.Itoa(a), strconv.Itoa(b))
		}
		g := "."
		if len(gs) > 0 {
			g = strings.Join(gs, ",")
		}
		out = append(out, fmt.Sprintf("wrap %s %s", Hex(line), g))
	}
	// default `rare filter` output through the real command, real matchers; color.StrLen
	out = append(out, c02FilterGen(NewRand(r.U64()), tier)...)
	// {name} through the real regex wrapper's name table
	out = append(out, c02NamedGen(NewRand(r.U64()), tier)...)
	// dissect matcher, one worker, all matches held across the IntPool refill (every 1024 matches)
	out = append(out, c02PoolGen(NewRand(r.U64()), tier)...)
	// the regex engine itself against the model's leftmost-first matcher (fragment of the syntax)
	out = append(out, c02RxGen(NewRand(r.U64()), tier)...)
	// the time-flush path with pauses and a late consumer
	out = append(out, c02TFlushGen(NewRand(r.U64()), tier)...)
	// the matcher the flags select (helpers.BuildMatcherFromArguments)
	out = append(out, c02PlanGen(NewRand(r.U64()), tier)...)
	// the whole pipeline with late consumption (shared with C01)
	np := 60
	if tier == "thorough" {
		np = 1500
	}
	sub := NewRand(r.U64())
	all := pipeGen(sub, "quick")
	for i := 0; i < np && i < len(all); i++ {
		out = append(out, all[i])
	}
	// real regex matcher, results held across the 1024-match pool refill
	pats := []string{`(\w+) (\d+)`, `(?P<word>\w+)( (?P<num>\d+))?`, `(a|(b))(c)?`, `^(\w*)$`, `(\d+)|(\w+)`, `((a)(b)?)+`}
	nr := 6
	if tier == "thorough" {
		nr = 80
	}
	for i := 0; i < nr; i++ {
		pat := Pick(r, pats)
		re := regexp.MustCompile(pat)
		var sb bytes.Buffer
		nl := Pick(r, []int{3, 50, 1500, 4000})
		cnt := 0
		for k := 0; k < nl; k++ {
			l := Pick(r, []string{"abc 12", "b", "ab", "hello 7", "", "--", "c 1", "zzz"})
			if re.FindSubmatchIndex([]byte(l)) != nil && len(re.FindSubmatchIndex([]byte(l))) > 0 {
				// key {0} must be non-empty to count as a match
				ix := re.FindSubmatchIndex([]byte(l))
				if ix[1] > ix[0] {
					cnt++
				}
			}
			sb.WriteString(l + "\n")
		}
		out = append(out, fmt.Sprintf("regexpipe %d %s %s %d %d", cnt, HexS(pat), HexList([][]byte{sb.Bytes()}), Pick(r, []int{1, 2, 4}), Pick(r, []int{1, 7, 1000})))
	}
	// one worker's context over a history of matches from several sources (round 4d; last, so that the cases of
	// the generators above are the ones they were before)
	out = append(out, c02HistGen(NewRand(r.U64()), tier)...)
	return out
}

func c02Stats(cases []string) map[string]int {
	st := map[string]int{}
	for _, c := range cases {
		f := strings.Fields(c)
		st["op."+f[0]]++
		if f[0] == "ctx" {
			st["ctx.key."+string(UnHex(f[7]))]++
		}
	}
	c02FilterStats(cases, st)
	c02NamedStats(cases, st)
	c02RxStats(cases, st)
	c02HistStats(cases, st)
	return st
}

func init() {
	Register("C02", &Prop{Gen: c02Gen, Run: c02Run, Stats: c02Stats, Timeout: 60 * time.Second})
}
