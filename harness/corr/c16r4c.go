//go:build c16

package main

import (
	"fmt"
	"regexp"
	"strconv"
	"strings"
	"time"

	"rare/pkg/extractor"
	"rare/pkg/matchers"
)

// Round 4c: ONE expression context over a HISTORY of matches.
//
// The extractor keeps one SliceSpaceExpressionContext per worker goroutine and re-points it at every matched line
// (processLineSync).  The property says the view is a function of the match; so whatever the worker saw before –
// other sources, the same line number in another source, the same match evaluated before, unmatched lines in
// between – must not show in the text.
//
//	hist <keys hexlist> <name table> <seq>
//	    keys: the expression is `{k1}|{k2}|…` (keys: . # .# #. @ src line, or a group name [A-Za-z_][A-Za-z0-9_]*)
//	    seq:  `+`-joined items `<hex source>/<line number>/<indices>/<hex line>` in the order the single worker
//	          gets them (`.` = none).  indices `.` = the matcher does not match that line.
//	    The REAL pipeline runs: extractor.New with Workers=1 over a channel of InputBatch (consecutive items of one
//	    source with consecutive line numbers share a batch), a scripted matchers.Factory that answers the indices
//	    of the case (the matcher is not the subject here), the real processLineSync / BuildKey / GetKey.
//	answer: ok <items>: `+`-joined `<hex source>/<line number>/<hex Extracted>` of every Match that came out of
//	    ReadChan, in order (`.` = none).  The model answers from a context-free function of each item.
type c16Scripted struct {
	nt  map[string]int
	idx [][]int
	k   int
}

func (s *c16Scripted) CreateInstance() matchers.Matcher { return s }
func (s *c16Scripted) SubexpNameTable() map[string]int  { return s.nt }
func (s *c16Scripted) FindSubmatchIndex(b []byte) []int {
	i := s.k
	s.k++
	if i >= len(s.idx) {
		return nil
	}
	return s.idx[i]
}

var c16reKeyName = regexp.MustCompile(`^([A-Za-z_][A-Za-z0-9_]*|\.|#|\.#|#\.|@)$`)

type c16HistItem struct {
	src  string
	num  uint64
	idx  []int
	line string
}

func c16ParseHist(s string) ([]c16HistItem, bool) {
	if s == "." {
		return nil, true
	}
	var out []c16HistItem
	for _, it := range strings.Split(s, "+") {
		p := strings.Split(it, "/")
		if len(p) != 4 {
			return nil, false
		}
		n, err := strconv.ParseUint(p[1], 10, 64)
		if err != nil {
			return nil, false
		}
		item := c16HistItem{src: string(UnHex(p[0])), num: n, line: string(UnHex(p[3]))}
		if p[2] != "." {
			item.idx = c16ParseInts(p[2])
			// a matcher never answers offsets outside the line; GetMatch would panic in the worker goroutine
			for i := 0; i+1 < len(item.idx); i += 2 {
				a, b := item.idx[i], item.idx[i+1]
				if a >= 0 && b >= 0 && (a > b || b > len(item.line)) {
					return nil, false
				}
			}
		}
		out = append(out, item)
	}
	return out, true
}

func c16RunR4c(f []string) (res string, handled bool) {
	defer func() {
		if e := recover(); e != nil {
			res, handled = "panic", true
		}
	}()
	if f[0] != "hist" {
		return "", false
	}
	if len(f) != 4 {
		return "bad-args", true
	}
	keys := UnHexListS(f[1])
	if len(keys) == 0 {
		return "bad-args", true
	}
	var tpl []string
	for _, k := range keys {
		if !c16reKeyName.MatchString(k) {
			return "bad-args", true
		}
		tpl = append(tpl, "{"+k+"}")
	}
	items, ok := c16ParseHist(f[3])
	if !ok {
		return "bad-args", true
	}
	m := &c16Scripted{nt: c16ParseNT(f[2])}
	for _, it := range items {
		m.idx = append(m.idx, it.idx)
	}
	in := make(chan extractor.InputBatch, len(items)+1)
	for i := 0; i < len(items); {
		b := extractor.InputBatch{Source: items[i].src, BatchStart: items[i].num}
		j := i
		for j < len(items) && items[j].src == items[i].src && items[j].num == items[i].num+uint64(j-i) {
			b.Batch = append(b.Batch, extractor.BString(items[j].line))
			j++
		}
		in <- b
		i = j
	}
	close(in)
	ex, err := extractor.New(in, &extractor.Config{Matcher: m, Extract: strings.Join(tpl, "|"), Workers: 1})
	if err != nil {
		return "compile-error", true
	}
	var out []string
	timeout := time.After(20 * time.Second)
	for {
		select {
		case batch, more := <-ex.ReadChan():
			if !more {
				if len(out) == 0 {
					return "ok .", true
				}
				return "ok " + strings.Join(out, "+"), true
			}
			for _, mt := range batch {
				out = append(out, fmt.Sprintf("%s/%d/%s", HexS(mt.Source), mt.LineNumber, HexS(mt.Extracted)))
			}
		case <-timeout:
			return "hang", true
		}
	}
}

// ---- generator

// a line made of pieces; every piece is a group (group 0 = the whole line); some groups unmatched
func c16HistMatch(r *Rand, pieces []string, extra int) (string, string) {
	line := strings.Join(pieces, " ")
	idx := []int{0, len(line)}
	off := 0
	for _, p := range pieces {
		if r.Chance(1, 12) {
			idx = append(idx, -1, -1)
		} else {
			idx = append(idx, off, off+len(p))
		}
		off += len(p) + 1
	}
	for e := 0; e < extra; e++ {
		idx = append(idx, -1, -1)
	}
	return c16Ints(idx), HexS(line)
}

func c16HistPiece(r *Rand) string {
	if r.Chance(1, 2) {
		return Pick(r, []string{"a", "b", "007", "1.5", "true", "TRUE", "", "x\"y", "\x01", "é", "0", "10", "zz", "\\"})
	}
	s := c16Text(r)
	if len(s) > 24 {
		s = s[:24]
	}
	return strings.ReplaceAll(s, " ", "_")
}

func c16GenHist(r *Rand) string {
	ng := 1 + r.Intn(3)
	var names []string
	var nums []int
	for g := 1; g <= ng; g++ {
		if r.Chance(3, 4) {
			names = append(names, fmt.Sprintf("%s%d", Pick(r, []string{"g", "zeta", "A", "_"}), g))
			nums = append(nums, Pick(r, []int{g, g, g, g, ng + 1, 0}))
		}
	}
	views := []string{".", "#", ".#", "#."}
	var keys []string
	for k := 1 + r.Intn(3); k > 0; k-- {
		switch {
		case r.Chance(3, 4):
			keys = append(keys, Pick(r, views))
		case len(names) > 0 && r.Bool():
			keys = append(keys, Pick(r, names))
		default:
			keys = append(keys, Pick(r, []string{"src", "line", "@", "absent"}))
		}
	}
	// the shapes that matter: several sources whose line numbers restart at 1; the same number again and again;
	// the same match twice; an unmatched line between two matches; one source in ascending batches
	srcs := []string{"a.log", "b.log", "c.log", "", "-", "a.log"}
	nsrc := 1 + r.Intn(4)
	mode := r.Intn(5)
	n := 2 + r.Intn(7)
	var items []string
	var prevIx, prevLn string
	next := map[string]uint64{}
	for i := 0; i < n; i++ {
		src := srcs[r.Intn(nsrc)]
		var num uint64
		switch mode {
		case 0: // every item is line 1 of some source (one-line files)
			src = srcs[i%len(srcs)]
			if r.Chance(1, 4) {
				src = fmt.Sprintf("f%d", i)
			}
			num = 1
		case 1: // line numbers restart per source
			next[src]++
			num = next[src]
		case 2: // one constant line number whatever the source
			num = 7
		case 3: // arbitrary numbers, repeats likely
			num = uint64(Pick(r, []int{0, 1, 1, 2, 3, 1 << 40}))
		default: // one source, ascending (the ordinary single-file run)
			src = "a.log"
			num = uint64(i + 1)
		}
		var ps []string
		for g := 0; g < ng; g++ {
			ps = append(ps, c16HistPiece(r))
		}
		ix, ln := c16HistMatch(r, ps, r.Intn(2))
		switch {
		case r.Chance(1, 8) && prevIx != "":
			ix, ln = prevIx, prevLn // the very same match again (repeated evaluation)
		case r.Chance(1, 10):
			ix = "." // the matcher does not match this line
		}
		if ix != "." {
			prevIx, prevLn = ix, ln
		}
		items = append(items, fmt.Sprintf("%s/%d/%s/%s", HexS(src), num, ix, ln))
	}
	return fmt.Sprintf("hist %s %s %s", HexListS(keys), c16NT(names, nums), strings.Join(items, "+"))
}

func c16GenR4c(r *Rand, tier string) []string {
	n := 700
	if tier == "thorough" {
		n = 12000
	}
	out := []string{
		// three one-line files, one worker: every match is line 1 of its source
		"hist " + HexListS([]string{"."}) + " 61:1;62:2 " + strings.Join([]string{
			HexS("f1") + "/1/0,3,0,1,2,3/" + HexS("x y"),
			HexS("f2") + "/1/0,3,0,1,2,3/" + HexS("p q"),
			HexS("f3") + "/1/0,7,0,3,4,7/" + HexS("007 1.5")}, "+"),
		// the same for {#} and {.#}, and two views of one match next to each other
		"hist " + HexListS([]string{"#"}) + " . " + HexS("f1") + "/1/0,1/" + HexS("a") + "+" + HexS("f2") + "/1/0,1/" + HexS("b"),
		"hist " + HexListS([]string{".#", ".", "#"}) + " 61:1 " + HexS("f1") + "/1/0,1,0,1/" + HexS("a") + "+" + HexS("f2") + "/1/0,1,0,1/" + HexS("b"),
		// same source, same number (a followed file that was truncated and re-read starts at 1 again)
		"hist " + HexListS([]string{".", "line", "src"}) + " 61:1 " + HexS("f") + "/1/0,1,0,1/" + HexS("a") + "+" + HexS("f") + "/1/0,1,0,1/" + HexS("b"),
		// an unmatched line between two matches, a match that is ignored (empty key), nothing at all
		"hist " + HexListS([]string{"."}) + " 61:1 " + HexS("f") + "/1/0,1,0,1/" + HexS("a") + "+" + HexS("f") + "/2/./" + HexS("zz") + "+" + HexS("g") + "/1/0,1,0,1/" + HexS("b"),
		"hist " + HexListS([]string{"g1"}) + " 6731:1 " + HexS("f") + "/1/0,1,0,0/" + HexS("a") + "+" + HexS("f") + "/2/0,1,0,1/" + HexS("b"),
		"hist " + HexListS([]string{"."}) + " . .",
	}
	for i := 0; i < n; i++ {
		out = append(out, c16GenHist(r))
	}
	return out
}

func c16StatsR4c(cases []string, st map[string]int) {
	for _, c := range cases {
		f := strings.Fields(c)
		if f[0] != "hist" || len(f) != 4 {
			continue
		}
		items, ok := c16ParseHist(f[3])
		if !ok {
			st["hist.invalid"]++
			continue
		}
		type sn struct {
			s string
			n uint64
		}
		seenNum := map[uint64]string{}
		seenPair := map[sn]bool{}
		sameNumOtherSrc, samePair, unmatched := false, false, false
		srcs := map[string]bool{}
		for _, it := range items {
			if it.idx == nil {
				unmatched = true
				continue
			}
			if s, ok := seenNum[it.num]; ok && s != it.src {
				sameNumOtherSrc = true
			}
			if seenPair[sn{it.src, it.num}] {
				samePair = true
			}
			seenNum[it.num] = it.src
			seenPair[sn{it.src, it.num}] = true
			srcs[it.src] = true
		}
		st[fmt.Sprintf("hist.sources.%d", len(srcs))]++
		if sameNumOtherSrc {
			st["hist.sameLineNumberInAnotherSource"]++
		}
		if samePair {
			st["hist.sameSourceAndNumberAgain"]++
		}
		if unmatched {
			st["hist.withUnmatchedLine"]++
		}
		switch {
		case len(items) >= 6:
			st["hist.len.6+"]++
		case len(items) >= 3:
			st["hist.len.3-5"]++
		default:
			st["hist.len.0-2"]++
		}
	}
}
