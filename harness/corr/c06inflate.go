//go:build c06

package main

// C06, "decoded faithfully": the REAL compress/gzip reader (header, DEFLATE, trailer, multi-member loop) against the
// Lean model of it (lean/Rare/Model/C06Inflate.lean) on generated files.
//
//	gunzip <content>     gzip.NewReader(bytes.NewReader(content)) then Read until an error:
//	                     `nohdr` (NewReader failed: rare reads the file as plain text) or
//	                     `ok <bytes delivered> <0 = ended with io.EOF | 1 = ended with another error>`
//
// Files: real writers (gzip levels 0/1/6/9/HuffmanOnly, flushes in the middle, several members, empty members, a gzip of
// a gzip), texts with long and far matches (window 32 KiB), every cut point of small files, bit flips, garbage after the
// trailer, and hand-assembled DEFLATE streams for the branches a writer never produces (BTYPE 3, bad NLEN, length
// symbols 286/287, distance symbols 30/31, a distance before the start of the output, HLIT/HDIST too large, over- and
// under-subscribed code length sets, the degenerate one-code tree, the empty distance tree, repeat code 16 first, repeat
// past the end, no end-of-block code).

import (
	"bytes"
	"compress/flate"
	"compress/gzip"
	"encoding/binary"
	"fmt"
	"hash/crc32"
	"io"
	"strings"
)

func c06GunzipReal(data []byte) string {
	z, err := gzip.NewReader(bytes.NewReader(data))
	if err != nil {
		return "nohdr"
	}
	var out bytes.Buffer
	buf := make([]byte, 4096)
	fails := false
	for {
		n, err := z.Read(buf)
		out.Write(buf[:n])
		if err == io.EOF {
			break
		}
		if err != nil {
			fails = true
			break
		}
	}
	return fmt.Sprintf("ok %s %d", Hex(out.Bytes()), b01(fails))
}

func c06RunInflate(f []string) (string, bool) {
	if f[0] != "gunzip" {
		return "", false
	}
	return c06GunzipReal(UnHex(f[1])), true
}

// ---------------------------------------------------------------- bit-level assembly

type c06BitW struct {
	out []byte
	acc uint64
	n   uint
}

// bits writes the low n bits of v, least significant first (header fields, extra bits).
func (w *c06BitW) bits(v uint, n uint) {
	w.acc |= uint64(v&(1<<n-1)) << w.n
	w.n += n
	for w.n >= 8 {
		w.out = append(w.out, byte(w.acc))
		w.acc >>= 8
		w.n -= 8
	}
}

// code writes an n-bit Huffman code, most significant bit first.
func (w *c06BitW) code(v uint, n uint) {
	for i := int(n) - 1; i >= 0; i-- {
		w.bits((v>>uint(i))&1, 1)
	}
}

func (w *c06BitW) flush() []byte {
	if w.n > 0 {
		w.out = append(w.out, byte(w.acc))
		w.acc, w.n = 0, 0
	}
	return w.out
}

// fixed literal/length code of RFC 1951 3.2.6
func (w *c06BitW) fixedSym(v uint) {
	switch {
	case v < 144:
		w.code(0x30+v, 8)
	case v < 256:
		w.code(0x190+v-144, 9)
	case v < 280:
		w.code(v-256, 7)
	default:
		w.code(0xc0+v-280, 8)
	}
}

func c06Member(deflate []byte, data []byte) []byte {
	h := []byte{0x1f, 0x8b, 8, 0, 0, 0, 0, 0, 0, 3}
	h = append(h, deflate...)
	h = binary.LittleEndian.AppendUint32(h, crc32.ChecksumIEEE(data))
	h = binary.LittleEndian.AppendUint32(h, uint32(len(data)))
	return h
}

// canonical codes for a list of lengths (RFC 1951 3.2.2)
func c06Canon(lengths []int) []uint {
	var count [17]int
	for _, l := range lengths {
		count[l]++
	}
	count[0] = 0
	var next [17]uint
	code := uint(0)
	for i := 1; i <= 16; i++ {
		code = (code + uint(count[i-1])) << 1
		next[i] = code
	}
	codes := make([]uint, len(lengths))
	for i, l := range lengths {
		if l > 0 {
			codes[i] = next[l]
			next[l]++
		}
	}
	return codes
}

// c06Dyn writes a dynamic block header for the given literal/length and distance code lengths, each length sent as
// itself (no repeat codes) with a flat 5-bit code length code unless clens is given.
func c06Dyn(w *c06BitW, final bool, lit, dist []int, nlitField, ndistField int) {
	w.bits(uint(b01(final)), 1)
	w.bits(2, 2)
	w.bits(uint(nlitField), 5)
	w.bits(uint(ndistField), 5)
	w.bits(15, 4) // HCLEN = 19
	// code length code: symbols 0..15 with length 4 (a complete code of 16 codes), 16/17/18 unused
	order := []int{16, 17, 18, 0, 8, 7, 9, 6, 10, 5, 11, 4, 12, 3, 13, 2, 14, 1, 15}
	for _, s := range order {
		if s < 16 {
			w.bits(4, 3)
		} else {
			w.bits(0, 3)
		}
	}
	for _, l := range append(append([]int{}, lit...), dist...) {
		w.code(uint(l), 4)
	}
}

// c06Crafted returns hand-assembled members: name, bytes.
func c06Crafted() [][2]string {
	var out [][2]string
	add := func(name string, deflate []byte, data string) {
		out = append(out, [2]string{name, string(c06Member(deflate, []byte(data)))})
	}
	fixed := func(final bool) *c06BitW {
		w := &c06BitW{}
		w.bits(uint(b01(final)), 1)
		w.bits(1, 2)
		return w
	}
	{ // fixed block: "ab" + match(len 3, dist 2) + end
		w := fixed(true)
		w.fixedSym('a')
		w.fixedSym('b')
		w.fixedSym(257)
		w.code(1, 5)
		w.fixedSym(256)
		add("fixed-match", w.flush(), "ababa")
	}
	{ // overlapping copy: dist 1, length 258 (symbol 285)
		w := fixed(true)
		w.fixedSym('x')
		w.fixedSym(285)
		w.code(0, 5)
		w.fixedSym(256)
		add("fixed-run-258", w.flush(), strings.Repeat("x", 259))
	}
	for _, sym := range []uint{286, 287} { // length symbols that do not exist
		w := fixed(true)
		w.fixedSym('a')
		w.fixedSym(sym)
		w.code(0, 5)
		w.fixedSym(256)
		add(fmt.Sprintf("fixed-len-%d", sym), w.flush(), "a")
	}
	for _, d := range []uint{30, 31} { // distance symbols that do not exist
		w := fixed(true)
		w.fixedSym('a')
		w.fixedSym(257)
		w.code(d, 5)
		w.fixedSym(256)
		add(fmt.Sprintf("fixed-dist-%d", d), w.flush(), "a")
	}
	{ // distance before the start of the output
		w := fixed(true)
		w.fixedSym('a')
		w.fixedSym(257)
		w.code(1, 5) // dist 2 > 1 byte written
		w.fixedSym(256)
		add("fixed-dist-too-far", w.flush(), "a")
	}
	{ // a match with extra bits on both sides: len symbol 266 (+1 extra), dist symbol 4 (+1 extra)
		w := fixed(true)
		for _, c := range "abcdefgh" {
			w.fixedSym(uint(c))
		}
		w.fixedSym(266)
		w.bits(1, 1) // length 13+1 = 14
		w.code(4, 5)
		w.bits(1, 1) // dist 5+1 = 6
		w.fixedSym(256)
		add("fixed-extra-bits", w.flush(), "abcdefgh"+"cdefghcdefghcd")
	}
	{ // no end-of-block: the stream just stops
		w := fixed(true)
		w.fixedSym('a')
		w.fixedSym('b')
		add("fixed-no-eob", w.flush(), "ab")
	}
	{ // BTYPE = 3
		w := &c06BitW{}
		w.bits(1, 1)
		w.bits(3, 2)
		add("btype-3", w.flush(), "")
	}
	{ // stored, then a history match into the stored bytes from a fixed block
		w := &c06BitW{}
		w.bits(0, 1)
		w.bits(0, 2)
		w.flush()
		w.out = append(w.out, 3, 0, 0xfc, 0xff, 'x', 'y', 'z')
		w.bits(1, 1)
		w.bits(1, 2)
		w.fixedSym(257)
		w.code(2, 5) // dist 3
		w.fixedSym(256)
		add("stored-then-match", w.flush(), "xyzxyz")
	}
	{ // stored with a wrong NLEN
		w := &c06BitW{}
		w.bits(1, 1)
		w.bits(0, 2)
		w.flush()
		w.out = append(w.out, 3, 0, 0xfd, 0xff, 'x', 'y', 'z')
		add("stored-bad-nlen", w.out, "xyz")
	}
	{ // stored of length 0 (final) after a non-final empty stored block
		add("stored-empty-twice", []byte{0, 0, 0, 0xff, 0xff, 1, 0, 0, 0xff, 0xff}, "")
	}
	{ // stored block announced longer than the file
		add("stored-short", []byte{1, 9, 0, 0xf6, 0xff, 'a', 'b'}, "ab")
	}
	// dynamic blocks
	lit := func(m map[int]int) []int {
		l := make([]int, 257)
		for k, v := range m {
			for len(l) <= k {
				l = append(l, 0)
			}
			l[k] = v
		}
		return l
	}
	{ // complete code: 'a' 1 bit, 'b' 2 bits, EOB 2 bits; one distance code of length 1 (degenerate)
		ll := lit(map[int]int{'a': 1, 'b': 2, 256: 2})
		w := &c06BitW{}
		c06Dyn(w, true, ll, []int{1}, len(ll)-257, 0)
		cs := c06Canon(ll)
		for _, s := range []int{'a', 'b', 'a', 256} {
			w.code(cs[s], uint(ll[s]))
		}
		add("dyn-simple", w.flush(), "aba")
	}
	{ // the same with a length symbol and the degenerate distance code: bit 0 = distance symbol 0
		ll := lit(map[int]int{'a': 1, 257: 2, 256: 2})
		w := &c06BitW{}
		c06Dyn(w, true, ll, []int{1}, len(ll)-257, 0)
		cs := c06Canon(ll)
		w.code(cs['a'], 1)
		w.code(cs[257], 2)
		w.bits(0, 1)
		w.code(cs[256], 2)
		add("dyn-degenerate-dist-0", w.flush(), "aaaa")
		w = &c06BitW{}
		c06Dyn(w, true, ll, []int{1}, len(ll)-257, 0)
		w.code(cs['a'], 1)
		w.code(cs[257], 2)
		w.bits(1, 1) // the unassigned code of the degenerate tree
		w.code(cs[256], 2)
		add("dyn-degenerate-dist-1", w.flush(), "a")
	}
	{ // empty distance tree, used
		ll := lit(map[int]int{'a': 1, 257: 2, 256: 2})
		w := &c06BitW{}
		c06Dyn(w, true, ll, []int{0}, len(ll)-257, 0)
		cs := c06Canon(ll)
		w.code(cs['a'], 1)
		w.code(cs[257], 2)
		w.bits(0, 4)
		add("dyn-empty-dist-used", w.flush(), "a")
		w = &c06BitW{}
		c06Dyn(w, true, ll, []int{0}, len(ll)-257, 0)
		w.code(cs['a'], 1)
		w.code(cs[256], 2)
		add("dyn-empty-dist-unused", w.flush(), "a")
	}
	{ // under-subscribed literal code: 'a' 2 bits, EOB 2 bits
		ll := lit(map[int]int{'a': 2, 256: 2})
		w := &c06BitW{}
		c06Dyn(w, true, ll, []int{1}, 0, 0)
		w.bits(0, 8)
		add("dyn-undersubscribed", w.flush(), "")
	}
	{ // over-subscribed literal code: three codes of length 1
		ll := lit(map[int]int{'a': 1, 'b': 1, 256: 1})
		w := &c06BitW{}
		c06Dyn(w, true, ll, []int{1}, 0, 0)
		w.bits(0, 8)
		add("dyn-oversubscribed", w.flush(), "")
	}
	{ // no end-of-block code at all: 'a' 1 bit, 'b' 1 bit
		ll := lit(map[int]int{'a': 1, 'b': 1})
		w := &c06BitW{}
		c06Dyn(w, true, ll, []int{1}, 0, 0)
		w.bits(0x5, 4)
		add("dyn-no-eob-code", w.flush(), "babab"[:4])
	}
	{ // long end-of-block code (raises h1.min): 'a' 1 bit, then a chain down to 9 bits
		m := map[int]int{'a': 1, 'b': 2, 'c': 3, 'd': 4, 'e': 5, 'f': 6, 'g': 7, 'h': 8, 'i': 9, 256: 9}
		ll := lit(m)
		cs := c06Canon(ll)
		w := &c06BitW{}
		c06Dyn(w, true, ll, []int{1}, 0, 0)
		for _, s := range []int{'a', 'a', 'b', 'i', 'a', 'a', 'a', 256} {
			w.code(cs[s], uint(ll[s]))
		}
		add("dyn-long-eob", w.flush(), "aabiaaa")
	}
	{ // HLIT = 30, 31 (nlit 287, 288) and HDIST = 30, 31
		for _, v := range []int{30, 31} {
			w := &c06BitW{}
			w.bits(1, 1)
			w.bits(2, 2)
			w.bits(uint(v), 5)
			w.bits(0, 5)
			w.bits(0, 4)
			w.bits(0, 32)
			add(fmt.Sprintf("dyn-hlit-%d", v), w.flush(), "")
			w = &c06BitW{}
			w.bits(1, 1)
			w.bits(2, 2)
			w.bits(0, 5)
			w.bits(uint(v), 5)
			w.bits(0, 4)
			w.bits(0, 32)
			add(fmt.Sprintf("dyn-hdist-%d", v), w.flush(), "")
		}
	}
	{ // code length code with repeat symbols: 16 first (no previous length), 18 past the end, and a valid use
		hdr := func(w *c06BitW, nlit, ndist int) {
			w.bits(1, 1)
			w.bits(2, 2)
			w.bits(uint(nlit), 5)
			w.bits(uint(ndist), 5)
			w.bits(15, 4)
			// code length code lengths: 16,17,18 -> 2,0(absent)... make: sym 1:2, sym 2:2, 16:2(no), use: {1:2, 18:2, 16:2, 2:2}
			order := []int{16, 17, 18, 0, 8, 7, 9, 6, 10, 5, 11, 4, 12, 3, 13, 2, 14, 1, 15}
			for _, s := range order {
				switch s {
				case 1, 2, 16, 18:
					w.bits(2, 3)
				default:
					w.bits(0, 3)
				}
			}
		}
		// canonical codes over symbols {1,2,16,18} all length 2: 1->00, 2->01, 16->10, 18->11
		{
			w := &c06BitW{}
			hdr(w, 0, 0)
			w.code(2, 2) // 16 at i == 0
			w.bits(0, 2)
			w.bits(0, 16)
			add("dyn-repeat16-first", w.flush(), "")
		}
		{
			w := &c06BitW{}
			hdr(w, 0, 0)
			w.code(3, 2) // 18: 11+127 = 138 zeros
			w.bits(127, 7)
			w.code(3, 2) // another 138: 276 > 258
			w.bits(127, 7)
			w.bits(0, 16)
			add("dyn-repeat-past-end", w.flush(), "")
		}
		{ // lengths: 18 x (11+127=138) zeros, 18 x (11+107=118) zeros => 256 zeros, then EOB: 1, dist: 1 => literal tree {256:1} degenerate
			w := &c06BitW{}
			hdr(w, 0, 0)
			w.code(3, 2)
			w.bits(127, 7)
			w.code(3, 2)
			w.bits(107, 7)
			w.code(0, 2) // length 1 for symbol 256
			w.code(0, 2) // length 1 for distance 0
			w.bits(0, 1) // EOB (code 0 of the degenerate tree)
			add("dyn-repeat-valid-degenerate-lit", w.flush(), "")
		}
	}
	return out
}

// ---------------------------------------------------------------- generator

func c06InflText(r *Rand) []byte {
	switch r.Intn(9) {
	case 0:
		return nil
	case 1: // random bytes: literals only, long codes
		b := make([]byte, Pick(r, []int{1, 7, 100, 700, 3000}))
		for i := range b {
			b[i] = byte(r.Intn(256))
		}
		return b
	case 2: // one byte repeated: distance 1, length 258
		return bytes.Repeat([]byte{Pick(r, []byte{'a', 0, 0xff, '\n'})}, Pick(r, []int{2, 3, 258, 259, 600, 5000}))
	case 3: // far matches: a random block, filler, the block again (distances near the 32 KiB window)
		blk := make([]byte, 40)
		for i := range blk {
			blk[i] = byte(r.Intn(256))
		}
		gap := Pick(r, []int{100, 4000, 32768 - 40, 32768 - 41, 32768, 33000})
		var b bytes.Buffer
		b.Write(blk)
		for b.Len() < 40+gap-40 {
			fmt.Fprintf(&b, "%d,", r.Intn(1000000))
		}
		b.Truncate(gap)
		b.Write(blk)
		b.WriteString("\ntail\n")
		return b.Bytes()
	case 4: // log-like
		var b bytes.Buffer
		for i := Pick(r, []int{3, 20, 200, 1500}); i > 0; i-- {
			fmt.Fprintf(&b, "2024-01-%02d %s user=%d %s\n", r.Intn(28)+1, Pick(r, []string{"GET", "POST", "PUT"}), r.Intn(50), Pick(r, []string{"/", "/index.html", "/api/v1/items", "/é"}))
		}
		return b.Bytes()
	}
	return c06Text(r)
}

// c06Deflated: a complete gzip file for data, and how it was written.
func c06Deflated(r *Rand, data []byte) ([]byte, string) {
	switch r.Intn(8) {
	case 0:
		return c06Gzip(data, flate.HuffmanOnly, ""), "huffman-only"
	case 1: // flushes in the middle: several blocks, empty stored blocks as sync markers
		var b bytes.Buffer
		w, _ := gzip.NewWriterLevel(&b, Pick(r, []int{1, 6, 9, flate.HuffmanOnly, 0}))
		step := Pick(r, []int{1, 3, 50, 1000})
		for i := 0; i < len(data); i += step {
			e := i + step
			if e > len(data) {
				e = len(data)
			}
			w.Write(data[i:e])
			if r.Chance(1, 2) {
				w.Flush()
			}
			if i > 40*step {
				w.Write(data[e:])
				break
			}
		}
		w.Close()
		return b.Bytes(), "flushed"
	case 2:
		h, _ := c06GzHeader(r)
		return append(h, c06Gzip(data, Pick(r, []int{0, 1, 9}), "")[10:]...), "hand-header"
	}
	lvl := Pick(r, []int{0, 1, 6, 9})
	return c06Gzip(data, lvl, Pick(r, []string{"", "orig.log"})), fmt.Sprintf("level-%d", lvl)
}

func c06GenGunzip(r *Rand) string {
	data := c06InflText(r)
	z, _ := c06Deflated(r, data)
	switch r.Intn(14) {
	case 0, 1: // several members
		for i := Pick(r, []int{1, 1, 2, 4}); i > 0; i-- {
			z2, _ := c06Deflated(r, c06InflText(r))
			z = append(z, z2...)
		}
	case 2: // cut anywhere
		z = z[:r.Intn(len(z)+1)]
	case 3: // cut near the end (trailer) or near the start (header)
		if r.Bool() {
			z = z[:len(z)-1-r.Intn(9)]
		} else {
			z = z[:r.Intn(14)]
		}
	case 4: // second member cut
		z2, _ := c06Deflated(r, c06InflText(r))
		z = append(z, z2[:r.Intn(len(z2)+1)]...)
	case 5, 6: // a flipped bit
		z = append([]byte{}, z...)
		z[r.Intn(len(z))] ^= 1 << uint(r.Intn(8))
	case 7: // a flipped bit in the first bytes of the DEFLATE stream (block header, code length tables)
		z = append([]byte{}, z...)
		if len(z) > 30 {
			z[10+r.Intn(20)] ^= 1 << uint(r.Intn(8))
		}
	case 8: // garbage after the trailer
		z = append(append([]byte{}, z...), Pick(r, []string{"\x00", "garbage\n", "\x1f\x8b", "\x1f\x8b\x08\x00", "\x1f\x8b\x08\x00\x00\x00\x00\x00\x00\x03", "\x1f"})...)
	case 9: // a gzip of a gzip: one layer is taken off
		z = c06Gzip(z, Pick(r, []int{0, 6}), "")
	case 10: // a byte overwritten
		z = append([]byte{}, z...)
		z[r.Intn(len(z))] = byte(r.Intn(256))
	}
	return "gunzip " + Hex(z)
}

func c06InflateGenCases(r *Rand, tier string) []string {
	var out []string
	for _, c := range c06Crafted() {
		z := []byte(c[1])
		out = append(out, "gunzip "+Hex(z))
		// and every cut point of it, and trailing bytes
		for k := 0; k < len(z); k++ {
			out = append(out, "gunzip "+Hex(z[:k]))
		}
		out = append(out, "gunzip "+Hex(append(append([]byte{}, z...), z...)))
		out = append(out, "gunzip "+Hex(append(append([]byte{}, z...), 0)))
	}
	// every cut point and every single-bit flip of one small file per writer
	small := []byte("GET /a 200\nGET /b 404\nGET /a 200\n")
	for _, lvl := range []int{0, 1, 9, flate.HuffmanOnly} {
		z := c06Gzip(small, lvl, "")
		for k := 0; k <= len(z); k++ {
			out = append(out, "gunzip "+Hex(z[:k]))
		}
		if tier == "thorough" || lvl == 9 {
			for i := 0; i < len(z)*8; i++ {
				c := append([]byte{}, z...)
				c[i/8] ^= 1 << uint(i%8)
				out = append(out, "gunzip "+Hex(c))
			}
		}
	}
	// every cut point of files of two and three members (the class of gzip_truncated_multi_counted: stored members, the
	// second one with a name in its header; and Huffman members): a cut inside a later header or body is an error, a cut
	// exactly between two members is a complete file
	m1 := c06Gzip([]byte("hi\n"), 0, "")
	m2 := c06Gzip([]byte("x\nyy\n"), 0, "b.log")
	m3 := c06Gzip([]byte("GET /a\nGET /a\n"), 9, "")
	for _, z := range [][]byte{append(append([]byte{}, m1...), m2...), append(append(append([]byte{}, m3...), m1...), m2...)} {
		for k := 0; k <= len(z); k++ {
			out = append(out, "gunzip "+Hex(z[:k]))
		}
	}
	n := 260
	if tier == "thorough" {
		n = 3000
	}
	for i := 0; i < n; i++ {
		out = append(out, c06GenGunzip(r))
	}
	return out
}

func c06InflateStats(st map[string]int, f []string) {
	if f[0] != "gunzip" {
		return
	}
	ans := c06GunzipReal(UnHex(f[1]))
	switch {
	case ans == "nohdr":
		st["gunzip:no-header"]++
	case strings.HasSuffix(ans, " 1"):
		st["gunzip:fails"]++
		if !strings.HasPrefix(ans, "ok - ") {
			st["gunzip:fails-after-data"]++
		}
	default:
		st["gunzip:clean"]++
	}
	// block types present (first block only is cheap to see: bits 1..2 of the byte after a 10-byte header)
	d := UnHex(f[1])
	if len(d) > 10 && d[3] == 0 {
		st[fmt.Sprintf("gunzip:first-block-type-%d", (d[10]>>1)&3)]++
	}
	if len(d) > 40000 {
		st["gunzip:file>40k"]++
	}
}
