//go:build c07

package main

// Correspondence for C07, accumulating group (pkg/aggregation/accumulator.go, `rare reduce`):
//
//	acc <opt 0|1> <rev 0|1> <ops>
//
// ops = comma separated calls on a fresh AccumulatingGroup (compiler = funclib.NewKeyBuilderEx(opt)):
//
//	g:<name>:<template>            AddGroupExpr
//	d:<name>:<template>:<initial>  AddDataExpr
//	o:<template>                   SetSort
//	s:<element>                    Sample
//
// After EVERY call the whole state is dumped through the public accessors (GroupCols, DataCols,
// DataCount, ColCount, GroupColCount, ParseErrors, every group's Data / DataNoCopy / Parts in key
// order, Groups(sorter), Data / DataNoCopy of a group that does not exist).  rev selects
// sorting.Reverse(ByName) instead of ByName.

import (
	"fmt"
	"sort"
	"strings"

	"rare/pkg/aggregation"
	"rare/pkg/aggregation/sorting"
	"rare/pkg/expressions"
	"rare/pkg/expressions/funclib"
)

const c07MissingKey = "\x01miss"

func c07AccErr(err error) string {
	if err == nil {
		return "ok"
	}
	msg := err.Error()
	switch {
	case strings.Contains(msg, "to existing data"):
		return "existing-data"
	case strings.HasPrefix(msg, "duplicate"):
		return "duplicate"
	}
	return "compile"
}

func c07AccDump(a *aggregation.AccumulatingGroup, sorter sorting.NameSorter) string {
	groups := a.Groups(sorter)
	keys := make([]string, len(groups))
	for i, g := range groups {
		keys[i] = string(g)
	}
	sort.Strings(keys)
	rows := make([]string, len(keys))
	for i, k := range keys {
		gk := aggregation.GroupKey(k)
		rows[i] = fmt.Sprintf("%s:%s:%s:%s", HexS(k), HexListS(a.Data(gk)), HexListS(a.DataNoCopy(gk)), HexListS(gk.Parts()))
	}
	gs := make([]string, len(groups))
	for i, g := range groups {
		gs[i] = string(g)
	}
	return fmt.Sprintf("gc=%s dc=%s cnt=%d cols=%d/%d pe=%d rows[%s] groups=%s miss=%s/%s",
		HexListS(a.GroupCols()), HexListS(a.DataCols()), a.DataCount(), a.ColCount(), a.GroupColCount(), a.ParseErrors(),
		strings.Join(rows, ","), HexListS(gs), HexListS(a.Data(c07MissingKey)), HexListS(a.DataNoCopy(c07MissingKey)))
}

func c07AccRunOnce(f []string) string {
	a := aggregation.NewAccumulatingGroup(funclib.NewKeyBuilderEx(f[1] == "1"))
	var sorter sorting.NameSorter = sorting.ByName
	if f[2] == "1" {
		sorter = sorting.Reverse(sorter)
	}
	var ops []string
	if f[3] != "." {
		ops = strings.Split(f[3], ",")
	}
	out := make([]string, 0, len(ops))
	for _, op := range ops {
		p := strings.Split(op, ":")
		e := "-"
		switch p[0] {
		case "g":
			e = c07AccErr(a.AddGroupExpr(string(UnHex(p[1])), string(UnHex(p[2]))))
		case "d":
			e = c07AccErr(a.AddDataExpr(string(UnHex(p[1])), string(UnHex(p[2])), string(UnHex(p[3]))))
		case "o":
			e = c07AccErr(a.SetSort(string(UnHex(p[1]))))
		case "s":
			a.Sample(string(UnHex(p[1])))
		}
		out = append(out, "e="+e+" "+c07AccDump(a, sorter))
	}
	return "ok " + strings.Join(out, " | ")
}

// ---------------------------------------------------------------- generator

// templates over the modelled helper set; the data columns are named a, b, c (in that order when all
// three exist), so {a} {b} {c} refer to earlier / own / later columns depending on where they are used.
var c07AccDataTemplates = []string{
	"{sumi {.} 1}", "{sumi {.} {1}}", "{sumi {.} {2}}", "{maxi {.} {2}}", "{mini {.} {2}}", "{multi {.} {2}}",
	"{.}{1}", "{.},{2}", "{1}", "{2}", "{0}", "{3}", "{.}", "x", "", "{a}", "{b}", "{c}", "{a}-{b}", "{c}{a}",
	"{sumi {a} {b}}", "{sumi {.} {a}}", "{sumi {b} {c}}", "{subi {a} {.}}", "{divi {a} {b}}",
	"{@join {.} {2}}", "{@join {.} {1} {2}}", "{@len {.}}", "{@join {a} {.}}", "{if {eq {1} a} {sumi {.} 1} {.}}",
	"{coalesce {.} {1}}", "{len {.}}", "{upper {1}}{.}", "{nosuchkey}", "{-1}", "{9223372036854775807}", "{99}",
	"{sumi {.} {nosuchkey}}", "{maxi {.} {0}}", "{if {.} {.} first:{1}}", "{@slice {@join {.} {1}} -3}",
	"{prefix {.} {1}}", "{substr {.}{2} 0 6}", "{substr {.}{.}{1} 0 9}", "{sumi {.} 4611686018427387904}",
}
var c07AccGroupTemplates = []string{
	"{1}", "{1}", "{2}", "{0}", "{3}", "", "k", "{1}{2}", "{1}\x00{2}", "{.}", "{a}", "{@join {1} {2}}", "{upper {1}}",
	"{if {eq {1} a} A B}", "{-1}", "{bucket {2} 10}", "{nosuchkey}", "{len {1}}",
}
var c07AccSortTemplates = []string{
	"{a}", "{b}", "{.}", "{0}", "{1}", "{2}", "-{0}", "{nosuchkey}", "{sumi {a} {b}}", "", "x", "{len {.}}", "{a}{.}",
	"{-1}", "{9223372036854775807}", "{@join {1} {0}}",
}

// templates that do not compile, or use helpers outside the model (answers `unmodelled`)
var c07AccBadTemplates = []string{"{sumi {.}", "{nosuchfunc 1}", "{sumi}", "{}", "{@join", "{substr a}"}
var c07AccUnmodelled = []string{"{format %5s {.}}", "{sumf {.} 1.5}", "{json {1}}"}

func c07AccPart(r *Rand) string {
	switch r.Intn(12) {
	case 0, 1, 2, 3:
		return Pick(r, []string{"a", "b", "c"})
	case 4, 5, 6:
		return fmt.Sprint(r.Range(-3, 12))
	case 7:
		return ""
	case 8:
		return Pick(r, []string{"9223372036854775807", "-9223372036854775808", "x1", "1.5", " 2", "é", "\xff", "A"})
	default:
		n := r.Intn(4)
		b := make([]byte, n)
		for i := range b {
			b[i] = byte('a' + r.Intn(4))
		}
		return string(b)
	}
}

func c07AccElement(r *Rand) string {
	n := r.Intn(4)
	if r.Chance(1, 12) {
		n = r.Range(4, 6)
	}
	parts := make([]string, n)
	for i := range parts {
		parts[i] = c07AccPart(r)
	}
	return expressions.MakeArray(parts...)
}

func c07AccName(r *Rand, pool []string) string {
	if r.Chance(1, 10) {
		return Pick(r, []string{"", ".", "a b", "0", "1", "\xff", "nosuchkey"})
	}
	return Pick(r, pool)
}

func c07AccTemplate(r *Rand, pool []string) string {
	if r.Chance(1, 14) {
		return Pick(r, c07AccBadTemplates)
	}
	if r.Chance(1, 60) {
		return Pick(r, c07AccUnmodelled)
	}
	return Pick(r, pool)
}

// c07AccRefs counts the references to accumulated values ({.} and the data columns) in a template.
func c07AccRefs(t string) int {
	n := 0
	for _, ref := range []string{"{.}", "{a}", "{b}", "{c}", "{d}"} {
		n += strings.Count(t, ref)
	}
	return n
}

func c07AccCase(r *Rand) string {
	var ops []string
	doubling := false // a data template with two references to accumulated values can double a column per sample
	ng := Pick(r, []int{0, 0, 1, 1, 1, 2, 2, 3})
	nd := Pick(r, []int{0, 1, 1, 2, 2, 3, 3, 4})
	gnames := []string{"g", "h", "g2", "a"}
	dnames := []string{"a", "b", "c", "a", "d"} // "a" twice: duplicate names
	addG := func(i int) {
		name := gnames[i%len(gnames)]
		if r.Chance(1, 8) {
			name = c07AccName(r, gnames)
		}
		ops = append(ops, fmt.Sprintf("g:%s:%s", HexS(name), HexS(normTemplate(c07AccTemplate(r, c07AccGroupTemplates)))))
	}
	addD := func(i int) {
		name := dnames[i%3]
		if r.Chance(1, 8) {
			name = c07AccName(r, dnames)
		}
		initial := Pick(r, []string{"0", "0", "0", "", "1", "x", "-5", "\x00", "9223372036854775807"})
		tmpl := c07AccTemplate(r, c07AccDataTemplates)
		if c07AccRefs(tmpl) >= 2 {
			doubling = true
		}
		ops = append(ops, fmt.Sprintf("d:%s:%s:%s", HexS(name), HexS(normTemplate(tmpl)), HexS(initial)))
	}
	addS := func() {
		ops = append(ops, "o:"+HexS(normTemplate(c07AccTemplate(r, c07AccSortTemplates))))
	}
	// definitions in either order (groups first as `rare reduce` does, or interleaved)
	gi, di := 0, 0
	for gi < ng || di < nd {
		if gi < ng && (di >= nd || r.Chance(2, 3)) {
			addG(gi)
			gi++
		} else {
			addD(di)
			di++
		}
	}
	if r.Chance(1, 3) {
		addS()
	}
	n := r.Intn(8)
	if r.Chance(1, 10) {
		n = r.Range(8, 25)
	}
	if doubling && n > 10 {
		n = 10 // {c}{a} with a = {c} grows like 2^n: 25 samples are hundreds of megabytes (and a stack overflow in the list-based model)
	}
	pool := []string{}
	for i := 0; i < 4; i++ {
		pool = append(pool, c07AccElement(r))
	}
	for i := 0; i < n; i++ {
		switch {
		case r.Chance(1, 12): // a definition after data exists (refused), or a new sort expression (accepted)
			switch r.Intn(3) {
			case 0:
				addG(r.Intn(4))
			case 1:
				addD(r.Intn(5))
			default:
				addS()
			}
		case r.Chance(1, 3):
			ops = append(ops, "s:"+HexS(Pick(r, pool)))
		default:
			ops = append(ops, "s:"+HexS(c07AccElement(r)))
		}
	}
	o := "."
	if len(ops) > 0 {
		o = strings.Join(ops, ",")
	}
	opt, rev := 1, 0
	if r.Chance(1, 4) {
		opt = 0
	}
	if r.Chance(1, 4) {
		rev = 1
	}
	return fmt.Sprintf("acc %d %d %s", opt, rev, o)
}

// c07AccExhaustive: every sample sequence up to `depth` over a tiny element alphabet against a fixed
// definition list in which column b reads the already updated a and the not yet updated c.
func c07AccExhaustive(depth int) []string {
	defs := []string{
		"g:" + HexS("g") + ":" + HexS("{1}"),
		"d:" + HexS("a") + ":" + HexS("{sumi {.} {2}}") + ":" + HexS("0"),
		"d:" + HexS("b") + ":" + HexS("{a}/{c}") + ":" + HexS(""),
		"d:" + HexS("c") + ":" + HexS("{.}{2}") + ":" + HexS(""),
		"o:" + HexS("{a}"),
	}
	alpha := []string{"x\x001", "y\x002", "x\x003", "\x005", "y"}
	var out []string
	var rec func(cur []string)
	rec = func(cur []string) {
		if len(cur) > 0 {
			out = append(out, "acc 1 0 "+strings.Join(append(append([]string{}, defs...), cur...), ","))
		}
		if len(cur) < depth {
			for _, e := range alpha {
				rec(append(append([]string{}, cur...), "s:"+HexS(e)))
			}
		}
	}
	rec(nil)
	return out
}

func c07AccGen(r *Rand, tier string) []string {
	n, depth := 700, 3
	if tier == "thorough" {
		n, depth = 30000, 6
	}
	out := make([]string, 0, n)
	for i := 0; i < n; i++ {
		out = append(out, c07AccCase(r))
	}
	return append(out, c07AccExhaustive(depth)...)
}

func c07AccStats(c string, st map[string]int) {
	f := strings.Fields(c)
	st["kind.acc"]++
	if f[1] == "0" {
		st["acc.noOptimize"]++
	}
	if f[2] == "1" {
		st["acc.reverseSort"]++
	}
	if f[3] == "." {
		return
	}
	seenSample, ng := false, 0
	names := map[string]bool{}
	for _, op := range strings.Split(f[3], ",") {
		p := strings.Split(op, ":")
		switch p[0] {
		case "g":
			if seenSample {
				st["acc.defAfterData"]++
			} else {
				ng++
			}
		case "d":
			if seenSample {
				st["acc.defAfterData"]++
			}
			if names[p[1]] {
				st["acc.duplicateDataName"]++
			}
			names[p[1]] = true
			if strings.Contains(string(UnHex(p[2])), "{.}") {
				st["acc.col.usesCurrent"]++
			}
			for _, ref := range []string{"{a}", "{b}", "{c}"} {
				if strings.Contains(string(UnHex(p[2])), ref) {
					st["acc.col.refsColumn"]++
					break
				}
			}
		case "o":
			st["acc.setSort"]++
		case "s":
			st["acc.samples"]++
			if !seenSample {
				seenSample = true
				st[fmt.Sprintf("acc.groupExprs.%d", ng)]++
			}
			e := string(UnHex(p[1]))
			if e == "" {
				st["acc.sample.emptyElement"]++
			}
			for _, part := range strings.Split(e, "\x00") {
				if part == "" {
					st["acc.sample.emptyPart"]++
					break
				}
			}
		}
	}
}

// past failing inputs (defects fixed in /repo): huge group index (392a859), unknown sort key (b9dd8f5)
var c07AccCorpus = []string{
	"acc 1 0 d:61:7b393232333337323033363835343737353830377d:30,s:6100310032",
	"acc 1 0 g:67:7b317d,o:7b393232333337323033363835343737353830377d,s:61,s:62",
	"acc 1 0 g:67:7b317d,o:7b787d,s:61,s:62",
	"acc 1 0 g:67:7b317d,d:61:7b73756d69207b2e7d20317d:30,o:7b787d,s:62,s:61,s:62",
}
