//go:build c15

package main

// C15, trace inclusion: the REAL batchers.TailFilesToChan (several followed files on one channel) or
// batchers.VerifOpenReaderToChan (one file, short flush timeout) runs with the `verif` event hooks
// recording; the harness is the consumer and logs its receives.  The whole event log travels to the Lean
// driver as ONE case line; the driver checks every flush (start, size, reason full/timer/eof) against the
// batching-loop model under the timer oracle the log itself exhibits, and that the log is - up to the
// reorderings "log, then act" / "act, then log" allow - a run of the transition system Rare.C15.Multi
// (lean/Rare/Model/C15Trace.lean).
//
//	ttrace <blob>      blob = cfg/steps/trace          (one field, no `,` `;`: the generic shrinker leaves it alone)
//	tmut   <blob>      the same with a log damaged in a way no run can produce: must be rejected
//
//	cfg   = via.mode.reopen.tail.batch.buffer.flushms.consumer.cdelay.attempts.files   (as tailb, + number of files)
//	steps = joined by `_`:  <f>i<hex> | <f>n   initial state of file f (first step of every file)
//	        <f>a<hex> append   <f>d wait until drained, then remove   <f>c create   p<ms> pause   w wait/settle
//	trace = g.kind.src.a.b joined by `_`   (g = goroutine in order of first appearance, src = file index or x)
//
// Answer: ok closed=<0|1> errs=<n> order=<src:start:n,...> d0=<hex> d1=<hex> ...
//	order = the batches in the order the consumer received them; d<i> = the lines of file i's batches (each
//	followed by \n), re-read from the uncopied batches when everything was over.

import (
	"fmt"
	"os"
	"path/filepath"
	"strconv"
	"strings"
	"sync"
	"time"

	"rare/pkg/extractor"
	"rare/pkg/extractor/batchers"
	"rare/pkg/followreader"
)

var c15TraceKinds = map[string]string{
	"src.open": "so", "src.err": "se", "sync.begin": "sb", "flush": "fl", "flush.eof": "fe", "sent": "st",
	"sync.end": "sn", "src.close": "sc", "c.close": "cc", "b.recv": "br", "b.done": "bd",
}

func c15EncodeTrace(evs []extractor.VerifEvent, srcIdx map[string]int) string {
	gs := map[uint64]int{}
	var parts []string
	for _, e := range evs {
		src := "x"
		if e.S != "" {
			i, ok := srcIdx[e.S]
			if !ok {
				continue // a goroutine left behind by an earlier (re-open) run
			}
			src = strconv.Itoa(i)
		}
		g, ok := gs[e.G]
		if !ok {
			g = len(gs)
			gs[e.G] = g
		}
		k, ok := c15TraceKinds[e.Ev]
		if !ok {
			k = "zz"
		}
		parts = append(parts, fmt.Sprintf("%d.%s.%s.%d.%d", g, k, src, e.A, e.B))
	}
	if len(parts) == 0 {
		return "."
	}
	return strings.Join(parts, "_")
}

type c15TrRes struct {
	evs    []extractor.VerifEvent
	srcIdx map[string]int
	answer string
}

type c15TrHeld struct {
	src int
	ref extractor.InputBatch
}

var c15TraceMu sync.Mutex

func c15IsFileStep(st string) (int, byte, string, bool) {
	if len(st) >= 2 && st[0] >= '0' && st[0] <= '9' {
		return int(st[0] - '0'), st[1], st[2:], true
	}
	return 0, 0, "", false
}

// c15Quiesce waits until the event log has not grown for `quiet` and every flush was sent and received.
func c15Quiesce(quiet, max time.Duration) {
	deadline := time.Now().Add(max)
	last, since := -1, time.Now()
	for time.Now().Before(deadline) {
		evs := extractor.VerifTracePeek()
		fl, st, br := 0, 0, 0
		for _, e := range evs {
			switch e.Ev {
			case "flush", "flush.eof":
				fl++
			case "sent":
				st++
			case "b.recv":
				br++
			}
		}
		if len(evs) != last {
			last, since = len(evs), time.Now()
		} else if fl == st && st == br && time.Since(since) >= quiet {
			return
		}
		time.Sleep(time.Millisecond)
	}
	c15Counters["trace.quiesce.expired"]++
}

func c15TraceRun(cfg c15TailCfg, files int, steps []string) (res c15TrRes) {
	c15TraceMu.Lock()
	defer c15TraceMu.Unlock()
	defer func() {
		if e := recover(); e != nil {
			extractor.VerifTraceStop()
			res = c15TrRes{answer: "panic " + strings.ReplaceAll(fmt.Sprint(e), "\n", " ")}
		}
	}()
	root := os.Getenv("VERIF_WORK")
	if root == "" {
		root = "/verif/work/tmp"
	}
	os.MkdirAll(root, 0o755)
	dir, err := os.MkdirTemp(root, "c15x-")
	if err != nil {
		return c15TrRes{answer: "harness-error " + err.Error()}
	}
	defer os.RemoveAll(dir)
	paths := make([]string, files)
	srcIdx := map[string]int{}
	for i := range paths {
		paths[i] = filepath.Join(dir, fmt.Sprintf("f%d.log", i))
		srcIdx[paths[i]] = i
	}
	expect := make([]int, files)
	for _, st := range steps {
		if f, op, arg, ok := c15IsFileStep(st); ok && op == 'i' && f < files {
			if err := os.WriteFile(paths[f], UnHex(arg), 0o644); err != nil {
				return c15TrRes{answer: "harness-error " + err.Error()}
			}
			if !cfg.tail {
				expect[f] = len(UnHex(arg))
			}
		}
	}
	poll := cfg.mode == "poll"

	extractor.VerifTraceStart()
	var b *batchers.Batcher
	var w *c15Wrap
	if cfg.via == "V" {
		r, err := followreader.New(paths[0], cfg.reopen, poll)
		if err != nil {
			extractor.VerifTraceStop()
			return c15TrRes{answer: "ok newerr"}
		}
		if pr, ok := r.(*followreader.PollingFollowReader); ok {
			pr.PollDelay = time.Millisecond
			pr.ReadAttempts = cfg.attempts
		}
		if cfg.tail {
			if err := r.Drain(); err != nil {
				r.Close()
				extractor.VerifTraceStop()
				return c15TrRes{answer: "ok drainerr"}
			}
		}
		w = newC15Wrap(r)
		w.beforeEnd = func() {
			if pr, ok := r.(*followreader.PollingFollowReader); ok {
				pr.PollDelay = time.Hour
			}
		}
		b = batchers.VerifOpenReaderToChan(paths[0], w, cfg.batch, cfg.buffer, time.Duration(cfg.flushMs)*time.Millisecond)
	} else {
		names := make(chan string, files)
		for _, p := range paths {
			names <- p
		}
		close(names)
		b = batchers.TailFilesToChan(names, cfg.batch, cfg.buffer, cfg.reopen, poll, cfg.tail)
		deadline := time.Now().Add(c15MaxWait)
		for b.ActiveFileCount()+b.ReadErrors() < files && time.Now().Before(deadline) {
			time.Sleep(200 * time.Microsecond)
		}
	}

	var mu sync.Mutex
	var held []c15TrHeld
	closed := false
	consDone := make(chan struct{})
	start := make(chan struct{})
	var startOnce sync.Once
	begin := func() { startOnce.Do(func() { close(start) }) }
	go func() {
		defer close(consDone)
		if cfg.consumer == "l" {
			<-start
		}
		for batch := range b.BatchChan() {
			extractor.VerifTraceAppend("b.recv", batch.Source, batch.BatchStart, uint64(len(batch.Batch)))
			mu.Lock()
			held = append(held, c15TrHeld{src: srcIdx[batch.Source], ref: batch})
			mu.Unlock()
			if cfg.consumer == "s" && cfg.cdelay > 0 {
				time.Sleep(time.Duration(cfg.cdelay) * time.Millisecond)
			}
		}
		extractor.VerifTraceAppend("b.done", "", 0, 0)
		mu.Lock()
		closed = true
		mu.Unlock()
	}()

	settle := 20 * time.Millisecond
	if poll {
		settle = 320 * time.Millisecond
	}
	appended := false
	drain := func() {
		begin()
		if w != nil {
			want := expect[0]
			if !w.waitFor(func() bool { return w.eof || len(w.delivered) >= want }, c15MaxWait) {
				c15Counters["trace.wait.expired"]++
			}
			return
		}
		if appended {
			time.Sleep(settle)
		}
	}
	for _, st := range steps {
		if st == "" {
			continue
		}
		if f, op, arg, ok := c15IsFileStep(st); ok && f < files {
			switch op {
			case 'a':
				if fh, err := os.OpenFile(paths[f], os.O_WRONLY|os.O_APPEND, 0); err == nil {
					bs := UnHex(arg)
					fh.Write(bs)
					fh.Close()
					expect[f] += len(bs)
					appended = true
				}
			case 'd':
				drain()
				if _, err := os.Lstat(paths[f]); err == nil {
					os.Remove(paths[f])
					if !cfg.reopen && w != nil {
						w.waitFor(func() bool { return w.eof }, c15MaxWait)
					}
				}
			case 'c':
				if fh, err := os.OpenFile(paths[f], os.O_WRONLY|os.O_CREATE|os.O_EXCL, 0o644); err == nil {
					fh.Close()
				}
			}
			continue
		}
		switch st[0] {
		case 'p':
			ms, _ := strconv.Atoi(st[1:])
			time.Sleep(time.Duration(ms) * time.Millisecond)
		case 'w':
			drain()
		}
	}
	begin()
	waitClosed := func(max time.Duration) {
		select {
		case <-consDone:
		case <-time.After(max):
			c15Counters["trace.close.expired"]++
		}
	}
	if w != nil {
		natural := false
		w.mu.Lock()
		natural = w.eof
		w.mu.Unlock()
		if !natural && appended {
			want := expect[0]
			if !w.waitFor(func() bool { return w.eof || len(w.delivered) >= want }, c15MaxWait) {
				c15Counters["trace.final.expired"]++
			}
		}
		grace := 3 * time.Millisecond
		if poll {
			grace = time.Duration(4*(cfg.attempts+2)) * time.Millisecond
		}
		time.Sleep(grace)
		w.end()
		waitClosed(2 * c15MaxWait)
	} else if !cfg.reopen {
		endWait := c15MaxWait
		if poll {
			endWait = 3 * time.Second
		}
		waitClosed(endWait)
		// every follower logs src.close before its wg.Done() (/repo 7025f4b), so all of them are in the log once the
		// channel is closed; the loop only matters for a tree with the older order (src.close after wg.Done())
		deadline := time.Now().Add(200 * time.Millisecond)
		for time.Now().Before(deadline) {
			n := 0
			for _, e := range extractor.VerifTracePeek() {
				if e.Ev == "src.close" {
					n++
				}
			}
			if n >= files {
				break
			}
			time.Sleep(200 * time.Microsecond)
		}
	} else {
		time.Sleep(settle)
		c15Quiesce(25*time.Millisecond, c15MaxWait)
	}
	evs := extractor.VerifTraceStop()

	mu.Lock()
	defer mu.Unlock()
	var order []string
	lines := make([][]byte, files)
	for _, h := range held {
		order = append(order, fmt.Sprintf("%d:%d:%d", h.src, h.ref.BatchStart, len(h.ref.Batch)))
		for _, l := range h.ref.Batch {
			lines[h.src] = append(append(lines[h.src], l...), '\n')
		}
	}
	o := "."
	if len(order) > 0 {
		o = strings.Join(order, ",")
	}
	cl := 0
	if closed {
		cl = 1
	}
	ans := fmt.Sprintf("ok closed=%d errs=%d order=%s", cl, b.ReadErrors(), o)
	for i := range lines {
		ans += fmt.Sprintf(" d%d=%s", i, Hex(lines[i]))
	}
	return c15TrRes{evs: evs, srcIdx: srcIdx, answer: ans}
}

// ---------------------------------------------------------------- cases

var c15TraceAnswers = map[string]string{}

func c15TraceCfgString(cfg c15TailCfg, files int) string { return cfg.String() + "." + strconv.Itoa(files) }

func c15TraceCase(cfg c15TailCfg, files int, steps []string) string {
	r := c15TraceRun(cfg, files, steps)
	cs := "ttrace " + c15TraceCfgString(cfg, files) + "/" + strings.Join(steps, "_") + "/" + c15EncodeTrace(r.evs, r.srcIdx)
	c15TraceAnswers[cs] = r.answer
	return cs
}

func c15SplitTraceBlob(blob string) (c15TailCfg, int, []string, bool) {
	parts := strings.Split(blob, "/")
	if len(parts) != 3 {
		return c15TailCfg{}, 0, nil, false
	}
	i := strings.LastIndex(parts[0], ".")
	if i < 0 {
		return c15TailCfg{}, 0, nil, false
	}
	cfg, ok := parseC15TailCfg(parts[0][:i])
	files, err := strconv.Atoi(parts[0][i+1:])
	if !ok || err != nil || files < 1 || files > 9 {
		return cfg, 0, nil, false
	}
	return cfg, files, strings.Split(parts[1], "_"), true
}

// c15TraceReplay: a case not produced by this process (corpus, replay, shrinker).  The recorded log belongs to
// the recorded run; the real code runs again on the same configuration and what does not depend on the
// schedule (per file: the lines; the end of the stream) must be what the recorded answer would say, so the
// answer is rebuilt from the recorded log's own receive order and the re-run's lines.
func c15TraceReplay(f []string) string {
	key := strings.Join(f, " ")
	if a, ok := c15TraceAnswers[key]; ok {
		return a
	}
	if f[0] == "tmut" {
		return "rejected"
	}
	cfg, files, steps, ok := c15SplitTraceBlob(f[1])
	if !ok {
		return "bad-blob"
	}
	r := c15TraceRun(cfg, files, steps)
	if !strings.HasPrefix(r.answer, "ok closed=") {
		return r.answer
	}
	// order as recorded in the case's own log (the `br` events)
	parts := strings.Split(f[1], "/")
	var order []string
	if parts[2] != "." {
		for _, e := range strings.Split(parts[2], "_") {
			q := strings.Split(e, ".")
			if len(q) == 5 && q[1] == "br" {
				order = append(order, q[2]+":"+q[3]+":"+q[4])
			}
		}
	}
	o := "."
	if len(order) > 0 {
		o = strings.Join(order, ",")
	}
	fields := strings.Fields(r.answer)
	for i, x := range fields {
		if strings.HasPrefix(x, "order=") {
			fields[i] = "order=" + o
		}
	}
	return strings.Join(fields, " ")
}

// ---------------------------------------------------------------- generators

func c15PrefixSteps(steps []string) []string {
	out := make([]string, 0, len(steps))
	for _, s := range steps {
		if s == "" {
			continue
		}
		switch s[0] {
		case 'i', 'n', 'a', 'd', 'c':
			out = append(out, "0"+s)
		default:
			out = append(out, s)
		}
	}
	return out
}

func c15GenTraceV(r *Rand) (c15TailCfg, int, []string) {
	cfg, steps := c15GenTailV(r)
	if cfg.buffer == 0 && r.Bool() {
		cfg.buffer = 1
	}
	return cfg, 1, c15PrefixSteps(steps)
}

// several files followed at once by the real TailFilesToChan (real AutoFlushTimeout, real poll delay)
func c15GenTraceT(r *Rand, poll, reopen bool) (c15TailCfg, int, []string) {
	files := Pick(r, []int{2, 2, 3})
	if poll {
		files = 2
	}
	cfg := c15TailCfg{via: "T", mode: "notify", reopen: reopen, tail: r.Chance(1, 4), batch: Pick(r, []int{1, 2, 3, 1000}),
		buffer: Pick(r, []int{0, 1, 2, 8}), flushMs: 250, consumer: Pick(r, []string{"f", "s", "l"}), cdelay: Pick(r, []int{1, 5}), attempts: 5}
	if poll {
		cfg.mode = "poll"
	}
	if cfg.consumer == "l" {
		cfg.buffer = 8
	}
	g := &c15TailGen{r: r, k: 700}
	absent := -1
	if !reopen && r.Chance(1, 4) {
		absent = r.Intn(files) // plain follow of a missing file: followreader.New fails, the goroutine ends at once
	}
	for f := 0; f < files; f++ {
		switch {
		case f == absent:
			g.add(fmt.Sprintf("%dn", f))
		case r.Chance(1, 4):
			g.add(fmt.Sprintf("%di-", f))
		default:
			g.add(fmt.Sprintf("%di%s", f, Hex(g.text(r.Range(1, 4), false))))
		}
	}
	live := func() []int {
		var out []int
		for f := 0; f < files; f++ {
			if f != absent {
				out = append(out, f)
			}
		}
		return out
	}()
	burst := func() {
		for n := r.Range(1, 4); n > 0; n-- {
			f := Pick(r, live)
			g.add(fmt.Sprintf("%da%s", f, Hex(g.text(r.Range(1, 3), false))))
			if r.Chance(1, 3) {
				g.add("p1")
			}
		}
	}
	burst()
	if !poll || r.Bool() {
		g.add(fmt.Sprintf("p%d", 255+r.Range(5, 30))) // every follower's timer has expired: the next line is flushed short
		for _, f := range live {
			if r.Chance(3, 4) {
				g.add(fmt.Sprintf("%da%s", f, Hex(g.text(1, false))))
			}
		}
		burst()
	}
	if reopen {
		g.add("w")
	} else {
		for _, f := range live {
			g.add(fmt.Sprintf("%dd", f))
		}
	}
	return cfg, files, g.steps
}

// c15MutateTrace damages a real log in a way no run can produce (nil: the log has nothing to damage that way).
func c15MutateTrace(r *Rand, kind int, evs []extractor.VerifEvent, ended bool) []extractor.VerifEvent {
	cp := append([]extractor.VerifEvent(nil), evs...)
	idx := func(pred func(i int, e extractor.VerifEvent) bool) []int {
		var out []int
		for i, e := range cp {
			if pred(i, e) {
				out = append(out, i)
			}
		}
		return out
	}
	laterSameG := func(i int) bool {
		for j := i + 1; j < len(cp); j++ {
			if cp[j].G == cp[i].G {
				return true
			}
		}
		return false
	}
	switch kind {
	case 1: // an in-loop flush that is not the source's last one is reported as the end-of-stream flush
		c := idx(func(i int, e extractor.VerifEvent) bool {
			if e.Ev != "flush" {
				return false
			}
			for j := i + 1; j < len(cp); j++ {
				if cp[j].S == e.S && (cp[j].Ev == "flush" || cp[j].Ev == "flush.eof") {
					return true
				}
			}
			return false
		})
		if len(c) == 0 {
			return nil
		}
		cp[Pick(r, c)].Ev = "flush.eof"
	case 2: // a send never returns, yet the goroutine goes on
		c := idx(func(i int, e extractor.VerifEvent) bool { return e.Ev == "sent" && laterSameG(i) })
		if len(c) == 0 {
			return nil
		}
		i := Pick(r, c)
		cp = append(cp[:i], cp[i+1:]...)
	case 3: // the consumer receives a batch before the follower offers it
		c := idx(func(i int, e extractor.VerifEvent) bool { return e.Ev == "b.recv" })
		if len(c) == 0 {
			return nil
		}
		i := Pick(r, c)
		e := cp[i]
		j := -1
		for k := 0; k < i; k++ {
			if (cp[k].Ev == "flush" || cp[k].Ev == "flush.eof") && cp[k].S == e.S && cp[k].A == e.A {
				j = k
			}
		}
		if j < 0 {
			return nil
		}
		cp = append(cp[:i], cp[i+1:]...)
		cp = append(cp[:j], append([]extractor.VerifEvent{e}, cp[j:]...)...)
	case 4: // the consumer sees the end of the stream before anything else happened
		if !ended {
			return nil
		}
		c := idx(func(i int, e extractor.VerifEvent) bool { return e.Ev == "b.done" })
		if len(c) == 0 || len(cp) < 4 {
			return nil
		}
		e := cp[c[0]]
		cp = append(cp[:c[0]], cp[c[0]+1:]...)
		cp = append([]extractor.VerifEvent{e}, cp...)
	case 5: // a batch is announced with a BatchStart that is one too large
		c := idx(func(i int, e extractor.VerifEvent) bool { return e.Ev == "flush" || e.Ev == "flush.eof" })
		if len(c) == 0 {
			return nil
		}
		cp[Pick(r, c)].A++
	}
	return cp
}

func c15TraceGenAll(r *Rand, tier string) []string {
	nV, nT, nTp, nM := 40, 3, 0, 10
	if tier == "thorough" {
		nV, nT, nTp, nM = 700, 40, 6, 150
	}
	var out []string
	for i := 0; i < nT; i++ {
		cfg, files, steps := c15GenTraceT(r, false, i%3 == 2)
		out = append(out, c15TraceCase(cfg, files, steps))
	}
	for i := 0; i < nTp; i++ {
		cfg, files, steps := c15GenTraceT(r, true, i%2 == 1)
		out = append(out, c15TraceCase(cfg, files, steps))
	}
	for i := 0; i < nV; i++ {
		cfg, files, steps := c15GenTraceV(r)
		out = append(out, c15TraceCase(cfg, files, steps))
	}
	for i := 0; i < nM; i++ {
		cfg, files, steps := c15GenTraceV(r)
		res := c15TraceRun(cfg, files, steps)
		if !strings.HasPrefix(res.answer, "ok closed=") {
			continue
		}
		m := c15MutateTrace(r, 1+i%5, res.evs, true)
		if m == nil {
			continue
		}
		cs := "tmut " + c15TraceCfgString(cfg, files) + "/" + strings.Join(steps, "_") + "/" + c15EncodeTrace(m, res.srcIdx)
		c15TraceAnswers[cs] = "rejected"
		c15Counters[fmt.Sprintf("trace.damaged.kind%d", 1+i%5)]++
		out = append(out, cs)
	}
	return out
}

func c15TraceStats(st map[string]int, c string) {
	f := strings.Fields(c)
	if len(f) < 2 {
		return
	}
	cfg, files, _, ok := c15SplitTraceBlob(f[1])
	if !ok {
		return
	}
	if f[0] == "tmut" {
		st["trace.damaged"]++
		return
	}
	parts := strings.Split(f[1], "/")
	st["trace.cases"]++
	st["trace.via."+cfg.via]++
	st["trace.mode."+cfg.mode]++
	st["trace.files."+strconv.Itoa(files)]++
	st["trace.buffer."+strconv.Itoa(cfg.buffer)]++
	if cfg.reopen {
		st["trace.reopen"]++
	}
	if parts[2] != "." {
		evs := strings.Split(parts[2], "_")
		st["trace.events"] += len(evs)
		for _, e := range evs {
			q := strings.Split(e, ".")
			if len(q) != 5 {
				continue
			}
			n, _ := strconv.Atoi(q[4])
			switch {
			case q[1] == "fe":
				st["trace.flush.eof"]++
			case q[1] == "fl" && n >= cfg.batch:
				st["trace.flush.full"]++
			case q[1] == "fl":
				st["trace.flush.timer"]++
			}
		}
	}
}
