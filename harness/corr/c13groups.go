//go:build c13

package main

import (
	"fmt"
	"strings"

	"rare/pkg/aggregation"
	"rare/pkg/aggregation/sorting"
	"rare/pkg/expressions/funclib"
)

// Row order of `rare reduce`: the REAL AccumulatingGroup.Groups(sorter) with the sorter cmd/reduce.go builds
// (sorting.ByContextual(), wrapped in sorting.Reverse for --sort-reverse).
//
//   groups <rev 0|1> <groups> <sortkeys | .> <perm>
//
// <groups> distinct group keys, <sortkeys> the value of the --sort expression per group (`.` = no --sort expression),
// <perm> the order in which the rows are sampled.  Every case is run several times (fresh aggregator and sorter, the
// sample order rotated; the groups come out of a Go map, so the arrival order at the sorter differs per run): the answers
// must agree with each other and with the model (rank: sort key by the sorter, equal sort keys by group key text).

func c13GroupsOnce(rev bool, groups, sortkeys []string, order []int) (string, error) {
	aggr := aggregation.NewAccumulatingGroup(funclib.NewKeyBuilder())
	if err := aggr.AddGroupExpr("g", "{1}"); err != nil {
		return "", err
	}
	if sortkeys != nil {
		if err := aggr.AddDataExpr("k", "{2}", ""); err != nil {
			return "", err
		}
		if err := aggr.SetSort("{k}"); err != nil {
			return "", err
		}
	}
	for _, i := range order {
		el := groups[i]
		if sortkeys != nil {
			el += "\x00" + sortkeys[i]
		}
		aggr.Sample(el)
	}
	sorter := sorting.ByContextual()
	if rev {
		sorter = sorting.Reverse(sorter)
	}
	got := aggr.Groups(sorter)
	out := make([]string, len(got))
	for i, g := range got {
		out[i] = string(g)
	}
	return HexListS(out), nil
}

func c13RunGroups(f []string) string {
	rev := f[1] == "1"
	groups := UnHexListS(f[2])
	var sortkeys []string
	if f[3] != "." {
		sortkeys = UnHexListS(f[3])
		if len(sortkeys) != len(groups) {
			return "bad-args"
		}
	}
	order := c13Ints(f[4])
	first := ""
	for round := 0; round < 6; round++ {
		o := append(append([]int{}, order[round%max(1, len(order)):]...), order[:round%max(1, len(order))]...)
		if round >= 3 { // and reversed
			for i, j := 0, len(o)-1; i < j; i, j = i+1, j-1 {
				o[i], o[j] = o[j], o[i]
			}
		}
		ans, err := c13GroupsOnce(rev, groups, sortkeys, o)
		if err != nil {
			return "err " + err.Error()
		}
		if round == 0 {
			first = ans
		} else if ans != first {
			return fmt.Sprintf("ok-unstable %s %s", first, ans)
		}
	}
	return "ok " + first
}

// ---------------------------------------------------------------- generator

func c13GroupsCases(r *Rand, n int) []string {
	var out []string
	for i := 0; i < n; i++ {
		size := r.Range(0, 8)
		if r.Chance(1, 10) {
			size = r.Range(9, 30)
		}
		// group keys: weekday / month names (on which the contextual sorter differs from its fallback), numbers, words
		gclass := Pick(r, []int{2, 2, 3, 11, 0, 1, 6})
		var groups []string
		seen := map[string]bool{}
		for tries := 0; len(groups) < size && tries < 20*size+20; tries++ {
			var k string
			if gclass == 11 {
				k = c13Case(r, Pick(r, append(append([]string{}, c13Weekdays...), c13Months...)))
			} else {
				k = c13Key(r, gclass, "2006-01-02")
			}
			if strings.ContainsRune(k, 0) || seen[k] {
				continue
			}
			seen[k] = true
			groups = append(groups, k)
		}
		size = len(groups)
		sortkeys := "."
		if !r.Chance(1, 5) {
			// sort keys with ties: few distinct values; numbers in several spellings, names, words
			pool := Pick(r, [][]string{{"1", "2", "3"}, {"2", "2", "3", "1", "10"}, {"1", "1.0", "01", "2"}, {"7"}, {"mon", "tue", "Tue", "fri"},
				{"jan", "feb", "dec", "Jan"}, {"a", "b", "B", ""}, {"10", "9", "abc", "1a"}, {"mon", "2", "jan"}, {"", "0"}})
			ks := make([]string, size)
			for j := range ks {
				ks[j] = Pick(r, pool)
			}
			sortkeys = HexListS(ks)
			if size == 0 {
				sortkeys = "."
			}
		}
		rev := "0"
		if r.Bool() {
			rev = "1"
		}
		out = append(out, fmt.Sprintf("groups %s %s %s %s", rev, HexListS(groups), sortkeys, c13IntsField(c13Perm(r, size))))
	}
	return out
}

func c13GroupsCorpus() []string {
	// the rows of the reduce tie: weekday groups, numeric sort keys with ties and non-ties, both directions
	g := HexListS([]string{"Mon", "Fri", "Wed", "Sun", "Sat", "Tue"})
	k := HexListS([]string{"2", "2", "2", "1", "3", "3"})
	var out []string
	for _, rev := range []string{"0", "1"} {
		for _, p := range []string{"0,1,2,3,4,5", "5,4,3,2,1,0", "3,0,4,1,5,2", "1,0,2,5,4,3"} {
			out = append(out, fmt.Sprintf("groups %s %s %s %s", rev, g, k, p))
		}
		out = append(out, fmt.Sprintf("groups %s %s . 2,0,1,5,3,4", rev, g))
		out = append(out, fmt.Sprintf("groups %s %s %s 0,1,2", rev, HexListS([]string{"b", "a", "c"}), HexListS([]string{"x", "x", "x"})))
		out = append(out, fmt.Sprintf("groups %s %s %s 0,1,2,3", rev, HexListS([]string{"jan", "Feb", "10", "9"}), HexListS([]string{"tue", "mon", "tue", "Mon"})))
	}
	return out
}
