//go:build c11 || c08 || c10

package main

// C11 round 4c: the argument-count guards.  Always on: every helper with 0 … hi+2 arguments (hi+3 for the helpers
// without an upper limit: lo … lo+3), values of the right kinds, constants and match groups, both compile modes –
// so every stageErrArgCount / stageErrArgRange branch and both sides of every guard are executed on every run
// (`arity_guards` / `gen_arity` in Props/C11.lean are the proof side).
func c11ArityGrid(r *Rand) []string {
	var out []string
	for _, h := range c11Helpers {
		top := h.max + 2
		if h.max < 0 {
			top = h.min + 3
		}
		for n := 0; n <= top; n++ {
			args := make([]c11Arg, n)
			vals := []string{}
			for i := 0; i < n; i++ {
				k := h.rest
				if i < len(h.kinds) {
					k = h.kinds[i]
				}
				v := c11ValueRaw(r, k, vals)
				vals = append(vals, v)
				mode := 0
				if k != kPrec && k != kCount && k != kTable && k != kPrefix && r.Bool() {
					mode = 1
				}
				args[i] = c11Arg{val: v, mode: mode}
			}
			out = c11Both(out, h.name, args)
		}
	}
	return out
}
