//go:build c11 || c08 || c10

package main

// C11 round 4c: the argument-count guards.  Always on: every helper with 0 … hi+2 arguments (hi+3 for the helpers
// without an upper limit: lo … lo+3), values of the right kinds, constants and match groups, both compile modes –
// so every stageErrArgCount / stageErrArgRange branch and both sides of every guard are executed on every run
// (`arity_guards` / `gen_arity` in Props/C11.lean are the proof side).
func c11ArityGrid(r *Rand) []string {
	var out []string
	for _, h := range c11Helpers {
		top := h.max + 2
		if h.max < 0 {
			top = h.min + 3
		}
		for n := 0; n <= top; n++ {
			args := make([]c11Arg, n)
			vals := []string{}
			for i := 0; i < n; i++ {
				k := h.rest
				if i < len(h.kinds) {
					k = h.kinds[i]
				}
				v := c11ValueRaw(r, k, vals)
				vals = append(vals, v)
				mode := 0
				if k != kPrec && k != kCount && k != kTable && k != kPrefix && r.Bool() {
					mode = 1
				}
				args[i] = c11Arg{val: v, mode: mode}
			}
			out = c11Both(out, h.name, args)
		}
	}
	return out
}

// c11PercentGrid: `{percent v p min max}` at and around the boundary min = max (division by zero: NaN% / ±Inf%),
// with the default range, and with huge operands (overflow of (v-min)*100).  Always on.
func c11PercentGrid(r *Rand) []string {
	var out []string
	vals := []string{"0", "-0", "1", "3", "5", "-2.5", "0.125", "1e308", "-1e308", "5e-324", "1.7976931348623157e308", "abc", "inf", "nan"}
	bounds := []string{"0", "-0", "3", "-2.5", "1e308", "5e-324", "1", "inf"}
	for _, v := range vals {
		for _, p := range []string{"0", "1", "3"} {
			out = c11Both(out, "percent", []c11Arg{{val: v, mode: r.Intn(2)}, {val: p}})
			for _, m := range bounds {
				out = c11Both(out, "percent", []c11Arg{{val: v, mode: r.Intn(2)}, {val: p}, {val: m, mode: r.Intn(2)}, {val: m, mode: r.Intn(2)}})
				out = c11Both(out, "percent", []c11Arg{{val: v, mode: r.Intn(2)}, {val: p}, {val: m, mode: r.Intn(2)}})
			}
		}
	}
	return out
}

// c11CompareGrid: lt / gt / lte / gte on every pair of the special floats (NaN on either side makes all four falsy,
// -0 = +0, the infinities, equal values in different spellings, a non-number).  Always on.
func c11CompareGrid(r *Rand) []string {
	var out []string
	vals := []string{"nan", "NaN", "inf", "-inf", "0", "-0", "1", "1.0", "1e0", "-1", "2", "9007199254740993", "9007199254740992", "abc"}
	for _, name := range []string{"lt", "gt", "lte", "gte"} {
		for _, a := range vals {
			for _, b := range vals {
				m := r.Intn(2)
				out = append(out, c11Case(r.Bool(), name, []c11Arg{{val: a, mode: m}, {val: b, mode: 1 - m}}))
			}
		}
	}
	return out
}
