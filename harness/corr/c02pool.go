//go:build c02

package main

import (
	"bytes"
	"fmt"
	"runtime"
	"strconv"
	"strings"
	"time"

	"rare/pkg/extractor"
	"rare/pkg/extractor/batchers"
	"rare/pkg/matchers"
	"rare/pkg/matchers/dissect"
)

// the dissect instance takes Match.Indices from an IntPool whose block holds this many matches
// (dissect.CreateInstance: NewIntPool((groupCount*2+2) * 1024)); the model side computes the same number from
// the regenerated Gen.C12.poolSize, so the `crossed` field disagrees when the constant moves.
const c02PoolMatches = 1024

// dissectpipe <groups> <pattern> <input> <batch>
//
// The dissect matcher through the real extractor with ONE worker; every match is held until the channel is
// drained (late consumption, GC forced), then Line / LineNumber / Indices / {0} of every held match are
// re-read and compared with a fresh dissect instance asked about that line alone.  With more than 1024
// matches the worker's IntPool is refilled while earlier index slices are still alive.
func c02PoolRun(f []string) string {
	if len(f) != 5 {
		return "bad-args"
	}
	groups, _ := strconv.Atoi(f[1])
	pat := string(UnHex(f[2]))
	d, err := dissect.CompileEx(pat, false)
	if err != nil {
		return "bad-pattern"
	}
	inputs := UnHexList(f[3])
	var data []byte
	if len(inputs) > 0 {
		data = inputs[0]
	}
	batch, _ := strconv.Atoi(f[4])
	b := batchers.OpenReaderToChan("s0", &scriptedReader{rest: append([]byte{}, data...)}, batch, 2)
	ext, err := extractor.New(b.BatchChan(), &extractor.Config{Matcher: matchers.ToFactory(d), Extract: "{0}", Workers: 1})
	if err != nil {
		return "compile-error"
	}
	var held [][]extractor.Match
	for mb := range ext.ReadChan() {
		held = append(held, mb)
	}
	runtime.GC()
	time.Sleep(time.Millisecond)
	lines := bytes.Split(data, []byte("\n"))
	stable, n, bad := 1, 0, ""
	sum := int64(0)
	digest := func(ix []int) int64 {
		acc := int64(1)
		for _, v := range ix {
			acc = (acc*131 + int64(v) + 7) % 1000000007
		}
		return acc
	}
	last := 0
	for _, mb := range held {
		for _, m := range mb {
			n++
			sum = (sum*31 + digest(m.Indices)) % 1000000007
			ln := int(m.LineNumber)
			if ln < 1 || ln > len(lines) || ln <= last {
				stable = 0
				continue
			}
			last = ln
			want := lines[ln-1]
			if m.Line != string(want) {
				stable = 0
			}
			// a fresh instance per line: its answer shares nothing with the worker's pool
			wi := append([]int{}, d.CreateInstance().FindSubmatchIndex(want)...)
			if len(wi) != len(m.Indices) || len(wi) != 2*groups+2 {
				stable = 0
				continue
			}
			for k := range wi {
				if wi[k] != m.Indices[k] {
					stable = 0
					if bad == "" {
						bad = fmt.Sprintf(" first-bad-line=%d indices=%s want=%s", ln, c02IntsStr(m.Indices), c02IntsStr(wi))
					}
				}
			}
			if m.Extracted != string(want[wi[0]:wi[1]]) {
				stable = 0
			}
		}
	}
	crossed := 0
	if n > c02PoolMatches {
		crossed = 1
	}
	return fmt.Sprintf("ok stable=%d n=%d crossed=%d sum=%d%s", stable, n, crossed, sum, bad)
}

func c02PoolGen(r *Rand, tier string) []string {
	var out []string
	type pt struct {
		pat    string
		groups int
		mk     func(a, b, c string) string
	}
	pats := []pt{
		{"%{a} %{b}", 2, func(a, b, c string) string { return a + " " + b }},
		{"k=%{v};", 1, func(a, b, c string) string { return "k=" + a + ";" + b }},
		{"%{?skip} %{x}:%{y}", 2, func(a, b, c string) string { return a + " " + b + ":" + c }},
		{"[%{lvl}] %{msg} (%{n})", 3, func(a, b, c string) string { return "[" + a + "] " + b + " (" + c + ")" }},
	}
	word := func() string { return strings.Repeat(Pick(r, []string{"x", "ab", "q"}), 1+r.Intn(6)) }
	counts := []int{3, c02PoolMatches - 1, c02PoolMatches, c02PoolMatches + 1, 1500, 2 * c02PoolMatches, 2*c02PoolMatches + 1, 3100}
	nc := 5
	if tier == "thorough" {
		nc = 40
	}
	for i := 0; i < nc; i++ {
		p := Pick(r, pats)
		want := Pick(r, counts)
		if i == 0 {
			want = c02PoolMatches + 1 // the smallest input on which a refill happens while match 1 is held
		}
		if i == 1 {
			want = 3100
		}
		var sb bytes.Buffer
		n := 0
		for n < want {
			if r.Chance(1, 9) {
				sb.WriteString(Pick(r, []string{"", "nomatch", "-"}) + "\n") // no match for any of the patterns
				continue
			}
			sb.WriteString(p.mk(word(), word(), word()) + "\n")
			n++
		}
		batch := Pick(r, []int{1, 7, 1000, 2000, 5000})
		out = append(out, fmt.Sprintf("dissectpipe %d %s %s %d", p.groups, HexS(p.pat), HexList([][]byte{sb.Bytes()}), batch))
	}
	return out
}
