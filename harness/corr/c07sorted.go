//go:build c07

package main

// Correspondence for C07, counted / sorted accessors:
//
//	sorted counter <n|v> <count> <hist>   MatchCounter.GroupCount + ItemsSortedBy(count, NVNameSorter|NVValueSorter)
//	sorted subkey  <n|v> <hist>           SubKeyCounter.ItemsSorted
//	sorted table   <n|v> <delim> <hist>   TableAggregator.ColumnCount/RowCount/OrderedColumns/OrderedRows
//
// The sorters are strict total orders on the entries of a map, so the answers must not depend on Go's
// map iteration order (each case is run three times).

import (
	"fmt"
	"strconv"
	"strings"

	"rare/pkg/aggregation"
	"rare/pkg/aggregation/sorting"
)

func c07NVSorter(n string) sorting.NameValueSorter {
	if n == "v" {
		return sorting.NVValueSorter
	}
	return sorting.NVNameSorter
}

func c07SortedRunOnce(f []string) string {
	sorter := c07NVSorter(f[2])
	switch f[1] {
	case "counter":
		count, _ := strconv.Atoi(f[3])
		c := aggregation.NewCounter()
		for _, h := range UnHexListS(f[4]) {
			c.Sample(h)
		}
		items := c.ItemsSortedBy(count, sorter)
		parts := make([]string, len(items))
		for i, it := range items {
			parts[i] = fmt.Sprintf("%s=%d", HexS(it.Name), it.Item.Count())
		}
		return fmt.Sprintf("ok gc=%d [%s]", c.GroupCount(), strings.Join(parts, ","))
	case "subkey":
		c := aggregation.NewSubKeyCounter()
		for _, h := range UnHexListS(f[3]) {
			c.Sample(h)
		}
		items := c.ItemsSorted(sorter)
		parts := make([]string, len(items))
		for i, it := range items {
			parts[i] = fmt.Sprintf("%s=%d", HexS(it.Name), it.Item.Count())
		}
		return fmt.Sprintf("ok [%s]", strings.Join(parts, ","))
	case "table":
		t := aggregation.NewTable(string(UnHex(f[3])))
		for _, h := range UnHexListS(f[4]) {
			t.Sample(h)
		}
		cols := t.OrderedColumns(sorter)
		cparts := make([]string, len(cols))
		for i, c := range cols {
			cparts[i] = fmt.Sprintf("%s=%d", HexS(c), t.ColTotal(c))
		}
		rows := t.OrderedRows(sorter)
		rparts := make([]string, len(rows))
		for i, r := range rows {
			rparts[i] = fmt.Sprintf("%s=%d", HexS(r.Name()), r.Sum())
		}
		return fmt.Sprintf("ok cc=%d rc=%d cols[%s] rows[%s]", t.ColumnCount(), t.RowCount(), strings.Join(cparts, ","), strings.Join(rparts, ","))
	}
	return "bad-op"
}

func c07SortedGen(r *Rand, tier string) []string {
	n := 150
	if tier == "thorough" {
		n = 5000
	}
	var out []string
	for i := 0; i < n; i++ {
		srt := Pick(r, []string{"n", "v", "v"})
		count := Pick(r, []int{0, 1, 2, 3, 5, 10, 1000, -1, 2147483647})
		out = append(out, fmt.Sprintf("sorted counter %s %d %s", srt, count, HexListS(c07Hist(r, "\x00", 1))))
		out = append(out, fmt.Sprintf("sorted subkey %s %s", srt, HexListS(c07Hist(r, "\x00", 2))))
		delim := Pick(r, c07Delims)
		out = append(out, fmt.Sprintf("sorted table %s %s %s", srt, HexS(delim), HexListS(c07Hist(r, delim, 2))))
	}
	return out
}
