//go:build c19

package main

import (
	"fmt"
	"math"
	"math/big"
	"strconv"
	"strings"
)

// C19, IEEE instance (Lean: Model/C19F64.lean evaluated by Drv/C19.lean): inputs that aim at the
// software binary64 arithmetic rather than at the parser.  All cases are ordinary `math` / `expr`
// lines, i.e. real stdmath.Compile(...).Eval(ctx) / `{! …}` through funclib against the model:
//
//   * one operator applied to two arbitrary bit patterns ([0] op [1]): all 17 binary operators over
//     uniformly random patterns, neighbours of powers of two, subnormals, ±0, ±Inf, NaN, the int64
//     conversion boundaries (2^63, 2^53, -2^63 …), shift counts around 0 and 64;
//   * the unary operators and the functions IEEE-754 determines (abs sqrt floor ceil round - !);
//   * `^` with integral exponents of every size (math.Pow's square-and-multiply loop, Frexp, Ldexp,
//     under/overflow, the huge-exponent shortcut) and the special-case switch;
//   * literal spellings through ParseInt-then-ParseFloat (long mantissas, exponents, hex floats
//     without sign, inf/nan words, octal-looking decimals, range errors);
//   * capture text through ParseFloat and results through FormatFloat(v,'f',-1,64) in `{! …}`.

var c19fSpecial = []uint64{
	0x0000000000000000, 0x8000000000000000, 0x0000000000000001, 0x8000000000000001, 0x000fffffffffffff, 0x0010000000000000,
	0x0010000000000001, 0x3ff0000000000000, 0xbff0000000000000, 0x3fefffffffffffff, 0x3ff0000000000001, 0x3fe0000000000000,
	0xbfe0000000000000, 0x3fdfffffffffffff, 0x4000000000000000, 0xc000000000000000, 0x4008000000000000, 0x7fefffffffffffff,
	0xffefffffffffffff, 0x7ff0000000000000, 0xfff0000000000000, 0x7ff8000000000001, 0xfff8000000000000, 0x7ff0000000000001,
	0x43e0000000000000, 0xc3e0000000000000, 0x43dfffffffffffff, 0xc3e0000000000001, 0x43f0000000000000, 0x4340000000000000,
	0x433fffffffffffff, 0x4340000000000001, 0xc340000000000000, 0x4330000000000000, 0x4330000000000001, 0x432fffffffffffff,
	0x4050000000000000, 0x404f800000000000, 0x4050400000000000, 0x3fb999999999999a, 0x3fd3333333333333, 0x3ff8000000000000,
	0x4004000000000000, 0xc004000000000000, 0x400c000000000000, 0x3fe0000000000001, 0xbfdfffffffffffff, 0x41dfffffffc00000,
	0x41e0000000000000, 0xc1e0000000000000, 0x7fe0000000000000, 0x0020000000000000, 0x3ca0000000000000, 0x3cb0000000000000,
}

func c19fBits(r *Rand) uint64 {
	switch r.Intn(10) {
	case 0, 1, 2:
		return Pick(r, c19fSpecial)
	case 3, 4: // uniformly random pattern
		return uint64(r.Intn(1<<32))<<32 | uint64(r.Intn(1<<32))
	case 5: // small integers and halves
		return math.Float64bits(float64(r.Range(-70, 70)) / Pick(r, []float64{1, 1, 2, 4}))
	case 6: // a power of two and its neighbours
		b := math.Float64bits(math.Ldexp(1, r.Range(-1074, 1023)))
		b += uint64(r.Range(-2, 2))
		if r.Bool() {
			b |= 1 << 63
		}
		return b
	case 7: // moderate magnitude, random mantissa
		e := uint64(r.Range(1023-70, 1023+70))
		b := e<<52 | (uint64(r.Intn(1<<26))<<26|uint64(r.Intn(1<<26)))&(1<<52-1)
		if r.Bool() {
			b |= 1 << 63
		}
		return b
	case 8: // integers of every size
		v := float64(int64(uint64(r.Intn(1<<32))<<32|uint64(r.Intn(1<<32))) >> uint(r.Intn(64)))
		return math.Float64bits(v)
	}
	return math.Float64bits(Pick(r, c19Values))
}

func c19fMath(formula string, ms ...uint64) string {
	parts := make([]string, len(ms))
	for i, b := range ms {
		parts[i] = fmt.Sprintf("%016x", b)
	}
	m := "."
	if len(parts) > 0 {
		m = strings.Join(parts, ",")
	}
	return fmt.Sprintf("math %s %s .", HexS(formula), m)
}

// integral exponents of every size, a few non-integral ones (tainted: only "returns" is checked)
func c19fExponent(r *Rand) uint64 {
	switch r.Intn(8) {
	case 0, 1, 2:
		return math.Float64bits(float64(r.Range(-40, 40)))
	case 3:
		return math.Float64bits(float64(r.Range(-1100, 1100)))
	case 4:
		return math.Float64bits(float64(int64(1)<<uint(r.Intn(63))) + float64(r.Range(-1, 1)))
	case 5:
		return math.Float64bits(-float64(int64(1)<<uint(r.Intn(63))) + float64(r.Range(-1, 1)))
	case 6:
		return Pick(r, []uint64{0x3fe0000000000000, 0xbfe0000000000000, 0x43e0000000000000, 0xc3e0000000000000, 0x43f0000000000000,
			0x7ff0000000000000, 0xfff0000000000000, 0x7ff8000000000001, 0, 0x8000000000000000, 0x3ff0000000000000, 0xbff0000000000000,
			0x4340000000000000, 0x4340000000000001, 0x433fffffffffffff, 0xc340000000000001})
	}
	return c19fBits(r)
}

var c19fLitSpellings = []string{"inf", "Inf", "INF", "infinity", "Infinity", "iNfInItY", "infinit", "infi", "nan", "NaN", "NAN", "nane",
	"0x1p4", "0X1P4", "0x1.8p1", "0x.8p1", "0x1p", "0xp1", "0x1.p0", "0x1.fffffffffffffp1023", "0x1p1024", "0x1p1023", "0x0.0000000000001p1",
	"0x1p0", "0x10p0", "0x1.0000000000000800p0", "0x1.00000000000008p0", "0x1.00000000000018p0",
	"09", "08.5", "0o8", "0b2", "0b", "0x", "0o", "00", "007", "0.", ".0", ".", "5.", ".5", "1e", "1e5", "1E5", "1e05", "1e400", "1e309", "1e308",
	"1.7976931348623157e308", "1.7976931348623158e308", "1.7976931348623159e308", "17976931348623157e292", "179769313486231580793728971405303415079934132710037826936173778980444968292764750946649017977587207096330286416692887910946555547851940402630657488671505820681908902000708383676273854845817711531764475730270069855571366959622842914819860834936475292719074168444365510704342711559699508093042880177904174497791",
	"4.9e324", "4.9E324", "5e324", "2.4703282292062327e324", "2.4703282292062328e324", "1e10000", "1e99999999999999999999", "0e99999999999999999999",
	"0.000000000000000000000000000000000000000000001", "123456789012345678901234567890", "9223372036854775808", "18446744073709551615",
	"18446744073709551616", "9007199254740993", "9007199254740992.5", "9007199254740993.0000000000000000000000001", "4503599627370496.5",
	"4503599627370497.5", "0.1", "0.30000000000000004", "2.2250738585072011e308", "2.2250738585072014e308", "1.00000000000000011102230246251565404236316680908203125",
	"1.00000000000000011102230246251565404236316680908203124", "1.00000000000000011102230246251565404236316680908203126",
	"1e23", "8.41e21", "9.5e21", "1_000", "1_0.5", "0x_10", "1__0", "_1", "1_", "0_7", "1e1_0", "e", "e5", "E", "x1", "1x", "0b101", "0B11", "0o17", "0O7",
	"0xfF", "0XAB", "0x7fffffffffffffff", "0x8000000000000000", "1.2.3", "1..2", "--", "[", "]", "[]", "[ ]", "[1", "1]", "[-1]", "[+1]", "[01]",
	"[9223372036854775807]", "[9223372036854775808]", "[1.5]", "[x y]", "[in f]"}

func c19fLiteral(r *Rand) string {
	switch r.Intn(6) {
	case 0, 1:
		return Pick(r, c19fLitSpellings)
	case 2: // digits '.' digits 'e' digits, lengths up to 30
		nd := func(n int) string {
			b := make([]byte, n)
			for i := range b {
				b[i] = byte('0' + r.Intn(10))
			}
			return string(b)
		}
		s := nd(r.Intn(25))
		if r.Bool() {
			s += "." + nd(r.Intn(25))
		}
		if r.Chance(1, 3) {
			s += Pick(r, []string{"e", "E"}) + nd(r.Range(1, 3))
		}
		return s
	case 3: // shortest representation of a random pattern (positive, since '-' splits the token)
		v := math.Abs(math.Float64frombits(c19fBits(r)))
		f := strconv.FormatFloat(v, Pick(r, []byte{'f', 'g', 'e'}), -1, 64)
		if strings.ContainsAny(f, "+-") { // exponent signs would split the token: use 'f'
			f = strconv.FormatFloat(v, 'f', -1, 64)
		}
		return f
	case 4: // a decimal at or next to a rounding boundary: the exact midpoint of two adjacent floats, or that ± a late digit
		b := c19fBits(r) &^ (1 << 63)
		if b >= 0x7fe0000000000000 {
			b = 0x3ff0000000000000 + uint64(r.Intn(1<<20))
		}
		if r.Chance(1, 4) {
			b = uint64(r.Intn(40)) // subnormals: very long expansions
		}
		lo, hi := new(big.Float).SetPrec(2000).SetFloat64(math.Float64frombits(b)), new(big.Float).SetPrec(2000).SetFloat64(math.Float64frombits(b+1))
		mid := new(big.Float).SetPrec(2000).Add(lo, hi)
		mid.Quo(mid, big.NewFloat(2))
		d := []byte(strings.TrimRight(mid.Text('f', 1200), "0"))
		if len(d) > 0 && d[len(d)-1] == '.' {
			d = d[:len(d)-1]
		}
		switch r.Intn(4) {
		case 0: // the tie itself: to even
		case 1: // just above
			if !strings.Contains(string(d), ".") {
				d = append(d, '.')
			}
			d = append(d, []byte(strings.Repeat("0", r.Intn(30))+"1")...)
		case 2: // just below: decrement the last non-zero digit and append nines
			for p := len(d) - 1; p >= 0; p-- {
				if d[p] >= '1' && d[p] <= '9' {
					d[p]--
					if !strings.Contains(string(d), ".") {
						d = append(d, '.')
					}
					d = append(d, []byte(strings.Repeat("9", 1+r.Intn(30)))...)
					break
				}
			}
		case 3: // truncated: fewer digits than the exact expansion
			if len(d) > 20 {
				d = d[:20+r.Intn(len(d)-20)]
			}
		}
		return string(d)
	}
	return strconv.Itoa(r.Intn(100000))
}

var c19fTrigForms = []string{"sin([0])", "cos([0])", "tan([0])", "asin([0])", "acos([0])", "atan([0])", "exp2([0])",
	"sin([0])", "cos([0])", "tan([0])", "atan([0])", "exp2([0])", "asin([0])",
	"sin([0])*sin([0])+cos([0])*cos([0])", "sin([0])/cos([0])==tan([0])", "atan(tan([0]))", "asin(sin([0]))", "acos(cos([0]))", "tan(atan([0]))",
	"sin(-[0])==-sin([0])", "exp2([0])*exp2(-[0])", "log2(exp2([0]))", "exp2(floor([0]))", "2^floor([0])==exp2(floor([0]))", "4*atan(1)", "acos(-1)",
	"asin([0])+acos([0])", "atan([0]/[1])", "sin([0]+[1])", "cos([0]*[1])", "round(sin([0])*1000)", "sqrt(1-sin([0])^2)", "exp2([0]/[1])"}

// arguments that matter to sin.go / tan.go / atan.go / asin.go / trig_reduce.go / exp.go (exp2)
func c19fTrigArg(r *Rand, a uint64) uint64 {
	sgn := func(b uint64) uint64 {
		if r.Chance(1, 3) {
			return b | 1<<63
		}
		return b
	}
	switch r.Intn(12) {
	case 0: // a multiple of pi/4 and its neighbours (the octant boundaries; cancellation in the Cody-Waite reduction)
		return sgn(math.Float64bits(float64(r.Range(0, 4000))*(math.Pi/4)) + uint64(r.Range(-3, 3)))
	case 1: // large multiples: still below 2^29
		return sgn(math.Float64bits(float64(r.Intn(1<<29))*(math.Pi/4)) + uint64(r.Range(-2, 2)))
	case 2: // around reduceThreshold = 2^29
		return sgn(uint64(int64(math.Float64bits(1<<29)) + int64(r.Range(-3, 3))))
	case 3: // Payne-Hanek: every exponent from 2^29 to the top, random mantissa
		return sgn(uint64(r.Range(1023+29, 2046))<<52 | (uint64(r.Intn(1<<26))<<26 | uint64(r.Intn(1<<26))))
	case 4: // Payne-Hanek near multiples of pi/4
		k := float64(uint64(r.Intn(1<<31))<<uint(r.Intn(22)) + 1<<31)
		return sgn(math.Float64bits(k*(math.Pi/4)) + uint64(r.Range(-2, 2)))
	case 5: // [-1, 1]: asin / acos, the 0.7 / 0.66 / tan(3pi/8) thresholds
		return sgn(Pick(r, []uint64{math.Float64bits(0.7), math.Float64bits(0.66), math.Float64bits(2.41421356237309504880), math.Float64bits(1), math.Float64bits(0.5),
			math.Float64bits(math.Sqrt2 / 2)}) + uint64(r.Range(-3, 3)))
	case 6: // uniformly in (-1, 1)
		return sgn(math.Float64bits(float64(r.Intn(1<<30)) / float64(1<<30)))
	case 7: // tiny: zz <= 1e-14 in tan, the series' first terms
		return sgn(math.Float64bits(math.Ldexp(1+float64(r.Intn(1<<20))/float64(1<<20), -r.Range(1, 1074))))
	case 8: // exp2: integers and halves over the whole range, the overflow / underflow bounds
		return math.Float64bits(float64(r.Range(-1080, 1030)) + Pick(r, []float64{0, 0, 0.5, -0.5, 0.25, 1e-9, 0.4999999999999999}))
	case 9:
		return Pick(r, []uint64{math.Float64bits(1023.9999999999999), math.Float64bits(1024), math.Float64bits(1023.9999999999998), math.Float64bits(-1074), math.Float64bits(-1074.0000000000002),
			math.Float64bits(-1073.9999999999998), math.Float64bits(-1075), math.Float64bits(-1022), math.Float64bits(-1022.5), math.Float64bits(-1023), math.Float64bits(1023),
			math.Float64bits(0.5), math.Float64bits(-0.5), math.Float64bits(0.49999999999999994), math.Float64bits(math.Pi), math.Float64bits(math.Pi / 2), math.Float64bits(355),
			math.Float64bits(1e22), math.Float64bits(math.MaxFloat64), 1, 1 << 63, 0, 0x7ff0000000000000, 0xfff0000000000000, 0x7ff8000000000001})
	case 10: // moderate magnitude
		return math.Float64bits((float64(r.Intn(1<<30))/float64(1<<30) - 0.5) * Pick(r, []float64{4, 20, 200, 2000, 1e6}))
	}
	return a
}

func c19F64Gen(r *Rand, tier string) []string {
	n := 700
	if tier == "thorough" {
		n = 9000
	}
	var out []string
	// fixed: one of every operator on the int64 boundaries, Pow's documented special cases
	for _, op := range c19BinOps {
		for _, p := range [][2]uint64{{0x43e0000000000000, 0x4008000000000000}, {0xc3e0000000000000, 0xbff0000000000000}, {0x7ff8000000000001, 0x4008000000000000},
			{0x4014000000000000, 0x7ff8000000000001}, {0x8000000000000000, 0x0000000000000000}, {0x7ff0000000000000, 0xfff0000000000000}, {0x3ff0000000000000, 0x4050000000000000},
			{0xbff0000000000000, 0x404f800000000000}, {0x0000000000000001, 0x0000000000000001}, {0x7fefffffffffffff, 0x7fefffffffffffff}} {
			out = append(out, c19fMath("[0]"+op+"[1]", p[0], p[1]))
		}
	}
	for _, p := range [][2]uint64{{0x8000000000000000, 0xc008000000000000}, {0x8000000000000000, 0x4008000000000000}, {0x8000000000000000, 0xc000000000000000},
		{0xfff0000000000000, 0x4008000000000000}, {0xfff0000000000000, 0xc008000000000000}, {0xfff0000000000000, 0x4000000000000000}, {0xfff0000000000000, 0x3ff0000000000000},
		{0xfff0000000000000, 0xbff0000000000000}, {0xbff0000000000000, 0x7ff0000000000000}, {0x3fe0000000000000, 0xfff0000000000000}, {0x4000000000000000, 0xfff0000000000000},
		{0xc000000000000000, 0x3fe0000000000000}, {0xc000000000000000, 0x3fd0000000000000}, {0x4010000000000000, 0xbfe0000000000000}, {0x4000000000000000, 0x4090000000000000},
		{0x4000000000000000, 0xc090cc0000000000}, {0x4000000000000000, 0xc090c80000000000}, {0x3fe0000000000000, 0x4090cc0000000000}, {0x4008000000000000, 0x4340000000000001},
		{0xc008000000000000, 0x4340000000000001}, {0x3ff0000000000001, 0x43d0000000000000}, {0xbff0000000000000, 0x43f0000000000000}, {0x3fefffffffffffff, 0x43f0000000000000},
		{0x0000000000000001, 0x4000000000000000}, {0x0000000000000001, 0xbff0000000000000}, {0x7fefffffffffffff, 0xbff0000000000000}, {0x0010000000000000, 0xbff0000000000000},
		{0x4024000000000000, 0x4073400000000000}, {0x4024000000000000, 0xc074400000000000}, {0x4024000000000000, 0xc074300000000000}} {
		out = append(out, c19fMath("[0]^[1]", p[0], p[1]))
	}
	for i := 0; i < n; i++ {
		a, b := c19fBits(r), c19fBits(r)
		op := c19BinOps[i%len(c19BinOps)]
		switch op {
		case "<<", ">>": // shift counts that matter
			if r.Chance(2, 3) {
				b = math.Float64bits(float64(r.Range(-3, 70)) + Pick(r, []float64{0, 0, 0.5, -0.5}))
			}
		case "^":
			b = c19fExponent(r)
		case "%", "&", "|":
			if r.Chance(1, 3) {
				b = math.Float64bits(float64(r.Range(-9, 9)))
			}
		}
		out = append(out, c19fMath("[0]"+Pick(r, []string{"", " "})+op+Pick(r, []string{"", " "})+"[1]", a, b))
		// a second `^` per round with a tame base: the loop's rounding, not only its overflow
		if i%3 == 0 {
			x := math.Float64bits(Pick(r, []float64{2, 3, 10, 0.1, -0.1, 1.0000001, -3, 0.5, 1.5, 7, -2, 0.9999999, 1e10, 1e-10, 3.5, 5e-324, 1e308}))
			if r.Chance(1, 3) {
				x = math.Float64bits(float64(r.Range(-30, 30)) / Pick(r, []float64{1, 3, 7, 16}))
			}
			out = append(out, c19fMath("[0]^[1]", x, c19fExponent(r)))
		}
		// unary operators and the exact functions, also composed
		u := Pick(r, []string{"-[0]", "![0]", "abs([0])", "sqrt([0])", "floor([0])", "ceil([0])", "round([0])",
			"sqrt(abs([0]))", "round([0]/[1])", "floor([0])%ceil([1])", "-abs(-[0])", "sqrt([0]*[0])", "floor([0]+0.5)", "ceil(-[0])", "![0]+![1]"})
		out = append(out, c19fMath(u, a, b))
		// the logarithms (math.Log = log_amd64.s, Log10, Log2: modelled operation by operation since round 4b):
		// arbitrary patterns, subnormals (the assembly does not normalise them), the rescaling boundary
		// sqrt(2)/2 and its neighbours at every exponent, exact powers of two and of ten
		if i%2 == 0 {
			x := a
			switch r.Intn(8) {
			case 0: // a subnormal
				x = uint64(r.Intn(1<<26))<<26 | uint64(r.Intn(1<<26))
				if r.Bool() {
					x >>= uint(r.Intn(52))
				}
			case 1: // sqrt(2)/2 · 2^k and neighbours
				x = 0x3fe6a09e667f3bcd&(1<<52-1) | uint64(r.Range(1, 2046))<<52
				x += uint64(r.Range(-2, 2))
			case 2: // 2^k
				x = uint64(r.Range(0, 2046)) << 52
				if x == 0 {
					x = 1 << uint(r.Intn(52))
				}
			case 3: // 10^k, k·ln2-ish integers
				x = math.Float64bits(math.Pow(10, float64(r.Range(-300, 300))))
			case 4: // positive, moderate
				x = a &^ (1 << 63)
			}
			l := Pick(r, []string{"log([0])", "log10([0])", "log2([0])", "log([0])", "log10([0])", "log2([0])",
				"log(abs([0]))", "log2([0])+log2([1])", "log10([0])*2", "floor(log10([0]))", "log2(sqrt([0]))", "log([0])/log([1])", "round(log2([0]))==log2([0])"})
			out = append(out, c19fMath(l, x, b&^(1<<63)))
		}
		// the trigonometric functions and exp2 (pure Go on amd64; modelled operation by operation since round 4c)
		if i%2 == 1 {
			out = append(out, c19fMath(Pick(r, c19fTrigForms), c19fTrigArg(r, a), b))
		}
		// literals
		if i%2 == 0 {
			l := c19fLiteral(r)
			f := l
			switch r.Intn(5) {
			case 0:
				f = l + "+0"
			case 1:
				f = "-" + l
			case 2:
				f = "x" + Pick(r, []string{"*", "+", "<", "=="}) + l
			}
			out = append(out, fmt.Sprintf("math %s . %s=%016x", HexS(f), HexS("x"), c19fBits(r)))
			if i%8 == 0 {
				out = append(out, "gram "+HexS(l))
			}
		}
		// an int64 of any size as constant (ParseInt, float64(n)) and as capture text (ParseFloat): the same value
		// (int_constant_equals_bound_text); also beyond int64 and with a leading '-'
		if i%4 == 3 {
			n := int64(uint64(r.Intn(1<<32))<<32|uint64(r.Intn(1<<32))) >> uint(r.Intn(64))
			if n < 0 {
				n = -(n + 1)
			}
			txt := strconv.FormatInt(n, 10)
			switch r.Intn(6) {
			case 0:
				txt = strconv.FormatUint(uint64(n)+uint64(r.Intn(3))<<62+uint64(r.Intn(1<<30)), 10) // up to 2^64
			case 1:
				txt = Pick(r, []string{"9007199254740993", "9007199254740992", "9223372036854775807", "9223372036854775808", "18446744073709551615",
					"18446744073709551616", "4611686018427387905", "36028797018963969", "1" + strings.Repeat("0", r.Intn(40))})
			}
			tmpl := Pick(r, []string{"{! [0] == " + txt + "}", "{! [0] - " + txt + "}", "{! x == " + txt + "}", "{! [1] == -" + txt + "}", "{! [1] + " + txt + "}"})
			out = append(out, ExprCase(r.Bool(), tmpl, []string{txt, "-" + txt}, []string{"x", txt}))
		}
		// capture text → ParseFloat, result → FormatFloat
		if i%2 == 1 {
			v := math.Float64frombits(a)
			el := strconv.FormatFloat(v, Pick(r, []byte{'g', 'e', 'f', 'G', 'E'}), Pick(r, []int{-1, -1, -1, 3, 17, 20}), 64)
			switch r.Intn(12) {
			case 0:
				el = Pick(r, []string{"+", "-", "+.", "-.5", "+5", "+inf", "-Inf", "+nan", "-nan", "infinity", "+Infinity", "-iNF", "in", " 1", "1 ", "1e+", "1e-", "1e+5", "1E-5",
					"0x1p-2", "-0x1.8P+1", "0x1p", "0X.1p1", "1_000", "1__0", "0x_1p0", "1_e5", "1e5_0", "_", "", "1e-400", "-1e-400", "1e400", "-1e400", "0e400", "00000000000000000000000001",
					"0.00000000000000000000000000000000001e35", "100000000000000000000000000000000000e-35"})
			case 1:
				el = c19fLiteral(r)
			}
			tmpl := Pick(r, []string{"{! [0]}", "{! [0]+0}", "{! [0]*1}", "{! -[0]}", "{! x}", "{! [x]}", "{! x/3}", "{! [0]/[1]}", "{! [0]*[1]}", "{! sqrt([0])}", "{! [0]^2}", "{! [0] == x}", "{! 1/[0]}"})
			out = append(out, ExprCase(r.Bool(), tmpl, []string{el, strconv.FormatFloat(math.Float64frombits(b), 'g', -1, 64)}, []string{"x", el}))
		}
	}
	return out
}
