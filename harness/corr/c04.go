//go:build c04

package main

import (
	"fmt"
	"io"
	"runtime"
	"strconv"
	"strings"

	"rare/pkg/extractor"
	"rare/pkg/extractor/batchers"
	"rare/pkg/readahead"
)

// c04CountingReader wraps the scripted reader and counts Read calls with an empty destination
// (the io.Reader contract allows those to return 0, nil for ever: a scanner must never issue one).
type c04CountingReader struct {
	r         io.Reader
	zeroDest  int
	readCalls int
	rooms     []string // len(p) of every Read(p), in order (op rooms)
}

func (c *c04CountingReader) Read(p []byte) (int, error) {
	c.readCalls++
	c.rooms = append(c.rooms, strconv.Itoa(len(p)))
	if len(p) == 0 {
		c.zeroDest++
	}
	return c.r.Read(p)
}

func c04Run(f []string) (res string) {
	defer func() {
		if e := recover(); e != nil {
			res = "panic" // the model predicts panics (NewBuffered with maxBufLen <= 1): compare the word only
		}
	}()
	switch f[0] {
	case "imm", "buf":
		size, _ := strconv.Atoi(f[1])
		data := append([]byte{}, UnHex(f[2])...)
		rd := &scriptedReader{rest: data, script: parseScript(f[3])}
		var sc readahead.Scanner
		if f[0] == "imm" {
			sc = readahead.NewImmediate(rd, size)
		} else {
			sc = readahead.NewBuffered(rd, size)
		}
		errs := 0
		sc.OnError(func(error) { errs++ })
		var held [][]byte // slices exactly as handed out (no copy)
		var atReturn [][]byte
		limit := len(data) + len(rd.script) + 3
		done := false
		for i := 0; i < limit; i++ {
			if !sc.Scan() {
				done = true
				break
			}
			b := sc.Bytes()
			held = append(held, b)
			atReturn = append(atReturn, append([]byte{}, b...))
		}
		d := 0
		if done {
			d = 1
		}
		return fmt.Sprintf("ok errs=%d done=%d t=%s r=%s", errs, d, HexList(atReturn), HexList(held))
	}
	switch f[0] {
	case "big", "nocb", "scr":
		return c04RunBig(f)
	case "conc":
		return c04RunConc(f)
	case "gz":
		return c04RunGz(f)
	case "rooms":
		// the destination size of every Read the scanner issues: the allocation sizes (initial, regrow, refill) made
		// observable; compared one by one with the model's `cap - end` / `cap - readOffset`
		size, _ := strconv.Atoi(f[2])
		data := append([]byte{}, UnHex(f[3])...)
		rd := &scriptedReader{rest: data, script: parseScript(f[4])}
		cr := &c04CountingReader{r: rd}
		var sc readahead.Scanner
		if f[1] == "imm" {
			sc = readahead.NewImmediate(cr, size)
		} else {
			sc = readahead.NewBuffered(cr, size)
		}
		lines := 0
		limit := len(data) + len(rd.script) + 3
		for i := 0; i < limit && sc.Scan(); i++ {
			lines++
		}
		rooms := "."
		if len(cr.rooms) > 0 {
			rooms = strings.Join(cr.rooms, ",")
		}
		return fmt.Sprintf("ok rooms=%s lines=%d", rooms, lines)
	case "conccases":
		// the case list for the race-detector run of extra/C04.py: `conccases <seed>`
		seed, _ := strconv.ParseUint(f[1], 10, 64)
		return "ok " + strings.Join(c04GenConc(NewRand(seed), "race"), "|")
	case "dropcr":
		in := append([]byte{}, UnHex(f[1])...)
		keep := append([]byte{}, in...)
		out := readahead.VerifDropCR(in)
		same := 1
		if string(in) != string(keep) {
			same = 0 // dropCR must not write to its argument
		}
		return fmt.Sprintf("ok %s unchanged=%d", Hex(out), same)
	case "maxi":
		a, _ := strconv.Atoi(f[1])
		b, _ := strconv.Atoi(f[2])
		return fmt.Sprintf("ok %d", readahead.VerifMaxi(a, b))
	case "rl":
		// the ReadLine() API: call it until it answers nil; count Reads with an empty destination
		size, _ := strconv.Atoi(f[2])
		data := append([]byte{}, UnHex(f[3])...)
		rd := &scriptedReader{rest: data, script: parseScript(f[4])}
		cr := &c04CountingReader{r: rd}
		var readLine func() []byte
		errs := 0
		if f[1] == "imm" {
			sc := readahead.NewImmediate(cr, size)
			sc.OnError(func(error) { errs++ })
			readLine = sc.ReadLine
		} else {
			sc := readahead.NewBuffered(cr, size)
			sc.OnError(func(error) { errs++ })
			readLine = sc.ReadLine
		}
		var held, atReturn [][]byte
		limit := len(data) + len(rd.script) + 3
		done := 0
		for i := 0; i < limit; i++ {
			l := readLine()
			if l == nil {
				done = 1
				break
			}
			held = append(held, l)
			atReturn = append(atReturn, append([]byte{}, l...))
		}
		after := 0 // once nil, always nil
		if done == 1 && readLine() == nil && readLine() == nil {
			after = 1
		}
		return fmt.Sprintf("ok errs=%d done=%d t=%s r=%s z=%d again=%d", errs, done, HexList(atReturn), HexList(held), cr.zeroDest, after)
	case "sync":
		// the real syncReaderToBatcher (per-file loop of OpenFilesToChan) over a scripted reader; every batch is
		// held until the channel closes, then re-read (late) and compared with what it held on arrival
		batchSize, _ := strconv.Atoi(f[1])
		data := append([]byte{}, UnHex(f[2])...)
		rd := &scriptedReader{rest: data, script: parseScript(f[3])}
		b := batchers.VerifSyncReaderToChan("src", rd, batchSize, 1)
		var held []extractor.InputBatch
		var onArrival []string
		render := func(ib extractor.InputBatch) string {
			ls := make([][]byte, len(ib.Batch))
			for i, l := range ib.Batch {
				ls[i] = l
			}
			return fmt.Sprintf("%d:%s:%s", ib.BatchStart, ib.Source, HexList(ls))
		}
		for ib := range b.BatchChan() {
			held = append(held, ib)
			onArrival = append(onArrival, render(ib))
		}
		runtime.GC()
		var late []string
		for _, ib := range held {
			late = append(late, render(ib))
		}
		stable := 1
		if strings.Join(late, "|") != strings.Join(onArrival, "|") {
			stable = 0
		}
		out := "."
		if len(late) > 0 {
			out = strings.Join(late, "|")
		}
		return fmt.Sprintf("ok errs=%d stable=%d b=%s", b.ReadErrors(), stable, out)
	}
	return "bad-op"
}

func c04Gen(r *Rand, tier string) []string {
	n := 1500
	if tier == "thorough" {
		n = 120000
	}
	var out []string
	alpha := []byte{'a', '\n', '\r', 'b', '\n'}
	for i := 0; i < n; i++ {
		kind := "imm"
		size := Pick(r, []int{1, 2, 3, 4, 5, 8, 16})
		if r.Chance(1, 3) {
			kind = "buf"
			if size < 2 {
				size = 2
			}
		}
		// lengths around multiples of the buffer size
		ln := r.Intn(4)*size + r.Range(-1, 1) + r.Intn(3)
		if r.Chance(1, 4) {
			ln = r.Intn(40)
		}
		if ln < 0 {
			ln = 0
		}
		data := make([]byte, ln)
		for j := range data {
			if r.Chance(1, 10) {
				data[j] = byte(r.Intn(256))
			} else {
				data[j] = Pick(r, alpha)
			}
		}
		var steps []string
		ns := r.Intn(ln + 3)
		if r.Chance(1, 5) {
			ns = 0
		}
		errAt := -1
		if r.Chance(1, 2) {
			errAt = r.Intn(ns + 1)
		}
		for j := 0; j < ns; j++ {
			want := r.Intn(4)
			if r.Chance(1, 8) {
				want = r.Intn(20)
			}
			e := "n"
			if j == errAt {
				e = Pick(r, []string{"e", "f", "f"})
			}
			steps = append(steps, fmt.Sprintf("%d:%s", want, e))
			if j == errAt {
				break
			}
		}
		sc := "."
		if len(steps) > 0 {
			sc = strings.Join(steps, ",")
		}
		out = append(out, fmt.Sprintf("%s %d %s %s", kind, size, Hex(data), sc))
	}
	out = append(out, c04GenMore(r, tier)...)
	out = append(out, c04GenBig(r, tier)...)
	out = append(out, c04GenConc(r, tier)...)
	out = append(out, c04GenGz(r, tier)...)
	// op rooms: the Read destination sizes for a sample of the imm / buf cases above (same data, script, size)
	{
		every := 6
		var rooms []string
		for i, c := range out {
			if i%every == 0 && (strings.HasPrefix(c, "imm ") || strings.HasPrefix(c, "buf ")) {
				rooms = append(rooms, "rooms "+c)
			}
		}
		out = append(out, rooms...)
	}
	if tier == "thorough" {
		// exhaustive: all strings over {a,\n,\r} up to length 6 x buffer sizes 1..4 x one-byte reads / all-at-once
		var rec func(cur []byte)
		rec = func(cur []byte) {
			for _, size := range []int{1, 2, 3, 4} {
				for _, sc := range []string{".", "1:n,1:n,1:n,1:n,1:n,1:n", "2:n,0:n,1:n,3:n", "3:n,2:f"} {
					out = append(out, fmt.Sprintf("imm %d %s %s", size, Hex(cur), sc))
					if size >= 2 {
						out = append(out, fmt.Sprintf("buf %d %s %s", size, Hex(cur), sc))
					}
				}
			}
			if len(cur) < 6 {
				for _, c := range []byte{'a', '\n', '\r'} {
					rec(append(append([]byte{}, cur...), c))
				}
			}
		}
		rec(nil)
	}
	return out
}

// c04GenMore: round-4 cases – the helper ops, the ReadLine API, syncReaderToBatcher, long stalls (more
// consecutive 0-byte reads than bufio's limit of 100), regrow chains (lines many times the buffer), a
// delimiter / CR at every position relative to the buffer end, (n>0, err) exactly at a full buffer.
func c04GenMore(r *Rand, tier string) []string {
	var out []string
	n := 400
	if tier == "thorough" {
		n = 40000
	}
	alpha := []byte{'a', '\n', '\r', 'b', '\n', '\r'}
	rndData := func(ln int) []byte {
		d := make([]byte, ln)
		for j := range d {
			if r.Chance(1, 12) {
				d[j] = byte(r.Intn(256))
			} else {
				d[j] = Pick(r, alpha)
			}
		}
		return d
	}
	rndScript := func(ln int) string {
		ns := r.Intn(ln + 3)
		if r.Chance(1, 4) {
			return "."
		}
		var steps []string
		errAt := -1
		if r.Chance(1, 2) {
			errAt = r.Intn(ns + 1)
		}
		for j := 0; j < ns; j++ {
			want := r.Intn(5)
			if r.Chance(1, 8) {
				want = r.Intn(40)
			}
			e := "n"
			if j == errAt {
				e = Pick(r, []string{"e", "f", "f"})
			}
			steps = append(steps, fmt.Sprintf("%d:%s", want, e))
			if j == errAt {
				break
			}
		}
		if len(steps) == 0 {
			return "."
		}
		return strings.Join(steps, ",")
	}
	// NewBuffered refuses maxBufLen <= 1 (panic); NewImmediate accepts 1
	out = append(out, "buf 1 610a .", "buf 0 610a 1:n", "rl buf 1 610a .", "imm 1 610a62 .")
	for i := 0; i < n; i++ {
		switch r.Intn(8) {
		case 0: // dropCR
			d := rndData(r.Intn(6))
			if r.Chance(1, 2) {
				d = append(d, '\r')
			}
			if r.Chance(1, 6) {
				d = append(d, '\r', '\r')
			}
			out = append(out, "dropcr "+Hex(d))
		case 1:
			out = append(out, fmt.Sprintf("maxi %d %d", r.Range(0, 70000), r.Range(0, 70000)))
		case 2, 3: // ReadLine API
			kind, size := "imm", Pick(r, []int{1, 2, 3, 4, 7, 16, 64})
			if r.Chance(1, 2) {
				kind = "buf"
				if size < 2 {
					size = 2
				}
			}
			d := rndData(r.Intn(3*size + 4))
			out = append(out, fmt.Sprintf("rl %s %d %s %s", kind, size, Hex(d), rndScript(len(d))))
		case 4: // long stall, then data
			kind, size := "imm", Pick(r, []int{1, 2, 5})
			if r.Chance(1, 3) {
				kind, size = "buf", size+1
			}
			d := rndData(r.Range(1, 12))
			stall := strings.Repeat("0:n,", r.Range(101, 260))
			tail := Pick(r, []string{"1:n", "3:n,0:n,2:f", "2:e", "64:n"})
			out = append(out, fmt.Sprintf("%s %d %s %s%s", kind, size, Hex(d), stall, tail))
		case 5: // regrow chain: one line many times the buffer, delivered in odd chunks
			kind, size := "imm", Pick(r, []int{1, 2, 3})
			if r.Chance(1, 2) {
				kind, size = "buf", size+1
			}
			ln := r.Range(20, 90)
			d := make([]byte, 0, ln+4)
			for j := 0; j < ln; j++ {
				d = append(d, byte('a'+j%26))
			}
			d = append(d, Pick(r, []string{"\n", "\r\n", "", "\r", "\n\r", "\r\nxy"})...)
			out = append(out, fmt.Sprintf("%s %d %s %s", kind, size, Hex(d), rndScript(ln)))
		case 6: // "\r\n" (or a lone '\r' / '\n') at every offset relative to the buffer end; (n>0,err) at the boundary
			kind, size := "imm", Pick(r, []int{2, 3, 4, 8})
			if r.Chance(1, 2) {
				kind = "buf"
			}
			pos := r.Range(0, 2*size+1)
			d := []byte(strings.Repeat("a", pos))
			d = append(d, Pick(r, []string{"\r\n", "\r", "\n", "\r\r\n", "\n\n"})...)
			d = append(d, rndData(r.Intn(size+2))...)
			sc := Pick(r, []string{".", fmt.Sprintf("%d:n,1:n,1:n,1:n", pos), fmt.Sprintf("%d:f", size), fmt.Sprintf("%d:n,%d:f", size, size),
				fmt.Sprintf("%d:e", pos+1), fmt.Sprintf("%d:n,0:f", pos+1), fmt.Sprintf("%d:n,0:n,0:e", size)})
			out = append(out, fmt.Sprintf("%s %d %s %s", kind, size, Hex(d), sc))
		case 7: // syncReaderToBatcher
			d := rndData(r.Intn(60))
			out = append(out, fmt.Sprintf("sync %d %s %s", Pick(r, []int{1, 1, 2, 3, 5, 1000}), Hex(d), rndScript(len(d))))
		}
	}
	return out
}

func c04Stats(cases []string) map[string]int {
	st := map[string]int{}
	for _, c := range cases {
		f := strings.Fields(c)
		st["kind."+f[0]]++
		switch f[0] {
		case "dropcr", "maxi":
			continue
		case "conc":
			st["conc."+f[1]]++
			continue
		case "gz":
			st["gz."+f[1]]++
			for _, k := range c04GzClass(UnHex(f[3])) {
				st["gz."+k]++
			}
			continue
		case "big":
			st["big."+f[1]]++
			if strings.Contains(f[4], ":f") {
				st["script.fail"]++
			}
			continue
		case "rl", "nocb", "scr", "rooms":
			f = f[1:]
		case "sync":
			f = []string{"sync", "131072", f[2], f[3]}
		}
		if strings.Count(f[3], "0:n") > 100 {
			st["script.stallOver100"]++
		}
		if strings.Contains(f[3], ":f") {
			st["script.fail"]++
		}
		if strings.Contains(f[3], ":e") {
			st["script.earlyEOF"]++
		}
		if strings.Contains(f[3], "0:n") {
			st["script.zeroRead"]++
		}
		if f[3] == "." {
			st["script.none"]++
		}
		d := UnHex(f[2])
		sz, _ := strconv.Atoi(f[1])
		if len(d) > sz {
			st["data.longerThanBuf"]++
		}
		if strings.Contains(string(d), "\r\n") {
			st["data.crlf"]++
		}
		if len(d) > 0 && d[len(d)-1] != '\n' {
			st["data.noTrailingNl"]++
		}
	}
	return st
}

func init() {
	Register("C04", &Prop{Gen: c04Gen, Run: c04Run, Stats: c04Stats})
}
