//go:build c04

package main

import (
	"fmt"
	"strconv"
	"strings"

	"rare/pkg/readahead"
)

func c04Run(f []string) string {
	switch f[0] {
	case "imm", "buf":
		size, _ := strconv.Atoi(f[1])
		data := append([]byte{}, UnHex(f[2])...)
		rd := &scriptedReader{rest: data, script: parseScript(f[3])}
		var sc readahead.Scanner
		if f[0] == "imm" {
			sc = readahead.NewImmediate(rd, size)
		} else {
			sc = readahead.NewBuffered(rd, size)
		}
		errs := 0
		sc.OnError(func(error) { errs++ })
		var held [][]byte // slices exactly as handed out (no copy)
		var atReturn [][]byte
		limit := len(data) + len(rd.script) + 3
		done := false
		for i := 0; i < limit; i++ {
			if !sc.Scan() {
				done = true
				break
			}
			b := sc.Bytes()
			held = append(held, b)
			atReturn = append(atReturn, append([]byte{}, b...))
		}
		d := 0
		if done {
			d = 1
		}
		return fmt.Sprintf("ok errs=%d done=%d t=%s r=%s", errs, d, HexList(atReturn), HexList(held))
	}
	return "bad-op"
}

func c04Gen(r *Rand, tier string) []string {
	n := 1500
	if tier == "thorough" {
		n = 60000
	}
	var out []string
	alpha := []byte{'a', '\n', '\r', 'b', '\n'}
	for i := 0; i < n; i++ {
		kind := "imm"
		size := Pick(r, []int{1, 2, 3, 4, 5, 8, 16})
		if r.Chance(1, 3) {
			kind = "buf"
			if size < 2 {
				size = 2
			}
		}
		// lengths around multiples of the buffer size
		ln := r.Intn(4)*size + r.Range(-1, 1) + r.Intn(3)
		if r.Chance(1, 4) {
			ln = r.Intn(40)
		}
		if ln < 0 {
			ln = 0
		}
		data := make([]byte, ln)
		for j := range data {
			if r.Chance(1, 10) {
				data[j] = byte(r.Intn(256))
			} else {
				data[j] = Pick(r, alpha)
			}
		}
		var steps []string
		ns := r.Intn(ln + 3)
		if r.Chance(1, 5) {
			ns = 0
		}
		errAt := -1
		if r.Chance(1, 2) {
			errAt = r.Intn(ns + 1)
		}
		for j := 0; j < ns; j++ {
			want := r.Intn(4)
			if r.Chance(1, 8) {
				want = r.Intn(20)
			}
			e := "n"
			if j == errAt {
				e = Pick(r, []string{"e", "f", "f"})
			}
			steps = append(steps, fmt.Sprintf("%d:%s", want, e))
			if j == errAt {
				break
			}
		}
		sc := "."
		if len(steps) > 0 {
			sc = strings.Join(steps, ",")
		}
		out = append(out, fmt.Sprintf("%s %d %s %s", kind, size, Hex(data), sc))
	}
	if tier == "thorough" {
		// exhaustive: all strings over {a,\n,\r} up to length 6 x buffer sizes 1..4 x one-byte reads / all-at-once
		var rec func(cur []byte)
		rec = func(cur []byte) {
			for _, size := range []int{1, 2, 3, 4} {
				for _, sc := range []string{".", "1:n,1:n,1:n,1:n,1:n,1:n", "2:n,0:n,1:n,3:n", "3:n,2:f"} {
					out = append(out, fmt.Sprintf("imm %d %s %s", size, Hex(cur), sc))
					if size >= 2 {
						out = append(out, fmt.Sprintf("buf %d %s %s", size, Hex(cur), sc))
					}
				}
			}
			if len(cur) < 6 {
				for _, c := range []byte{'a', '\n', '\r'} {
					rec(append(append([]byte{}, cur...), c))
				}
			}
		}
		rec(nil)
	}
	return out
}

func c04Stats(cases []string) map[string]int {
	st := map[string]int{}
	for _, c := range cases {
		f := strings.Fields(c)
		st["kind."+f[0]]++
		if strings.Contains(f[3], ":f") {
			st["script.fail"]++
		}
		if strings.Contains(f[3], ":e") {
			st["script.earlyEOF"]++
		}
		if strings.Contains(f[3], "0:n") {
			st["script.zeroRead"]++
		}
		if f[3] == "." {
			st["script.none"]++
		}
		d := UnHex(f[2])
		sz, _ := strconv.Atoi(f[1])
		if len(d) > sz {
			st["data.longerThanBuf"]++
		}
		if strings.Contains(string(d), "\r\n") {
			st["data.crlf"]++
		}
		if len(d) > 0 && d[len(d)-1] != '\n' {
			st["data.noTrailingNl"]++
		}
	}
	return st
}

func init() {
	Register("C04", &Prop{Gen: c04Gen, Run: c04Run, Stats: c04Stats})
}
